package main

import (
	"crypto/sha256"
	"encoding/hex"
	"fmt"
	"go/types"
	"math"
	"regexp"
	"sort"
	"strconv"
	"strings"
	"unicode/utf8"

	"golang.org/x/tools/go/ssa"
)

type intrinsicFn func(m *Machine, fn *ssa.Function, args []Value) Value

var intrinsics = map[string]intrinsicFn{}

func init() {
	I := intrinsics
	// ---- bytes / strings helpers with assembly bodies ----
	I["bytes.Compare"] = func(m *Machine, fn *ssa.Function, a []Value) Value {
		x, y := m.sliceTerms(a[0].(SliceVal)), m.sliceTerms(a[1].(SliceVal))
		lt, eq := m.lexCompare(x, y)
		tt := m.tt
		return tt.Ite(lt, tt.Const(^uint64(0), 64), tt.Ite(eq, tt.Const(0, 64), tt.Const(1, 64)))
	}
	I["bytes.Equal"] = func(m *Machine, fn *ssa.Function, a []Value) Value {
		x, y := a[0].(SliceVal), a[1].(SliceVal)
		if x.Len != y.Len {
			return m.tt.F
		}
		return m.bytesEq(m.sliceTerms(x), m.sliceTerms(y))
	}
	I["internal/bytealg.Equal"] = I["bytes.Equal"]
	I["internal/bytealg.Compare"] = I["bytes.Compare"]
	I["bytes.HasPrefix"] = func(m *Machine, fn *ssa.Function, a []Value) Value {
		x, y := a[0].(SliceVal), a[1].(SliceVal)
		if x.Len < y.Len {
			return m.tt.F
		}
		return m.bytesEq(m.sliceTerms(x)[:y.Len], m.sliceTerms(y))
	}
	I["internal/bytealg.IndexByte"] = func(m *Machine, fn *ssa.Function, a []Value) Value {
		x := m.sliceTerms(a[0].(SliceVal))
		c := a[1].(*Term)
		return m.indexByte(x, c)
	}
	I["internal/bytealg.IndexByteString"] = func(m *Machine, fn *ssa.Function, a []Value) Value {
		x := m.stringTerms(a[0].(StringVal))
		c := a[1].(*Term)
		return m.indexByte(x, c)
	}
	I["strings.Index"] = func(m *Machine, fn *ssa.Function, a []Value) Value {
		x, y := a[0].(StringVal), a[1].(StringVal)
		if x.Sym == nil && y.Sym != nil && len(y.Sym) == 1 && len(x.S) <= 64 {
			// one symbolic byte searched in a concrete string: ite chain over the positions, -1 if absent
			res := m.tt.Const(^uint64(0), 64)
			for i := len(x.S) - 1; i >= 0; i-- {
				res = m.tt.Ite(m.tt.Eq(y.Sym[0], m.tt.Const(uint64(x.S[i]), 8)), m.tt.Const(uint64(i), 64), res)
			}
			return res
		}
		if x.Sym != nil || y.Sym != nil {
			m.unsupported("strings.Index on symbolic strings")
		}
		return m.tt.Const(uint64(int64(strings.Index(x.S, y.S))), 64)
	}
	I["strings.Contains"] = func(m *Machine, fn *ssa.Function, a []Value) Value {
		x, y := a[0].(StringVal), a[1].(StringVal)
		if x.Sym != nil || y.Sym != nil {
			m.unsupported("strings.Contains on symbolic strings")
		}
		return m.tt.Bool(strings.Contains(x.S, y.S))
	}
	I["internal/bytealg.MakeNoZero"] = func(m *Machine, fn *ssa.Function, a []Value) Value {
		n := m.concInt(a[0], "MakeNoZero")
		if n < 0 || n > 1<<16 {
			m.goPanic("engine: MakeNoZero size out of range")
		}
		return m.mkBytes(make([]byte, n))
	}
	I["bytes.Repeat"] = func(m *Machine, fn *ssa.Function, a []Value) Value {
		b := a[0].(SliceVal)
		n := m.concInt(a[1], "bytes.Repeat count")
		if n < 0 || int(n)*b.Len > 1<<16 {
			m.goPanic("bytes: Repeat count out of range")
		}
		ts := m.sliceTerms(b)
		var out []*Term
		for i := 0; i < int(n); i++ {
			out = append(out, ts...)
		}
		return m.mkByteTerms(out)
	}
	// ---- errors / fmt ----
	I["fmt.Errorf"] = func(m *Machine, fn *ssa.Function, a []Value) Value {
		m.path.opaqueID++
		o := &Opaque{ID: m.path.opaqueID, Kind: "error"}
		if f, ok := a[0].(StringVal); ok {
			o.Note = f.S
			if strings.Contains(f.S, "%w") {
				if va, ok := a[1].(SliceVal); ok {
					for i := 0; i < va.Len; i++ {
						if iv, ok := va.Cells[i].V.(IfaceVal); ok && iv.T != nil {
							if isErrorValue(m, iv) {
								o.Wrapped = iv
							}
						}
					}
				}
			}
		}
		return IfaceVal{T: types.Typ[types.String], V: o}
	}
	opaqueString := func(m *Machine, fn *ssa.Function, a []Value) Value {
		// concrete formatting when possible
		if s, ok := m.tryFormat(fn.Name(), a); ok {
			return StringVal{S: s}
		}
		m.path.opaqueID++
		return StringVal{S: fmt.Sprintf("<fmt#%d>", m.path.opaqueID)}
	}
	I["fmt.Sprintf"] = opaqueString
	I["fmt.Sprint"] = opaqueString
	I["fmt.Sprintln"] = opaqueString
	I["fmt.Println"] = func(m *Machine, fn *ssa.Function, a []Value) Value {
		return TupleVal{m.tt.Const(0, 64), IfaceVal{}}
	}
	I["fmt.Printf"] = I["fmt.Println"]
	I["fmt.Print"] = I["fmt.Println"]
	I["errors.Is"] = func(m *Machine, fn *ssa.Function, a []Value) Value {
		err, target := a[0].(IfaceVal), a[1].(IfaceVal)
		if target.T == nil {
			return m.tt.Bool(err.T == nil)
		}
		for depth := 0; depth < 16 && err.T != nil; depth++ {
			if eq := m.valuesEqual(err, target, nil); eq.IsTrue() {
				return m.tt.T
			} else if !eq.IsFalse() {
				if m.branch(eq) {
					return m.tt.T
				}
			}
			// unwrap
			if o, ok := err.V.(*Opaque); ok {
				if o.Wrapped == nil {
					return m.tt.F
				}
				err = o.Wrapped.(IfaceVal)
				continue
			}
			ms := m.prog.MethodSets.MethodSet(err.T)
			sel := ms.Lookup(nil, "Unwrap")
			if sel == nil {
				return m.tt.F
			}
			r := m.callFn(m.prog.MethodValue(sel), []Value{err.V}, nil)
			next, ok := r.(IfaceVal)
			if !ok {
				return m.tt.F
			}
			err = next
		}
		return m.tt.F
	}
	I["errors.As"] = func(m *Machine, fn *ssa.Function, a []Value) Value {
		m.unsupported("errors.As")
		return nil
	}
	// ---- hashing ----
	I["github.com/LiskHQ/lisk-engine/pkg/crypto.Hash"] = func(m *Machine, fn *ssa.Function, a []Value) Value {
		return m.hashBytes(a[0].(SliceVal))
	}
	I["crypto/sha256.Sum256"] = func(m *Machine, fn *ssa.Function, a []Value) Value {
		s := m.hashBytes(a[0].(SliceVal))
		av := &ArrayVal{E: make([]Value, 32)}
		for i := 0; i < 32; i++ {
			av.E[i] = s.Cells[i].V
		}
		return av
	}
	// ---- encoding/hex, strconv, math (concrete only) ----
	I["encoding/hex.EncodeToString"] = func(m *Machine, fn *ssa.Function, a []Value) Value {
		if b, ok := m.sliceConcreteBytes(a[0].(SliceVal)); ok {
			return StringVal{S: hex.EncodeToString(b)}
		}
		m.path.opaqueID++
		return StringVal{S: fmt.Sprintf("<hex#%d>", m.path.opaqueID)}
	}
	I["strconv.Itoa"] = func(m *Machine, fn *ssa.Function, a []Value) Value {
		return StringVal{S: strconv.Itoa(int(m.concInt(a[0], "strconv.Itoa")))}
	}
	I["strconv.FormatInt"] = func(m *Machine, fn *ssa.Function, a []Value) Value {
		return StringVal{S: strconv.FormatInt(m.concInt(a[0], "strconv.FormatInt"), int(m.concInt(a[1], "base")))}
	}
	I["strconv.FormatUint"] = func(m *Machine, fn *ssa.Function, a []Value) Value {
		return StringVal{S: strconv.FormatUint(uint64(m.concInt(a[0], "strconv.FormatUint")), int(m.concInt(a[1], "base")))}
	}
	I["strconv.ParseInt"] = func(m *Machine, fn *ssa.Function, a []Value) Value {
		s := a[0].(StringVal)
		if s.Sym != nil {
			m.unsupported("strconv.ParseInt on symbolic string")
		}
		v, err := strconv.ParseInt(s.S, int(m.concInt(a[1], "base")), int(m.concInt(a[2], "bits")))
		var e Value = IfaceVal{}
		if err != nil {
			m.path.opaqueID++
			e = IfaceVal{T: types.Typ[types.String], V: &Opaque{ID: m.path.opaqueID, Kind: "error", Note: err.Error()}}
		}
		return TupleVal{m.tt.Const(uint64(v), 64), e}
	}
	f1 := func(f func(float64) float64) intrinsicFn {
		return func(m *Machine, fn *ssa.Function, a []Value) Value { return FloatVal(f(float64(a[0].(FloatVal)))) }
	}
	I["math.Floor"] = f1(math.Floor)
	I["math.Ceil"] = f1(math.Ceil)
	I["math.Log2"] = f1(math.Log2)
	I["math.Sqrt"] = f1(math.Sqrt)
	I["math.Abs"] = f1(math.Abs)
	I["math.Pow"] = func(m *Machine, fn *ssa.Function, a []Value) Value {
		return FloatVal(math.Pow(float64(a[0].(FloatVal)), float64(a[1].(FloatVal))))
	}
	I["math.Max"] = func(m *Machine, fn *ssa.Function, a []Value) Value {
		return FloatVal(math.Max(float64(a[0].(FloatVal)), float64(a[1].(FloatVal))))
	}
	I["math.Min"] = func(m *Machine, fn *ssa.Function, a []Value) Value {
		return FloatVal(math.Min(float64(a[0].(FloatVal)), float64(a[1].(FloatVal))))
	}
	// ---- unicode ----
	I["unicode/utf8.Valid"] = func(m *Machine, fn *ssa.Function, a []Value) Value {
		s := a[0].(SliceVal)
		if b, ok := m.sliceConcreteBytes(s); ok {
			return m.tt.Bool(utf8.Valid(b))
		}
		return m.asciiOrUF("utf8valid", m.sliceTerms(s))
	}
	I["unicode/utf8.ValidString"] = func(m *Machine, fn *ssa.Function, a []Value) Value {
		s := a[0].(StringVal)
		if s.Sym == nil {
			return m.tt.Bool(utf8.ValidString(s.S))
		}
		return m.asciiOrUF("utf8valid", s.Sym)
	}
	I["(golang.org/x/text/unicode/norm.Form).IsNormal"] = func(m *Machine, fn *ssa.Function, a []Value) Value {
		s := a[1].(SliceVal)
		if b, ok := m.sliceConcreteBytes(s); ok {
			ascii := true
			for _, x := range b {
				if x >= 0x80 {
					ascii = false
				}
			}
			if ascii {
				return m.tt.T
			}
		}
		return m.asciiOrUF("nfcnormal", m.sliceTerms(s))
	}
	I["(golang.org/x/text/unicode/norm.Form).IsNormalString"] = func(m *Machine, fn *ssa.Function, a []Value) Value {
		s := a[1].(StringVal)
		return m.asciiOrUF("nfcnormal", m.stringTerms(s))
	}
	normString := func(m *Machine, fn *ssa.Function, a []Value) Value {
		s := a[1].(StringVal)
		ts := m.stringTerms(s)
		// contract: IsNormal(s) => String(s) == s (ASCII is always normal)
		normal := m.asciiOrUF("nfcnormal", ts)
		if !m.branch(normal) {
			m.unsupported("norm.NFC.String on a symbolic string that is not known to be NFC-normal")
		}
		return s
	}
	I["(golang.org/x/text/unicode/norm.Form).String"] = normString
	I["(golang.org/x/text/unicode/norm.Form).Bytes"] = func(m *Machine, fn *ssa.Function, a []Value) Value {
		s := a[1].(SliceVal)
		normString(m, fn, []Value{a[0], m.mkString(m.sliceTerms(s))})
		return s
	}
	// ---- regexp: opaque compiled pattern; matching of the one pattern used on symbolic input ----
	I["regexp.MustCompile"] = func(m *Machine, fn *ssa.Function, a []Value) Value {
		m.path.opaqueID++
		return Ptr{C: &Cell{T: fn.Signature.Results().At(0).Type().(*types.Pointer).Elem(), ID: -1, Obj: a[0].(StringVal).S}}
	}
	I["(*regexp.Regexp).MatchString"] = func(m *Machine, fn *ssa.Function, a []Value) Value {
		pat, _ := a[0].(Ptr).C.Obj.(string)
		return m.regexMatch(pat, m.stringTerms(a[1].(StringVal)))
	}
	I["(*regexp.Regexp).Match"] = func(m *Machine, fn *ssa.Function, a []Value) Value {
		pat, _ := a[0].(Ptr).C.Obj.(string)
		return m.regexMatch(pat, m.sliceTerms(a[1].(SliceVal)))
	}
	// ---- blst (cgo): nondeterministic stubs, see DESIGN §3 ----
	const blstP = "github.com/supranational/blst/bindings/go."
	recvOrNil := func(m *Machine, fn *ssa.Function, a []Value) Value {
		if m.cfg.Opts["blstnil"] == "1" {
			v := m.freshVar("blst.uncompress.ok", 1)
			if !m.branch(m.tt.Eq(v, m.tt.Const(1, 1))) {
				return Ptr{}
			}
		}
		return a[0]
	}
	I["(*"+blstP+"P1Affine).Uncompress"] = recvOrNil
	I["(*"+blstP+"P2Affine).Uncompress"] = recvOrNil
	I["(*"+blstP+"P1Affine).Deserialize"] = recvOrNil
	I["(*"+blstP+"P2Affine).Deserialize"] = recvOrNil
	nondetBool := func(name string) intrinsicFn {
		return func(m *Machine, fn *ssa.Function, a []Value) Value {
			v := m.freshVar(name, 1)
			return m.tt.Eq(v, m.tt.Const(1, 1))
		}
	}
	I["(*"+blstP+"P2Affine).FastAggregateVerify"] = nondetBool("blst.FastAggregateVerify")
	I["(*"+blstP+"P2Affine).Verify"] = nondetBool("blst.Verify")
	I["(*"+blstP+"P2Affine).AggregateVerify"] = nondetBool("blst.AggregateVerify")
	I["(*"+blstP+"P1Affine).KeyValidate"] = nondetBool("blst.KeyValidate")
	I["(*"+blstP+"P2Affine).SigValidate"] = nondetBool("blst.SigValidate")
	// ---- sort ----
	I["sort.Slice"] = func(m *Machine, fn *ssa.Function, a []Value) Value {
		m.sortSlice(a[0].(IfaceVal).V.(SliceVal), a[1].(*Closure))
		return nil
	}
	I["sort.SliceStable"] = I["sort.Slice"]
	I["sort.SliceIsSorted"] = func(m *Machine, fn *ssa.Function, a []Value) Value {
		s := a[0].(IfaceVal).V.(SliceVal)
		less := a[1].(*Closure)
		for i := s.Len - 1; i > 0; i-- {
			r := m.callFn(less.Fn, []Value{m.tt.Const(uint64(i), 64), m.tt.Const(uint64(i-1), 64)}, less.Bind).(*Term)
			if m.branch(r) {
				return m.tt.F
			}
		}
		return m.tt.T
	}
	// ---- time ----
	I["time.Now"] = func(m *Machine, fn *ssa.Function, a []Value) Value {
		m.unsupported("time.Now (use the harness clock)")
		return nil
	}
	// ---- sync ----
	I["(*sync.Mutex).Lock"] = func(m *Machine, fn *ssa.Function, a []Value) Value { m.mutexLock(a[0].(Ptr).C, true, "Lock"); return nil }
	I["(*sync.Mutex).Unlock"] = func(m *Machine, fn *ssa.Function, a []Value) Value {
		m.mutexUnlock(a[0].(Ptr).C, true)
		return nil
	}
	I["(*sync.Mutex).TryLock"] = func(m *Machine, fn *ssa.Function, a []Value) Value {
		m.unsupported("TryLock")
		return nil
	}
	I["(*sync.RWMutex).Lock"] = I["(*sync.Mutex).Lock"]
	I["(*sync.RWMutex).Unlock"] = I["(*sync.Mutex).Unlock"]
	I["(*sync.RWMutex).RLock"] = func(m *Machine, fn *ssa.Function, a []Value) Value { m.mutexLock(a[0].(Ptr).C, false, "RLock"); return nil }
	I["(*sync.RWMutex).RUnlock"] = func(m *Machine, fn *ssa.Function, a []Value) Value {
		m.mutexUnlock(a[0].(Ptr).C, false)
		return nil
	}
	I["(*sync.WaitGroup).Add"] = func(m *Machine, fn *ssa.Function, a []Value) Value {
		c := a[0].(Ptr).C
		st := m.wgState(c)
		st.n += int(m.concInt(a[1], "wg.Add"))
		if st.n < 0 {
			m.goPanic("sync: negative WaitGroup counter")
		}
		return nil
	}
	I["(*sync.WaitGroup).Done"] = func(m *Machine, fn *ssa.Function, a []Value) Value {
		st := m.wgState(a[0].(Ptr).C)
		m.vcRelease(&st.vc)
		st.n--
		if st.n < 0 {
			m.goPanic("sync: negative WaitGroup counter")
		}
		return nil
	}
	I["(*sync.WaitGroup).Wait"] = func(m *Machine, fn *ssa.Function, a []Value) Value {
		st := m.wgState(a[0].(Ptr).C)
		m.yieldPoint("wg.Wait")
		if st.n > 0 {
			m.block(func() bool { return st.n == 0 }, "WaitGroup.Wait in "+m.curFn())
		}
		m.vcAcquire(st.vc)
		return nil
	}
	I["(*sync.Once).Do"] = func(m *Machine, fn *ssa.Function, a []Value) Value {
		c := a[0].(Ptr).C
		if c.Obj == nil {
			c.Obj = true
			cl := a[1].(*Closure)
			m.callFn(cl.Fn, nil, cl.Bind)
		}
		return nil
	}
	// errgroup
	I["(*golang.org/x/sync/errgroup.Group).Go"] = func(m *Machine, fn *ssa.Function, a []Value) Value {
		c := a[0].(Ptr).C
		st := m.egState(c)
		cl := a[1].(*Closure)
		st.n++
		m.spawn(func() {
			r := m.callFn(cl.Fn, nil, cl.Bind)
			if iv, ok := r.(IfaceVal); ok && iv.T != nil && st.err == nil {
				e := iv
				st.err = &e
			}
			m.vcRelease(&st.vc)
			st.n--
		})
		return nil
	}
	I["(*golang.org/x/sync/errgroup.Group).Wait"] = func(m *Machine, fn *ssa.Function, a []Value) Value {
		st := m.egState(a[0].(Ptr).C)
		m.yieldPoint("errgroup.Wait")
		if st.n > 0 {
			m.block(func() bool { return st.n == 0 }, "errgroup.Wait in "+m.curFn())
		}
		m.vcAcquire(st.vc)
		if st.err != nil {
			return *st.err
		}
		return IfaceVal{}
	}
	I["golang.org/x/sync/errgroup.WithContext"] = func(m *Machine, fn *ssa.Function, a []Value) Value {
		gt := fn.Signature.Results().At(0).Type().(*types.Pointer).Elem()
		return TupleVal{Ptr{C: m.newCell(gt)}, a[0]}
	}
	// atomic
	I["sync/atomic.AddInt32"] = func(m *Machine, fn *ssa.Function, a []Value) Value {
		p := a[0].(Ptr)
		m.path.atomicDepth++
		v := m.tt.Add(m.loadPtr(p).(*Term), a[1].(*Term))
		m.storePtr(p, v)
		m.path.atomicDepth--
		return v
	}
	I["sync/atomic.AddInt64"] = I["sync/atomic.AddInt32"]
	I["sync/atomic.AddUint32"] = I["sync/atomic.AddInt32"]
	I["sync/atomic.AddUint64"] = I["sync/atomic.AddInt32"]
	I["sync/atomic.LoadInt32"] = func(m *Machine, fn *ssa.Function, a []Value) Value {
		m.path.atomicDepth++
		defer func() { m.path.atomicDepth-- }()
		return m.loadPtr(a[0].(Ptr))
	}
	I["sync/atomic.LoadInt64"] = I["sync/atomic.LoadInt32"]
	I["sync/atomic.LoadUint32"] = I["sync/atomic.LoadInt32"]
	I["sync/atomic.LoadUint64"] = I["sync/atomic.LoadInt32"]
	I["sync/atomic.StoreInt32"] = func(m *Machine, fn *ssa.Function, a []Value) Value {
		m.path.atomicDepth++
		m.storePtr(a[0].(Ptr), a[1])
		m.path.atomicDepth--
		return nil
	}
	I["sync/atomic.StoreInt64"] = I["sync/atomic.StoreInt32"]
	I["sync/atomic.StoreUint32"] = I["sync/atomic.StoreInt32"]
	I["sync/atomic.StoreUint64"] = I["sync/atomic.StoreInt32"]
	// math/bits (pure Go bodies exist, but these are hot)
	// rand
	I["math/rand.Intn"] = func(m *Machine, fn *ssa.Function, a []Value) Value {
		n := a[0].(*Term)
		v := m.freshVar("rand.Intn", 64)
		m.assume(m.tt.Ult(v, n))
		return v
	}
}

func (m *Machine) regexMatch(pat string, bs []*Term) Value {
	tt := m.tt
	conc := true
	b := make([]byte, len(bs))
	for i, t := range bs {
		if !t.IsConst() {
			conc = false
			break
		}
		b[i] = byte(t.C)
	}
	if conc {
		re, err := regexp.Compile(pat)
		if err != nil {
			m.unsupported("regexp " + pat)
		}
		return tt.Bool(re.Match(b))
	}
	if pat != "^[a-zA-Z0-9]*$" {
		m.unsupported("regexp on symbolic input: " + pat)
	}
	res := tt.T
	in := func(x *Term, lo, hi byte) *Term {
		return tt.And(tt.Ule(tt.Const(uint64(lo), 8), x), tt.Ule(x, tt.Const(uint64(hi), 8)))
	}
	for _, x := range bs {
		res = tt.And(res, tt.Or(in(x, '0', '9'), tt.Or(in(x, 'a', 'z'), in(x, 'A', 'Z'))))
	}
	return res
}

func isErrorValue(m *Machine, iv IfaceVal) bool {
	if o, ok := iv.V.(*Opaque); ok {
		return o.Kind == "error"
	}
	ms := m.prog.MethodSets.MethodSet(iv.T)
	return ms.Lookup(nil, "Error") != nil
}

func (m *Machine) indexByte(x []*Term, c *Term) Value {
	tt := m.tt
	res := tt.Const(^uint64(0), 64)
	for i := len(x) - 1; i >= 0; i-- {
		res = tt.Ite(tt.Eq(x[i], c), tt.Const(uint64(i), 64), res)
	}
	return res
}

// asciiOrUF: true when every byte is provably ASCII under constant folding, otherwise an
// uninterpreted predicate over the bytes constrained to be true for all-ASCII input.
func (m *Machine) asciiOrUF(name string, bs []*Term) *Term {
	tt := m.tt
	if len(bs) == 0 {
		return tt.T
	}
	ascii := tt.T
	for _, b := range bs {
		ascii = tt.And(ascii, tt.Ult(b, tt.Const(0x80, 8)))
	}
	if ascii.IsTrue() {
		return tt.T
	}
	u := tt.UF(fmt.Sprintf("%s_%d", name, len(bs)), 0, tt.Concat(bs...))
	// contract: ASCII input is valid / normalised
	return tt.Or(ascii, u)
}

func (m *Machine) freshVar(base string, w int) *Term {
	p := m.path
	p.freshSeq++
	name := fmt.Sprintf("%s#%d", base, p.freshSeq)
	return m.namedVar(name, w)
}

func (m *Machine) namedVar(name string, w int) *Term {
	p := m.path
	if t, ok := p.vars[name]; ok {
		return t
	}
	t := m.tt.Var(name, w)
	p.vars[name] = t
	p.varOrd = append(p.varOrd, name)
	return t
}

// addFact asserts a term that is a consequence of the environment model (not a decision).
func (m *Machine) addFact(t *Term) {
	if t.IsTrue() {
		return
	}
	if m.path.live {
		m.sol.Assert(t)
	}
	if p := m.path; p.ev != nil {
		if v, ok := p.ev.eval(t); !ok || v != 1 {
			p.ev = nil
		}
	}
}

func (m *Machine) hashBytes(s SliceVal) SliceVal {
	tt := m.tt
	if b, ok := m.sliceConcreteBytes(s); ok {
		h := sha256.Sum256(b)
		m.recordHash(m.sliceTerms(s), tt.BigConst(h[:]))
		return m.mkBytes(h[:])
	}
	in := m.sliceTerms(s)
	out := tt.UF(fmt.Sprintf("H_%d", len(in)), 256, tt.Concat(in...))
	m.recordHash(in, out)
	res := make([]*Term, 32)
	for i := 0; i < 32; i++ {
		res[i] = tt.Extract(out, 255-8*i, 248-8*i)
	}
	return m.mkByteTerms(res)
}

func (m *Machine) recordHash(in []*Term, out *Term) {
	p := m.path
	for _, h := range p.hashApps {
		if h.out == out {
			return
		}
	}
	p.hashApps = append(p.hashApps, hashApp{in: in, out: out})
}

// hashRun recognises, at position i of a byte vector, the 32 (or at least min) leading bytes of a hash
// value: either the extracts of one uninterpreted H_n application or the constant output of a
// concretely computed hash recorded on this path. Returns the preimage bytes.
func (m *Machine) hashRun(ts []*Term, i, min int) ([]*Term, int, bool) {
	if i >= len(ts) {
		return nil, 0, false
	}
	t0 := ts[i]
	if t0.Op == "extract:255:248" && t0.Args[0].Op == "uf" && strings.HasPrefix(t0.Args[0].Name, "H_") {
		uf := t0.Args[0]
		n := 1
		for n < 32 && i+n < len(ts) && ts[i+n] == m.tt.Extract(uf, 255-8*n, 248-8*n) {
			n++
		}
		if n >= min {
			for _, h := range m.path.hashApps {
				if h.out == uf {
					return h.in, n, true
				}
			}
		}
		return nil, 0, false
	}
	if t0.IsConst() && len(m.path.hashApps) > 0 {
		n := 0
		for n < 32 && i+n < len(ts) && ts[i+n].IsConst() {
			n++
		}
		if n < min {
			return nil, 0, false
		}
		for _, h := range m.path.hashApps {
			if h.out.Big == nil || len(h.out.Big) != 32 {
				continue
			}
			k := 0
			for k < n && byte(ts[i+k].C) == h.out.Big[k] {
				k++
			}
			if k >= min && (k == n || k == 32) {
				return h.in, k, true
			}
		}
	}
	return nil, 0, false
}

// hashDepthLimit (//zz:opt hashdepth=N, default 6): how deep bytesEq follows hash values nested in
// preimages (Merkle nodes). Below the limit the preimages are compared bytewise without further facts,
// so two different trees deeper than the limit can look equal to the solver.
func (m *Machine) hashDepthLimit() int {
	if s, ok := m.cfg.Opts["hashdepth"]; ok {
		if n, err := strconv.Atoi(s); err == nil && n > 0 {
			return n
		}
	}
	return 6
}

// bytesEq is bit-wise equality of two equal-length byte vectors. Where both sides carry a hash value
// at the same position, the collision-freeness of the hash model (DESIGN §3) is asserted as a fact
// for exactly that pair: equal hash bytes imply equal preimages (and when the preimages are
// syntactically different, the hash bytes differ). Facts are added per compared pair only.
func (m *Machine) bytesEq(a, b []*Term) *Term {
	tt := m.tt
	if len(a) != len(b) {
		return tt.F
	}
	eq := tt.T
	for i := 0; i < len(a); {
		if a[i] == b[i] {
			i++
			continue
		}
		if !(a[i].IsConst() && b[i].IsConst()) {
			if pa, na, ok := m.hashRun(a, i, 20); ok {
				if pb, nb, ok := m.hashRun(b, i, 20); ok && na == nb {
					run := tt.T
					for k := 0; k < na; k++ {
						run = tt.And(run, tt.Eq(a[i+k], b[i+k]))
					}
					var pe *Term
					if len(pa) != len(pb) {
						pe = tt.F
					} else if len(pa) == 0 {
						pe = tt.T
					} else if m.path.hashDepth < m.hashDepthLimit() {
						// preimages may embed hash values themselves (Merkle nodes): recurse so that
						// collision-freeness is applied at every level
						m.path.hashDepth++
						pe = m.bytesEq(pa, pb)
						m.path.hashDepth--
					} else {
						pe = tt.T
						for k := range pa {
							pe = tt.And(pe, tt.Eq(pa[k], pb[k]))
							if pe.IsFalse() {
								break
							}
						}
					}
					key := [2]int{run.ID, pe.ID}
					if !m.path.hashFacts[key] {
						if m.path.hashFacts == nil {
							m.path.hashFacts = map[[2]int]bool{}
						}
						m.path.hashFacts[key] = true
						m.addFact(tt.Implies(run, pe))
					}
					if pe.IsFalse() {
						return tt.F
					}
					eq = tt.And(eq, run)
					i += na
					continue
				}
			}
		}
		eq = tt.And(eq, tt.Eq(a[i], b[i]))
		if eq.IsFalse() {
			return eq
		}
		i++
	}
	return eq
}

// sortSlice: insertion sort over the real cells using the real less closure (forks on comparisons).
func (m *Machine) sortSlice(s SliceVal, less *Closure) {
	n := s.Len
	tt := m.tt
	for i := 1; i < n; i++ {
		for j := i; j > 0; j-- {
			r := m.callFn(less.Fn, []Value{tt.Const(uint64(j), 64), tt.Const(uint64(j-1), 64)}, less.Bind).(*Term)
			if n > 8 {
				// large slices only with comparisons that are decided (no forking): a symbolic order of more
				// than 8 elements would fork factorially
				if _, ok := evalConst(r); !ok {
					m.unsupported("sort.Slice with more than 8 elements and a symbolic order")
				}
			}
			if !m.branch(r) {
				break
			}
			a, b := m.load(s.Cells[j]), m.load(s.Cells[j-1])
			m.store(s.Cells[j], b)
			m.store(s.Cells[j-1], a)
		}
	}
}

// tryFormat formats with the host fmt when every argument is concrete.
func (m *Machine) tryFormat(kind string, a []Value) (string, bool) {
	var format string
	var va SliceVal
	if kind == "Sprintf" {
		f, ok := a[0].(StringVal)
		if !ok || f.Sym != nil {
			return "", false
		}
		format = f.S
		va, _ = a[1].(SliceVal)
	} else {
		va, _ = a[0].(SliceVal)
	}
	var hostArgs []interface{}
	for i := 0; i < va.Len; i++ {
		iv, ok := va.Cells[i].V.(IfaceVal)
		if !ok {
			return "", false
		}
		switch x := iv.V.(type) {
		case *Term:
			c, ok := evalConst(x)
			if !ok {
				return "", false
			}
			if x.W == 0 {
				hostArgs = append(hostArgs, c == 1)
			} else if isSigned(iv.T) {
				hostArgs = append(hostArgs, sext(c, x.W))
			} else {
				hostArgs = append(hostArgs, c)
			}
		case StringVal:
			if x.Sym != nil {
				return "", false
			}
			hostArgs = append(hostArgs, x.S)
		case SliceVal:
			b, ok := m.sliceConcreteBytes(x)
			if !ok {
				return "", false
			}
			hostArgs = append(hostArgs, b)
		default:
			return "", false
		}
	}
	switch kind {
	case "Sprintf":
		return fmt.Sprintf(format, hostArgs...), true
	case "Sprint":
		return fmt.Sprint(hostArgs...), true
	}
	return fmt.Sprintln(hostArgs...), true
}

// ---------------- sync objects ----------------

type mutexState struct {
	vc      []int // released by writers (Unlock): acquired by every later Lock / RLock
	rvc     []int // released by readers (RUnlock): acquired by later WRITERS only — two read-lock holders are not ordered
	writer  *Goroutine
	readers map[*Goroutine]int
	wwait   int // writers waiting (blocks new readers, Go semantics)
}

func (m *Machine) mutexState(c *Cell) *mutexState {
	if c.Obj == nil {
		c.Obj = &mutexState{readers: map[*Goroutine]int{}}
	}
	return c.Obj.(*mutexState)
}

func (m *Machine) mutexLock(c *Cell, write bool, op string) {
	st := m.mutexState(c)
	g := m.path.cur
	// lock discipline: re-acquisition by the holder
	if st.writer == g {
		m.lockViolation(op + " while holding Lock (self-deadlock)")
	}
	if st.readers[g] > 0 {
		if write {
			m.lockViolation("Lock while holding RLock (self-deadlock)")
		} else {
			m.lockViolation("recursive RLock (deadlocks when a writer queues in between)")
		}
	}
	m.yieldPoint(op)
	if write {
		if st.writer != nil || len(st.readers) > 0 {
			st.wwait++
			m.block(func() bool { return st.writer == nil && len(st.readers) == 0 }, op+" in "+m.curFn())
			st.wwait--
		}
		st.writer = g
	} else {
		if st.writer != nil || st.wwait > 0 {
			m.block(func() bool { return st.writer == nil && st.wwait == 0 }, op+" in "+m.curFn())
		}
		st.readers[g]++
	}
	m.vcAcquire(st.vc)
	if write {
		m.vcAcquire(st.rvc)
	}
}

func (m *Machine) lockViolation(what string) {
	stack := m.stackNames()
	if m.cfg.Opts["lockdiscipline"] == "off" {
		return
	}
	m.recordViolation(m.tt.T, "lock-discipline: "+what, "lock", stack)
	panic(abortPath{"end", "lock discipline violated: " + what})
}

func (m *Machine) mutexUnlock(c *Cell, write bool) {
	st := m.mutexState(c)
	g := m.path.cur
	if write {
		m.vcRelease(&st.vc)
	} else {
		m.vcRelease(&st.rvc)
	}
	if write {
		if st.writer == nil {
			m.goPanic("sync: unlock of unlocked mutex")
		}
		st.writer = nil
	} else {
		if st.readers[g] == 0 {
			// RUnlock by another goroutine is legal in Go; find any reader
			found := false
			for k := range st.readers {
				st.readers[k]--
				if st.readers[k] == 0 {
					delete(st.readers, k)
				}
				found = true
				break
			}
			if !found {
				m.goPanic("sync: RUnlock of unlocked RWMutex")
			}
			return
		}
		st.readers[g]--
		if st.readers[g] == 0 {
			delete(st.readers, g)
		}
	}
}

type wgState struct {
	n  int
	vc []int
}
type egState struct {
	n   int
	err *IfaceVal
	vc  []int
}

func (m *Machine) wgState(c *Cell) *wgState {
	if c.Obj == nil {
		c.Obj = &wgState{}
	}
	return c.Obj.(*wgState)
}
func (m *Machine) egState(c *Cell) *egState {
	if c.Obj == nil {
		c.Obj = &egState{}
	}
	return c.Obj.(*egState)
}

var _ = sort.Ints

// lookupIntrinsic resolves the intrinsic (or harness stub) for fn, if any.
func lookupIntrinsic(m *Machine, fn *ssa.Function, name string) intrinsicFn {
	// harness-declared stubs take precedence over built-in intrinsics
	realBody := false
	if target, ok := m.cfg.Stubs[name]; ok && target == "-" {
		realBody = true // "//zz:stub <name> -": execute the real body although a convention stub exists
	} else if ok {
		if hp := m.ld.prog.ImportedPackage(m.cfg.Pkg); hp != nil {
			if sf := hp.Func(target); sf != nil {
				return func(m *Machine, fn *ssa.Function, a []Value) Value { return m.callFn(sf, a, nil) }
			}
		}
	}
	// convention stubs: a function zzstub_<Type>_<Method> / zzstub_<Func> in the SAME package as the
	// callee (added through the overlay, e.g. harness/pkg/db/zz_verif_model_db.go) replaces it symbolically
	if !realBody && fn.Pkg != nil && strings.HasPrefix(fn.Pkg.Pkg.Path(), modulePath) {
		sname := "zzstub_" + fn.Name()
		if recv := fn.Signature.Recv(); recv != nil {
			rt := recv.Type()
			if pt, ok := rt.(*types.Pointer); ok {
				rt = pt.Elem()
			}
			if nt, ok := rt.(*types.Named); ok {
				sname = "zzstub_" + nt.Obj().Name() + "_" + fn.Name()
			}
		}
		if sf := fn.Pkg.Func(sname); sf != nil && sf != fn {
			return func(m *Machine, fn *ssa.Function, a []Value) Value { return m.callFn(sf, a, nil) }
		}
	}
	if f, ok := intrinsics[name]; ok {
		return f
	}
	// harness runtime methods: (*<pkg>.zzT).Name
	if recv := fn.Signature.Recv(); recv != nil {
		if pt, ok := recv.Type().(*types.Pointer); ok {
			if nt, ok := pt.Elem().(*types.Named); ok && nt.Obj().Name() == "zzT" {
				if f, ok := zzTMethods[fn.Name()]; ok {
					return f
				}
			}
		}
	}
	// package initialisers of other packages: run lazily instead
	if fn.Name() == "init" && fn.Synthetic != "" && fn.Pkg != nil {
		return func(m *Machine, fn *ssa.Function, a []Value) Value {
			if len(m.path.cur.stack) > 0 {
				top := m.path.cur.stack[len(m.path.cur.stack)-1]
				if top.fn.Name() == "init" && top.fn.Pkg != fn.Pkg {
					// nested package init from another init: lazily initialised on first global access
					return nil
				}
			}
			return m.callPlain(fn, a, nil)
		}
	}
	// harness-declared stubs: "<full name>" -> harness function name in the same package as the harness
	if target, ok := m.cfg.Stubs[name]; ok && target != "-" {
		hp := m.ld.prog.ImportedPackage(m.cfg.Pkg)
		if hp == nil {
			return nil
		}
		sf := hp.Func(target)
		if sf == nil {
			return func(m *Machine, fn *ssa.Function, a []Value) Value {
				m.unsupported("stub target not found: " + target)
				return nil
			}
		}
		return func(m *Machine, fn *ssa.Function, a []Value) Value { return m.callFn(sf, a, nil) }
	}
	// generic instantiations of intrinsics, e.g. pkg.Fn[T]
	if i := strings.Index(name, "["); i > 0 {
		if f, ok := intrinsics[name[:i]]; ok {
			return f
		}
		if target, ok := m.cfg.Stubs[name[:i]]; ok {
			hp := m.ld.prog.ImportedPackage(m.cfg.Pkg)
			if hp != nil {
				if sf := hp.Func(target); sf != nil {
					return func(m *Machine, fn *ssa.Function, a []Value) Value { return m.callFn(sf, a, nil) }
				}
			}
		}
	}
	return nil
}
