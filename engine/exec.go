package main

import (
	"fmt"
	"go/constant"
	"go/token"
	"go/types"
	"math"
	"strconv"
	"strings"
	"unicode/utf8"

	"golang.org/x/tools/go/ssa"
)

type deferred struct {
	fn   *Closure
	args []Value
	// invoke-mode defers
	recv   *IfaceVal
	method *types.Func
}

type Frame struct {
	fn        *ssa.Function
	env       map[ssa.Value]Value
	defers    []deferred
	panicking *goPanicVal
	loops     map[*ssa.BasicBlock]int
}

func (m *Machine) meta(fn *ssa.Function) *fnMeta {
	if mt, ok := m.fnInfo[fn]; ok {
		return mt
	}
	mt := &fnMeta{name: fn.String()}
	mt.inRepo = strings.Contains(mt.name, "LiskHQ/lisk-engine")
	mt.intrinsic = lookupIntrinsic(m, fn, mt.name)
	m.fnInfo[fn] = mt
	return mt
}

func (m *Machine) stack() []*Frame { return m.path.cur.stack }

func (m *Machine) callFn(fn *ssa.Function, args []Value, bind []Value) Value {
	mt := m.meta(fn)
	if mt.intrinsic != nil {
		m.stats.Stubs[mt.name]++
		return mt.intrinsic(m, fn, args)
	}
	if fn.Blocks == nil {
		m.unsupported("call to function without body: " + mt.name)
	}
	if mt.inRepo && m.path.initMode == 0 {
		m.stats.Funcs[mt.name] = true
	}
	if m.cfg.Merge[mt.name] && m.path.mergeDepth == 0 {
		if v, ok := m.callMerged(fn, args, bind); ok {
			return v
		}
	}
	return m.callPlain(fn, args, bind)
}

func (m *Machine) callPlain(fn *ssa.Function, args []Value, bind []Value) Value {
	g := m.path.cur
	if len(g.stack) > 400 {
		panic(abortPath{"unwind", "call depth > 400 at " + fn.String()})
	}
	fr := &Frame{fn: fn, env: make(map[ssa.Value]Value, 16)}
	for i, p := range fn.Params {
		if i < len(args) {
			fr.env[p] = args[i]
		}
	}
	for i, fv := range fn.FreeVars {
		fr.env[fv] = bind[i]
	}
	g.stack = append(g.stack, fr)
	depth := len(g.stack)
	var ret Value
	func() {
		defer func() {
			if r := recover(); r != nil {
				gp, ok := r.(*goPanicVal)
				if !ok {
					panic(r)
				}
				g.stack = g.stack[:depth]
				fr.panicking = gp
				m.runDefers(fr)
				if fr.panicking != nil {
					g.stack = g.stack[:depth-1]
					panic(fr.panicking)
				}
				// recovered
				if fn.Recover != nil {
					ret = m.execFrom(fr, fn.Recover, nil)
				} else {
					ret = m.zeroResults(fn)
				}
			}
		}()
		ret = m.execFrom(fr, fn.Blocks[0], nil)
	}()
	g.stack = g.stack[:depth-1]
	return ret
}

func (m *Machine) zeroResults(fn *ssa.Function) Value {
	res := fn.Signature.Results()
	switch res.Len() {
	case 0:
		return nil
	case 1:
		return m.zero(res.At(0).Type())
	}
	return m.zero(res)
}

func (m *Machine) runDefers(fr *Frame) {
	for len(fr.defers) > 0 {
		d := fr.defers[len(fr.defers)-1]
		fr.defers = fr.defers[:len(fr.defers)-1]
		g := m.path.cur
		saved := g.recoverFrame
		g.recoverFrame = fr
		func() {
			defer func() { g.recoverFrame = saved }()
			defer func() {
				if r := recover(); r != nil {
					gp, ok := r.(*goPanicVal)
					if !ok {
						panic(r)
					}
					fr.panicking = gp // new panic replaces the old one; continue running remaining defers
				}
			}()
			if d.method != nil {
				m.invoke(*d.recv, d.method, d.args)
			} else if d.fn.Blt != nil {
				m.builtin(d.fn.Blt, d.args, nil)
			} else {
				m.callFn(d.fn.Fn, d.args, d.fn.Bind)
			}
		}()
	}
}

func (m *Machine) get(fr *Frame, v ssa.Value) Value {
	switch x := v.(type) {
	case *ssa.Const:
		return m.constVal(x)
	case *ssa.Function:
		return &Closure{Fn: x}
	case *ssa.Global:
		return Ptr{C: m.globalCell(x)}
	case *ssa.Builtin:
		return &Closure{Blt: x}
	}
	r, ok := fr.env[v]
	if !ok {
		panic(fmt.Sprintf("engine: value %s (%T) not set in %s", v.Name(), v, fr.fn))
	}
	return r
}

func (m *Machine) constVal(c *ssa.Const) Value {
	t := c.Type()
	if c.Value == nil {
		return m.zero(t)
	}
	switch u := t.Underlying().(type) {
	case *types.Basic:
		switch {
		case u.Info()&types.IsBoolean != 0:
			return m.tt.Bool(constant.BoolVal(c.Value))
		case u.Info()&types.IsString != 0:
			return StringVal{S: constant.StringVal(c.Value)}
		case u.Info()&types.IsFloat != 0:
			f, _ := constant.Float64Val(constant.ToFloat(c.Value))
			return FloatVal(f)
		case u.Info()&types.IsInteger != 0:
			w := bvWidth(u)
			iv := constant.ToInt(c.Value)
			if x, ok := constant.Int64Val(iv); ok {
				return m.tt.Const(uint64(x), w)
			}
			if x, ok := constant.Uint64Val(iv); ok {
				return m.tt.Const(x, w)
			}
		}
	}
	m.unsupported("constant of type " + t.String())
	return nil
}

func (m *Machine) execFrom(fr *Frame, b *ssa.BasicBlock, prev *ssa.BasicBlock) Value {
	for {
		// loop bound on back edges
		if prev != nil && prev.Index >= b.Index {
			if fr.loops == nil {
				fr.loops = map[*ssa.BasicBlock]int{}
			}
			fr.loops[b]++
			n := fr.loops[b]
			if m.meta(fr.fn).inRepo || n > 8 {
				key := fr.fn.String()
				if n > m.stats.MaxLoop[key] {
					m.stats.MaxLoop[key] = n
				}
			}
			if n > m.cfg.LoopBound && m.path.initMode > 0 && n < 1<<20 {
				// package initialisers run on concrete data; the harness's unwinding bound is about the code under test
			} else if n > m.cfg.LoopBound {
				if m.cfg.Opts["unwind"] != "abort" && m.meta(fr.fn).inRepo && !strings.Contains(fr.fn.Name(), "zz") {
					// unwind=violation: the unwinding bound is the property (a loop of the code under
					// test that takes more than LoopBound iterations is a hang); confirmed natively
					// when the replay is still running at its deadline
					m.recordViolation(m.tt.T, fmt.Sprintf("loop exceeds %d iterations (does not terminate within the unwinding bound)", m.cfg.LoopBound), "hang", m.stackNames())
					panic(abortPath{"end", "hang"})
				}
				panic(abortPath{"unwind", fmt.Sprintf("loop bound %d exceeded in %s", m.cfg.LoopBound, fr.fn)})
			}
		}
		// phis first (simultaneous)
		nphi := 0
		if prev != nil {
			pi := -1
			for i, p := range b.Preds {
				if p == prev {
					pi = i
					break
				}
			}
			var vals []Value
			for _, ins := range b.Instrs {
				phi, ok := ins.(*ssa.Phi)
				if !ok {
					break
				}
				vals = append(vals, m.get(fr, phi.Edges[pi]))
				nphi++
			}
			for i := 0; i < nphi; i++ {
				fr.env[b.Instrs[i].(*ssa.Phi)] = vals[i]
			}
		}
		var next *ssa.BasicBlock
		for _, ins := range b.Instrs[nphi:] {
			m.path.steps++
			if m.path.steps > m.cfg.MaxSteps {
				panic(abortPath{"steps", fmt.Sprintf("more than %d instructions on one path", m.cfg.MaxSteps)})
			}
			switch x := ins.(type) {
			case *ssa.If:
				c := m.get(fr, x.Cond).(*Term)
				if j := m.tryMergeDiamond(fr, b, c); j != nil {
					// arms executed speculatively, phis of the join set to ite terms
					prev, b = nil, j
					goto joined
				}
				if m.branch(c) {
					next = b.Succs[0]
				} else {
					next = b.Succs[1]
				}
			case *ssa.Jump:
				next = b.Succs[0]
			case *ssa.Return:
				switch len(x.Results) {
				case 0:
					return nil
				case 1:
					return m.get(fr, x.Results[0])
				}
				tv := make(TupleVal, len(x.Results))
				for i, r := range x.Results {
					tv[i] = m.get(fr, r)
				}
				return tv
			case *ssa.Panic:
				v := m.get(fr, x.X)
				panic(&goPanicVal{v: v, msg: "panic: " + m.describe(v), stack: m.stackNames()})
			default:
				m.exec(fr, ins)
			}
		}
		if next == nil {
			panic("engine: block without terminator")
		}
		prev, b = b, next
		continue
	joined:
		// continue at the join block after its phis (already assigned)
		{
			skip := 0
			for _, ins := range b.Instrs {
				if _, ok := ins.(*ssa.Phi); ok {
					skip++
				} else {
					break
				}
			}
			r, done := m.execBlockBody(fr, b, skip)
			if done {
				return r.val
			}
			prev, b = b, r.next
			if r.joined != nil {
				prev, b = nil, r.joined
				goto joined
			}
		}
	}
}

type blockResult struct {
	val    Value
	next   *ssa.BasicBlock
	joined *ssa.BasicBlock
}

// execBlockBody runs the instructions of b from index start; returns (result, true) on return.
func (m *Machine) execBlockBody(fr *Frame, b *ssa.BasicBlock, start int) (blockResult, bool) {
	for _, ins := range b.Instrs[start:] {
		m.path.steps++
		if m.path.steps > m.cfg.MaxSteps {
			panic(abortPath{"steps", fmt.Sprintf("more than %d instructions on one path", m.cfg.MaxSteps)})
		}
		switch x := ins.(type) {
		case *ssa.If:
			c := m.get(fr, x.Cond).(*Term)
			if j := m.tryMergeDiamond(fr, b, c); j != nil {
				return blockResult{joined: j}, false
			}
			if m.branch(c) {
				return blockResult{next: b.Succs[0]}, false
			}
			return blockResult{next: b.Succs[1]}, false
		case *ssa.Jump:
			return blockResult{next: b.Succs[0]}, false
		case *ssa.Return:
			switch len(x.Results) {
			case 0:
				return blockResult{}, true
			case 1:
				return blockResult{val: m.get(fr, x.Results[0])}, true
			}
			tv := make(TupleVal, len(x.Results))
			for i, r := range x.Results {
				tv[i] = m.get(fr, r)
			}
			return blockResult{val: tv}, true
		case *ssa.Panic:
			v := m.get(fr, x.X)
			panic(&goPanicVal{v: v, msg: "panic: " + m.describe(v), stack: m.stackNames()})
		default:
			m.exec(fr, ins)
		}
	}
	panic("engine: block without terminator")
}

// safeArm reports whether block a consists only of side-effect-free, non-trapping value
// instructions followed by a Jump.
func safeArm(a *ssa.BasicBlock) bool {
	if len(a.Preds) != 1 || len(a.Succs) != 1 {
		return false
	}
	for i, ins := range a.Instrs {
		if i == len(a.Instrs)-1 {
			_, ok := ins.(*ssa.Jump)
			return ok
		}
		switch x := ins.(type) {
		case *ssa.DebugRef:
		case *ssa.BinOp:
			switch x.Op {
			case token.QUO, token.REM:
				return false
			case token.SHL, token.SHR:
				if isSigned(x.Y.Type()) {
					return false
				}
			}
			switch x.X.Type().Underlying().(type) {
			case *types.Basic:
			default:
				return false
			}
			if bt, ok := x.X.Type().Underlying().(*types.Basic); ok && bt.Info()&(types.IsInteger|types.IsBoolean) == 0 {
				return false
			}
		case *ssa.UnOp:
			if x.Op == token.ARROW {
				return false
			}
			if x.Op == token.MUL {
				// a load is side-effect free; allowed when the address is an element of a package-level
				// array computed in this arm (checked dynamically: concrete index within bounds)
				ia, ok := x.X.(*ssa.IndexAddr)
				if !ok || ia.Block() != a || !isScalarT(x.Type()) {
					return false
				}
			}
		case *ssa.IndexAddr:
			if _, ok := x.X.(*ssa.Global); !ok {
				return false
			}
			if pt, ok := x.X.Type().Underlying().(*types.Pointer); !ok {
				return false
			} else if _, ok := pt.Elem().Underlying().(*types.Array); !ok {
				return false
			}
		case *ssa.Convert:
			if !isScalarT(x.X.Type()) || !isScalarT(x.Type()) {
				return false
			}
		case *ssa.ChangeType:
		default:
			return false
		}
	}
	return false
}

// tryMergeDiamond executes a pure triangle/diamond below the If of block b as ite terms.
// Returns the join block (phis assigned) or nil when the shape does not apply.
func (m *Machine) tryMergeDiamond(fr *Frame, b *ssa.BasicBlock, c *Term) *ssa.BasicBlock {
	if c.IsConst() {
		return nil
	}
	if _, ok := m.knownVal(c); ok {
		return nil
	}
	if m.cfg.Opts["nodiamond"] == "1" {
		return nil
	}
	s0, s1 := b.Succs[0], b.Succs[1]
	var join *ssa.BasicBlock
	var arms []*ssa.BasicBlock
	switch {
	case safeArm(s0) && s0.Succs[0] == s1:
		join, arms = s1, []*ssa.BasicBlock{s0}
	case safeArm(s1) && s1.Succs[0] == s0:
		join, arms = s0, []*ssa.BasicBlock{s1}
	case safeArm(s0) && safeArm(s1) && s0.Succs[0] == s1.Succs[0]:
		join, arms = s0.Succs[0], []*ssa.BasicBlock{s0, s1}
	default:
		return nil
	}
	if join == b || join.Index <= b.Index {
		return nil // back edge: keep loop accounting simple
	}
	// the join must only be entered from b / the arms
	for _, p := range join.Preds {
		if p != b && p != s0 && p != s1 {
			return nil
		}
	}
	// phis must be scalar
	for _, ins := range join.Instrs {
		phi, ok := ins.(*ssa.Phi)
		if !ok {
			break
		}
		if !isScalarT(phi.Type()) {
			return nil
		}
	}
	if len(m.path.gor) > 1 {
		for _, a := range arms {
			for _, ins := range a.Instrs {
				if _, ok := ins.(*ssa.IndexAddr); ok {
					return nil // loads are scheduling points in concurrency mode
				}
			}
		}
	}
	for _, a := range arms {
		for _, ins := range a.Instrs[:len(a.Instrs)-1] {
			if ia, ok := ins.(*ssa.IndexAddr); ok {
				// dynamic half of safeArm: the index must be a constant inside the array
				idx, ok := m.get(fr, ia.Index).(*Term)
				if !ok {
					return nil
				}
				cv, isConst := evalConst(idx)
				at := ia.X.Type().Underlying().(*types.Pointer).Elem().Underlying().(*types.Array)
				if !isConst || cv >= uint64(at.Len()) {
					return nil // nothing but SSA values has been assigned so far: fall back to forking
				}
			}
			m.exec(fr, ins)
		}
	}
	// edge taken when c is true / false
	edgeT, edgeF := s0, s1
	if s0 == join {
		edgeT = b
	}
	if s1 == join {
		edgeF = b
	}
	idx := func(p *ssa.BasicBlock) int {
		for i, q := range join.Preds {
			if q == p {
				return i
			}
		}
		return -1
	}
	it, iff := idx(edgeT), idx(edgeF)
	if it < 0 || iff < 0 || it == iff {
		return nil
	}
	var vals []Value
	var phis []*ssa.Phi
	for _, ins := range join.Instrs {
		phi, ok := ins.(*ssa.Phi)
		if !ok {
			break
		}
		vt := m.get(fr, phi.Edges[it]).(*Term)
		vf := m.get(fr, phi.Edges[iff]).(*Term)
		vals = append(vals, m.tt.Ite(c, vt, vf))
		phis = append(phis, phi)
	}
	for i, phi := range phis {
		fr.env[phi] = vals[i]
	}
	return join
}

func (m *Machine) describe(v Value) string {
	switch x := v.(type) {
	case IfaceVal:
		if x.T == nil {
			return "nil"
		}
		return m.describe(x.V)
	case StringVal:
		if x.Sym == nil {
			return x.S
		}
		return "<symbolic string>"
	case *Opaque:
		return "<" + x.Kind + ":" + x.Note + ">"
	case *Term:
		return x.String()
	case Ptr:
		if x.C != nil {
			// error value structs like *errors.errorString
			if len(x.C.Sub) == 1 {
				if s, ok := x.C.Sub[0].V.(StringVal); ok {
					return s.S
				}
			}
		}
	}
	return fmt.Sprintf("%T", v)
}

func (m *Machine) exec(fr *Frame, ins ssa.Instruction) {
	switch x := ins.(type) {
	case *ssa.DebugRef:
	case *ssa.Alloc:
		c := m.newCell(x.Type().Underlying().(*types.Pointer).Elem())
		setSite(c, x)
		fr.env[x] = Ptr{C: c}
	case *ssa.UnOp:
		fr.env[x] = m.unop(fr, x)
	case *ssa.BinOp:
		fr.env[x] = m.binop(x.Op, m.get(fr, x.X), m.get(fr, x.Y), x.X.Type(), x.Y.Type())
	case *ssa.Store:
		p, ok := m.get(fr, x.Addr).(Ptr)
		if !ok {
			m.unsupported("store through non-pointer")
		}
		if p.IsNil() {
			m.goPanic("runtime error: invalid memory address or nil pointer dereference")
		}
		m.sharedYield(p.C)
		m.storePtr(p, m.get(fr, x.Val))
	case *ssa.FieldAddr:
		p := m.get(fr, x.X).(Ptr)
		if p.C == nil {
			m.goPanic("runtime error: invalid memory address or nil pointer dereference")
		}
		fr.env[x] = Ptr{C: p.C.Sub[x.Field]}
	case *ssa.Field:
		sv := m.get(fr, x.X).(*StructVal)
		fr.env[x] = sv.F[x.Field]
	case *ssa.IndexAddr:
		fr.env[x] = m.indexAddr(fr, x)
	case *ssa.Index:
		fr.env[x] = m.index(fr, x)
	case *ssa.Slice:
		fr.env[x] = m.slice(fr, x)
	case *ssa.MakeSlice:
		n := m.concInt(m.get(fr, x.Len), "make len")
		c := m.concInt(m.get(fr, x.Cap), "make cap")
		if n < 0 || c < n {
			m.goPanic("runtime error: makeslice: len out of range")
		}
		if c > m.allocLimit() {
			if _, ok := m.cfg.Opts["allocfail"]; ok {
				// the harness states "memory bounded by the input size": an allocation beyond the bound is a failure
				// of that obligation (the native side measures the allocation and fails the same label)
				m.assertCond(m.tt.F, "allocation bounded by the input size", "assert")
				panic(abortPath{"end", "Fail"})
			}
			m.goPanic("engine: makeslice larger than 65536 elements (allocation assertion)")
		}
		et := x.Type().Underlying().(*types.Slice).Elem()
		cells := make([]*Cell, c)
		for i := range cells {
			cells[i] = m.newCell(et)
			setSite(cells[i], x)
		}
		fr.env[x] = SliceVal{Cells: cells, Len: int(n), NotNil: true, Elem: et}
	case *ssa.MakeMap:
		mt := x.Type().Underlying().(*types.Map)
		m.path.mapSeq++
		fr.env[x] = &MapObj{KT: mt.Key(), VT: mt.Elem(), ID: m.path.mapSeq}
	case *ssa.MakeChan:
		n := m.concInt(m.get(fr, x.Size), "chan size")
		fr.env[x] = m.newChan(int(n), x.Type().Underlying().(*types.Chan).Elem())
	case *ssa.MakeClosure:
		cl := &Closure{Fn: x.Fn.(*ssa.Function)}
		for _, b := range x.Bindings {
			cl.Bind = append(cl.Bind, m.get(fr, b))
		}
		fr.env[x] = cl
	case *ssa.MakeInterface:
		fr.env[x] = IfaceVal{T: x.X.Type(), V: m.get(fr, x.X)}
	case *ssa.ChangeInterface:
		fr.env[x] = m.get(fr, x.X)
	case *ssa.ChangeType:
		fr.env[x] = m.get(fr, x.X)
	case *ssa.Convert:
		fr.env[x] = m.convert(m.get(fr, x.X), x.X.Type(), x.Type())
	case *ssa.TypeAssert:
		fr.env[x] = m.typeAssert(fr, x)
	case *ssa.Extract:
		fr.env[x] = m.get(fr, x.Tuple).(TupleVal)[x.Index]
	case *ssa.Call:
		if m.path.initMode > 0 {
			fr.env[x] = m.callTolerant(fr, x)
		} else {
			fr.env[x] = m.call(fr, x.Common())
		}
	case *ssa.Defer:
		fr.defers = append(fr.defers, m.mkDeferred(fr, x.Common()))
	case *ssa.RunDefers:
		m.runDefers(fr)
	case *ssa.Go:
		m.goStmt(fr, x)
	case *ssa.Lookup:
		fr.env[x] = m.lookup(fr, x)
	case *ssa.MapUpdate:
		mo := m.get(fr, x.Map).(*MapObj)
		if mo == nil {
			m.goPanic("assignment to entry in nil map")
		}
		m.mapSet(mo, m.get(fr, x.Key), m.get(fr, x.Value))
	case *ssa.Range:
		fr.env[x] = m.rangeStart(m.get(fr, x.X))
	case *ssa.Next:
		fr.env[x] = m.rangeNext(m.get(fr, x.Iter).(*RangeIter), x)
	case *ssa.Send:
		m.chanSend(m.get(fr, x.Chan).(*ChanObj), m.get(fr, x.X))
	case *ssa.Select:
		fr.env[x] = m.selectStmt(fr, x)
	case *ssa.SliceToArrayPointer:
		s := m.get(fr, x.X).(SliceVal)
		at := x.Type().Underlying().(*types.Pointer).Elem().Underlying().(*types.Array)
		if int64(s.Len) < at.Len() {
			m.goPanic("runtime error: cannot convert slice to array pointer: length too short")
		}
		m.path.cellSeq++
		fr.env[x] = Ptr{C: &Cell{T: at, ID: m.path.cellSeq, Sub: s.Cells[:at.Len()]}}
	default:
		m.unsupported(fmt.Sprintf("instruction %T", ins))
	}
}

func (m *Machine) concInt(v Value, what string) int64 {
	t := v.(*Term)
	if c, ok := evalConst(t); ok {
		return sext(c, t.W)
	}
	c := m.concretise(t, what)
	return sext(c, t.W)
}

func (m *Machine) unop(fr *Frame, x *ssa.UnOp) Value {
	v := m.get(fr, x.X)
	switch x.Op {
	case token.MUL:
		p, ok := v.(Ptr)
		if !ok {
			m.unsupported(fmt.Sprintf("load through %T", v))
		}
		if p.IsNil() {
			m.goPanic("runtime error: invalid memory address or nil pointer dereference")
		}
		m.sharedYield(p.C)
		return m.loadPtr(p)
	case token.NOT:
		return m.tt.Not(v.(*Term))
	case token.SUB:
		if f, ok := v.(FloatVal); ok {
			return -f
		}
		return m.tt.Neg(v.(*Term))
	case token.XOR:
		return m.tt.BvNot(v.(*Term))
	case token.ARROW:
		return m.chanRecv(v.(*ChanObj), x.CommaOk)
	}
	m.unsupported("unop " + x.Op.String())
	return nil
}

func (m *Machine) binop(op token.Token, a, b Value, at, bt types.Type) Value {
	tt := m.tt
	switch op {
	case token.EQL:
		return m.valuesEqualT(a, b, at, bt)
	case token.NEQ:
		return tt.Not(m.valuesEqualT(a, b, at, bt))
	}
	switch x := a.(type) {
	case *Term:
		y := b.(*Term)
		if x.W == 0 {
			switch op {
			case token.AND, token.LAND:
				return tt.And(x, y)
			case token.OR, token.LOR:
				return tt.Or(x, y)
			case token.XOR:
				return tt.Not(tt.Eq(x, y))
			case token.AND_NOT:
				return tt.And(x, tt.Not(y))
			}
			m.unsupported("bool binop " + op.String())
		}
		signed := isSigned(at)
		switch op {
		case token.ADD:
			return tt.Add(x, y)
		case token.SUB:
			return tt.Sub(x, y)
		case token.MUL:
			return tt.Mul(x, y)
		case token.QUO:
			if !m.branch(tt.Not(tt.Eq(y, tt.Const(0, y.W)))) {
				m.goPanic("runtime error: integer divide by zero")
			}
			if signed {
				return tt.Sdiv(x, y)
			}
			return tt.Udiv(x, y)
		case token.REM:
			if !m.branch(tt.Not(tt.Eq(y, tt.Const(0, y.W)))) {
				m.goPanic("runtime error: integer divide by zero")
			}
			if signed {
				return tt.Srem(x, y)
			}
			return tt.Urem(x, y)
		case token.AND:
			return tt.BvAnd(x, y)
		case token.OR:
			return tt.BvOr(x, y)
		case token.XOR:
			return tt.BvXor(x, y)
		case token.AND_NOT:
			return tt.BvAnd(x, tt.BvNot(y))
		case token.SHL, token.SHR:
			// shift count: unsigned or checked non-negative; normalise to operand width
			if isSigned(bt) {
				if !m.branch(tt.Sle(tt.Const(0, y.W), y)) {
					m.goPanic("runtime error: negative shift amount")
				}
			}
			var cnt *Term
			if y.W > x.W {
				big := tt.Ule(tt.Const(uint64(x.W), y.W), y)
				cnt = tt.Ite(big, tt.Const(uint64(x.W), x.W), tt.Extract(y, x.W-1, 0))
			} else {
				cnt = tt.ZExt(y, x.W)
			}
			if op == token.SHL {
				return tt.Shl(x, cnt)
			}
			if signed {
				return tt.Ashr(x, cnt)
			}
			return tt.Lshr(x, cnt)
		case token.LSS:
			if signed {
				return tt.Slt(x, y)
			}
			return tt.Ult(x, y)
		case token.LEQ:
			if signed {
				return tt.Sle(x, y)
			}
			return tt.Ule(x, y)
		case token.GTR:
			if signed {
				return tt.Slt(y, x)
			}
			return tt.Ult(y, x)
		case token.GEQ:
			if signed {
				return tt.Sle(y, x)
			}
			return tt.Ule(y, x)
		}
	case FloatVal:
		y := b.(FloatVal)
		switch op {
		case token.ADD:
			return x + y
		case token.SUB:
			return x - y
		case token.MUL:
			return x * y
		case token.QUO:
			return x / y
		case token.LSS:
			return tt.Bool(x < y)
		case token.LEQ:
			return tt.Bool(x <= y)
		case token.GTR:
			return tt.Bool(x > y)
		case token.GEQ:
			return tt.Bool(x >= y)
		}
	case StringVal:
		y := b.(StringVal)
		switch op {
		case token.ADD:
			if x.Sym == nil && y.Sym == nil {
				return StringVal{S: x.S + y.S}
			}
			return m.mkString(append(append([]*Term{}, m.stringTerms(x)...), m.stringTerms(y)...))
		case token.LSS, token.LEQ, token.GTR, token.GEQ:
			if x.Sym == nil && y.Sym == nil {
				switch op {
				case token.LSS:
					return tt.Bool(x.S < y.S)
				case token.LEQ:
					return tt.Bool(x.S <= y.S)
				case token.GTR:
					return tt.Bool(x.S > y.S)
				case token.GEQ:
					return tt.Bool(x.S >= y.S)
				}
			}
			lt, eq := m.lexCompare(m.stringTerms(x), m.stringTerms(y))
			switch op {
			case token.LSS:
				return lt
			case token.LEQ:
				return tt.Or(lt, eq)
			case token.GTR:
				return tt.Not(tt.Or(lt, eq))
			case token.GEQ:
				return tt.Not(lt)
			}
		}
	}
	m.unsupported(fmt.Sprintf("binop %s on %T", op, a))
	return nil
}

// lexCompare returns (a<b, a==b) for byte vectors.
func (m *Machine) lexCompare(a, b []*Term) (*Term, *Term) {
	tt := m.tt
	n := len(a)
	if len(b) < n {
		n = len(b)
	}
	// from the end: lt_i = a[i]<b[i] || (a[i]==b[i] && lt_{i+1})
	lt := tt.Bool(len(a) < len(b))
	for i := n - 1; i >= 0; i-- {
		e := tt.Eq(a[i], b[i])
		lt = tt.Or(tt.Ult(a[i], b[i]), tt.And(e, lt))
	}
	var eq *Term
	if len(a) == len(b) {
		eq = m.bytesEq(a, b)
	} else {
		eq = tt.F
	}
	return lt, eq
}

func (m *Machine) valuesEqualT(a, b Value, at, bt types.Type) *Term {
	// mixed interface / concrete comparisons do not occur in SSA (operands are converted), but
	// nil constants do
	if a == nil {
		return m.isNilValue(b)
	}
	if b == nil {
		return m.isNilValue(a)
	}
	return m.valuesEqual(a, b, at)
}

func (m *Machine) convert(v Value, from, to types.Type) Value {
	tt := m.tt
	fu, tu := from.Underlying(), to.Underlying()
	switch t := tu.(type) {
	case *types.Basic:
		switch {
		case t.Info()&types.IsInteger != 0:
			w := bvWidth(t)
			switch x := v.(type) {
			case *Term:
				if x.W == w {
					return x
				}
				if x.W > w {
					return tt.Extract(x, w-1, 0)
				}
				if isSigned(from) {
					return tt.SExt(x, w)
				}
				return tt.ZExt(x, w)
			case FloatVal:
				f := float64(x)
				if isSigned(to) {
					return tt.Const(uint64(int64(f)), w)
				}
				return tt.Const(uint64(f), w)
			}
		case t.Info()&types.IsFloat != 0:
			switch x := v.(type) {
			case FloatVal:
				if t.Kind() == types.Float32 {
					return FloatVal(float64(float32(x)))
				}
				return x
			case *Term:
				c := m.concretise(x, "int->float conversion")
				if isSigned(from) {
					return FloatVal(float64(sext(c, x.W)))
				}
				return FloatVal(float64(c))
			}
		case t.Info()&types.IsString != 0:
			switch x := v.(type) {
			case StringVal:
				return x
			case SliceVal:
				if sl, ok := fu.(*types.Slice); ok {
					if b, ok := sl.Elem().Underlying().(*types.Basic); ok && b.Kind() == types.Int32 {
						var sb strings.Builder
						for i := 0; i < x.Len; i++ {
							c := m.concInt(x.Cells[i].V, "rune->string")
							sb.WriteRune(rune(c))
						}
						return StringVal{S: sb.String()}
					}
				}
				return m.mkString(m.sliceTerms(x))
			case *Term:
				if _, isConst := evalConst(x); !isConst {
					// symbolic rune: a one-byte string if the rune is ASCII on this path (otherwise the
					// length of the encoding depends on the value: concretise)
					if m.branch(m.tt.Ult(x, m.tt.Const(0x80, x.W))) {
						return m.mkString([]*Term{m.tt.Extract(x, 7, 0)})
					}
				}
				c := m.concInt(x, "int->string")
				return StringVal{S: string(rune(c))}
			}
		case t.Kind() == types.UnsafePointer:
			return v
		}
	case *types.Slice:
		if s, ok := v.(StringVal); ok {
			if b, ok := t.Elem().Underlying().(*types.Basic); ok && b.Kind() == types.Int32 {
				if s.Sym != nil {
					m.unsupported("symbolic string -> []rune")
				}
				rs := []rune(s.S)
				cells := make([]*Cell, len(rs))
				for i, r := range rs {
					cells[i] = m.newCell(t.Elem())
					cells[i].V = tt.Const(uint64(r), 32)
				}
				return SliceVal{Cells: cells, Len: len(rs), NotNil: true, Elem: t.Elem()}
			}
			sv := m.mkByteTerms(m.stringTerms(s))
			sv.Elem = t.Elem()
			return sv
		}
		return v
	case *types.Pointer:
		return v
	}
	_ = fu
	m.unsupported(fmt.Sprintf("convert %s -> %s (%T)", from, to, v))
	return nil
}

func (m *Machine) indexAddr(fr *Frame, x *ssa.IndexAddr) Value {
	base := m.get(fr, x.X)
	idx := m.get(fr, x.Index).(*Term)
	var cells []*Cell
	var n int
	switch b := base.(type) {
	case SliceVal:
		cells, n = b.Cells, b.Len
	case Ptr:
		if b.C == nil {
			m.goPanic("runtime error: invalid memory address or nil pointer dereference")
		}
		cells, n = b.C.Sub, len(b.C.Sub)
	default:
		m.unsupported(fmt.Sprintf("IndexAddr on %T", base))
	}
	return m.elemPtr(cells, n, idx, isSigned(x.Index.Type()))
}

func (m *Machine) elemPtr(cells []*Cell, n int, idx *Term, signed bool) Ptr {
	if c, ok := evalConst(idx); ok {
		i := int64(c)
		if signed {
			i = sext(c, idx.W)
		}
		if i < 0 || i >= int64(n) || (!signed && c >= uint64(n)) {
			m.goPanic(fmt.Sprintf("runtime error: index out of range [%d] with length %d", i, n))
		}
		return Ptr{C: cells[i]}
	}
	inb := m.inBounds(idx, n) // unsigned compare covers negative too
	if !m.branch(inb) {
		m.goPanic(fmt.Sprintf("runtime error: index out of range [symbolic] with length %d", n))
	}
	// scalar cells, small: symbolic pointer; else concretise
	if n <= 256 && n > 0 && isScalarT(cells[0].T) {
		if n == 1 {
			return Ptr{C: cells[0]}
		}
		return Ptr{Cells: cells[:n], Idx: idx}
	}
	c := m.concretise(idx, "index")
	return Ptr{C: cells[c]}
}

func (m *Machine) index(fr *Frame, x *ssa.Index) Value {
	base := m.get(fr, x.X)
	idx := m.get(fr, x.Index).(*Term)
	switch b := base.(type) {
	case *ArrayVal:
		i := m.boundedIndex(idx, len(b.E), isSigned(x.Index.Type()))
		return b.E[i]
	case StringVal:
		ts := m.stringTerms(b)
		if c, ok := evalConst(idx); ok {
			if c >= uint64(len(ts)) {
				m.goPanic(fmt.Sprintf("runtime error: index out of range [%d] with length %d", c, len(ts)))
			}
			return ts[c]
		}
		if !m.branch(m.inBounds(idx, len(ts))) {
			m.goPanic("runtime error: index out of range")
		}
		var res *Term
		for i := len(ts) - 1; i >= 0; i-- {
			if res == nil {
				res = ts[i]
			} else {
				res = m.tt.Ite(m.tt.Eq(idx, m.tt.Const(uint64(i), idx.W)), ts[i], res)
			}
		}
		return res
	}
	m.unsupported(fmt.Sprintf("Index on %T", base))
	return nil
}

// inBounds: idx < n as an unsigned comparison at the index's own width. A length that does not fit that
// width (a 256-entry table indexed by a uint8) makes every index value in range — the constant must not be
// truncated to the index width.
func (m *Machine) inBounds(idx *Term, n int) *Term {
	if idx.W < 64 && uint64(n) >= uint64(1)<<uint(idx.W) {
		return m.tt.T
	}
	return m.tt.Ult(idx, m.tt.Const(uint64(n), idx.W))
}

func (m *Machine) boundedIndex(idx *Term, n int, signed bool) int {
	if c, ok := evalConst(idx); ok {
		if c >= uint64(n) {
			m.goPanic(fmt.Sprintf("runtime error: index out of range [%d] with length %d", int64(c), n))
		}
		return int(c)
	}
	if !m.branch(m.inBounds(idx, n)) {
		m.goPanic(fmt.Sprintf("runtime error: index out of range [symbolic] with length %d", n))
	}
	return int(m.concretise(idx, "index"))
}

func (m *Machine) slice(fr *Frame, x *ssa.Slice) Value {
	base := m.get(fr, x.X)
	var lo, hi, max int64 = 0, -1, -1
	if x.Low != nil {
		lo = m.concInt(m.get(fr, x.Low), "slice low")
	}
	if x.High != nil {
		hi = m.concInt(m.get(fr, x.High), "slice high")
		if hi < 0 {
			// (-1 is the "absent" sentinel below: a negative bound must panic, not fall back to len)
			m.goPanic(fmt.Sprintf("runtime error: slice bounds out of range [:%d]", hi))
		}
	}
	if x.Max != nil {
		max = m.concInt(m.get(fr, x.Max), "slice max")
		if max < 0 {
			m.goPanic(fmt.Sprintf("runtime error: slice bounds out of range [::%d]", max))
		}
	}
	switch b := base.(type) {
	case StringVal:
		n := int64(b.Len())
		if hi < 0 {
			hi = n
		}
		if lo < 0 || hi > n || lo > hi {
			m.goPanic(fmt.Sprintf("runtime error: slice bounds out of range [%d:%d] with length %d", lo, hi, n))
		}
		if b.Sym == nil {
			return StringVal{S: b.S[lo:hi]}
		}
		return m.mkString(b.Sym[lo:hi])
	case SliceVal:
		c := int64(len(b.Cells))
		if hi < 0 {
			hi = int64(b.Len)
		}
		if max < 0 {
			max = c
		}
		if lo < 0 || hi > max || lo > hi || max > c {
			m.goPanic(fmt.Sprintf("runtime error: slice bounds out of range [%d:%d:%d] with capacity %d", lo, hi, max, c))
		}
		if b.Cells == nil && !b.NotNil {
			return b
		}
		return SliceVal{Cells: b.Cells[lo:max:max], Len: int(hi - lo), NotNil: true, Elem: b.Elem}
	case Ptr:
		if b.C == nil {
			m.goPanic("runtime error: invalid memory address or nil pointer dereference")
		}
		c := int64(len(b.C.Sub))
		if hi < 0 {
			hi = c
		}
		if max < 0 {
			max = c
		}
		if lo < 0 || hi > max || lo > hi || max > c {
			m.goPanic(fmt.Sprintf("runtime error: slice bounds out of range [%d:%d:%d] with capacity %d", lo, hi, max, c))
		}
		et := b.C.T.Underlying().(*types.Array).Elem()
		return SliceVal{Cells: b.C.Sub[lo:max:max], Len: int(hi - lo), NotNil: true, Elem: et}
	}
	m.unsupported(fmt.Sprintf("Slice on %T", base))
	return nil
}

func implements(prog *ssa.Program, dyn types.Type, iface *types.Interface) bool {
	return types.Implements(dyn, iface)
}

func (m *Machine) typeAssert(fr *Frame, x *ssa.TypeAssert) Value {
	v := m.get(fr, x.X).(IfaceVal)
	ok := false
	var res Value
	if it, isI := x.AssertedType.Underlying().(*types.Interface); isI {
		if v.T != nil {
			if _, op := v.V.(*Opaque); op {
				ok = opaqueImplements(v.V.(*Opaque), it)
			} else {
				ok = types.Implements(v.T, it)
			}
		}
		res = v
		if !ok {
			res = IfaceVal{}
		}
	} else {
		ok = v.T != nil && types.Identical(v.T, x.AssertedType)
		if ok {
			res = v.V
		} else {
			res = m.zero(x.AssertedType)
		}
	}
	if x.CommaOk {
		return TupleVal{res, m.tt.Bool(ok)}
	}
	if !ok {
		m.goPanic(fmt.Sprintf("interface conversion: interface is %v, not %v", v.T, x.AssertedType))
	}
	return res
}

func opaqueImplements(o *Opaque, it *types.Interface) bool {
	if o.Kind == "error" {
		for i := 0; i < it.NumMethods(); i++ {
			n := it.Method(i).Name()
			if n != "Error" && !(n == "Unwrap" && o.Wrapped != nil) {
				return false
			}
		}
		return true
	}
	return it.NumMethods() == 0
}

func setSite(c *Cell, s ssa.Instruction) {
	c.Site = s
	for _, sub := range c.Sub {
		setSite(sub, s)
	}
}

// ---------------- calls ----------------

// callTolerant is used while running package initialisers: a callee the engine cannot execute
// yields an opaque/zero result instead of aborting the whole initialiser.
func (m *Machine) callTolerant(fr *Frame, x *ssa.Call) (res Value) {
	g := m.path.cur
	depth := len(g.stack)
	defer func() {
		if r := recover(); r != nil {
			if ap, ok := r.(abortPath); ok && ap.kind == "unsupported" {
				g.stack = g.stack[:depth]
				m.stats.Unsupported["init: "+ap.msg]++
				res = m.zeroOrOpaque(x.Type())
				return
			}
			panic(r)
		}
	}()
	return m.call(fr, x.Common())
}

func (m *Machine) zeroOrOpaque(t types.Type) Value {
	switch u := t.Underlying().(type) {
	case *types.Tuple:
		tv := make(TupleVal, u.Len())
		for i := range tv {
			tv[i] = m.zeroOrOpaque(u.At(i).Type())
		}
		return tv
	case *types.Pointer:
		// opaque object: a fresh zero cell of the pointee type when possible
		var c *Cell
		func() {
			defer func() {
				if r := recover(); r != nil {
					c = nil
				}
			}()
			c = m.newCell(u.Elem())
		}()
		return Ptr{C: c}
	}
	var v Value
	func() {
		defer func() {
			if r := recover(); r != nil {
				v = nil
			}
		}()
		v = m.zero(t)
	}()
	return v
}

func (m *Machine) evalArgs(fr *Frame, c *ssa.CallCommon) []Value {
	args := make([]Value, len(c.Args))
	for i, a := range c.Args {
		args[i] = m.get(fr, a)
	}
	return args
}

func (m *Machine) call(fr *Frame, c *ssa.CallCommon) Value {
	args := m.evalArgs(fr, c)
	if c.IsInvoke() {
		recv := m.get(fr, c.Value).(IfaceVal)
		return m.invoke(recv, c.Method, args)
	}
	switch f := c.Value.(type) {
	case *ssa.Function:
		return m.callFn(f, args, nil)
	case *ssa.Builtin:
		return m.builtin(f, args, c)
	}
	cl, ok := m.get(fr, c.Value).(*Closure)
	if !ok || cl == nil {
		m.goPanic("runtime error: invalid memory address or nil pointer dereference (nil func call)")
	}
	if cl.Blt != nil {
		return m.builtin(cl.Blt, args, c)
	}
	return m.callFn(cl.Fn, args, cl.Bind)
}

func (m *Machine) invoke(recv IfaceVal, method *types.Func, args []Value) Value {
	if recv.T == nil {
		m.goPanic("runtime error: invalid memory address or nil pointer dereference (method call on nil interface)")
	}
	if o, ok := recv.V.(*Opaque); ok {
		return m.invokeOpaque(o, method, args)
	}
	ms := m.prog.MethodSets.MethodSet(recv.T)
	sel := ms.Lookup(method.Pkg(), method.Name())
	if sel == nil {
		m.unsupported(fmt.Sprintf("method %s not found on %s", method.Name(), recv.T))
	}
	fn := m.prog.MethodValue(sel)
	if fn == nil {
		m.unsupported(fmt.Sprintf("no method value for %s on %s", method.Name(), recv.T))
	}
	return m.callFn(fn, append([]Value{recv.V}, args...), nil)
}

func (m *Machine) invokeOpaque(o *Opaque, method *types.Func, args []Value) Value {
	switch method.Name() {
	case "Error", "String":
		return StringVal{S: fmt.Sprintf("<opaque %s #%d %s>", o.Kind, o.ID, o.Note)}
	case "Unwrap":
		if o.Wrapped != nil {
			return o.Wrapped
		}
		return IfaceVal{}
	}
	m.unsupported("method " + method.Name() + " on opaque " + o.Kind)
	return nil
}

func (m *Machine) mkDeferred(fr *Frame, c *ssa.CallCommon) deferred {
	args := m.evalArgs(fr, c)
	if c.IsInvoke() {
		recv := m.get(fr, c.Value).(IfaceVal)
		return deferred{recv: &recv, method: c.Method, args: args}
	}
	switch f := c.Value.(type) {
	case *ssa.Function:
		return deferred{fn: &Closure{Fn: f}, args: args}
	case *ssa.Builtin:
		return deferred{fn: &Closure{Blt: f}, args: args}
	}
	cl := m.get(fr, c.Value).(*Closure)
	return deferred{fn: cl, args: args}
}

func (m *Machine) builtin(b *ssa.Builtin, args []Value, c *ssa.CallCommon) Value {
	tt := m.tt
	switch b.Name() {
	case "len":
		switch x := args[0].(type) {
		case SliceVal:
			return tt.Const(uint64(x.Len), 64)
		case StringVal:
			return tt.Const(uint64(x.Len()), 64)
		case *MapObj:
			if x == nil {
				return tt.Const(0, 64)
			}
			n := 0
			for _, e := range x.Entries {
				if !e.Dead {
					n++
				}
			}
			return tt.Const(uint64(n), 64)
		case *ArrayVal:
			return tt.Const(uint64(len(x.E)), 64)
		case Ptr:
			return tt.Const(uint64(len(x.C.Sub)), 64)
		case *ChanObj:
			return tt.Const(uint64(m.chanLen(x)), 64)
		}
	case "cap":
		switch x := args[0].(type) {
		case SliceVal:
			return tt.Const(uint64(len(x.Cells)), 64)
		case *ArrayVal:
			return tt.Const(uint64(len(x.E)), 64)
		case Ptr:
			return tt.Const(uint64(len(x.C.Sub)), 64)
		case *ChanObj:
			return tt.Const(uint64(m.chanCap(x)), 64)
		}
	case "append":
		s := args[0].(SliceVal)
		var add []Value
		var et types.Type = s.Elem
		switch y := args[1].(type) {
		case SliceVal:
			for i := 0; i < y.Len; i++ {
				add = append(add, m.load(y.Cells[i]))
			}
			if et == nil {
				et = y.Elem
			}
		case StringVal:
			for _, t := range m.stringTerms(y) {
				add = append(add, t)
			}
			if et == nil {
				et = types.Typ[types.Uint8]
			}
		}
		if len(add) == 0 {
			return s
		}
		if et == nil {
			m.unsupported("append: unknown element type")
		}
		if s.Len+len(add) <= len(s.Cells) {
			for i, v := range add {
				m.store(s.Cells[s.Len+i], v)
			}
			return SliceVal{Cells: s.Cells, Len: s.Len + len(add), NotNil: true, Elem: et}
		}
		ncap := s.Len + len(add)
		if ncap < 2*len(s.Cells) {
			ncap = 2 * len(s.Cells)
		}
		cells := make([]*Cell, ncap)
		for i := range cells {
			cells[i] = m.newCell(et)
			if i < s.Len {
				m.store(cells[i], m.load(s.Cells[i]))
			} else if i-s.Len < len(add) {
				m.store(cells[i], add[i-s.Len])
			}
		}
		return SliceVal{Cells: cells, Len: s.Len + len(add), NotNil: true, Elem: et}
	case "copy":
		d := args[0].(SliceVal)
		var src []Value
		switch y := args[1].(type) {
		case SliceVal:
			for i := 0; i < y.Len; i++ {
				src = append(src, m.load(y.Cells[i]))
			}
		case StringVal:
			for _, t := range m.stringTerms(y) {
				src = append(src, t)
			}
		}
		n := d.Len
		if len(src) < n {
			n = len(src)
		}
		for i := 0; i < n; i++ {
			m.store(d.Cells[i], src[i])
		}
		return tt.Const(uint64(n), 64)
	case "delete":
		mo := args[0].(*MapObj)
		if mo != nil {
			m.mapDelete(mo, args[1])
		}
		return nil
	case "close":
		m.chanClose(args[0].(*ChanObj))
		return nil
	case "recover":
		g := m.path.cur
		if g.recoverFrame != nil && g.recoverFrame.panicking != nil {
			p := g.recoverFrame.panicking
			g.recoverFrame.panicking = nil
			if iv, ok := p.v.(IfaceVal); ok {
				return iv
			}
			return IfaceVal{T: types.Typ[types.String], V: p.v}
		}
		return IfaceVal{}
	case "print", "println":
		return nil
	case "min", "max":
		res := args[0]
		for _, a := range args[1:] {
			x, y := res.(*Term), a.(*Term)
			signed := c != nil && isSigned(c.Args[0].Type())
			var lt *Term
			if signed {
				lt = tt.Slt(y, x)
			} else {
				lt = tt.Ult(y, x)
			}
			if b.Name() == "max" {
				lt = tt.Not(tt.Or(lt, tt.Eq(x, y)))
				// y > x
			}
			res = tt.Ite(lt, y, x)
		}
		return res
	case "clear":
		switch x := args[0].(type) {
		case *MapObj:
			if x != nil {
				for _, e := range x.Entries {
					e.Dead = true
				}
			}
		case SliceVal:
			for i := 0; i < x.Len; i++ {
				m.store(x.Cells[i], m.zero(x.Cells[i].T))
			}
		}
		return nil
	case "ssa:wrapnilchk":
		if p, ok := args[0].(Ptr); ok && p.IsNil() {
			m.goPanic("runtime error: value method called using nil pointer")
		}
		return args[0]
	}
	m.unsupported(fmt.Sprintf("builtin %s on %T", b.Name(), args[0]))
	return nil
}

// ---------------- maps ----------------

func (m *Machine) keyType(mo *MapObj) types.Type { return mo.KT }

// mapFind returns the live entry whose key equals k (forking on symbolic equality).
func (m *Machine) mapFind(mo *MapObj, k Value) *mapEntry {
	for _, e := range mo.Entries {
		if e.Dead {
			continue
		}
		eq := m.valuesEqual(e.K, k, mo.KT)
		if m.branch(eq) {
			return e
		}
	}
	return nil
}

func (m *Machine) mapSet(mo *MapObj, k, v Value) {
	if e := m.mapFind(mo, k); e != nil {
		m.store(e.C, v)
		return
	}
	c := m.newCell(mo.VT)
	m.store(c, v)
	mo.Entries = append(mo.Entries, &mapEntry{K: k, C: c})
}

func (m *Machine) mapDelete(mo *MapObj, k Value) {
	if e := m.mapFind(mo, k); e != nil {
		e.Dead = true
	}
}

func (m *Machine) lookup(fr *Frame, x *ssa.Lookup) Value {
	base := m.get(fr, x.X)
	if s, ok := base.(StringVal); ok {
		idx := m.get(fr, x.Index).(*Term)
		ts := m.stringTerms(s)
		if _, isConst := evalConst(idx); !isConst && len(ts) > 0 && len(ts) <= 256 {
			// symbolic index into a short string: bounds check, then an ite chain (no fork per position)
			if !m.branch(m.inBounds(idx, len(ts))) {
				m.goPanic(fmt.Sprintf("runtime error: index out of range [symbolic] with length %d", len(ts)))
			}
			res := ts[len(ts)-1]
			for i := len(ts) - 2; i >= 0; i-- {
				res = m.tt.Ite(m.tt.Eq(idx, m.tt.Const(uint64(i), idx.W)), ts[i], res)
			}
			return res
		}
		i := m.boundedIndex(idx, len(ts), false)
		return ts[i]
	}
	mo := base.(*MapObj)
	k := m.get(fr, x.Index)
	var e *mapEntry
	if mo != nil {
		e = m.mapFind(mo, k)
	}
	var v Value
	if e != nil {
		v = m.load(e.C)
	} else {
		v = m.zero(x.X.Type().Underlying().(*types.Map).Elem())
	}
	if x.CommaOk {
		return TupleVal{v, m.tt.Bool(e != nil)}
	}
	return v
}

func (m *Machine) rangeStart(v Value) Value {
	switch x := v.(type) {
	case *MapObj:
		it := &RangeIter{M: x}
		if x != nil {
			for _, e := range x.Entries {
				if !e.Dead {
					it.Keys = append(it.Keys, e)
				}
			}
			if m.cfg.MapPerm && len(it.Keys) > 1 && len(it.Keys) <= 4 {
				// choose a permutation: successive choices
				keys := append([]*mapEntry{}, it.Keys...)
				var out []*mapEntry
				for len(keys) > 0 {
					i := m.choose(len(keys))
					out = append(out, keys[i])
					keys = append(keys[:i], keys[i+1:]...)
				}
				it.Keys = out
			}
		}
		return it
	case StringVal:
		return &RangeIter{S: x}
	}
	m.unsupported(fmt.Sprintf("range over %T", v))
	return nil
}

func (m *Machine) rangeNext(it *RangeIter, x *ssa.Next) Value {
	tt := m.tt
	if x.IsString && it.S.Sym != nil {
		// symbolic string: single-byte (ASCII) runes only — a byte that may be >= 0x80 would start a
		// multi-byte sequence whose length depends on its value
		if it.I >= len(it.S.Sym) {
			return TupleVal{tt.F, tt.Const(0, 64), tt.Const(0, 32)}
		}
		b := it.S.Sym[it.I]
		if !m.branch(tt.Ult(b, tt.Const(0x80, 8))) {
			m.unsupported("range over symbolic string: non-ASCII byte")
		}
		i := it.I
		it.I++
		return TupleVal{tt.T, tt.Const(uint64(i), 64), tt.ZExt(b, 32)}
	}
	if x.IsString {
		if it.I >= len(it.S.S) {
			return TupleVal{tt.F, tt.Const(0, 64), tt.Const(0, 32)}
		}
		r, sz := utf8.DecodeRuneInString(it.S.S[it.I:])
		i := it.I
		it.I += sz
		return TupleVal{tt.T, tt.Const(uint64(i), 64), tt.Const(uint64(r), 32)}
	}
	for it.I < len(it.Keys) {
		e := it.Keys[it.I]
		it.I++
		if e.Dead {
			continue
		}
		return TupleVal{tt.T, e.K, m.load(e.C)}
	}
	tup := x.Type().(*types.Tuple)
	return TupleVal{tt.F, m.zero(tup.At(1).Type()), m.zero(tup.At(2).Type())}
}

// ---------------- globals & package init ----------------

func (m *Machine) globalCell(g *ssa.Global) *Cell {
	p := m.path
	if c, ok := p.globals[g]; ok {
		return c
	}
	m.initPackage(g.Pkg)
	if c, ok := p.globals[g]; ok {
		return c
	}
	c := m.newCell(g.Type().Underlying().(*types.Pointer).Elem())
	p.globals[g] = c
	m.foreignGlobalInit(g, c)
	return c
}

func (m *Machine) rawGlobalCell(g *ssa.Global) *Cell {
	p := m.path
	if c, ok := p.globals[g]; ok {
		return c
	}
	c := m.newCell(g.Type().Underlying().(*types.Pointer).Elem())
	p.globals[g] = c
	m.foreignGlobalInit(g, c)
	return c
}

// foreignGlobalInit gives error-typed globals of packages whose init we do not run a distinct identity.
func (m *Machine) foreignGlobalInit(g *ssa.Global, c *Cell) {
	if g.Pkg != nil && m.shouldRunInit(g.Pkg) {
		return
	}
	if it, ok := c.T.Underlying().(*types.Interface); ok && it.NumMethods() == 1 && it.Method(0).Name() == "Error" {
		m.path.opaqueID++
		c.V = IfaceVal{T: types.Typ[types.String], V: &Opaque{ID: m.path.opaqueID, Kind: "error", Note: g.String()}}
	}
}

func (m *Machine) shouldRunInit(pkg *ssa.Package) bool {
	path := pkg.Pkg.Path()
	if strings.HasPrefix(path, "github.com/LiskHQ/lisk-engine") {
		return true
	}
	switch path {
	case "runtime", "os", "syscall", "reflect", "unicode", "golang.org/x/text/unicode/norm", "time", "fmt", "sync", "net",
		"regexp", "regexp/syntax", "internal/cpu", "internal/poll", "crypto/rand", "math/rand", "encoding/json", "log",
		"internal/godebug", "internal/reflectlite", "crypto/sha256", "crypto/sha512", "crypto/internal/boring":
		return false
	}
	if strings.HasPrefix(path, "github.com/") || strings.HasPrefix(path, "go.uber.org/") || strings.HasPrefix(path, "google.golang.org/") ||
		strings.HasPrefix(path, "internal/") || strings.HasPrefix(path, "runtime/") || strings.HasPrefix(path, "vendor/") {
		return false
	}
	return true
}

func (m *Machine) initPackage(pkg *ssa.Package) {
	p := m.path
	if pkg == nil || p.inited[pkg] {
		return
	}
	p.inited[pkg] = true
	if !m.shouldRunInit(pkg) {
		return
	}
	initFn := pkg.Func("init")
	if initFn == nil || initFn.Blocks == nil {
		return
	}
	// pre-create cells for all globals of the package so init stores land in them
	for _, mem := range pkg.Members {
		if g, ok := mem.(*ssa.Global); ok {
			m.rawGlobalCell(g)
		}
	}
	p.initMode++
	savedSteps := p.steps
	func() {
		defer func() {
			p.initMode--
			if r := recover(); r != nil {
				if ap, ok := r.(abortPath); ok && (ap.kind == "unsupported") {
					// tolerate: the rest of the initialisers stay zero
					m.stats.Unsupported["init "+pkg.Pkg.Path()+": "+ap.msg]++
					return
				}
				panic(r)
			}
		}()
		m.callPlain(initFn, nil, nil)
	}()
	p.steps = savedSteps
}

var _ = math.Floor

// allocLimit bounds the capacity of one make([]T, n) (//zz:opt alloc=N, default 65536): a larger request is
// reported as a panic (an allocation assertion) rather than silently exhausting the interpreter's memory.
func (m *Machine) allocLimit() int64 {
	if s, ok := m.cfg.Opts["alloc"]; ok {
		if n, err := strconv.ParseInt(s, 10, 64); err == nil && n > 0 {
			return n
		}
	}
	return 1 << 16
}
