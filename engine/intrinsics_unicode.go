package main

import (
	"unicode"

	"golang.org/x/tools/go/ssa"
)

// unicode classification: the range tables of package unicode are large package-level structures that the
// interpreter does not initialise; concrete runes are classified by the host library, symbolic runes only in
// the ASCII range (a symbolic rune that may be >= 0x80 makes the path unsupported).
func init() {
	mk := func(host func(rune) bool, ascii func(m *Machine, r *Term) *Term) func(m *Machine, fn *ssa.Function, a []Value) Value {
		return func(m *Machine, fn *ssa.Function, a []Value) Value {
			r := a[0].(*Term)
			if c, ok := evalConst(r); ok {
				return m.tt.Bool(host(rune(int32(uint32(c)))))
			}
			if !m.branch(m.tt.Ult(r, m.tt.Const(0x80, r.W))) {
				m.unsupported("unicode classification of a symbolic non-ASCII rune")
			}
			return ascii(m, r)
		}
	}
	in := func(m *Machine, r *Term, lo, hi byte) *Term {
		return m.tt.And(m.tt.Ule(m.tt.Const(uint64(lo), r.W), r), m.tt.Ule(r, m.tt.Const(uint64(hi), r.W)))
	}
	upper := func(m *Machine, r *Term) *Term { return in(m, r, 'A', 'Z') }
	lower := func(m *Machine, r *Term) *Term { return in(m, r, 'a', 'z') }
	digit := func(m *Machine, r *Term) *Term { return in(m, r, '0', '9') }
	letter := func(m *Machine, r *Term) *Term { return m.tt.Or(upper(m, r), lower(m, r)) }
	intrinsics["unicode.IsLetter"] = mk(unicode.IsLetter, letter)
	intrinsics["unicode.IsDigit"] = mk(unicode.IsDigit, digit)
	intrinsics["unicode.IsNumber"] = mk(unicode.IsNumber, digit)
	intrinsics["unicode.IsUpper"] = mk(unicode.IsUpper, upper)
	intrinsics["unicode.IsLower"] = mk(unicode.IsLower, lower)
}
