package main

import (
	"golang.org/x/text/unicode/norm"
	"golang.org/x/tools/go/ssa"
)

// Unicode normalisation on CONCRETE inputs is computed by the host's golang.org/x/text (the version
// /repo uses); symbolic inputs keep the contract stubs of intrinsics.go (ASCII identity + UF), and
// functions without such a stub (QuickSpan, Span, FirstBoundary) are modelled for ASCII input only.
func init() {
	const P = "(golang.org/x/text/unicode/norm.Form)."
	form := func(m *Machine, v Value) norm.Form {
		t, ok := v.(*Term)
		if !ok || !t.IsConst() {
			m.unsupported("symbolic norm.Form")
		}
		return norm.Form(t.C)
	}
	reg := func(name string, f func(m *Machine, fm norm.Form, b []byte) Value) {
		old := intrinsics[P+name] // symbolic contract stub registered by intrinsics.go (file order), may be nil
		intrinsics[P+name] = func(m *Machine, fn *ssa.Function, a []Value) Value {
			var ts []*Term
			switch s := a[1].(type) {
			case SliceVal:
				if b, ok := m.sliceConcreteBytes(s); ok {
					return f(m, form(m, a[0]), b)
				}
				ts = m.sliceTerms(s)
			case StringVal:
				if s.Sym == nil {
					return f(m, form(m, a[0]), []byte(s.S))
				}
				ts = s.Sym
			}
			if old != nil {
				return old(m, fn, a)
			}
			ascii := m.tt.T
			for _, b := range ts {
				ascii = m.tt.And(ascii, m.tt.Ult(b, m.tt.Const(0x80, 8)))
			}
			if !m.branch(ascii) {
				m.unsupported("norm." + name + " on symbolic non-ASCII input")
			}
			return m.tt.Const(uint64(len(ts)), 64) // whole ASCII input is one normalised span
		}
	}
	reg("IsNormal", func(m *Machine, f norm.Form, b []byte) Value { return m.tt.Bool(f.IsNormal(b)) })
	reg("IsNormalString", func(m *Machine, f norm.Form, b []byte) Value { return m.tt.Bool(f.IsNormalString(string(b))) })
	reg("String", func(m *Machine, f norm.Form, b []byte) Value { return StringVal{S: f.String(string(b))} })
	reg("Bytes", func(m *Machine, f norm.Form, b []byte) Value { return m.mkBytes(f.Bytes(b)) })
	reg("QuickSpan", func(m *Machine, f norm.Form, b []byte) Value { return m.tt.Const(uint64(f.QuickSpan(b)), 64) })
	reg("QuickSpanString", func(m *Machine, f norm.Form, b []byte) Value {
		return m.tt.Const(uint64(f.QuickSpanString(string(b))), 64)
	})
	reg("FirstBoundary", func(m *Machine, f norm.Form, b []byte) Value {
		return m.tt.Const(uint64(int64(f.FirstBoundary(b))), 64)
	})
}
