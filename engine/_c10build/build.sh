#!/bin/sh
# Builds /verif/bin/gosym-c10: the engine with engine.patch applied (//zz:opt gor=N goroutine limit per
# path, //zz:opt hashdepth=N recursion depth of the hash collision-freeness facts) WITHOUT touching the
# files of /verif/engine: patched copies of the current conc.go / intrinsics.go go to a scratch
# directory and replace the originals through `go build -overlay`.
set -e
here=$(cd "$(dirname "$0")" && pwd)
eng=$(dirname "$here")
tmp=$(mktemp -d)
cp "$eng/conc.go" "$eng/intrinsics.go" "$tmp/"
(cd "$tmp" && patch -p1 -s < "$here/engine.patch")
printf '{"Replace": {"%s/conc.go": "%s/conc.go", "%s/intrinsics.go": "%s/intrinsics.go"}}\n' "$eng" "$tmp" "$eng" "$tmp" > "$tmp/overlay.json"
(cd "$eng" && GOFLAGS=-mod=mod GOPROXY=off GOSUMDB=off GOTOOLCHAIN=local go build -overlay "$tmp/overlay.json" -o ../bin/gosym-c10 .)
rm -rf "$tmp"
echo "built $eng/../bin/gosym-c10"
