package main

import (
	"go/types"

	"golang.org/x/tools/go/ssa"
)

// Intrinsics needed by the C09.d / C10 / C11 trie harnesses (pkg/trie/smt, pkg/trie/rmt).
//
//   - collection/bytes.FromBools: the Go body tests every bool with `if x` (2^n paths for n symbolic
//     bits). The intrinsic builds the same bytes as terms (bit i of the left-padded bool list sets
//     0x80>>(i%8) in byte i/8), without forking.
//   - collection.Equal[T] on slices of scalars: one conjunction instead of an early-exit loop
//     (n+1 paths). Other element types run the Go body.
//   - collection/ints.Max / Min: the Go body sorts a copy with sort.Slice (forks on every comparison and
//     is limited to 8 elements by the sort.Slice intrinsic); here an ite chain. Empty input runs the Go
//     body (it panics).
//   - encoding/hex.EncodeToString of symbolic bytes: the built-in version returns a fresh opaque string
//     per call, so two equal symbolic byte strings get different map keys (smt.Verify's duplicate-query
//     check was never reached). Here the result is the real symbolic string (two hex digits per byte).
func init() {
	intrinsics["github.com/LiskHQ/lisk-engine/pkg/collection/bytes.FromBools"] = func(m *Machine, fn *ssa.Function, a []Value) Value {
		in := a[0].(SliceVal)
		tt := m.tt
		n := in.Len
		nb := (n + 7) / 8
		pad := nb*8 - n
		res := make([]*Term, nb)
		for i := range res {
			res[i] = tt.Const(0, 8)
		}
		for j := 0; j < n; j++ {
			b, ok := in.Cells[j].V.(*Term)
			if !ok || !b.IsBool() {
				return m.callPlain(fn, a, nil)
			}
			pos := pad + j
			mask := tt.Const(uint64(0x80>>uint(pos%8)), 8)
			res[pos/8] = tt.BvOr(res[pos/8], tt.Ite(b, mask, tt.Const(0, 8)))
		}
		return m.mkByteTerms(res)
	}
	intrinsics["github.com/LiskHQ/lisk-engine/pkg/collection.Equal"] = func(m *Machine, fn *ssa.Function, a []Value) Value {
		x, y := a[0].(SliceVal), a[1].(SliceVal)
		if x.Len != y.Len {
			return m.tt.F
		}
		tt := m.tt
		eq := tt.T
		allBytes := true
		for i := 0; i < x.Len; i++ {
			p, ok1 := x.Cells[i].V.(*Term)
			q, ok2 := y.Cells[i].V.(*Term)
			if !ok1 || !ok2 || p.W != q.W {
				return m.callPlain(fn, a, nil)
			}
			if p.W != 8 {
				allBytes = false
			}
			eq = tt.And(eq, tt.Eq(p, q))
		}
		if allBytes && x.Len > 0 {
			// byte strings: hash-aware equality (collision-freeness facts for compared hash values)
			return m.bytesEq(m.sliceTerms(x), m.sliceTerms(y))
		}
		return eq
	}
	intrinsics["encoding/hex.EncodeToString"] = func(m *Machine, fn *ssa.Function, a []Value) Value {
		tt := m.tt
		in := m.sliceTerms(a[0].(SliceVal))
		digit := func(nib *Term) *Term { // nib: 8-bit term < 16
			return tt.Ite(tt.Ult(nib, tt.Const(10, 8)), tt.Add(nib, tt.Const('0', 8)), tt.Add(nib, tt.Const('a'-10, 8)))
		}
		out := make([]*Term, 0, 2*len(in))
		for _, b := range in {
			out = append(out, digit(tt.Lshr(b, tt.Const(4, 8))), digit(tt.BvAnd(b, tt.Const(0x0f, 8))))
		}
		return m.mkString(out)
	}
	extreme := func(max bool) intrinsicFn {
		return func(m *Machine, fn *ssa.Function, a []Value) Value {
			in := a[0].(SliceVal)
			if in.Len == 0 {
				return m.callPlain(fn, a, nil)
			}
			unsigned := false
			if b, ok := fn.Signature.Results().At(0).Type().Underlying().(*types.Basic); ok {
				unsigned = b.Info()&types.IsUnsigned != 0
			}
			tt := m.tt
			var best *Term
			for i := 0; i < in.Len; i++ {
				x, ok := in.Cells[i].V.(*Term)
				if !ok {
					return m.callPlain(fn, a, nil)
				}
				if best == nil {
					best = x
					continue
				}
				var less *Term // best < x
				if unsigned {
					less = tt.Ult(best, x)
				} else {
					less = tt.Slt(best, x)
				}
				if max {
					best = tt.Ite(less, x, best)
				} else {
					best = tt.Ite(less, best, x)
				}
			}
			return best
		}
	}
	intrinsics["github.com/LiskHQ/lisk-engine/pkg/collection/ints.Max"] = extreme(true)
	intrinsics["github.com/LiskHQ/lisk-engine/pkg/collection/ints.Min"] = extreme(false)
}
