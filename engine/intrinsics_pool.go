package main

import (
	"go/types"

	"golang.org/x/tools/go/ssa"
)

// sync.Pool: Get returns an item handed to Put earlier — any of them, in principle; the model keeps a
// LIFO list per pool (c.Obj of the Pool cell) and lets the path choose between re-using the most
// recently put item and a fresh one from New (the runtime may drop pooled items at any time) — or
// New() / nil when the pool is empty.
type poolState struct{ items []Value }

func poolOf(c *Cell) *poolState {
	if st, ok := c.Obj.(*poolState); ok {
		return st
	}
	st := &poolState{}
	c.Obj = st
	return st
}

func poolNew(m *Machine, c *Cell) Value {
	st, ok := c.T.Underlying().(*types.Struct)
	if !ok {
		return IfaceVal{}
	}
	for i := 0; i < st.NumFields(); i++ {
		if st.Field(i).Name() == "New" && i < len(c.Sub) {
			if cl, ok := m.load(c.Sub[i]).(*Closure); ok && cl != nil {
				return m.callFn(cl.Fn, nil, cl.Bind)
			}
		}
	}
	return IfaceVal{}
}

func init() {
	intrinsics["(*sync.Pool).Put"] = func(m *Machine, fn *ssa.Function, a []Value) Value {
		c := a[0].(Ptr).C
		if iv, ok := a[1].(IfaceVal); ok && iv.T == nil {
			return nil // Put(nil) is ignored
		}
		st := poolOf(c)
		st.items = append(st.items, a[1])
		return nil
	}
	intrinsics["(*sync.Pool).Get"] = func(m *Machine, fn *ssa.Function, a []Value) Value {
		c := a[0].(Ptr).C
		st := poolOf(c)
		if n := len(st.items); n > 0 && m.choose(2) == 0 {
			v := st.items[n-1]
			st.items = st.items[:n-1]
			return v
		}
		return poolNew(m, c)
	}
}
