package main

import (
	"crypto/ed25519"

	"golang.org/x/tools/go/ssa"
)

// ed25519 (DESIGN §3): concrete arguments are computed for real; otherwise the deterministic
// signature is an uninterpreted function Sig(pub, msg) and Verify(pub, msg, sig) <=> sig == Sig(pub, msg).
// The model additionally knows that the all-0xff string is never a valid signature (non-canonical R).
func init() {
	sigTerms := func(m *Machine, pub, msg []*Term) []*Term {
		tt := m.tt
		in := tt.Concat(append(append([]*Term{}, pub...), msg...)...)
		out := make([]*Term, 64)
		lo := tt.UF("EdSigLo_"+itoa(len(msg)), 256, in)
		hi := tt.UF("EdSigHi_"+itoa(len(msg)), 256, in)
		for i := 0; i < 32; i++ {
			out[i] = tt.Extract(lo, 255-8*i, 248-8*i)
			out[32+i] = tt.Extract(hi, 255-8*i, 248-8*i)
		}
		// injectivity: distinct (pub,msg) give distinct signatures (collision-free model, like the hash)
		p := m.path
		known := false
		for _, h := range p.sigApps {
			if h.out == lo {
				known = true
			}
		}
		if !known {
			for _, h := range p.sigApps {
				if len(h.in) == len(pub)+len(msg) {
					// compare the inputs with bytesEq: messages are usually hashes, and only bytesEq adds the
					// collision-freeness facts that make H(x) = H(x') imply x = x'
					m.addFact(tt.Implies(tt.Eq(h.out, lo), m.bytesEq(h.in, append(append([]*Term{}, pub...), msg...))))
				} else {
					m.addFact(tt.Not(tt.Eq(h.out, lo)))
				}
			}
			p.sigApps = append(p.sigApps, hashApp{in: append(append([]*Term{}, pub...), msg...), out: lo})
		}
		// fact: not all 0xff
		all := tt.T
		for _, b := range out[:4] {
			all = tt.And(all, tt.Eq(b, tt.Const(0xff, 8)))
		}
		m.addFact(tt.Not(all))
		return out
	}
	sign := func(m *Machine, fn *ssa.Function, a []Value) Value {
		priv, msg := a[0].(SliceVal), a[1].(SliceVal)
		if priv.Len != 64 {
			m.goPanic("ed25519: bad private key length")
		}
		if pb, ok := m.sliceConcreteBytes(priv); ok {
			if mb, ok := m.sliceConcreteBytes(msg); ok {
				return m.mkBytes(ed25519.Sign(ed25519.PrivateKey(pb), mb))
			}
		}
		pt := m.sliceTerms(priv)
		return m.mkByteTerms(sigTerms(m, pt[32:], m.sliceTerms(msg)))
	}
	verify := func(m *Machine, fn *ssa.Function, a []Value) Value {
		pub, msg, sig := a[0].(SliceVal), a[1].(SliceVal), a[2].(SliceVal)
		if pub.Len != 32 {
			m.goPanic("ed25519: bad public key length")
		}
		if sig.Len != 64 {
			return m.tt.F
		}
		pb, ok1 := m.sliceConcreteBytes(pub)
		mb, ok2 := m.sliceConcreteBytes(msg)
		sb, ok3 := m.sliceConcreteBytes(sig)
		if ok1 && ok2 && ok3 {
			return m.tt.Bool(ed25519.Verify(ed25519.PublicKey(pb), mb, sb))
		}
		if ok1 && ok2 && !ok3 {
			// cannot recover the private key: compare against the UF of (pub,msg)
		}
		want := sigTerms(m, m.sliceTerms(pub), m.sliceTerms(msg))
		_, eq := m.lexCompare(m.sliceTerms(sig), want)
		return eq
	}
	for _, p := range []string{"crypto/ed25519.", "golang.org/x/crypto/ed25519."} {
		intrinsics[p+"Sign"] = sign
		intrinsics[p+"Verify"] = verify
	}
}

func itoa(n int) string {
	if n == 0 {
		return "0"
	}
	s := ""
	for n > 0 {
		s = string(rune('0'+n%10)) + s
		n /= 10
	}
	return s
}
