package main

import (
	"fmt"
	"strings"
)

// evalTerm evaluates t under an assignment of the named variables (W<=64 terms only).
// ok=false when the term contains something the evaluator does not interpret (UF, wide vectors).
type evaluator struct {
	vars map[*Term]uint64
	memo map[int]uint64
	bad  map[int]bool
}

func newEvaluator(vars map[*Term]uint64) *evaluator {
	return &evaluator{vars: vars, memo: map[int]uint64{}, bad: map[int]bool{}}
}

func (e *evaluator) eval(t *Term) (uint64, bool) {
	if t.Op == "const" {
		if t.Big != nil {
			return 0, false
		}
		return t.C, true
	}
	if t.Op == "true" {
		return 1, true
	}
	if t.Op == "false" {
		return 0, true
	}
	if v, ok := e.memo[t.ID]; ok {
		return v, true
	}
	if e.bad[t.ID] {
		return 0, false
	}
	v, ok := e.eval1(t)
	if ok {
		e.memo[t.ID] = v
	} else {
		e.bad[t.ID] = true
	}
	return v, ok
}

func (e *evaluator) eval1(t *Term) (uint64, bool) {
	if t.W > 64 {
		return 0, false
	}
	switch t.Op {
	case "var":
		// variables created after the model was taken are unconstrained so far: complete with 0
		return e.vars[t] & mask64(t.W), true
	case "uf", "concat":
		return 0, false
	}
	args := make([]uint64, len(t.Args))
	for i, a := range t.Args {
		if a.W > 64 {
			return 0, false
		}
		v, ok := e.eval(a)
		if !ok {
			return 0, false
		}
		args[i] = v
	}
	b2u := func(b bool) uint64 {
		if b {
			return 1
		}
		return 0
	}
	w := t.W
	aw := 0
	if len(t.Args) > 0 {
		aw = t.Args[0].W
	}
	switch t.Op {
	case "not":
		return 1 - args[0], true
	case "and":
		return args[0] & args[1], true
	case "or":
		return args[0] | args[1], true
	case "=":
		return b2u(args[0] == args[1]), true
	case "ite":
		if args[0] == 1 {
			return args[1], true
		}
		return args[2], true
	case "bvadd":
		return (args[0] + args[1]) & mask64(w), true
	case "bvsub":
		return (args[0] - args[1]) & mask64(w), true
	case "bvmul":
		return (args[0] * args[1]) & mask64(w), true
	case "bvand":
		return args[0] & args[1], true
	case "bvor":
		return args[0] | args[1], true
	case "bvxor":
		return args[0] ^ args[1], true
	case "bvnot":
		return ^args[0] & mask64(w), true
	case "bvneg":
		return (-args[0]) & mask64(w), true
	case "bvudiv":
		if args[1] == 0 {
			return mask64(w), true
		}
		return args[0] / args[1], true
	case "bvurem":
		if args[1] == 0 {
			return args[0], true
		}
		return args[0] % args[1], true
	case "bvsdiv":
		x, y := sext(args[0], w), sext(args[1], w)
		if y == 0 {
			if x >= 0 {
				return mask64(w), true
			}
			return 1, true
		}
		if y == -1 {
			return uint64(-x) & mask64(w), true
		}
		return uint64(x/y) & mask64(w), true
	case "bvsrem":
		x, y := sext(args[0], w), sext(args[1], w)
		if y == 0 {
			return args[0], true
		}
		if y == -1 {
			return 0, true
		}
		return uint64(x%y) & mask64(w), true
	case "bvshl":
		if args[1] >= uint64(w) {
			return 0, true
		}
		return (args[0] << args[1]) & mask64(w), true
	case "bvlshr":
		if args[1] >= uint64(w) {
			return 0, true
		}
		return args[0] >> args[1], true
	case "bvashr":
		s := args[1]
		if s >= uint64(w) {
			s = uint64(w - 1)
		}
		return uint64(sext(args[0], w)>>s) & mask64(w), true
	case "bvult":
		return b2u(args[0] < args[1]), true
	case "bvule":
		return b2u(args[0] <= args[1]), true
	case "bvslt":
		return b2u(sext(args[0], aw) < sext(args[1], aw)), true
	case "bvsle":
		return b2u(sext(args[0], aw) <= sext(args[1], aw)), true
	}
	switch {
	case strings.HasPrefix(t.Op, "extract:"):
		var hi, lo int
		fmt.Sscanf(t.Op, "extract:%d:%d", &hi, &lo)
		return (args[0] >> uint(lo)) & mask64(hi-lo+1), true
	case strings.HasPrefix(t.Op, "zext:"):
		return args[0], true
	case strings.HasPrefix(t.Op, "sext:"):
		return uint64(sext(args[0], aw)) & mask64(w), true
	}
	return 0, false
}

func mask64(w int) uint64 {
	if w == 0 {
		return 1
	}
	return mask(w)
}
