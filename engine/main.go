package main

import (
	"bufio"
	"encoding/json"
	"flag"
	"fmt"
	"os"
	"os/exec"
	"path/filepath"
	"regexp"
	"runtime"
	"runtime/pprof"
	"sort"
	"strings"
	"time"

	"golang.org/x/tools/go/ssa"
)

type KnownFinding struct {
	Property string `json:"property"`
	Harness  string `json:"harness,omitempty"`
	Label    string `json:"label,omitempty"` // substring match
	Site     string `json:"site,omitempty"`  // substring match on innermost repo function
	Status   string `json:"status"`          // "known" | "fixed"
	Commit   string `json:"commit,omitempty"`
	What     string `json:"what"`
}

func loadKnown() []KnownFinding {
	var out []KnownFinding
	f, err := os.Open(filepath.Join(verifRoot, "known_findings.jsonl"))
	if err != nil {
		return nil
	}
	defer f.Close()
	sc := bufio.NewScanner(f)
	sc.Buffer(make([]byte, 1<<20), 1<<20)
	for sc.Scan() {
		line := strings.TrimSpace(sc.Text())
		if line == "" || strings.HasPrefix(line, "#") {
			continue
		}
		var k KnownFinding
		if json.Unmarshal([]byte(line), &k) == nil {
			out = append(out, k)
		}
	}
	return out
}

func matchKnown(ks []KnownFinding, prop string, v *Violation) *KnownFinding {
	for i := range ks {
		k := &ks[i]
		if k.Status != "known" || k.Property != prop {
			continue
		}
		if k.Harness != "" && k.Harness != v.Harness {
			continue
		}
		if k.Label != "" && !strings.Contains(normLabel(v.Label), normLabel(k.Label)) {
			continue
		}
		if k.Site != "" && !strings.Contains(v.Site, k.Site) {
			continue
		}
		return k
	}
	return nil
}

type replayIn struct {
	Harness   string            `json:"harness"`
	Pkg       string            `json:"pkg"`
	Vars      map[string]string `json:"vars"`
	Params    map[string]string `json:"params"`
	TimeoutMs int               `json:"timeout_ms"`
	Expect    string            `json:"expect"`
	Label     string            `json:"label"`
	Kind      string            `json:"kind"`
	Site      string            `json:"site"`
	Stack     []string          `json:"stack,omitempty"`
	Property  string            `json:"property"`
}

type replayOut struct {
	Failed         []string          `json:"failed"`
	Reached        []string          `json:"reached"`
	Obs            map[string]string `json:"obs"`
	Panic          string            `json:"panic"`
	Stack          string            `json:"stack"`
	Hang           bool              `json:"hang"`
	AssumeViolated []string          `json:"assume_violated"`
	Ran            bool              `json:"ran"`
}

type harnessReport struct {
	Name        string         `json:"harness"`
	Pkg         string         `json:"pkg"`
	Paths       int            `json:"paths"`
	PathEnds    map[string]int `json:"path_ends"`
	Decisions   int            `json:"decisions"`
	Asserts     int            `json:"assertion_queries"`
	Discharged  int            `json:"discharged_unsat"`
	Inconcl     int            `json:"inconclusive"`
	Queries     int            `json:"solver_queries"`
	SolverS     float64        `json:"solver_s"`
	WallS       float64        `json:"wall_s"`
	Loops       map[string]int `json:"loops_max_trips,omitempty"`
	LoopBound   int            `json:"loop_bound"`
	Unsupported map[string]int `json:"unsupported,omitempty"`
	Reached     map[string]int `json:"reached"`
	Labels      map[string]int `json:"assert_labels"`
	Violations  int            `json:"violations"`
	Incomplete  bool           `json:"incomplete"`
	Opts        map[string]string `json:"opts,omitempty"`
	Stubs       map[string]int `json:"stubs_intrinsics,omitempty"`
	XChecks     int            `json:"cross_checks"`
	Status      string         `json:"status"`
}

func main() {
	if len(os.Args) < 2 {
		fmt.Println("usage: gosym run --prop Cxx --tier quick|thorough | gosym replay <file>")
		os.Exit(2)
	}
	switch os.Args[1] {
	case "run":
		os.Exit(cmdRun(os.Args[2:]))
	case "replay":
		os.Exit(cmdReplay(os.Args[2:]))
	default:
		fmt.Println("unknown command")
		os.Exit(2)
	}
}

func cmdRun(args []string) int {
	fs := flag.NewFlagSet("run", flag.ExitOnError)
	prop := fs.String("prop", "", "property id")
	tier := fs.String("tier", "quick", "quick|thorough")
	workers := fs.Int("workers", runtime.NumCPU(), "workers")
	only := fs.String("only", "", "substring filter on harness names")
	noReplay := fs.Bool("no-replay", false, "skip native replays")
	noEvidence := fs.Bool("no-evidence", false, "do not write the evidence file")
	xcheck := fs.String("xcheck", "auto", "mirror solvers for assertion queries: auto|none|z3-new,cvc5")
	verbose := fs.Bool("v", false, "verbose")
	relFilter := fs.String("pkg", "", "substring filter on package dirs for generated harnesses")
	cpuprof := fs.String("cpuprofile", "", "write cpu profile")
	fs.Parse(args)
	if *cpuprof != "" {
		f, _ := os.Create(*cpuprof)
		pprof.StartCPUProfile(f)
		defer pprof.StopCPUProfile()
	}
	if os.Getenv("VERIF_TIER") != "" && *tier == "" {
		*tier = os.Getenv("VERIF_TIER")
	}
	seed := 0
	fmt.Sscanf(os.Getenv("VERIF_SEED"), "%d", &seed)
	t0 := time.Now()

	workDir := filepath.Join(verifRoot, ".work", fmt.Sprintf("%s-%s-%d", *prop, *tier, os.Getpid()))
	defer os.RemoveAll(workDir)
	defer os.RemoveAll(filepath.Join(verifRoot, ".work", fmt.Sprintf("patched-%d", os.Getpid())))
	loadAttempt := 0
reload:
	loadAttempt++
	dirs, err := harnessDirsFor(*prop)
	os.RemoveAll(workDir)
	os.MkdirAll(workDir, 0o755)
	extra := map[string]string{}
	var genSkipped []string
	if *prop == "C08" || *prop == "C09" {
		gnames, gfiles, skipped, gerr := generateCodecHarnesses(filepath.Join(workDir, "gencodec"), *prop)
		if gerr != nil {
			fmt.Printf("ENGINE-ERROR codec harness generation: %v\n", gerr)
			return 2
		}
		genSkipped = skipped
		for rel, ns := range gnames {
			if *relFilter != "" && !strings.Contains(rel, *relFilter) {
				continue
			}
			dirs[rel] = append(dirs[rel], ns...)
			extra[rel] = gfiles[rel]
		}
		// dirs that have hand-written harnesses also need the generated file if it exists (same package)
		for rel := range dirs {
			if f, ok := gfiles[rel]; ok {
				extra[rel] = f
			}
		}
	}
	if err != nil || len(dirs) == 0 {
		fmt.Printf("ENGINE-ERROR no harnesses for %s: %v\n", *prop, err)
		return 2
	}
	var rels []string
	for r := range dirs {
		rels = append(rels, r)
	}
	for _, md := range modelDirs() {
		if _, ok := dirs[md]; !ok {
			rels = append(rels, md)
		}
	}
	sort.Strings(rels)
	ov, err := prepareOverlay(rels, workDir, extra)
	if err != nil {
		fmt.Printf("ENGINE-ERROR overlay: %v\n", err)
		return 2
	}
	ld, err := loadProgram(rels, ov)
	if err != nil {
		// harness files that do not compile against this tree are dropped and the load is repeated: the
		// remaining harnesses still run (and may report violations); the run cannot end "held" any more
		if broken := brokenHarnessFiles(err.Error()); len(broken) > 0 && loadAttempt < 10 {
			lines, unused := brokenHarnessSites(err.Error())
			for _, f := range broken {
				// first cut out only the declarations that do not compile; drop the file if that is not possible
				// (or was tried for this file three times already)
				if loadAttempt <= 6 && cutBrokenFuncs(f, lines[f], unused[f]) {
					fmt.Printf("HARNESS-DROPPED declarations of %s do not compile against the tree under analysis (cut: %v):\n", f, droppedHarnessFuncs)
					continue
				}
				droppedHarnessFiles[f] = true
				fmt.Printf("HARNESS-DROPPED %s does not compile against the tree under analysis:\n", f)
			}
			for _, line := range strings.Split(err.Error(), "\n") {
				if strings.Contains(line, "zz_verif_") {
					fmt.Printf("    %s\n", line)
				}
			}
			goto reload
		}
		fmt.Printf("ENGINE-ERROR load: %v\n", err)
		return 2
	}
	loadS := time.Since(t0).Seconds()
	var mirrors []string
	switch *xcheck {
	case "none":
	case "auto":
		if *tier == "thorough" {
			mirrors = []string{"z3", "cvc5"}
		} else {
			mirrors = []string{"z3"}
		}
	default:
		mirrors = strings.Split(*xcheck, ",")
	}
	timeoutMs := 10000
	if *tier == "thorough" {
		timeoutMs = 60000
	}

	known := loadKnown()
	var reports []*harnessReport
	var allViol []*Violation
	var allWit []*Witness
	cfgs := map[string]*HarnessCfg{}
	funcs := map[string]bool{}
	engineErr := false
	for _, rel := range rels {
		sp := ld.pkgs[modulePath+"/"+rel]
		if sp == nil {
			fmt.Printf("ENGINE-ERROR package %s not loaded\n", rel)
			return 2
		}
		names := dirs[rel]
		sort.Strings(names)
		for _, hn := range names {
			if *only != "" && !strings.Contains(hn, *only) {
				continue
			}
			fn := sp.Func(hn)
			if fn == nil {
				fmt.Printf("ENGINE-ERROR harness %s not found in SSA\n", hn)
				engineErr = true
				continue
			}
			cfg := parseCfg(fn, *tier)
			if cfg.Tier != "both" && cfg.Tier != *tier {
				continue
			}
			cfgs[cfg.Pkg+"."+hn] = cfg
			budget := 90 * time.Second
			if *tier == "thorough" {
				budget = 20 * time.Minute
			}
			if b, ok := cfg.Opts["budget"]; ok {
				budget, _ = time.ParseDuration(b)
			}
			st := runHarness(ld, fn, cfg, *workers, mirrors, timeoutMs, budget)
			rep := &harnessReport{Name: hn, Pkg: rel, Paths: st.Paths, PathEnds: st.PathsEnded, Decisions: st.Decisions,
				Asserts: st.Asserts, Discharged: st.Discharged, Inconcl: st.Inconclusive, Queries: st.Queries,
				SolverS: float64(st.SolverNs) / 1e9, WallS: st.WallS, Loops: st.MaxLoop, LoopBound: cfg.LoopBound,
				Unsupported: st.Unsupported, Reached: st.Reached, Labels: st.AssertLabels, Violations: len(st.Violations),
				Incomplete: st.Incomplete, Opts: cfg.Opts, Stubs: st.Stubs, XChecks: st.XChecks}
			for f := range st.Funcs {
				funcs[f] = true
			}
			rep.Status = "held"
			if len(st.Violations) > 0 {
				rep.Status = "violations"
			}
			unsup := 0
			for k, n := range st.Unsupported {
				if !strings.HasPrefix(k, "init ") {
					unsup += n
				}
			}
			if st.Inconclusive > 0 || unsup > 0 || st.Incomplete {
				if rep.Status == "held" {
					rep.Status = "inconclusive"
				}
			}
			if req, ok := cfg.Opts["require"]; ok {
				for _, lab := range strings.Split(req, ",") {
					if st.Reached[lab] == 0 && len(st.Violations) == 0 {
						rep.Status = "vacuous"
						fmt.Printf("ENGINE-ERROR harness %s: required marker %q never reached (vacuous)\n", hn, lab)
						engineErr = true
					}
				}
			}
			if len(st.Reached) == 0 && len(st.Violations) == 0 {
				rep.Status = "vacuous"
				fmt.Printf("ENGINE-ERROR harness %s: no reachability marker reached (vacuous)\n", hn)
				engineErr = true
			}
			if len(st.XDisagree) > 0 {
				fmt.Printf("ENGINE-ERROR solver disagreement in %s: %v\n", hn, st.XDisagree)
				engineErr = true
			}
			if len(st.SolverErrors) > 0 {
				fmt.Printf("NOTE solver errors in %s: %d (first: %s)\n", hn, len(st.SolverErrors), st.SolverErrors[0])
				if rep.Status == "held" {
					rep.Status = "inconclusive"
				}
			}
			reports = append(reports, rep)
			allViol = append(allViol, st.Violations...)
			allWit = append(allWit, st.Witnesses...)
			fmt.Printf("[%s] %-44s paths=%d asserts=%d/%d viol=%d inconcl=%d unsup=%d queries=%d solver=%.0fs wall=%.1fs %s\n", *prop, hn, st.Paths,
				st.Discharged, st.Asserts, len(st.Violations), st.Inconclusive, unsup, st.Queries, float64(st.SolverNs)/1e9, st.WallS, rep.Status)
			if *verbose || unsup > 0 {
				for k, n := range st.Unsupported {
					fmt.Printf("    unsupported x%d: %s\n", n, k)
				}
			}
			for _, rr := range st.Races {
				fmt.Printf("    race candidate (%s) on %s in %s / %s\n", rr.Kind, shortSite(rr.Site), shortSite(rr.A), shortSite(rr.B))
			}
			for i, n := range st.Notes {
				if i < 6 {
					fmt.Printf("    note: %s\n", n)
				}
			}
			if st.Incomplete {
				fmt.Printf("    note: exploration stopped by the path/time budget before the bound was exhausted\n")
			}
			if *verbose {
				for k, n := range st.PathsEnded {
					fmt.Printf("    path end %s: %d\n", k, n)
				}
			}
		}
	}

	// dedupe violations: one per (harness,label,site)
	seen := map[string]bool{}
	var viol []*Violation
	for _, v := range allViol {
		k := v.Pkg + "|" + v.Harness + "|" + normLabel(v.Label) + "|" + v.Site
		if seen[k] {
			continue
		}
		seen[k] = true
		viol = append(viol, v)
	}
	sort.Slice(viol, func(i, j int) bool {
		if viol[i].Harness != viol[j].Harness {
			return viol[i].Harness < viol[j].Harness
		}
		return viol[i].Label < viol[j].Label
	})

	// native replay
	replayDir := filepath.Join(verifRoot, "replay", *prop)
	os.RemoveAll(replayDir)
	os.MkdirAll(replayDir, 0o755)
	confirmed := map[*Violation]string{}
	validated := 0
	mismatches := 0
	var samples []interface{}
	if !*noReplay {
		inDir := filepath.Join(workDir, "replay")
		os.MkdirAll(inDir, 0o755)
		type item struct {
			v    *Violation
			w    *Witness
			base string
			pkg  string
		}
		var items []item
		for i, v := range viol {
			base := fmt.Sprintf("v%03d-%s", i, v.Harness)
			if v.Kind == "race" {
				base = "race-" + base
			}
			in := replayIn{Harness: v.Harness, Pkg: v.Pkg, Vars: v.Vars, Params: cfgs[v.Pkg+"."+v.Harness].Opts, Expect: v.Kind + ":" + v.Label,
				Label: v.Label, Kind: v.Kind, Site: v.Site, Stack: v.Stack, Property: *prop, TimeoutMs: 8000}
			raw, _ := json.MarshalIndent(in, "", " ")
			os.WriteFile(filepath.Join(inDir, base+".in.json"), raw, 0o644)
			os.WriteFile(filepath.Join(replayDir, base+".json"), raw, 0o644)
			items = append(items, item{v: v, base: base, pkg: in.Pkg})
		}
		for i, w := range allWit {
			base := fmt.Sprintf("w%03d-%s", i, w.Harness)
			in := replayIn{Harness: w.Harness, Pkg: w.Pkg, Vars: w.Vars, Params: cfgs[w.Pkg+"."+w.Harness].Opts, Expect: "pass", Label: w.Label, Property: *prop}
			raw, _ := json.MarshalIndent(in, "", " ")
			os.WriteFile(filepath.Join(inDir, base+".in.json"), raw, 0o644)
			items = append(items, item{w: w, base: base, pkg: in.Pkg})
		}
		if len(items) > 0 {
			for _, rel := range rels {
				out, err := runGoTestReplay(rel, workDir, inDir)
				if err != nil && *verbose {
					fmt.Printf("go test replay %s: %v\n%s\n", rel, err, out)
				}
				if err != nil && strings.Contains(out, "[build failed]") {
					fmt.Printf("ENGINE-ERROR replay build failed for %s:\n%s\n", rel, out)
					engineErr = true
				}
			}
			// An input whose native run dies outside the harness goroutine (a panic in a goroutine the code under
			// test started cannot be recovered) takes the whole replay process with it: every input that has no
			// result yet is replayed again in a process of its own, and a process that ends in a Go panic is
			// recorded as that panic.
			for _, it := range items {
				if it.v != nil && it.v.Kind == "race" {
					continue
				}
				outFile := filepath.Join(inDir, it.base+".out.json")
				if _, err := os.Stat(outFile); err == nil {
					continue
				}
				out, _ := runGoTestReplayOnly(strings.TrimPrefix(it.pkg, modulePath+"/"), workDir, inDir, it.base)
				if _, err := os.Stat(outFile); err == nil {
					continue
				}
				if i := strings.Index(out, "\npanic: "); i >= 0 || strings.HasPrefix(out, "panic: ") {
					rest := out[i+1:]
					line := strings.TrimPrefix(strings.SplitN(rest, "\n", 2)[0], "panic: ")
					if len(rest) > 4000 {
						rest = rest[:4000]
					}
					raw, _ := json.Marshal(replayOut{Ran: true, Panic: line + " [the native process died: panic outside the harness goroutine]", Stack: rest})
					os.WriteFile(outFile, raw, 0o644)
				}
			}
			for _, it := range items {
				if it.v != nil && it.v.Kind == "race" {
					out, _ := runGoTestReplayRace(strings.TrimPrefix(it.pkg, modulePath+"/"), workDir, inDir, it.base)
					validated++
					if strings.Contains(out, "DATA RACE") {
						confirmed[it.v] = "confirmed: go test -race reports a DATA RACE on the native replay"
					} else {
						confirmed[it.v] = "not-reproduced (no race report from go test -race)"
					}
					continue
				}
				var ro replayOut
				raw, err := os.ReadFile(filepath.Join(inDir, it.base+".out.json"))
				if err != nil || json.Unmarshal(raw, &ro) != nil || !ro.Ran {
					if it.v != nil {
						confirmed[it.v] = "no-result"
					} else {
						fmt.Printf("ENGINE-MISMATCH witness %s of %s produced no native result\n", it.w.Label, it.w.Harness)
						mismatches++
					}
					continue
				}
				if it.v != nil {
					confirmed[it.v] = classifyReplay(it.v, &ro)
					validated++
				} else {
					ok := len(ro.Failed) == 0 && ro.Panic == "" && !ro.Hang && len(ro.AssumeViolated) == 0 && contains(ro.Reached, it.w.Label)
					for k, v := range it.w.Obs {
						if ro.Obs[k] != v {
							ok = false
							fmt.Printf("ENGINE-MISMATCH witness %s/%s: observation %s engine=%s native=%s\n", it.w.Harness, it.w.Label, k, v, ro.Obs[k])
						}
					}
					validated++
					if !ok && ro.Hang {
						for vv, cs := range confirmed {
							if vv.Harness == it.w.Harness && (vv.Kind == "lock" || vv.Kind == "deadlock" || vv.Kind == "hang") && strings.HasPrefix(cs, "confirmed") {
								ok = true // the native hang is the reported defect, not a modelling mismatch
							}
						}
					}
					if !ok {
						mismatches++
						fmt.Printf("ENGINE-MISMATCH witness %s/%s did not replay natively: failed=%v panic=%q hang=%v assume=%v reached=%v\n",
							it.w.Harness, it.w.Label, dedupe(ro.Failed), ro.Panic, ro.Hang, ro.AssumeViolated, dedupe(ro.Reached))
					}
					if len(samples) < 6 {
						samples = append(samples, map[string]interface{}{"kind": "witness", "harness": it.w.Harness, "reached": it.w.Label, "inputs": it.w.Vars, "observations": it.w.Obs, "native_replay_ok": ok})
					}
				}
			}
		}
	}

	// classify violations
	exit := 0
	nViol, nKnown := 0, 0
	unconfirmed := 0
	_ = unconfirmed
	var knownLines []string
	for i, v := range viol {
		st := confirmed[v]
		if *noReplay {
			st = "confirmed(no-replay)"
		}
		path := filepath.Join(replayDir, fmt.Sprintf("v%03d-%s.json", i, v.Harness))
		if v.Kind == "race" {
			path = filepath.Join(replayDir, fmt.Sprintf("race-v%03d-%s.json", i, v.Harness))
		}
		if strings.HasPrefix(st, "confirmed") {
			if k := matchKnown(known, *prop, v); k != nil {
				line := fmt.Sprintf("KNOWN-FINDING: property=%s %s [%s: %s @ %s]", *prop, k.What, v.Harness, v.Label, shortSite(v.Site))
				if !containsStr(knownLines, line) {
					knownLines = append(knownLines, line)
					fmt.Println(line)
				}
				nKnown++
			} else {
				fmt.Printf("VIOLATION property=%s replay=%s\n", *prop, path)
				fmt.Printf("    harness=%s label=%q site=%s native=%s\n", v.Harness, v.Label, v.Site, st)
				nViol++
				exit = 1
			}
		} else if cfgs[v.Pkg+"."+v.Harness].Opts["schedule"] == "1" && v.Kind == "assert" {
			fmt.Printf("UNCONFIRMED-SCHEDULE %s/%q: found for some interleaving by the engine, not reproduced by the native run (%s); see %s\n", v.Harness, v.Label, st, path)
			unconfirmed++
		} else {
			fmt.Printf("ENGINE-MISMATCH counterexample for %s/%q did not reproduce natively (%s); see %s\n", v.Harness, v.Label, st, path)
			mismatches++
		}
		if len(samples) < 12 {
			samples = append(samples, map[string]interface{}{"kind": "counterexample", "harness": v.Harness, "label": v.Label, "site": v.Site, "inputs": v.Vars, "native": st})
		}
	}
	if mismatches > 0 || engineErr {
		if exit == 0 {
			exit = 2
		}
	}
	if (len(droppedHarnessFiles) > 0 || len(droppedHarnessFuncs) > 0) && exit == 0 {
		fmt.Printf("[%s] %d harness file(s) and %d declaration(s) %v do not compile against the tree under analysis: their obligations were not checked (exit 2)\n", *prop, len(droppedHarnessFiles), len(droppedHarnessFuncs), droppedHarnessFuncs)
		exit = 2
	}
	if unconfirmed > 0 && exit == 0 {
		// a violation the engine found for some interleaving but the native run did not reproduce is not
		// reported as VIOLATION (it may be a modelling artefact), but it must not pass silently either
		fmt.Printf("[%s] %d schedule-dependent counterexample(s) could not be confirmed natively: inconclusive (exit 2)\n", *prop, unconfirmed)
		exit = 2
	}

	if !*noEvidence && *only == "" {
		writeEvidence(*prop, *tier, seed, reports, funcs, samples, validated, nViol, nKnown, knownLines, mismatches, time.Since(t0).Seconds(), loadS, mirrors, cfgs, genSkipped)
	}
	tot := 0
	held := 0
	for _, r := range reports {
		tot++
		if r.Status == "held" {
			held++
		}
	}
	fmt.Printf("[%s] %s: %d harnesses, %d held, %d new violations, %d known findings, %d mismatches, %.1fs\n", *prop, *tier, tot, held, nViol, nKnown, mismatches, time.Since(t0).Seconds())
	return exit
}

var digitsRe = regexp.MustCompile(`[0-9]+`)

// normLabel drops concrete numbers so that the same panic at different indices is one finding.
func normLabel(s string) string { return digitsRe.ReplaceAllString(s, "N") }

func shortSite(s string) string {
	return strings.ReplaceAll(s, modulePath+"/", "")
}

func contains(xs []string, s string) bool {
	for _, x := range xs {
		if x == s {
			return true
		}
	}
	return false
}
func containsStr(xs []string, s string) bool { return contains(xs, s) }

func dedupe(xs []string) []string {
	var out []string
	for _, x := range xs {
		if !contains(out, x) {
			out = append(out, x)
		}
	}
	return out
}

func classifyReplay(v *Violation, ro *replayOut) string {
	if len(ro.AssumeViolated) > 0 {
		return "assume-violated-natively"
	}
	switch v.Kind {
	case "assert":
		if contains(ro.Failed, v.Label) {
			return "confirmed"
		}
		if ro.Panic != "" {
			return "native-panic-instead: " + ro.Panic
		}
		return fmt.Sprintf("not-reproduced (native failed=%v)", ro.Failed)
	case "panic":
		if ro.Panic != "" {
			return "confirmed: " + ro.Panic
		}
		return "not-reproduced (no native panic)"
	case "deadlock", "lock", "hang":
		if ro.Hang {
			return "confirmed: native hang"
		}
		if contains(ro.Failed, "hang") || len(ro.Failed) > 0 {
			return "confirmed: " + strings.Join(ro.Failed, ",")
		}
		return "not-reproduced (native run completed)"
	}
	return "not-reproduced"
}

func runGoTestReplay(rel, workDir, inDir string) (string, error) {
	cmd := exec.Command("go", "test", "-tags", "verif", "-vet=off", "-count=1", "-run", "^TestZZReplay$", "-timeout", "20m",
		"-overlay", filepath.Join(workDir, "overlay.json"), "./"+rel)
	cmd.Dir = repoRoot
	cmd.Env = append(goEnv(), "VERIF_REPLAY_DIR="+inDir)
	out, err := cmd.CombinedOutput()
	return string(out), err
}

func runGoTestReplayOnly(rel, workDir, inDir, base string) (string, error) {
	cmd := exec.Command("go", "test", "-tags", "verif", "-vet=off", "-count=1", "-run", "^TestZZReplay$", "-timeout", "10m",
		"-overlay", filepath.Join(workDir, "overlay.json"), "./"+rel)
	cmd.Dir = repoRoot
	cmd.Env = append(goEnv(), "VERIF_REPLAY_DIR="+inDir, "VERIF_REPLAY_ONLY="+base)
	out, err := cmd.CombinedOutput()
	return string(out), err
}

func runGoTestReplayRace(rel, workDir, inDir, base string) (string, error) {
	cmd := exec.Command("go", "test", "-race", "-tags", "verif", "-vet=off", "-count=1", "-run", "^TestZZReplay$", "-timeout", "10m",
		"-overlay", filepath.Join(workDir, "overlay.json"), "./"+rel)
	cmd.Dir = repoRoot
	cmd.Env = append(goEnv(), "VERIF_REPLAY_DIR="+inDir, "VERIF_REPLAY_ONLY="+base, "CGO_ENABLED=1")
	out, err := cmd.CombinedOutput()
	return string(out), err
}

func cmdReplay(args []string) int {
	if len(args) < 1 {
		fmt.Println("usage: gosym replay <replay.json>")
		return 2
	}
	raw, err := os.ReadFile(args[0])
	if err != nil {
		fmt.Println(err)
		return 2
	}
	var in replayIn
	if err := json.Unmarshal(raw, &in); err != nil {
		fmt.Println(err)
		return 2
	}
	rel := strings.TrimPrefix(in.Pkg, modulePath+"/")
	workDir, _ := os.MkdirTemp(filepath.Join(verifRoot, ".work"), "replay-")
	defer os.RemoveAll(workDir)
	extra := map[string]string{}
	if _, gfiles, _, gerr := generateCodecHarnesses(filepath.Join(workDir, "gencodec"), ""); gerr == nil {
		if f, ok := gfiles[rel]; ok {
			extra[rel] = f
		}
	}
	// the same overlay a run uses: the harness package, the model dirs (database model / native counters) and
	// whatever the harness dir requires (zz_requires)
	rels := []string{rel}
	addRel := func(r string) {
		for _, x := range rels {
			if x == r {
				return
			}
		}
		rels = append(rels, r)
	}
	for _, md := range modelDirs() {
		addRel(md)
	}
	if req, rerr := os.ReadFile(filepath.Join(verifRoot, "harness", rel, "zz_requires")); rerr == nil {
		for _, line := range strings.Split(string(req), "\n") {
			if line = strings.TrimSpace(line); line != "" && !strings.HasPrefix(line, "#") {
				addRel(line)
			}
		}
	}
	sort.Strings(rels)
	if _, err := prepareOverlay(rels, workDir, extra); err != nil {
		fmt.Println(err)
		return 2
	}
	inDir := filepath.Join(workDir, "replay")
	os.MkdirAll(inDir, 0o755)
	os.WriteFile(filepath.Join(inDir, "r.in.json"), raw, 0o644)
	out, err := runGoTestReplay(rel, workDir, inDir)
	res, rerr := os.ReadFile(filepath.Join(inDir, "r.out.json"))
	if rerr != nil {
		fmt.Printf("no native result: %v\n%s\n", err, out)
		return 2
	}
	var ro replayOut
	json.Unmarshal(res, &ro)
	fmt.Printf("harness=%s expect=%s\nnative: failed=%v panic=%q hang=%v reached=%v\n", in.Harness, in.Expect, ro.Failed, ro.Panic, ro.Hang, ro.Reached)
	v := &Violation{Harness: in.Harness, Label: in.Label, Kind: in.Kind}
	if in.Kind != "" && strings.HasPrefix(classifyReplay(v, &ro), "confirmed") {
		fmt.Println("REPRODUCED")
		return 1
	}
	fmt.Println("not reproduced")
	return 0
}

func writeEvidence(prop, tier string, seed int, reports []*harnessReport, funcs map[string]bool, samples []interface{}, validated, nViol, nKnown int,
	knownLines []string, mismatches int, wall, loadS float64, mirrors []string, cfgs map[string]*HarnessCfg, genSkipped []string) {
	states, transitions, obligations, discharged, inconcl, queries := 0, 0, 0, 0, 0, 0
	solverS := 0.0
	stubs := map[string]bool{}
	var bounds []string
	incomplete := []string{}
	for _, r := range reports {
		states += r.Paths
		transitions += r.Decisions
		obligations += r.Asserts
		discharged += r.Discharged
		inconcl += r.Inconcl
		queries += r.Queries
		solverS += r.SolverS
		for s := range r.Stubs {
			if !strings.Contains(s, "zzT).") {
				stubs[s] = true
			}
		}
		var kv []string
		for k, v := range r.Opts {
			kv = append(kv, k+"="+v)
		}
		sort.Strings(kv)
		bounds = append(bounds, fmt.Sprintf("%s: loop<=%d %s", r.Name, r.LoopBound, strings.Join(kv, " ")))
		if r.Status != "held" && r.Status != "violations" {
			incomplete = append(incomplete, r.Name+": "+r.Status)
		}
	}
	var fl []string
	for f := range funcs {
		fl = append(fl, shortSite(f))
	}
	sort.Strings(fl)
	var sl []string
	for s := range stubs {
		sl = append(sl, shortSite(s))
	}
	sort.Strings(sl)
	if len(samples) == 0 {
		samples = append(samples, map[string]interface{}{"kind": "none", "note": "no witness produced"})
	}
	if states == 0 {
		states = 1
	}
	if transitions == 0 {
		transitions = 1
	}
	// source hashes of the repo files the encoded functions live in are implied by functions_encoded;
	// record the repo HEAD + dirty flag instead of hashing every file
	head, _ := exec.Command("git", "-C", repoRoot, "rev-parse", "HEAD").Output()
	dirty, _ := exec.Command("git", "-C", repoRoot, "status", "--porcelain").Output()
	ev := map[string]interface{}{
		"property_id": prop,
		"tier":        tier,
		"seed":        seed,
		"level":       "model_checking",
		"wall_s":      wall,
		"violations":  nViol,
		"assumptions": []string{
			"bounded claim: holds for all values of the symbolic inputs within the per-harness bounds listed in coverage.bounds; nothing is claimed outside them",
			"environment stubs listed in coverage.stubs_intrinsics follow their documented contracts (DESIGN.md §3)",
			"SHA-256 is modelled as a collision-free uninterpreted function where inputs are symbolic",
			"primary solver z3 5.1.0 (z3-new, resident, push/pop); assertion queries are cross-checked on: " + strings.Join(mirrors, ","),
		},
		"coverage": map[string]interface{}{
			"states":                        states,
			"transitions":                   transitions,
			"traces_validated_against_impl": validated,
			"samples":                       samples,
			"obligations":                   obligations,
			"discharged":                    discharged,
			"inconclusive":                  inconcl,
			"explanation":                   "states = feasible execution paths of the real SSA explored symbolically; transitions = solver-decided decisions (branches, concretisations, assertions) on them; obligations = assertion queries (path condition ∧ ¬assertion) sent to the solver; discharged = those answered unsat",
			"functions_encoded":             fl,
			"stubs_intrinsics":              sl,
			"bounds":                        bounds,
			"harnesses":                     reports,
			"queries":                       queries,
			"solver_s":                      solverS,
			"load_s":                        loadS,
			"solvers":                       append([]string{"z3-new 5.1.0 (primary, resident, push/pop)"}, mirrors...),
			"known_findings":                knownLines,
			"engine_mismatches":             mismatches,
			"not_discharged":                incomplete,
			"repo_head":                     strings.TrimSpace(string(head)),
			"repo_dirty_files":              strings.Fields(strings.TrimSpace(string(dirty))),
			"exhaustive":                    len(incomplete) == 0,
			"generated_harness_gaps":        genSkipped,
		},
	}
	os.MkdirAll(filepath.Join(verifRoot, "evidence"), 0o755)
	raw, _ := json.MarshalIndent(ev, "", " ")
	os.WriteFile(filepath.Join(verifRoot, "evidence", prop+".json"), raw, 0o644)
	if tier == "thorough" {
		// evidence/<id>.json always describes the LAST run; the last thorough run is kept as well
		os.MkdirAll(filepath.Join(verifRoot, "evidence_thorough"), 0o755)
		os.WriteFile(filepath.Join(verifRoot, "evidence_thorough", prop+".json"), raw, 0o644)
	}
}

var _ = ssa.InstantiateGenerics
