package main

import (
	"crypto/sha256"
	"encoding/hex"
	"encoding/json"
	"fmt"
	"go/ast"
	"go/parser"
	"go/token"
	"os"
	"path/filepath"
	"regexp"
	"sort"
	"strings"

	"golang.org/x/tools/go/packages"
	"golang.org/x/tools/go/ssa"
	"golang.org/x/tools/go/ssa/ssautil"
)

// repoRoot is the tree under verification. It is /repo; GOSYM_REPO points the engine at a scratch
// worktree instead (used only to evaluate seeded changes without touching /repo).
var repoRoot = func() string {
	if r := os.Getenv("GOSYM_REPO"); r != "" {
		return r
	}
	return "/repo"
}()
const modulePath = "github.com/LiskHQ/lisk-engine"

type Loaded struct {
	prog    *ssa.Program
	pkgs    map[string]*ssa.Package // import path -> package
	overlay map[string]string       // virtual path -> real file (for go test -overlay)
	fset    *token.FileSet
	pkgDirs []string
}

var verifRoot = "/verif"

func pkgNameOfDir(dir string) (string, error) {
	ents, err := os.ReadDir(dir)
	if err != nil {
		return "", err
	}
	for _, e := range ents {
		n := e.Name()
		if !strings.HasSuffix(n, ".go") || strings.HasSuffix(n, "_test.go") {
			continue
		}
		f, err := parser.ParseFile(token.NewFileSet(), filepath.Join(dir, n), nil, parser.PackageClauseOnly)
		if err == nil {
			return f.Name.Name, nil
		}
	}
	return "", fmt.Errorf("no go files in %s", dir)
}

var harnessRe = regexp.MustCompile(`(?m)^func (zzH_(C\d\d)_\w+)\(`)

// droppedHarnessFiles: hand-written harness files (real paths under /verif/harness) that do not compile
// against the tree under analysis (a refactor removed or renamed something they call). They are left out of
// the overlay so that the other harnesses of the package still run; the run can then no longer end "held"
// (exit 2 unless a violation is found), see cmdRun.
var droppedHarnessFiles = map[string]bool{}

// patchedHarness: real harness file -> path of a copy from which the functions that do not compile against
// the tree under analysis were cut out (function-level dropping; the file itself is dropped only when cutting
// does not help). droppedHarnessFuncs lists what was cut, for the report.
var patchedHarness = map[string]string{}
var droppedHarnessFuncs []string

// harnessSource returns the path whose content stands for the harness file f.
func harnessSource(f string) string {
	if p, ok := patchedHarness[f]; ok {
		return p
	}
	return f
}

// cutBrokenFuncs removes from harness file `real` every top-level declaration that contains one of the given
// lines (and unused imports named in errs). It returns false if nothing could be cut.
func cutBrokenFuncs(real string, lines []int, unusedImports []string) bool {
	src, err := os.ReadFile(harnessSource(real))
	if err != nil {
		return false
	}
	fset := token.NewFileSet()
	f, err := parser.ParseFile(fset, real, src, parser.ParseComments)
	if err != nil {
		return false
	}
	type span struct{ from, to int }
	var cuts []span
	var names []string
	for _, d := range f.Decls {
		start := d.Pos()
		if fd, ok := d.(*ast.FuncDecl); ok && fd.Doc != nil {
			start = fd.Doc.Pos()
		}
		if gd, ok := d.(*ast.GenDecl); ok {
			if gd.Tok == token.IMPORT {
				continue
			}
			if gd.Doc != nil {
				start = gd.Doc.Pos()
			}
		}
		l0, l1 := fset.Position(start).Line, fset.Position(d.End()).Line
		hit := false
		for _, ln := range lines {
			if ln >= l0 && ln <= l1 {
				hit = true
			}
		}
		if hit {
			cuts = append(cuts, span{fset.Position(start).Offset, fset.Position(d.End()).Offset})
			if fd, ok := d.(*ast.FuncDecl); ok {
				names = append(names, fd.Name.Name)
			} else {
				names = append(names, "(declaration)")
			}
		}
	}
	out := string(src)
	if len(cuts) == 0 && len(unusedImports) == 0 {
		return false
	}
	for i := len(cuts) - 1; i >= 0; i-- {
		out = out[:cuts[i].from] + out[cuts[i].to:]
	}
	for _, imp := range unusedImports {
		re := regexp.MustCompile(`(?m)^\s*(\w+\s+)?"` + regexp.QuoteMeta(imp) + `"\s*$\n?`)
		out = re.ReplaceAllString(out, "")
		out = strings.Replace(out, "import \""+imp+"\"\n", "", 1)
	}
	dir := filepath.Join(verifRoot, ".work", fmt.Sprintf("patched-%d", os.Getpid()), filepath.Base(filepath.Dir(real)))
	os.MkdirAll(dir, 0o755)
	dst := filepath.Join(dir, filepath.Base(real))
	if err := os.WriteFile(dst, []byte(out), 0o644); err != nil {
		return false
	}
	patchedHarness[real] = dst
	for _, n := range names {
		droppedHarnessFuncs = append(droppedHarnessFuncs, filepath.Base(real)+":"+n)
	}
	return true
}

// brokenHarnessSites extracts (harness file, line) pairs and unused imports from package load errors.
func brokenHarnessSites(errText string) (map[string][]int, map[string][]string) {
	lines := map[string][]int{}
	unused := map[string][]string{}
	re := regexp.MustCompile(`(/[^\s:]*/(pkg/[^\s:]*?)/(zz_verif_[A-Za-z0-9_]+\.go)):(\d+):\d+: (.*)`)
	for _, m := range re.FindAllStringSubmatch(errText, -1) {
		real := filepath.Join(verifRoot, "harness", m[2], m[3])
		if _, err := os.Stat(real); err != nil || strings.HasPrefix(m[3], "zz_verif_model_") {
			continue
		}
		if um := regexp.MustCompile(`^"([^"]+)" imported( as \w+)? and not used`).FindStringSubmatch(m[5]); um != nil {
			unused[real] = append(unused[real], um[1])
			continue
		}
		ln := 0
		fmt.Sscanf(m[4], "%d", &ln)
		lines[real] = append(lines[real], ln)
	}
	return lines, unused
}

func harnessGlob(rel string) []string {
	files, _ := filepath.Glob(filepath.Join(verifRoot, "harness", rel, "*.go"))
	var out []string
	for _, f := range files {
		if !droppedHarnessFiles[f] {
			out = append(out, f)
		}
	}
	return out
}

// brokenHarnessFiles extracts the hand-written harness files named in package load errors.
func brokenHarnessFiles(errText string) []string {
	var out []string
	seen := map[string]bool{}
	re := regexp.MustCompile(`(/[^\s:]*/(pkg/[^\s:]*?)/(zz_verif_[A-Za-z0-9_]+\.go)):\d+`)
	for _, m := range re.FindAllStringSubmatch(errText, -1) {
		real := filepath.Join(verifRoot, "harness", m[2], m[3])
		if _, err := os.Stat(real); err == nil && !seen[real] && !strings.HasPrefix(m[3], "zz_verif_model_") {
			seen[real] = true
			out = append(out, real)
		}
	}
	return out
}

// harnessDirsFor returns the package dirs (relative to repo root) that contain harnesses of prop,
// and the harness function names per dir.
func harnessDirsFor(prop string) (map[string][]string, error) {
	out := map[string][]string{}
	root := filepath.Join(verifRoot, "harness")
	err := filepath.Walk(root, func(p string, info os.FileInfo, err error) error {
		if err != nil || info.IsDir() || !strings.HasSuffix(p, ".go") || droppedHarnessFiles[p] {
			return nil
		}
		raw, err := os.ReadFile(harnessSource(p))
		if err != nil {
			return nil
		}
		rel, _ := filepath.Rel(root, filepath.Dir(p))
		for _, mt := range harnessRe.FindAllStringSubmatch(string(raw), -1) {
			if prop == "" || mt[2] == prop {
				out[rel] = append(out[rel], mt[1])
			}
		}
		return nil
	})
	// a harness dir may need the harness files of another package to compile (an exported bridge placed there
	// by the overlay): harness/<dir>/zz_requires lists such dirs, one per line
	for rel := range out {
		raw, rerr := os.ReadFile(filepath.Join(root, rel, "zz_requires"))
		if rerr != nil {
			continue
		}
		for _, line := range strings.Split(string(raw), "\n") {
			line = strings.TrimSpace(line)
			if line == "" || strings.HasPrefix(line, "#") {
				continue
			}
			if _, ok := out[line]; !ok {
				out[line] = []string{}
			}
		}
	}
	return out, err
}

// modelDirs returns harness dirs that carry symbolic model stubs (files zz_verif_model_*.go); they are
// overlaid on every run so that the convention stubs (zzstub_*) are present whenever the package is used.
func modelDirs() []string {
	var out []string
	root := filepath.Join(verifRoot, "harness")
	filepath.Walk(root, func(p string, info os.FileInfo, err error) error {
		if err == nil && !info.IsDir() && strings.HasPrefix(filepath.Base(p), "zz_verif_model_") {
			rel, _ := filepath.Rel(root, filepath.Dir(p))
			for _, o := range out {
				if o == rel {
					return nil
				}
			}
			out = append(out, rel)
		}
		return nil
	})
	return out
}

// allHarnessNames lists every harness function in dir (any property), for the registry.
func allHarnessNames(rel string, extra []string) []string {
	var names []string
	files := harnessGlob(rel)
	files = append(files, extra...)
	for _, f := range files {
		raw, _ := os.ReadFile(harnessSource(f))
		for _, mt := range harnessRe.FindAllStringSubmatch(string(raw), -1) {
			names = append(names, mt[1])
		}
	}
	sort.Strings(names)
	return names
}

// prepareOverlay generates the runtime + registry + replay test for each package dir into workDir
// and returns the overlay map (virtual path under /repo -> real path).
func prepareOverlay(rels []string, workDir string, extra map[string]string) (map[string]string, error) {
	ov := map[string]string{}
	rtTmpl, err := os.ReadFile(filepath.Join(verifRoot, "rt", "zz_verif_rt.go.tmpl"))
	if err != nil {
		return nil, err
	}
	testTmpl, err := os.ReadFile(filepath.Join(verifRoot, "rt", "zz_verif_replay_test.go.tmpl"))
	if err != nil {
		return nil, err
	}
	for _, rel := range rels {
		repoDir := filepath.Join(repoRoot, rel)
		pn, err := pkgNameOfDir(repoDir)
		if err != nil {
			return nil, err
		}
		gen := filepath.Join(workDir, "gen", rel)
		if err := os.MkdirAll(gen, 0o755); err != nil {
			return nil, err
		}
		write := func(name, content string) error {
			real := filepath.Join(gen, name)
			if err := os.WriteFile(real, []byte(content), 0o644); err != nil {
				return err
			}
			ov[filepath.Join(repoDir, name)] = real
			return nil
		}
		if err := write("zz_verif_rt.go", strings.ReplaceAll(string(rtTmpl), "PKGNAME", pn)); err != nil {
			return nil, err
		}
		tt := strings.ReplaceAll(string(testTmpl), "PKGNAME", pn)
		tt = strings.ReplaceAll(tt, "PKGPATH", modulePath+"/"+rel)
		if err := write("zz_verif_replay_test.go", tt); err != nil {
			return nil, err
		}
		var sb strings.Builder
		sb.WriteString("//go:build verif\n\npackage " + pn + "\n\nvar zzHarnesses = map[string]func(*zzT){\n")
		var ex []string
		if f, ok := extra[rel]; ok {
			ex = append(ex, f)
			ov[filepath.Join(repoDir, filepath.Base(f))] = f
		}
		for _, h := range allHarnessNames(rel, ex) {
			fmt.Fprintf(&sb, "\t%q: %s,\n", h, h)
		}
		sb.WriteString("}\n")
		if err := write("zz_verif_registry.go", sb.String()); err != nil {
			return nil, err
		}
		for _, f := range harnessGlob(rel) {
			ov[filepath.Join(repoDir, filepath.Base(f))] = harnessSource(f)
		}
	}
	// native instrumentation of pkg/db (C13 monitor): db.go is overlaid by a copy regenerated from the
	// current source with counting calls inserted into Write / Set / Del
	if _, err := os.Stat(filepath.Join(verifRoot, "harness", "pkg", "db", "zz_verif_model_native.go")); err == nil {
		for _, rel := range rels {
			if rel != "pkg/db" {
				continue
			}
			src, err := os.ReadFile(filepath.Join(repoRoot, "pkg/db/db.go"))
			if err != nil {
				return nil, err
			}
			text := string(src)
			for _, ins := range [][2]string{
				{"func (db *DB) Write(batch *Batch) {\n", "\tzzCount(db, 0)\n"},
				{"func (db *DB) Set(key, value []byte) {\n", "\tzzCount(db, 1)\n"},
				{"func (db *DB) Del(key []byte) {\n", "\tzzCount(db, 1)\n"},
			} {
				if strings.Count(text, ins[0]) != 1 {
					return nil, fmt.Errorf("cannot instrument pkg/db/db.go: pattern %q not found exactly once", strings.TrimSpace(ins[0]))
				}
				text = strings.Replace(text, ins[0], ins[0]+ins[1], 1)
			}
			gen := filepath.Join(workDir, "gen", "pkg/db")
			os.MkdirAll(gen, 0o755)
			if err := os.WriteFile(filepath.Join(gen, "db.go"), []byte("//go:build verif\n\n"+text), 0o644); err != nil {
				return nil, err
			}
			// the original file must be excluded under the tag: overlay it with the instrumented copy instead
			os.WriteFile(filepath.Join(gen, "db.go"), []byte(text), 0o644)
			ov[filepath.Join(repoRoot, "pkg/db/db.go")] = filepath.Join(gen, "db.go")
			instr := "//go:build verif\n\npackage db\n\nfunc init() { zzNativeInstrumented = true }\n"
			os.WriteFile(filepath.Join(gen, "zz_verif_instr.go"), []byte(instr), 0o644)
			ov[filepath.Join(repoRoot, "pkg/db/zz_verif_instr.go")] = filepath.Join(gen, "zz_verif_instr.go")
		}
	}
	// overlay.json for go test
	type ovj struct {
		Replace map[string]string
	}
	raw, _ := json.MarshalIndent(ovj{ov}, "", " ")
	if err := os.WriteFile(filepath.Join(workDir, "overlay.json"), raw, 0o644); err != nil {
		return nil, err
	}
	return ov, nil
}

func goEnv() []string {
	env := os.Environ()
	env = append(env, "GOFLAGS=-mod=mod", "GOPROXY=off", "GOSUMDB=off", "GOTOOLCHAIN=local", "GOWORK=off")
	return env
}

func loadProgram(rels []string, ov map[string]string) (*Loaded, error) {
	overlay := map[string][]byte{}
	for v, r := range ov {
		if strings.HasSuffix(v, "_test.go") {
			continue
		}
		raw, err := os.ReadFile(r)
		if err != nil {
			return nil, err
		}
		overlay[v] = raw
	}
	fset := token.NewFileSet()
	cfg := &packages.Config{
		Mode:       packages.LoadAllSyntax,
		Dir:        repoRoot,
		Fset:       fset,
		BuildFlags: []string{"-tags=verif"},
		Overlay:    overlay,
		Env:        goEnv(),
	}
	var pats []string
	for _, r := range rels {
		pats = append(pats, "./"+r)
	}
	pkgs, err := packages.Load(cfg, pats...)
	if err != nil {
		return nil, err
	}
	var errs []string
	packages.Visit(pkgs, nil, func(p *packages.Package) {
		for _, e := range p.Errors {
			if strings.HasPrefix(p.PkgPath, modulePath) {
				errs = append(errs, e.Error())
			}
		}
	})
	if len(errs) > 0 {
		return nil, fmt.Errorf("package load errors:\n%s", strings.Join(errs, "\n"))
	}
	prog, spkgs := ssautil.AllPackages(pkgs, ssa.InstantiateGenerics)
	prog.Build()
	ld := &Loaded{prog: prog, pkgs: map[string]*ssa.Package{}, overlay: ov, fset: fset, pkgDirs: rels}
	for _, sp := range spkgs {
		if sp != nil {
			ld.pkgs[sp.Pkg.Path()] = sp
		}
	}
	return ld, nil
}

// parseCfg reads the //zz: directives on a harness function.
func parseCfg(fn *ssa.Function, tier string) *HarnessCfg {
	cfg := &HarnessCfg{Name: fn.Name(), Pkg: fn.Pkg.Pkg.Path(), LoopBound: 64, MaxPaths: 400000, MaxSteps: 5000000,
		Witnesses: 1, Stubs: map[string]string{}, Merge: map[string]bool{}, Sched: 0, Opts: map[string]string{}, Tier: "both"}
	fd, ok := fn.Syntax().(*ast.FuncDecl)
	if !ok || fd.Doc == nil {
		return cfg
	}
	apply := func(kv string) {
		i := strings.Index(kv, "=")
		if i < 0 {
			return
		}
		k, v := kv[:i], kv[i+1:]
		cfg.Opts[k] = v
		var n int
		fmt.Sscanf(v, "%d", &n)
		switch k {
		case "loop":
			cfg.LoopBound = n
		case "paths":
			cfg.MaxPaths = n
		case "steps":
			cfg.MaxSteps = n
		case "depth":
			cfg.MaxDepth = n
		case "witnesses":
			cfg.Witnesses = n
		case "panicok":
			cfg.PanicOK = n == 1
		case "sched":
			cfg.Sched = n
		case "tier":
			cfg.Tier = v
		case "mapperm":
			cfg.MapPerm = n == 1
		case "merge":
			for _, f := range strings.Split(v, ",") {
				cfg.Merge[expandName(f)] = true
			}
		}
	}
	for _, c := range fd.Doc.List {
		line := strings.TrimSpace(strings.TrimPrefix(c.Text, "//"))
		switch {
		case strings.HasPrefix(line, "zz:opt "):
			for _, kv := range strings.Fields(line[7:]) {
				apply(kv)
			}
		case strings.HasPrefix(line, "zz:quick "):
			if tier == "quick" {
				for _, kv := range strings.Fields(line[9:]) {
					apply(kv)
				}
			}
		case strings.HasPrefix(line, "zz:thorough "):
			if tier == "thorough" {
				for _, kv := range strings.Fields(line[12:]) {
					apply(kv)
				}
			}
		case strings.HasPrefix(line, "zz:stub "):
			f := strings.Fields(line[8:])
			if len(f) == 2 {
				cfg.Stubs[expandName(f[0])] = f[1]
			}
		}
	}
	return cfg
}

// expandName lets directives abbreviate the module path as "~".
func expandName(s string) string {
	return strings.ReplaceAll(s, "~", modulePath)
}

func fileHash(path string) string {
	raw, err := os.ReadFile(path)
	if err != nil {
		return ""
	}
	h := sha256.Sum256(raw)
	return hex.EncodeToString(h[:8])
}
