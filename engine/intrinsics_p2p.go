package main

// Intrinsics needed by the pkg/p2p harnesses (C18).
//
//  1. Assembly-backed string helpers used by the multiaddr / net / base58 code paths. They are
//     evaluated on concrete operands only; a symbolic operand aborts the path as unsupported (the
//     p2p harnesses keep addresses concrete).
//  2. zzForceInit(pkgPath): the engine does not run the initialisers of third-party packages
//     (shouldRunInit), which leaves e.g. go-multiaddr's protocol tables nil so that no multiaddr can
//     be parsed. A p2p harness calls zzForceInit("github.com/multiformats/go-multiaddr") first; the
//     real init function of that package is then interpreted once on this path. Natively the
//     function is a no-op (the Go runtime has run the initialisers).

import (
	"bytes"
	"fmt"
	"strings"

	"golang.org/x/tools/go/ssa"
)

func init() {
	I := intrinsics
	concS := func(m *Machine, v Value, what string) string {
		s, ok := v.(StringVal)
		if !ok || s.Sym != nil {
			m.unsupported(what + " on symbolic string")
		}
		return s.S
	}
	concB := func(m *Machine, v Value, what string) []byte {
		b, ok := m.sliceConcreteBytes(v.(SliceVal))
		if !ok {
			m.unsupported(what + " on symbolic bytes")
		}
		return b
	}
	concByte := func(m *Machine, v Value, what string) byte { return byte(m.concInt(v, what)) }
	num := func(m *Machine, n int) Value { return m.tt.Const(uint64(int64(n)), 64) }

	I["internal/bytealg.CountString"] = func(m *Machine, fn *ssa.Function, a []Value) Value {
		return num(m, strings.Count(concS(m, a[0], "bytealg.CountString"), string([]byte{concByte(m, a[1], "bytealg.CountString")})))
	}
	I["internal/bytealg.Count"] = func(m *Machine, fn *ssa.Function, a []Value) Value {
		return num(m, bytes.Count(concB(m, a[0], "bytealg.Count"), []byte{concByte(m, a[1], "bytealg.Count")}))
	}
	I["internal/bytealg.IndexString"] = func(m *Machine, fn *ssa.Function, a []Value) Value {
		return num(m, strings.Index(concS(m, a[0], "bytealg.IndexString"), concS(m, a[1], "bytealg.IndexString")))
	}
	I["internal/bytealg.Index"] = func(m *Machine, fn *ssa.Function, a []Value) Value {
		return num(m, bytes.Index(concB(m, a[0], "bytealg.Index"), concB(m, a[1], "bytealg.Index")))
	}
	if _, ok := I["strings.Count"]; !ok {
		I["strings.Count"] = func(m *Machine, fn *ssa.Function, a []Value) Value {
			return num(m, strings.Count(concS(m, a[0], "strings.Count"), concS(m, a[1], "strings.Count")))
		}
	}

	// internal/abi.NoEscape hides a pointer from escape analysis via uintptr arithmetic: identity.
	I["internal/abi.NoEscape"] = func(m *Machine, fn *ssa.Function, a []Value) Value { return a[0] }

	// (*strings.Builder).String is unsafe.String(unsafe.SliceData(b.buf), len(b.buf)): the bytes written so far.
	I["(*strings.Builder).String"] = func(m *Machine, fn *ssa.Function, a []Value) Value {
		p, ok := a[0].(Ptr)
		if !ok || p.C == nil || len(p.C.Sub) != 2 {
			m.unsupported("(*strings.Builder).String: unexpected receiver")
		}
		buf, ok := m.load(p.C.Sub[1]).(SliceVal)
		if !ok {
			m.unsupported("(*strings.Builder).String: unexpected buffer")
		}
		if b, ok := m.sliceConcreteBytes(buf); ok {
			return StringVal{S: string(b)}
		}
		ts := m.sliceTerms(buf)
		if ts == nil {
			ts = []*Term{}
		}
		return StringVal{Sym: ts}
	}

	// unique.Make[T] (Go 1.23, used by net/netip): canonical pointer per concrete value, path-local.
	var render func(m *Machine, v Value) string
	render = func(m *Machine, v Value) string {
		switch x := v.(type) {
		case *Term:
			if !x.IsConst() {
				m.unsupported("unique.Make of a symbolic value")
			}
			return fmt.Sprintf("%s:%d:%d", x.Op, x.W, x.C)
		case StringVal:
			if x.Sym != nil {
				m.unsupported("unique.Make of a symbolic string")
			}
			return fmt.Sprintf("%q", x.S)
		case *StructVal:
			out := "{"
			for _, f := range x.F {
				out += render(m, f) + ","
			}
			return out + "}"
		case *ArrayVal:
			out := "["
			for _, f := range x.E {
				out += render(m, f) + ","
			}
			return out + "]"
		}
		m.unsupported(fmt.Sprintf("unique.Make of %T", v))
		return ""
	}
	I["unique.Make"] = func(m *Machine, fn *ssa.Function, a []Value) Value {
		vt := fn.Signature.Params().At(0).Type()
		key := "unique.Make:" + vt.String() + ":" + render(m, a[0])
		if h, ok := m.path.side[key]; ok {
			return h
		}
		c := m.newCell(vt)
		m.store(c, a[0])
		h := &StructVal{F: []Value{Ptr{C: c}}}
		m.path.side[key] = h
		return h
	}

	I[modulePath+"/pkg/p2p.zzForceInit"] = func(m *Machine, fn *ssa.Function, a []Value) Value {
		path := concS(m, a[0], "zzForceInit")
		var pkg *ssa.Package
		for _, p := range m.prog.AllPackages() {
			if p.Pkg.Path() == path {
				pkg = p
				break
			}
		}
		if pkg == nil {
			m.unsupported("zzForceInit: package not loaded: " + path)
		}
		p := m.path
		key := "zzForceInit:" + path
		if _, done := p.side[key]; done {
			return nil
		}
		p.side[key] = m.tt.T
		p.inited[pkg] = true
		initFn := pkg.Func("init")
		if initFn == nil || initFn.Blocks == nil {
			return nil
		}
		for _, mem := range pkg.Members {
			if g, ok := mem.(*ssa.Global); ok {
				m.rawGlobalCell(g)
			}
		}
		p.initMode++
		savedSteps := p.steps
		defer func() {
			p.initMode--
			p.steps = savedSteps
			if r := recover(); r != nil {
				switch r.(type) {
				case abortPath, *goPanicVal, killed:
					panic(r)
				}
				// an internal engine failure while interpreting the init: report where, as unsupported
				where := ""
				st := p.cur.stack
				for i := len(st) - 1; i >= 0 && i >= len(st)-4; i-- {
					where += " < " + st[i].fn.String()
				}
				m.unsupported(fmt.Sprintf("engine failure in forced init of %s: %v%s", path, r, where))
			}
		}()
		// an unsupported construct inside the forced init is NOT tolerated: it aborts the path and is
		// reported, because the harness relies on the tables this init builds
		m.callPlain(initFn, nil, nil)
		return nil
	}
}
