package main

import (
	"fmt"
	"go/types"
	"strconv"

	"golang.org/x/tools/go/ssa"
)

// Cooperative goroutines: every interpreted goroutine runs on its own host goroutine, but only the
// holder of the baton executes. Switches happen only at synchronisation points (see DESIGN §2.6).

type Goroutine struct {
	id           int
	stack        []*Frame
	recoverFrame *Frame
	resume       chan struct{}
	done         bool
	enabled      func() bool // nil: runnable
	what         string
	exited       chan struct{}
	held         map[interface{}]int
	timerOnly    bool
	vc           []int
}

type killed struct{}

// maxGor is the length of the vector clocks of a path. gorLimit (//zz:opt gor=N, default 16) bounds the
// number of goroutines ever spawned on one path (finished goroutines keep their slot).
const maxGor = 18

func (m *Machine) gorLimit() int {
	if s, ok := m.cfg.Opts["gor"]; ok {
		if n, err := strconv.Atoi(s); err == nil && n > 0 {
			return n
		}
	}
	return 16
}

func (m *Machine) vcLen() int {
	if n := m.gorLimit() + 2; n > maxGor {
		return n
	}
	return maxGor
}

func vcJoin(dst, src []int) []int {
	if src == nil {
		return dst
	}
	if dst == nil {
		return append([]int{}, src...)
	}
	for i := range dst {
		if i < len(src) && src[i] > dst[i] {
			dst[i] = src[i]
		}
	}
	return dst
}

// release: the current goroutine publishes its clock into obj's clock (unlock, send, done, exit)
func (m *Machine) vcRelease(obj *[]int) {
	g := m.path.cur
	if g == nil || g.vc == nil {
		return
	}
	*obj = vcJoin(*obj, g.vc)
	g.vc[g.id]++
}

// acquire: the current goroutine learns obj's clock (lock, receive, wait)
func (m *Machine) vcAcquire(obj []int) {
	g := m.path.cur
	if g == nil || g.vc == nil {
		return
	}
	g.vc = vcJoin(g.vc, obj)
}

type ChanObj struct {
	vc     []int
	cap    int
	buf    []Value
	closed bool
	elem   types.Type
	// rendezvous for unbuffered channels
	recvWaiting int
	handoff     []Value // values handed to a waiting receiver
	path        *PathState
	tick        int // PathState.tick at creation
	id          int
	timer       bool // fires at a scheduler-chosen moment
	fired       bool
	ctxDone     bool
}

func (m *Machine) runMain(fn *ssa.Function) {
	p := m.path
	g := &Goroutine{id: 0, resume: make(chan struct{}, 1), held: map[interface{}]int{}, vc: make([]int, m.vcLen())}
	g.vc[0] = 1
	p.gor = []*Goroutine{g}
	p.cur = g
	tval := m.newHarnessT(fn)
	m.callFn(fn, []Value{tval}, nil)
	// let remaining goroutines run to completion or deadlock if the harness asked for it
	if m.cfg.Opts["join"] == "1" {
		m.block(func() bool {
			for _, o := range p.gor[1:] {
				if !o.done {
					return false
				}
			}
			return true
		}, "join all goroutines")
	}
	p.ended = true
}

func (m *Machine) killGoroutines() {
	p := m.path
	if p == nil {
		return
	}
	for _, g := range p.gor {
		if g.id == 0 || g.done {
			continue
		}
		g.done = true
		p.killing = true
		g.resume <- struct{}{}
		<-g.exited
	}
	p.killing = false
}

func (m *Machine) goStmt(fr *Frame, x *ssa.Go) {
	d := m.mkDeferred(fr, x.Common())
	m.spawn(func() {
		if d.method != nil {
			m.invoke(*d.recv, d.method, d.args)
		} else if d.fn.Blt != nil {
			m.builtin(d.fn.Blt, d.args, nil)
		} else {
			m.callFn(d.fn.Fn, d.args, d.fn.Bind)
		}
	})
}

func (m *Machine) spawn(body func()) *Goroutine {
	p := m.path
	if lim := m.gorLimit(); len(p.gor) > lim {
		panic(abortPath{"unwind", fmt.Sprintf("more than %d goroutines", lim)})
	}
	g := &Goroutine{id: len(p.gor), resume: make(chan struct{}, 1), exited: make(chan struct{}), held: map[interface{}]int{}}
	if parent := p.cur; parent != nil && parent.vc != nil {
		g.vc = append([]int{}, parent.vc...)
		g.vc[g.id] = 1
		parent.vc[parent.id]++
	} else {
		g.vc = make([]int, m.vcLen())
		g.vc[g.id] = 1
	}
	p.gor = append(p.gor, g)
	go func() {
		defer close(g.exited)
		<-g.resume
		if p.killing {
			return
		}
		defer func() {
			r := recover()
			g.done = true
			if r != nil {
				if _, ok := r.(killed); ok {
					return
				}
				// transfer the exception to the main goroutine
				if gp, ok := r.(*goPanicVal); ok {
					// an unrecovered panic in any goroutine kills the program
					p.pendingAbort = gp
				} else {
					p.pendingAbort = r
				}
			}
			// hand the baton on
			m.handOff(g)
		}()
		p.cur = g
		body()
	}()
	return g
}

// handOff is called by a finished goroutine: pick another goroutine to run.
func (m *Machine) handOff(self *Goroutine) {
	p := m.path
	if p.pendingAbort != nil || p.ended {
		p.gor[0].resume <- struct{}{}
		return
	}
	var en []*Goroutine
	for _, g := range p.gor {
		if g != self && !g.done && (g.enabled == nil || g.enabled()) {
			en = append(en, g)
		}
	}
	if len(en) == 0 {
		// everybody else blocked: wake main to report the deadlock (main is blocked or done)
		p.deadlocked = true
		p.gor[0].resume <- struct{}{}
		return
	}
	var next *Goroutine
	func() {
		defer func() {
			if r := recover(); r != nil {
				p.pendingAbort = r
				next = p.gor[0]
			}
		}()
		if m.cfg.Sched == 0 {
			next = en[0]
		} else {
			next = en[m.choose(len(en))]
		}
	}()
	next.resume <- struct{}{}
}

// block yields until cond() holds for this goroutine. It is also the scheduling point.
func (m *Machine) block(cond func() bool, what string) {
	p := m.path
	self := p.cur
	self.enabled = cond
	self.what = what
	for {
		if cond != nil && !cond() {
			p.tick++ // the goroutine has to wait: time passes (armed timers may fire from now on)
		}
		var en []*Goroutine
		for _, g := range p.gor {
			if !g.done && (g.enabled == nil || g.enabled()) {
				en = append(en, g)
			}
		}
		if len(en) == 0 {
			// deadlock
			self.enabled = nil
			m.deadlock()
		}
		selfEnabled := cond == nil || cond()
		var next *Goroutine
		if selfEnabled && (len(en) == 1 || p.switches >= m.cfg.Sched) {
			next = self
		} else {
			// order: self first so that choice 0 = no switch
			ord := en
			if selfEnabled {
				ord = []*Goroutine{self}
				for _, g := range en {
					if g != self {
						ord = append(ord, g)
					}
				}
			}
			if m.cfg.Sched == 0 {
				next = ord[0] // deterministic schedule: run the lowest-numbered enabled goroutine
			} else if !selfEnabled && m.cfg.Opts["blockfree"] == "0" {
				// blockfree=0: the choice of the successor of a BLOCKED goroutine also draws on the
				// budget (a deviation from the lowest-numbered enabled goroutine costs one switch);
				// with the budget used up the successor is the lowest-numbered enabled goroutine
				if p.switches >= m.cfg.Sched {
					next = ord[0]
				} else {
					i := m.choose(len(ord))
					if i != 0 {
						p.switches++
					}
					next = ord[i]
				}
			} else {
				next = ord[m.choose(len(ord))]
			}
		}
		if next == self {
			self.enabled = nil
			return
		}
		if selfEnabled {
			p.switches++
		}
		p.tick++
		next.resume <- struct{}{}
		<-self.resume
		p.cur = self
		if p.killing && self.id != 0 {
			panic(killed{})
		}
		if p.pendingAbort != nil && self.id == 0 {
			r := p.pendingAbort
			p.pendingAbort = nil
			self.enabled = nil
			panic(r)
		}
		if p.deadlocked && self.id == 0 {
			p.deadlocked = false
			self.enabled = nil
			m.deadlock()
		}
		if p.pendingAbort != nil || p.deadlocked {
			// not main: pass the baton to main
			p.gor[0].resume <- struct{}{}
			<-self.resume
			if p.killing {
				panic(killed{})
			}
		}
	}
}

func (m *Machine) deadlock() {
	p := m.path
	desc := "deadlock:"
	shown, more := 0, 0
	for _, g := range p.gor {
		if !g.done {
			if shown < 4 {
				desc += fmt.Sprintf(" g%d[%s]", g.id, g.what)
				shown++
			} else {
				more++
			}
		}
	}
	if more > 0 {
		desc += fmt.Sprintf(" (+%d more blocked goroutines)", more)
	}
	var stack []string
	for _, g := range p.gor {
		if !g.done && len(g.stack) > 0 {
			for i := len(g.stack) - 1; i >= 0; i-- {
				stack = append(stack, g.stack[i].fn.String())
			}
		}
	}
	if m.cfg.Opts["deadlock"] != "ok" {
		m.recordViolation(m.tt.T, desc, "deadlock", stack)
	}
	panic(abortPath{"end", desc})
}

// yieldPoint offers the scheduler a switch without blocking.
func (m *Machine) yieldPoint(what string) {
	p := m.path
	if len(p.gor) <= 1 {
		return
	}
	m.block(nil, what)
}

// ---------------- channels ----------------

func (m *Machine) newChan(n int, elem types.Type) *ChanObj {
	m.path.mapSeq++
	return &ChanObj{cap: n, elem: elem, id: m.path.mapSeq, path: m.path, tick: m.path.tick}
}

func (m *Machine) chanLen(c *ChanObj) int {
	if c == nil {
		return 0
	}
	return len(c.buf)
}
func (m *Machine) chanCap(c *ChanObj) int {
	if c == nil {
		return 0
	}
	return c.cap
}

func (c *ChanObj) canSend() bool {
	if c.closed {
		return true // will panic
	}
	if c.cap > 0 {
		return len(c.buf) < c.cap
	}
	return c.recvWaiting > len(c.handoff)
}

func (c *ChanObj) canRecv() bool {
	if c.timer && !c.fired {
		// firing is a scheduler decision, possible once the creating goroutine has waited or been
		// descheduled at least once (a timer armed in a select cannot beat a message that is
		// already there when the select starts)
		return c.path != nil && c.path.tick > c.tick
	}
	return len(c.buf) > 0 || len(c.handoff) > 0 || c.closed
}

func (m *Machine) chanSend(c *ChanObj, v Value) {
	if c == nil {
		m.block(func() bool { return false }, "send on nil channel")
	}
	m.yieldPoint("chan send")
	if c.closed {
		m.goPanic("send on closed channel")
	}
	if c.cap > 0 {
		if len(c.buf) >= c.cap {
			m.block(func() bool { return c.closed || len(c.buf) < c.cap }, fmt.Sprintf("chan send (full) in %s", m.curFn()))
			if c.closed {
				m.goPanic("send on closed channel")
			}
		}
		m.vcRelease(&c.vc)
		c.buf = append(c.buf, v)
		return
	}
	// unbuffered: need a waiting receiver
	if !(c.recvWaiting > len(c.handoff)) {
		m.block(func() bool { return c.closed || c.recvWaiting > len(c.handoff) }, fmt.Sprintf("chan send (no receiver) in %s", m.curFn()))
		if c.closed {
			m.goPanic("send on closed channel")
		}
	}
	m.vcRelease(&c.vc)
	c.handoff = append(c.handoff, v)
}

func (m *Machine) curFn() string {
	g := m.path.cur
	for i := len(g.stack) - 1; i >= 0; i-- {
		n := g.stack[i].fn.String()
		if m.meta(g.stack[i].fn).inRepo {
			return n
		}
	}
	return "?"
}

func (m *Machine) chanRecv(c *ChanObj, commaOk bool) Value {
	if c == nil {
		m.block(func() bool { return false }, "receive from nil channel")
	}
	c.recvWaiting++
	m.yieldPoint("chan recv")
	v, ok := m.chanRecvBlocking(c)
	c.recvWaiting--
	if commaOk {
		return TupleVal{v, m.tt.Bool(ok)}
	}
	return v
}

func (m *Machine) chanTake(c *ChanObj) (Value, bool, bool) {
	m.vcAcquire(c.vc)
	switch {
	case len(c.handoff) > 0:
		v := c.handoff[0]
		c.handoff = c.handoff[1:]
		return v, true, true
	case len(c.buf) > 0:
		v := c.buf[0]
		c.buf = c.buf[1:]
		return v, true, true
	case c.timer && !c.fired && c.canRecv():
		c.fired = true
		return m.zero(c.elem), true, true
	case c.closed:
		return m.zero(c.elem), false, true
	}
	return nil, false, false
}

func (m *Machine) chanRecvBlocking(c *ChanObj) (Value, bool) {
	if v, ok, got := m.chanTake(c); got {
		return v, ok
	}
	m.block(func() bool { return len(c.handoff) > 0 || len(c.buf) > 0 || c.closed }, fmt.Sprintf("chan receive in %s", m.curFn()))
	v, ok, _ := m.chanTake(c)
	return v, ok
}

func (m *Machine) chanClose(c *ChanObj) {
	if c == nil {
		m.goPanic("close of nil channel")
	}
	if c.closed {
		m.goPanic("close of closed channel")
	}
	m.vcRelease(&c.vc)
	c.closed = true
}

// selectStmt: returns (index, recvOk, recv values...)
func (m *Machine) selectStmt(fr *Frame, x *ssa.Select) Value {
	tt := m.tt
	type st struct {
		c   *ChanObj
		dir types.ChanDir
		v   Value
	}
	states := make([]st, len(x.States))
	for i, s := range x.States {
		c, _ := m.get(fr, s.Chan).(*ChanObj)
		states[i] = st{c: c, dir: s.Dir}
		if s.Send != nil {
			states[i].v = m.get(fr, s.Send)
		}
	}
	for _, s := range states {
		if s.c != nil && s.dir == types.RecvOnly {
			s.c.recvWaiting++
		}
	}
	m.yieldPoint("select")
	ready := func() []int {
		var r, hand []int
		for i, s := range states {
			if s.c == nil {
				continue
			}
			if s.dir == types.SendOnly {
				if s.c.canSend() {
					r = append(r, i)
				}
			} else if s.c.canRecv() {
				r = append(r, i)
				if len(s.c.handoff) > 0 {
					hand = append(hand, i)
				}
			}
		}
		if len(hand) > 0 {
			return hand // a sender already committed to this receiver
		}
		return r
	}
	unreg := func() {
		for _, s := range states {
			if s.c != nil && s.dir == types.RecvOnly {
				s.c.recvWaiting--
			}
		}
	}
	mk := func(idx int, ok bool, recvIdx int, rv Value) Value {
		out := TupleVal{tt.Const(uint64(int64(idx)), 64), tt.Bool(ok)}
		for i, s := range x.States {
			if s.Dir == types.RecvOnly {
				if i == recvIdx {
					out = append(out, rv)
				} else {
					out = append(out, m.zero(s.Chan.Type().Underlying().(*types.Chan).Elem()))
				}
			}
		}
		return out
	}
	r := ready()
	if len(r) == 0 {
		if !x.Blocking {
			unreg()
			return mk(-1, false, -1, nil)
		}
		m.block(func() bool { return len(ready()) > 0 }, fmt.Sprintf("select in %s", m.curFn()))
		r = ready()
	}
	unreg()
	pick := r[m.choose(len(r))]
	s := states[pick]
	if s.dir == types.SendOnly {
		if s.c.closed {
			m.goPanic("send on closed channel")
		}
		if s.c.cap > 0 {
			s.c.buf = append(s.c.buf, s.v)
		} else {
			s.c.handoff = append(s.c.handoff, s.v)
		}
		return mk(pick, false, -1, nil)
	}
	v, ok, _ := m.chanTake(s.c)
	return mk(pick, ok, pick, v)
}

// ---------------- race monitor (FastTrack-style vector clocks; enabled by //zz:opt race=1) ----------------

type accRd struct{ g, clk int }
type accRec struct {
	hasW      bool
	wG, wClk  int
	wFn       string
	reads     []accRd
}

type RaceReport struct {
	Site string
	A, B string
	Kind string
}

func (m *Machine) raceOn() bool { return m.cfg.Opts["race"] == "1" && len(m.path.gor) > 1 && m.path.atomicDepth == 0 }

func (m *Machine) noteWrite(c *Cell) {
	if m.path.mergeDepth > 0 && c.ID <= m.path.mergeEpoch {
		panic(mergeImpure{})
	}
	if !m.raceOn() {
		return
	}
	g := m.path.cur
	rec := c.acc
	if rec == nil {
		rec = &accRec{}
		c.acc = rec
	}
	if rec.hasW && rec.wG != g.id && g.vc[rec.wG] < rec.wClk {
		m.reportRace(c, "write-write", rec.wFn)
	}
	for _, r := range rec.reads {
		if r.g != g.id && g.vc[r.g] < r.clk {
			m.reportRace(c, "read-write", "")
		}
	}
	rec.hasW, rec.wG, rec.wClk, rec.wFn = true, g.id, g.vc[g.id], m.curFn()
	rec.reads = rec.reads[:0]
}

func (m *Machine) noteRead(c *Cell) {
	if !m.raceOn() {
		return
	}
	g := m.path.cur
	rec := c.acc
	if rec == nil {
		rec = &accRec{}
		c.acc = rec
	}
	if rec.hasW && rec.wG != g.id && g.vc[rec.wG] < rec.wClk {
		m.reportRace(c, "write-read", rec.wFn)
	}
	for i := range rec.reads {
		if rec.reads[i].g == g.id {
			rec.reads[i].clk = g.vc[g.id]
			return
		}
	}
	rec.reads = append(rec.reads, accRd{g.id, g.vc[g.id]})
}

func (m *Machine) reportRace(c *Cell, kind, other string) {
	site := "?"
	if c.Site != nil {
		site = c.Site.Parent().String() + ": " + c.Site.String()
		if m.ex.addSharedSite(c.Site) {
			// newly discovered: the exploration is repeated with scheduling points at this site
		}
	}
	fn := m.curFn()
	key := fn // one report per racing function
	if m.path.raceSeen == nil {
		m.path.raceSeen = map[string]bool{}
	}
	if m.path.raceSeen[key] {
		return
	}
	m.path.raceSeen[key] = true
	m.ex.addRace(RaceReport{Site: site, A: fn, B: other, Kind: kind})
	if m.cfg.Opts["racereport"] == "1" {
		m.recordViolation(m.tt.T, "data race on "+site, "race", m.stackNames())
	}
}

// sharedYield offers a context switch before an access to a cell whose allocation site is known to be
// accessed concurrently (discovered by the monitor in an earlier pass).
func (m *Machine) sharedYield(c *Cell) {
	if c == nil || c.Site == nil || len(m.path.gor) <= 1 || m.cfg.Sched == 0 {
		return
	}
	if m.ex.isShared(c.Site) {
		m.yieldPoint("shared access")
	}
}
