package main

import (
	"fmt"
	"sort"
	"strings"
	"sync"
	"time"

	"golang.org/x/tools/go/ssa"
)

type Decision struct {
	Kind   byte // 'b' branch, 'c' concretise (Val), 'n' n-ary choice, 'a' assertion
	Choice int
	Val    uint64
	Aux    [][]bool
}

func (d Decision) same(o Decision) bool { return d.Kind == o.Kind && d.Choice == o.Choice && d.Val == o.Val }

// control-flow exceptions
type abortPath struct {
	kind string // "unsupported", "dead", "end", "unwind", "steps"
	msg  string
}

type goPanicVal struct {
	v     Value
	msg   string
	stack []string
}

type Violation struct {
	Pkg     string            `json:"pkg"`
	Harness string            `json:"harness"`
	Label   string            `json:"label"`
	Kind    string            `json:"kind"` // "assert", "panic", "deadlock", "unwind", "lock"
	Vars    map[string]string `json:"vars"`
	Site    string            `json:"site"` // innermost repo function
	Stack   []string          `json:"stack,omitempty"`
	Path    []Decision        `json:"-"`
}

type Witness struct {
	Pkg     string            `json:"pkg"`
	Harness string            `json:"harness"`
	Label   string            `json:"label"`
	Vars    map[string]string `json:"vars"`
	Obs     map[string]string `json:"obs,omitempty"`
}

// HarnessCfg: options parsed from //zz: directives on the harness function.
type HarnessCfg struct {
	Name       string
	Pkg        string
	LoopBound  int
	MaxPaths   int
	MaxSteps   int
	MaxDepth   int
	Witnesses  int
	PanicOK    bool // a Go panic escaping the harness is not a violation (harness handles it)
	Stubs      map[string]string
	Merge      map[string]bool // functions summarised by path merging
	Sched      int             // context switch budget
	Tier       string
	Opts       map[string]string
	MapPerm    bool
}

type HarnessStats struct {
	Paths        int
	PathsEnded   map[string]int // kind -> count
	Decisions    int
	Asserts      int
	Discharged   int
	Inconclusive int
	Queries      int
	SolverNs     int64
	MaxLoop      map[string]int
	Funcs        map[string]bool
	Unsupported  map[string]int
	Violations   []*Violation
	Witnesses    []*Witness
	Reached      map[string]int
	Incomplete   bool
	XChecks      int
	XDisagree    []string
	SolverErrors []string
	Stubs        map[string]int
	WallS        float64
	AssertLabels map[string]int
	Notes        []string
	Races        []RaceReport
}

func newStats() *HarnessStats {
	return &HarnessStats{PathsEnded: map[string]int{}, MaxLoop: map[string]int{}, Funcs: map[string]bool{},
		Unsupported: map[string]int{}, Reached: map[string]int{}, Stubs: map[string]int{}, AssertLabels: map[string]int{}}
}

// PathState is everything that is rebuilt on each (re-)execution.
type PathState struct {
	prefix   []Decision
	taken    []Decision
	synced   int
	live     bool
	known    map[*Term]bool
	globals  map[*ssa.Global]*Cell
	inited   map[*ssa.Package]bool
	vars     map[string]*Term
	varOrd   []string
	obs      map[string]Value
	obsOrd   []string
	cellSeq  int
	steps    int
	depth    int
	freshSeq int
	opaqueID int
	// harness monitor state
	side map[string]Value
	// concurrency
	gor      []*Goroutine
	cur      *Goroutine
	switches int
	held     map[*Cell][]string
	initMode int
	mapSeq   int
	clock    *Term
	hashApps []hashApp
	sigApps  []hashApp
	hashFacts map[[2]int]bool
	hashDepth int
	raceSeen  map[string]bool
	tick      int
	atomicDepth int
	ended    bool
	killing      bool
	pendingAbort interface{}
	deadlocked   bool
	mergeDepth   int
	mergeEpoch   int
	local        *localExplore
	ev           *evaluator // model of the current path condition (nil: none)
	evNVars      int
}

type mergeImpure struct{}

type hashApp struct {
	in  []*Term
	out *Term // 256-bit
}

type Machine struct {
	prog   *ssa.Program
	ld     *Loaded
	tt     *TermTable
	sol    *Solver
	cfg    *HarnessCfg
	path   *PathState
	stats  *HarnessStats
	ex     *Explorer
	last   []Decision // decisions of the last run (solver levels correspond)
	id     int
	fnInfo map[*ssa.Function]*fnMeta
}

type fnMeta struct {
	name      string
	intrinsic intrinsicFn
	checked   bool
	inRepo    bool
	numbering map[ssa.Value]int
	nvals     int
}

func (m *Machine) unsupported(msg string) {
	panic(abortPath{"unsupported", msg})
}

func (m *Machine) goPanic(msg string) {
	panic(&goPanicVal{msg: msg, v: StringVal{S: msg}, stack: m.stackNames()})
}

func (m *Machine) stackNames() []string {
	var out []string
	if m.path.cur == nil {
		return nil
	}
	st := m.path.cur.stack
	for i := len(st) - 1; i >= 0 && len(out) < 16; i-- {
		out = append(out, st[i].fn.String())
	}
	return out
}

// innermost function that lives in the repository under test (not a harness function)
func (m *Machine) innermostRepoFn(stack []string) string {
	for _, s := range stack {
		if strings.Contains(s, "LiskHQ/lisk-engine") && !strings.Contains(s, "zzH_") && !strings.Contains(s, ".zz") {
			return s
		}
	}
	if len(stack) > 0 {
		return stack[0]
	}
	return ""
}

// ---------------- decisions ----------------

const baseLevel = 1

func (m *Machine) commit(idx int, d Decision, cond *Term) {
	p := m.path
	p.taken = append(p.taken, d)
	if idx >= p.synced {
		p.live = true
		m.sol.Push()
		if cond != nil {
			m.sol.Assert(cond)
		}
	}
	if cond != nil {
		m.learn(cond)
		if p.ev != nil {
			if v, ok := p.ev.eval(cond); !ok || v != 1 {
				p.ev = nil
			}
		}
	}
	if m.cfg.MaxDepth > 0 && len(p.taken) > m.cfg.MaxDepth {
		panic(abortPath{"depth", fmt.Sprintf("more than %d decisions", m.cfg.MaxDepth)})
	}
}

func (m *Machine) learn(cond *Term) {
	p := m.path
	if cond.Op == "not" {
		p.known[cond.Args[0]] = false
	} else {
		p.known[cond] = true
		if cond.Op == "and" {
			m.learn(cond.Args[0])
			m.learn(cond.Args[1])
		}
	}
}

func (m *Machine) knownVal(c *Term) (bool, bool) {
	if c.IsTrue() {
		return true, true
	}
	if c.IsFalse() {
		return false, true
	}
	if v, ok := m.path.known[c]; ok {
		return v, true
	}
	if c.Op == "not" {
		if v, ok := m.path.known[c.Args[0]]; ok {
			return !v, true
		}
	}
	return false, false
}

// branch decides a symbolic condition, forking the exploration when both sides are feasible.
func (m *Machine) branch(c *Term) bool {
	if v, ok := m.knownVal(c); ok {
		return v
	}
	if m.path.local != nil {
		return m.localBranch(c)
	}
	p := m.path
	idx := len(p.taken)
	if idx < len(p.prefix) {
		d := p.prefix[idx]
		if d.Kind != 'b' {
			panic(abortPath{"engine", fmt.Sprintf("replay divergence: expected branch, prefix has %c at %d", d.Kind, idx)})
		}
		if d.Choice == 1 {
			m.commit(idx, d, c)
			return true
		}
		m.commit(idx, d, m.tt.Not(c))
		return false
	}
	var rT, rF string
	if p.ev != nil {
		if v, ok := p.ev.eval(c); ok {
			// the cached model of the path condition witnesses one side
			if v == 1 {
				rT, rF = "sat", m.sol.CheckWith(m.tt.Not(c))
			} else {
				rF, rT = "sat", m.sol.CheckWith(c)
			}
		}
	}
	if rT == "" {
		rT = m.checkWithModel(c)
		rF = "sat"
		if rT != "unsat" {
			rF = m.sol.CheckWith(m.tt.Not(c))
		}
	}
	if rT == "unsat" && rF == "unsat" {
		panic(abortPath{"dead", "both branches infeasible"})
	}
	// explore first the side the cached model supports (keeps the model valid along the path)
	preferFalse := false
	if p.ev != nil {
		if v, ok := p.ev.eval(c); ok && v == 0 {
			preferFalse = true
		}
	}
	if rT != "unsat" && rF != "unsat" {
		if preferFalse {
			alt := append(append([]Decision{}, p.taken...), Decision{Kind: 'b', Choice: 1})
			m.ex.enqueue(m, alt)
			m.commit(idx, Decision{Kind: 'b', Choice: 0}, m.tt.Not(c))
			return false
		}
		alt := append(append([]Decision{}, p.taken...), Decision{Kind: 'b', Choice: 0})
		m.ex.enqueue(m, alt)
		m.commit(idx, Decision{Kind: 'b', Choice: 1}, c)
		return true
	}
	if rT != "unsat" {
		m.commit(idx, Decision{Kind: 'b', Choice: 1}, c)
		return true
	}
	m.commit(idx, Decision{Kind: 'b', Choice: 0}, m.tt.Not(c))
	return false
}

// checkWithModel is CheckWith(c) that also caches the model when sat (valid for PC ∧ c).
func (m *Machine) checkWithModel(c *Term) string {
	p := m.path
	if len(p.varOrd) == 0 || len(p.varOrd) > 400 {
		return m.sol.CheckWith(c)
	}
	terms := make([]*Term, 0, len(p.varOrd))
	for _, n := range p.varOrd {
		terms = append(terms, p.vars[n])
	}
	vals, _, ok, r := m.sol.ModelR(c, terms)
	if ok {
		mv := make(map[*Term]uint64, len(terms))
		for _, t := range terms {
			mv[t] = vals[t]
		}
		p.ev = newEvaluator(mv)
		p.evNVars = len(terms)
	}
	return r
}

// assume adds c to the path condition; aborts the path if it becomes infeasible.
func (m *Machine) assume(c *Term) {
	if v, ok := m.knownVal(c); ok {
		if !v {
			panic(abortPath{"dead", "assumption false"})
		}
		return
	}
	// treat like a branch whose false side is dropped; recorded so replays ask nothing
	p := m.path
	if p.local != nil {
		panic(mergeImpure{})
	}
	idx := len(p.taken)
	if idx < len(p.prefix) {
		d := p.prefix[idx]
		if d.Kind != 'u' {
			panic(abortPath{"engine", fmt.Sprintf("replay divergence: expected assume, prefix has %c at %d", d.Kind, idx)})
		}
		m.commit(idx, d, c)
		return
	}
	r := m.sol.CheckWith(c)
	if r == "unsat" {
		panic(abortPath{"dead", "assumption infeasible"})
	}
	m.commit(idx, Decision{Kind: 'u', Choice: 1}, c)
}

// choose makes an n-ary nondeterministic choice (all options feasible).
func (m *Machine) choose(n int) int {
	if n <= 1 {
		return 0
	}
	p := m.path
	if p.local != nil {
		panic(mergeImpure{})
	}
	idx := len(p.taken)
	if idx < len(p.prefix) {
		d := p.prefix[idx]
		if d.Kind != 'n' {
			panic(abortPath{"engine", fmt.Sprintf("replay divergence: expected choice, prefix has %c at %d", d.Kind, idx)})
		}
		m.commit(idx, d, nil)
		return d.Choice
	}
	for i := n - 1; i >= 1; i-- {
		alt := append(append([]Decision{}, p.taken...), Decision{Kind: 'n', Choice: i})
		m.ex.enqueue(m, alt)
	}
	m.commit(idx, Decision{Kind: 'n', Choice: 0}, nil)
	return 0
}

// concretise returns a concrete value for t, forking over all feasible values (cap: max values).
func (m *Machine) concretise(t *Term, what string) uint64 {
	if v, ok := evalConst(t); ok {
		return v
	}
	if t.W == 0 {
		if m.branch(t) {
			return 1
		}
		return 0
	}
	p := m.path
	if p.local != nil {
		panic(mergeImpure{})
	}
	for tries := 0; ; tries++ {
		idx := len(p.taken)
		if idx < len(p.prefix) {
			d := p.prefix[idx]
			if d.Kind != 'c' {
				panic(abortPath{"engine", fmt.Sprintf("replay divergence: expected concretise, prefix has %c at %d", d.Kind, idx)})
			}
			eq := m.tt.Eq(t, m.tt.Const(d.Val, t.W))
			if d.Choice == 1 {
				m.commit(idx, d, eq)
				return d.Val
			}
			m.commit(idx, d, m.tt.Not(eq))
			continue
		}
		if tries > m.cfg.concCap() {
			panic(abortPath{"unwind", "concretisation cap exceeded at " + what})
		}
		vals, _, ok := m.sol.Model(m.tt.T, []*Term{t})
		if !ok {
			panic(abortPath{"dead", "concretise: path condition not sat"})
		}
		v := vals[t]
		eq := m.tt.Eq(t, m.tt.Const(v, t.W))
		if m.sol.CheckWith(m.tt.Not(eq)) != "unsat" {
			alt := append(append([]Decision{}, p.taken...), Decision{Kind: 'c', Choice: 0, Val: v})
			m.ex.enqueue(m, alt)
		}
		m.commit(idx, Decision{Kind: 'c', Choice: 1, Val: v}, eq)
		return v
	}
}

func (c *HarnessCfg) concCap() int {
	if v, ok := c.Opts["conc"]; ok {
		var n int
		fmt.Sscanf(v, "%d", &n)
		return n
	}
	return 64
}

// assertCond is the harness-level assertion (and the engine's own safety assertions).
func (m *Machine) assertCond(c *Term, label, kind string) {
	if c.IsTrue() {
		m.stats.Asserts++
		m.stats.Discharged++
		m.stats.AssertLabels[label]++
		return
	}
	if v, ok := m.knownVal(c); ok && v {
		m.stats.Asserts++
		m.stats.Discharged++
		m.stats.AssertLabels[label]++
		return
	}
	p := m.path
	if p.local != nil {
		panic(mergeImpure{})
	}
	idx := len(p.taken)
	if idx < len(p.prefix) {
		d := p.prefix[idx]
		if d.Kind != 'a' {
			panic(abortPath{"engine", fmt.Sprintf("replay divergence: expected assert, prefix has %c at %d", d.Kind, idx)})
		}
		m.commit(idx, d, c)
		return
	}
	m.stats.Asserts++
	m.stats.AssertLabels[label]++
	nc := m.tt.Not(c)
	r := m.sol.CheckWithX(nc, m.cfg.Name+":"+label)
	switch r {
	case "unsat":
		m.stats.Discharged++
		m.commit(idx, Decision{Kind: 'a', Choice: 1}, c)
		return
	case "unknown":
		m.stats.Inconclusive++
		m.note("assertion query unknown (timeout): " + label)
		m.commit(idx, Decision{Kind: 'a', Choice: 1}, c)
		return
	}
	// sat: violation
	m.recordViolation(nc, label, kind, m.stackNames())
	if m.sol.CheckWith(c) == "unsat" {
		panic(abortPath{"end", "assertion fails on every continuation"})
	}
	m.commit(idx, Decision{Kind: 'a', Choice: 1}, c)
}

func (m *Machine) modelVars(extra *Term) (map[string]string, bool) {
	p := m.path
	terms := make([]*Term, 0, len(p.varOrd))
	for _, n := range p.varOrd {
		terms = append(terms, p.vars[n])
	}
	vals, _, ok := m.sol.Model(extra, terms)
	if !ok {
		return nil, false
	}
	out := map[string]string{}
	for _, n := range p.varOrd {
		out[n] = fmt.Sprintf("%d", vals[p.vars[n]])
	}
	return out, true
}

func (m *Machine) recordViolation(extra *Term, label, kind string, stack []string) {
	vars, ok := m.modelVars(extra)
	if !ok {
		m.stats.Inconclusive++
		m.note("no model for violation candidate (solver unknown): " + label)
		return
	}
	v := &Violation{Pkg: m.cfg.Pkg, Harness: m.cfg.Name, Label: label, Kind: kind, Vars: vars, Stack: stack,
		Site: m.innermostRepoFn(stack), Path: append([]Decision{}, m.path.taken...)}
	m.stats.Violations = append(m.stats.Violations, v)
}

func (m *Machine) note(s string) {
	if len(m.stats.Notes) < 8 {
		m.stats.Notes = append(m.stats.Notes, s)
	}
}

func (m *Machine) reach(label string) {
	m.stats.Reached[label]++
	if !m.ex.wantWitness(label) {
		return
	}
	vars, ok := m.modelVars(m.tt.T)
	if !ok {
		return
	}
	w := &Witness{Pkg: m.cfg.Pkg, Harness: m.cfg.Name, Label: label, Vars: vars, Obs: map[string]string{}}
	// evaluate observations under the model
	p := m.path
	var ots []*Term
	var onames []string
	for _, n := range p.obsOrd {
		switch x := p.obs[n].(type) {
		case *Term:
			ots = append(ots, x)
			onames = append(onames, n)
		case SliceVal:
			for i, t := range m.sliceTerms(x) {
				ots = append(ots, t)
				onames = append(onames, fmt.Sprintf("%s[%d]", n, i))
			}
			w.Obs[n+".len"] = fmt.Sprintf("%d", x.Len)
		}
	}
	if len(ots) > 0 {
		// constrain the model to the witness assignment
		cond := m.tt.T
		for _, n := range p.varOrd {
			var x uint64
			fmt.Sscanf(vars[n], "%d", &x)
			vt := p.vars[n]
			if vt.W == 0 {
				if x == 1 {
					cond = m.tt.And(cond, vt)
				} else {
					cond = m.tt.And(cond, m.tt.Not(vt))
				}
			} else {
				cond = m.tt.And(cond, m.tt.Eq(vt, m.tt.Const(x, vt.W)))
			}
		}
		vals, _, ok := m.sol.Model(cond, ots)
		if ok {
			for i, t := range ots {
				w.Obs[onames[i]] = fmt.Sprintf("%d", vals[t])
			}
		}
	}
	m.ex.addWitness(w)
}

// ---------------- explorer ----------------

type Explorer struct {
	shared    map[ssa.Instruction]bool // scheduling points of THIS round (frozen while the round runs)
	pending   map[ssa.Instruction]bool // racing sites found in this round: scheduling points of the next one
	sharedNew bool
	races     []RaceReport
	mu        sync.Mutex
	cond      *sync.Cond
	queue     [][]Decision
	active    int
	paths     int
	maxPaths  int
	stop      bool
	witnesses map[string]int
	wlist     []*Witness
	wantW     int
	deadline  time.Time
}

func (e *Explorer) enqueue(m *Machine, prefix []Decision) {
	e.mu.Lock()
	e.queue = append(e.queue, prefix)
	e.mu.Unlock()
	e.cond.Signal()
}

func (e *Explorer) addSharedSite(s ssa.Instruction) bool {
	e.mu.Lock()
	defer e.mu.Unlock()
	if e.shared[s] || e.pending[s] {
		return false
	}
	// not added to e.shared: that would change the scheduling points in the middle of the round and the
	// recorded decision prefixes of other workers would no longer replay
	if e.pending == nil {
		e.pending = map[ssa.Instruction]bool{}
	}
	e.pending[s] = true
	e.sharedNew = true
	return true
}

func (e *Explorer) isShared(s ssa.Instruction) bool {
	e.mu.Lock()
	defer e.mu.Unlock()
	return e.shared[s]
}

func (e *Explorer) addRace(r RaceReport) {
	e.mu.Lock()
	defer e.mu.Unlock()
	for _, x := range e.races {
		if x.Site == r.Site && x.Kind == r.Kind {
			return
		}
	}
	e.races = append(e.races, r)
}

func (e *Explorer) wantWitness(label string) bool {
	e.mu.Lock()
	defer e.mu.Unlock()
	if e.witnesses[label] >= e.wantW {
		return false
	}
	e.witnesses[label]++
	return true
}

func (e *Explorer) addWitness(w *Witness) {
	e.mu.Lock()
	e.wlist = append(e.wlist, w)
	e.mu.Unlock()
}

// next returns the next prefix; prefers the one sharing the longest prefix with last (LIFO is a good proxy).
func (e *Explorer) next(last []Decision) ([]Decision, bool) {
	e.mu.Lock()
	defer e.mu.Unlock()
	for {
		if e.stop {
			return nil, false
		}
		if len(e.queue) > 0 {
			if e.maxPaths > 0 && e.paths >= e.maxPaths || (!e.deadline.IsZero() && time.Now().After(e.deadline)) {
				e.stop = true
				e.cond.Broadcast()
				return nil, false
			}
			// pick best among the last few entries
			best := len(e.queue) - 1
			bestL := -1
			lo := len(e.queue) - 32
			if lo < 0 {
				lo = 0
			}
			for i := len(e.queue) - 1; i >= lo; i-- {
				l := lcp(e.queue[i], last)
				if l > bestL {
					bestL, best = l, i
				}
			}
			p := e.queue[best]
			e.queue = append(e.queue[:best], e.queue[best+1:]...)
			e.paths++
			e.active++
			return p, true
		}
		if e.active == 0 {
			e.cond.Broadcast()
			return nil, false
		}
		e.cond.Wait()
	}
}

func (e *Explorer) done() {
	e.mu.Lock()
	e.active--
	if e.active == 0 && len(e.queue) == 0 {
		e.cond.Broadcast()
	}
	e.mu.Unlock()
}

func lcp(a, b []Decision) int {
	n := 0
	for n < len(a) && n < len(b) && a[n].same(b[n]) {
		n++
	}
	return n
}

// runHarness explores all paths of one harness with nworkers workers and returns merged stats.
func runHarness(ld *Loaded, fn *ssa.Function, cfg *HarnessCfg, nworkers int, mirrors []string, timeoutMs int, budget time.Duration) *HarnessStats {
	shared := map[ssa.Instruction]bool{}
	var res *HarnessStats
	for round := 0; round < 4; round++ {
		var again bool
		res, again = runHarnessOnce(ld, fn, cfg, nworkers, mirrors, timeoutMs, budget, shared)
		if !again {
			break
		}
		// shared-access sites were discovered: explore again with scheduling points at them
	}
	return res
}

func runHarnessOnce(ld *Loaded, fn *ssa.Function, cfg *HarnessCfg, nworkers int, mirrors []string, timeoutMs int, budget time.Duration, shared map[ssa.Instruction]bool) (*HarnessStats, bool) {
	t0 := time.Now()
	ex := &Explorer{witnesses: map[string]int{}, maxPaths: cfg.MaxPaths, wantW: cfg.Witnesses, shared: shared}
	if budget > 0 {
		ex.deadline = t0.Add(budget)
	}
	ex.cond = sync.NewCond(&ex.mu)
	ex.queue = append(ex.queue, []Decision{})
	var wg sync.WaitGroup
	all := make([]*HarnessStats, nworkers)
	for w := 0; w < nworkers; w++ {
		wg.Add(1)
		go func(w int) {
			defer wg.Done()
			st := newStats()
			all[w] = st
			tt := NewTermTable()
			tmo := timeoutMs
			if v, ok := cfg.Opts["timeout"]; ok {
				fmt.Sscanf(v, "%d", &tmo)
			}
			mir := mirrors
			if mo, ok := cfg.Opts["mirrors"]; ok {
				// mirrors=none | z3 | cvc5 | z3,cvc5: per-harness choice of cross-check solvers (z3 4.8.12
				// cannot digest several thousand definitions in reasonable time)
				mir = nil
				if mo != "none" {
					mir = strings.Split(mo, ",")
				}
			}
			sol, err := NewSolver(tt, tmo, mir, cfg.Opts["primary"])
			if err != nil {
				st.SolverErrors = append(st.SolverErrors, err.Error())
				return
			}
			defer sol.Close()
			m := &Machine{prog: ld.prog, ld: ld, tt: tt, sol: sol, cfg: cfg, stats: st, ex: ex, id: w, fnInfo: map[*ssa.Function]*fnMeta{}}
			for {
				prefix, ok := ex.next(m.last)
				if !ok {
					break
				}
				m.runPath(fn, prefix)
				ex.done()
				if sol.Broken {
					// a solver error on this path: its answers after the error were all "unknown"
					// (inconclusive); start over with fresh processes and a fresh term table
					st.Inconclusive++
					m.note("solver reported an error; the rest of that path was inconclusive, solver restarted")
					sol.Restart()
					tt = NewTermTable()
					m.tt = tt
					sol.tt = tt
					m.last = nil
				}
				if len(tt.terms) > 400000 {
					// reset interning and the solver to bound memory
					sol.Restart()
					tt = NewTermTable()
					m.tt = tt
					sol.tt = tt
					m.last = nil
				}
			}
			st.Queries = sol.Queries
			st.SolverNs = sol.SolverNs
			st.XChecks = sol.XChecks
			st.XDisagree = sol.XDisagree
			st.SolverErrors = append(st.SolverErrors, sol.Errors...)
		}(w)
	}
	wg.Wait()
	res := newStats()
	for _, st := range all {
		if st == nil {
			continue
		}
		res.Paths += st.Paths
		res.Decisions += st.Decisions
		res.Asserts += st.Asserts
		res.Discharged += st.Discharged
		res.Inconclusive += st.Inconclusive
		res.Queries += st.Queries
		res.SolverNs += st.SolverNs
		res.XChecks += st.XChecks
		res.XDisagree = append(res.XDisagree, st.XDisagree...)
		res.SolverErrors = append(res.SolverErrors, st.SolverErrors...)
		res.Violations = append(res.Violations, st.Violations...)
		for k, v := range st.PathsEnded {
			res.PathsEnded[k] += v
		}
		for k, v := range st.MaxLoop {
			if v > res.MaxLoop[k] {
				res.MaxLoop[k] = v
			}
		}
		for k := range st.Funcs {
			res.Funcs[k] = true
		}
		for k, v := range st.Unsupported {
			res.Unsupported[k] += v
		}
		for k, v := range st.Reached {
			res.Reached[k] += v
		}
		for k, v := range st.Stubs {
			res.Stubs[k] += v
		}
		for k, v := range st.AssertLabels {
			res.AssertLabels[k] += v
		}
		res.Notes = append(res.Notes, st.Notes...)
	}
	res.Witnesses = ex.wlist
	sort.Slice(res.Witnesses, func(i, j int) bool { return res.Witnesses[i].Label < res.Witnesses[j].Label })
	ex.mu.Lock()
	res.Incomplete = ex.stop || len(ex.queue) > 0
	ex.mu.Unlock()
	res.WallS = time.Since(t0).Seconds()
	res.Races = ex.races
	for site := range ex.pending {
		shared[site] = true
	}
	return res, ex.sharedNew && cfg.Sched > 0
}

func (m *Machine) runPath(fn *ssa.Function, prefix []Decision) {
	k := lcp(prefix, m.last)
	if k >= len(prefix) && len(prefix) > 0 {
		k = len(prefix) - 1
	}
	if k == 0 {
		m.sol.PopTo(0)
		m.sol.Push() // base level
	} else {
		m.sol.PopTo(baseLevel + k)
	}
	p := &PathState{prefix: prefix, synced: k, live: k == 0, known: map[*Term]bool{}, globals: map[*ssa.Global]*Cell{},
		inited: map[*ssa.Package]bool{}, vars: map[string]*Term{}, obs: map[string]Value{}, side: map[string]Value{},
		held: map[*Cell][]string{}}
	m.path = p
	m.stats.Paths++
	endKind := "ok"
	func() {
		defer func() {
			if r := recover(); r != nil {
				switch x := r.(type) {
				case abortPath:
					endKind = x.kind
					if x.kind == "unsupported" || x.kind == "engine" {
						m.stats.Unsupported[x.msg]++
					}
					if x.kind == "unwind" || x.kind == "steps" || x.kind == "depth" {
						m.stats.Unsupported["bound: "+x.msg]++
					}
				case *goPanicVal:
					endKind = "panic"
					if !m.cfg.PanicOK {
						m.recordViolation(m.tt.T, "panic: "+x.msg, "panic", x.stack)
					}
				default:
					panic(r)
				}
			}
		}()
		m.runMain(fn)
	}()
	m.killGoroutines()
	m.stats.PathsEnded[endKind]++
	m.stats.Decisions += len(p.taken) - k
	m.last = p.taken
}
