package main

import (
	"fmt"
	"go/ast"
	"go/parser"
	"go/token"
	"os"
	"path/filepath"
	"sort"
	"strings"
)

// Codec harness generator (DESIGN C08.c / C09.a): walks every *_codec.go of the working tree and
// emits, per type with generated Encode/Decode methods, a decode-robustness harness (C09) and a
// round-trip harness (C08). Regenerated from /repo's current source on every run.

type codecType struct {
	Rel    string // package dir relative to repo root
	Pkg    string // package name
	Name   string
	Strict bool
	Fields []codecField
	OK     bool   // constructor could be generated
	Why    string // reason when not OK
}

type codecField struct {
	Name string
	Num  string
	Type ast.Expr
}

// networkFacing types get a deeper bound in the thorough tier.
var networkFacing = map[string]bool{"RawBlock": true, "BlockHeader": true, "Transaction": true, "BlockAsset": true, "AggregateCommit": true,
	"EventPostSingleCommits": true, "SingleCommit": true, "Request": true, "responseMsg": true, "Message": true,
	"GetHighestCommonBlockRequest": true, "GetHighestCommonBlockResponse": true, "GetBlocksFromIDRequest": true, "GetBlocksFromIDResponse": true,
	"EventPostBlock": true, "PostTransactionAnnouncement": true, "GetTransactionsResponse": true, "GetTransactionsRequest": true, "NodeInfo": true,
	"Block": true, "Event": true}

func findCodecTypes() ([]*codecType, error) {
	var out []*codecType
	root := filepath.Join(repoRoot, "pkg")
	byDir := map[string][]string{}
	filepath.Walk(root, func(p string, info os.FileInfo, err error) error {
		if err == nil && !info.IsDir() && strings.HasSuffix(p, "_codec.go") {
			byDir[filepath.Dir(p)] = append(byDir[filepath.Dir(p)], p)
		}
		return nil
	})
	var dirs []string
	for d := range byDir {
		dirs = append(dirs, d)
	}
	sort.Strings(dirs)
	for _, d := range dirs {
		rel, _ := filepath.Rel(repoRoot, d)
		if strings.Contains(rel, "internal") || strings.Contains(rel, "codec/gen") {
			continue
		}
		fset := token.NewFileSet()
		pkgs, err := parser.ParseDir(fset, d, func(fi os.FileInfo) bool { return !strings.HasSuffix(fi.Name(), "_test.go") }, 0)
		if err != nil {
			return nil, err
		}
		for pname, pkg := range pkgs {
			if strings.HasSuffix(pname, "_test") {
				continue
			}
			has := map[string]map[string]bool{}
			structs := map[string]*ast.StructType{}
			for fname, f := range pkg.Files {
				for _, decl := range f.Decls {
					switch x := decl.(type) {
					case *ast.FuncDecl:
						if x.Recv == nil || len(x.Recv.List) != 1 || !strings.HasSuffix(fname, "_codec.go") {
							continue
						}
						if st, ok := x.Recv.List[0].Type.(*ast.StarExpr); ok {
							if id, ok := st.X.(*ast.Ident); ok {
								if has[id.Name] == nil {
									has[id.Name] = map[string]bool{}
								}
								has[id.Name][x.Name.Name] = true
							}
						}
					case *ast.GenDecl:
						for _, sp := range x.Specs {
							if ts, ok := sp.(*ast.TypeSpec); ok {
								if st, ok := ts.Type.(*ast.StructType); ok && ts.TypeParams == nil {
									structs[ts.Name.Name] = st
								}
							}
						}
					}
				}
			}
			var names []string
			for n, ms := range has {
				if ms["Decode"] && ms["Encode"] && structs[n] != nil {
					names = append(names, n)
				}
			}
			sort.Strings(names)
			for _, n := range names {
				ct := &codecType{Rel: rel, Pkg: pname, Name: n, Strict: has[n]["DecodeStrict"]}
				for _, fl := range structs[n].Fields.List {
					if fl.Tag == nil || !strings.Contains(fl.Tag.Value, "fieldNumber:") {
						continue
					}
					num := fl.Tag.Value[strings.Index(fl.Tag.Value, "fieldNumber:")+len("fieldNumber:"):]
					num = strings.Trim(strings.SplitN(strings.Trim(num, "`"), " ", 2)[0], "\"")
					for _, nm := range fl.Names {
						ct.Fields = append(ct.Fields, codecField{Name: nm.Name, Num: num, Type: fl.Type})
					}
				}
				out = append(out, ct)
			}
		}
	}
	return out, nil
}

// countSites over-approximates the number of dynamic length sites of a value of type ct when every
// slice has 2 elements.
func countSites(ct *codecType, types map[string]*codecType, depth int) int {
	if depth > 3 {
		return 0
	}
	n := 0
	for _, f := range ct.Fields {
		n += countSitesExpr(f.Type, types, depth)
	}
	return n
}

func countSitesExpr(te ast.Expr, types map[string]*codecType, depth int) int {
	ts := exprStr(te)
	switch ts {
	case "string", "[]byte", "codec.Hex", "codec.Lisk32", "Hex", "Lisk32":
		return 1
	}
	if at, ok := te.(*ast.ArrayType); ok && at.Len == nil {
		return 1 + 2*countSitesExpr(at.Elt, types, depth+1)
	}
	base := strings.TrimPrefix(ts, "*")
	if ct, ok := types[base]; ok {
		return countSites(ct, types, depth+1)
	}
	return 0
}

func countNumSites(ct *codecType, types map[string]*codecType, depth int) int {
	if depth > 3 {
		return 0
	}
	n := 0
	for _, f := range ct.Fields {
		n += countNumSitesExpr(f.Type, types, depth)
	}
	return n
}

func countNumSitesExpr(te ast.Expr, types map[string]*codecType, depth int) int {
	ts := exprStr(te)
	switch ts {
	case "uint64", "uint32", "int64", "int32", "uint", "int":
		return 1
	}
	if at, ok := te.(*ast.ArrayType); ok && at.Len == nil {
		return 2 * countNumSitesExpr(at.Elt, types, depth+1)
	}
	base := strings.TrimPrefix(ts, "*")
	if ct, ok := types[base]; ok {
		return countNumSites(ct, types, depth+1)
	}
	return 0
}

func hasStringSite(ct *codecType, types map[string]*codecType, depth int) bool {
	if depth > 3 {
		return false
	}
	for _, f := range ct.Fields {
		ts := strings.TrimPrefix(strings.TrimPrefix(exprStr(f.Type), "[]"), "*")
		if ts == "string" {
			return true
		}
		if dep, ok := types[ts]; ok && hasStringSite(dep, types, depth+1) {
			return true
		}
	}
	return false
}

func hasNested(ct *codecType, types map[string]*codecType) bool {
	for _, f := range ct.Fields {
		base := strings.TrimPrefix(strings.TrimPrefix(exprStr(f.Type), "[]"), "*")
		if _, ok := types[base]; ok {
			return true
		}
		if strings.Contains(base, ".") && !strings.HasPrefix(base, "codec.") {
			return true // nested type of another package
		}
	}
	return false
}

func exprStr(e ast.Expr) string {
	switch x := e.(type) {
	case *ast.Ident:
		return x.Name
	case *ast.SelectorExpr:
		return exprStr(x.X) + "." + x.Sel.Name
	case *ast.StarExpr:
		return "*" + exprStr(x.X)
	case *ast.ArrayType:
		if x.Len == nil {
			return "[]" + exprStr(x.Elt)
		}
	case *ast.InterfaceType:
		return "interface{}"
	}
	return "?"
}

// genValue emits Go statements assigning a nondeterministic value of type te to lhs.
// name is a Go expression of type string naming the symbolic variable.
func genValue(sb *strings.Builder, lhs, name string, te ast.Expr, types map[string]*codecType, imports map[string]bool, depth int, ind string) bool {
	ts := exprStr(te)
	switch ts {
	case "uint64":
		fmt.Fprintf(sb, "%s%s = zzGenU64(t, %s)\n", ind, lhs, name)
		return true
	case "uint32":
		fmt.Fprintf(sb, "%s%s = uint32(zzGenU64(t, %s))\n", ind, lhs, name)
		return true
	case "int64":
		fmt.Fprintf(sb, "%s%s = zzGenI64(t, %s)\n", ind, lhs, name)
		return true
	case "int32":
		fmt.Fprintf(sb, "%s%s = int32(zzGenI64(t, %s))\n", ind, lhs, name)
		return true
	case "uint":
		fmt.Fprintf(sb, "%s%s = uint(zzGenU64(t, %s))\n", ind, lhs, name)
		return true
	case "int":
		fmt.Fprintf(sb, "%s%s = int(zzGenI64(t, %s))\n", ind, lhs, name)
		return true
	case "bool":
		fmt.Fprintf(sb, "%s%s = t.Bool(%s)\n", ind, lhs, name)
		return true
	case "string":
		fmt.Fprintf(sb, "%s%s = zzGenASCII(t, %s)\n", ind, lhs, name)
		return true
	case "[]byte", "codec.Hex", "codec.Lisk32", "Hex", "Lisk32":
		fmt.Fprintf(sb, "%s%s = zzGenBytes(t, %s)\n", ind, lhs, name)
		return true
	}
	if at, ok := te.(*ast.ArrayType); ok && at.Len == nil {
		// slices of up to 2 elements
		fmt.Fprintf(sb, "%s{\n%s\tn := zzGenLen(t, %s+\".n\")\n", ind, ind, name)
		fmt.Fprintf(sb, "%s\t%s = make(%s, n)\n", ind, lhs, ts)
		fmt.Fprintf(sb, "%s\tfor i := 0; i < n; i++ {\n", ind)
		ok := genValue(sb, lhs+"[i]", "t.Name("+name+", i)", at.Elt, types, imports, depth+1, ind+"\t\t")
		fmt.Fprintf(sb, "%s\t}\n%s}\n", ind, ind)
		return ok
	}
	// nested codec struct (pointer or value) in the same package
	base := ts
	ptr := false
	if strings.HasPrefix(base, "*") {
		base, ptr = base[1:], true
	}
	if ct, ok := types[base]; ok && depth < 3 {
		if ptr {
			fmt.Fprintf(sb, "%s%s = zzGen_%s(t, %s)\n", ind, lhs, ct.Name, name)
		} else {
			fmt.Fprintf(sb, "%s%s = *zzGen_%s(t, %s)\n", ind, lhs, ct.Name, name)
		}
		return true
	}
	return false
}

func genEq(sb *strings.Builder, a, b string, te ast.Expr, types map[string]*codecType, ind string) bool {
	ts := exprStr(te)
	switch ts {
	case "string":
		fmt.Fprintf(sb, "%sif !zzStrEq(%s, %s) {\n%s\treturn false\n%s}\n", ind, a, b, ind, ind)
		return true
	case "uint64", "uint32", "int64", "int32", "uint", "int", "bool":
		fmt.Fprintf(sb, "%sif %s != %s {\n%s\treturn false\n%s}\n", ind, a, b, ind, ind)
		return true
	case "[]byte", "codec.Hex", "codec.Lisk32", "Hex", "Lisk32":
		fmt.Fprintf(sb, "%sif !zzBytesEq(%s, %s) {\n%s\treturn false\n%s}\n", ind, a, b, ind, ind)
		return true
	}
	if at, ok := te.(*ast.ArrayType); ok && at.Len == nil {
		fmt.Fprintf(sb, "%sif len(%s) != len(%s) {\n%s\treturn false\n%s}\n", ind, a, b, ind, ind)
		fmt.Fprintf(sb, "%sfor i := range %s {\n", ind, a)
		ok := genEq(sb, a+"[i]", b+"[i]", at.Elt, types, ind+"\t")
		fmt.Fprintf(sb, "%s}\n", ind)
		return ok
	}
	base := ts
	ptr := false
	if strings.HasPrefix(base, "*") {
		base, ptr = base[1:], true
	}
	if ct, ok := types[base]; ok {
		if ptr {
			fmt.Fprintf(sb, "%sif !zzEq_%s(%s, %s) {\n%s\treturn false\n%s}\n", ind, ct.Name, a, b, ind, ind)
		} else {
			fmt.Fprintf(sb, "%sif !zzEq_%s(&%s, &%s) {\n%s\treturn false\n%s}\n", ind, ct.Name, a, b, ind, ind)
		}
		return true
	}
	return false
}

// generateCodecHarnesses writes one file per package dir into outRoot/<rel>/zz_verif_gen_codec.go
// and returns rel -> harness names (for the requested property).
func generateCodecHarnesses(outRoot, prop string) (map[string][]string, map[string]string, []string, error) {
	cts, err := findCodecTypes()
	if err != nil {
		return nil, nil, nil, err
	}
	byRel := map[string][]*codecType{}
	for _, ct := range cts {
		byRel[ct.Rel] = append(byRel[ct.Rel], ct)
	}
	names := map[string][]string{}
	files := map[string]string{}
	var skipped []string
	for rel, list := range byRel {
		types := map[string]*codecType{}
		for _, ct := range list {
			types[ct.Name] = ct
		}
		sb := &strings.Builder{}
		pkg := list[0].Pkg
		sb.WriteString("//go:build verif\n\n// Code generated by gosym gen-codec from the *_codec.go files of this package; DO NOT EDIT.\npackage " + pkg + "\n\n")
		sb.WriteString("const zzGenSliceMax = 2\n\n")
		sb.WriteString(`// Length selection. zzPat < 0: every length site is an independent symbolic choice in [0,2]
// (used for types with few sites). zzPat >= 0: lengths follow one of 2k+3 patterns — all 0, all 1,
// all 2, and for each site i "site i empty, others 2" / "site i 2, others empty" — so that every
// field is exercised both empty and non-empty without multiplying the choices (3^sites paths).
var zzPat, zzSite int

func zzGenLen(t *zzT, name string) int {
	site := zzSite
	zzSite++
	if zzPat < 0 {
		return t.Range(name, 0, 2)
	}
	switch zzPat {
	case 0, 1, 2:
		return zzPat
	}
	k := (zzPat - 3) / 2
	if (zzPat-3)%2 == 0 {
		if site == k {
			return 0
		}
		return 2
	}
	if site == k {
		return 2
	}
	return 0
}

func zzGenBytes(t *zzT, name string) []byte {
	return t.Bytes(name, zzGenLen(t, name+".len"))
}

// Integer fields: at most one integer site per run (chosen by zzNPat) ranges over its full width
// (all varint sizes); the others are confined to one-byte varints. Varint sizes of different
// fields are independent, and the full-width round trip of a single varint is C08.a.
var zzNPat, zzNSite int

func zzGenU64(t *zzT, name string) uint64 {
	site := zzNSite
	zzNSite++
	v := t.U64(name)
	if zzNPat >= 0 && site != zzNPat {
		t.Assume(v < 128)
	}
	return v
}

func zzGenI64(t *zzT, name string) int64 {
	site := zzNSite
	zzNSite++
	v := t.I64(name)
	if zzNPat >= 0 && site != zzNPat {
		t.Assume(v >= -64 && v < 64)
	}
	return v
}

// Strings: symbolic ASCII of pattern-chosen length, except that the first string site of a run takes
// a concrete Unicode corner case when zzUniPat > 0 (precomposed, decomposed-composable (not NFC),
// NFC-normal text containing a "maybe" quick-check mark, a composition exclusion, Hangul). The NFC
// functions are evaluated for real on concrete strings, so these exercise the real normalisation
// rules that the symbolic ASCII contract cannot reach.
var zzUniPat, zzStrSite int
var zzUniSamples = []string{"\u00e9", "e\u0301", "q\u0307", "\u0915\u093c", "\ud55c"}

func zzGenASCII(t *zzT, name string) string {
	site := zzStrSite
	zzStrSite++
	if zzUniPat > 0 && site == 0 {
		return zzUniSamples[zzUniPat-1]
	}
	b := zzGenBytes(t, name)
	for _, c := range b {
		t.Assume(c < 0x80)
	}
	return string(b)
}

// zzStrEq: the property compares strings in NFC form.
func zzStrEq(a, b string) bool {
	if a == b {
		return true
	}
	if zzUniPat > 0 {
		return zznorm.NFC.String(a) == zznorm.NFC.String(b)
	}
	return false
}

func zzBytesEq(a, b []byte) bool { return zzbytes.Equal(a, b) }

func zzGenBuf(t *zzT, name string, maxN int) []byte {
	n := t.Range(name+".len", 0, maxN)
	return t.Bytes(name, n)
}

`)
		emit := func(ct *codecType, gb, eb *strings.Builder) bool {
			fmt.Fprintf(gb, "func zzGen_%s(t *zzT, p string) *%s {\n\tv := &%s{}\n", ct.Name, ct.Name, ct.Name)
			fmt.Fprintf(eb, "func zzEq_%s(a, b *%s) bool {\n\tif a == nil || b == nil {\n\t\treturn a == nil && b == nil\n\t}\n", ct.Name, ct.Name)
			for _, f := range ct.Fields {
				if !genValue(gb, "v."+f.Name, fmt.Sprintf("p+\".%s\"", f.Name), f.Type, types, nil, 0, "\t") ||
					!genEq(eb, "a."+f.Name, "b."+f.Name, f.Type, types, "\t") {
					ct.Why = "field " + f.Name + " of type " + exprStr(f.Type)
					return false
				}
			}
			gb.WriteString("\treturn v\n}\n\n")
			eb.WriteString("\treturn true\n}\n\n")
			return true
		}
		for _, ct := range list {
			ct.OK = emit(ct, &strings.Builder{}, &strings.Builder{})
		}
		// a nested type whose own constructor failed invalidates its users: iterate to fixpoint
		for changed := true; changed; {
			changed = false
			for _, ct := range list {
				if !ct.OK {
					continue
				}
				for _, f := range ct.Fields {
					base := strings.TrimPrefix(strings.TrimPrefix(exprStr(f.Type), "[]"), "*")
					if dep, ok := types[base]; ok && !dep.OK {
						ct.OK, ct.Why = false, "nested "+dep.Name
						changed = true
					}
				}
			}
		}
		for _, ct := range list {
			if ct.OK {
				gb, eb := &strings.Builder{}, &strings.Builder{}
				emit(ct, gb, eb)
				sb.WriteString(gb.String())
				sb.WriteString(eb.String())
			}
		}
		for _, ct := range list {
			deep := ""
			if networkFacing[ct.Name] {
				deep = "\n//zz:thorough N=6"
			}
			// C09: decoders never panic / loop on arbitrary bytes
			h9 := fmt.Sprintf("zzH_C09_dec_%s", ct.Name)
			fmt.Fprintf(sb, "// %s: Decode/DecodeStrict of %s on an arbitrary buffer never panics or loops.\n//zz:opt loop=40\n//zz:quick N=3\n//zz:thorough N=5%s\nfunc %s(t *zzT) {\n", h9, ct.Name, deep, h9)
			fmt.Fprintf(sb, "\tb := zzGenBuf(t, \"b\", t.Param(\"N\", 3))\n\tv := &%s{}\n\terr := v.Decode(b)\n\tt.ObserveBool(\"lenient_ok\", err == nil)\n", ct.Name)
			if ct.Strict {
				fmt.Fprintf(sb, "\tw := &%s{}\n\terr2 := w.DecodeStrict(b)\n\tt.ObserveBool(\"strict_ok\", err2 == nil)\n", ct.Name)
			}
			sb.WriteString("\tt.Reach(\"returned\")\n}\n\n")
			if prop == "C09" {
				names[rel] = append(names[rel], h9)
			}
			if !ct.OK {
				skipped = append(skipped, fmt.Sprintf("%s.%s: round-trip harness not generated (%s)", rel, ct.Name, ct.Why))
				continue
			}
			// C08: round trip
			h8 := fmt.Sprintf("zzH_C08_rt_%s", ct.Name)
			bud := ""
			if countSites(ct, types, 0) > 10 {
				bud = "//zz:quick budget=400s\n//zz:thorough budget=40m\n"
			}
			fmt.Fprintf(sb, "// %s: Decode(Encode(v)) == v, Encode deterministic, strict decoding accepts own encoding, re-encoding is idempotent.\n//zz:opt loop=200\n%sfunc %s(t *zzT) {\n", h8, bud, h8)
			sites := countSites(ct, types, 0)
			if sites <= 4 {
				sb.WriteString("\tzzPat, zzSite = -1, 0\n")
			} else {
				fmt.Fprintf(sb, "\tzzPat, zzSite = t.Choice(\"pattern\", %d), 0\n", 2*sites+3)
			}
			if hasStringSite(ct, types, 0) && countSites(ct, types, 0) <= 6 {
				fmt.Fprintf(sb, "\tzzUniPat, zzStrSite = t.Choice(\"unicode\", %d), 0\n", 6)
			} else if hasStringSite(ct, types, 0) {
				// large types: only the NFC-normal "maybe" sample besides symbolic ASCII
				sb.WriteString("\tzzUniPat, zzStrSite = 3*t.Choice(\"unicode\", 2), 0\n")
			} else {
				sb.WriteString("\tzzUniPat, zzStrSite = 0, 0\n")
			}
			nsites := countNumSites(ct, types, 0)
			if nsites <= 1 {
				sb.WriteString("\tzzNPat, zzNSite = -1, 0\n")
			} else {
				fmt.Fprintf(sb, "\tzzNPat, zzNSite = t.Choice(\"numpattern\", %d), 0\n", nsites+1)
			}
			fmt.Fprintf(sb, "\tv := zzGen_%s(t, \"v\")\n\tenc := v.Encode()\n\tenc2 := v.Encode()\n\tt.Assert(zzBytesEq(enc, enc2), \"Encode is deterministic\")\n", ct.Name)
			fmt.Fprintf(sb, "\td := &%s{}\n\terr := d.Decode(enc)\n\tt.Assert(err == nil, \"Decode accepts Encode output\")\n\tif err == nil {\n\t\tt.Assert(zzEq_%s(v, d), \"Decode(Encode(v)) == v\")\n\t\tt.Assert(zzBytesEq(d.Encode(), enc), \"re-encoding the decoded value gives the same bytes\")\n\t}\n", ct.Name, ct.Name)
			if ct.Strict {
				fmt.Fprintf(sb, "\ts := &%s{}\n\terr2 := s.DecodeStrict(enc)\n\tt.Assert(err2 == nil, \"DecodeStrict accepts Encode output\")\n\tif err2 == nil {\n\t\tt.Assert(zzEq_%s(v, s), \"DecodeStrict(Encode(v)) == v\")\n\t}\n", ct.Name, ct.Name)
			}
			sb.WriteString("\tt.ObserveBytes(\"enc\", enc)\n\tt.Reach(\"end\")\n}\n\n")
			if prop == "C08" {
				names[rel] = append(names[rel], h8)
			}
			if ct.Strict && ct.Name == "Transaction" && ct.Pkg == "blockchain" {
				// C08.b canonical strict decoding (the property states canonicity for transactions): accepted bytes are exactly the encoding of the decoded value
				hc := fmt.Sprintf("zzH_C08_canon_%s", ct.Name)
				fmt.Fprintf(sb, "// %s: DecodeStrict(b) == nil  =>  Encode(decoded) == b (canonical form only).\n//zz:opt loop=40 require=accepted,rejected\n//zz:quick N=13\n//zz:thorough N=16\nfunc %s(t *zzT) {\n", hc, hc)
				canonLabel := "strictly accepted bytes are the canonical encoding"
				if hasNested(ct, types) {
					canonLabel += " (type has nested objects)"
				}
				fmt.Fprintf(sb, "\tb := zzGenBuf(t, \"b\", t.Param(\"N\", 4))\n\tv := &%s{}\n\tif err := v.DecodeStrict(b); err == nil {\n\t\tt.Assert(zzBytesEq(v.Encode(), b), \""+canonLabel+"\")\n\t\tt.Reach(\"accepted\")\n\t} else {\n\t\tt.Reach(\"rejected\")\n\t}\n}\n\n", ct.Name)
				if prop == "C08" {
					names[rel] = append(names[rel], hc)
				}
			}
		}
		dir := filepath.Join(outRoot, rel)
		os.MkdirAll(dir, 0o755)
		fp := filepath.Join(dir, "zz_verif_gen_codec.go")
		src := sb.String()
		imps := "import zzbytes \"bytes\"\nimport zznorm \"golang.org/x/text/unicode/norm\"\n"
		if pkg != "codec" && (strings.Contains(src, "codec.Hex") || strings.Contains(src, "codec.Lisk32")) {
			imps += "import \"github.com/LiskHQ/lisk-engine/pkg/codec\"\n"
		}
		src = strings.Replace(src, "package "+pkg+"\n", "package "+pkg+"\n\n"+imps, 1)
		if err := os.WriteFile(fp, []byte(src), 0o644); err != nil {
			return nil, nil, nil, err
		}
		files[rel] = fp
	}
	sort.Strings(skipped)
	return names, files, skipped, nil
}
