module verif/engine

go 1.23

require golang.org/x/tools v0.29.0

require (
	golang.org/x/mod v0.22.0 // indirect
	golang.org/x/sync v0.10.0 // indirect
)

require golang.org/x/text v0.14.0
