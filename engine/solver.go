package main

import (
	"bufio"
	"fmt"
	"io"
	"os"
	"os/exec"
	"strings"
	"time"
)

// proc is one resident SMT solver process.
type proc struct {
	name string
	cmd  *exec.Cmd
	in   io.WriteCloser
	out  *bufio.Reader
	dead bool
}

func startProc(kind string, timeoutMs int) (*proc, error) {
	var cmd *exec.Cmd
	switch kind {
	case "z3":
		cmd = exec.Command("z3", "-in", fmt.Sprintf("-t:%d", timeoutMs))
	case "z3-new":
		cmd = exec.Command("z3-new", "-in", fmt.Sprintf("-t:%d", timeoutMs))
	case "cvc5-int":
		cmd = exec.Command("cvc5", "--incremental", "--lang=smt2", fmt.Sprintf("--tlimit-per=%d", timeoutMs), "--produce-models", "--solve-bv-as-int=sum")
	case "cvc5":
		cmd = exec.Command("cvc5", "--incremental", "--lang=smt2", fmt.Sprintf("--tlimit-per=%d", timeoutMs), "--produce-models")
	default:
		return nil, fmt.Errorf("unknown solver %s", kind)
	}
	in, err := cmd.StdinPipe()
	if err != nil {
		return nil, err
	}
	out, err := cmd.StdoutPipe()
	if err != nil {
		return nil, err
	}
	cmd.Stderr = nil
	if err := cmd.Start(); err != nil {
		return nil, err
	}
	p := &proc{name: kind, cmd: cmd, in: in, out: bufio.NewReaderSize(out, 1<<16)}
	p.send("(set-option :print-success false)")
	p.send("(set-option :produce-models true)")
	if kind == "cvc5" || kind == "cvc5-int" {
		p.send("(set-logic ALL)")
	}
	return p, nil
}

func (p *proc) send(s string) {
	if p.dead {
		return
	}
	if _, err := io.WriteString(p.in, s+"\n"); err != nil {
		p.dead = true
	}
}

func (p *proc) readLine() string {
	for {
		l, err := p.out.ReadString('\n')
		if err != nil {
			p.dead = true
			return "(error \"solver died\")"
		}
		l = strings.TrimSpace(l)
		if l != "" {
			return l
		}
	}
}

// readSexp reads one balanced s-expression (possibly spanning lines).
func (p *proc) readSexp() string {
	var sb strings.Builder
	depth := 0
	started := false
	inBar := false
	for {
		c, err := p.out.ReadByte()
		if err != nil {
			p.dead = true
			return "(error \"solver died\")"
		}
		if !started {
			if c == ' ' || c == '\n' || c == '\r' || c == '\t' {
				continue
			}
			started = true
			if c != '(' {
				// atom: read to end of line
				rest, _ := p.out.ReadString('\n')
				return string(c) + strings.TrimSpace(rest)
			}
		}
		sb.WriteByte(c)
		if c == '|' {
			inBar = !inBar
		}
		if inBar {
			continue
		}
		if c == '(' {
			depth++
		} else if c == ')' {
			depth--
			if depth == 0 {
				return sb.String()
			}
		}
	}
}

func (p *proc) close() {
	if p.cmd != nil && p.cmd.Process != nil {
		p.in.Close()
		p.cmd.Process.Kill()
		p.cmd.Wait()
	}
}

// Solver wraps a primary process (plus optional mirrors for cross-checking) and tracks which
// terms/vars/ufs are defined at which push level.
type Solver struct {
	tt        *TermTable
	prim      *proc
	mirrors   []*proc
	level     int
	defLevel  map[int]int // term id -> level defined
	defStack  [][]int     // per level: ids defined
	ufLevel   map[string]int
	ufStack   [][]string
	Queries   int
	SolverNs  int64
	GetValueNs int64
	Errors    []string
	// Broken is set as soon as a solver process answers with an (error …) line: a rejected push / pop /
	// define leaves the assertion stack out of step with the engine's bookkeeping, so every later answer
	// of this process is untrustworthy. From then on every check is "unknown" until the worker restarts
	// the solver (after the current path).
	Broken bool
	XChecks   int
	XDisagree []string
	timeoutMs int
	kinds     []string
	primKind  string
}

func NewSolver(tt *TermTable, timeoutMs int, mirrors []string, primary string) (*Solver, error) {
	s := &Solver{tt: tt, timeoutMs: timeoutMs, kinds: mirrors, primKind: primary}
	if err := s.start(); err != nil {
		return nil, err
	}
	return s, nil
}

func (s *Solver) start() error {
	prim := s.primKind
	if prim == "" {
		prim = os.Getenv("GOSYM_PRIMARY")
	}
	if prim == "" {
		prim = "z3-new"
	}
	p, err := startProc(prim, s.timeoutMs)
	if err != nil {
		return err
	}
	s.prim = p
	s.mirrors = nil
	for _, k := range s.kinds {
		mp, err := startProc(k, s.timeoutMs*3)
		if err != nil {
			return err
		}
		s.mirrors = append(s.mirrors, mp)
	}
	s.level = 0
	s.defLevel = map[int]int{}
	s.defStack = [][]int{nil}
	s.ufLevel = map[string]int{}
	s.ufStack = [][]string{nil}
	return nil
}

func (s *Solver) Close() {
	if s.prim != nil {
		s.prim.close()
	}
	for _, m := range s.mirrors {
		m.close()
	}
}

// Restart kills the processes and starts fresh ones (all definitions lost).
func (s *Solver) Restart() error {
	s.Close()
	s.Broken = false
	return s.start()
}

func (s *Solver) sendAll(cmd string) {
	s.prim.send(cmd)
	for _, m := range s.mirrors {
		m.send(cmd)
	}
}

func (s *Solver) Push() {
	s.sendAll("(push 1)")
	s.level++
	s.defStack = append(s.defStack, nil)
	s.ufStack = append(s.ufStack, nil)
}

func (s *Solver) Pop() {
	if s.level == 0 {
		panic("pop at level 0")
	}
	s.sendAll("(pop 1)")
	for _, id := range s.defStack[s.level] {
		delete(s.defLevel, id)
	}
	for _, u := range s.ufStack[s.level] {
		delete(s.ufLevel, u)
	}
	s.defStack = s.defStack[:s.level]
	s.ufStack = s.ufStack[:s.level]
	s.level--
}

func (s *Solver) PopTo(level int) {
	for s.level > level {
		s.Pop()
	}
}

func tname(t *Term) string {
	switch t.Op {
	case "const":
		return constStr(t)
	case "true", "false":
		return t.Op
	case "var":
		return "|" + t.Name + "|"
	}
	return fmt.Sprintf("t%d", t.ID)
}

func (s *Solver) define(t *Term) {
	if t.IsConst() {
		return
	}
	if _, ok := s.defLevel[t.ID]; ok {
		return
	}
	// iterative post-order
	type fr struct {
		t *Term
		i int
	}
	stack := []fr{{t, 0}}
	for len(stack) > 0 {
		f := &stack[len(stack)-1]
		if f.i < len(f.t.Args) {
			a := f.t.Args[f.i]
			f.i++
			if !a.IsConst() {
				if _, ok := s.defLevel[a.ID]; !ok {
					stack = append(stack, fr{a, 0})
				}
			}
			continue
		}
		x := f.t
		stack = stack[:len(stack)-1]
		if _, ok := s.defLevel[x.ID]; ok {
			continue
		}
		switch x.Op {
		case "var":
			s.sendAll(fmt.Sprintf("(declare-const |%s| %s)", x.Name, sortStr(x.W)))
		default:
			if x.Op == "uf" {
				if _, ok := s.ufLevel[x.Name]; !ok {
					s.sendAll(s.tt.ufs[x.Name])
					s.ufLevel[x.Name] = s.level
					s.ufStack[s.level] = append(s.ufStack[s.level], x.Name)
				}
			}
			s.sendAll(fmt.Sprintf("(define-fun t%d () %s %s)", x.ID, sortStr(x.W), x.smtExpr(tname)))
		}
		s.defLevel[x.ID] = s.level
		s.defStack[s.level] = append(s.defStack[s.level], x.ID)
	}
}

func (s *Solver) Assert(t *Term) {
	if t.IsTrue() {
		return
	}
	s.define(t)
	s.sendAll("(assert " + tname(t) + ")")
}

func (s *Solver) checkOn(p *proc) string {
	p.send("(check-sat)")
	r := p.readLine()
	if s.Broken {
		for strings.HasPrefix(r, "(error") || strings.HasPrefix(r, "unsupported") {
			if p.dead {
				return "unknown"
			}
			r = p.readLine()
		}
		return "unknown"
	}
	for strings.HasPrefix(r, "(error") || strings.HasPrefix(r, "unsupported") {
		s.Errors = append(s.Errors, p.name+": "+r)
		s.Broken = true
		if p.dead {
			return "unknown"
		}
		// error lines precede the answer in some cases; but an (error means inconclusive
		r2 := p.readLine()
		if r2 == "sat" || r2 == "unsat" || r2 == "unknown" {
			return "unknown"
		}
		r = r2
	}
	if r != "sat" && r != "unsat" && r != "unknown" {
		s.Errors = append(s.Errors, p.name+": unexpected reply "+r)
		return "unknown"
	}
	return r
}

// Check runs check-sat on the primary under the current assertions.
func (s *Solver) Check() string {
	t0 := time.Now()
	r := s.checkOn(s.prim)
	s.SolverNs += int64(time.Since(t0))
	s.Queries++
	return r
}

// CheckWith checks the current assertions plus extra (not retained).
func (s *Solver) CheckWith(extra *Term) string {
	if extra.IsFalse() {
		return "unsat"
	}
	s.define(extra)
	s.sendAll("(push 1)")
	s.sendAll("(assert " + tname(extra) + ")")
	r := s.Check()
	s.sendAll("(pop 1)")
	return r
}

// CheckWithX is CheckWith plus cross-checking on the mirror solvers; disagreement is recorded.
func (s *Solver) CheckWithX(extra *Term, what string) string {
	if extra.IsFalse() {
		return "unsat"
	}
	s.define(extra)
	s.sendAll("(push 1)")
	s.sendAll("(assert " + tname(extra) + ")")
	r := s.Check()
	for _, m := range s.mirrors {
		t0 := time.Now()
		r2 := s.checkOn(m)
		s.SolverNs += int64(time.Since(t0))
		s.XChecks++
		if r2 != r && r2 != "unknown" && r != "unknown" {
			s.XDisagree = append(s.XDisagree, fmt.Sprintf("%s: primary=%s %s=%s", what, r, m.name, r2))
		}
	}
	s.sendAll("(pop 1)")
	return r
}

// Model returns values of the given terms after a sat Check() on the primary, under extra.
// It re-checks (push/assert/check/get-value/pop). ok=false if not sat.
func (s *Solver) Model(extra *Term, terms []*Term) (map[*Term]uint64, map[*Term][]byte, bool) {
	a, b, ok, _ := s.ModelR(extra, terms)
	return a, b, ok
}

// ModelR is Model that also returns the check-sat verdict.
func (s *Solver) ModelR(extra *Term, terms []*Term) (map[*Term]uint64, map[*Term][]byte, bool, string) {
	if extra.IsFalse() {
		return nil, nil, false, "unsat"
	}
	s.define(extra)
	for _, t := range terms {
		s.define(t)
	}
	s.prim.send("(push 1)")
	for _, m := range s.mirrors {
		m.send("(push 1)")
	}
	s.sendAll("(assert " + tname(extra) + ")")
	r := s.Check()
	defer s.sendAll("(pop 1)")
	if r != "sat" {
		return nil, nil, false, r
	}
	vals := map[*Term]uint64{}
	bigs := map[*Term][]byte{}
	const chunk = 200
	for i := 0; i < len(terms); i += chunk {
		j := i + chunk
		if j > len(terms) {
			j = len(terms)
		}
		var sb strings.Builder
		sb.WriteString("(get-value (")
		n := 0
		for _, t := range terms[i:j] {
			if t.IsConst() {
				continue
			}
			sb.WriteString(tname(t))
			sb.WriteByte(' ')
			n++
		}
		sb.WriteString("))")
		if n == 0 {
			continue
		}
		s.prim.send(sb.String())
		tg := time.Now()
		resp := s.prim.readSexp()
		s.SolverNs += int64(time.Since(tg))
		s.GetValueNs += int64(time.Since(tg))
		if strings.HasPrefix(resp, "(error") {
			s.Errors = append(s.Errors, "get-value: "+resp)
			return nil, nil, false, "unknown"
		}
		parsed := parseGetValue(resp)
		k := 0
		for _, t := range terms[i:j] {
			if t.IsConst() {
				continue
			}
			if k < len(parsed) {
				v, big := parseSmtValue(parsed[k])
				vals[t] = v
				if big != nil {
					bigs[t] = big
				}
			}
			k++
		}
	}
	for _, t := range terms {
		if t.IsConst() {
			if t.Op == "true" {
				vals[t] = 1
			} else {
				vals[t] = t.C
			}
		}
	}
	return vals, bigs, true, "sat"
}

// parseGetValue splits "((a v) (b v))" into the value strings.
func parseGetValue(s string) []string {
	var out []string
	// strip outer parens
	s = strings.TrimSpace(s)
	if len(s) < 2 {
		return nil
	}
	s = s[1 : len(s)-1]
	i := 0
	for i < len(s) {
		if s[i] != '(' {
			i++
			continue
		}
		// find matching paren
		depth := 0
		j := i
		inBar := false
		for ; j < len(s); j++ {
			if s[j] == '|' {
				inBar = !inBar
			}
			if inBar {
				continue
			}
			if s[j] == '(' {
				depth++
			} else if s[j] == ')' {
				depth--
				if depth == 0 {
					break
				}
			}
		}
		pair := s[i+1 : j]
		// name is first token (maybe |..|), value is the rest
		pair = strings.TrimSpace(pair)
		var rest string
		if strings.HasPrefix(pair, "|") {
			k := strings.Index(pair[1:], "|")
			rest = pair[k+2:]
		} else {
			k := strings.IndexAny(pair, " \t\n")
			if k < 0 {
				rest = ""
			} else {
				rest = pair[k:]
			}
		}
		out = append(out, strings.TrimSpace(rest))
		i = j + 1
	}
	return out
}

func parseSmtValue(v string) (uint64, []byte) {
	switch {
	case v == "true":
		return 1, nil
	case v == "false":
		return 0, nil
	case strings.HasPrefix(v, "#x"):
		h := v[2:]
		if len(h) > 16 {
			if len(h)%2 == 1 {
				h = "0" + h
			}
			b := make([]byte, len(h)/2)
			for i := range b {
				fmt.Sscanf(h[2*i:2*i+2], "%02x", &b[i])
			}
			return 0, b
		}
		var x uint64
		fmt.Sscanf(h, "%x", &x)
		return x, nil
	case strings.HasPrefix(v, "#b"):
		var x uint64
		for _, c := range v[2:] {
			x = x<<1 | uint64(c-'0')
		}
		return x, nil
	case strings.HasPrefix(v, "(_ bv"):
		var x uint64
		var w int
		fmt.Sscanf(v, "(_ bv%d %d)", &x, &w)
		return x, nil
	}
	return 0, nil
}
