package main

import (
	"crypto/sha1"

	"golang.org/x/tools/go/ssa"
)

// github.com/google/uuid.NewSHA1 (name-based UUIDs): computed for real on concrete arguments; a symbolic name
// makes the path unsupported (no harness needs it). The stdlib sha1 block function is assembly and the
// boring-crypto marker has no body, so the Go body cannot be interpreted.
func init() {
	intrinsics["github.com/google/uuid.NewSHA1"] = func(m *Machine, fn *ssa.Function, a []Value) Value {
		space, ok := a[0].(*ArrayVal)
		if !ok || len(space.E) != 16 {
			m.unsupported("uuid.NewSHA1: namespace")
		}
		sb := make([]byte, 16)
		for i, e := range space.E {
			t, ok := e.(*Term)
			if !ok || !t.IsConst() {
				m.unsupported("uuid.NewSHA1 with a symbolic namespace")
			}
			sb[i] = byte(t.C)
		}
		data, ok := m.sliceConcreteBytes(a[1].(SliceVal))
		if !ok {
			// symbolic name: the first 16 bytes of the (uninterpreted, collision-free) hash of the name — equal
			// names give equal UUIDs, which is all a harness can rely on; version bits are not modelled
			hv := m.hashBytes(a[1].(SliceVal))
			av := &ArrayVal{E: make([]Value, 16)}
			for i := 0; i < 16; i++ {
				av.E[i] = hv.Cells[i].V
			}
			return av
		}
		h := sha1.New()
		h.Write(sb)
		h.Write(data)
		s := h.Sum(nil)
		s[6] = (s[6] & 0x0f) | 0x50
		s[8] = (s[8] & 0x3f) | 0x80
		av := &ArrayVal{E: make([]Value, 16)}
		for i := 0; i < 16; i++ {
			av.E[i] = m.tt.Const(uint64(s[i]), 8)
		}
		return av
	}
	intrinsics["crypto/internal/boring/sig.StandardCrypto"] = func(m *Machine, fn *ssa.Function, a []Value) Value { return nil }
	intrinsics["crypto/internal/boring/sig.BoringCrypto"] = func(m *Machine, fn *ssa.Function, a []Value) Value { return nil }
}
