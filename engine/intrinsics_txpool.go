package main

import (
	"golang.org/x/tools/go/ssa"
)

// Intrinsics needed by the C14/C15 harnesses (transaction pool, generator).
//
// time.Now: wall-clock reads are modelled as a symbolic, non-decreasing clock without monotonic
// reading: Time{wall: 0, ext: seconds since year 1, loc: nil (UTC)}. The first read is
// 2000-01-01T00:00:00Z + a fresh 32-bit number of seconds, each later read adds a fresh 16-bit
// number of seconds (so no assumption has to be sent to the solver). The fresh variables are named
// "time.Now#k"; the native replay uses the real clock, therefore harnesses must not assert on or
// observe values derived from the clock (TransactionPool.Add only stores it in receivedAt;
// initBlockHeader puts it into the header timestamp).
func init() {
	intrinsics["time.Now"] = func(m *Machine, fn *ssa.Function, a []Value) Value {
		res := m.zero(fn.Signature.Results().At(0).Type())
		sv, ok := res.(*StructVal)
		if !ok || len(sv.F) != 3 {
			m.unsupported("time.Now: unexpected representation of time.Time")
			return nil
		}
		tt := m.tt
		p := m.path
		if p.clock == nil {
			const y2000 = 62135596800 + 946684800 // internal seconds of 2000-01-01T00:00:00Z
			p.clock = tt.Add(tt.Const(y2000, 64), tt.ZExt(m.freshVar("time.Now", 32), 64))
		} else {
			p.clock = tt.Add(p.clock, tt.ZExt(m.freshVar("time.Now", 16), 64))
		}
		sv.F[1] = p.clock
		return sv
	}
}
