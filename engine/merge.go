package main

import (
	"golang.org/x/tools/go/ssa"
)

// Path merging for pure helper functions (DESIGN §2.3 "pure-diamond merging", generalised): the
// callee is explored locally, every local path yields (condition, results), and the call returns
// an ite-chain. Gives up (and falls back to ordinary forking) if the callee writes to memory that
// existed before the call, panics, or needs a non-branch decision.

type localExplore struct {
	prefix []bool
	taken  []bool
	conds  []*Term
	queue  [][]bool
	known  map[*Term]bool
	noQuery bool
}

func (m *Machine) localBranch(c *Term) bool {
	le := m.path.local
	if v, ok := le.known[c]; ok {
		return v
	}
	if c.Op == "not" {
		if v, ok := le.known[c.Args[0]]; ok {
			return !v
		}
	}
	idx := len(le.taken)
	var val bool
	if idx < len(le.prefix) {
		val = le.prefix[idx]
	} else {
		if le.noQuery {
			panic(abortPath{"engine", "merge replay needs a query"})
		}
		pc := m.tt.T
		for _, x := range le.conds {
			pc = m.tt.And(pc, x)
		}
		rT := m.sol.CheckWith(m.tt.And(pc, c))
		rF := "sat"
		if rT != "unsat" {
			rF = m.sol.CheckWith(m.tt.And(pc, m.tt.Not(c)))
		}
		if rT != "unsat" {
			val = true
			if rF != "unsat" {
				alt := append(append([]bool{}, le.taken...), false)
				le.queue = append(le.queue, alt)
			}
		} else {
			val = false
		}
	}
	le.taken = append(le.taken, val)
	if val {
		le.conds = append(le.conds, c)
		le.known[c] = true
	} else {
		le.conds = append(le.conds, m.tt.Not(c))
		le.known[c] = false
	}
	return val
}

func (m *Machine) callMerged(fn *ssa.Function, args []Value, bind []Value) (res Value, ok bool) {
	p := m.path
	if p.local != nil {
		return nil, false
	}
	idx := len(p.taken)
	replay := idx < len(p.prefix)
	var recorded [][]bool
	if replay {
		d := p.prefix[idx]
		if d.Kind != 'm' {
			panic(abortPath{"engine", "replay divergence: expected merge decision"})
		}
		if d.Choice == 0 {
			m.commit(idx, d, nil)
			return nil, false
		}
		recorded = d.Aux
	}
	type outcome struct {
		cond *Term
		val  Value
	}
	var outs []outcome
	var done [][]bool
	le := &localExplore{queue: [][]bool{{}}}
	if replay {
		le.queue = append([][]bool{}, recorded...)
	}
	p.mergeDepth++
	savedEpoch := p.mergeEpoch
	p.mergeEpoch = p.cellSeq
	savedSteps := p.steps
	g := p.cur
	depth := len(g.stack)
	failed := false
	func() {
		defer func() {
			p.local = nil
			p.mergeDepth--
			p.mergeEpoch = savedEpoch
			if r := recover(); r != nil {
				g.stack = g.stack[:depth]
				switch r.(type) {
				case mergeImpure, *goPanicVal:
					p.steps = savedSteps
					failed = true
					return
				}
				panic(r)
			}
		}()
		for len(le.queue) > 0 {
			pre := le.queue[len(le.queue)-1]
			le.queue = le.queue[:len(le.queue)-1]
			le.prefix, le.taken, le.conds = pre, nil, nil
			le.known = map[*Term]bool{}
			le.noQuery = replay
			p.local = le
			v := m.callPlain(fn, args, bind)
			p.local = nil
			c := m.tt.T
			for _, x := range le.conds {
				c = m.tt.And(c, x)
			}
			outs = append(outs, outcome{c, v})
			done = append(done, append([]bool{}, le.taken...))
			if len(outs) > 256 {
				panic(mergeImpure{})
			}
		}
	}()
	var merged Value
	if !failed {
		merged = outs[len(outs)-1].val
		for i := len(outs) - 2; i >= 0; i-- {
			mv, good := m.iteValue(outs[i].cond, outs[i].val, merged)
			if !good {
				failed = true
				break
			}
			merged = mv
		}
	}
	if failed {
		p.steps = savedSteps
		if replay {
			panic(abortPath{"engine", "merge replay failed where the first run succeeded"})
		}
		m.commit(idx, Decision{Kind: 'm', Choice: 0}, nil)
		return nil, false
	}
	if replay {
		m.commit(idx, p.prefix[idx], nil)
	} else {
		// replays run the recorded local paths in the same order (queue is LIFO)
		rev := make([][]bool, len(done))
		for i := range done {
			rev[len(done)-1-i] = done[i]
		}
		m.commit(idx, Decision{Kind: 'm', Choice: 1, Aux: rev}, nil)
	}
	return merged, true
}

func (m *Machine) iteValue(c *Term, a, b Value) (Value, bool) {
	switch x := a.(type) {
	case nil:
		return nil, b == nil
	case *Term:
		y, ok := b.(*Term)
		if !ok || x.W != y.W {
			return nil, false
		}
		return m.tt.Ite(c, x, y), true
	case TupleVal:
		y, ok := b.(TupleVal)
		if !ok || len(x) != len(y) {
			return nil, false
		}
		out := make(TupleVal, len(x))
		for i := range x {
			v, good := m.iteValue(c, x[i], y[i])
			if !good {
				return nil, false
			}
			out[i] = v
		}
		return out, true
	case IfaceVal:
		y, ok := b.(IfaceVal)
		if !ok {
			return nil, false
		}
		if x.T == nil && y.T == nil {
			return x, true
		}
		if x.T != nil && y.T != nil {
			if ox, ok := x.V.(*Opaque); ok {
				if oy, ok := y.V.(*Opaque); ok && ox == oy {
					return x, true
				}
			}
			if px, ok := x.V.(Ptr); ok {
				if py, ok := y.V.(Ptr); ok && px.C == py.C && px.C != nil {
					return x, true
				}
			}
		}
		return nil, false
	case FloatVal:
		y, ok := b.(FloatVal)
		return x, ok && x == y
	}
	return nil, false
}
