package main

import (
	"fmt"
	"go/types"
	"os"
	"strconv"

	"golang.org/x/tools/go/ssa"
)

// Symbolic-mode implementations of the zzT harness runtime (native versions: rt/zz_verif_rt.go.tmpl).

var zzTMethods = map[string]intrinsicFn{}

func (m *Machine) newHarnessT(fn *ssa.Function) Value {
	if len(fn.Params) != 1 {
		m.unsupported("harness must take exactly one *zzT parameter")
	}
	pt := fn.Params[0].Type().(*types.Pointer)
	return Ptr{C: m.newCell(pt.Elem())}
}

func concStr(m *Machine, v Value) string {
	s, ok := v.(StringVal)
	if !ok || s.Sym != nil {
		m.unsupported("harness name argument must be a concrete string")
	}
	return s.S
}

func init() {
	Z := zzTMethods
	mkInt := func(w int) intrinsicFn {
		return func(m *Machine, fn *ssa.Function, a []Value) Value {
			return m.namedVar(concStr(m, a[1]), w)
		}
	}
	Z["U8"] = mkInt(8)
	Z["U16"] = mkInt(16)
	Z["U32"] = mkInt(32)
	Z["U64"] = mkInt(64)
	Z["I32"] = mkInt(32)
	Z["I64"] = mkInt(64)
	Z["Int"] = mkInt(64)
	Z["Bool"] = func(m *Machine, fn *ssa.Function, a []Value) Value {
		// booleans are stored as 1-bit vectors named like the others so that models print uniformly
		v := m.namedVar(concStr(m, a[1]), 1)
		return m.tt.Eq(v, m.tt.Const(1, 1))
	}
	Z["Symbolic"] = func(m *Machine, fn *ssa.Function, a []Value) Value { return m.tt.T }
	Z["Choice"] = func(m *Machine, fn *ssa.Function, a []Value) Value {
		name := concStr(m, a[1])
		n := m.concInt(a[2], "Choice n")
		if n <= 0 {
			m.unsupported("Choice with n <= 0")
		}
		v := m.namedVar(name, 64)
		m.assume(m.tt.Ult(v, m.tt.Const(uint64(n), 64)))
		c := m.concretise(v, "Choice "+name)
		return m.tt.Const(c, 64)
	}
	Z["Range"] = func(m *Machine, fn *ssa.Function, a []Value) Value {
		name := concStr(m, a[1])
		lo := m.concInt(a[2], "Range lo")
		hi := m.concInt(a[3], "Range hi")
		v := m.namedVar(name, 64)
		m.assume(m.tt.And(m.tt.Sle(m.tt.Const(uint64(lo), 64), v), m.tt.Sle(v, m.tt.Const(uint64(hi), 64))))
		c := m.concretise(v, "Range "+name)
		return m.tt.Const(c, 64)
	}
	Z["Bytes"] = func(m *Machine, fn *ssa.Function, a []Value) Value {
		name := concStr(m, a[1])
		n := m.concInt(a[2], "Bytes n")
		ts := make([]*Term, n)
		for i := range ts {
			ts[i] = m.namedVar(fmt.Sprintf("%s[%d]", name, i), 8)
		}
		return m.mkByteTerms(ts)
	}
	Z["Name"] = func(m *Machine, fn *ssa.Function, a []Value) Value {
		return StringVal{S: fmt.Sprintf("%s[%d]", concStr(m, a[1]), m.concInt(a[2], "Name index"))}
	}
	Z["Assume"] = func(m *Machine, fn *ssa.Function, a []Value) Value {
		m.assume(a[1].(*Term))
		return nil
	}
	Z["Assert"] = func(m *Machine, fn *ssa.Function, a []Value) Value {
		m.assertCond(a[1].(*Term), concStr(m, a[2]), "assert")
		return nil
	}
	Z["Fail"] = func(m *Machine, fn *ssa.Function, a []Value) Value {
		m.assertCond(m.tt.F, concStr(m, a[1]), "assert")
		panic(abortPath{"end", "Fail"})
	}
	Z["Reach"] = func(m *Machine, fn *ssa.Function, a []Value) Value {
		m.reach(concStr(m, a[1]))
		return nil
	}
	Z["ObserveU64"] = func(m *Machine, fn *ssa.Function, a []Value) Value {
		m.observe(concStr(m, a[1]), a[2])
		return nil
	}
	Z["ObserveBool"] = func(m *Machine, fn *ssa.Function, a []Value) Value {
		b := a[2].(*Term)
		m.observe(concStr(m, a[1]), m.tt.Ite(b, m.tt.Const(1, 64), m.tt.Const(0, 64)))
		return nil
	}
	Z["ObserveBytes"] = func(m *Machine, fn *ssa.Function, a []Value) Value {
		m.observe(concStr(m, a[1]), a[2])
		return nil
	}
	Z["Param"] = func(m *Machine, fn *ssa.Function, a []Value) Value {
		name := concStr(m, a[1])
		def := m.concInt(a[2], "Param default")
		if v, ok := m.cfg.Opts[name]; ok {
			n, err := strconv.ParseInt(v, 10, 64)
			if err == nil {
				return m.tt.Const(uint64(n), 64)
			}
		}
		return m.tt.Const(uint64(def), 64)
	}
	Z["IteU64"] = func(m *Machine, fn *ssa.Function, a []Value) Value {
		return m.tt.Ite(a[1].(*Term), a[2].(*Term), a[3].(*Term))
	}
	Z["IteU32"] = Z["IteU64"]
	Z["IteInt"] = Z["IteU64"]
	Z["And"] = func(m *Machine, fn *ssa.Function, a []Value) Value { return m.tt.And(a[1].(*Term), a[2].(*Term)) }
	Z["Or"] = func(m *Machine, fn *ssa.Function, a []Value) Value { return m.tt.Or(a[1].(*Term), a[2].(*Term)) }
	Z["Implies"] = func(m *Machine, fn *ssa.Function, a []Value) Value { return m.tt.Implies(a[1].(*Term), a[2].(*Term)) }
	Z["Log"] = func(m *Machine, fn *ssa.Function, a []Value) Value {
		if os.Getenv("GOSYM_DEBUG") != "" {
			fmt.Fprintf(os.Stderr, "[harness log] %s\n", m.describe(a[1]))
		}
		return nil
	}
	// monitor side table: symbolic-only key/value store for paired stubs
	Z["SideSet"] = func(m *Machine, fn *ssa.Function, a []Value) Value {
		m.path.side[concStr(m, a[1])] = a[2]
		return nil
	}
	Z["SideGet"] = func(m *Machine, fn *ssa.Function, a []Value) Value {
		v, ok := m.path.side[concStr(m, a[1])]
		if !ok {
			return IfaceVal{}
		}
		return v
	}
	// concurrency helpers
	Z["Yield"] = func(m *Machine, fn *ssa.Function, a []Value) Value {
		m.yieldPoint("harness yield")
		return nil
	}
	Z["TimerChan"] = func(m *Machine, fn *ssa.Function, a []Value) Value {
		c := m.newChan(1, fn.Signature.Results().At(0).Type().Underlying().(*types.Chan).Elem())
		c.timer = true
		return c
	}
	Z["HashEq"] = func(m *Machine, fn *ssa.Function, a []Value) Value { return m.tt.T }
}

func (m *Machine) observe(name string, v Value) {
	p := m.path
	if _, ok := p.obs[name]; !ok {
		p.obsOrd = append(p.obsOrd, name)
	}
	p.obs[name] = v
}
