package main

import (
	"fmt"
	"go/types"

	"golang.org/x/tools/go/ssa"
)

// Value kinds (see DESIGN.md §2.2):
//   *Term            integer / bool scalar (constant or symbolic)
//   FloatVal         concrete float64 (float32 stored as float64)
//   Ptr              pointer to a cell (C==nil: nil pointer); Sym != nil: symbolic index into Cells
//   SliceVal         slice header over shared []*Cell
//   StringVal        string (concrete, or symbolic bytes of concrete length)
//   *StructVal       struct value (immutable)
//   *ArrayVal        array value (immutable)
//   IfaceVal         interface value (T==nil: nil interface)
//   *MapObj          map (nil: nil map)
//   *Closure         function value (nil: nil func)
//   TupleVal         multiple results
//   *ChanObj         channel
//   *Opaque          opaque value (errors made by fmt.Errorf, formatted strings, foreign objects)
//   *RangeIter       result of ssa.Range
type Value interface{}

type FloatVal float64

type Cell struct {
	V   Value
	Sub []*Cell
	T   types.Type
	ID  int
	// shared marks cells observed by the concurrency race monitor
	Obj interface{} // engine object attached (mutex state etc.)
	Site ssa.Instruction // allocation site (race monitor / shared-access scheduling points)
	acc  *accRec
}

type Ptr struct {
	C *Cell
	// symbolic element pointer: one of Cells[i], i == Idx
	Cells []*Cell
	Idx   *Term
	// pointer to a function/global placeholder
}

func (p Ptr) IsNil() bool { return p.C == nil && p.Cells == nil }

type SliceVal struct {
	Cells  []*Cell // backing store from the slice's offset to its capacity
	Len    int
	NotNil bool
	Elem   types.Type
}

type StringVal struct {
	S   string
	Sym []*Term // if non-nil the string is symbolic, bytes in Sym
}

func (s StringVal) Len() int {
	if s.Sym != nil {
		return len(s.Sym)
	}
	return len(s.S)
}

type StructVal struct{ F []Value }
type ArrayVal struct{ E []Value }

type IfaceVal struct {
	T types.Type // dynamic type; nil => nil interface
	V Value
}

type mapEntry struct {
	K    Value
	C    *Cell
	Dead bool
}

type MapObj struct {
	KT, VT  types.Type
	Entries []*mapEntry
	ID      int
}

type Closure struct {
	Fn   *ssa.Function
	Bind []Value
	Blt  *ssa.Builtin
	// bound method on interface etc. are wrappers synthesised by ssa, so Fn covers them
}

type TupleVal []Value

type Opaque struct {
	ID      int
	Kind    string // "error", "string", "obj"
	Note    string
	Wrapped Value // for errors built with %w
	T       types.Type
}

type RangeIter struct {
	M    *MapObj
	Keys []*mapEntry
	S    StringVal
	I    int
}

func bvWidth(b *types.Basic) int {
	switch b.Kind() {
	case types.Bool, types.UntypedBool:
		return 0
	case types.Int8, types.Uint8:
		return 8
	case types.Int16, types.Uint16:
		return 16
	case types.Int32, types.Uint32, types.UntypedRune:
		return 32
	case types.Int, types.Uint, types.Int64, types.Uint64, types.Uintptr, types.UntypedInt:
		return 64
	}
	return -1
}

func isSigned(t types.Type) bool {
	b, ok := t.Underlying().(*types.Basic)
	if !ok {
		return false
	}
	return b.Info()&types.IsInteger != 0 && b.Info()&types.IsUnsigned == 0
}

func isFloat(t types.Type) bool {
	b, ok := t.Underlying().(*types.Basic)
	return ok && b.Info()&types.IsFloat != 0
}

func isString(t types.Type) bool {
	b, ok := t.Underlying().(*types.Basic)
	return ok && b.Info()&types.IsString != 0
}

func isInteger(t types.Type) bool {
	b, ok := t.Underlying().(*types.Basic)
	return ok && b.Info()&types.IsInteger != 0
}

func isBoolT(t types.Type) bool {
	b, ok := t.Underlying().(*types.Basic)
	return ok && b.Info()&types.IsBoolean != 0
}

func isScalarT(t types.Type) bool {
	b, ok := t.Underlying().(*types.Basic)
	return ok && (b.Info()&(types.IsInteger|types.IsBoolean) != 0)
}

func (m *Machine) zero(t types.Type) Value {
	switch u := t.Underlying().(type) {
	case *types.Basic:
		if u.Kind() == types.UnsafePointer {
			return Ptr{}
		}
		if u.Info()&types.IsString != 0 {
			return StringVal{}
		}
		if u.Info()&types.IsFloat != 0 {
			return FloatVal(0)
		}
		if u.Info()&types.IsBoolean != 0 {
			return m.tt.F
		}
		if u.Kind() == types.UntypedNil || u.Kind() == types.Invalid {
			return nil // blank range key/value components are typed invalid and never read
		}
		w := bvWidth(u)
		if w <= 0 {
			m.unsupported("zero of basic type " + u.String())
		}
		return m.tt.Const(0, w)
	case *types.Pointer:
		return Ptr{}
	case *types.Slice:
		return SliceVal{Elem: u.Elem()}
	case *types.Struct:
		sv := &StructVal{F: make([]Value, u.NumFields())}
		for i := range sv.F {
			sv.F[i] = m.zero(u.Field(i).Type())
		}
		return sv
	case *types.Array:
		av := &ArrayVal{E: make([]Value, u.Len())}
		if u.Len() > 0 {
			z := m.zero(u.Elem())
			for i := range av.E {
				av.E[i] = z // values are immutable so sharing is fine
			}
		}
		return av
	case *types.Interface:
		return IfaceVal{}
	case *types.Map:
		return (*MapObj)(nil)
	case *types.Chan:
		return (*ChanObj)(nil)
	case *types.Signature:
		return (*Closure)(nil)
	case *types.Tuple:
		tv := make(TupleVal, u.Len())
		for i := range tv {
			tv[i] = m.zero(u.At(i).Type())
		}
		return tv
	}
	m.unsupported("zero of type " + t.String())
	return nil
}

func (m *Machine) newCell(t types.Type) *Cell {
	m.path.cellSeq++
	c := &Cell{T: t, ID: m.path.cellSeq}
	switch u := t.Underlying().(type) {
	case *types.Struct:
		c.Sub = make([]*Cell, u.NumFields())
		for i := range c.Sub {
			c.Sub[i] = m.newCell(u.Field(i).Type())
		}
	case *types.Array:
		if u.Len() > 1<<20 {
			m.unsupported("huge array")
		}
		c.Sub = make([]*Cell, u.Len())
		for i := range c.Sub {
			c.Sub[i] = m.newCell(u.Elem())
		}
	default:
		c.V = m.zero(t)
	}
	return c
}

func (m *Machine) load(c *Cell) Value {
	if c.Sub != nil || isComposite(c.T) {
		switch c.T.Underlying().(type) {
		case *types.Struct:
			sv := &StructVal{F: make([]Value, len(c.Sub))}
			for i, s := range c.Sub {
				sv.F[i] = m.load(s)
			}
			return sv
		case *types.Array:
			av := &ArrayVal{E: make([]Value, len(c.Sub))}
			for i, s := range c.Sub {
				av.E[i] = m.load(s)
			}
			return av
		}
	}
	return c.V
}

func isComposite(t types.Type) bool {
	switch t.Underlying().(type) {
	case *types.Struct, *types.Array:
		return true
	}
	return false
}

func (m *Machine) store(c *Cell, v Value) {
	m.noteWrite(c)
	switch c.T.Underlying().(type) {
	case *types.Struct:
		sv, ok := v.(*StructVal)
		if !ok {
			panic(fmt.Sprintf("store struct: got %T into %s", v, c.T))
		}
		for i, s := range c.Sub {
			m.store(s, sv.F[i])
		}
		return
	case *types.Array:
		av, ok := v.(*ArrayVal)
		if !ok {
			panic(fmt.Sprintf("store array: got %T into %s", v, c.T))
		}
		for i, s := range c.Sub {
			m.store(s, av.E[i])
		}
		return
	}
	c.V = v
}

// loadPtr / storePtr handle symbolic element pointers.
func (m *Machine) loadPtr(p Ptr) Value {
	if p.C != nil {
		m.noteRead(p.C)
		return m.load(p.C)
	}
	if p.Cells == nil {
		m.goPanic("runtime error: invalid memory address or nil pointer dereference")
	}
	// ite chain over scalar cells
	var res *Term
	w := p.Idx.W
	for i := len(p.Cells) - 1; i >= 0; i-- {
		v, ok := m.load(p.Cells[i]).(*Term)
		if !ok {
			m.unsupported("symbolic index into non-scalar cells")
		}
		if res == nil {
			res = v
		} else {
			res = m.tt.Ite(m.tt.Eq(p.Idx, m.tt.Const(uint64(i), w)), v, res)
		}
	}
	return res
}

func (m *Machine) storePtr(p Ptr, v Value) {
	if p.C != nil {
		m.store(p.C, v)
		return
	}
	if p.Cells == nil {
		m.goPanic("runtime error: invalid memory address or nil pointer dereference")
	}
	nv, ok := v.(*Term)
	if !ok {
		m.unsupported("symbolic-index store of non-scalar")
	}
	w := p.Idx.W
	for i, c := range p.Cells {
		old := c.V.(*Term)
		m.store(c, m.tt.Ite(m.tt.Eq(p.Idx, m.tt.Const(uint64(i), w)), nv, old))
	}
}

// ---- helpers for constructing values ----

func (m *Machine) mkBytes(b []byte) SliceVal {
	cells := make([]*Cell, len(b))
	bt := types.Typ[types.Uint8]
	for i, x := range b {
		m.path.cellSeq++
		cells[i] = &Cell{T: bt, ID: m.path.cellSeq, V: m.tt.Const(uint64(x), 8)}
	}
	return SliceVal{Cells: cells, Len: len(b), NotNil: true, Elem: bt}
}

func (m *Machine) mkByteTerms(ts []*Term) SliceVal {
	cells := make([]*Cell, len(ts))
	bt := types.Typ[types.Uint8]
	for i, x := range ts {
		m.path.cellSeq++
		cells[i] = &Cell{T: bt, ID: m.path.cellSeq, V: x}
	}
	return SliceVal{Cells: cells, Len: len(ts), NotNil: true, Elem: bt}
}

func (m *Machine) sliceTerms(s SliceVal) []*Term {
	out := make([]*Term, s.Len)
	for i := 0; i < s.Len; i++ {
		t, ok := s.Cells[i].V.(*Term)
		if !ok {
			m.unsupported("slice element is not a scalar")
		}
		out[i] = t
	}
	return out
}

// concrete bytes of a slice; ok=false if any symbolic
func (m *Machine) sliceConcreteBytes(s SliceVal) ([]byte, bool) {
	out := make([]byte, s.Len)
	for i := 0; i < s.Len; i++ {
		t, ok := s.Cells[i].V.(*Term)
		if !ok || !t.IsConst() {
			return nil, false
		}
		out[i] = byte(t.C)
	}
	return out, true
}

func (m *Machine) stringTerms(s StringVal) []*Term {
	if s.Sym != nil {
		return s.Sym
	}
	out := make([]*Term, len(s.S))
	for i := 0; i < len(s.S); i++ {
		out[i] = m.tt.Const(uint64(s.S[i]), 8)
	}
	return out
}

func (m *Machine) mkString(ts []*Term) StringVal {
	conc := true
	for _, t := range ts {
		if !t.IsConst() {
			conc = false
			break
		}
	}
	if conc {
		b := make([]byte, len(ts))
		for i, t := range ts {
			b[i] = byte(t.C)
		}
		return StringVal{S: string(b)}
	}
	if len(ts) == 0 {
		return StringVal{}
	}
	return StringVal{Sym: append([]*Term{}, ts...)}
}

// valuesEqual returns a Bool term for Go's == on two values of (static) type t.
func (m *Machine) valuesEqual(a, b Value, t types.Type) *Term {
	tt := m.tt
	switch x := a.(type) {
	case nil:
		// untyped nil vs something
		return m.isNilValue(b)
	case *Term:
		y, ok := b.(*Term)
		if !ok {
			panic(fmt.Sprintf("eq: term vs %T", b))
		}
		return tt.Eq(x, y)
	case FloatVal:
		return tt.Bool(x == b.(FloatVal))
	case StringVal:
		y := b.(StringVal)
		if x.Sym == nil && y.Sym == nil {
			return tt.Bool(x.S == y.S)
		}
		if x.Len() != y.Len() {
			return tt.F
		}
		return m.bytesEq(m.stringTerms(x), m.stringTerms(y))
	case Ptr:
		if b == nil {
			return tt.Bool(x.IsNil())
		}
		y := b.(Ptr)
		if x.Cells != nil || y.Cells != nil {
			m.unsupported("compare symbolic element pointers")
		}
		return tt.Bool(x.C == y.C)
	case *StructVal:
		y := b.(*StructVal)
		r := tt.T
		st := t.Underlying().(*types.Struct)
		for i := range x.F {
			r = tt.And(r, m.valuesEqual(x.F[i], y.F[i], st.Field(i).Type()))
		}
		return r
	case *ArrayVal:
		y := b.(*ArrayVal)
		r := tt.T
		et := t.Underlying().(*types.Array).Elem()
		for i := range x.E {
			r = tt.And(r, m.valuesEqual(x.E[i], y.E[i], et))
		}
		return r
	case IfaceVal:
		y, ok := b.(IfaceVal)
		if !ok {
			if b == nil {
				return tt.Bool(x.T == nil)
			}
			panic(fmt.Sprintf("eq: iface vs %T", b))
		}
		if x.T == nil || y.T == nil {
			return tt.Bool(x.T == nil && y.T == nil)
		}
		if !types.Identical(x.T, y.T) {
			return tt.F
		}
		if ox, ok := x.V.(*Opaque); ok {
			oy, ok2 := y.V.(*Opaque)
			return tt.Bool(ok2 && ox == oy)
		}
		if _, ok := y.V.(*Opaque); ok {
			return tt.F
		}
		return m.valuesEqual(x.V, y.V, x.T)
	case SliceVal:
		// only comparison with nil is legal
		return tt.Bool(!x.NotNil && x.Cells == nil)
	case *MapObj:
		if y, ok := b.(*MapObj); ok {
			return tt.Bool(x == y)
		}
		return tt.Bool(x == nil)
	case *Closure:
		if y, ok := b.(*Closure); ok {
			return tt.Bool(x == y)
		}
		return tt.Bool(x == nil)
	case *ChanObj:
		if y, ok := b.(*ChanObj); ok {
			return tt.Bool(x == y)
		}
		return tt.Bool(x == nil)
	case *Opaque:
		y, ok := b.(*Opaque)
		return tt.Bool(ok && x == y)
	}
	m.unsupported(fmt.Sprintf("valuesEqual on %T", a))
	return nil
}

func (m *Machine) isNilValue(v Value) *Term {
	tt := m.tt
	switch x := v.(type) {
	case nil:
		return tt.T
	case Ptr:
		return tt.Bool(x.IsNil())
	case SliceVal:
		return tt.Bool(!x.NotNil && x.Cells == nil)
	case IfaceVal:
		return tt.Bool(x.T == nil)
	case *MapObj:
		return tt.Bool(x == nil)
	case *Closure:
		return tt.Bool(x == nil)
	case *ChanObj:
		return tt.Bool(x == nil)
	}
	return tt.F
}

// fully concrete scalar?
func termConst(v Value) (uint64, bool) {
	t, ok := v.(*Term)
	if !ok {
		return 0, false
	}
	if t.Op == "const" && t.Big == nil {
		return t.C, true
	}
	if t.Op == "true" {
		return 1, true
	}
	if t.Op == "false" {
		return 0, true
	}
	return 0, false
}
