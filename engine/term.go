package main

import (
	"fmt"
	"math/bits"
	"strings"
)

// Term is an SMT term of sort Bool (W==0) or (_ BitVec W). Terms are interned per TermTable
// (one table per worker) so structural equality is pointer equality.
type Term struct {
	ID    int
	Op    string // "const", "var", "true","false", SMT op name, "uf:<name>", "extract:<hi>:<lo>", "zext:<n>", "sext:<n>"
	W     int    // 0 = Bool
	Args  []*Term
	C     uint64 // const value (W<=64)
	Name  string // var name / uf name
	Big   []byte // big-endian bytes for constants wider than 64 bits
	depth int
}

func (t *Term) IsConst() bool { return t.Op == "const" || t.Op == "true" || t.Op == "false" }
func (t *Term) IsBool() bool  { return t.W == 0 }
func (t *Term) IsTrue() bool  { return t.Op == "true" }
func (t *Term) IsFalse() bool { return t.Op == "false" }

type TermTable struct {
	tab   map[string]*Term
	terms []*Term
	T, F  *Term
	ufs   map[string]string // uf name -> declaration
	ufOrd []string
}

func NewTermTable() *TermTable {
	tt := &TermTable{tab: map[string]*Term{}, ufs: map[string]string{}}
	tt.T = tt.intern(&Term{Op: "true"})
	tt.F = tt.intern(&Term{Op: "false"})
	return tt
}

func (tt *TermTable) intern(t *Term) *Term {
	var sb strings.Builder
	sb.WriteString(t.Op)
	sb.WriteByte('|')
	fmt.Fprintf(&sb, "%d|%d|%s|%x", t.W, t.C, t.Name, t.Big)
	for _, a := range t.Args {
		fmt.Fprintf(&sb, "|%d", a.ID)
	}
	k := sb.String()
	if e, ok := tt.tab[k]; ok {
		return e
	}
	t.ID = len(tt.terms)
	d := 0
	for _, a := range t.Args {
		if a.depth > d {
			d = a.depth
		}
	}
	t.depth = d + 1
	tt.terms = append(tt.terms, t)
	tt.tab[k] = t
	return t
}

func mask(w int) uint64 {
	if w >= 64 {
		return ^uint64(0)
	}
	return (uint64(1) << uint(w)) - 1
}

func (tt *TermTable) Const(v uint64, w int) *Term {
	if w <= 0 || w > 64 {
		panic(fmt.Sprintf("Const width %d", w))
	}
	return tt.intern(&Term{Op: "const", W: w, C: v & mask(w)})
}

func (tt *TermTable) BigConst(b []byte) *Term {
	if len(b) <= 8 {
		var v uint64
		for _, x := range b {
			v = v<<8 | uint64(x)
		}
		return tt.Const(v, len(b)*8)
	}
	return tt.intern(&Term{Op: "const", W: len(b) * 8, Big: append([]byte{}, b...)})
}

func (tt *TermTable) Bool(b bool) *Term {
	if b {
		return tt.T
	}
	return tt.F
}

func (tt *TermTable) Var(name string, w int) *Term {
	return tt.intern(&Term{Op: "var", W: w, Name: name})
}

func sext(v uint64, w int) int64 {
	if w >= 64 {
		return int64(v)
	}
	sh := uint(64 - w)
	return int64(v<<sh) >> sh
}

// ---- boolean ops ----

func (tt *TermTable) Not(a *Term) *Term {
	if a.IsTrue() {
		return tt.F
	}
	if a.IsFalse() {
		return tt.T
	}
	if a.Op == "not" {
		return a.Args[0]
	}
	return tt.intern(&Term{Op: "not", Args: []*Term{a}})
}

func (tt *TermTable) And(a, b *Term) *Term {
	if a.IsFalse() || b.IsFalse() {
		return tt.F
	}
	if a.IsTrue() {
		return b
	}
	if b.IsTrue() {
		return a
	}
	if a == b {
		return a
	}
	return tt.intern(&Term{Op: "and", Args: []*Term{a, b}})
}

func (tt *TermTable) Or(a, b *Term) *Term {
	if a.IsTrue() || b.IsTrue() {
		return tt.T
	}
	if a.IsFalse() {
		return b
	}
	if b.IsFalse() {
		return a
	}
	if a == b {
		return a
	}
	return tt.intern(&Term{Op: "or", Args: []*Term{a, b}})
}

func (tt *TermTable) Implies(a, b *Term) *Term { return tt.Or(tt.Not(a), b) }

func (tt *TermTable) Ite(c, a, b *Term) *Term {
	if c.IsTrue() {
		return a
	}
	if c.IsFalse() {
		return b
	}
	if a == b {
		return a
	}
	if a.W == 0 {
		if a.IsTrue() && b.IsFalse() {
			return c
		}
		if a.IsFalse() && b.IsTrue() {
			return tt.Not(c)
		}
	}
	if a.W != b.W {
		panic(fmt.Sprintf("ite width mismatch %d %d", a.W, b.W))
	}
	return tt.intern(&Term{Op: "ite", W: a.W, Args: []*Term{c, a, b}})
}

func (tt *TermTable) Eq(a, b *Term) *Term {
	if a == b {
		return tt.T
	}
	if a.W != b.W {
		panic(fmt.Sprintf("eq width mismatch %d %d (%s, %s)", a.W, b.W, a.Op, b.Op))
	}
	if a.IsConst() && b.IsConst() {
		if a.W == 0 {
			return tt.Bool(a.IsTrue() == b.IsTrue())
		}
		if a.Big != nil || b.Big != nil {
			return tt.Bool(string(a.Big) == string(b.Big) && a.C == b.C)
		}
		return tt.Bool(a.C == b.C)
	}
	if a.W == 0 {
		if a.IsTrue() {
			return b
		}
		if b.IsTrue() {
			return a
		}
		if a.IsFalse() {
			return tt.Not(b)
		}
		if b.IsFalse() {
			return tt.Not(a)
		}
	}
	// ite(c, k1, k2) == k  folding
	if b.IsConst() && a.Op == "ite" && a.Args[1].IsConst() && a.Args[2].IsConst() && a.W <= 64 {
		e1 := a.Args[1].C == b.C
		e2 := a.Args[2].C == b.C
		switch {
		case e1 && e2:
			return tt.T
		case e1:
			return a.Args[0]
		case e2:
			return tt.Not(a.Args[0])
		default:
			return tt.F
		}
	}
	if a.IsConst() && !b.IsConst() {
		a, b = b, a
	}
	// (x + c1) == (x + c2), (x + c) == x, (x + c1) == c2
	if a.W <= 64 && a.W > 0 {
		ab, ac := splitAddConst(a)
		bb, bc := splitAddConst(b)
		if ab != nil && ab == bb {
			return tt.Bool(ac == bc)
		}
		if ab != nil && ab != a && b.IsConst() && b.Big == nil {
			return tt.Eq(ab, tt.Const(b.C-ac, a.W))
		}
	}
	if a.ID > b.ID && !b.IsConst() {
		a, b = b, a
	}
	return tt.intern(&Term{Op: "=", Args: []*Term{a, b}})
}

// splitAddConst views t as base + c (c = 0 when t is not an addition of a constant).
func splitAddConst(t *Term) (*Term, uint64) {
	if t.IsConst() {
		return nil, 0
	}
	if t.Op == "bvadd" && t.Args[1].IsConst() && t.Args[1].Big == nil {
		return t.Args[0], t.Args[1].C
	}
	return t, 0
}

// ---- bit-vector ops ----

func (tt *TermTable) bin(op string, a, b *Term) *Term {
	if a.W != b.W {
		panic(fmt.Sprintf("%s width mismatch %d %d", op, a.W, b.W))
	}
	w := a.W
	if a.IsConst() && b.IsConst() && w <= 64 {
		x, y := a.C, b.C
		m := mask(w)
		switch op {
		case "bvadd":
			return tt.Const(x+y, w)
		case "bvsub":
			return tt.Const(x-y, w)
		case "bvmul":
			return tt.Const(x*y, w)
		case "bvand":
			return tt.Const(x&y, w)
		case "bvor":
			return tt.Const(x|y, w)
		case "bvxor":
			return tt.Const(x^y, w)
		case "bvudiv":
			if y == 0 {
				return tt.Const(m, w)
			}
			return tt.Const(x/y, w)
		case "bvurem":
			if y == 0 {
				return tt.Const(x, w)
			}
			return tt.Const(x%y, w)
		case "bvsdiv":
			sx, sy := sext(x, w), sext(y, w)
			if sy == 0 {
				if sx >= 0 {
					return tt.Const(m, w)
				}
				return tt.Const(1, w)
			}
			if sy == -1 {
				return tt.Const(uint64(-sx), w)
			}
			return tt.Const(uint64(sx/sy), w)
		case "bvsrem":
			sx, sy := sext(x, w), sext(y, w)
			if sy == 0 {
				return tt.Const(x, w)
			}
			if sy == -1 {
				return tt.Const(0, w)
			}
			return tt.Const(uint64(sx%sy), w)
		case "bvshl":
			if y >= uint64(w) {
				return tt.Const(0, w)
			}
			return tt.Const(x<<y, w)
		case "bvlshr":
			if y >= uint64(w) {
				return tt.Const(0, w)
			}
			return tt.Const(x>>y, w)
		case "bvashr":
			sx := sext(x, w)
			if y >= uint64(w) {
				y = uint64(w - 1)
			}
			return tt.Const(uint64(sx>>y), w)
		}
	}
	// identities
	if w <= 64 {
		switch op {
		case "bvadd", "bvor", "bvxor":
			if a.IsConst() && a.C == 0 {
				return b
			}
			if b.IsConst() && b.C == 0 {
				return a
			}
		case "bvsub", "bvshl", "bvlshr", "bvashr":
			if b.IsConst() && b.C == 0 {
				return a
			}
		case "bvand":
			if (a.IsConst() && a.C == 0) || (b.IsConst() && b.C == 0) {
				return tt.Const(0, w)
			}
			if a.IsConst() && a.C == mask(w) {
				return b
			}
			if b.IsConst() && b.C == mask(w) {
				return a
			}
		case "bvmul":
			if (a.IsConst() && a.C == 0) || (b.IsConst() && b.C == 0) {
				return tt.Const(0, w)
			}
			if a.IsConst() && a.C == 1 {
				return b
			}
			if b.IsConst() && b.C == 1 {
				return a
			}
		case "bvudiv", "bvsdiv":
			if b.IsConst() && b.C == 1 {
				return a
			}
		}
		if op == "bvadd" || op == "bvmul" || op == "bvand" || op == "bvor" || op == "bvxor" {
			if a.IsConst() { // constants to the right
				a, b = b, a
			}
			// (x + c1) + c2
			if op == "bvadd" && b.IsConst() && a.Op == "bvadd" && a.Args[1].IsConst() {
				return tt.bin("bvadd", a.Args[0], tt.Const(a.Args[1].C+b.C, w))
			}
		}
		if op == "bvsub" && b.IsConst() {
			return tt.bin("bvadd", a, tt.Const(-b.C, w))
		}
		if op == "bvsub" && a == b {
			return tt.Const(0, w)
		}
		if op == "bvxor" && a == b {
			return tt.Const(0, w)
		}
		if (op == "bvand" || op == "bvor") && a == b {
			return a
		}
	}
	return tt.intern(&Term{Op: op, W: w, Args: []*Term{a, b}})
}

func (tt *TermTable) Add(a, b *Term) *Term  { return tt.bin("bvadd", a, b) }
func (tt *TermTable) Sub(a, b *Term) *Term  { return tt.bin("bvsub", a, b) }
func (tt *TermTable) Mul(a, b *Term) *Term  { return tt.bin("bvmul", a, b) }
func (tt *TermTable) BvAnd(a, b *Term) *Term { return tt.bin("bvand", a, b) }
func (tt *TermTable) BvOr(a, b *Term) *Term  { return tt.bin("bvor", a, b) }
func (tt *TermTable) BvXor(a, b *Term) *Term { return tt.bin("bvxor", a, b) }
func (tt *TermTable) Udiv(a, b *Term) *Term { return tt.bin("bvudiv", a, b) }
func (tt *TermTable) Urem(a, b *Term) *Term { return tt.bin("bvurem", a, b) }
func (tt *TermTable) Sdiv(a, b *Term) *Term { return tt.bin("bvsdiv", a, b) }
func (tt *TermTable) Srem(a, b *Term) *Term { return tt.bin("bvsrem", a, b) }
func (tt *TermTable) Shl(a, b *Term) *Term  { return tt.bin("bvshl", a, b) }
func (tt *TermTable) Lshr(a, b *Term) *Term { return tt.bin("bvlshr", a, b) }
func (tt *TermTable) Ashr(a, b *Term) *Term { return tt.bin("bvashr", a, b) }

func (tt *TermTable) BvNot(a *Term) *Term {
	if a.IsConst() && a.W <= 64 {
		return tt.Const(^a.C, a.W)
	}
	return tt.intern(&Term{Op: "bvnot", W: a.W, Args: []*Term{a}})
}

func (tt *TermTable) Neg(a *Term) *Term {
	if a.IsConst() && a.W <= 64 {
		return tt.Const(-a.C, a.W)
	}
	return tt.intern(&Term{Op: "bvneg", W: a.W, Args: []*Term{a}})
}

func (tt *TermTable) cmp(op string, a, b *Term) *Term {
	if a.W != b.W {
		panic(fmt.Sprintf("%s width mismatch %d %d", op, a.W, b.W))
	}
	w := a.W
	if a.IsConst() && b.IsConst() && w <= 64 {
		switch op {
		case "bvult":
			return tt.Bool(a.C < b.C)
		case "bvule":
			return tt.Bool(a.C <= b.C)
		case "bvslt":
			return tt.Bool(sext(a.C, w) < sext(b.C, w))
		case "bvsle":
			return tt.Bool(sext(a.C, w) <= sext(b.C, w))
		}
	}
	if a == b {
		return tt.Bool(op == "bvule" || op == "bvsle")
	}
	if w <= 64 {
		if op == "bvult" && b.IsConst() && b.C == 0 {
			return tt.F
		}
		if op == "bvule" && a.IsConst() && a.C == 0 {
			return tt.T
		}
		if op == "bvule" && b.IsConst() && b.C == mask(w) {
			return tt.T
		}
		// zext(x) <u const beyond range
		if (op == "bvult" || op == "bvule") && b.IsConst() && strings.HasPrefix(a.Op, "zext:") {
			iw := a.Args[0].W
			if iw < 64 && b.C > mask(iw) {
				return tt.T
			}
		}
		if (op == "bvslt" || op == "bvsle") && b.IsConst() && strings.HasPrefix(a.Op, "zext:") {
			iw := a.Args[0].W
			sb := sext(b.C, w)
			if iw < 63 && sb > int64(mask(iw)) {
				return tt.T
			}
			if sb < 0 {
				return tt.F
			}
		}
		if (op == "bvslt" || op == "bvsle") && a.IsConst() && strings.HasPrefix(b.Op, "zext:") {
			iw := b.Args[0].W
			sa := sext(a.C, w)
			if sa < 0 {
				return tt.T
			}
			if iw < 63 && sa > int64(mask(iw)) {
				return tt.F
			}
		}
	}
	return tt.intern(&Term{Op: op, Args: []*Term{a, b}})
}

func (tt *TermTable) Ult(a, b *Term) *Term { return tt.cmp("bvult", a, b) }
func (tt *TermTable) Ule(a, b *Term) *Term { return tt.cmp("bvule", a, b) }
func (tt *TermTable) Slt(a, b *Term) *Term { return tt.cmp("bvslt", a, b) }
func (tt *TermTable) Sle(a, b *Term) *Term { return tt.cmp("bvsle", a, b) }

func (tt *TermTable) Extract(a *Term, hi, lo int) *Term {
	if lo == 0 && hi == a.W-1 {
		return a
	}
	if hi < lo || hi >= a.W {
		panic("bad extract")
	}
	w := hi - lo + 1
	if a.IsConst() {
		if a.Big != nil {
			// big-endian bytes; bit 0 is LSB of last byte
			out := make([]byte, (w+7)/8)
			// generic bit copy
			n := len(a.Big) * 8
			_ = n
			var v uint64
			if w <= 64 {
				for i := w - 1; i >= 0; i-- {
					bit := lo + i
					by := a.Big[len(a.Big)-1-bit/8]
					v = v<<1 | uint64((by>>(uint(bit)%8))&1)
				}
				return tt.Const(v, w)
			}
			if lo%8 == 0 && w%8 == 0 {
				end := len(a.Big) - lo/8
				copy(out, a.Big[end-w/8:end])
				return tt.BigConst(out)
			}
		} else {
			return tt.Const(a.C>>uint(lo), w)
		}
	}
	if strings.HasPrefix(a.Op, "extract:") {
		var h2, l2 int
		fmt.Sscanf(a.Op, "extract:%d:%d", &h2, &l2)
		return tt.Extract(a.Args[0], hi+l2, lo+l2)
	}
	if strings.HasPrefix(a.Op, "zext:") || strings.HasPrefix(a.Op, "sext:") {
		iw := a.Args[0].W
		if hi < iw {
			return tt.Extract(a.Args[0], hi, lo)
		}
		if lo >= iw && strings.HasPrefix(a.Op, "zext:") {
			return tt.Const(0, w)
		}
	}
	if a.Op == "concat" {
		// args most-significant first
		pos := a.W
		for _, p := range a.Args {
			plo := pos - p.W
			if lo >= plo && hi < pos {
				return tt.Extract(p, hi-plo, lo-plo)
			}
			pos = plo
		}
	}
	return tt.intern(&Term{Op: fmt.Sprintf("extract:%d:%d", hi, lo), W: w, Args: []*Term{a}})
}

func (tt *TermTable) ZExt(a *Term, w int) *Term {
	if w == a.W {
		return a
	}
	if w < a.W {
		return tt.Extract(a, w-1, 0)
	}
	if a.IsConst() && w <= 64 {
		return tt.Const(a.C, w)
	}
	if strings.HasPrefix(a.Op, "zext:") {
		return tt.ZExt(a.Args[0], w)
	}
	return tt.intern(&Term{Op: fmt.Sprintf("zext:%d", w-a.W), W: w, Args: []*Term{a}})
}

func (tt *TermTable) SExt(a *Term, w int) *Term {
	if w == a.W {
		return a
	}
	if w < a.W {
		return tt.Extract(a, w-1, 0)
	}
	if a.IsConst() && w <= 64 {
		return tt.Const(uint64(sext(a.C, a.W)), w)
	}
	if strings.HasPrefix(a.Op, "zext:") { // sign bit is 0
		return tt.ZExt(a.Args[0], w)
	}
	return tt.intern(&Term{Op: fmt.Sprintf("sext:%d", w-a.W), W: w, Args: []*Term{a}})
}

// Concat: args most-significant first.
func (tt *TermTable) Concat(args ...*Term) *Term {
	if len(args) == 1 {
		return args[0]
	}
	w := 0
	allc := true
	for _, a := range args {
		w += a.W
		if !a.IsConst() || a.W%8 != 0 {
			allc = false
		}
	}
	if allc {
		var bs []byte
		for _, a := range args {
			if a.Big != nil {
				bs = append(bs, a.Big...)
			} else {
				for i := a.W/8 - 1; i >= 0; i-- {
					bs = append(bs, byte(a.C>>(8*uint(i))))
				}
			}
		}
		return tt.BigConst(bs)
	}
	return tt.intern(&Term{Op: "concat", W: w, Args: append([]*Term{}, args...)})
}

// UF application. sig is the SMT declaration "(declare-fun name (sorts) sort)".
func (tt *TermTable) UF(name string, retW int, args ...*Term) *Term {
	if _, ok := tt.ufs[name]; !ok {
		var sb strings.Builder
		fmt.Fprintf(&sb, "(declare-fun %s (", name)
		for i, a := range args {
			if i > 0 {
				sb.WriteByte(' ')
			}
			sb.WriteString(sortStr(a.W))
		}
		fmt.Fprintf(&sb, ") %s)", sortStr(retW))
		tt.ufs[name] = sb.String()
		tt.ufOrd = append(tt.ufOrd, name)
	}
	return tt.intern(&Term{Op: "uf", W: retW, Name: name, Args: append([]*Term{}, args...)})
}

func sortStr(w int) string {
	if w == 0 {
		return "Bool"
	}
	return fmt.Sprintf("(_ BitVec %d)", w)
}

func constStr(t *Term) string {
	if t.Big != nil {
		var sb strings.Builder
		sb.WriteString("#x")
		for _, b := range t.Big {
			fmt.Fprintf(&sb, "%02x", b)
		}
		return sb.String()
	}
	if t.W%4 == 0 {
		return fmt.Sprintf("#x%0*x", t.W/4, t.C)
	}
	return fmt.Sprintf("#b%0*b", t.W, t.C)
}

// shallow SMT expression for t referring to args by their names
func (t *Term) smtExpr(name func(*Term) string) string {
	switch {
	case t.Op == "const":
		return constStr(t)
	case t.Op == "true", t.Op == "false":
		return t.Op
	case t.Op == "var":
		return "|" + t.Name + "|"
	case t.Op == "uf":
		var sb strings.Builder
		sb.WriteString("(" + t.Name)
		for _, a := range t.Args {
			sb.WriteByte(' ')
			sb.WriteString(name(a))
		}
		sb.WriteByte(')')
		return sb.String()
	case strings.HasPrefix(t.Op, "extract:"):
		var hi, lo int
		fmt.Sscanf(t.Op, "extract:%d:%d", &hi, &lo)
		return fmt.Sprintf("((_ extract %d %d) %s)", hi, lo, name(t.Args[0]))
	case strings.HasPrefix(t.Op, "zext:"):
		return fmt.Sprintf("((_ zero_extend %s) %s)", t.Op[5:], name(t.Args[0]))
	case strings.HasPrefix(t.Op, "sext:"):
		return fmt.Sprintf("((_ sign_extend %s) %s)", t.Op[5:], name(t.Args[0]))
	}
	var sb strings.Builder
	sb.WriteString("(" + t.Op)
	for _, a := range t.Args {
		sb.WriteByte(' ')
		sb.WriteString(name(a))
	}
	sb.WriteByte(')')
	return sb.String()
}

func (t *Term) String() string {
	if t.depth > 6 {
		return fmt.Sprintf("t%d", t.ID)
	}
	return t.smtExpr(func(a *Term) string { return a.String() })
}

func log2ceil(n int) int {
	if n <= 1 {
		return 0
	}
	return bits.Len(uint(n - 1))
}

// evalTerm evaluates a term under an assignment of variables (used by concrete replays of models).
func evalConst(t *Term) (uint64, bool) {
	if t.Op == "const" && t.Big == nil {
		return t.C, true
	}
	if t.Op == "true" {
		return 1, true
	}
	if t.Op == "false" {
		return 0, true
	}
	return 0, false
}
