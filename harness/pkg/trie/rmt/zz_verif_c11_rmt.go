//go:build verif

package rmt

import (
	"bytes"

	"github.com/LiskHQ/lisk-engine/pkg/crypto"
)

// C11 (regular Merkle tree, LIP-0031). The list length n is concrete per path (t.Range), the leaf
// values are symbolic byte strings (pairwise distinct: the tree indexes nodes by hash) and SHA-256 is
// the collision-free uninterpreted function of the engine, so every obligation reads "for all leaf
// values, for each n <= N".

// ---- in-memory model of the Database interface: association list keyed by byte strings ----

type zzDB struct {
	keys, vals [][]byte // newest entry last; a key may occur more than once, the newest wins
}

// Get scans from the newest entry. Keys of equal length are compared by the solver (hash terms).
func (d *zzDB) Get(key []byte) ([]byte, bool) {
	for i := len(d.keys) - 1; i >= 0; i-- {
		if bytes.Equal(d.keys[i], key) {
			return d.vals[i], true
		}
	}
	return nil, false
}

// Set appends (no lookup, hence no solver query); older entries of the same key are shadowed.
func (d *zzDB) Set(key, val []byte) {
	d.keys = append(d.keys, append([]byte{}, key...))
	d.vals = append(d.vals, append([]byte{}, val...))
}

// Del removes every entry of the key.
func (d *zzDB) Del(key []byte) {
	var keys, vals [][]byte
	for i := range d.keys {
		if !bytes.Equal(d.keys[i], key) {
			keys, vals = append(keys, d.keys[i]), append(vals, d.vals[i])
		}
	}
	d.keys, d.vals = keys, vals
}

// ---- reference implementation of LIP-0031 (independent of the package's helpers) ----

func zzRefLeaf(v []byte) []byte { return crypto.Hash(append([]byte{0x00}, v...)) }

func zzRefBranch(l, r []byte) []byte {
	return crypto.Hash(append(append([]byte{0x01}, l...), r...))
}

// zzRefRoot: merkleRoot of LIP-0031 (split at the largest power of two smaller than n).
func zzRefRoot(vals [][]byte) []byte {
	n := len(vals)
	if n == 0 {
		return crypto.Hash([]byte{})
	}
	if n == 1 {
		return zzRefLeaf(vals[0])
	}
	k := 1
	for k*2 < n {
		k *= 2
	}
	return zzRefBranch(zzRefRoot(vals[:k]), zzRefRoot(vals[k:]))
}

// zzRefAppendPath: roots of the complete subtrees of the binary decomposition of n, smallest
// (rightmost) subtree first.
func zzRefAppendPath(vals [][]byte) [][]byte {
	res := [][]byte{}
	end := len(vals)
	for h := uint(0); end > 0; h++ {
		if (len(vals)>>h)&1 == 1 {
			res = append(res, zzRefRoot(vals[end-(1<<h):end]))
			end -= 1 << h
		}
	}
	return res
}

func zzSameList(a, b [][]byte) bool {
	if len(a) != len(b) {
		return false
	}
	for i := range a {
		if !bytes.Equal(a[i], b[i]) {
			return false
		}
	}
	return true
}

// zzLeaves returns n symbolic, pairwise distinct leaf values of W bytes.
func zzLeaves(t *zzT, n int) [][]byte {
	vals := make([][]byte, n)
	for i := range vals {
		vals[i] = t.Bytes(t.Name("leaf", i), t.Param("W", 2))
		for j := 0; j < i; j++ {
			t.Assume(!bytes.Equal(vals[i], vals[j]))
		}
	}
	return vals
}

// zzTree appends vals one by one to an empty tree over a fresh model database.
func zzTree(t *zzT, vals [][]byte) (*RegularMerkleTree, *zzDB) {
	db := &zzDB{}
	tree := NewRegularMerkleTree(db)
	for _, v := range vals {
		err := tree.Append(v)
		t.Assert(err == nil, "Append succeeds")
	}
	return tree, db
}

// C11.a: after each of n appends from the empty tree, root ≡ CalculateRoot(prefix) ≡ reference
// root, Size ≡ number of leaves, AppendPath ≡ reference append path.
//
//zz:opt loop=200 require=end
//zz:quick N=5 W=2
//zz:thorough N=9 W=2
func zzH_C11_append_root(t *zzT) {
	n := t.Range("n", 0, t.Param("N", 5))
	vals := zzLeaves(t, n)
	db := &zzDB{}
	tree := NewRegularMerkleTree(db)
	t.Assert(bytes.Equal(tree.Root(), zzRefRoot(nil)) && tree.Size() == 0 && len(tree.AppendPath()) == 0, "empty tree: empty hash, size 0, empty append path")
	for k := 1; k <= n; k++ {
		err := tree.Append(vals[k-1])
		t.Assert(err == nil, "Append succeeds")
		ref := zzRefRoot(vals[:k])
		t.Assert(bytes.Equal(tree.Root(), ref), "root after k appends equals the LIP-0031 root of the first k leaves")
		t.Assert(tree.Size() == uint64(k), "size counts the appended leaves")
		t.Assert(zzSameList(tree.AppendPath(), zzRefAppendPath(vals[:k])), "append path equals the roots of the complete subtrees, smallest first")
	}
	t.Reach("end")
}

// C11.a (batch): CalculateRoot(list) ≡ reference LIP-0031 root (and therefore, with
// zzH_C11_append_root, ≡ the root after appending one by one). calculateRoot fans out one goroutine
// per half; the goroutines share nothing but their result channels, sched=0 switches only when the
// running goroutine blocks, and the engine still explores every order in which the blocked parents
// and their children can be resumed (no partial-order reduction), which bounds N here: n <= 4 is 1914
// paths, n = 5 alone is more than 346000 (not exhausted in 20 minutes).
//
//zz:opt loop=40 require=end sched=0
//zz:quick N=4 W=2
//zz:thorough N=6 W=2
func zzH_C11_batch_root(t *zzT) {
	n := t.Range("n", 0, t.Param("N", 4))
	vals := zzLeaves(t, n)
	batch := CalculateRoot(vals)
	t.Assert(bytes.Equal(batch, zzRefRoot(vals)), "CalculateRoot equals the LIP-0031 root")
	t.Reach("end")
}

// C11.a (storage): a tree reloaded from the database after n appends has the same root, size and
// append path, and continues identically (one more append gives the same root).
//
//zz:opt loop=200 require=end
//zz:quick N=4 W=2
//zz:thorough N=8 W=2
func zzH_C11_reload(t *zzT) {
	n := t.Range("n", 0, t.Param("N", 4))
	vals := zzLeaves(t, n+1)
	tree, db := zzTree(t, vals[:n])
	re, err := NewRegularMerkleTreeWithPastData(db)
	if n == 0 {
		// a store that never saw a leaf: the reload is either refused or yields THE empty tree (LIP-0031 empty root)
		if err != nil {
			t.Reach("end")
			return
		}
	}
	t.Assert(err == nil, "tree information is found after n >= 1 appends")
	if err != nil {
		return
	}
	t.Assert(bytes.Equal(re.Root(), tree.Root()), "reloaded root equals the root before")
	t.Assert(re.Size() == tree.Size(), "reloaded size equals the size before")
	t.Assert(zzSameList(re.AppendPath(), tree.AppendPath()), "reloaded append path equals the append path before")
	e1, e2 := tree.Append(vals[n]), re.Append(vals[n])
	t.Assert(e1 == nil && e2 == nil, "both trees accept one more leaf")
	t.Assert(bytes.Equal(re.Root(), zzRefRoot(vals)), "reloaded tree continues identically")
	t.Reach("end")
}

// C11.b: root, append path and size predicted by CalculateRootFromAppendPath from (value, append
// path, size) equal those after the real append.
//
//zz:opt loop=200 require=end
//zz:quick N=5 W=2
//zz:thorough N=9 W=2
func zzH_C11_predict_append(t *zzT) {
	n := t.Range("n", 0, t.Param("N", 5))
	vals := zzLeaves(t, n+1)
	tree, _ := zzTree(t, vals[:n])
	pred := CalculateRootFromAppendPath(vals[n], tree.AppendPath(), tree.Size())
	err := tree.Append(vals[n])
	t.Assert(err == nil, "Append succeeds")
	t.Assert(bytes.Equal(pred.Root, tree.Root()), "predicted root equals the root after the real append")
	t.Assert(pred.Size == tree.Size(), "predicted size equals the size after the real append")
	t.Assert(zzSameList(pred.AppendPath, tree.AppendPath()), "predicted append path equals the append path after the real append")
	t.Reach("end")
}

// zzSubset picks a non-empty subset of [0,n) as a bit mask (concrete per path) and returns the
// selected positions in increasing order, or in decreasing order when rev is set.
func zzSubset(t *zzT, n int, rev bool) []int {
	mask := t.Range("subset", 1, (1<<uint(n))-1)
	var pos []int
	for i := 0; i < n; i++ {
		if mask>>uint(i)&1 == 1 {
			pos = append(pos, i)
		}
	}
	if rev {
		for i, j := 0, len(pos)-1; i < j; i, j = i+1, j-1 {
			pos[i], pos[j] = pos[j], pos[i]
		}
	}
	return pos
}

// C11.c: an inclusion proof generated for any non-empty subset of the leaves (queried in
// increasing or decreasing order) verifies against the root; it does not verify against another
// root, for another (different) query hash, or with one (different) sibling hash.
//
//zz:opt loop=200 require=end
//zz:quick N=3 W=2
//zz:thorough N=5 W=2
func zzH_C11_proof(t *zzT) {
	n := t.Range("n", 1, t.Param("N", 4))
	vals := zzLeaves(t, n)
	tree, _ := zzTree(t, vals)
	pos := zzSubset(t, n, t.Bool("reverse"))
	queries := make([][]byte, len(pos))
	for i, p := range pos {
		queries[i] = zzRefLeaf(vals[p])
	}
	proof, err := tree.GenerateProof(queries)
	t.Assert(err == nil, "GenerateProof succeeds for present leaves")
	if err != nil {
		return
	}
	t.Assert(proof.Size == uint64(n) && len(proof.Idxs) == len(pos), "proof carries the tree size and one index per query")
	root := zzRefRoot(vals)
	t.Assert(VerifyProof(queries, proof, root), "generated proof verifies against the root")

	other := t.Bytes("otherRoot", 32)
	t.Assume(!bytes.Equal(other, root))
	t.Assert(!VerifyProof(queries, proof, other), "proof does not verify against a different root")

	which := t.Choice("mutate.query", len(queries))
	badQ := make([][]byte, len(queries))
	copy(badQ, queries)
	badQ[which] = t.Bytes("otherQuery", 32)
	t.Assume(!bytes.Equal(badQ[which], queries[which]))
	t.Assert(!VerifyProof(badQ, proof, root), "proof does not verify for a different leaf hash")

	if len(proof.SiblingHashes) > 0 {
		ws := t.Choice("mutate.sibling", len(proof.SiblingHashes))
		bad := &Proof{Size: proof.Size, Idxs: proof.Idxs, SiblingHashes: make([][]byte, len(proof.SiblingHashes))}
		copy(bad.SiblingHashes, proof.SiblingHashes)
		bad.SiblingHashes[ws] = t.Bytes("otherSibling", 32)
		t.Assume(!bytes.Equal(bad.SiblingHashes[ws], proof.SiblingHashes[ws]))
		t.Assert(!VerifyProof(queries, bad, root), "proof does not verify with a different sibling hash")
	}
	t.Reach("end")
}

// C11.c: updating a subset of leaves through a proof (CalculateRootFromUpdateData) and in the tree
// (Update) yields the root of the modified list.
//
//zz:opt loop=200 require=end
//zz:quick N=4 W=2
//zz:thorough N=6 W=2
func zzH_C11_update(t *zzT) {
	n := t.Range("n", 1, t.Param("N", 4))
	vals := zzLeaves(t, n)
	tree, _ := zzTree(t, vals)
	pos := zzSubset(t, n, false)
	queries := make([][]byte, len(pos))
	updates := make([][]byte, len(pos))
	modified := make([][]byte, n)
	copy(modified, vals)
	for i, p := range pos {
		queries[i] = zzRefLeaf(vals[p])
		updates[i] = t.Bytes(t.Name("update", i), t.Param("W", 2))
		modified[p] = updates[i]
	}
	proof, err := tree.GenerateProof(queries)
	t.Assert(err == nil, "GenerateProof succeeds for present leaves")
	if err != nil {
		return
	}
	want := zzRefRoot(modified)
	got, err := CalculateRootFromUpdateData(updates, proof)
	t.Assert(err == nil, "CalculateRootFromUpdateData accepts a generated proof")
	t.Assert(err != nil || bytes.Equal(got, want), "root from update data equals the root of the modified list")
	err = tree.Update(proof.Idxs, updates)
	t.Assert(err == nil, "Update accepts the indexes of a generated proof")
	t.Assert(err != nil || bytes.Equal(tree.Root(), want), "root after Update equals the root of the modified list")
	t.Reach("end")
}

// C11.c (histories of updates): U successive single-leaf updates — the new value may be a value the
// leaf (or another leaf) held earlier (A -> B -> A), only the CURRENT list stays pairwise distinct —
// each followed by the root check; afterwards every leaf is still provable against the root, a
// further update still lands on the reference root, and the tree reloaded from its database agrees.
//
//zz:opt loop=200 require=end
//zz:quick N=3 U=2 W=1
//zz:thorough N=5 U=3 W=1 budget=1800s
func zzH_C11_update_sequence(t *zzT) {
	n := t.Range("n", 1, t.Param("N", 3))
	vals := zzLeaves(t, n)
	tree, db := zzTree(t, vals)
	cur := make([][]byte, n)
	copy(cur, vals)
	step := func(u int) bool {
		p := t.Choice(t.Name("upd.pos", u), n)
		nv := t.Bytes(t.Name("upd.val", u), t.Param("W", 1))
		for j := range cur {
			if j != p {
				t.Assume(!bytes.Equal(nv, cur[j]))
			}
		}
		proof, err := tree.GenerateProof([][]byte{zzRefLeaf(cur[p])})
		t.Assert(err == nil, "GenerateProof succeeds for a present leaf after earlier updates")
		if err != nil {
			return false
		}
		err = tree.Update(proof.Idxs, [][]byte{nv})
		cur[p] = nv
		t.Assert(err == nil && bytes.Equal(tree.Root(), zzRefRoot(cur)), "root after every update of a history equals the root of the modified list")
		return err == nil
	}
	U := t.Param("U", 2)
	for u := 0; u < U; u++ {
		if !step(u) {
			return
		}
	}
	q := t.Choice("q", n)
	query := [][]byte{zzRefLeaf(cur[q])}
	proof, err := tree.GenerateProof(query)
	t.Assert(err == nil && VerifyProof(query, proof, tree.Root()), "after a history of updates every leaf is provable against the root")
	if n > 1 {
		re, rerr := NewRegularMerkleTreeWithPastData(db)
		t.Assert(rerr == nil && bytes.Equal(re.Root(), tree.Root()), "a tree reloaded after a history of updates has the same root")
		if rerr == nil {
			rp, e2 := re.GenerateProof(query)
			t.Assert(e2 == nil && VerifyProof(query, rp, tree.Root()), "a tree reloaded after a history of updates proves every leaf")
		}
	}
	// the updated tree keeps growing: one more append lands on the root of the modified list + the new leaf
	extra := t.Bytes("appended", t.Param("W", 1))
	for j := range cur {
		t.Assume(!bytes.Equal(extra, cur[j]))
	}
	t.Assert(zzSameList(tree.AppendPath(), zzRefAppendPath(cur)), "after updates the append path is the append path of the modified list")
	t.Assert(tree.Append(extra) == nil && bytes.Equal(tree.Root(), zzRefRoot(append(append([][]byte{}, cur...), extra))), "an append after updates yields the root of the modified list plus the new leaf")
	t.Reach("end")
}

// C11.b/c (the append path as a value): AppendPath() read after the k-th append of ONE growing tree and
// kept by the caller (as a block producer keeps it until the next block) still is the append path of
// the first k leaves after further appends: equal to the reference path, folding with the right witness
// generated by the grown tree to the final root, and predicting the (k+1)-th append.
//
//zz:opt loop=200 require=end
//zz:quick N=4 W=1
//zz:thorough N=8 W=1
func zzH_C11_append_path_history(t *zzT) {
	n := t.Range("n", 1, t.Param("N", 4))
	vals := zzLeaves(t, n)
	tree := NewRegularMerkleTree(&zzDB{})
	kept := make([][][]byte, n+1)
	kept[0] = tree.AppendPath()
	for i, v := range vals {
		t.Assert(tree.Append(v) == nil, "Append succeeds")
		kept[i+1] = tree.AppendPath() // not copied: what a caller holding the returned value sees
	}
	k := t.Range("k", 0, n)
	t.Assert(zzSameList(kept[k], zzRefAppendPath(vals[:k])), "an append path obtained earlier is not changed by later appends")
	witness, err := tree.GenerateRightWitness(uint64(k))
	t.Assert(err == nil && VerifyRightWitness(uint64(k), kept[k], witness, tree.Root()), "an append path obtained earlier and the right witness of the grown tree reconstruct the root")
	t.Reach("end")
}

// C11.c: for every split position k, the append path of the first k leaves together with the right
// witness generated by the full tree reconstructs the root.
//
//zz:opt loop=200 require=end
//zz:quick N=5 W=2
//zz:thorough N=8 W=2
func zzH_C11_right_witness(t *zzT) {
	n := t.Range("n", 1, t.Param("N", 5))
	k := t.Range("k", 0, n)
	vals := zzLeaves(t, n)
	tree, _ := zzTree(t, vals)
	witness, err := tree.GenerateRightWitness(uint64(k))
	t.Assert(err == nil, "GenerateRightWitness succeeds for 0 <= k <= size")
	if err != nil {
		return
	}
	left := zzRefAppendPath(vals[:k])
	if !zzRightWitnessTerminates(uint64(k), len(left), len(witness)) {
		t.Fail("generated right witness drives CalculateRootFromRightWitness into its endless loop")
	}
	t.Assert(VerifyRightWitness(uint64(k), left, witness, zzRefRoot(vals)), "append path of the first k leaves and the right witness reconstruct the root")
	t.Reach("end")
}

// ---- C11.d: index arithmetic (indexes concretised by t.Range: strconv/float need concrete values) ----

func zzBitLen(x uint64) int {
	n := 0
	for ; x != 0; x >>= 1 {
		n++
	}
	return n
}

// zzBefore is the order kept by indexes.sort / insert: deeper layers (longer indexes) first, then
// ascending.
func zzBefore(a, b uint64) bool {
	if zzBitLen(a) != zzBitLen(b) {
		return zzBitLen(a) > zzBitLen(b)
	}
	return a < b
}

// nodeLocation.index and newNodeLocation are inverse to each other for every node of a tree of the
// given height, index = 1‖nodeIndex written with (height - layer) bits; sibling / left tests.
//
//zz:opt loop=40 require=end
//zz:quick H=5
//zz:thorough H=6
func zzH_C11_index_location(t *zzT) {
	height := t.Range("height", 1, t.Param("H", 5))
	layer := t.Range("layer", 0, height-1)
	bits := uint(height - layer)
	node := uint64(t.Range("node", 0, (1<<bits)-1))
	loc := &nodeLocation{nodeIndex: node, layerIndex: uint64(layer)}
	idx, err := loc.index(uint64(height))
	t.Assert(err == nil, "index of a node inside the tree is defined")
	t.Assert(idx == (1<<bits)|node, "index = 1 followed by the node index in (height - layer) bits")
	back, err := newNodeLocation(idx, uint64(height))
	t.Assert(err == nil && back != nil && back.nodeIndex == node && back.layerIndex == uint64(layer), "newNodeLocation(index(loc)) == loc")
	t.Assert(length(idx) == uint64(bits)+1, "length = number of binary digits")
	t.Assert((layer == height-1 && node == 0) == (idx == rootIndex), "root index is 2")
	// key round trip
	k := newNodeLocationFromKey(loc.key())
	t.Assert(k.nodeIndex == node && k.layerIndex == uint64(layer), "newNodeLocationFromKey(key()) == loc")
	// purely bit-level helpers: fully symbolic
	a, b := t.U64("a"), t.U64("b")
	t.Assert(areSiblings(a, b) == (a>>1 == b>>1 && a != b), "siblings share the parent and differ")
	t.Assert(isLeft(a) == (a%2 == 0), "left children have even index")
	t.Assert(areSameLayer(idx, idx^1), "siblings are in the same layer")
	t.Reach("end")
}

// indexes.sort orders by (layer from the bottom, position); insert keeps the order and the set
// semantics; remove deletes every occurrence; findInsertIndex returns the position of the value or
// the position where it belongs.
//
//zz:opt loop=40 require=end
//zz:quick L=3 I=8
//zz:thorough L=3 I=16
func zzH_C11_index_list(t *zzT) {
	L := t.Range("len", 0, t.Param("L", 3))
	list := make(indexes, L)
	for i := range list {
		list[i] = uint64(t.Range(t.Name("idx", i), 1, t.Param("I", 8)-1))
		for j := 0; j < i; j++ {
			t.Assume(list[i] != list[j])
		}
	}
	orig := append(indexes{}, list...)
	list.sort()
	t.Assert(len(list) == L, "sort keeps the length")
	for i := 0; i+1 < len(list); i++ {
		t.Assert(zzBefore(list[i], list[i+1]), "sorted: longer indexes first, then ascending")
	}
	for _, x := range orig {
		t.Assert(list.findIndex(x) >= 0, "sort keeps every element")
	}
	x := uint64(t.Range("x", 1, t.Param("I", 8)-1))
	present := orig.findIndex(x) >= 0
	pos := findInsertIndex(list, x)
	t.Assert(pos >= 0 && pos <= len(list), "insert position within the list")
	if present {
		t.Assert(list[pos] == x, "findInsertIndex returns the position of a present value")
	} else {
		t.Assert((pos == 0 || zzBefore(list[pos-1], x)) && (pos == len(list) || zzBefore(x, list[pos])), "findInsertIndex returns the position that keeps the order")
	}
	ins := append(indexes{}, list...)
	ins.insert(x)
	if present {
		t.Assert(len(ins) == L, "inserting a present value changes nothing")
	} else {
		t.Assert(len(ins) == L+1, "inserting a new value grows the list by one")
	}
	for i := 0; i+1 < len(ins); i++ {
		t.Assert(zzBefore(ins[i], ins[i+1]), "insert keeps the order")
	}
	t.Assert(ins.findIndex(x) >= 0, "inserted value is present")
	for _, y := range orig {
		t.Assert(ins.findIndex(y) >= 0, "insert keeps every element")
	}
	rem := ins.remove(x)
	t.Assert(rem.findIndex(x) == -1, "removed value is absent")
	want := L
	if present {
		want = L - 1
	}
	t.Assert(len(rem) == want, "remove deletes exactly the value")
	for i := 0; i+1 < len(rem); i++ {
		t.Assert(zzBefore(rem[i], rem[i+1]), "remove keeps the order")
	}
	t.Reach("end")
}

// C11.c on ONE tree object across its life: proofs, right witnesses and updates computed on a tree, then
// further appends (with or without crossing a power of two), then proofs / right witnesses / an update
// again on the same object: the later answers are those of the grown list (queries are pure: they leave
// nothing behind that a later answer depends on). n1 leaves, queries, m more leaves, queries.
// (seed C11-5 memoised the per-layer node counts on the tree object and refreshed them only when the
// tree gained a layer.)
//
//zz:opt loop=200 require=end
//zz:quick N=5 W=1
//zz:thorough N=8 W=1 budget=3600s
func zzH_C11_query_append_query(t *zzT) {
	N := t.Param("N", 6)
	n1 := t.Range("n1", 1, N-1)
	m := t.Range("m", 1, N-n1)
	vals := zzLeaves(t, n1+m)
	tree, _ := zzTree(t, vals[:n1])
	// first round of queries on the small tree
	q1 := t.Range("q1", 0, n1-1)
	p1, err := tree.GenerateProof([][]byte{zzRefLeaf(vals[q1])})
	t.Assert(err == nil && VerifyProof([][]byte{zzRefLeaf(vals[q1])}, p1, zzRefRoot(vals[:n1])), "proof on the tree before the appends verifies")
	k1 := t.Range("k1", 0, n1)
	w1, err := tree.GenerateRightWitness(uint64(k1))
	t.Assert(err == nil && VerifyRightWitness(uint64(k1), zzRefAppendPath(vals[:k1]), w1, zzRefRoot(vals[:n1])), "right witness on the tree before the appends reconstructs the root")
	// grow the same object
	for _, v := range vals[n1:] {
		t.Assert(tree.Append(v) == nil, "Append succeeds")
	}
	n := n1 + m
	root := zzRefRoot(vals)
	t.Assert(bytes.Equal(tree.Root(), root) && tree.Size() == uint64(n), "root and size after the appends")
	// second round on the grown tree
	q2 := t.Range("q2", 0, n-1)
	p2, err := tree.GenerateProof([][]byte{zzRefLeaf(vals[q2])})
	t.Assert(err == nil && p2 != nil && p2.Size == uint64(n) && VerifyProof([][]byte{zzRefLeaf(vals[q2])}, p2, root), "proof generated after further appends verifies against the root of the grown list")
	k2 := t.Range("k2", 0, n)
	w2, err := tree.GenerateRightWitness(uint64(k2))
	t.Assert(err == nil && VerifyRightWitness(uint64(k2), zzRefAppendPath(vals[:k2]), w2, root), "right witness generated after further appends reconstructs the root of the grown list")
	// update of leaf q2 through the tree
	nv := t.Bytes("newValue", 1)
	for _, v := range vals {
		t.Assume(!bytes.Equal(nv, v))
	}
	mod := make([][]byte, n)
	copy(mod, vals)
	mod[q2] = nv
	cr, err := CalculateRootFromUpdateData([][]byte{nv}, p2)
	t.Assert(err == nil && bytes.Equal(cr, zzRefRoot(mod)), "root from update data through a proof generated after further appends = root of the modified list")
	err = tree.Update(p2.Idxs, [][]byte{nv})
	t.Assert(err == nil && bytes.Equal(tree.Root(), zzRefRoot(mod)), "Update after proofs and appends yields the root of the modified list")
	t.Reach("end")
}
