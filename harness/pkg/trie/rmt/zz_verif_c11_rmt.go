//go:build verif

package rmt

import (
	"bytes"

	"github.com/LiskHQ/lisk-engine/pkg/crypto"
)

// C11 (regular Merkle tree, LIP-0031). The list length n is concrete per path (t.Range), the leaf
// values are symbolic byte strings (pairwise distinct: the tree indexes nodes by hash) and SHA-256 is
// the collision-free uninterpreted function of the engine, so every obligation reads "for all leaf
// values, for each n <= N".

// ---- in-memory model of the Database interface: association list keyed by byte strings ----

type zzDB struct {
	keys, vals [][]byte
}

func (d *zzDB) find(key []byte) int {
	for i := range d.keys {
		if bytes.Equal(d.keys[i], key) {
			return i
		}
	}
	return -1
}

func (d *zzDB) Get(key []byte) ([]byte, bool) {
	if i := d.find(key); i >= 0 {
		return d.vals[i], true
	}
	return nil, false
}

func (d *zzDB) Set(key, val []byte) {
	k, v := append([]byte{}, key...), append([]byte{}, val...)
	if i := d.find(key); i >= 0 {
		d.vals[i] = v
		return
	}
	d.keys, d.vals = append(d.keys, k), append(d.vals, v)
}

func (d *zzDB) Del(key []byte) {
	if i := d.find(key); i >= 0 {
		d.keys = append(d.keys[:i:i], d.keys[i+1:]...)
		d.vals = append(d.vals[:i:i], d.vals[i+1:]...)
	}
}

// ---- reference implementation of LIP-0031 (independent of the package's helpers) ----

func zzRefLeaf(v []byte) []byte { return crypto.Hash(append([]byte{0x00}, v...)) }

func zzRefBranch(l, r []byte) []byte {
	return crypto.Hash(append(append([]byte{0x01}, l...), r...))
}

// zzRefRoot: merkleRoot of LIP-0031 (split at the largest power of two smaller than n).
func zzRefRoot(vals [][]byte) []byte {
	n := len(vals)
	if n == 0 {
		return crypto.Hash([]byte{})
	}
	if n == 1 {
		return zzRefLeaf(vals[0])
	}
	k := 1
	for k*2 < n {
		k *= 2
	}
	return zzRefBranch(zzRefRoot(vals[:k]), zzRefRoot(vals[k:]))
}

// zzRefAppendPath: roots of the complete subtrees of the binary decomposition of n, smallest
// (rightmost) subtree first.
func zzRefAppendPath(vals [][]byte) [][]byte {
	res := [][]byte{}
	end := len(vals)
	for h := uint(0); end > 0; h++ {
		if (len(vals)>>h)&1 == 1 {
			res = append(res, zzRefRoot(vals[end-(1<<h):end]))
			end -= 1 << h
		}
	}
	return res
}

func zzSameList(a, b [][]byte) bool {
	if len(a) != len(b) {
		return false
	}
	for i := range a {
		if !bytes.Equal(a[i], b[i]) {
			return false
		}
	}
	return true
}

// zzLeaves returns n symbolic, pairwise distinct leaf values of W bytes.
func zzLeaves(t *zzT, n int) [][]byte {
	vals := make([][]byte, n)
	for i := range vals {
		vals[i] = t.Bytes(t.Name("leaf", i), t.Param("W", 2))
		for j := 0; j < i; j++ {
			t.Assume(!bytes.Equal(vals[i], vals[j]))
		}
	}
	return vals
}

// zzTree appends vals one by one to an empty tree over a fresh model database.
func zzTree(t *zzT, vals [][]byte) (*RegularMerkleTree, *zzDB) {
	db := &zzDB{}
	tree := NewRegularMerkleTree(db)
	for _, v := range vals {
		err := tree.Append(v)
		t.Assert(err == nil, "Append succeeds")
	}
	return tree, db
}

// C11.a: after each of n appends from the empty tree, root ≡ CalculateRoot(prefix) ≡ reference
// root, Size ≡ number of leaves, AppendPath ≡ reference append path.
//
//zz:opt loop=40 require=end
//zz:quick N=5 W=2
//zz:thorough N=9 W=2
func zzH_C11_append_root(t *zzT) {
	n := t.Range("n", 0, t.Param("N", 5))
	vals := zzLeaves(t, n)
	db := &zzDB{}
	tree := NewRegularMerkleTree(db)
	t.Assert(bytes.Equal(tree.Root(), zzRefRoot(nil)) && tree.Size() == 0 && len(tree.AppendPath()) == 0, "empty tree: empty hash, size 0, empty append path")
	for k := 1; k <= n; k++ {
		err := tree.Append(vals[k-1])
		t.Assert(err == nil, "Append succeeds")
		ref := zzRefRoot(vals[:k])
		t.Assert(bytes.Equal(tree.Root(), ref), "root after k appends equals the LIP-0031 root of the first k leaves")
		t.Assert(tree.Size() == uint64(k), "size counts the appended leaves")
		t.Assert(zzSameList(tree.AppendPath(), zzRefAppendPath(vals[:k])), "append path equals the roots of the complete subtrees, smallest first")
	}
	batch := CalculateRoot(vals)
	t.Assert(bytes.Equal(batch, zzRefRoot(vals)), "CalculateRoot equals the LIP-0031 root")
	t.Assert(bytes.Equal(batch, tree.Root()), "batch root equals the root after appending one by one")
	t.Reach("end")
}

// C11.a (storage): a tree reloaded from the database after n appends has the same root, size and
// append path, and continues identically (one more append gives the same root).
//
//zz:opt loop=40 require=end
//zz:quick N=4 W=2
//zz:thorough N=8 W=2
func zzH_C11_reload(t *zzT) {
	n := t.Range("n", 1, t.Param("N", 4))
	vals := zzLeaves(t, n+1)
	tree, db := zzTree(t, vals[:n])
	re, err := NewRegularMerkleTreeWithPastData(db)
	t.Assert(err == nil, "tree information is found after n >= 1 appends")
	if err != nil {
		return
	}
	t.Assert(bytes.Equal(re.Root(), tree.Root()), "reloaded root equals the root before")
	t.Assert(re.Size() == tree.Size(), "reloaded size equals the size before")
	t.Assert(zzSameList(re.AppendPath(), tree.AppendPath()), "reloaded append path equals the append path before")
	e1, e2 := tree.Append(vals[n]), re.Append(vals[n])
	t.Assert(e1 == nil && e2 == nil, "both trees accept one more leaf")
	t.Assert(bytes.Equal(re.Root(), zzRefRoot(vals)), "reloaded tree continues identically")
	t.Reach("end")
}

// C11.b: root, append path and size predicted by CalculateRootFromAppendPath from (value, append
// path, size) equal those after the real append.
//
//zz:opt loop=70 require=end
//zz:quick N=5 W=2
//zz:thorough N=9 W=2
func zzH_C11_predict_append(t *zzT) {
	n := t.Range("n", 0, t.Param("N", 5))
	vals := zzLeaves(t, n+1)
	tree, _ := zzTree(t, vals[:n])
	pred := CalculateRootFromAppendPath(vals[n], tree.AppendPath(), tree.Size())
	err := tree.Append(vals[n])
	t.Assert(err == nil, "Append succeeds")
	t.Assert(bytes.Equal(pred.Root, tree.Root()), "predicted root equals the root after the real append")
	t.Assert(pred.Size == tree.Size(), "predicted size equals the size after the real append")
	t.Assert(zzSameList(pred.AppendPath, tree.AppendPath()), "predicted append path equals the append path after the real append")
	t.Reach("end")
}

// zzSubset picks a non-empty subset of [0,n) as a bit mask (concrete per path) and returns the
// selected positions in increasing order, or in decreasing order when rev is set.
func zzSubset(t *zzT, n int, rev bool) []int {
	mask := t.Range("subset", 1, (1<<uint(n))-1)
	var pos []int
	for i := 0; i < n; i++ {
		if mask>>uint(i)&1 == 1 {
			pos = append(pos, i)
		}
	}
	if rev {
		for i, j := 0, len(pos)-1; i < j; i, j = i+1, j-1 {
			pos[i], pos[j] = pos[j], pos[i]
		}
	}
	return pos
}

// C11.c: an inclusion proof generated for any non-empty subset of the leaves (queried in
// increasing or decreasing order) verifies against the root; it does not verify against another
// root, for another (different) query hash, or with one (different) sibling hash.
//
//zz:opt loop=40 require=end
//zz:quick N=4 W=2
//zz:thorough N=6 W=2
func zzH_C11_proof(t *zzT) {
	n := t.Range("n", 1, t.Param("N", 4))
	vals := zzLeaves(t, n)
	tree, _ := zzTree(t, vals)
	pos := zzSubset(t, n, t.Bool("reverse"))
	queries := make([][]byte, len(pos))
	for i, p := range pos {
		queries[i] = zzRefLeaf(vals[p])
	}
	proof, err := tree.GenerateProof(queries)
	t.Assert(err == nil, "GenerateProof succeeds for present leaves")
	if err != nil {
		return
	}
	t.Assert(proof.Size == uint64(n) && len(proof.Idxs) == len(pos), "proof carries the tree size and one index per query")
	root := zzRefRoot(vals)
	t.Assert(VerifyProof(queries, proof, root), "generated proof verifies against the root")

	other := t.Bytes("otherRoot", 32)
	t.Assume(!bytes.Equal(other, root))
	t.Assert(!VerifyProof(queries, proof, other), "proof does not verify against a different root")

	which := t.Choice("mutate.query", len(queries))
	badQ := make([][]byte, len(queries))
	copy(badQ, queries)
	badQ[which] = t.Bytes("otherQuery", 32)
	t.Assume(!bytes.Equal(badQ[which], queries[which]))
	t.Assert(!VerifyProof(badQ, proof, root), "proof does not verify for a different leaf hash")

	if len(proof.SiblingHashes) > 0 {
		ws := t.Choice("mutate.sibling", len(proof.SiblingHashes))
		bad := &Proof{Size: proof.Size, Idxs: proof.Idxs, SiblingHashes: make([][]byte, len(proof.SiblingHashes))}
		copy(bad.SiblingHashes, proof.SiblingHashes)
		bad.SiblingHashes[ws] = t.Bytes("otherSibling", 32)
		t.Assume(!bytes.Equal(bad.SiblingHashes[ws], proof.SiblingHashes[ws]))
		t.Assert(!VerifyProof(queries, bad, root), "proof does not verify with a different sibling hash")
	}
	t.Reach("end")
}

// C11.c: updating a subset of leaves through a proof (CalculateRootFromUpdateData) and in the tree
// (Update) yields the root of the modified list.
//
//zz:opt loop=40 require=end
//zz:quick N=4 W=2
//zz:thorough N=6 W=2
func zzH_C11_update(t *zzT) {
	n := t.Range("n", 1, t.Param("N", 4))
	vals := zzLeaves(t, n)
	tree, _ := zzTree(t, vals)
	pos := zzSubset(t, n, false)
	queries := make([][]byte, len(pos))
	updates := make([][]byte, len(pos))
	modified := make([][]byte, n)
	copy(modified, vals)
	for i, p := range pos {
		queries[i] = zzRefLeaf(vals[p])
		updates[i] = t.Bytes(t.Name("update", i), t.Param("W", 2))
		modified[p] = updates[i]
	}
	proof, err := tree.GenerateProof(queries)
	t.Assert(err == nil, "GenerateProof succeeds for present leaves")
	if err != nil {
		return
	}
	want := zzRefRoot(modified)
	got, err := CalculateRootFromUpdateData(updates, proof)
	t.Assert(err == nil, "CalculateRootFromUpdateData accepts a generated proof")
	t.Assert(err != nil || bytes.Equal(got, want), "root from update data equals the root of the modified list")
	err = tree.Update(proof.Idxs, updates)
	t.Assert(err == nil, "Update accepts the indexes of a generated proof")
	t.Assert(err != nil || bytes.Equal(tree.Root(), want), "root after Update equals the root of the modified list")
	t.Reach("end")
}

// C11.c: for every split position k, the append path of the first k leaves together with the right
// witness generated by the full tree reconstructs the root.
//
//zz:opt loop=70 require=end
//zz:quick N=5 W=2
//zz:thorough N=8 W=2
func zzH_C11_right_witness(t *zzT) {
	n := t.Range("n", 1, t.Param("N", 5))
	k := t.Range("k", 0, n)
	vals := zzLeaves(t, n)
	tree, _ := zzTree(t, vals)
	witness, err := tree.GenerateRightWitness(uint64(k))
	t.Assert(err == nil, "GenerateRightWitness succeeds for 0 <= k <= size")
	if err != nil {
		return
	}
	left := zzRefAppendPath(vals[:k])
	if !zzRightWitnessTerminates(uint64(k), len(left), len(witness)) {
		t.Fail("generated right witness drives CalculateRootFromRightWitness into its endless loop")
	}
	t.Assert(VerifyRightWitness(uint64(k), left, witness, zzRefRoot(vals)), "append path of the first k leaves and the right witness reconstruct the root")
	t.Reach("end")
}
