//go:build verif

package rmt



// C09.d (regular Merkle tree): the proof verifiers and root calculators never panic and never loop
// without bound on an untrusted proof. Tree sizes and node indexes are concretised (t.Range), the
// number of sibling hashes is symbolic 0..3 and the hash contents are symbolic.

// zzHashes returns n byte strings of `width` symbolic bytes each.
func zzHashes(t *zzT, name string, n, width int) [][]byte {
	res := make([][]byte, n)
	for i := range res {
		res[i] = t.Bytes(t.Name(name, i), width)
	}
	return res
}

// zzProof builds an arbitrary proof: size in [loSize, S], ni indexes in [0, I), 0..3 sibling hashes.
func zzProof(t *zzT, loSize, ni int) *Proof {
	size := t.Range("size", loSize, t.Param("S", 8))
	idxs := make([]uint64, ni)
	for i := range idxs {
		idxs[i] = uint64(t.Range(t.Name("idx", i), 0, t.Param("I", 16)-1))
	}
	ns := t.Range("siblings.len", 0, 3)
	return &Proof{Size: uint64(size), Idxs: idxs, SiblingHashes: zzHashes(t, "sibling", ns, t.Param("W", 2))}
}

// VerifyProof on an arbitrary proof, arbitrary query hashes (count may differ from the number of
// indexes) and an arbitrary root returns a verdict.
//
//zz:opt loop=40 require=returned
//zz:quick S=8 I=16 NI=2 W=2
//zz:thorough S=9 I=32 NI=2 W=32
func zzH_C09_rmt_verify_proof(t *zzT) {
	ni := t.Range("idxs.len", 0, t.Param("NI", 2))
	nq := t.Range("queries.len", 0, t.Param("NI", 2))
	if nq != ni {
		// length mismatch is rejected before any index is looked at: keep the indexes symbolic-free
		p := &Proof{Size: uint64(t.Range("size", 0, t.Param("S", 8))), Idxs: make([]uint64, ni)}
		ok := VerifyProof(zzHashes(t, "query", nq, 2), p, t.Bytes("root", 32))
		t.Assert(!ok, "query/index count mismatch is rejected")
		t.Reach("returned")
		return
	}
	p := zzProof(t, 0, ni)
	queries := zzHashes(t, "query", nq, t.Param("W", 2))
	ok := VerifyProof(queries, p, t.Bytes("root", 32))
	if p.Size == 0 || ni == 0 {
		t.Assert(!ok, "empty tree / empty query is rejected")
	}
	t.Reach("returned")
}

// calculatePathNodes (shared by VerifyProof, CalculateRootFromUpdateData and Update) for every
// size >= 1 (all callers that take a proof from outside reject size 0 first).
//
//zz:opt loop=40 require=returned
//zz:quick S=8 I=16 NI=2 W=2
//zz:thorough S=9 I=32 NI=2 W=32
func zzH_C09_rmt_path_nodes(t *zzT) {
	ni := t.Range("idxs.len", 1, t.Param("NI", 2))
	p := zzProof(t, 1, ni)
	queries := zzHashes(t, "query", ni, t.Param("W", 2))
	res, err := calculatePathNodes(queries, p.Size, p.Idxs, p.SiblingHashes)
	t.Assert(err != nil || res != nil, "result or error")
	t.Reach("returned")
}

// CalculateRootFromUpdateData on an arbitrary proof and arbitrary update data.
//
//zz:opt loop=40 require=returned
//zz:quick S=8 I=16 NI=2 W=2
//zz:thorough S=9 I=32 NI=2 W=32
func zzH_C09_rmt_update_data(t *zzT) {
	ni := t.Range("idxs.len", 0, t.Param("NI", 2))
	nu := t.Range("update.len", 0, t.Param("NI", 2))
	if nu != ni {
		p := &Proof{Size: uint64(t.Range("size", 0, t.Param("S", 8))), Idxs: make([]uint64, ni)}
		_, err := CalculateRootFromUpdateData(zzHashes(t, "update", nu, 1), p)
		t.Assert(err != nil, "update/index count mismatch is rejected")
		t.Reach("returned")
		return
	}
	p := zzProof(t, 0, ni)
	root, err := CalculateRootFromUpdateData(zzHashes(t, "update", nu, 1), p)
	t.Assert(err != nil || len(root) == 32, "root or error")
	t.Reach("returned")
}

// zzRightWitnessTerminates replays only the loop control of CalculateRootFromRightWitness (list
// lengths and index bits). For layerIndex >= 64 every shifted digit is 0 and nothing is consumed any
// more, so the real loop ends iff both lists are exhausted within 64 layers.
func zzRightWitnessTerminates(nodeIndex uint64, nAppend, nWitness int) bool {
	if nAppend == 0 || nWitness == 0 {
		return true
	}
	a, r := nAppend-1, nWitness-1
	inc := nodeIndex
	init := false
	for layer := 0; layer < 64 && (a > 0 || r > 0); layer++ {
		if a > 0 && (nodeIndex>>layer)&1 == 1 {
			if !init {
				inc += 1 << layer
				init = true
			} else {
				a--
			}
		}
		if r > 0 && (inc>>layer)&1 == 1 {
			r--
			inc += 1 << layer
		}
	}
	return a == 0 && r == 0
}

// CalculateRootFromRightWitness / VerifyRightWitness with an arbitrary node index, append path and
// right witness: returns (no panic) and its loop terminates. Termination is the unwinding assertion
// itself (unwind=violation): a loop of the real function that runs more than 70 times — the node index
// has 64 digits — is reported as a hang, and the native replay must then still be running at its
// deadline.
//
//zz:opt loop=70 require=returned unwind=violation
//zz:quick I=32 W=2
//zz:thorough I=64 W=32
func zzH_C09_rmt_right_witness(t *zzT) {
	nodeIndex := uint64(t.Range("nodeIndex", 0, t.Param("I", 32)-1))
	na := t.Range("appendPath.len", 0, 3)
	nw := t.Range("rightWitness.len", 0, 3)
	appendPath := zzHashes(t, "appendPath", na, t.Param("W", 2))
	witness := zzHashes(t, "rightWitness", nw, t.Param("W", 2))
	VerifyRightWitness(nodeIndex, appendPath, witness, t.Bytes("root", 32))
	t.Reach("returned")
}

// CalculateRootFromAppendPath with an arbitrary size and an append path of arbitrary length.
//
//zz:opt loop=70 require=returned
//zz:quick S=8 W=2
//zz:thorough S=17 W=32
func zzH_C09_rmt_append_path(t *zzT) {
	size := uint64(t.Range("size", 0, t.Param("S", 8)))
	np := t.Range("appendPath.len", 0, 3)
	res := CalculateRootFromAppendPath(t.Bytes("value", 1), zzHashes(t, "appendPath", np, t.Param("W", 2)), size)
	t.Assert(res.Size == size+1, "size incremented")
	t.Reach("returned")
}

// CalculateRootFromAppendPath with a well-formed append path (one entry per set bit of size) for
// sizes around 2^8, where intToBinary needs more than one byte.
//
//zz:opt loop=70 require=returned
func zzH_C09_rmt_append_path_wide(t *zzT) {
	size := uint64(t.Range("size", 254, 258))
	np := 0
	for s := size; s != 0; s >>= 1 {
		np += int(s & 1)
	}
	res := CalculateRootFromAppendPath(t.Bytes("value", 1), zzHashes(t, "appendPath", np, 2), size)
	t.Assert(res.Size == size+1, "size incremented")
	t.Reach("returned")
}
