//go:build verif

package smt

import (
	"bytes"

	"github.com/LiskHQ/lisk-engine/pkg/codec"
)

// C10 (sparse Merkle trie, LIP-0039) — tree CONSTRUCTION and STORAGE (DESIGN C10.d–g): the real
// NewTrie / Update / Prove driven over an in-memory model of the node database for HISTORIES of
// batches, against an independent reference root computed from the final key->value map.
//
// Keys are 2 bytes (keyLength 2: two levels of subtrees of height 8, DefaultSubtreeHeight) and are
// taken from a small concrete pool by t.Choice (updateSubtree bins keys by int(key[b]) into 256 slots:
// symbolic keys would fork 256 ways per key). Values are 32 symbolic bytes (the stored leaf format
// of newSubTree fixes the value width to hashSize; every caller stores hashes). SHA-256 is the engine's
// collision-free uninterpreted function, so "root ≡ reference root" reads "for all values".
//
// Engine options these harnesses need (binary bin/gosym-c10, see engine/_c10build): gor=N — one Update
// spawns two goroutines per level it descends (34 for a single insert next to an existing leaf), the
// default limit is 16 per path; hashdepth=N — node hashes nest 8 levels per subtree (17 and more from
// the root to a leaf), the default depth of the collision-freeness facts is 6, below which two
// different trees may look equal to the solver (spurious counterexamples, not reproduced natively).

// zzBuildPool: keys chosen for structure; P of them are used, in this order.
//
//	0000 / 0001  same lower subtree, adjacent, differ in the LAST bit (leaves at depth 8 of the lower subtree)
//	8000         differs from the others in the FIRST bit (depth 1 of the top subtree)
//	0080         same lower subtree as 0000/0001, differs from them in the first bit of the second byte
//	0100         neighbouring bin of the top subtree (differs from 0000 in the last bit of the first byte)
//	ffff         last bin, last slot
func zzBuildPool() [][]byte {
	return [][]byte{{0x00, 0x00}, {0x00, 0x01}, {0x80, 0x00}, {0x00, 0x80}, {0x01, 0x00}, {0xff, 0xff}}
}

// zzBuildKeyLen: 2, or 3 with the tier parameter KL=3 (set by zzPoolOf before the trie is created).
var zzBuildKeyLen = 2

// zzBuildPool3: 3-byte keys; the first three share their first 16 bits, so that a THIRD layer of
// subtrees exists below them (bins chosen by the third key byte).
func zzBuildPool3() [][]byte {
	return [][]byte{{0xab, 0xcd, 0x01}, {0xab, 0xcd, 0x80}, {0xab, 0xcd, 0xcd}, {0xab, 0x00, 0x00}, {0x00, 0x00, 0x00}, {0xff, 0xff, 0xff}}
}

// ---- in-memory model of DBReadWriter: association list, newest entry last ----

type zzMemDB struct {
	keys, vals [][]byte
}

// Get scans from the newest entry; keys are node hashes (compared as terms by the solver).
func (d *zzMemDB) Get(key []byte) ([]byte, bool) {
	for i := len(d.keys) - 1; i >= 0; i-- {
		if bytes.Equal(d.keys[i], key) {
			return d.vals[i], true
		}
	}
	return nil, false
}

// Set appends; older entries of the same key are shadowed.
func (d *zzMemDB) Set(key, val []byte) {
	d.keys = append(d.keys, append([]byte{}, key...))
	d.vals = append(d.vals, append([]byte{}, val...))
}

// Del removes every entry of the key.
func (d *zzMemDB) Del(key []byte) {
	var keys, vals [][]byte
	for i := range d.keys {
		if !bytes.Equal(d.keys[i], key) {
			keys, vals = append(keys, d.keys[i]), append(vals, d.vals[i])
		}
	}
	d.keys, d.vals = keys, vals
}

func (d *zzMemDB) clone() *zzMemDB {
	return &zzMemDB{keys: append([][]byte{}, d.keys...), vals: append([][]byte{}, d.vals...)}
}

// ---- reference LIP-0039 root of a key->value map (independent of the package's helpers) ----

// zzRefSMTRoot: root of the subtree at bit depth d that contains exactly the given keys (all sharing
// their first d bits): no key -> empty hash; one key -> its leaf hash (a lone leaf is lifted to the
// top of its subtree); otherwise branch(root(keys with bit d = 0), root(keys with bit d = 1)).
func zzRefSMTRoot(keys, vals [][]byte, d int) []byte {
	if len(keys) == 0 {
		return zzRefEmpty()
	}
	if len(keys) == 1 {
		return zzRefSMTLeaf(keys[0], vals[0])
	}
	var lk, lv, rk, rv [][]byte
	for i, k := range keys {
		if zzKeyBit(k, d) {
			rk, rv = append(rk, k), append(rv, vals[i])
		} else {
			lk, lv = append(lk, k), append(lv, vals[i])
		}
	}
	return zzRefSMTBranch(zzRefSMTRoot(lk, lv, d+1), zzRefSMTRoot(rk, rv, d+1))
}

// ---- the state of a history: the map (per pool key: stored value or nil), the trie, the database ----

// zzOp is one operation of a batch. kind 0 = set a fresh value (insert or overwrite), 1 = delete (empty
// value; the key may be absent: "delete of an absent key"), 2 = set the value that is stored already
// (present keys only).
type zzOp struct{ key, kind int }

type zzBuild struct {
	t    *zzT
	pool [][]byte
	cur  [][]byte // cur[i]: value stored under pool[i], nil = absent
	db   *zzMemDB
	tr   *trie
	vals *zzValues
}

// zzValues issues symbolic values (32 bytes each). TAG=1 (quick tier) makes the first byte a concrete
// serial number, so that distinct values differ syntactically and every comparison of node hashes is
// decided without the solver; TAG=0 leaves all 32 bytes symbolic (a "fresh" value may then coincide
// with any earlier one). "The value written equals the stored one" is also the explicit kind 2.
type zzValues struct {
	t *zzT
	n int
}

func (z *zzValues) fresh() []byte {
	v := z.t.Bytes(z.t.Name("value", z.n), hashSize)
	if z.t.Param("TAG", 0) == 1 {
		v[0] = byte(z.n)
	}
	z.n++
	return v
}

func zzPoolOf(t *zzT) [][]byte {
	if t.Param("KL", 2) == 3 {
		zzBuildKeyLen = 3
		return zzBuildPool3()[:t.Param("P", 4)]
	}
	zzBuildKeyLen = 2
	return zzBuildPool()[:t.Param("P", 4)]
}

func zzNewBuild(t *zzT, vals *zzValues) *zzBuild {
	pool := zzPoolOf(t)
	return &zzBuild{t: t, pool: pool, cur: make([][]byte, len(pool)), db: &zzMemDB{}, tr: NewTrie(nil, zzBuildKeyLen), vals: vals}
}

// refRoot: reference root of the current map.
func (s *zzBuild) refRoot() []byte {
	var ks, vs [][]byte
	for i, v := range s.cur {
		if v != nil {
			ks, vs = append(ks, s.pool[i]), append(vs, v)
		}
	}
	return zzRefSMTRoot(ks, vs, 0)
}

// materialise turns operations into the key and value lists of one Update call.
func (s *zzBuild) materialise(ops []zzOp) (keys, vals [][]byte) {
	for _, op := range ops {
		var v []byte
		switch op.kind {
		case 0:
			v = s.vals.fresh()
		case 1:
			v = []byte{}
		case 2:
			v = append([]byte{}, s.cur[op.key]...)
		}
		keys, vals = append(keys, append([]byte{}, s.pool[op.key]...)), append(vals, v)
	}
	return keys, vals
}

// record applies a batch to the map (the keys of a batch are distinct).
func (s *zzBuild) record(ops []zzOp, vals [][]byte) {
	for j, op := range ops {
		if len(vals[j]) == 0 {
			s.cur[op.key] = nil
		} else {
			s.cur[op.key] = vals[j]
		}
	}
}

// update runs one batch through the real trie and records it in the map.
func (s *zzBuild) update(ops []zzOp) ([]byte, error) {
	keys, vals := s.materialise(ops)
	root, err := s.tr.Update(s.db, keys, vals)
	s.record(ops, vals)
	return root, err
}

// setValues runs one batch "pool[idx[j]] := vals[j]" (given values) and records it.
func (s *zzBuild) setValues(idx []int, vals [][]byte) ([]byte, error) {
	ops := make([]zzOp, len(idx))
	keys := make([][]byte, len(idx))
	for j, i := range idx {
		ops[j] = zzOp{key: i}
		keys[j] = append([]byte{}, s.pool[i]...)
	}
	root, err := s.tr.Update(s.db, keys, vals)
	s.record(ops, vals)
	return root, err
}

// ---- plans: every discrete choice of a history is made up front (each t.Choice / t.Range is a solver
// query whose cost grows with the terms already built, and impossible combinations are pruned before
// any Update runs) ----

// zzPlanSubset: an arbitrary subset of the pool (bit mask, possibly empty) in pool order, as set operations.
func zzPlanSubset(t *zzT, name string, present []bool) []zzOp {
	mask := t.Range(name, 0, (1<<uint(len(present)))-1)
	var ops []zzOp
	for i := range present {
		if mask>>uint(i)&1 == 1 {
			ops = append(ops, zzOp{key: i, kind: 0})
			present[i] = true
		}
	}
	return ops
}

// zzPlanBatch: n operations on distinct pool keys; kind 2 only for keys that are present. present is
// updated to the state after the batch.
func zzPlanBatch(t *zzT, name string, n int, present []bool) []zzOp {
	var ops []zzOp
	used := make([]bool, len(present))
	for j := 0; j < n; j++ {
		c := t.Choice(t.Name(name+".key", j), len(present)-j)
		key := -1
		for i := range present {
			if !used[i] {
				if c == 0 {
					key = i
					break
				}
				c--
			}
		}
		used[key] = true
		kinds := 2
		if present[key] {
			kinds = 3
		}
		ops = append(ops, zzOp{key: key, kind: t.Choice(t.Name(name+".kind", j), kinds)})
	}
	for _, op := range ops {
		present[op.key] = op.kind != 1
	}
	return ops
}

// zzPlanHistory: batches of 1..K operations until T operations are planned.
func zzPlanHistory(t *zzT, T, K int, present []bool) [][]zzOp {
	var batches [][]zzOp
	for b := 1; T > 0; b++ {
		hi := K
		if T < hi {
			hi = T
		}
		n := t.Range(t.Name("batch.len", b), 1, hi)
		T -= n
		batches = append(batches, zzPlanBatch(t, t.Name("batch", b), n, present))
	}
	return batches
}

// zzSharesLower: at least two present keys have the first byte of pool[key], i.e. the top subtree
// holds a stub for a stored lower subtree on the path of that key.
func zzSharesLower(pool [][]byte, present []bool, key int) bool {
	n := 0
	for i := range pool {
		if present[i] && pool[i][0] == pool[key][0] {
			n++
		}
	}
	return n >= 2
}

// zzUnchanging: the batch changes nothing (every operation re-sets the stored value or deletes an
// absent key) and routes at least one key through a stored lower subtree.
func zzUnchanging(pool [][]byte, present []bool, ops []zzOp) bool {
	through := false
	for _, op := range ops {
		if !(op.kind == 2 || (op.kind == 1 && !present[op.key])) {
			return false
		}
		if zzSharesLower(pool, present, op.key) {
			through = true
		}
	}
	return through
}

// C10.d build_root: the first batch inserts any subset of the pool into the empty trie over a fresh
// database; then batches of 1..K operations (set / overwrite / delete / re-set of the stored value /
// delete of an absent key), T operations in total. The root after EVERY batch equals the reference
// LIP-0039 root of the map at that moment (the empty map gives the empty hash), and every Update
// succeeds (the stored nodes that are still referenced are found).
//
//zz:opt loop=300 require=end,unchanged-subtree-then-touched sched=0 gor=3000 hashdepth=64
//zz:quick P=3 T=2 K=1 TAG=1
//zz:thorough P=4 T=3 K=1 TAG=1 budget=3600s
func zzH_C10_build_root(t *zzT) { zzBuildRoot(t) }

// C10.d with fully symbolic values (TAG=0): a fresh value may coincide with any value written before,
// so "the new subtree has the hash of an old one" is reached through the solver as well (every
// comparison of two node hashes that differ only in values forks). Small bounds, thorough tier only.
//
//zz:opt loop=300 require=end,unchanged-subtree-then-touched sched=0 gor=3000 hashdepth=64 tier=thorough
//zz:thorough P=4 T=2 K=2 TAG=0 budget=3600s
func zzH_C10_build_root_free(t *zzT) { zzBuildRoot(t) }

func zzBuildRoot(t *zzT) {
	zzPinEmptyHash(t)
	pool := zzPoolOf(t)
	present := make([]bool, len(pool))
	first := zzPlanSubset(t, "initial.subset", present)
	before := [][]bool{append([]bool{}, present...)}
	batches := zzPlanHistory(t, t.Param("T", 2), t.Param("K", 1), present)
	// presence before each later batch, for the coverage marker
	{
		p := append([]bool{}, before[0]...)
		for _, ops := range batches {
			for _, op := range ops {
				p[op.key] = op.kind != 1
			}
			before = append(before, append([]bool{}, p...))
		}
	}

	s := zzNewBuild(t, &zzValues{t: t})
	t.Assert(bytes.Equal(s.tr.root, zzRefEmpty()), "a new trie has the empty hash as root")
	root, err := s.update(first)
	t.Assert(err == nil && bytes.Equal(root, s.refRoot()), "root after the first batch (any subset of the pool, from the empty trie) equals the LIP-0039 root; the empty map gives the empty hash")
	if err != nil {
		return
	}
	touched := false
	for b, ops := range batches {
		if b > 0 && zzUnchanging(pool, before[b-1], batches[b-1]) {
			for _, op := range ops {
				for _, prev := range batches[b-1] {
					if pool[op.key][0] == pool[prev.key][0] && zzSharesLower(pool, before[b-1], prev.key) {
						touched = true
					}
				}
			}
		}
		root, err = s.update(ops)
		t.Assert(err == nil, "Update of a later batch succeeds (every stored node that is still referenced is found)")
		if err != nil {
			return
		}
		t.Assert(bytes.Equal(root, s.refRoot()), "root after every later batch (set / overwrite / delete / re-set / delete of an absent key) equals the LIP-0039 root of the map")
		t.Assert(bytes.Equal(root, s.tr.root), "Update returns the root the trie keeps")
	}
	if touched {
		t.Reach("unchanged-subtree-then-touched")
	}
	t.Reach("end")
}

// C10.e order_independence: the map "subset of the pool -> final values" is built twice over
// separate databases: (A) one batch in pool order; (B) a history that (i) optionally takes the keys in
// reverse order, (ii) splits them into two batches at an arbitrary point, (iii) optionally writes a
// temporary value first that a later batch overwrites, (iv) optionally inserts an extra key (not in the
// map) in the first batch and deletes it again, together with the second batch or in a batch of its
// own. Both roots are equal (and equal to the reference root).
//
//zz:opt loop=300 require=end,extra-key,overwrite sched=0 gor=3000 hashdepth=64
//zz:quick P=4 TAG=1
//zz:thorough P=6 TAG=1 budget=3600s
func zzH_C10_order_independence(t *zzT) {
	zzPinEmptyHash(t)
	pool := zzPoolOf(t)
	present := make([]bool, len(pool))
	final := zzPlanSubset(t, "final.subset", present)
	n := len(final)
	split := t.Range("split", 0, n)
	reverse := n >= 2 && t.Bool("reverse")
	// extra key: one of the keys outside the map, or none
	var outside []int
	for i := range pool {
		if !present[i] {
			outside = append(outside, i)
		}
	}
	extra := -1
	if c := t.Choice("extra", len(outside)+1); c > 0 {
		extra = outside[c-1]
	}
	ownBatch := extra >= 0 && t.Bool("extra.deletedInOwnBatch")
	overwrite := split > 0 && t.Bool("overwrite")

	vals := &zzValues{t: t}
	idx := make([]int, n)
	fin := make([][]byte, n)
	for j, op := range final {
		idx[j], fin[j] = op.key, vals.fresh()
	}

	// (A) one batch
	a := zzNewBuild(t, vals)
	rootA, err := a.setValues(idx, fin)
	t.Assert(err == nil, "single batch succeeds")
	if err != nil {
		return
	}

	// (B) a history
	if reverse {
		for i, j := 0, n-1; i < j; i, j = i+1, j-1 {
			idx[i], idx[j] = idx[j], idx[i]
			fin[i], fin[j] = fin[j], fin[i]
		}
	}
	b := zzNewBuild(t, vals)
	var k1, k2 []int
	var v1, v2 [][]byte
	if extra >= 0 {
		k1, v1 = append(k1, extra), append(v1, vals.fresh())
	}
	for j := 0; j < split; j++ {
		v := fin[j]
		if overwrite && j == 0 {
			v = vals.fresh()
		}
		k1, v1 = append(k1, idx[j]), append(v1, v)
	}
	for j := split; j < n; j++ {
		k2, v2 = append(k2, idx[j]), append(v2, fin[j])
	}
	if overwrite {
		k2, v2 = append(k2, idx[0]), append(v2, fin[0])
	}
	_, err = b.setValues(k1, v1)
	t.Assert(err == nil, "first batch of the history succeeds")
	if err != nil {
		return
	}
	if extra >= 0 {
		if ownBatch {
			_, err = b.setValues([]int{extra}, [][]byte{{}})
			t.Assert(err == nil, "the batch deleting the extra key succeeds")
			if err != nil {
				return
			}
		} else {
			k2, v2 = append(k2, extra), append(v2, []byte{})
		}
	}
	rootB, err := b.setValues(k2, v2)
	t.Assert(err == nil, "last batch of the history succeeds")
	if err != nil {
		return
	}
	t.Assert(bytes.Equal(rootA, rootB), "the same map reached by one batch and by a history (other order, several batches, overwrite, intermediate insert+delete) has the same root")
	t.Assert(bytes.Equal(rootB, a.refRoot()) && bytes.Equal(b.refRoot(), a.refRoot()), "and that root is the LIP-0039 root of the map")
	if extra >= 0 {
		t.Reach("extra-key")
	}
	if overwrite {
		t.Reach("overwrite")
	}
	t.Reach("end")
}

// zzProveVerify: Prove on the trie for the pool keys q (in that order) succeeds, the proof verifies
// against root, and every query shows what the map says: the stored value for a present key; for an
// absent key either an empty value under the key itself or another leaf of the map (with its value).
func zzProveVerify(t *zzT, tr *trie, db *zzMemDB, pool, cur [][]byte, q []int, root []byte) (*Proof, [][]byte, bool) {
	keys := make([][]byte, len(q))
	for j, i := range q {
		keys[j] = append([]byte{}, pool[i]...)
	}
	proof, err := tr.Prove(db, keys)
	t.Assert(err == nil && proof != nil, "Prove succeeds (every stored node on the paths of the query keys is found)")
	if err != nil || proof == nil {
		return nil, nil, false
	}
	t.Assert(len(proof.Queries) == len(q), "one query per query key")
	if len(proof.Queries) != len(q) {
		return nil, nil, false
	}
	for j, i := range q {
		pq := proof.Queries[j]
		if cur[i] != nil {
			t.Assert(bytes.Equal(pq.Key, pool[i]) && bytes.Equal(pq.Value, cur[i]), "the query of a present key shows the stored value")
			continue
		}
		if len(pq.Value) == 0 {
			t.Assert(bytes.Equal(pq.Key, pool[i]), "an empty-value query of an absent key is in its own name")
			continue
		}
		other := -1
		for o := range pool {
			if bytes.Equal(pq.Key, pool[o]) {
				other = o
			}
		}
		t.Assert(other >= 0 && other != i && cur[other] != nil && bytes.Equal(pq.Value, cur[other]), "the query of an absent key shows absence: another leaf of the map with its stored value")
	}
	ok, verr := Verify(keys, proof.clone(), root, zzBuildKeyLen)
	t.Assert(ok && verr == nil, "the generated proof verifies against the root")
	return proof, keys, true
}

// C10.f reopen: after the first batch (any subset of the pool) the trie is reopened with
// NewTrie(latest root, keyLength) over (a copy of) the same database; the next batch applied to the live
// trie and to the reopened one gives the same root (the reference root); a trie reopened once more at
// that root proves a query key.
//
//zz:opt loop=300 require=end sched=0 gor=3000 hashdepth=64
//zz:quick P=3 K=1 TAG=1
//zz:thorough P=4 K=2 TAG=1 budget=3600s
func zzH_C10_reopen(t *zzT) {
	zzPinEmptyHash(t)
	pool := zzPoolOf(t)
	present := make([]bool, len(pool))
	first := zzPlanSubset(t, "initial.subset", present)
	next := zzPlanBatch(t, "batch", t.Range("batch.len", 1, t.Param("K", 1)), present)
	query := t.Choice("query", len(pool))

	s := zzNewBuild(t, &zzValues{t: t})
	root0, err := s.update(first)
	t.Assert(err == nil, "first batch succeeds")
	if err != nil {
		return
	}
	re := NewTrie(append([]byte{}, root0...), zzBuildKeyLen)
	dbRe := s.db.clone()
	keys, vals := s.materialise(next)
	rootLive, errLive := s.tr.Update(s.db, keys, vals)
	rootRe, errRe := re.Update(dbRe, keys, vals)
	s.record(next, vals)
	t.Assert(errLive == nil && errRe == nil, "the live trie and the reopened trie accept the next batch")
	if errLive != nil || errRe != nil {
		return
	}
	t.Assert(bytes.Equal(rootLive, rootRe), "a trie reopened at its latest root continues identically")
	t.Assert(bytes.Equal(rootRe, s.refRoot()), "the continued root is the LIP-0039 root of the map")
	again := NewTrie(append([]byte{}, rootRe...), zzBuildKeyLen)
	if _, _, ok := zzProveVerify(t, again, dbRe, pool, s.cur, []int{query}, rootRe); !ok {
		return
	}
	t.Reach("end")
}

// C10.g prove_verify: after the first batch (any subset) and one later batch of 1..K operations, Prove
// for 1..Q query keys of the pool (present and absent ones; ORDERED=1: every ordered pair, the same key twice included)
// succeeds and verifies, each query shows what the map says (zzProveVerify), and a claim that disagrees
// with the map does not verify: another value for a present key, absence of a present key, presence
// of an absent key, a different root.
//
//zz:opt loop=300 require=end,present,absent,stale-root,unchanged-subtree-then-proved sched=0 gor=3000 hashdepth=64
//zz:quick P=3 K=1 Q=2 ORDERED=0 TAG=1
//zz:thorough P=4 K=1 Q=2 ORDERED=1 TAG=1 budget=3600s
func zzH_C10_prove_verify(t *zzT) {
	zzPinEmptyHash(t)
	pool := zzPoolOf(t)
	present := make([]bool, len(pool))
	first := zzPlanSubset(t, "initial.subset", present)
	before := append([]bool{}, present...)
	next := zzPlanBatch(t, "batch", t.Range("batch.len", 1, t.Param("K", 1)), present)
	nq := t.Range("queries.len", 1, t.Param("Q", 2))
	q := make([]int, nq)
	switch {
	case t.Param("ORDERED", 0) == 1:
		// thorough: every ordered choice, the same key twice included
		for j := range q {
			q[j] = t.Choice(t.Name("query", j), len(pool))
		}
	case nq == 1:
		q[0] = t.Choice("query[0]", len(pool))
	default:
		// quick: every unordered pair i < j, queried as (i, j) or (j, i) depending on the pair
		i := t.Choice("query[0]", len(pool)-1)
		j := i + 1 + t.Choice("query[1]", len(pool)-1-i)
		q[0], q[1] = i, j
		if (i+j)%2 == 1 {
			q[0], q[1] = j, i
		}
	}

	s := zzNewBuild(t, &zzValues{t: t})
	stale, err := s.update(first)
	t.Assert(err == nil, "first batch succeeds")
	if err != nil {
		return
	}
	changed := false
	for _, op := range next {
		changed = changed || op.kind == 0 || (op.kind == 1 && s.cur[op.key] != nil)
	}
	root, err := s.update(next)
	t.Assert(err == nil, "second batch succeeds")
	if err != nil {
		return
	}
	proof, keys, ok := zzProveVerify(t, s.tr, s.db, pool, s.cur, q, root)
	if !ok {
		return
	}

	// claims that disagree with the map, on the first query
	forged := t.Bytes("forged.value", hashSize)
	if t.Param("TAG", 0) == 1 {
		forged[0] = 0xff
	}
	if v := s.cur[q[0]]; v != nil {
		t.Assume(!bytes.Equal(forged, v))
		bad := proof.clone()
		bad.Queries[0].Value = forged
		for j := range q { // a duplicate of the query must carry the same claim, or Verify reports "duplicate query"
			if q[j] == q[0] {
				bad.Queries[j].Value = forged
			}
		}
		ok, _ := Verify(keys, bad, root, zzBuildKeyLen)
		t.Assert(!ok, "no proof verifies for another value of a present key")
		bad = proof.clone()
		for j := range q {
			if q[j] == q[0] {
				bad.Queries[j].Value = codec.Hex{}
			}
		}
		ok, _ = Verify(keys, bad, root, zzBuildKeyLen)
		t.Assert(!ok, "no proof verifies for the absence of a present key")
		t.Reach("present")
	} else {
		bad := proof.clone()
		for j := range q {
			if q[j] == q[0] {
				bad.Queries[j].Key = append(codec.Hex{}, pool[q[0]]...)
				bad.Queries[j].Value = forged
			}
		}
		ok, _ := Verify(keys, bad, root, zzBuildKeyLen)
		t.Assert(!ok, "no proof verifies for the presence of an absent key")
		t.Reach("absent")
	}
	// different roots: the root before the last batch (when that batch changed the map) and the root of
	// the map that differs in the first query key (forged value instead of the stored one / of absence)
	if changed {
		ok, _ = Verify(keys, proof.clone(), stale, zzBuildKeyLen)
		t.Assert(!ok, "the proof does not verify against the root of an earlier, different map")
		t.Reach("stale-root")
	}
	saved := s.cur[q[0]]
	s.cur[q[0]] = forged
	other := s.refRoot()
	s.cur[q[0]] = saved
	ok, _ = Verify(keys, proof.clone(), other, zzBuildKeyLen)
	t.Assert(!ok, "the proof does not verify against the root of a map that differs in a query key")

	if zzUnchanging(pool, before, next) {
		for _, i := range q {
			for _, op := range next {
				if pool[i][0] == pool[op.key][0] && zzSharesLower(pool, before, op.key) {
					t.Reach("unchanged-subtree-then-proved")
				}
			}
		}
	}
	t.Reach("end")
}

// C10.g with THREE layers of subtrees: 3-byte keys, three of which share their first 16 bits (pool
// zzBuildPool3), so that proofs have to descend through a lower subtree of a lower subtree — bins there
// are chosen by the third key byte. Same obligations as zzH_C10_prove_verify.
//
//zz:opt loop=400 require=end,present,absent sched=0 gor=4000 hashdepth=96
//zz:quick KL=3 P=3 K=1 Q=1 ORDERED=0 TAG=1 budget=300s
//zz:thorough KL=3 P=4 K=1 Q=2 ORDERED=0 TAG=1 budget=3600s
func zzH_C10_prove_verify_three_layers(t *zzT) { zzH_C10_prove_verify(t) }

// C10 "independent of … batching, overwrites": a batch handed to Update may name a key more than once (the
// first occurrence counts; later ones are dropped by Update's own de-duplication). A batch of three entries
// over two pool keys with every arrangement of the repeat ([a a b], [a b a], [b a a], [a b b] …), fresh
// symbolic values: the root is the reference root of the map in which every key has the value of its FIRST
// occurrence, on an empty trie and on a trie that already holds the keys.
// (seed C10-7 paired the n-th kept key with values[n] of the input batch.)
//
//zz:opt loop=300 require=end sched=0 gor=3000 hashdepth=64
//zz:quick P=3 TAG=1
//zz:thorough P=4 TAG=1 budget=1800s
func zzH_C10_batch_repeated_key(t *zzT) {
	vals := &zzValues{t: t}
	s := zzNewBuild(t, vals)
	P := len(s.pool)
	if t.Bool("prefilled") {
		var ks, vs [][]byte
		for i := 0; i < 2; i++ {
			v := vals.fresh()
			ks, vs = append(ks, s.pool[i]), append(vs, v)
			s.cur[i] = v
		}
		_, err := s.tr.Update(s.db, ks, vs)
		t.Assert(err == nil, "setup: Update succeeds")
	}
	// three entries; each names one of the first P pool keys; at least one key is named twice
	idx := make([]int, 3)
	for i := range idx {
		idx[i] = t.Range(t.Name("entry.key", i), 0, P-1)
	}
	t.Assume(idx[0] == idx[1] || idx[0] == idx[2] || idx[1] == idx[2])
	var ks, vs [][]byte
	seen := make([]bool, P)
	for _, k := range idx {
		v := vals.fresh()
		ks, vs = append(ks, s.pool[k]), append(vs, v)
		if !seen[k] {
			seen[k] = true
			s.cur[k] = v
		}
	}
	root, err := s.tr.Update(s.db, ks, vs)
	t.Assert(err == nil, "Update of a batch with a repeated key succeeds")
	t.Assert(err != nil || bytes.Equal(root, s.refRoot()), "a batch with a repeated key commits the first value of every key (root = reference root of that map)")
	t.Reach("end")
}

// C10 "a proof generated for ANY set of query keys verifies …, showing the stored value for present keys and
// absence for missing ones": multi-key proofs that MIX present and absent keys on a fixed map. Keys 0000, 0001
// and 8000 are stored (symbolic values); two or three query keys are chosen from {0000, 0001, 8000, 0080, 0100,
// ffff} — absent keys resolving to an empty slot below the node where the paths join (0080, 0100), to the root's
// empty side, or to a foreign leaf. Prove + Verify must succeed for every choice.
// (seed C10-10 stopped eliding the ancestors of queries that end in an empty slot.)
//
//zz:opt loop=300 require=end,mixed sched=0 gor=3000 hashdepth=64 budget=240s
//zz:quick P=6 Q=2 TAG=1
//zz:thorough P=6 Q=3 TAG=1 budget=1800s
func zzH_C10_prove_mixed_present_absent(t *zzT) {
	vals := &zzValues{t: t}
	s := zzNewBuild(t, vals)
	var ks, vs [][]byte
	for _, i := range []int{0, 1, 2} { // 0000, 0001, 8000
		v := vals.fresh()
		ks, vs = append(ks, s.pool[i]), append(vs, v)
		s.cur[i] = v
	}
	root, err := s.tr.Update(s.db, ks, vs)
	t.Assert(err == nil && bytes.Equal(root, s.refRoot()), "the map is built (root = reference root)")
	if err != nil {
		return
	}
	nq := t.Param("Q", 2)
	q := make([]int, 0, nq)
	last := -1
	present, absent := false, false
	for j := 0; j < nq; j++ {
		i := t.Range(t.Name("query", j), last+1, len(s.pool)-(nq-j))
		q = append(q, i)
		last = i
		if s.cur[i] != nil {
			present = true
		} else {
			absent = true
		}
	}
	zzProveVerify(t, s.tr, s.db, s.pool, s.cur, q, root)
	if present && absent {
		t.Reach("mixed")
	}
	t.Reach("end")
}
