//go:build verif

package smt

import (
	"bytes"

	"github.com/LiskHQ/lisk-engine/pkg/codec"
)

// C10 (sparse Merkle trie, LIP-0039) — tree CONSTRUCTION and STORAGE (DESIGN C10.d–g): the real
// NewTrie / Update / Prove driven over an in-memory model of the node database for HISTORIES of
// batches, against an independent reference root computed from the final key->value map.
//
// Keys are 2 bytes (keyLength 2: two levels of subtrees of height 8, DefaultSubtreeHeight) and are
// taken from a small concrete pool by t.Choice (updateSubtree bins keys by int(key[b]) into 256 slots:
// symbolic keys would fork 256 ways per key). Values are 32 symbolic bytes (the stored leaf format
// of newSubTree fixes the value width to hashSize; every caller stores hashes). SHA-256 is the engine's
// collision-free uninterpreted function, so "root ≡ reference root" reads "for all values".

// zzBuildPool: keys chosen for structure.
//
//	0000 / 0001  same lower subtree, adjacent, differ in the LAST bit (leaves at depth 8 of the lower subtree)
//	0080         same lower subtree, differs from 0000 in the first bit of the second byte
//	8000         differs from the others in the FIRST bit (depth 1 of the top subtree)
//	0100         neighbouring bin of the top subtree (differs from 0000 in the last bit of the first byte)
//	ffff         last bin, last slot
func zzBuildPool() [][]byte {
	return [][]byte{{0x00, 0x00}, {0x00, 0x01}, {0x00, 0x80}, {0x80, 0x00}, {0x01, 0x00}, {0xff, 0xff}}
}

const zzBuildKeyLen = 2

// ---- in-memory model of DBReadWriter: association list, newest entry last ----

type zzMemDB struct {
	keys, vals [][]byte
}

// Get scans from the newest entry; keys are node hashes (compared as terms by the solver).
func (d *zzMemDB) Get(key []byte) ([]byte, bool) {
	for i := len(d.keys) - 1; i >= 0; i-- {
		if bytes.Equal(d.keys[i], key) {
			return d.vals[i], true
		}
	}
	return nil, false
}

// Set appends; older entries of the same key are shadowed.
func (d *zzMemDB) Set(key, val []byte) {
	d.keys = append(d.keys, append([]byte{}, key...))
	d.vals = append(d.vals, append([]byte{}, val...))
}

// Del removes every entry of the key.
func (d *zzMemDB) Del(key []byte) {
	var keys, vals [][]byte
	for i := range d.keys {
		if !bytes.Equal(d.keys[i], key) {
			keys, vals = append(keys, d.keys[i]), append(vals, d.vals[i])
		}
	}
	d.keys, d.vals = keys, vals
}

func (d *zzMemDB) clone() *zzMemDB {
	return &zzMemDB{keys: append([][]byte{}, d.keys...), vals: append([][]byte{}, d.vals...)}
}

// ---- reference LIP-0039 root of a key->value map (independent of the package's helpers) ----

// zzRefSMTRoot: root of the subtree at bit depth d that contains exactly the given keys (all sharing
// their first d bits): no key -> empty hash; one key -> its leaf hash (a lone leaf is lifted to the
// top of its subtree); otherwise branch(root(keys with bit d = 0), root(keys with bit d = 1)).
func zzRefSMTRoot(keys, vals [][]byte, d int) []byte {
	if len(keys) == 0 {
		return zzRefEmpty()
	}
	if len(keys) == 1 {
		return zzRefSMTLeaf(keys[0], vals[0])
	}
	var lk, lv, rk, rv [][]byte
	for i, k := range keys {
		if zzKeyBit(k, d) {
			rk, rv = append(rk, k), append(rv, vals[i])
		} else {
			lk, lv = append(lk, k), append(lv, vals[i])
		}
	}
	return zzRefSMTBranch(zzRefSMTRoot(lk, lv, d+1), zzRefSMTRoot(rk, rv, d+1))
}

// ---- the state of a history: the map (per pool key: stored value or nil), the trie, the database ----

type zzBuild struct {
	t    *zzT
	pool [][]byte
	cur  [][]byte // cur[i]: value stored under pool[i], nil = absent
	db   *zzMemDB
	tr   *trie
	nval int
	all  [][]byte // every value issued so far
}

func zzNewBuild(t *zzT) *zzBuild {
	zzPinEmptyHash(t)
	pool := zzBuildPool()[:t.Param("P", 4)]
	return &zzBuild{t: t, pool: pool, cur: make([][]byte, len(pool)), db: &zzMemDB{}, tr: NewTrie(nil, zzBuildKeyLen)}
}

// value returns a fresh symbolic value (32 bytes). With DISTINCT=1 it differs from every value issued
// before (the case "the value written equals the stored one" is the explicit operation kind 2).
func (s *zzBuild) value() []byte {
	v := s.t.Bytes(s.t.Name("value", s.nval), hashSize)
	s.nval++
	if s.t.Param("DISTINCT", 0) == 1 {
		for _, o := range s.all {
			s.t.Assume(!bytes.Equal(v, o))
		}
	}
	s.all = append(s.all, v)
	return v
}

// refRoot: reference root of the current map.
func (s *zzBuild) refRoot() []byte { return zzRefRootOf(s.pool, s.cur) }

func zzRefRootOf(pool, cur [][]byte) []byte {
	var ks, vs [][]byte
	for i, v := range cur {
		if v != nil {
			ks, vs = append(ks, pool[i]), append(vs, v)
		}
	}
	return zzRefSMTRoot(ks, vs, 0)
}

// apply records a batch in the map (keys of a batch are distinct).
func (s *zzBuild) apply(idx []int, vals [][]byte) {
	for j, i := range idx {
		if len(vals[j]) == 0 {
			s.cur[i] = nil
		} else {
			s.cur[i] = vals[j]
		}
	}
}

func (s *zzBuild) keysOf(idx []int) [][]byte {
	keys := make([][]byte, len(idx))
	for j, i := range idx {
		keys[j] = append([]byte{}, s.pool[i]...)
	}
	return keys
}

// update runs one batch through the real trie and records it in the map.
func (s *zzBuild) update(idx []int, vals [][]byte) ([]byte, error) {
	root, err := s.tr.Update(s.db, s.keysOf(idx), vals)
	s.apply(idx, vals)
	return root, err
}

// initial: the first batch of every history inserts an arbitrary subset of the pool (chosen by a bit
// mask, possibly empty) with fresh values in pool order. Returns false when Update failed.
func (s *zzBuild) initial() bool {
	mask := s.t.Range("initial.subset", 0, (1<<uint(len(s.pool)))-1)
	var idx []int
	var vals [][]byte
	for i := range s.pool {
		if mask>>uint(i)&1 == 1 {
			idx, vals = append(idx, i), append(vals, s.value())
		}
	}
	root, err := s.update(idx, vals)
	s.t.Assert(err == nil && bytes.Equal(root, s.refRoot()), "root after the first batch (any subset of the pool, from the empty trie) equals the LIP-0039 root; empty map gives the empty hash")
	return err == nil
}

// batch chooses n operations on distinct pool keys. Operation kinds: 0 = set a fresh value (insert or
// overwrite), 1 = delete (empty value; the key may be absent), 2 = set the value that is stored already
// (only for present keys).
func (s *zzBuild) batch(name string, n int) (idx []int, vals [][]byte) {
	t := s.t
	for j := 0; j < n; j++ {
		i := t.Choice(t.Name(name+".key", j), len(s.pool))
		for _, o := range idx {
			t.Assume(o != i)
		}
		var v []byte
		switch t.Choice(t.Name(name+".kind", j), 3) {
		case 0:
			v = s.value()
		case 1:
			v = []byte{}
		case 2:
			t.Assume(s.cur[i] != nil)
			v = append([]byte{}, s.cur[i]...)
		}
		idx, vals = append(idx, i), append(vals, v)
	}
	return idx, vals
}

// history runs batches after the initial one until T operations are spent: each batch has 1..K
// operations; after every batch the root equals the reference root of the map at that moment.
// Returns false when an Update failed.
func (s *zzBuild) history(T, K int) bool {
	t := s.t
	for b := 1; T > 0; b++ {
		hi := K
		if T < hi {
			hi = T
		}
		n := t.Range(t.Name("batch.len", b), 1, hi)
		T -= n
		idx, vals := s.batch(t.Name("batch", b), n)
		root, err := s.update(idx, vals)
		t.Assert(err == nil, "Update of a later batch succeeds (every stored node that is still referenced is found)")
		if err != nil {
			return false
		}
		t.Assert(bytes.Equal(root, s.refRoot()), "root after every later batch (set / overwrite / delete / re-set / delete of an absent key) equals the LIP-0039 root of the map")
		t.Assert(bytes.Equal(root, s.tr.root), "Update returns the root it keeps")
	}
	return true
}

// C10.d build_root: initial batch (any subset of the pool) followed by batches of 1..K operations, T
// operations in total; the root after EVERY batch equals the reference root of the map at that moment.
//
//zz:opt loop=300 require=end sched=0
//zz:quick P=4 T=2 K=2
//zz:thorough P=5 T=3 K=2
func zzH_C10_build_root(t *zzT) {
	s := zzNewBuild(t)
	if !s.initial() {
		return
	}
	if !s.history(t.Param("T", 2), t.Param("K", 2)) {
		return
	}
	t.Reach("end")
}

var _ = codec.Hex{}
