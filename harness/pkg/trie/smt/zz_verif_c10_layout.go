//go:build verif

package smt

import "bytes"

// C10 "the root is a function of the current key->value map only — independent of … subtree layout":
// the trie's subtree height is a configuration of the STORAGE layout (SetSubtreeHeight: 8 by default,
// 4 supported by getBinIndex), the LIP-0039 root must not depend on it. The real NewTrie /
// SetSubtreeHeight(4) / Update run over the in-memory node database for a first batch (any subset of
// the pool) and one further operation (set / overwrite / delete / re-set / delete of an absent key);
// after each batch the root equals the independent reference root of the map, a proof for any pool key
// (present or absent) generated under that layout verifies, and the same final map built in one batch by
// a trie with the default layout has the same root.
//
// Pool: with height-4 subtrees a key is binned by the HIGH nibble of a byte at bit depths 0, 8, … and
// by the LOW nibble at depths 4, 12, …; 1234 / 1534 share the high nibble of the first byte and differ
// in its low nibble (separated by the second layer of subtrees), 1534 / 1577 share the whole first
// byte (separated by the third layer), a001 is alone in its top bin.
func zzLayoutPool() [][]byte {
	return [][]byte{{0x12, 0x34}, {0x15, 0x34}, {0x15, 0x77}, {0xa0, 0x01}}
}

//zz:opt loop=300 require=end,low-nibble-separates,third-layer sched=0 gor=3000 hashdepth=64
//zz:quick P=4 TAG=1
//zz:thorough P=4 TAG=1 budget=3600s
func zzH_C10_subtree_height_layout(t *zzT) {
	zzPinEmptyHash(t)
	zzBuildKeyLen = 2
	pool := zzLayoutPool()[:t.Param("P", 3)]
	present := make([]bool, len(pool))
	first := zzPlanSubset(t, "initial.subset", present)
	lowNibble := present[0] && present[1]
	thirdLayer := present[1] && present[2]
	later := zzPlanBatch(t, "batch", 1, present)
	query := t.Choice("query", len(pool))
	lowNibble = lowNibble || (present[0] && present[1])
	thirdLayer = thirdLayer || (present[1] && present[2])

	vals := &zzValues{t: t}
	s := &zzBuild{t: t, pool: pool, cur: make([][]byte, len(pool)), db: &zzMemDB{}, tr: NewTrie(nil, zzBuildKeyLen), vals: vals}
	s.tr.SetSubtreeHeight(4)
	root, err := s.update(first)
	t.Assert(err == nil && bytes.Equal(root, s.refRoot()), "subtree height 4: root after the first batch equals the LIP-0039 root of the map")
	if err != nil {
		return
	}
	root, err = s.update(later)
	t.Assert(err == nil, "subtree height 4: Update of a later batch succeeds")
	if err != nil {
		return
	}
	t.Assert(bytes.Equal(root, s.refRoot()), "subtree height 4: root after a later operation equals the LIP-0039 root of the map")

	// an inclusion / non-inclusion proof generated under the height-4 layout verifies against that root and
	// shows what the map says for the queried key
	if _, _, ok := zzProveVerify(t, s.tr, s.db, pool, s.cur, []int{query}, root); !ok {
		return
	}

	// the same map under the default layout (height 8), one batch over a fresh database
	var idx []int
	var fin [][]byte
	for i, v := range s.cur {
		if v != nil {
			idx, fin = append(idx, i), append(fin, v)
		}
	}
	d := &zzBuild{t: t, pool: pool, cur: make([][]byte, len(pool)), db: &zzMemDB{}, tr: NewTrie(nil, zzBuildKeyLen), vals: vals}
	rootD, err := d.setValues(idx, fin)
	t.Assert(err == nil && bytes.Equal(rootD, root), "the root does not depend on the subtree height (4 vs 8)")
	if lowNibble {
		t.Reach("low-nibble-separates")
	}
	if thirdLayer {
		t.Reach("third-layer")
	}
	t.Reach("end")
}
