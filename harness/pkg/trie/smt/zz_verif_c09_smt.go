//go:build verif

package smt

import "github.com/LiskHQ/lisk-engine/pkg/codec"

// C09.d (sparse Merkle trie): Verify / CalculateRoot on an untrusted proof and newSubTree on
// arbitrary stored bytes never panic and never loop without bound. keyLength is 1; list lengths are
// concretised, every byte of keys, values, bitmaps and sibling hashes is symbolic.

// zzQuery returns a query proof: key klo..khi bytes, value 0..1 byte, bitmap 0..bhi bytes, all bytes
// symbolic. One-byte bitmaps are limited to H significant bits by the tier parameter H (every bitmap
// bit and every key bit below it is a two-way fork of CalculateRoot: 4^H paths per query); two-byte
// bitmaps are unconstrained.
func zzQuery(t *zzT, i int, klo, khi, bhi int) *QueryProof {
	kl := t.Range(t.Name("key.len", i), klo, khi)
	vl := t.Range(t.Name("value.len", i), 0, 1)
	bl := t.Range(t.Name("bitmap.len", i), 0, bhi)
	q := &QueryProof{
		Key:    t.Bytes(t.Name("key", i), kl),
		Value:  t.Bytes(t.Name("value", i), vl),
		Bitmap: t.Bytes(t.Name("bitmap", i), bl),
	}
	if bl == 1 {
		t.Assume(int(q.Bitmap[0]) < 1<<uint(t.Param("H", 3)))
	}
	return q
}

// zzSiblings returns 0..max sibling hashes of lo..1 symbolic bytes each.
func zzSiblings(t *zzT, max, lo int) []codec.Hex {
	ns := t.Range("siblings.len", 0, max)
	res := make([]codec.Hex, ns)
	for i := range res {
		res[i] = t.Bytes(t.Name("sibling", i), t.Range(t.Name("sibling.len", i), lo, 1))
	}
	return res
}

// Verify with keyLength 1 on a proof with at most one query of arbitrary shape (proof key 0..2 bytes,
// value 0..1, bitmap 0..2 bytes, 0..2 sibling hashes of 0..1 bytes), 0..2 query keys of 0..2 bytes and
// an arbitrary root: returns a verdict or an error.
//
//zz:opt loop=40 require=returned
//zz:quick H=4
//zz:thorough H=6
func zzH_C09_smt_verify_one(t *zzT) {
	nq := t.Range("queries.len", 0, 1)
	nk := t.Range("queryKeys.len", 0, 2)
	keys := make([][]byte, nk)
	for i := range keys {
		kl := 1
		if nk == nq {
			kl = t.Range(t.Name("queryKey.len", i), 0, 2)
		}
		keys[i] = t.Bytes(t.Name("queryKey", i), kl)
	}
	proof := &Proof{Queries: make([]*QueryProof, nq)}
	if nq == 1 {
		if nk == 1 && len(keys[0]) == 1 {
			proof.Queries[0] = zzQuery(t, 0, 0, 2, 2)
			proof.SiblingHashes = zzSiblings(t, 2, 0)
		} else {
			// rejected before the query is read
			proof.Queries[0] = &QueryProof{Key: codec.Hex{0}}
		}
	}
	ok, err := Verify(keys, proof, t.Bytes("root", 32), 1)
	t.Assert(!(ok && err != nil), "no verdict true together with an error")
	if nk != nq || (nk == 1 && len(keys[0]) != 1) {
		t.Assert(!ok && err == nil, "count / key length mismatch is rejected")
	}
	t.Reach("returned")
}

// Verify with keyLength 1 on a proof with two queries (duplicate detection, filtering, sorting,
// sibling merge): proof keys of 1 byte, values 0..1 byte, bitmaps 0..1 byte (< 2^H), 0..2 sibling
// hashes of 1 byte. After its first loop Verify never looks at the query keys again and that loop
// treats every query on its own except for the duplicate map (arbitrary query keys: see
// zzH_C09_smt_verify_one); here each query key is either the proof key itself or, for query 0 only,
// an independent symbolic byte.
//
//zz:opt loop=40 require=returned
//zz:quick H=2
//zz:thorough H=3
func zzH_C09_smt_verify_two(t *zzT) {
	proof := &Proof{Queries: []*QueryProof{zzQuery(t, 0, 1, 1, 1), zzQuery(t, 1, 1, 1, 1)}}
	proof.SiblingHashes = zzSiblings(t, 2, 1)
	keys := [][]byte{{proof.Queries[0].Key[0]}, {proof.Queries[1].Key[0]}}
	if t.Bool("queryKey[0].free") {
		keys[0] = t.Bytes("queryKey[0]", 1)
	}
	ok, err := Verify(keys, proof, t.Bytes("root", 32), 1)
	t.Assert(!(ok && err != nil), "no verdict true together with an error")
	t.Reach("returned")
}

// CalculateRoot called directly (as Verify does after filtering): queries built by newQueryProof
// from arbitrary keys (1 byte), values and bitmaps of at most 8 bits.
//
//zz:opt loop=40 require=returned
//zz:quick Q=2 H=2
//zz:thorough Q=2 H=3
func zzH_C09_smt_calculate_root(t *zzT) {
	nq := t.Range("queries.len", 0, t.Param("Q", 2))
	qs := make(QueryProofs, nq)
	for i := range qs {
		h := t.Range(t.Name("height", i), 0, t.Param("H", 2))
		bm := make([]bool, h)
		for j := range bm {
			bm[j] = t.Bool(t.Name(t.Name("bit", i), j))
		}
		qs[i] = newQueryProof(t.Bytes(t.Name("key", i), 1), t.Bytes(t.Name("value", i), t.Range(t.Name("value.len", i), 0, 1)), bm, [][]byte{}, [][]byte{})
	}
	root, err := CalculateRoot(zzSiblings(t, 2, 0), qs)
	t.Assert(err != nil || len(root) == 32, "root or error")
	t.Reach("returned")
}

// newSubTree (parser of stored subtree bytes) on an arbitrary buffer of <= N bytes. The first byte
// (number of structure entries - 1) is used as a slice bound: every value >= N slices past the buffer
// in the same way, so it is restricted to [0, N] plus the representative 255 (the engine concretises
// slice bounds and gives up above 64 candidates: "bound: concretisation cap exceeded at slice high").
// The other bytes (structure heights and node prefixes) are restricted to [0, B] plus 255: treeHasher
// recurses once per height value down from the largest structure byte, so each unrestricted structure
// byte costs a 256-way case split.
//
//zz:opt loop=40 require=returned
//zz:quick N=6 B=3
//zz:thorough N=7 B=9
func zzH_C09_smt_new_subtree(t *zzT) {
	N := t.Param("N", 6)
	n := t.Range("data.len", 0, N)
	data := t.Bytes("data", n)
	for i := range data {
		if i == 0 {
			t.Assume(int(data[0]) <= N || data[0] == 255)
		} else {
			t.Assume(int(data[i]) <= t.Param("B", 3) || data[i] == 255)
		}
	}
	st, err := newSubTree(data, 1, treeHasher)
	t.Assert(err != nil || st != nil, "subtree or error")
	t.Reach("returned")
}
