//go:build verif

package smt

import (
	"bytes"

	"github.com/LiskHQ/lisk-engine/pkg/codec"
	"github.com/LiskHQ/lisk-engine/pkg/crypto"
)

// C10 (sparse Merkle trie, LIP-0039) — verifier side and leaf semantics only (DESIGN C10.a–c).
// keyLength is 1 byte, bitmaps have at most H bits, SHA-256 is the engine's collision-free
// uninterpreted function. Tree construction over symbolic keys is out of reach (updateSubtree bins
// keys by int(key[b]) into 256 slots) and is not attempted.

func zzRefEmpty() []byte { return crypto.Hash([]byte{}) }

func zzRefSMTLeaf(key, value []byte) []byte {
	return crypto.Hash(append(append([]byte{0x00}, key...), value...))
}

func zzRefSMTBranch(l, r []byte) []byte {
	return crypto.Hash(append(append([]byte{0x01}, l...), r...))
}

// zzKeyBit returns bit i (0 = most significant bit of the first byte) of key.
func zzKeyBit(key []byte, i int) bool { return (key[i/8]>>(7-uint(i)%8))&1 == 1 }

// zzPinEmptyHash makes the engine register SHA-256("") among the hash applications of the path
// (the package-level emptyHash was computed before any symbolic hash existed), so that no symbolic
// leaf or branch hash can coincide with the empty hash.
func zzPinEmptyHash(t *zzT) {
	_ = crypto.Hash(t.Bytes("hashmodel.seed", 1))
	_ = crypto.Hash([]byte{})
}

// zzRefVerifyOne: LIP-0039 verification of a single query, written as one fold from the leaf to the
// root. bitmap bit j (0 = first significant bit) belongs to the node at depth h-j.
func zzRefVerifyOne(key []byte, q *QueryProof, sibs []codec.Hex, root []byte) bool {
	hash, ok := zzRefFoldOne(key, q, sibs, true)
	return ok && bytes.Equal(hash, root)
}

// zzRefFoldOne: the root the single query folds to, and whether the proof is structurally acceptable.
func zzRefFoldOne(key []byte, q *QueryProof, sibs []codec.Hex, checkLen bool) ([]byte, bool) {
	if checkLen && len(q.Key) != len(key) {
		return nil, false // a proof entry names a key of the tree: keyLength bytes (else key||value can be re-split)
	}
	if len(q.Bitmap) > 0 && q.Bitmap[0] == 0 {
		return nil, false // bitmap with a leading zero byte is not canonical
	}
	var bm []bool
	for _, b := range q.Bitmap {
		for j := 7; j >= 0; j-- {
			bit := (b>>uint(j))&1 == 1
			if len(bm) > 0 || bit {
				bm = append(bm, bit)
			}
		}
	}
	h := len(bm)
	if !bytes.Equal(key, q.Key) {
		// non-inclusion through another leaf or an empty node: it must lie on the path of the key
		maxBits := 8 * len(key)
		if 8*len(q.Key) < maxBits {
			maxBits = 8 * len(q.Key)
		}
		cpl := 0
		for cpl < maxBits && zzKeyBit(key, cpl) == zzKeyBit(q.Key, cpl) {
			cpl++
		}
		if h > cpl {
			return nil, false
		}
	}
	if h > 8*len(q.Key) {
		return nil, false // one bitmap bit per layer on the path of the proof key
	}
	hash := zzRefEmpty()
	if len(q.Value) != 0 {
		hash = zzRefSMTLeaf(q.Key, q.Value)
	}
	next := 0
	for j := 0; j < h; j++ {
		sib := zzRefEmpty()
		if bm[j] {
			if next == len(sibs) {
				return nil, false
			}
			sib = sibs[next]
			next++
		}
		if len(sib) == 0 {
			return nil, false
		}
		if zzKeyBit(q.Key, h-j-1) {
			hash = zzRefSMTBranch(sib, hash)
		} else {
			hash = zzRefSMTBranch(hash, sib)
		}
	}
	return hash, true
}

// C10.a (one query): Verify ≡ the reference fold for an arbitrary single-query proof: query key 1 byte,
// proof key 0..2 bytes (a proof key of another length than keyLength is never acceptable; equal or not), value 0..1 byte, bitmap 0..1 byte below 2^H, 0..2 sibling
// hashes of 0..1 bytes... (contents symbolic), arbitrary root.
//
//zz:opt loop=40 require=accepted-or-rejected
//zz:quick H=4 KLO=0 KHI=2
//zz:thorough H=7 KLO=0 KHI=2
func zzH_C10_verify_one_ref(t *zzT) {
	zzPinEmptyHash(t)
	key := t.Bytes("queryKey", 1)
	q := zzQuery(t, 0, t.Param("KLO", 1), t.Param("KHI", 1), 1)
	sibs := zzSiblings(t, 2, 0)
	// the root is either the value the proof folds to (computed with the real hash natively, so that a
	// counterexample replays) or an arbitrary other string
	root := t.Bytes("root", 32)
	folded, foldOK := zzRefFoldOne(key, q.copy(), sibs, false)
	if foldOK && len(folded) == 32 {
		if t.Bool("root.isFold") {
			root = folded
		} else {
			t.Assume(!bytes.Equal(root, folded))
		}
	}
	// the reference runs on its own copy: Verify must not be able to influence it
	want := zzRefVerifyOne(key, q.copy(), sibs, root)
	got, err := Verify([][]byte{key}, &Proof{SiblingHashes: sibs, Queries: []*QueryProof{q}}, root, 1)
	t.Assert(got == want, "Verify accepts exactly the proofs the LIP-0039 fold accepts")
	t.Assert(err == nil || !got, "an error never comes with verdict true")
	t.Reach("accepted-or-rejected")
}

// ---- C10.b: soundness against a given two-leaf tree written out as a hash term ----

// zzTwoLeafTree: keys k1 != k2 (1 byte), non-empty values; returns the root and the hashes of
// every node that can serve as a sibling on a path of this tree.
func zzTwoLeafRoot(k1, v1, k2, v2 []byte) (root []byte, nodes [][]byte) {
	d := 0
	for zzKeyBit(k1, d) == zzKeyBit(k2, d) {
		d++
	}
	l1, l2 := zzRefSMTLeaf(k1, v1), zzRefSMTLeaf(k2, v2)
	node := zzRefSMTBranch(l1, l2)
	if zzKeyBit(k1, d) {
		node = zzRefSMTBranch(l2, l1)
	}
	nodes = [][]byte{l1, l2, node}
	for j := d - 1; j >= 0; j-- {
		if zzKeyBit(k1, j) {
			node = zzRefSMTBranch(zzRefEmpty(), node)
		} else {
			node = zzRefSMTBranch(node, zzRefEmpty())
		}
		nodes = append(nodes, node)
	}
	return node, nodes
}

// Soundness: against the root of the tree {k1: v1, k2: v2}, whenever Verify returns true every
// query of the proof is true of that map: a query with a value names a leaf of the tree with exactly
// that value, a query without value names a key that is not in the tree. Each query key equals the
// key of its proof entry (claims in their own name; foreign query keys are the subject of
// zzH_C10_verify_one_ref). Sibling hashes are drawn from the node hashes of the tree, the empty hash
// and an arbitrary 2-byte string, so that a counterexample replays natively with real SHA-256.
//
//zz:opt loop=40 require=accepted,rejected tier=thorough
//zz:thorough H=3 Q=2 S=1 SYMKEYS=0
func zzH_C10_sound_two_leaf(t *zzT) {
	zzPinEmptyHash(t)
	k1, k2 := []byte{0x80}, []byte{0xc0}
	if t.Param("SYMKEYS", 0) == 1 {
		k1, k2 = t.Bytes("k1", 1), t.Bytes("k2", 1)
		t.Assume(k1[0] != k2[0])
	}
	v1, v2 := t.Bytes("v1", 1), t.Bytes("v2", 1)
	root, nodes := zzTwoLeafRoot(k1, v1, k2, v2)
	pool := append(nodes, zzRefEmpty(), t.Bytes("junk", 2))

	nq := t.Range("queries.len", 1, t.Param("Q", 2))
	proof := &Proof{Queries: make([]*QueryProof, nq)}
	keys := make([][]byte, nq)
	for i := range proof.Queries {
		proof.Queries[i] = zzQuery(t, i, 1, 1, 1)
		keys[i] = []byte{proof.Queries[i].Key[0]}
	}
	ns := t.Range("siblings.len", 0, t.Param("S", 1))
	for i := 0; i < ns; i++ {
		proof.SiblingHashes = append(proof.SiblingHashes, pool[t.Choice(t.Name("sibling.pick", i), len(pool))])
	}
	claims := proof.clone() // Verify rewrites the bitmaps of the queries it is given
	ok, err := Verify(keys, proof, root, 1)
	if !ok {
		t.Reach("rejected")
		return
	}
	t.Assert(err == nil, "verdict true comes without error")
	for _, q := range claims.Queries {
		t.Assert(zzClaimTrue(t, q, k1, v1, k2, v2), "every query of an accepted proof is true of the map (leaf with its value, or absent key)")
	}
	t.Reach("accepted")
}

// zzClaimTrue: the query is true of the map {k1: v1, k2: v2}.
func zzClaimTrue(t *zzT, q *QueryProof, k1, v1, k2, v2 []byte) bool {
	if len(q.Value) != 0 {
		return t.Or(t.And(bytes.Equal(q.Key, k1), bytes.Equal(q.Value, v1)), t.And(bytes.Equal(q.Key, k2), bytes.Equal(q.Value, v2)))
	}
	return t.And(!bytes.Equal(q.Key, k1), !bytes.Equal(q.Key, k2))
}

// Soundness, second claim: the honest inclusion proof of leaf 1 of the tree {k1: v1, k2: v2} (bitmap
// 1 followed by d zeros for a common key prefix of d bits, sibling = leaf 2) is extended by one
// arbitrary query (key 1 byte, value 0..1 byte, bitmap 0..1 byte below 2^H, placed before or after
// the honest one) and the sibling list is replaced by an arbitrary list of <= S hashes drawn from the
// tree's node hashes, the empty hash and a 2-byte string. Whenever Verify still returns true, the
// added query is true of the map.
//
//zz:opt loop=40 require=accepted,rejected
//zz:quick H=3 S=2 SYMKEYS=0
//zz:thorough H=3 S=2 SYMKEYS=1
func zzH_C10_sound_extra_claim(t *zzT) {
	zzPinEmptyHash(t)
	k1, k2 := []byte{0xa0}, []byte{0xc0} // 1010…, 1100…: there are absent keys below k1 under its leaf position
	if t.Param("SYMKEYS", 0) == 1 {
		k1, k2 = t.Bytes("k1", 1), t.Bytes("k2", 1)
		t.Assume(k1[0] != k2[0])
	}
	v1, v2 := t.Bytes("v1", 1), t.Bytes("v2", 1)
	root, nodes := zzTwoLeafRoot(k1, v1, k2, v2)
	pool := append(nodes, zzRefEmpty(), t.Bytes("junk", 2))
	d := len(nodes) - 3 // common prefix length of the two keys
	honest := &QueryProof{Key: codec.Hex{k1[0]}, Value: codec.Hex{v1[0]}, Bitmap: codec.Hex{1 << uint(d)}}
	extra := zzQuery(t, 1, 1, 1, 1)
	claim := extra.copy()
	proof := &Proof{Queries: []*QueryProof{honest, extra}}
	if t.Bool("extra.first") {
		proof.Queries[0], proof.Queries[1] = extra, honest
	}
	keys := [][]byte{{proof.Queries[0].Key[0]}, {proof.Queries[1].Key[0]}}
	ns := t.Range("siblings.len", 0, t.Param("S", 1))
	for i := 0; i < ns; i++ {
		proof.SiblingHashes = append(proof.SiblingHashes, pool[t.Choice(t.Name("sibling.pick", i), len(pool))])
	}
	ok, err := Verify(keys, proof, root, 1)
	if !ok {
		t.Reach("rejected")
		return
	}
	t.Assert(err == nil, "verdict true comes without error")
	t.Assert(zzClaimTrue(t, claim, k1, v1, k2, v2), "a query accepted next to an honest proof is true of the map")
	t.Reach("accepted")
}

// ---- C10.c: leaf semantics of updateNode ----

// One updateNode call for one (key, value) on an empty node or a leaf, at the last level above the
// subtree bottom (structure position 7 of 8, two bins), followed by the normalisation updateSubtree
// applies (calculateSubTree, all other positions of the subtree empty): the resulting subtree root is
// the LIP-0039 root of the updated two-slot map; and for the four base cases the raw result is insert / no-op / overwrite / delete.
//
//zz:opt loop=40 require=end sched=0
func zzH_C10_update_node_leaf(t *zzT) {
	zzPinEmptyHash(t)
	tr := NewTrie(nil, 1)
	key := t.Bytes("key", 1)
	value := t.Bytes("value", t.Range("value.len", 0, 1))
	// current node: empty, or a leaf whose key is in the same 2-slot range (same upper 7 bits)
	var cur *node
	oldKey, oldValue := t.Bytes("oldKey", 1), t.Bytes("oldValue", 1)
	hasOld := t.Bool("current.isLeaf")
	if hasOld {
		t.Assume(oldKey[0]>>1 == key[0]>>1)
		cur = newLeafNode(oldKey, oldValue)
	} else {
		cur = newEmptyNode()
	}
	// two bins: keys ending in 0 / 1
	keyBins, valueBins := make([][][]byte, 2), make([][][]byte, 2)
	slot := int(key[0] & 1)
	keyBins[slot], valueBins[slot] = [][]byte{key}, [][]byte{value}
	lengthBins := []int{len(keyBins[0]), len(keyBins[0]) + len(keyBins[1])}
	res := make(chan updateNodeResult, 1)
	tr.updateNode(&zzNoDB{t}, keyBins, valueBins, lengthBins, 0, cur, 0, 7, res)
	out := <-res
	t.Assert(out.err == nil && out.data != nil, "updateNode succeeds")
	if out.err != nil {
		return
	}
	nodes, structure := out.data.nodes, out.data.structure
	same := hasOld && oldKey[0] == key[0]
	switch {
	case !hasOld && len(value) != 0:
		t.Assert(len(nodes) == 1 && structure[0] == 7 && nodes[0].kind == nodeKindLeaf && bytes.Equal(nodes[0].key, key) &&
			bytes.Equal(nodes[0].hash, zzRefSMTLeaf(key, value)) && bytes.Equal(nodes[0].data, append(append([]byte{0}, key...), value...)),
			"insert into an empty node gives the leaf (key, value) at the same position")
	case !hasOld:
		t.Assert(len(nodes) == 1 && structure[0] == 7 && nodes[0] == cur, "deleting from an empty node changes nothing")
	case same && len(value) != 0:
		t.Assert(len(nodes) == 1 && structure[0] == 7 && nodes[0].kind == nodeKindLeaf && bytes.Equal(nodes[0].key, key) &&
			bytes.Equal(nodes[0].hash, zzRefSMTLeaf(key, value)), "writing the key of a leaf overwrites its value")
	case same:
		t.Assert(len(nodes) == 1 && structure[0] == 7 && nodes[0].kind == nodeKindEmpty && bytes.Equal(nodes[0].hash, zzRefEmpty()),
			"deleting the key of a leaf gives the empty node")
	}
	// semantic check through the normalisation used by updateSubtree: the node is the leftmost one
	// of a subtree whose other positions (sibling at depth 7, then depth 6..1) are empty
	for depth := uint8(7); depth >= 1; depth-- {
		nodes, structure = append(nodes, newEmptyNode()), append(structure, depth)
	}
	sub, err := calculateSubTree(nodes, structure, structure[0], treeHasher, []*nodeStructure{})
	t.Assert(err == nil && sub != nil, "calculateSubTree succeeds")
	if err != nil || sub == nil {
		return
	}
	var slots [2][]byte // leaf hash per slot, nil = empty
	if hasOld {
		slots[oldKey[0]&1] = zzRefSMTLeaf(oldKey, oldValue)
	}
	if len(value) != 0 {
		slots[slot] = zzRefSMTLeaf(key, value)
	} else {
		slots[slot] = nil
	}
	var want []byte
	switch {
	case slots[0] == nil && slots[1] == nil:
		want = zzRefEmpty()
	case slots[1] == nil:
		want = slots[0]
	case slots[0] == nil:
		want = slots[1]
	default:
		want = zzRefSMTBranch(slots[0], slots[1])
		for depth := 7; depth >= 1; depth-- {
			want = zzRefSMTBranch(want, zzRefEmpty())
		}
	}
	t.Assert(bytes.Equal(sub.root, want), "subtree root equals the LIP-0039 root of the updated map (single leaves move up, two leaves branch)")
	t.Reach("end")
}

// zzNoDB: updateNode must not touch the database at this level.
type zzNoDB struct{ t *zzT }

func (d *zzNoDB) Get(key []byte) ([]byte, bool) {
	d.t.Fail("unexpected database read")
	return nil, false
}
func (d *zzNoDB) Set(key, val []byte) { d.t.Fail("unexpected database write") }
func (d *zzNoDB) Del(key []byte)      { d.t.Fail("unexpected database delete") }

// C10 storage format: a stored subtree decodes to what was encoded, for every node count the format
// can hold — 1, 2, 3, 255 and 256 (the count byte holds count-1: 256 is its largest value) — with one
// stub node whose hash is symbolic at a chosen position and empty nodes elsewhere. A trie "reopened
// from its stored nodes continues identically" only if this round trip is the identity.
//
//zz:opt loop=2000 require=end
func zzH_C10_subtree_store_roundtrip(t *zzT) {
	var structure []uint8
	switch t.Choice("nodes", 5) {
	case 0:
		structure = []uint8{0}
	case 1:
		structure = []uint8{1, 1}
	case 2:
		structure = []uint8{1, 2, 2}
	case 3: // 255 nodes: one at height 7, 254 at height 8
		structure = append(structure, 7)
		for i := 0; i < 254; i++ {
			structure = append(structure, 8)
		}
	default: // 256 nodes, all at height 8 (a full subtree)
		for i := 0; i < 256; i++ {
			structure = append(structure, 8)
		}
	}
	n := len(structure)
	at := 0
	if n > 1 {
		at = []int{0, n / 2, n - 1}[t.Choice("stub.at", 3)]
	}
	hash := t.Bytes("stub.hash", 32)
	nodes := make([]*node, n)
	for i := range nodes {
		nodes[i] = newEmptyNode()
	}
	nodes[at] = newStubNode(hash)
	st, err := newSubtreeFromData(structure, nodes, treeHasher)
	if err != nil {
		t.Fail("harness: cannot build the subtree")
	}
	enc := st.encode()
	dec, err := newSubTree(enc, 2, treeHasher)
	t.Assert(err == nil && dec != nil, "an encoded subtree decodes")
	if err != nil || dec == nil {
		return
	}
	same := len(dec.structure) == n && len(dec.nodes) == n
	for i := 0; same && i < n; i++ {
		same = dec.structure[i] == structure[i] && dec.nodes[i].kind == nodes[i].kind && bytes.Equal(dec.nodes[i].hash, nodes[i].hash)
	}
	t.Assert(same, "the decoded subtree has the encoded structure and nodes")
	t.Assert(bytes.Equal(dec.root, st.root), "the decoded subtree has the same root")
	t.Reach("end")
}
