//go:build verif

package framework

import (
	"github.com/LiskHQ/lisk-engine/pkg/collection/bytes"
	"github.com/LiskHQ/lisk-engine/pkg/db"
	"github.com/LiskHQ/lisk-engine/pkg/db/diffdb"
	"github.com/LiskHQ/lisk-engine/pkg/labi"
	"github.com/LiskHQ/lisk-engine/pkg/log"
)

type zz16Logger struct{}

func (zz16Logger) Debug(msg string, others ...interface{})    {}
func (zz16Logger) Info(msg string, others ...interface{})     {}
func (zz16Logger) Error(msg string, others ...interface{})    {}
func (zz16Logger) Debugf(msg string, others ...interface{})   {}
func (zz16Logger) Infof(msg string, others ...interface{})    {}
func (zz16Logger) Errorf(msg string, others ...interface{})   {}
func (zz16Logger) Warning(msg string, others ...interface{})  {}
func (zz16Logger) Warningf(msg string, others ...interface{}) {}
func (l zz16Logger) With(kv ...interface{}) log.Logger        { return l }

// C16.c: a key deleted in a block is handed to the state trie with the trie's deletion marker (an
// empty value: smt.updateNode deletes a leaf iff len(value) == 0), and a key that is set is handed
// over with the hash of its value.
//
//zz:opt loop=80
func zzH_C16_delete_marker(t *zzT) {
	database, err := db.NewInMemoryDB()
	if err != nil {
		t.Fail("db")
	}
	b := newStateBatch(database.NewBatch())
	key := append([]byte{0}, t.Bytes("key", 8)...) // db prefix + 6-byte store prefix + 2 key bytes
	if t.Bool("delete") {
		b.Del(key)
		t.Assert(len(b.values) == 1 && len(b.values[0]) == 0, "a deleted key reaches the state trie with the deletion marker (empty value)")
		t.Reach("deleted")
	} else {
		b.Set(key, t.Bytes("value", 2))
		t.Assert(len(b.values) == 1 && len(b.values[0]) == 32, "a set key reaches the state trie with the 32-byte hash of its value")
		t.Reach("set")
	}
	t.Assert(len(b.keys) == 1 && len(b.keys[0]) == stateTreeKeySize && bytes.Equal(b.keys[0][:prefixSize], key[dbPrefixSize:dbPrefixSize+prefixSize]),
		"tree key keeps the 6-byte store prefix and hashes the rest")
}

// C16.e: when the application's tree state is ahead of the engine's last block (a crash between the
// application commit and the engine commit), Init reverts down to the engine tip without panicking
// and leaves the tree state at the engine's height.
//
//zz:opt loop=80 lockdiscipline=off
//zz:quick AHEAD=2
//zz:thorough AHEAD=3
func zzH_C16_init_recovers(t *zzT) {
	database, err := db.NewInMemoryDB()
	if err != nil {
		t.Fail("db")
	}
	engineHeight := uint32(t.U8("engineHeight"))
	t.Assume(engineHeight < 100)
	ahead := uint32(t.Range("ahead", 0, t.Param("AHEAD", 2)))
	appHeight := engineHeight + ahead
	root := emptyHash
	database.Set(bytes.Join(StateDBPrefixTreeState, emptyBytes), bytes.Join(bytes.FromUint32(appHeight), root))
	for h := engineHeight + 1; h <= appHeight; h++ {
		d := &diffdb.Diff{}
		database.Set(bytes.Join(StateDBPrefixDiff, bytes.FromUint32(h)), d.Encode())
	}
	a := &ABIHandler{logger: zz16Logger{}, stateDB: database}
	_, ierr := a.Init(&labi.InitRequest{ChainID: []byte{0, 0, 0, 1}, LastBlockHeight: engineHeight, LastStateRoot: root})
	t.Assert(ierr == nil, "Init recovers an application state that is ahead of the engine")
	st, ok := database.Get(bytes.Join(StateDBPrefixTreeState, emptyBytes))
	t.Assert(ok && len(st) >= 4 && bytes.ToUint32(st[:4]) == engineHeight, "after Init the application tree state is at the engine's height")
	t.Reach("end")
}
