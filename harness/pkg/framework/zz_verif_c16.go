//go:build verif

package framework

import (
	"github.com/LiskHQ/lisk-engine/pkg/blockchain"
	"github.com/LiskHQ/lisk-engine/pkg/collection/bytes"
	"github.com/LiskHQ/lisk-engine/pkg/crypto"
	"github.com/LiskHQ/lisk-engine/pkg/db"
	"github.com/LiskHQ/lisk-engine/pkg/db/diffdb"
	"github.com/LiskHQ/lisk-engine/pkg/labi"
	"github.com/LiskHQ/lisk-engine/pkg/log"
)

type zz16Logger struct{}

func (zz16Logger) Debug(msg string, others ...interface{})    {}
func (zz16Logger) Info(msg string, others ...interface{})     {}
func (zz16Logger) Error(msg string, others ...interface{})    {}
func (zz16Logger) Debugf(msg string, others ...interface{})   {}
func (zz16Logger) Infof(msg string, others ...interface{})    {}
func (zz16Logger) Errorf(msg string, others ...interface{})   {}
func (zz16Logger) Warning(msg string, others ...interface{})  {}
func (zz16Logger) Warningf(msg string, others ...interface{}) {}
func (l zz16Logger) With(kv ...interface{}) log.Logger        { return l }

// C16.c: a key deleted in a block is handed to the state trie with the trie's deletion marker (an
// empty value: smt.updateNode deletes a leaf iff len(value) == 0), and a key that is set is handed
// over with the hash of its value.
//
//zz:opt loop=80
func zzH_C16_delete_marker(t *zzT) {
	database, err := db.NewInMemoryDB()
	if err != nil {
		t.Fail("db")
	}
	b := newStateBatch(database.NewBatch())
	key := append([]byte{0}, t.Bytes("key", 8)...) // db prefix + 6-byte store prefix + 2 key bytes
	if t.Bool("delete") {
		b.Del(key)
		t.Assert(len(b.values) == 1 && len(b.values[0]) == 0, "a deleted key reaches the state trie with the deletion marker (empty value)")
		t.Reach("deleted")
	} else {
		b.Set(key, t.Bytes("value", 2))
		t.Assert(len(b.values) == 1 && len(b.values[0]) == 32, "a set key reaches the state trie with the 32-byte hash of its value")
		t.Reach("set")
	}
	t.Assert(len(b.keys) == 1 && len(b.keys[0]) == stateTreeKeySize && bytes.Equal(b.keys[0][:prefixSize], key[dbPrefixSize:dbPrefixSize+prefixSize]),
		"tree key keeps the 6-byte store prefix and hashes the rest")
}

// C16.e: when the application's tree state is ahead of the engine's last block (a crash between the
// application commit and the engine commit), Init reverts down to the engine tip without panicking
// and leaves the tree state at the engine's height.
//
//zz:opt loop=80 lockdiscipline=off
//zz:quick AHEAD=2
//zz:thorough AHEAD=3
func zzH_C16_init_recovers(t *zzT) {
	database, err := db.NewInMemoryDB()
	if err != nil {
		t.Fail("db")
	}
	engineHeight := uint32(t.U8("engineHeight"))
	t.Assume(engineHeight < 100)
	ahead := uint32(t.Range("ahead", 0, t.Param("AHEAD", 2)))
	appHeight := engineHeight + ahead
	root := emptyHash
	database.Set(bytes.Join(StateDBPrefixTreeState, emptyBytes), bytes.Join(bytes.FromUint32(appHeight), root))
	for h := engineHeight + 1; h <= appHeight; h++ {
		d := &diffdb.Diff{}
		database.Set(bytes.Join(StateDBPrefixDiff, bytes.FromUint32(h)), d.Encode())
	}
	a := &ABIHandler{logger: zz16Logger{}, stateDB: database}
	_, ierr := a.Init(&labi.InitRequest{ChainID: []byte{0, 0, 0, 1}, LastBlockHeight: engineHeight, LastStateRoot: root})
	t.Assert(ierr == nil, "Init recovers an application state that is ahead of the engine")
	st, ok := database.Get(bytes.Join(StateDBPrefixTreeState, emptyBytes))
	t.Assert(ok && len(st) >= 4 && bytes.ToUint32(st[:4]) == engineHeight, "after Init the application tree state is at the engine's height")
	t.Reach("end")
}

// ---- C16.d: the committed state root is the sparse-Merkle root of the resulting state ----

func zz16Leaf(key, value []byte) []byte {
	return crypto.Hash(append(append([]byte{0x00}, key...), value...))
}
func zz16Branch(l, r []byte) []byte {
	return crypto.Hash(append(append([]byte{0x01}, l...), r...))
}
func zz16Bit(key []byte, i int) bool { return (key[i/8]>>(7-uint(i)%8))&1 == 1 }

// zz16RefRoot: LIP-0039 root of the map given as parallel lists (tree key -> stored value), by
// recursion on the bit position: empty set = empty hash, a lone leaf is lifted to the top of its
// subtree, otherwise branch(left half, right half).
func zz16RefRoot(keys, vals [][]byte, depth int) []byte {
	if len(keys) == 0 {
		return emptyHash
	}
	if len(keys) == 1 {
		return zz16Leaf(keys[0], vals[0])
	}
	var lk, lv, rk, rv [][]byte
	for i, k := range keys {
		if zz16Bit(k, depth) {
			rk, rv = append(rk, k), append(rv, vals[i])
		} else {
			lk, lv = append(lk, k), append(lv, vals[i])
		}
	}
	return zz16Branch(zz16RefRoot(lk, lv, depth+1), zz16RefRoot(rk, rv, depth+1))
}

// zz16StateKey: database key of a module-store entry: db prefix, 4-byte module id, 2-byte store prefix, key.
func zz16StateKey(k byte) []byte { return []byte{0, 0, 0, 0, 9, 0, 0, k} }

// C16.d: two blocks through the real ABIHandler.Commit (diffdb commit -> stateSMTBatch -> real
// smt.Update over batchdb) and the real Revert: block 1 sets P keys of one module store to symbolic
// values, block 2 applies one symbolic operation (overwrite / delete / add a new key / delete an absent
// key). After each Commit the returned state root equals the LIP-0039 reference root of the resulting
// state (tree key = store prefix ‖ hash(key), stored value = hash(value), deleted keys ABSENT); a
// Commit with a wrong expected root fails; Revert of block 2 returns the root of block 1 and leaves the
// state store as after block 1.
//
//zz:opt loop=400 gor=4000 hashdepth=64 sched=0 require=end,deleted,added
//zz:quick P=2 budget=300s
//zz:thorough P=2 budget=1800s
func zzH_C16_commit_revert_root(t *zzT) { zz16TwoBlocks(t, false) }

// C16 "restart recovery rolls the application state back to the engine's tip" over MORE than one block: after
// the two real commits above the process restarts with the engine's tip at height 0, 1 or 2 (the application is
// 2, 1 or 0 blocks ahead, every height with its own state root): Init succeeds, the application's tip record is
// at the engine's height with the engine's root, and the state store is the one of that height.
// (seed C16-8 handed the engine tip's root to every single-height rollback step as its expected root.)
//
//zz:opt loop=400 gor=4000 hashdepth=64 sched=0 require=recovered-two-blocks,recovered-one-block
//zz:quick P=2 budget=300s
//zz:thorough P=2 budget=1800s
func zzH_C16_init_recovers_blocks(t *zzT) { zz16TwoBlocks(t, true) }

func zz16TwoBlocks(t *zzT, recovery bool) {
	P := t.Param("P", 2)
	kind := t.Choice("block2.op", 4) // 0 overwrite, 1 delete present, 2 add new key, 3 delete absent key
	target := t.Choice("block2.target", P)
	db.ZZUnordered = true // tree nodes are keyed by symbolic hashes: no ordering among them is needed
	database, err := db.NewInMemoryDB()
	if err != nil {
		t.Fail("db")
	}
	a := &ABIHandler{logger: zz16Logger{}, stateDB: database}
	begin := func(height uint32) *diffdb.Database {
		ds := diffdb.New(database, StateDBPrefixState)
		a.executionContext = &executionContext{id: []byte{byte(height)}, header: &blockchain.BlockHeader{Height: height}, diffStore: ds}
		return ds
	}
	// model of the state: parallel lists of tree keys and stored (hashed) values
	var mk, mv [][]byte
	set := func(k byte, v []byte) {
		tk := getTreeKey(zz16StateKey(k))
		for i := range mk {
			if bytes.Equal(mk[i], tk) {
				mv[i] = crypto.Hash(v)
				return
			}
		}
		mk, mv = append(mk, tk), append(mv, crypto.Hash(v))
	}
	del := func(k byte) {
		tk := getTreeKey(zz16StateKey(k))
		for i := range mk {
			if bytes.Equal(mk[i], tk) {
				mk, mv = append(mk[:i:i], mk[i+1:]...), append(mv[:i:i], mv[i+1:]...)
				return
			}
		}
	}
	// block 1
	ds := begin(1)
	for k := 0; k < P; k++ {
		v := t.Bytes(t.Name("v1", k), 1)
		ds.Set(zz16StateKey(byte(k))[1:], v)
		set(byte(k), v)
	}
	r1, err := a.Commit(&labi.CommitRequest{ContextID: []byte{1}, StateRoot: emptyHash})
	t.Assert(err == nil && r1 != nil, "Commit of block 1 succeeds")
	if err != nil {
		return
	}
	want1 := zz16RefRoot(mk, mv, 0)
	t.Assert(bytes.Equal(r1.StateRoot, want1), "state root after block 1 = sparse-Merkle root of the resulting state")
	after1 := database.Iterate(StateDBPrefixState, -1, false)
	k1, v1 := append([][]byte{}, mk...), append([][]byte{}, mv...)
	// block 2
	ds = begin(2)
	nv := t.Bytes("v2", 1)
	switch kind {
	case 0:
		ds.Set(zz16StateKey(byte(target))[1:], nv)
		set(byte(target), nv)
	case 1:
		ds.Del(zz16StateKey(byte(target))[1:])
		del(byte(target))
		t.Reach("deleted")
	case 2:
		ds.Set(zz16StateKey(byte(P))[1:], nv)
		set(byte(P), nv)
		t.Reach("added")
	default:
		ds.Del(zz16StateKey(byte(P + 1))[1:])
	}
	want2 := zz16RefRoot(mk, mv, 0)
	dry, err := a.Commit(&labi.CommitRequest{ContextID: []byte{2}, StateRoot: r1.StateRoot, DryRun: true})
	t.Assert(err == nil && dry != nil && bytes.Equal(dry.StateRoot, want2), "state root after block 2 = sparse-Merkle root of the resulting state (deleted keys absent)")
	if err != nil {
		return
	}
	wrong := append([]byte{}, dry.StateRoot...)
	wrong[0] ^= 1
	_, werr := a.Commit(&labi.CommitRequest{ContextID: []byte{2}, StateRoot: r1.StateRoot, ExpectedStateRoot: wrong, DryRun: true})
	t.Assert(werr != nil, "Commit with an expected state root that differs from the computed one fails")
	r2, err := a.Commit(&labi.CommitRequest{ContextID: []byte{2}, StateRoot: r1.StateRoot, ExpectedStateRoot: dry.StateRoot})
	t.Assert(err == nil && r2 != nil && bytes.Equal(r2.StateRoot, dry.StateRoot), "the dry run and the real Commit agree on the state root")
	if err != nil {
		return
	}
	if recovery {
		eng := uint32(t.Range("engine.height", 0, 2))
		roots := [][]byte{emptyHash, r1.StateRoot, r2.StateRoot}
		restarted := &ABIHandler{logger: zz16Logger{}, stateDB: database}
		_, ierr := restarted.Init(&labi.InitRequest{ChainID: []byte{0, 0, 0, 1}, LastBlockHeight: eng, LastStateRoot: roots[eng]})
		t.Assert(ierr == nil, "restart recovery succeeds when the application is 0, 1 or 2 blocks ahead of the engine")
		if ierr != nil {
			return
		}
		st, ok := database.Get(bytes.Join(StateDBPrefixTreeState, emptyBytes))
		t.Assert(ok && len(st) == 36 && bytes.ToUint32(st[:4]) == eng && bytes.Equal(st[4:], roots[eng]), "after recovery the application's tip record is the engine's height and root")
		now := database.Iterate(StateDBPrefixState, -1, false)
		switch eng {
		case 0:
			t.Assert(len(now) == 0, "recovery to height 0 leaves an empty state store")
			t.Reach("recovered-two-blocks")
		case 1:
			same := len(now) == len(after1)
			if same {
				for i := range now {
					same = same && bytes.Equal(now[i].Key(), after1[i].Key()) && bytes.Equal(now[i].Value(), after1[i].Value())
				}
			}
			t.Assert(same, "recovery to height 1 restores the state store of block 1")
			t.Reach("recovered-one-block")
		}
		t.Reach("end")
		return
	}
	// revert block 2
	rv, err := a.Revert(&labi.RevertRequest{ContextID: []byte{2}, StateRoot: r2.StateRoot})
	t.Assert(err == nil && rv != nil && bytes.Equal(rv.StateRoot, zz16RefRoot(k1, v1, 0)), "reverting block 2 restores the state root of block 1")
	// a restart right after the revert: the engine's tip is block 1 with root r1 — the application's own
	// record of its tip (height, root) must agree, otherwise Init refuses to start
	restarted := &ABIHandler{logger: zz16Logger{}, stateDB: database}
	_, ierr := restarted.Init(&labi.InitRequest{ChainID: []byte{0, 0, 0, 1}, LastBlockHeight: 1, LastStateRoot: r1.StateRoot})
	t.Assert(ierr == nil, "a restart after the revert finds the application at block 1 with the root of block 1")
	// the state store (prefix 0) is as after block 1; tree nodes / diff / tree-state records are not compared
	same := true
	st1, st2 := after1, database.Iterate(StateDBPrefixState, -1, false)
	if len(st1) != len(st2) {
		same = false
	} else {
		for i := range st1 {
			same = same && bytes.Equal(st1[i].Key(), st2[i].Key()) && bytes.Equal(st1[i].Value(), st2[i].Value())
		}
	}
	t.Assert(same, "reverting block 2 restores the state store of block 1")
	t.Reach("end")
}

func zz16StateOnly(kvs []db.KeyValue) []db.KeyValue {
	var out []db.KeyValue
	for _, kv := range kvs {
		if len(kv.Key()) > 0 && kv.Key()[0] == StateDBPrefixState[0] {
			out = append(out, kv)
		}
	}
	return out
}
