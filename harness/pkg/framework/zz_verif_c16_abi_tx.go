//go:build verif

package framework

import (
	"context"
	"errors"

	"github.com/LiskHQ/lisk-engine/pkg/blockchain"
	"github.com/LiskHQ/lisk-engine/pkg/codec"
	"github.com/LiskHQ/lisk-engine/pkg/collection/bytes"
	"github.com/LiskHQ/lisk-engine/pkg/crypto"
	"github.com/LiskHQ/lisk-engine/pkg/db"
	"github.com/LiskHQ/lisk-engine/pkg/db/diffdb"
	"github.com/LiskHQ/lisk-engine/pkg/labi"
	"github.com/LiskHQ/lisk-engine/pkg/statemachine"
)

// ---- C16 through the request-level ABI: one block as the engine drives it ----
//
// One registered test module ("mod", store prefix 00 00 00 09 / 00 00 — the store zz16StateKey addresses):
//   * BeforeTransactionsExecute sets key 2, AfterTransactionsExecute sets key 4, each logs one event;
//   * BeforeCommandExecute / AfterCommandExecute log one event each (outside the command's snapshot);
//   * the command "cmd" runs the script selected by the transaction's nonce: Set/Del on its store, then one event
//     per entry of pattern (true = revertible "rev", false = non-revertible "keep"; data = position), then it
//     fails or succeeds.
// calls counts every hook / command invocation: "a refused request has no effect" includes "no module code ran".

type zz16abiOp struct {
	key byte
	del bool
	val []byte
}

type zz16abiScript struct {
	ops  []zz16abiOp
	fail bool
}

type zz16abiModule struct {
	scripts    []zz16abiScript
	pattern    []bool
	before     []byte
	after      []byte
	verifyCode int // what the command's Verify answers: 0 ok, 1 pending, 2 invalid
	calls      int
	seenTxs    int // number of transactions handed to AfterTransactionsExecute
}

var zz16abiErr = errors.New("zz16abi: command failed")

var (
	zz16abiStore    = []byte{0, 0, 0, 9}
	zz16abiSubstore = []byte{0, 0}
)

type zz16abiEndpoint struct{}

func (zz16abiEndpoint) Get() statemachine.EndpointHandlers { return statemachine.EndpointHandlers{} }

func (m *zz16abiModule) Name() string                    { return "mod" }
func (m *zz16abiModule) Endpoint() statemachine.Endpoint { return zz16abiEndpoint{} }
func (m *zz16abiModule) Init(cfg []byte) error           { return nil }
func (m *zz16abiModule) InitGenesisState(ctx *statemachine.GenesisBlockProcessingContext) error {
	m.calls++
	return nil
}
func (m *zz16abiModule) FinalizeGenesisState(ctx *statemachine.GenesisBlockProcessingContext) error {
	m.calls++
	return nil
}
func (m *zz16abiModule) InsertAssets(ctx *statemachine.InsertAssetsContext) error {
	m.calls++
	return nil
}
func (m *zz16abiModule) VerifyAssets(ctx *statemachine.VerifyAssetsContext) error {
	m.calls++
	return nil
}
func (m *zz16abiModule) VerifyTransaction(ctx *statemachine.TransactionVerifyContext) statemachine.VerifyResult {
	m.calls++
	return statemachine.NewVerifyResultOK()
}
func (m *zz16abiModule) BeforeTransactionsExecute(ctx *statemachine.BeforeTransactionsExecuteContext) error {
	m.calls++
	ctx.GetStore(zz16abiStore, zz16abiSubstore).Set([]byte{2}, m.before)
	return ctx.EventQueue().Add("mod", "before", []byte{7}, nil)
}
func (m *zz16abiModule) AfterTransactionsExecute(ctx *statemachine.AfterTransactionsExecuteContext) error {
	m.calls++
	m.seenTxs = len(ctx.Transactions())
	ctx.GetStore(zz16abiStore, zz16abiSubstore).Set([]byte{4}, m.after)
	return ctx.EventQueue().Add("mod", "after", []byte{8}, nil)
}
func (m *zz16abiModule) BeforeCommandExecute(ctx *statemachine.TransactionExecuteContext) error {
	m.calls++
	return ctx.EventQueue().Add("mod", "pre", []byte{5}, nil)
}
func (m *zz16abiModule) AfterCommandExecute(ctx *statemachine.TransactionExecuteContext) error {
	m.calls++
	return ctx.EventQueue().Add("mod", "post", []byte{6}, nil)
}
func (m *zz16abiModule) GetCommand(name string) (statemachine.Command, bool) {
	if name == "cmd" {
		return &zz16abiCommand{m}, true
	}
	return nil, false
}

type zz16abiCommand struct{ m *zz16abiModule }

func (c *zz16abiCommand) ID() uint32   { return 1 }
func (c *zz16abiCommand) Name() string { return "cmd" }
func (c *zz16abiCommand) Verify(ctx *statemachine.TransactionVerifyContext) statemachine.VerifyResult {
	c.m.calls++
	switch c.m.verifyCode {
	case 1:
		return statemachine.NewVerifyResultPending(zz16abiErr)
	case 2:
		return statemachine.NewVerifyResultError(zz16abiErr)
	}
	return statemachine.NewVerifyResultOK()
}
func (c *zz16abiCommand) Execute(ctx *statemachine.TransactionExecuteContext) error {
	c.m.calls++
	script := c.m.scripts[ctx.Transaction().Nonce()]
	st := ctx.GetStore(zz16abiStore, zz16abiSubstore)
	for _, op := range script.ops {
		if op.del {
			st.Del([]byte{op.key})
		} else {
			st.Set([]byte{op.key}, op.val)
		}
	}
	q := ctx.EventQueue()
	for i, revertible := range c.m.pattern {
		if revertible {
			_ = q.Add("mod", "rev", []byte{byte(i)}, nil)
		} else {
			_ = q.AddUnrevertible("mod", "keep", []byte{byte(i)}, nil)
		}
	}
	if script.fail {
		return zz16abiErr
	}
	return nil
}

func zz16abiHandler(database *db.DB, mod *zz16abiModule) *ABIHandler {
	ex := statemachine.NewExecuter()
	ex.Init(zz16Logger{})
	if err := ex.AddModule(mod); err != nil {
		panic(err)
	}
	a := NewABIHandler(context.Background(), nil, zz16Logger{}, ex, nil, database, database, []Module{mod})
	a.chainID = []byte{0, 0, 0, 1}
	return a
}

func zz16abiHeader(height uint32) *blockchain.BlockHeader {
	return &blockchain.BlockHeader{
		Version:          2,
		Timestamp:        1000 + height,
		Height:           height,
		PreviousBlockID:  bytes.Repeat([]byte{byte(height)}, 32),
		GeneratorAddress: bytes.Repeat([]byte{3}, 20),
		TransactionRoot:  emptyHash,
		AssetRoot:        emptyHash,
		EventRoot:        emptyHash,
		StateRoot:        emptyHash,
		ValidatorsHash:   emptyHash,
		AggregateCommit:  &blockchain.AggregateCommit{AggregationBits: []byte{}, CertificateSignature: []byte{}},
		Signature:        bytes.Repeat([]byte{4}, 64),
	}
}

func zz16abiTx(command string, nonce uint64) *blockchain.Transaction {
	return &blockchain.Transaction{Module: "mod", Command: command, Nonce: nonce, Fee: 1,
		SenderPublicKey: bytes.Repeat([]byte{1}, 32), Params: []byte{}, Signatures: []codec.Hex{}}
}

// zz16abiEvents checks one response's event list against the expected (name, data) sequence: right names and
// data in order, every event at the block's height and indexed consecutively from 0.
func zz16abiEvents(evs []*blockchain.Event, names []string, data [][]byte, height uint32) bool {
	if len(evs) != len(names) {
		return false
	}
	ok := true
	for i, e := range evs {
		ok = ok && e != nil && e.Module == "mod" && e.Name == names[i] && bytes.Equal(e.Data, data[i]) &&
			e.Index == uint32(i) && e.Height == height && len(e.Topics) == 1
	}
	return ok
}

// zz16abiExpectedEvents: what one ExecuteTransaction response must hold. Failed command: the events logged outside
// the command's snapshot (pre, post), the command's non-revertible events, the standard event with success=false;
// successful command: all of the command's events and the standard event with success=true.
func zz16abiExpectedEvents(pattern []bool, failed bool) ([]string, [][]byte) {
	names, data := []string{"pre"}, [][]byte{{5}}
	for i, revertible := range pattern {
		if revertible && !failed {
			names, data = append(names, "rev"), append(data, []byte{byte(i)})
		}
		if !revertible {
			names, data = append(names, "keep"), append(data, []byte{byte(i)})
		}
	}
	names, data = append(names, "post"), append(data, []byte{6})
	return append(names, blockchain.EventNameDefault), append(data, blockchain.NewStandardTransactionEventData(!failed))
}

// model of the module store: keys 0..4
type zz16abiModel struct {
	present [5]bool
	val     [5][]byte
}

func (m *zz16abiModel) apply(ops []zz16abiOp) {
	for _, op := range ops {
		if op.del {
			m.present[op.key], m.val[op.key] = false, nil
		} else {
			m.present[op.key], m.val[op.key] = true, op.val
		}
	}
}

// seenThrough: the module store read through st is exactly the model (every key of 0..4 with its value, or absent).
func (m *zz16abiModel) seenThrough(st *diffdb.Database) (bool, int) {
	view := st.WithPrefix(statemachine.ModuleStorePrefix(zz16abiStore, zz16abiSubstore))
	ok, n := true, 0
	for k := 0; k < 5; k++ {
		v, exist := view.Get([]byte{byte(k)})
		if m.present[k] {
			n++
			ok = ok && exist && bytes.Equal(v, m.val[k])
		} else {
			ok = ok && !exist
		}
	}
	return ok, n
}

// holds reports whether the state store of database (read through a fresh diffdb over it, as the next block
// would) is exactly the model, with no entry besides.
func (m *zz16abiModel) holds(database *db.DB) bool {
	ok, n := m.seenThrough(diffdb.New(database, StateDBPrefixState))
	return ok && len(database.Iterate(StateDBPrefixState, -1, false)) == n
}

func (m *zz16abiModel) root() []byte {
	var ks, vs [][]byte
	for k := 0; k < 5; k++ {
		if m.present[k] {
			ks, vs = append(ks, getTreeKey(zz16StateKey(byte(k)))), append(vs, crypto.Hash(m.val[k]))
		}
	}
	return zz16RefRoot(ks, vs, 0)
}

// zz16abiScriptOf: the menu of command behaviours. Values are symbolic; which keys are touched how is the menu
// (keys 0, 1 persisted by the previous block, 2 staged by the before-hook, 3 never existed):
//
//	0 overwrite a persisted key, add a new key
//	1 delete a persisted key, overwrite the key staged by the before-hook
//	2 delete the key staged by the before-hook, delete a key that never existed
//	3 delete a persisted key and set it again, add a new key and delete it again
//	4 all kinds at once: overwrite 0, delete 1, add 3, delete 2
//	5 all kinds again on what 4 left: set 1, delete 3, set 2, delete 0
func zz16abiScriptOf(t *zzT, name string, kind int) []zz16abiOp {
	v1, v2 := t.Bytes(name+".v1", 1), t.Bytes(name+".v2", 1)
	switch kind {
	case 0:
		return []zz16abiOp{{key: 0, val: v1}, {key: 3, val: v2}}
	case 1:
		return []zz16abiOp{{key: 1, del: true}, {key: 2, val: v1}}
	case 2:
		return []zz16abiOp{{key: 2, del: true}, {key: 3, del: true}}
	case 3:
		return []zz16abiOp{{key: 0, del: true}, {key: 0, val: v1}, {key: 3, val: v2}, {key: 3, del: true}}
	case 4:
		return []zz16abiOp{{key: 0, val: v1}, {key: 1, del: true}, {key: 3, val: v2}, {key: 2, del: true}}
	}
	return []zz16abiOp{{key: 1, val: v1}, {key: 3, del: true}, {key: 2, val: v2}, {key: 0, del: true}}
}

func zz16abiDumpEqual(x, y []db.KeyValue) bool {
	if len(x) != len(y) {
		return false
	}
	same := true
	for i := range x {
		same = same && bytes.Equal(x[i].Key(), y[i].Key()) && bytes.Equal(x[i].Value(), y[i].Value())
	}
	return same
}

// C16 at the request level: block 1 persists keys 0 and 1 (symbolic values); block 2 runs through the real
// InitStateMachine -> BeforeTransactionsExecute -> (VerifyTransaction, ExecuteTransaction) x NTX ->
// AfterTransactionsExecute -> Commit -> Clear with hooks that write, and commands that overwrite / delete / add and
// then fail or succeed by a symbolic choice each.
//   - each ExecuteTransaction response: result code fail(0)/success(1); failed command: only the events logged
//     outside the command, its non-revertible events and the standard event (success=false); success: all events and
//     the standard event (success=true); always indexed consecutively from 0;
//   - nothing reaches the state store before Commit; after Commit the state store read through a fresh diffdb is
//     the model in which a failed command contributes nothing, the returned root is the sparse-Merkle reference
//     root of that state, and the tip record is (2, root);
//   - Finalize(2) drops the diff of block 1 only; then the engine's revert sequence (InitStateMachine with the
//     same header, Revert, Clear) returns the root of block 1 and restores its state store and tip record.
// (each Commit / Revert interprets the real smt.Update, ~2000 goroutines: the quick tier keeps to 4 paths)
//
//zz:opt loop=400 gor=4000 hashdepth=64 sched=0 budget=600s timeout=45000 require=end,failed,succeeded,two-transactions
//zz:quick NTXMIN=2 FULL=0
//zz:thorough NTXMIN=1 FULL=1 budget=3600s
func zzH_C16_abi_block_atomic(t *zzT) {
	ntx := t.Range("ntx", t.Param("NTXMIN", 2), 2)
	db.ZZUnordered = true
	database, err := db.NewInMemoryDB()
	if err != nil {
		t.Fail("db")
	}
	mod := &zz16abiModule{before: t.Bytes("hook.before", 1), after: t.Bytes("hook.after", 1), pattern: []bool{true, false, true, false}}
	first := 4 // quick tier: two commands that together do every kind of write; thorough: the menu for the first one
	if t.Param("FULL", 0) == 1 {
		first = t.Choice("tx0.kind", 6)
	}
	for i := 0; i < ntx; i++ {
		kind := (first + i) % 6
		mod.scripts = append(mod.scripts, zz16abiScript{ops: zz16abiScriptOf(t, t.Name("tx", i), kind), fail: t.Bool(t.Name("tx.fail", i))})
	}
	a := zz16abiHandler(database, mod)
	model := &zz16abiModel{}

	// block 1: keys 0 and 1, committed through Commit (the existing C16 harnesses cover this step)
	ds := diffdb.New(database, StateDBPrefixState)
	a.executionContext = &executionContext{id: []byte{1}, header: &blockchain.BlockHeader{Height: 1}, diffStore: ds}
	for k := 0; k < 2; k++ {
		v := t.Bytes(t.Name("v1", k), 1)
		ds.Set(zz16StateKey(byte(k))[1:], v)
		model.apply([]zz16abiOp{{key: byte(k), val: v}})
	}
	r1, err := a.Commit(&labi.CommitRequest{ContextID: []byte{1}, StateRoot: emptyHash})
	if err != nil || r1 == nil {
		t.Fail("Commit of block 1 succeeds")
		return
	}
	a.Clear(&labi.ClearRequest{})
	model1 := *model
	callsBefore := mod.calls

	// block 2 through the request-level ABI
	init, err := a.InitStateMachine(&labi.InitStateMachineRequest{Header: zz16abiHeader(2)})
	if err != nil || init == nil {
		t.Fail("InitStateMachine succeeds when no context is open")
		return
	}
	id := init.ContextID
	cons := &labi.Consensus{}
	bres, err := a.BeforeTransactionsExecute(&labi.BeforeTransactionsExecuteRequest{ContextID: id, Consensus: cons})
	t.Assert(err == nil && bres != nil && zz16abiEvents(bres.Events, []string{"before"}, [][]byte{{7}}, 2),
		"BeforeTransactionsExecute returns the hook's event, indexed from 0")
	if err != nil {
		return
	}
	model.apply([]zz16abiOp{{key: 2, val: mod.before}})
	txs := []*blockchain.Transaction{}
	for i := 0; i < ntx; i++ {
		tx := zz16abiTx("cmd", uint64(i))
		txs = append(txs, tx)
		vres, err := a.VerifyTransaction(&labi.VerifyTransactionRequest{ContextID: id, Transaction: tx})
		t.Assert(err == nil && vres != nil && vres.Result == labi.TxVerifyResultOk, "VerifyTransaction reports the command's verdict (ok)")
		xres, err := a.ExecuteTransaction(&labi.ExecuteTransactionRequest{ContextID: id, Transaction: tx, Header: zz16abiHeader(2), Consensus: cons})
		if err != nil || xres == nil {
			t.Fail("ExecuteTransaction with the block's context id is served")
			return
		}
		names, data := zz16abiExpectedEvents(mod.pattern, mod.scripts[i].fail)
		if mod.scripts[i].fail {
			t.Assert(xres.Result == labi.TxExecuteResultFail, "failed command: result code is fail")
			t.Assert(zz16abiEvents(xres.Events, names, data, 2),
				"failed command: response holds only the events logged outside the command, its non-revertible events and the standard event (success=false), indexed consecutively")
			t.Reach("failed")
		} else {
			model.apply(mod.scripts[i].ops)
			t.Assert(xres.Result == labi.TxExecuteResultSuccess, "successful command: result code is success")
			t.Assert(zz16abiEvents(xres.Events, names, data, 2),
				"successful command: response holds all its events and the standard event (success=true), indexed consecutively")
			t.Reach("succeeded")
		}
		if n := len(xres.Events); n > 0 && len(xres.Events[n-1].Topics) > 0 {
			t.Assert(bytes.Equal(xres.Events[n-1].Topics[0], tx.ID), "the standard event carries the transaction id as its topic")
		}
	}
	ares, err := a.AfterTransactionsExecute(&labi.AfterTransactionsExecuteRequest{ContextID: id, Consensus: cons, Transactions: txs})
	t.Assert(err == nil && ares != nil && zz16abiEvents(ares.Events, []string{"after"}, [][]byte{{8}}, 2) && mod.seenTxs == ntx,
		"AfterTransactionsExecute returns the hook's event, indexed from 0")
	if err != nil {
		return
	}
	model.apply([]zz16abiOp{{key: 4, val: mod.after}})
	t.Assert(model1.holds(database), "nothing of the block reaches the state store before Commit")
	r2, err := a.Commit(&labi.CommitRequest{ContextID: id, StateRoot: r1.StateRoot})
	if err != nil || r2 == nil {
		t.Fail("Commit of block 2 succeeds")
		return
	}
	a.Clear(&labi.ClearRequest{})
	t.Assert(model.holds(database), "committed state = previous state + hooks + successful commands; a failed command contributes nothing")
	t.Assert(bytes.Equal(r2.StateRoot, model.root()), "state root committed for the block = sparse-Merkle root of the resulting state (deleted keys absent)")
	tip, ok := database.Get(bytes.Join(StateDBPrefixTreeState, emptyBytes))
	t.Assert(ok && len(tip) == 36 && bytes.ToUint32(tip[:4]) == 2 && bytes.Equal(tip[4:], r2.StateRoot), "after Commit the tip record is (2, committed root)")

	// the engine finalizes up to block 2: the diff of block 1 goes, the one of block 2 stays and still reverts
	_, ferr := a.Finalize(&labi.FinalizeRequest{FinalizedHeight: 2})
	_, d1 := database.Get(bytes.Join(StateDBPrefixDiff, bytes.FromUint32(1)))
	_, d2 := database.Get(bytes.Join(StateDBPrefixDiff, bytes.FromUint32(2)))
	t.Assert(ferr == nil && !d1 && d2, "Finalize(2) removes the diff of block 1 and keeps the diff of block 2")
	t.Assert(model.holds(database), "Finalize leaves the state store alone")

	// revert block 2 the way consensus does: a context for the same header, Revert, Clear
	init2, err := a.InitStateMachine(&labi.InitStateMachineRequest{Header: zz16abiHeader(2)})
	if err != nil || init2 == nil {
		t.Fail("InitStateMachine succeeds after Clear")
		return
	}
	t.Assert(bytes.Equal(init2.ContextID, id), "the context id is a function of the header")
	rv, err := a.Revert(&labi.RevertRequest{ContextID: init2.ContextID, StateRoot: r2.StateRoot})
	a.Clear(&labi.ClearRequest{})
	t.Assert(err == nil && rv != nil && bytes.Equal(rv.StateRoot, r1.StateRoot), "reverting the block restores the previous state root")
	t.Assert(model1.holds(database), "reverting the block restores the previous state store")
	tip, ok = database.Get(bytes.Join(StateDBPrefixTreeState, emptyBytes))
	t.Assert(ok && len(tip) == 36 && bytes.ToUint32(tip[:4]) == 1 && bytes.Equal(tip[4:], r1.StateRoot), "after Revert the tip record is (1, previous root)")
	t.Assert(mod.calls == callsBefore+2+5*ntx, "every hook and command ran exactly once per request")
	if ntx == 2 {
		t.Reach("two-transactions")
	}
	t.Reach("end")
}

// zz16abiOpen: a handler over a database that holds keys 0 and 1 of the module store (symbolic values, written
// directly: no trie is needed by the harnesses that never commit) with a context open for a block at height.
func zz16abiOpen(t *zzT, mod *zz16abiModule, height uint32) (*ABIHandler, *db.DB, *zz16abiModel, codec.Hex) {
	database, err := db.NewInMemoryDB()
	if err != nil {
		t.Fail("db")
	}
	model := &zz16abiModel{}
	for k := 0; k < 2; k++ {
		v := t.Bytes(t.Name("persisted", k), 1)
		database.Set(zz16StateKey(byte(k)), v)
		model.apply([]zz16abiOp{{key: byte(k), val: v}})
	}
	database.Set(bytes.Join(StateDBPrefixTreeState, emptyBytes), bytes.Join(bytes.FromUint32(height-1), emptyHash))
	a := zz16abiHandler(database, mod)
	init, err := a.InitStateMachine(&labi.InitStateMachineRequest{Header: zz16abiHeader(height)})
	if err != nil || init == nil {
		t.Fail("InitStateMachine succeeds when no context is open")
		return a, database, model, nil
	}
	return a, database, model, init.ContextID
}

// C16 "for all command behaviours, all event patterns" at the request level, without the trie: after the
// before-hook one transaction with a symbolic behaviour (menu of writes, symbolic values, a symbolic pattern of
// EVENTS revertible / non-revertible events, fail or succeed) and then a second, succeeding one. Observed through
// the responses and through the block's staged store (what Commit persists: zzH_C16_abi_block_atomic):
//   - result code and exactly the expected events per response (a failed command keeps its non-revertible events
//     only, re-indexed without gaps; each response is indexed from 0);
//   - the staged state after a failed command equals the staged state before it; a successful one's writes are kept;
//   - the state store itself is untouched by execution.
//
//zz:opt loop=80 require=failed,succeeded
//zz:quick EVENTS=3
//zz:thorough EVENTS=4
func zzH_C16_abi_tx_events_staged(t *zzT) {
	mod := &zz16abiModule{before: t.Bytes("hook.before", 1)}
	for i := 0; i < t.Param("EVENTS", 3); i++ {
		mod.pattern = append(mod.pattern, t.Bool(t.Name("revertible", i)))
	}
	kind := t.Choice("tx0.kind", 4)
	mod.scripts = []zz16abiScript{
		{ops: zz16abiScriptOf(t, "tx0", kind), fail: t.Bool("tx0.fail")},
		{ops: zz16abiScriptOf(t, "tx1", (kind+1)%4)},
	}
	a, database, model, id := zz16abiOpen(t, mod, 7)
	if id == nil {
		return
	}
	persisted := *model
	cons := &labi.Consensus{}
	if _, err := a.BeforeTransactionsExecute(&labi.BeforeTransactionsExecuteRequest{ContextID: id, Consensus: cons}); err != nil {
		t.Fail("BeforeTransactionsExecute with the block's context id is served")
		return
	}
	model.apply([]zz16abiOp{{key: 2, val: mod.before}})
	for i := 0; i < 2; i++ {
		tx := zz16abiTx("cmd", uint64(i))
		xres, err := a.ExecuteTransaction(&labi.ExecuteTransactionRequest{ContextID: id, Transaction: tx, Header: zz16abiHeader(7), Consensus: cons})
		if err != nil || xres == nil {
			t.Fail("ExecuteTransaction with the block's context id is served")
			return
		}
		failed := mod.scripts[i].fail
		names, data := zz16abiExpectedEvents(mod.pattern, failed)
		if failed {
			t.Assert(xres.Result == labi.TxExecuteResultFail, "failed command: result code is fail")
			t.Assert(zz16abiEvents(xres.Events, names, data, 7),
				"failed command: response holds only the events logged outside the command, its non-revertible events and the standard event (success=false), indexed consecutively")
			ok, _ := model.seenThrough(a.executionContext.diffStore)
			t.Assert(ok, "failed command: the block's staged state equals the staged state before the command")
			t.Reach("failed")
		} else {
			model.apply(mod.scripts[i].ops)
			t.Assert(xres.Result == labi.TxExecuteResultSuccess, "successful command: result code is success")
			t.Assert(zz16abiEvents(xres.Events, names, data, 7),
				"successful command: response holds all its events and the standard event (success=true), indexed consecutively")
			ok, _ := model.seenThrough(a.executionContext.diffStore)
			t.Assert(ok, "successful command: its writes are kept in the block's staged state")
			if i == 0 {
				t.Reach("succeeded")
			}
		}
	}
	t.Assert(persisted.holds(database), "executing transactions does not touch the state store")
}

// C16, the context id guards the block's staged state: with a context open for a block, every request that
// carries another context id (empty, 32 other bytes, the id with a byte appended) is refused — an error, no
// response, no module code ran, the database and the open context are as before; a second InitStateMachine is
// refused as well. VerifyTransaction (no guard: it only reads) answers the module's verdict for any context id
// and leaves everything alone. The block then proceeds normally. After Clear the abandoned block has left no
// trace: requests with the old id are refused, and a new context starts from the persisted state.
// (ExecuteTransaction after Clear: zzH_C16_abi_exec_after_clear.)
//
//zz:opt loop=400 gor=4000 require=end,refused
func zzH_C16_abi_context_guard(t *zzT) {
	mod := &zz16abiModule{before: t.Bytes("hook.before", 1), after: t.Bytes("hook.after", 1), pattern: []bool{true, false}}
	mod.scripts = []zz16abiScript{{ops: zz16abiScriptOf(t, "tx0", 0)}}
	a, database, model, id := zz16abiOpen(t, mod, 2)
	if id == nil {
		return
	}
	// a diff record for the block's height (a block being reverted): a Revert that slipped through would find it
	database.Set(bytes.Join(StateDBPrefixDiff, bytes.FromUint32(2)), (&diffdb.Diff{Added: [][]byte{zz16StateKey(1)}}).Encode())
	var wrong []byte
	switch t.Choice("wrong.kind", 3) {
	case 0:
		wrong = []byte{}
	case 1:
		wrong = t.Bytes("wrong", 32)
		t.Assume(!bytes.Equal(wrong, id))
	default:
		wrong = append(append([]byte{}, id...), t.U8("extra"))
	}
	cons := &labi.Consensus{}
	tx := zz16abiTx("cmd", 0)
	before := db.ZZDump(database)
	refusedAll := func(cid []byte, withExecute bool) bool {
		ok := true
		r1, err := a.InsertAssets(&labi.InsertAssetsRequest{ContextID: cid})
		ok = ok && err != nil && r1 == nil
		r2, err := a.VerifyAssets(&labi.VerifyAssetsRequest{ContextID: cid})
		ok = ok && err != nil && r2 == nil
		r3, err := a.BeforeTransactionsExecute(&labi.BeforeTransactionsExecuteRequest{ContextID: cid, Consensus: cons})
		ok = ok && err != nil && r3 == nil
		if withExecute {
			r4, err := a.ExecuteTransaction(&labi.ExecuteTransactionRequest{ContextID: cid, Transaction: tx, Header: zz16abiHeader(2), Consensus: cons})
			ok = ok && err != nil && r4 == nil
		}
		r5, err := a.AfterTransactionsExecute(&labi.AfterTransactionsExecuteRequest{ContextID: cid, Consensus: cons, Transactions: []*blockchain.Transaction{tx}})
		ok = ok && err != nil && r5 == nil
		r6, err := a.Commit(&labi.CommitRequest{ContextID: cid, StateRoot: emptyHash})
		ok = ok && err != nil && r6 == nil
		r7, err := a.Commit(&labi.CommitRequest{ContextID: cid, StateRoot: emptyHash, DryRun: true})
		ok = ok && err != nil && r7 == nil
		r8, err := a.Revert(&labi.RevertRequest{ContextID: cid, StateRoot: emptyHash})
		ok = ok && err != nil && r8 == nil
		return ok
	}
	open := a.executionContext
	t.Assert(refusedAll(wrong, true), "a request with a wrong context id is refused (error, no response)")
	t.Assert(mod.calls == 0, "a refused request runs no module code")
	t.Assert(zz16abiDumpEqual(before, db.ZZDump(database)), "a refused request leaves the database as it was")
	stagedOK, _ := model.seenThrough(a.executionContext.diffStore)
	t.Assert(a.executionContext == open && bytes.Equal(a.executionContext.id, id) && stagedOK, "a refused request leaves the open context as it was")
	again, err := a.InitStateMachine(&labi.InitStateMachineRequest{Header: zz16abiHeader(3)})
	t.Assert(err != nil && again == nil && a.executionContext == open, "InitStateMachine is refused while a context is open")
	t.Reach("refused")

	// VerifyTransaction: the verdict of the module, for any context id, without any effect
	mod.verifyCode = t.Choice("verify.verdict", 3)
	cid := id
	if t.Bool("verify.with.wrong.id") {
		cid = wrong
	}
	calls := mod.calls
	vres, err := a.VerifyTransaction(&labi.VerifyTransactionRequest{ContextID: cid, Transaction: tx})
	want := []int32{labi.TxVerifyResultOk, labi.TxVerifyResultPending, labi.TxVerifyResultInvalid}[mod.verifyCode]
	t.Assert(err == nil && vres != nil && vres.Result == want && mod.calls == calls+2, "VerifyTransaction answers the command's verdict")
	ures, err := a.VerifyTransaction(&labi.VerifyTransactionRequest{ContextID: cid, Transaction: zz16abiTx("nope", 0)})
	t.Assert(err == nil && ures != nil && ures.Result == labi.TxVerifyResultInvalid, "VerifyTransaction of an unknown command answers invalid")
	t.Assert(zz16abiDumpEqual(before, db.ZZDump(database)), "VerifyTransaction leaves the database as it was")

	// the block proceeds with its own id
	bres, err := a.BeforeTransactionsExecute(&labi.BeforeTransactionsExecuteRequest{ContextID: id, Consensus: cons})
	xres, xerr := a.ExecuteTransaction(&labi.ExecuteTransactionRequest{ContextID: id, Transaction: tx, Header: zz16abiHeader(2), Consensus: cons})
	t.Assert(err == nil && bres != nil && xerr == nil && xres != nil && xres.Result == labi.TxExecuteResultSuccess, "the block proceeds with its own context id")
	staged := *model
	staged.apply([]zz16abiOp{{key: 2, val: mod.before}})
	staged.apply(mod.scripts[0].ops)
	stagedOK, _ = staged.seenThrough(a.executionContext.diffStore)
	t.Assert(stagedOK, "the block's writes are staged in its context")

	// the engine abandons the block
	cres, err := a.Clear(&labi.ClearRequest{})
	t.Assert(err == nil && cres != nil && a.executionContext == nil, "Clear closes the context")
	calls = mod.calls
	t.Assert(refusedAll(id, false), "after Clear a request with the old context id is refused")
	t.Assert(mod.calls == calls, "after Clear a refused request runs no module code")
	t.Assert(model.holds(database) && zz16abiDumpEqual(before, db.ZZDump(database)), "an abandoned block leaves no trace in the database")
	reopened, err := a.InitStateMachine(&labi.InitStateMachineRequest{Header: zz16abiHeader(2)})
	if err != nil || reopened == nil {
		t.Fail("InitStateMachine succeeds after Clear")
		return
	}
	freshOK, _ := model.seenThrough(a.executionContext.diffStore)
	t.Assert(bytes.Equal(reopened.ContextID, id) && freshOK, "a context opened after Clear starts from the persisted state, without the abandoned block's writes")
	t.Reach("end")
}

// C16 "ExecuteTransaction after Clear is refused": with no context open (the engine cleared it) an
// ExecuteTransaction request (DryRun false) must be refused like every other request that needs the context
// (checkState) — an error, no response, no module code ran, nothing written — not crash the application.
//
//zz:opt loop=80 require=end
func zzH_C16_abi_exec_after_clear(t *zzT) {
	mod := &zz16abiModule{before: []byte{1}, after: []byte{2}, pattern: []bool{true, false}}
	mod.scripts = []zz16abiScript{{ops: zz16abiScriptOf(t, "tx0", 0)}}
	a, database, model, id := zz16abiOpen(t, mod, 2)
	if id == nil {
		return
	}
	a.Clear(&labi.ClearRequest{})
	before := db.ZZDump(database)
	xres, err := a.ExecuteTransaction(&labi.ExecuteTransactionRequest{ContextID: id, Transaction: zz16abiTx("cmd", 0), Header: zz16abiHeader(2), Consensus: &labi.Consensus{}})
	t.Assert(err != nil && xres == nil, "ExecuteTransaction after Clear is refused (error, no response)")
	t.Assert(mod.calls == 0 && a.executionContext == nil, "ExecuteTransaction after Clear runs no module code and opens no context")
	t.Assert(model.holds(database) && zz16abiDumpEqual(before, db.ZZDump(database)), "ExecuteTransaction after Clear leaves the database as it was")
	t.Reach("end")
}

// C16 "a successful command keeps its state changes and events", with the ExecuteTransaction request exactly as
// the engine builds it (consensus/abi_caller.go stateExecuter.Execute and generator/abi_caller.go
// stateExecuter.ExecuteTransaction: ContextID, Transaction, Assets, Header, DryRun=false — and NO Consensus, although
// BeforeTransactionsExecute / AfterTransactionsExecute of the same block carry one): the in-process handler
// (framework.Application hands the *ABIHandler itself to engine.NewEngine) must serve it.
//
//zz:opt loop=80 require=end
func zzH_C16_abi_exec_engine_request(t *zzT) {
	mod := &zz16abiModule{before: t.Bytes("hook.before", 1), pattern: []bool{true, false}}
	mod.scripts = []zz16abiScript{{ops: zz16abiScriptOf(t, "tx0", 0), fail: t.Bool("tx0.fail")}}
	a, _, model, id := zz16abiOpen(t, mod, 2)
	if id == nil {
		return
	}
	header := zz16abiHeader(2)
	assets := blockchain.BlockAssets{}
	if _, err := a.BeforeTransactionsExecute(&labi.BeforeTransactionsExecuteRequest{ContextID: id, Assets: assets, Consensus: &labi.Consensus{}}); err != nil {
		t.Fail("BeforeTransactionsExecute with the block's context id is served")
		return
	}
	model.apply([]zz16abiOp{{key: 2, val: mod.before}})
	tx := zz16abiTx("cmd", 0)
	xres, err := a.ExecuteTransaction(&labi.ExecuteTransactionRequest{
		ContextID:   id,
		Assets:      assets,
		Header:      header,
		Transaction: tx,
		Consensus:   &labi.Consensus{}, // since the repair of the engine's callers (before: absent, and the handler crashed)
		DryRun:      false,
	})
	t.Assert(err == nil && xres != nil, "the engine's ExecuteTransaction request is served")
	if err != nil || xres == nil {
		return
	}
	names, data := zz16abiExpectedEvents(mod.pattern, mod.scripts[0].fail)
	if !mod.scripts[0].fail {
		model.apply(mod.scripts[0].ops)
	}
	ok, _ := model.seenThrough(a.executionContext.diffStore)
	t.Assert(zz16abiEvents(xres.Events, names, data, 2) && ok, "the engine's ExecuteTransaction request: events and staged state as the command's outcome demands")
	t.Reach("end")
}

// C16 Finalize / Revert: the database holds the diffs of the blocks at heights 1, 2, 3, 256 and TOP = 65537 (the
// tip; its diff records that the block added key 3), the state store and the tip record. Finalize(h) for an
// arbitrary 32-bit h removes exactly the diffs of heights < h and nothing else; when TOP >= h the block at TOP can
// still be reverted: Revert succeeds, removes the key the block added and moves the tip record to TOP-1.
//
//zz:opt loop=400 gor=4000 require=end,removed-some,kept-all,reverted
func zzH_C16_abi_finalize(t *zzT) {
	const top = uint32(65537)
	heights := []uint32{1, 2, 3, 256, top}
	mod := &zz16abiModule{}
	a, database, model, _ := zz16abiOpen(t, mod, top+1) // tip record (top, empty root); context closed below
	a.Clear(&labi.ClearRequest{})
	added := t.Bytes("added", 1)
	database.Set(zz16StateKey(3), added)
	withTop := *model
	withTop.apply([]zz16abiOp{{key: 3, val: added}})
	for _, h := range heights {
		d := &diffdb.Diff{}
		if h == top {
			d.Added = [][]byte{zz16StateKey(3)}
		}
		database.Set(bytes.Join(StateDBPrefixDiff, bytes.FromUint32(h)), d.Encode())
	}
	database.Set(bytes.Join(StateDBPrefixTree, []byte{0xaa}), []byte{0xbb}) // some trie node
	others := func() []db.KeyValue {
		var out []db.KeyValue
		for _, kv := range db.ZZDump(database) {
			if kv.Key()[0] != StateDBPrefixDiff[0] {
				out = append(out, kv)
			}
		}
		return out
	}
	before := others()
	f := t.U32("finalized.height")
	res, err := a.Finalize(&labi.FinalizeRequest{FinalizedHeight: f})
	t.Assert(err == nil && res != nil, "Finalize succeeds")
	exact, removed := true, 0
	for _, h := range heights {
		_, exist := database.Get(bytes.Join(StateDBPrefixDiff, bytes.FromUint32(h)))
		exact = exact && (exist == (h >= f))
		if !exist {
			removed++
		}
	}
	t.Assert(exact, "Finalize(h) removes exactly the stored diffs of heights < h")
	t.Assert(len(database.IterateKey(StateDBPrefixDiff, -1, false)) == len(heights)-removed, "Finalize(h) adds no diff record")
	t.Assert(zz16abiDumpEqual(before, others()) && withTop.holds(database), "Finalize(h) touches nothing but diff records")
	if removed > 0 {
		t.Reach("removed-some")
	} else {
		t.Reach("kept-all")
	}
	if top >= f {
		init, err := a.InitStateMachine(&labi.InitStateMachineRequest{Header: zz16abiHeader(top)})
		if err != nil || init == nil {
			t.Fail("InitStateMachine succeeds when no context is open")
			return
		}
		rv, err := a.Revert(&labi.RevertRequest{ContextID: init.ContextID, StateRoot: emptyHash})
		a.Clear(&labi.ClearRequest{})
		t.Assert(err == nil && rv != nil, "a block at a height >= the finalized height can still be reverted")
		tip, ok := database.Get(bytes.Join(StateDBPrefixTreeState, emptyBytes))
		t.Assert(ok && len(tip) >= 4 && bytes.ToUint32(tip[:4]) == top-1 && model.holds(database),
			"the revert after Finalize removes what the block added and moves the tip record one block down")
		t.Reach("reverted")
	}
	t.Reach("end")
}
