//go:build verif

package sync

// C19.a: getBestNodeInfo returns a peer with maximal maxHeightPrevoted, then maximal height among
// those, then a most frequent block ID among those — for every list, every map iteration order and
// every random pick.
//
//zz:opt loop=16 mapperm=1
//zz:quick n=3
//zz:thorough n=4
func zzH_C19_best_peer(t *zzT) {
	n := t.Range("n", 1, t.Param("n", 3))
	infos := make([]*NodeInfo, n)
	for i := range infos {
		infos[i] = &NodeInfo{
			height:            t.U32(t.Name("height", i)),
			maxHeightPrevoted: t.U32(t.Name("mhp", i)),
			lastBlockID:       []byte{t.U8(t.Name("id", i))},
		}
	}
	// natively the map order and rand.Intn are really random: repeat so a bad order shows up
	reps := 1
	if !t.Symbolic() {
		reps = 400
	}
	for r := 0; r < reps; r++ {
		best, err := getBestNodeInfo(infos)
		t.Assert(err == nil && best != nil, "a peer is selected from a non-empty list")
		if err != nil || best == nil {
			return
		}
		freqBest, maxFreq := 0, 0
		for _, x := range infos {
			t.Assert(x.maxHeightPrevoted <= best.maxHeightPrevoted, "selected peer has maximal maxHeightPrevoted")
			if x.maxHeightPrevoted == best.maxHeightPrevoted {
				t.Assert(x.height <= best.height, "selected peer has maximal height among those")
			}
		}
		for _, x := range infos {
			if x.maxHeightPrevoted != best.maxHeightPrevoted || x.height != best.height {
				continue
			}
			if x.lastBlockID[0] == best.lastBlockID[0] {
				freqBest++
			}
			f := 0
			for _, y := range infos {
				if y.maxHeightPrevoted == best.maxHeightPrevoted && y.height == best.height && y.lastBlockID[0] == x.lastBlockID[0] {
					f++
				}
			}
			if f > maxFreq {
				maxFreq = f
			}
		}
		t.Assert(freqBest == maxFreq, "selected peer has a most frequent block ID among the best group")
	}
	t.Reach("end")
}

// C19.c / C04.c: height list helpers (pure arithmetic, all 32-bit values).
//
//zz:opt loop=16
func zzH_C19_height_helpers(t *zzT) {
	start, min := t.U32("start"), t.U32("min")
	gap := t.Range("gap", 1, 3)
	num := t.Range("num", 1, 4)
	t.Assume(min < 1<<31 && start < 1<<31)
	hs := getHeightWithGap(start, min, gap, num)
	t.Assert(len(hs) <= num || (len(hs) == 1 && start <= min), "at most num heights")
	for i, h := range hs {
		if start <= min {
			t.Assert(len(hs) == 1 && h == min, "start at or below minimum yields exactly [minimum]")
		} else {
			t.Assert(h >= min, "never below the minimum (finalized) height")
			t.Assert(h <= start, "never above start")
			if i > 0 {
				t.Assert(h < hs[i-1], "strictly decreasing")
			}
		}
	}
	ls := getLastHeights(start, num)
	for i, h := range ls {
		t.Assert(h == start-uint32(i), "consecutive descending heights from start")
	}
	t.Assert(len(ls) <= num, "getLastHeights returns at most num heights")
	t.Reach("end")
}
