//go:build verif

package sync

import (
	"github.com/LiskHQ/lisk-engine/pkg/blockchain"
	cbytes "github.com/LiskHQ/lisk-engine/pkg/collection/bytes"
	"github.com/LiskHQ/lisk-engine/pkg/crypto"
	"github.com/LiskHQ/lisk-engine/pkg/db"
	"github.com/LiskHQ/lisk-engine/pkg/log"
	"github.com/LiskHQ/lisk-engine/pkg/p2p"
)

// C19.a: getBestNodeInfo returns a peer with maximal maxHeightPrevoted, then maximal height among
// those, then a most frequent block ID among those — for every list, every map iteration order and
// every random pick.
//
//zz:opt loop=16 mapperm=1
//zz:quick n=3
//zz:thorough n=4
func zzH_C19_best_peer(t *zzT) {
	n := t.Range("n", 1, t.Param("n", 3))
	infos := make([]*NodeInfo, n)
	for i := range infos {
		infos[i] = &NodeInfo{
			height:            t.U32(t.Name("height", i)),
			maxHeightPrevoted: t.U32(t.Name("mhp", i)),
			lastBlockID:       []byte{t.U8(t.Name("id", i))},
		}
	}
	// natively the map order and rand.Intn are really random: repeat so a bad order shows up
	reps := 1
	if !t.Symbolic() {
		reps = 400
	}
	for r := 0; r < reps; r++ {
		best, err := getBestNodeInfo(infos)
		t.Assert(err == nil && best != nil, "a peer is selected from a non-empty list")
		if err != nil || best == nil {
			return
		}
		freqBest, maxFreq := 0, 0
		for _, x := range infos {
			t.Assert(x.maxHeightPrevoted <= best.maxHeightPrevoted, "selected peer has maximal maxHeightPrevoted")
			if x.maxHeightPrevoted == best.maxHeightPrevoted {
				t.Assert(x.height <= best.height, "selected peer has maximal height among those")
			}
		}
		for _, x := range infos {
			if x.maxHeightPrevoted != best.maxHeightPrevoted || x.height != best.height {
				continue
			}
			if x.lastBlockID[0] == best.lastBlockID[0] {
				freqBest++
			}
			f := 0
			for _, y := range infos {
				if y.maxHeightPrevoted == best.maxHeightPrevoted && y.height == best.height && y.lastBlockID[0] == x.lastBlockID[0] {
					f++
				}
			}
			if f > maxFreq {
				maxFreq = f
			}
		}
		t.Assert(freqBest == maxFreq, "selected peer has a most frequent block ID among the best group")
	}
	t.Reach("end")
}

// C19.c / C04.c: height list helpers (pure arithmetic, all 32-bit values).
//
//zz:opt loop=16
func zzH_C19_height_helpers(t *zzT) {
	start, min := t.U32("start"), t.U32("min")
	gap := t.Range("gap", 1, 3)
	num := t.Range("num", 1, 4)
	t.Assume(min < 1<<31 && start < 1<<31)
	hs := getHeightWithGap(start, min, gap, num)
	t.Assert(len(hs) <= num || (len(hs) == 1 && start <= min), "at most num heights")
	for i, h := range hs {
		if start <= min {
			t.Assert(len(hs) == 1 && h == min, "start at or below minimum yields exactly [minimum]")
		} else {
			t.Assert(h >= min, "never below the minimum (finalized) height")
			t.Assert(h <= start, "never above start")
			if i > 0 {
				t.Assert(h < hs[i-1], "strictly decreasing")
			}
		}
	}
	ls := getLastHeights(start, num)
	for i, h := range ls {
		t.Assert(h == start-uint32(i), "consecutive descending heights from start")
	}
	t.Assert(len(ls) <= num, "getLastHeights returns at most num heights")
	t.Reach("end")
}

// ---- C19.b: sync RPC handlers on a node's own chain ----

type zzsLog struct{}

func (zzsLog) Debug(msg string, others ...interface{})    {}
func (zzsLog) Info(msg string, others ...interface{})     {}
func (zzsLog) Error(msg string, others ...interface{})    {}
func (zzsLog) Debugf(msg string, others ...interface{})   {}
func (zzsLog) Infof(msg string, others ...interface{})    {}
func (zzsLog) Errorf(msg string, others ...interface{})   {}
func (zzsLog) Warning(msg string, others ...interface{})  {}
func (zzsLog) Warningf(msg string, others ...interface{}) {}
func (l zzsLog) With(kv ...interface{}) log.Logger        { return l }

var zzsBanned int

// zzsStubBanPeer replaces (*p2p.Connection).BanPeer under the engine (monitor). Natively the real
// method would need a started libp2p host; the harness therefore passes a nil connection natively
// only on paths that must not ban (see zzsNode).
func zzsStubBanPeer(c *p2p.Connection, id p2p.PeerID) {
	zzsBanned++
}

type zzsWriter struct {
	data  [][]byte
	errs  int
	calls int
}

func (w *zzsWriter) Write(b []byte) { w.calls++; w.data = append(w.data, b) }
func (w *zzsWriter) Error(e error)  { w.calls++; w.errs++ }

func zzsBlock(height uint32, prev []byte) *blockchain.Block {
	h := &blockchain.BlockHeader{Version: 2, Timestamp: 100 + height*10, Height: height, PreviousBlockID: prev, GeneratorAddress: cbytes.Repeat([]byte{1}, 20),
		TransactionRoot: crypto.Hash([]byte{}), AssetRoot: crypto.Hash([]byte{}), EventRoot: crypto.Hash([]byte{}), StateRoot: cbytes.Repeat([]byte{2}, 32),
		ValidatorsHash: cbytes.Repeat([]byte{3}, 32), AggregateCommit: &blockchain.AggregateCommit{AggregationBits: []byte{}, CertificateSignature: []byte{}}, Signature: cbytes.Repeat([]byte{4}, 64)}
	h.Init()
	return &blockchain.Block{Header: h, Transactions: []*blockchain.Transaction{}, Assets: []*blockchain.BlockAsset{}}
}

// zzsNode: a chain of n blocks (heights 0..n-1) stored through the real Chain.AddBlock.
func zzsNode(t *zzT, n int) (*Syncer, []*blockchain.Block) {
	database, err := db.NewInMemoryDB()
	if err != nil {
		t.Fail("db")
	}
	var blocks []*blockchain.Block
	prev := cbytes.Repeat([]byte{0}, 32)
	for i := 0; i < n; i++ {
		b := zzsBlock(uint32(i), prev)
		blocks = append(blocks, b)
		prev = b.Header.ID
	}
	chain := blockchain.NewChain(&blockchain.ChainConfig{ChainID: []byte{0, 0, 0, 1}, MaxTransactionsLength: 1000, MaxBlockCache: 2, KeepEventsForHeights: -1})
	chain.Init(blocks[0], database)
	for _, b := range blocks {
		if err := chain.AddBlock(database.NewBatch(), b, nil, 0, false); err != nil {
			t.Fail("setup: AddBlock")
		}
	}
	// history: one more block was applied on top and reverted again (a fork the node left); its ID must be
	// unknown to the node afterwards although it went through the block cache
	zzsReverted = zzsBlock(uint32(n), prev)
	zzsReverted.Header.StateRoot = cbytes.Repeat([]byte{0x66}, 32)
	zzsReverted.Header.Init()
	if err := chain.AddBlock(database.NewBatch(), zzsReverted, nil, 0, false); err != nil {
		t.Fail("setup: AddBlock of the block to revert")
	}
	if err := chain.RemoveBlock(database.NewBatch(), false); err != nil {
		t.Fail("setup: RemoveBlock")
	}
	zzsBanned = 0
	return &Syncer{chain: chain, logger: zzsLog{}, conn: &p2p.Connection{}}, blocks
}

// zzsReverted: the block zzsNode applied on top of the chain and reverted again.
var zzsReverted *blockchain.Block

// C19.b: GetBlocksFromID answers a well-formed request for a block of the node's own chain with the
// consecutive blocks above it (at most 103, up to the tip, ascending), answers an unknown ID with an
// error, and bans the sender of a malformed request without answering. C09.b: no request panics.
//
//zz:opt loop=200 lockdiscipline=off
//zz:stub (*~/pkg/p2p.Connection).BanPeer zzsStubBanPeer
//zz:quick N=4 B=3
//zz:thorough N=6 B=5
func zzH_C19_blocks_from_id_handler(t *zzT) {
	n := t.Param("N", 4)
	s, blocks := zzsNode(t, n)
	w := &zzsWriter{}
	h := s.HandleRPCEndpointGetBlocksFromID()
	kind := t.Choice("request", 3)
	switch kind {
	case 0: // well-formed, known block k
		k := t.Range("k", 0, n-1)
		h(w, &p2p.Request{Data: (&GetBlocksFromIDRequest{ID: blocks[k].Header.ID}).Encode()})
		t.Assert(zzsBanned == 0 && w.calls == 1 && w.errs == 0, "a well-formed request for an own block is answered once and nobody is banned")
		if len(w.data) == 1 {
			resp := &GetBlocksFromIDResponse{}
			t.Assert(resp.Decode(w.data[0]) == nil, "response decodes")
			t.Assert(len(resp.Blocks) == n-1-k && len(resp.Blocks) <= 103, "all blocks above the requested one up to the tip (at most 103)")
			for i, b := range resp.Blocks {
				b.Init()
				t.Assert(b.Header.Height == uint32(k+1+i) && cbytes.Equal(b.Header.ID, blocks[k+1+i].Header.ID), "consecutive ascending blocks of the node's own chain")
			}
		}
		t.Reach("served")
	case 1: // well-formed, unknown ID: never seen, or the ID of a block the node reverted
		unknown := cbytes.Repeat([]byte{9}, 32)
		if t.Bool("unknown.isReverted") {
			unknown = zzsReverted.Header.ID
		}
		h(w, &p2p.Request{Data: (&GetBlocksFromIDRequest{ID: unknown}).Encode()})
		t.Assert(zzsBanned == 0 && w.errs == 1 && len(w.data) == 0, "unknown block ID: error response, no ban")
		t.Reach("unknown")
	default: // arbitrary bytes (nil when length 0 is chosen as nil)
		nb := t.Range("len", 0, t.Param("B", 3))
		var raw []byte
		if nb > 0 || t.Bool("emptyNotNil") {
			raw = t.Bytes("raw", nb)
		}
		if !t.Symbolic() {
			// BanPeer needs a live host natively; with a nil connection an attempted ban panics inside
			// BanPeer, which is caught and counted here
			s.conn = nil
			func() {
				defer func() {
					if r := recover(); r != nil {
						zzsBanned++
					}
				}()
				h(w, &p2p.Request{Data: raw})
			}()
		} else {
			h(w, &p2p.Request{Data: raw})
		}
		req := &GetBlocksFromIDRequest{}
		wellFormed := raw != nil && req.Decode(raw) == nil && len(req.ID) == 32
		if !wellFormed {
			t.Assert(zzsBanned == 1 && w.calls == 0, "malformed request: the sender is banned and nothing is answered")
		}
		t.Reach("arbitrary")
	}
}

// C19.b: GetHighestCommonBlock returns the known ID of maximal height among the offered IDs (nil when
// none is known) and bans on malformed requests.
//
//zz:opt loop=200 lockdiscipline=off sched=1 require=invalid,end
//zz:stub (*~/pkg/p2p.Connection).BanPeer zzsStubBanPeer
//zz:quick N=3
//zz:thorough N=4
func zzH_C19_highest_common_block_handler(t *zzT) {
	n := t.Param("N", 3)
	s, blocks := zzsNode(t, n)
	w := &zzsWriter{}
	h := s.HandleRPCEndpointGetHighestCommonBlock()
	cnt := t.Range("ids", 0, 2)
	var ids [][]byte
	best := -1
	malformed := cnt == 0 // an empty ID list is an invalid request
	for i := 0; i < cnt; i++ {
		// n = unknown ID, n+1 = ID of a reverted block (unknown as well), n+2.. = malformed IDs (31, 33, 0 bytes)
		k := t.Range(t.Name("id", i), 0, n+4)
		switch {
		case k == n:
			ids = append(ids, cbytes.Repeat([]byte{byte(7 + i)}, 32))
		case k == n+1:
			ids = append(ids, zzsReverted.Header.ID)
		case k == n+2:
			ids = append(ids, cbytes.Repeat([]byte{3}, 31))
			malformed = true
		case k == n+3:
			ids = append(ids, cbytes.Repeat([]byte{3}, 33))
			malformed = true
		case k == n+4:
			ids = append(ids, []byte{})
			malformed = true
		default:
			ids = append(ids, blocks[k].Header.ID)
			if k > best {
				best = k
			}
		}
	}
	req := &p2p.Request{Data: (&GetHighestCommonBlockRequest{IDs: ids}).Encode()}
	if malformed {
		// invalid sync request (C18): whatever else the list contains - the node's own tip ID first, known IDs,
		// unknown IDs - the sender is penalised and nothing is answered
		if !t.Symbolic() {
			// BanPeer needs a live host natively; with a nil connection an attempted ban panics inside BanPeer
			s.conn = nil
			func() {
				defer func() {
					if r := recover(); r != nil {
						zzsBanned++
					}
				}()
				h(w, req)
			}()
		} else {
			h(w, req)
		}
		t.Assert(zzsBanned == 1 && w.calls == 0, "invalid request (an ID that is not 32 bytes long, or no ID): the sender is banned and nothing is answered")
		t.Reach("invalid")
		return
	}
	h(w, req)
	t.Assert(zzsBanned == 0 && w.calls == 1 && w.errs == 0, "well-formed request: answered once, nobody banned")
	if len(w.data) == 1 {
		if best < 0 {
			t.Assert(w.data[0] == nil, "no offered ID is known: empty answer")
		} else {
			resp := &GetHighestCommonBlockResponse{}
			t.Assert(w.data[0] != nil && resp.Decode(w.data[0]) == nil && cbytes.Equal(resp.ID, blocks[best].Header.ID), "answer is the known ID of maximal height")
		}
	}
	t.Reach("end")
}

// C18 "invalid sync requests lead to these penalties": the same handler scenarios registered under C18
// (seed C18-5 answered a request whose FIRST ID is the node's tip before validating the other IDs).
//
//zz:opt loop=200 lockdiscipline=off sched=1 require=invalid
//zz:stub (*~/pkg/p2p.Connection).BanPeer zzsStubBanPeer
//zz:quick N=3
//zz:thorough N=4
func zzH_C18_sync_invalid_request_ban(t *zzT) { zzH_C19_highest_common_block_handler(t) }

// C18 / C19.b: the same for GetBlocksFromID (arbitrary request bytes).
//
//zz:opt loop=200 lockdiscipline=off
//zz:stub (*~/pkg/p2p.Connection).BanPeer zzsStubBanPeer
//zz:quick N=4 B=3
//zz:thorough N=6 B=5
func zzH_C18_sync_blocks_request_ban(t *zzT) { zzH_C19_blocks_from_id_handler(t) }

// C19 "… the consecutive blocks that follow a given ID on their own chain, in order and never more than the cap":
// the cap itself. A chain of 103 + k + D blocks (k = position of the requested block, D = 0..2 blocks beyond the
// cap): the handler answers with min(103, blocks above the requested one) consecutive blocks starting right above
// it. (seed C19-9 computed the upper end of the range from height+1: 104 blocks.)
//
//zz:opt loop=400 lockdiscipline=off gor=400 steps=80000000 budget=600s
//zz:stub (*~/pkg/p2p.Connection).BanPeer zzsStubBanPeer
func zzH_C19_blocks_from_id_cap(t *zzT) {
	k := t.Range("k", 0, 1)
	beyond := t.Range("beyond.cap", 0, 2)
	n := k + 1 + 102 + beyond // blocks above k: 102 + beyond  (101.., 102 < cap, 103 = cap, 104 > cap)
	if beyond == 2 {
		n = k + 1 + 104
	} else if beyond == 1 {
		n = k + 1 + 103
	}
	s, blocks := zzsNode(t, n)
	w := &zzsWriter{}
	s.HandleRPCEndpointGetBlocksFromID()(w, &p2p.Request{Data: (&GetBlocksFromIDRequest{ID: blocks[k].Header.ID}).Encode()})
	t.Assert(zzsBanned == 0 && w.calls == 1 && w.errs == 0 && len(w.data) == 1, "a well-formed request for an own block is answered once")
	if len(w.data) != 1 {
		return
	}
	resp := &GetBlocksFromIDResponse{}
	t.Assert(resp.Decode(w.data[0]) == nil, "response decodes")
	above := n - 1 - k
	want := above
	if want > 103 {
		want = 103
	}
	t.Assert(len(resp.Blocks) == want, "the blocks above the requested one, never more than the cap of 103")
	ok := true
	for i, b := range resp.Blocks {
		b.Init()
		if b.Header.Height != uint32(k+1+i) || !cbytes.Equal(b.Header.ID, blocks[k+1+i].Header.ID) {
			ok = false
		}
	}
	t.Assert(ok, "consecutive ascending blocks of the node's own chain starting right above the requested one")
	t.Reach("end")
}
