//go:build verif

package sync

import (
	"bytes"
	"context"
	"errors"
	gosync "sync"
	"time"

	"go.uber.org/ratelimit"

	"github.com/LiskHQ/lisk-engine/pkg/blockchain"
	"github.com/LiskHQ/lisk-engine/pkg/codec"
	cbytes "github.com/LiskHQ/lisk-engine/pkg/collection/bytes"
	"github.com/LiskHQ/lisk-engine/pkg/crypto"
	"github.com/LiskHQ/lisk-engine/pkg/db"
	"github.com/LiskHQ/lisk-engine/pkg/p2p"
)

// C19.d: the sync PROCEDURES (fastSyncer.Sync, blockSyncer.Sync) driven as units.
//
// Environment. The node under test owns a real blockchain.Chain (real DataAccess, block cache, temp
// blocks) over the database (pebble in memory natively, the sorted-list model symbolically) holding the
// chain own[0..L-1]. `processor` and `reverter` are harness fakes with the contract of the consensus
// Executer (processValidated / deleteBlock): the processor appends a block through Chain.AddBlock iff
// it extends the current tip and is not the designated rejected block, the reverter removes the tip
// through Chain.RemoveBlock(saveTemp) and refuses finalized heights. Both record their calls.
//
// The remote peer is a script (zz19Env.peer*): its chain is own[0..c] + a fork of k blocks.
//   * Under the engine the three request functions of request.go and (*p2p.Connection).BanPeer are
//     redirected (//zz:stub) to the script / a ban recorder. Blocks go through Encode + NewBlock, as
//     they do on the wire.
//   * Natively nothing can be redirected, so the SAME script is served by a second real p2p node on
//     127.0.0.1 (zz19StartNet): the real request functions, the real message protocol and the real
//     BanPeer run; "banned" is then observed as a non-empty BlacklistedPeers() of the node under test.
// Everything else (Downloader.Start, context, channels) is the real code in both modes; under the engine the
// Downloader's rate limiter is a no-op and context.WithCancel yields a plain channel-backed context.

type zz19Call struct {
	height uint32
	id     []byte
	flag   bool // removeTemp (processor) / saveTemp (reverter)
}

type zz19Env struct {
	silentAfter int // from this getBlocksFromId request on the peer answers with an empty list (0 = never)
	t         *zzT
	mu        gosync.Mutex
	database  *db.DB
	chain     *blockchain.Chain
	own       []*blockchain.Block
	ownDump   []db.KeyValue
	finalized uint32

	// fakes
	rejectID []byte
	calls    []zz19Call
	reverts  []zz19Call
	badCall  bool // reverter called with something that is not the tip

	// network
	conn   *p2p.Connection
	peerID p2p.PeerID
	bans   []p2p.PeerID
	netA   *p2p.Connection
	netB   *p2p.Connection

	// peer script
	peerChain   []*blockchain.Block
	commonFixed bool   // answer commonID whatever is offered (nil = "no common block")
	commonID    []byte //
	chunk       int    // blocks per getBlocksFromId answer
	lastBlocks  []*blockchain.Block
	offered     [][][]byte
	blockReqs   int
	lastReqs    int
}

var zz19E *zz19Env

var (
	zz19ErrRejected = errors.New("zz19: block rejected by the processor")
	zz19ErrNoExtend = errors.New("zz19: block does not extend the tip")
	zz19ErrFinal    = errors.New("zz19: finalized block cannot be deleted")
	zz19ErrUnknown  = errors.New("zz19: peer does not know this block")
)

func zz19Block(height uint32, prev []byte, tag byte, mhp uint32, sigLen int) *blockchain.Block {
	h := &blockchain.BlockHeader{Version: 2, Timestamp: 100 + height*10, Height: height, PreviousBlockID: prev, GeneratorAddress: cbytes.Repeat([]byte{1}, 20),
		TransactionRoot: crypto.Hash([]byte{}), AssetRoot: crypto.Hash([]byte{}), EventRoot: crypto.Hash([]byte{}), StateRoot: cbytes.Repeat([]byte{tag}, 32),
		MaxHeightPrevoted: mhp, ValidatorsHash: cbytes.Repeat([]byte{3}, 32),
		AggregateCommit: &blockchain.AggregateCommit{AggregationBits: []byte{}, CertificateSignature: []byte{}}, Signature: cbytes.Repeat([]byte{4}, sigLen)}
	h.Init()
	return &blockchain.Block{Header: h, Transactions: []*blockchain.Transaction{}, Assets: []*blockchain.BlockAsset{}}
}

func zz19Chain(t *zzT, blocks []*blockchain.Block, finalized uint32) (*blockchain.Chain, *db.DB) {
	database, err := db.NewInMemoryDB()
	if err != nil {
		t.Fail("setup: db")
	}
	// the cache is larger than every chain used here: Chain.LastBlock reads the cache only and
	// RemoveBlock does not refill it (the node default is 515)
	chain := blockchain.NewChain(&blockchain.ChainConfig{ChainID: []byte{0, 0, 0, 1}, MaxTransactionsLength: 1000, MaxBlockCache: 32, KeepEventsForHeights: -1})
	chain.Init(blocks[0], database)
	for _, b := range blocks {
		if err := chain.AddBlock(database.NewBatch(), b, nil, finalized, false); err != nil {
			t.Fail("setup: AddBlock")
		}
	}
	return chain, database
}

func zz19DumpEqual(a, b []db.KeyValue) bool {
	if len(a) != len(b) {
		return false
	}
	for i := range a {
		if !bytes.Equal(a[i].Key(), b[i].Key()) || !bytes.Equal(a[i].Value(), b[i].Value()) {
			return false
		}
	}
	return true
}

// zz19NewEnv: own chain of L blocks (heights 0..L-1), the tip carrying maxHeightPrevoted ownMhp.
func zz19NewEnv(t *zzT, L int, ownMhp uint32, finalized uint32) *zz19Env {
	e := &zz19Env{t: t, finalized: finalized, chunk: 2}
	prev := cbytes.Repeat([]byte{0}, 32)
	for i := 0; i < L; i++ {
		mhp := uint32(0)
		if i == L-1 {
			mhp = ownMhp
		}
		b := zz19Block(uint32(i), prev, 0xA0, mhp, 64)
		e.own = append(e.own, b)
		prev = b.Header.ID
	}
	e.chain, e.database = zz19Chain(t, e.own, finalized)
	e.ownDump = db.ZZDump(e.database)
	zz19E = e
	return e
}

// zz19Peer: the peer's chain is own[0..c] + k blocks of its own; the block at fork position badSig
// (>= 0) carries a 10-byte signature (fails Block.Validate, survives the codec); its tip carries tipMhp.
func (e *zz19Env) zz19Peer(c, k int, tipMhp uint32, badSig int) []*blockchain.Block {
	e.peerChain = append([]*blockchain.Block{}, e.own[:c+1]...)
	prev := e.own[c].Header.ID
	var fork []*blockchain.Block
	for i := 0; i < k; i++ {
		sig, mhp := 64, uint32(0)
		if i == badSig {
			sig = 10
		}
		if i == k-1 {
			mhp = tipMhp
		}
		b := zz19Block(uint32(c+1+i), prev, 0xB0, mhp, sig)
		fork = append(fork, b)
		e.peerChain = append(e.peerChain, b)
		prev = b.Header.ID
	}
	return fork
}

// ---- fakes of the consensus callbacks ----

func (e *zz19Env) process(ctx context.Context, b *blockchain.Block, publish bool, removeTemp bool) error {
	e.calls = append(e.calls, zz19Call{b.Header.Height, b.Header.ID, removeTemp})
	tip := e.chain.LastBlock().Header
	if e.rejectID != nil && bytes.Equal(b.Header.ID, e.rejectID) {
		return zz19ErrRejected
	}
	if b.Header.Height != tip.Height+1 || !bytes.Equal(b.Header.PreviousBlockID, tip.ID) {
		return zz19ErrNoExtend
	}
	return e.chain.AddBlock(e.database.NewBatch(), b, nil, e.finalized, removeTemp)
}

func (e *zz19Env) revert(ctx context.Context, b *blockchain.Block, saveTemp bool) error {
	tip := e.chain.LastBlock().Header
	if !bytes.Equal(b.Header.ID, tip.ID) {
		e.badCall = true
	}
	if b.Header.Height <= e.finalized {
		return zz19ErrFinal
	}
	e.reverts = append(e.reverts, zz19Call{b.Header.Height, b.Header.ID, saveTemp})
	return e.chain.RemoveBlock(e.database.NewBatch(), saveTemp)
}

// ---- the peer script ----

func (e *zz19Env) peerHeightOf(id []byte) int {
	for i, b := range e.peerChain {
		if bytes.Equal(b.Header.ID, id) {
			return i
		}
	}
	return -1
}

// peerCommon: the answer to getHighestCommonBlock (nil = no common block).
func (e *zz19Env) peerCommon(ids [][]byte) []byte {
	e.mu.Lock()
	defer e.mu.Unlock()
	e.offered = append(e.offered, ids)
	if e.commonFixed {
		return e.commonID
	}
	best := -1
	for _, id := range ids {
		if h := e.peerHeightOf(id); h > best {
			best = h
		}
	}
	if best < 0 {
		return nil
	}
	return e.peerChain[best].Header.ID
}

// peerBlocksAfter: the answer to getBlocksFromId — the next `chunk` blocks of the peer's chain.
func (e *zz19Env) peerBlocksAfter(id []byte) ([]*blockchain.Block, error) {
	e.mu.Lock()
	defer e.mu.Unlock()
	e.blockReqs++
	if e.silentAfter > 0 && e.blockReqs >= e.silentAfter {
		// a peer that keeps answering but has (or claims to have) nothing above the requested block
		return []*blockchain.Block{}, nil
	}
	h := e.peerHeightOf(id)
	if h < 0 {
		return nil, zz19ErrUnknown
	}
	to := h + 1 + e.chunk
	if to > len(e.peerChain) {
		to = len(e.peerChain)
	}
	return e.peerChain[h+1 : to], nil
}

// peerLast: the answer to the i-th getLastBlock request.
func (e *zz19Env) peerLast() *blockchain.Block {
	e.mu.Lock()
	defer e.mu.Unlock()
	i := e.lastReqs
	e.lastReqs++
	if i >= len(e.lastBlocks) {
		i = len(e.lastBlocks) - 1
	}
	return e.lastBlocks[i]
}

// ---- symbolic redirections ----

func zz19StubCommon(ctx context.Context, conn *p2p.Connection, peerID p2p.PeerID, ids [][]byte) ([]byte, error) {
	id := zz19E.peerCommon(ids)
	if len(id) == 0 {
		return nil, errCommonBlockNotFound
	}
	return id, nil
}

func zz19StubBlocks(ctx context.Context, conn *p2p.Connection, peerID p2p.PeerID, id []byte) ([]*blockchain.Block, error) {
	blocks, err := zz19E.peerBlocksAfter(id)
	if err != nil {
		return nil, err
	}
	out := make([]*blockchain.Block, len(blocks))
	for i, b := range blocks {
		nb, err := blockchain.NewBlock(b.Encode())
		if err != nil {
			return nil, err
		}
		out[i] = nb
	}
	return out, nil
}

func zz19StubLast(ctx context.Context, conn *p2p.Connection, peerID p2p.PeerID) (*blockchain.BlockHeader, error) {
	nb, err := blockchain.NewBlock(zz19E.peerLast().Encode())
	if err != nil {
		return nil, err
	}
	return nb.Header, nil
}

func zz19StubBan(c *p2p.Connection, id p2p.PeerID) { zz19E.bans = append(zz19E.bans, id) }

// the Downloader's rate limiter (go.uber.org/ratelimit: unsafe pointers + wall clock) never limits under the engine
type zz19Limiter struct{}

func (zz19Limiter) Take() time.Time { return time.Time{} }

func zz19StubLimiter(rate int, opts ...ratelimit.Option) ratelimit.Limiter { return zz19Limiter{} }

// context.WithCancel (atomic.Value inside) under the engine: a context whose Done channel is closed by
// cancel; the parent is always context.Background() here.
type zz19Ctx struct {
	context.Context
	done   chan struct{}
	closed bool
}

func (c *zz19Ctx) Done() <-chan struct{} { return c.done }
func (c *zz19Ctx) Err() error {
	if c.closed {
		return context.Canceled
	}
	return nil
}

func zz19StubWithCancel(parent context.Context) (context.Context, context.CancelFunc) {
	c := &zz19Ctx{Context: parent, done: make(chan struct{})}
	return c, func() {
		if !c.closed {
			c.closed = true
			close(c.done)
		}
	}
}

func zz19StubPeers(p *p2p.Peer) p2p.PeerIDs { return p2p.PeerIDs{zz19E.peerID} }

// ---- native network: the script served by a real second node ----

func (e *zz19Env) zz19StartNet() {
	t := e.t
	if t.Symbolic() {
		e.conn = &p2p.Connection{}
		e.peerID = p2p.PeerID("zz19-peer")
		return
	}
	mk := func(serve bool) *p2p.Connection {
		n := p2p.NewConnection(zzsLog{}, &p2p.Config{Addresses: []string{"/ip4/127.0.0.1/tcp/0"}})
		// the requester must know the procedures as well (onResponse bans unknown procedures)
		n.RegisterRPCHandler(RPCEndpointGetHighestCommonBlock, func(w p2p.ResponseWriter, r *p2p.Request) {
			req := &GetHighestCommonBlockRequest{}
			if !serve || req.Decode(r.Data) != nil {
				w.Error(zz19ErrUnknown)
				return
			}
			id := e.peerCommon(req.IDs)
			if len(id) == 0 {
				w.Write(nil)
				return
			}
			w.Write((&GetHighestCommonBlockResponse{ID: id}).Encode())
		})
		n.RegisterRPCHandler(RPCEndpointGetBlocksFromID, func(w p2p.ResponseWriter, r *p2p.Request) {
			req := &GetBlocksFromIDRequest{}
			if !serve || req.Decode(r.Data) != nil {
				w.Error(zz19ErrUnknown)
				return
			}
			blocks, err := e.peerBlocksAfter(req.ID)
			if err != nil {
				w.Error(err)
				return
			}
			w.Write((&GetBlocksFromIDResponse{Blocks: blocks}).Encode())
		})
		n.RegisterRPCHandler(RPCEndpointGetLastBlock, func(w p2p.ResponseWriter, r *p2p.Request) {
			if !serve {
				w.Error(zz19ErrUnknown)
				return
			}
			w.Write(e.peerLast().Encode())
		})
		if err := n.Start([]byte{}); err != nil {
			t.Fail("setup: p2p start")
		}
		return n
	}
	e.netA, e.netB = mk(false), mk(true)
	addrs, err := e.netB.MultiAddress()
	if err != nil || len(addrs) == 0 {
		t.Fail("setup: p2p address")
		return
	}
	info, err := p2p.AddrInfoFromMultiAddr(addrs[0])
	if err != nil {
		t.Fail("setup: p2p addr info")
		return
	}
	if err := e.netA.Connect(context.Background(), *info); err != nil {
		t.Fail("setup: p2p connect")
	}
	e.conn, e.peerID = e.netA, e.netB.ID()
}

func (e *zz19Env) zz19StopNet() {
	if e.netA != nil {
		e.netA.Stop()
		e.netB.Stop()
	}
}

// banned: the peer (and nobody else) was banned.
func (e *zz19Env) banned() bool {
	if e.t.Symbolic() {
		if len(e.bans) == 0 {
			return false
		}
		for _, id := range e.bans {
			if id != e.peerID {
				return false
			}
		}
		return true
	}
	return len(e.netA.BlacklistedPeers()) > 0
}

// ---- observations on the node's chain ----

// isChain: the node's chain is exactly `blocks` (tip, every height readable with that ID, nothing
// above) and the database holds exactly what a node that only ever applied `blocks` holds (this
// includes: no temp blocks left).
func (e *zz19Env) isChain(blocks []*blockchain.Block) bool {
	tip := e.chain.LastBlock()
	want := blocks[len(blocks)-1].Header
	if tip == nil || tip.Header.Height != want.Height || !bytes.Equal(tip.Header.ID, want.ID) {
		return false
	}
	for h, b := range blocks {
		got, err := e.chain.DataAccess().GetBlockHeaderByHeight(uint32(h))
		if err != nil || !bytes.Equal(got.ID, b.Header.ID) {
			return false
		}
		byID, err := e.chain.DataAccess().GetBlockHeader(b.Header.ID)
		if err != nil || byID.Height != uint32(h) {
			return false
		}
	}
	if _, err := e.chain.DataAccess().GetBlockHeaderByHeight(uint32(len(blocks))); err == nil {
		return false
	}
	_, refDB := zz19Chain(e.t, blocks, e.finalized)
	return zz19DumpEqual(db.ZZDump(e.database), db.ZZDump(refDB))
}

func (e *zz19Env) untouched() bool {
	return len(e.calls) == 0 && len(e.reverts) == 0 && e.isChain(e.own) && zz19DumpEqual(db.ZZDump(e.database), e.ownDump)
}

// hasOwnPrefix: every original block is still on the chain at its height.
func (e *zz19Env) hasOwnPrefix() bool {
	for h, b := range e.own {
		got, err := e.chain.DataAccess().GetBlockHeaderByHeight(uint32(h))
		if err != nil || !bytes.Equal(got.ID, b.Header.ID) {
			return false
		}
	}
	return true
}

func zz19CallsAre(calls []zz19Call, blocks []*blockchain.Block, flag bool) bool {
	if len(calls) != len(blocks) {
		return false
	}
	for i, c := range calls {
		if c.height != blocks[i].Header.Height || !bytes.Equal(c.id, blocks[i].Header.ID) || c.flag != flag {
			return false
		}
	}
	return true
}

func zz19Validators(n int) []codec.Lisk32 {
	out := make([]codec.Lisk32, n)
	for i := range out {
		out[i] = cbytes.Repeat([]byte{byte(0x70 + i)}, 20)
	}
	return out
}

// ---- fast sync ----

// zz19FastSync runs fastSyncer.Sync once. Own chain own[0..L-1], finalized height f, nv validators.
// common: 0..L-1 = the peer answers own[common] as the highest common block (whatever was offered: an
// honest answer when that block was offered, a dishonest one otherwise), L = an ID the node does not
// know, L+1 = "no common block". The peer's chain is own[0..common] + k blocks, ctx.Block is its tip.
// fault: 0 none, 1 fork block `at` fails Block.Validate, 2 the processor rejects fork block `at`.
func zz19FastSync(t *zzT, L, common, f, nv, k, fault, at int) {
	e := zz19NewEnv(t, L, 0, uint32(f))
	c := common
	if c >= L {
		c = L - 1
	}
	badSig := -1
	if fault == 1 {
		badSig = at
	}
	fork := e.zz19Peer(c, k, 0, badSig)
	if fault == 2 {
		e.rejectID = fork[at].Header.ID
	}
	if fault == 3 {
		e.silentAfter = at + 1
	}
	e.commonFixed = true
	switch {
	case common < L:
		e.commonID = e.own[common].Header.ID
	case common == L:
		e.commonID = cbytes.Repeat([]byte{0xEE}, 32)
	default:
		e.commonID = nil
	}
	e.zz19StartNet()
	defer e.zz19StopNet()
	s := &fastSyncer{chain: e.chain, conn: e.conn, logger: zzsLog{}, processor: e.process, reverter: e.revert}
	// ctx.Block arrives from the network as well
	tipBlock, err := blockchain.NewBlock(fork[k-1].Encode())
	if err != nil {
		t.Fail("setup: peer tip does not decode")
		return
	}
	ctx := &SyncContext{Ctx: context.Background(), Block: tipBlock, FinalizedBlockHeader: e.own[f].Header, PeerID: e.peerID, CurrentValidators: zz19Validators(nv)}

	done, serr := s.Sync(ctx)

	t.Assert(!e.badCall, "the reverter is only ever asked to delete the current tip")
	// what the node offered: the IDs of its last blocks, the tip among them
	if len(e.offered) > 0 {
		ok := len(e.offered) == 1 && len(e.offered[0]) >= 1
		hasTip := false
		for _, id := range e.offered[0] {
			isOwn := false
			for _, b := range e.own {
				if bytes.Equal(b.Header.ID, id) {
					isOwn = true
				}
			}
			ok = ok && isOwn
			if bytes.Equal(id, e.own[L-1].Header.ID) {
				hasTip = true
			}
		}
		t.Assert(ok && hasTip, "one common-block request offering IDs of the node's own last blocks including the tip")
	}
	tip := L - 1
	twoRounds := 2 * nv
	switch {
	case common == L+1:
		t.Assert(serr != nil && e.untouched(), "peer reports no common block: sync fails and the own chain is untouched")
		t.Reach("common_not_found")
	case common == L:
		t.Assert(serr != nil && e.untouched(), "peer answers an unknown common block ID: sync fails and the own chain is untouched")
		t.Reach("common_unknown")
	case c < f:
		t.Assert(serr != nil, "common block below the finalized height: sync fails")
		t.Assert(e.banned(), "common block below the finalized height: the peer is banned")
		t.Assert(e.untouched(), "common block below the finalized height: the own chain is untouched")
		t.Reach("below_finalized")
	case tip-c > twoRounds || k > twoRounds:
		t.Assert(serr != nil && e.untouched() && e.blockReqs == 0, "height difference above two rounds: nothing is downloaded and the own chain is untouched")
		t.Reach("two_rounds")
	case fault == 1:
		t.Assert(serr != nil, "a downloaded block fails validation: sync fails")
		t.Assert(e.banned(), "a downloaded block fails validation: the peer is banned")
		t.Assert(e.untouched(), "a downloaded block fails validation: the own chain is untouched (nothing deleted, nothing applied)")
		t.Reach("invalid_block")
	case fault == 3:
		// the peer stops handing out blocks (empty answers) before the announced block arrived: the download must
		// end with an error instead of asking forever (the consensus loop sits in Sync meanwhile)
		t.Assert(serr != nil, "a peer that answers with empty block lists ends the sync with an error")
		t.Assert(e.isChain(e.own), "a peer that answers with empty block lists: the own chain is the original chain")
		t.Reach("peer_went_silent")
	case fault == 2:
		above := e.own[c+1:] // original blocks above the common block
		before := at + 1     // processor calls up to and including the rejected block
		attempted := len(e.calls) >= before && zz19CallsAre(e.calls[:before], fork[:before], false)
		switch {
		case at == 0:
			t.Assert(serr != nil && done, "first downloaded block rejected by the processor: sync reports the failure")
			t.Assert(attempted, "first downloaded block rejected by the processor: it was the first block handed to the processor")
			t.Assert(e.isChain(e.own) && zz19DumpEqual(db.ZZDump(e.database), e.ownDump), "first downloaded block rejected by the processor: the own chain is exactly the original chain again")
			t.Assert(len(e.calls) >= before && zz19CallsAre(e.calls[before:], above, true), "first downloaded block rejected by the processor: the original blocks are re-applied once each in ascending height order")
			t.Assert(e.banned(), "first downloaded block rejected by the processor: the peer is banned")
			if len(above) >= 2 {
				t.Reach("restored_two_or_more")
			} else {
				t.Reach("restored")
			}
		case len(above) == 0:
			// the peer only extended the node's tip: there is nothing to restore. fast_sync.go keeps the
			// already accepted (valid) fork blocks below the rejected one, which the property does not
			// forbid; required: no original block is lost and the peer is banned.
			t.Assert(serr != nil && attempted, "later block of a pure extension rejected: sync reports the failure")
			t.Assert(e.hasOwnPrefix(), "later block of a pure extension rejected: every original block is still on the chain")
			t.Assert(e.banned(), "later block of a pure extension rejected: the peer is banned")
			t.Reach("rejected_on_pure_extension")
		default:
			// FINDING on the unchanged tree (fast_sync.go restoreBlocks -> deleteTillCommonBlock): the
			// already applied peer blocks are deleted with saveTemp=true; temp blocks are keyed by
			// height (data_access.go removeBlock), so they overwrite the saved original blocks at
			// those heights. The "restore" then re-applies the peer's blocks; the remaining originals
			// no longer link (restore fails, no ban) or are gone. L=4 common=2 forkLen=3 at=2.
			t.Assert(serr != nil && attempted, "later downloaded block rejected by the processor: sync reports the failure")
			t.Assert(e.isChain(e.own) && zz19DumpEqual(db.ZZDump(e.database), e.ownDump), "later downloaded block rejected by the processor (peer blocks already applied): the own chain is exactly the original chain again")
			t.Assert(e.banned(), "later downloaded block rejected by the processor (peer blocks already applied): the peer is banned")
			t.Reach("restored_after_partial_apply") // behind the assertions: a witness is only wanted for a passing run
		}
	default:
		t.Assert(serr == nil && done, "valid better chain: sync succeeds")
		t.Assert(e.isChain(e.peerChain), "valid better chain: the node ends exactly on the peer's chain (fork on top of the common block, no temp blocks left)")
		tmp, terr := e.chain.DataAccess().GetTempBlocks()
		t.Assert(terr == nil && len(tmp) == 0, "valid better chain: temp blocks are cleared")
		t.Assert(len(e.bans) == 0 && (t.Symbolic() || len(e.netA.BlacklistedPeers()) == 0), "valid better chain: the peer is not banned")
		t.Assert(zz19CallsAre(e.calls, fork, false), "valid better chain: exactly the downloaded blocks are processed, in ascending order")
		// deleted: the original blocks above the common block, top down, kept as temp blocks meanwhile
		var down []*blockchain.Block
		for h := L - 1; h > c; h-- {
			down = append(down, e.own[h])
		}
		t.Assert(zz19CallsAre(e.reverts, down, true), "valid better chain: exactly the own blocks above the common block are deleted, top down")
		t.Reach("switched")
	}
}

// C19.d fast sync, the guards: every answer to the common-block request (own block at any height —
// offered or not —, unknown ID, none) x every finalized height x validator counts 1..V x fork length.
//
//zz:opt loop=400 paths=200000
//zz:opt require=common_not_found,common_unknown,below_finalized,two_rounds,switched
//zz:stub ~/pkg/consensus/sync.requestHighestCommonBlock zz19StubCommon
//zz:stub ~/pkg/consensus/sync.requestBlocksFromID zz19StubBlocks
//zz:stub (*~/pkg/p2p.Connection).BanPeer zz19StubBan
//zz:stub go.uber.org/ratelimit.New zz19StubLimiter
//zz:stub context.WithCancel zz19StubWithCancel
//zz:quick L=4 V=3 K=2
//zz:thorough L=6 V=3 K=3
func zzH_C19_fast_sync_guards(t *zzT) {
	L := t.Param("L", 4)
	common := t.Range("common", 0, L+1)
	f := t.Range("finalized", 0, L-1)
	nv := t.Range("validators", 1, t.Param("V", 3))
	k := t.Range("forkLen", 1, t.Param("K", 2))
	zz19FastSync(t, L, common, f, nv, k, 0, 0)
}

// C19.d fast sync, download / apply / restore: every common height (0 .. L-1 own blocks above it),
// fork length 1..K, and either no fault, or fork block `at` failing Block.Validate, or fork block `at`
// rejected by the processor. V validators so that nothing exceeds two rounds.
//
//zz:opt loop=400 paths=200000
//zz:opt require=invalid_block,restored,restored_two_or_more,rejected_on_pure_extension,switched
//zz:stub ~/pkg/consensus/sync.requestHighestCommonBlock zz19StubCommon
//zz:stub ~/pkg/consensus/sync.requestBlocksFromID zz19StubBlocks
//zz:stub (*~/pkg/p2p.Connection).BanPeer zz19StubBan
//zz:stub go.uber.org/ratelimit.New zz19StubLimiter
//zz:stub context.WithCancel zz19StubWithCancel
//zz:quick L=4 V=2 K=3 F=0
//zz:thorough L=6 V=3 K=4 F=2
func zzH_C19_fast_sync_apply(t *zzT) {
	L := t.Param("L", 4)
	common := t.Range("common", 0, L-1)
	fmax := t.Param("F", 0)
	if fmax > common {
		fmax = common
	}
	f := t.Range("finalized", 0, fmax)
	k := t.Range("forkLen", 1, t.Param("K", 3))
	fault := t.Choice("fault", 3)
	at := 0
	if fault != 0 {
		at = t.Range("at", 0, k-1)
	}
	zz19FastSync(t, L, common, f, t.Param("V", 2), k, fault, at)
}

// C09 "no … message received from a peer … can … hang the node" / C19 "converges safely": fast sync against a peer
// that answers getBlocksFromId with EMPTY lists from its first or a later request on (chunk size 1, so that the
// download needs several requests). The Downloader must give up; an endless request loop shows as a loop beyond
// its unwinding bound (a hang, confirmed by a native hang).
//
//zz:opt loop=400 paths=200000
//zz:opt require=peer_went_silent
//zz:stub ~/pkg/consensus/sync.requestHighestCommonBlock zz19StubCommon
//zz:stub ~/pkg/consensus/sync.requestBlocksFromID zz19StubBlocks
//zz:stub (*~/pkg/p2p.Connection).BanPeer zz19StubBan
//zz:stub go.uber.org/ratelimit.New zz19StubLimiter
//zz:stub context.WithCancel zz19StubWithCancel
//zz:quick L=4 V=2 K=3 F=0
//zz:thorough L=6 V=3 K=4 F=2
func zzH_C19_fast_sync_silent_peer(t *zzT) {
	L := t.Param("L", 4)
	common := t.Range("common", 1, L-1)
	k := t.Range("forkLen", 2, t.Param("K", 3))
	at := t.Range("silent.from.request", 0, k-2)
	zz19FastSync(t, L, common, 0, t.Param("V", 2), k, 3, at)
}

//zz:opt loop=400 paths=200000
//zz:opt require=peer_went_silent
//zz:stub ~/pkg/consensus/sync.requestHighestCommonBlock zz19StubCommon
//zz:stub ~/pkg/consensus/sync.requestBlocksFromID zz19StubBlocks
//zz:stub (*~/pkg/p2p.Connection).BanPeer zz19StubBan
//zz:stub go.uber.org/ratelimit.New zz19StubLimiter
//zz:stub context.WithCancel zz19StubWithCancel
//zz:quick L=4 V=2 K=3 F=0
//zz:thorough L=6 V=3 K=4 F=2
func zzH_C09_fast_sync_silent_peer(t *zzT) { zzH_C19_fast_sync_silent_peer(t) }

// ---- block sync ----

// zz19BlockSync runs blockSyncer.Sync once against ONE connected honest-or-not peer. Own chain
// own[0..L-1] whose tip has maxHeightPrevoted 1; the peer's chain is own[0..c] + k blocks, its tip
// carrying peerMhp (0..2), so the peer's tip is better iff peerMhp > 1 or (peerMhp == 1 and it is higher).
// The peer answers the common-block request honestly (highest offered ID on its chain, else none).
// second: what the peer answers to the SECOND last-block request (getAndValidateNetworkLastBlock):
// 0 the same tip, 1 a block whose header fails Validate, 2 a block that is not better than the own tip.
func zz19BlockSync(t *zzT, L, c, k int, peerMhp uint32, second, nv, f int) {
	const ownMhp = 1
	e := zz19NewEnv(t, L, ownMhp, uint32(f))
	fork := e.zz19Peer(c, k, peerMhp, -1)
	peerTip := fork[k-1]
	e.lastBlocks = []*blockchain.Block{peerTip, peerTip}
	switch second {
	case 1:
		e.lastBlocks[1] = zz19Block(peerTip.Header.Height, peerTip.Header.PreviousBlockID, 0xC0, peerMhp, 10)
	case 2:
		e.lastBlocks[1] = zz19Block(uint32(L-1), e.own[L-2].Header.ID, 0xC0, ownMhp, 64)
	}
	e.zz19StartNet()
	defer e.zz19StopNet()
	s := &blockSyncer{chain: e.chain, conn: e.conn, logger: zzsLog{}, processor: e.process, reverter: e.revert}
	ctx := &SyncContext{Ctx: context.Background(), Block: peerTip, FinalizedBlockHeader: e.own[f].Header, PeerID: e.peerID, CurrentValidators: zz19Validators(nv)}

	done, serr := s.Sync(ctx)

	t.Assert(!e.badCall, "the reverter is only ever asked to delete the current tip")
	better := ownMhp < peerMhp || (L-1 < c+k && ownMhp == peerMhp)
	switch {
	case !better:
		// Sync itself stops at its first comparison ("invalid to trigger sync condition") before
		// getAndValidateNetworkLastBlock could ban: only "nothing happens" is required here
		t.Assert(serr != nil && !done, "peer tip is not better than the own tip: no sync")
		t.Assert(e.untouched() && e.blockReqs == 0, "peer tip is not better than the own tip: nothing is downloaded and the own chain is untouched")
		t.Reach("not_better")
	case second == 1:
		t.Assert(serr != nil && !done, "peer's last block header is invalid: sync fails")
		t.Assert(e.banned(), "peer's last block header is invalid: the peer is banned")
		t.Assert(e.untouched() && e.blockReqs == 0, "peer's last block header is invalid: the own chain is untouched")
		t.Reach("invalid_last_block")
	case second == 2:
		t.Assert(serr != nil && !done, "peer's validated last block is not better: sync fails")
		t.Assert(e.banned(), "peer's validated last block is not better: the peer is banned")
		t.Assert(e.untouched() && e.blockReqs == 0, "peer's validated last block is not better: the own chain is untouched")
		t.Reach("last_block_not_better")
	default:
		t.Assert(serr == nil && done, "honest better chain: sync succeeds")
		t.Assert(e.isChain(e.peerChain), "honest better chain: the node ends exactly on the peer's chain (no temp blocks left)")
		tmp, terr := e.chain.DataAccess().GetTempBlocks()
		t.Assert(terr == nil && len(tmp) == 0, "honest better chain: temp blocks are cleared")
		t.Assert(len(e.bans) == 0 && (t.Symbolic() || len(e.netA.BlacklistedPeers()) == 0), "honest better chain: the peer is not banned")
		// processed: consecutive blocks of the peer's chain in ascending order, ending with its tip
		ok := len(e.calls) >= k && len(e.calls) <= len(e.peerChain)-1
		if ok {
			ok = zz19CallsAre(e.calls, e.peerChain[len(e.peerChain)-len(e.calls):], false)
		}
		t.Assert(ok, "honest better chain: the processed blocks are consecutive blocks of the peer's chain in ascending order up to its tip")
		offeredOK := true
		for _, ids := range e.offered {
			for _, id := range ids {
				h := -1
				for i, b := range e.own {
					if bytes.Equal(b.Header.ID, id) {
						h = i
					}
				}
				offeredOK = offeredOK && h >= f
			}
		}
		t.Assert(offeredOK, "honest better chain: only own blocks at or above the finalized height are offered as common block")
		t.Reach("switched")
	}
}

// C19.d block sync against one peer: common height c >= finalized (an honest peer shares the finalized
// blocks), fork length, the peer tip's maxHeightPrevoted below / equal / above the own one, validator
// count (round length of the common-block search) and the second last-block answer.
//
//zz:opt loop=400 paths=200000
//zz:opt require=not_better,invalid_last_block,last_block_not_better,switched
//zz:stub ~/pkg/consensus/sync.requestHighestCommonBlock zz19StubCommon
//zz:stub ~/pkg/consensus/sync.requestBlocksFromID zz19StubBlocks
//zz:stub ~/pkg/consensus/sync.requestLastBlockHeader zz19StubLast
//zz:stub (*~/pkg/p2p.Connection).BanPeer zz19StubBan
//zz:stub (*~/pkg/p2p.Peer).ConnectedPeers zz19StubPeers
//zz:stub go.uber.org/ratelimit.New zz19StubLimiter
//zz:stub context.WithCancel zz19StubWithCancel
//zz:quick L=4 V=3 K=2 F=1
//zz:thorough L=6 V=3 K=3 F=2
func zzH_C19_block_sync_one_peer(t *zzT) {
	L := t.Param("L", 4)
	f := t.Range("finalized", 0, t.Param("F", 1))
	c := t.Range("common", f, L-1)
	k := t.Range("forkLen", 1, t.Param("K", 2))
	peerMhp := uint32(t.Range("peerMhp", 0, 2))
	nv := t.Range("validators", 1, t.Param("V", 3))
	second := 0
	if 1 < peerMhp || (L-1 < c+k && 1 == peerMhp) {
		second = t.Choice("secondAnswer", 3)
	}
	zz19BlockSync(t, L, c, k, peerMhp, second, nv, f)
}


// C03 "only fully valid blocks extend the chain" for blocks that arrive through fast sync: every downloaded
// block — including the one whose ID equals the announced block that triggered the sync — goes through the
// static validity rules before it reaches the processor (same obligation as zzH_C19_fast_sync_apply; seed
// C03-8 skipped Block.Validate for the downloaded block carrying the announced header ID).
//
//zz:opt loop=400 paths=200000
//zz:opt require=invalid_block,restored,restored_two_or_more,rejected_on_pure_extension,switched
//zz:stub ~/pkg/consensus/sync.requestHighestCommonBlock zz19StubCommon
//zz:stub ~/pkg/consensus/sync.requestBlocksFromID zz19StubBlocks
//zz:stub (*~/pkg/p2p.Connection).BanPeer zz19StubBan
//zz:stub go.uber.org/ratelimit.New zz19StubLimiter
//zz:stub context.WithCancel zz19StubWithCancel
//zz:quick L=4 V=2 K=3 F=0
//zz:thorough L=6 V=3 K=4 F=2
func zzH_C03_synced_blocks_validated(t *zzT) { zzH_C19_fast_sync_apply(t) }
