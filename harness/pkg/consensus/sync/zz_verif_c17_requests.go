//go:build verif

package sync

import (
	"context"
	"errors"
	"runtime"
	"strings"
	"time"

	"github.com/LiskHQ/lisk-engine/pkg/p2p"
)

// The three sync request functions (requestLastBlockHeader / requestHighestCommonBlock / requestBlocksFromID)
// wrap Connection.RequestFrom in a goroutine and wait for it or for a 3 s context.
//   C09: whatever bytes the peer answers with (arbitrary, up to B bytes), the function returns a value or an
//        error — no panic.
//   C17: "no combination of … timeouts and cancellations can leave the request/response layer blocked or leak":
//        when the context ends first, the goroutine that performs the request must still terminate once
//        RequestFrom returns (nobody is left to receive its result).
// Under the engine RequestFrom is a stub that either answers at once or waits for the context to end; the
// context's timeout is a channel the scheduler may close at any moment. Natively the context handed in is
// already cancelled (the real RequestFrom then returns an error shortly after the caller gave up), and a
// goroutine of the request function still parked after 300 ms is a leak.

type zz17Ctx struct {
	context.Context
	done   chan struct{}
	closed bool
}

func (c *zz17Ctx) Done() <-chan struct{} { return c.done }
func (c *zz17Ctx) Err() error {
	if c.closed {
		return context.DeadlineExceeded
	}
	return nil
}

var zz17rT *zzT

// context.WithTimeout under the engine: Done is closed by cancel, or by a watchdog goroutine that the
// scheduler may run at any moment (the deadline passing).
func zz17StubWithTimeout(parent context.Context, d time.Duration) (context.Context, context.CancelFunc) {
	c := &zz17Ctx{Context: parent, done: make(chan struct{})}
	cancel := func() {
		if !c.closed {
			c.closed = true
			close(c.done)
		}
	}
	if zz17rExpire {
		go cancel()
	}
	return c, cancel
}

var (
	zz17rExpire bool   // the deadline may pass while the request is out
	zz17rAnswer bool   // RequestFrom answers without waiting for the context
	zz17rData   []byte // its payload
	zz17rErr    bool
)

func zz17StubRequestFrom(mp *p2p.MessageProtocol, ctx context.Context, peerID p2p.PeerID, procedure string, data []byte) p2p.Response {
	if !zz17rAnswer {
		<-ctx.Done() // the real layer returns ctx.Err() when the context ends
		return *p2p.NewResponse(0, peerID, nil, ctx.Err())
	}
	if zz17rErr {
		return *p2p.NewResponse(0, peerID, nil, errors.New("zz17: remote error"))
	}
	return *p2p.NewResponse(0, peerID, zz17rData, nil)
}

func zz17Parked(fn string) int {
	buf := make([]byte, 1<<20)
	n := runtime.Stack(buf, true)
	c := 0
	for _, g := range strings.Split(string(buf[:n]), "\n\n") {
		if strings.Contains(g, fn) && strings.Contains(g, "chan send") {
			c++
		}
	}
	return c
}

//zz:opt loop=4000 sched=2 join=1 blockfree=0 require=returned conc=200
//zz:stub context.WithTimeout zz17StubWithTimeout
//zz:stub (*~/pkg/p2p.MessageProtocol).RequestFrom zz17StubRequestFrom
//zz:quick B=3
//zz:thorough B=5
func zzH_C17_sync_requests_no_leak(t *zzT) {
	const label = "a sync request whose context ended leaves no goroutine parked on its result"
	which := t.Choice("request", 3)
	if !t.Symbolic() {
		// native: cancelled context, unstarted connection is enough for RequestFrom to fail fast
		ctx, cancel := context.WithCancel(context.Background())
		cancel()
		conn := p2p.NewConnection(zzsLog{}, &p2p.Config{Addresses: []string{"/ip4/127.0.0.1/tcp/0"}})
		if err := conn.Start([]byte{}); err != nil {
			t.Fail("setup: p2p start")
		}
		defer conn.Stop()
		before := zz17Parked("consensus/sync.request")
		var err error
		switch which {
		case 0:
			_, err = requestLastBlockHeader(ctx, conn, "12D3KooWunknown")
		case 1:
			_, err = requestHighestCommonBlock(ctx, conn, "12D3KooWunknown", [][]byte{{1}})
		default:
			_, err = requestBlocksFromID(ctx, conn, "12D3KooWunknown", []byte{1})
		}
		t.Assert(err != nil, "a request on an ended context reports an error")
		time.Sleep(300 * time.Millisecond)
		if zz17Parked("consensus/sync.request") > before {
			// what the engine reports as a goroutine blocked forever: park the replay as well
			select {}
		}
		t.Reach("returned")
		return
	}
	_ = label
	zz17rExpire = t.Bool("deadline.may.pass")
	zz17rAnswer = t.Bool("peer.answers")
	zz17rErr = t.Bool("peer.error")
	nb := t.Range("len", 0, t.Param("B", 3))
	zz17rData = nil
	if nb > 0 || t.Bool("emptyNotNil") {
		zz17rData = t.Bytes("raw", nb)
	}
	t.Assume(zz17rExpire || zz17rAnswer) // otherwise nothing ever happens (the 3 s deadline is what ends the wait)
	conn := &p2p.Connection{MessageProtocol: &p2p.MessageProtocol{}}
	var err error
	switch which {
	case 0:
		_, err = requestLastBlockHeader(context.Background(), conn, "peer")
	case 1:
		_, err = requestHighestCommonBlock(context.Background(), conn, "peer", [][]byte{{1}})
	default:
		_, err = requestBlocksFromID(context.Background(), conn, "peer", []byte{1})
	}
	if !zz17rAnswer || zz17rErr {
		t.Assert(err != nil, "a request that ended with the context or a remote error reports an error")
	}
	t.Reach("returned")
}
