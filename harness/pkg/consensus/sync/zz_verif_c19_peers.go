//go:build verif

package sync

import (
	"bytes"
	"context"
	gosync "sync"

	"github.com/LiskHQ/lisk-engine/pkg/blockchain"
	"github.com/LiskHQ/lisk-engine/pkg/p2p"
)

// C19 "When choosing a peer to sync from, the node picks one whose tip has the largest maxHeightPrevoted,
// then the largest height, then the most common block ID among those" — at the place where the node
// really chooses: blockSyncer.Sync asks EVERY connected peer for its last block header (one goroutine per
// peer), collects the answers and hands them to getBestNodeInfo. The peer that receives the follow-up
// requests is the chosen one. With P peers answering concurrently the collection itself must not lose an
// answer (C20: block_sync.go is an anchor of "shared data is race-free"): for every interleaving of the P
// collector goroutines the chosen peer is a best one among ALL that answered.
//
// Peers: peer i answers with a block of height L+dh_i carrying maxHeightPrevoted 1+dm_i (dh, dm in {0,1},
// decided by the solver's choice); with P = 3 the third peer may repeat the second peer's block (most
// common ID). The own tip has height L-1 and maxHeightPrevoted 1, so every peer is better.
// The common-block request is answered with an error, which ends Sync right after the choice.
//   * engine: ConnectedPeers / requestLastBlockHeader / requestHighestCommonBlock are redirected to the script;
//   * native: P real p2p nodes on 127.0.0.1 serve the script (and `go test -race` watches the collection).

type zz19PeersEnv struct {
	mu       gosync.Mutex
	ids      []p2p.PeerID
	blocks   []*blockchain.Block
	lastReqs []int // per peer
	order    []int // peer index of every last-block request, in arrival order
	common   []int // peer index of every common-block request
	nets     []*p2p.Connection
}

var zz19P *zz19PeersEnv

func (e *zz19PeersEnv) indexOf(id p2p.PeerID) int {
	for i, x := range e.ids {
		if x == id {
			return i
		}
	}
	return -1
}

func zz19PStubPeers(p *p2p.Peer) p2p.PeerIDs { return append(p2p.PeerIDs{}, zz19P.ids...) }

func zz19PStubLast(ctx context.Context, conn *p2p.Connection, peerID p2p.PeerID) (*blockchain.BlockHeader, error) {
	i := zz19P.indexOf(peerID)
	if i < 0 {
		return nil, zz19ErrUnknown
	}
	zz19P.mu.Lock()
	zz19P.lastReqs[i]++
	zz19P.order = append(zz19P.order, i)
	zz19P.mu.Unlock()
	nb, err := blockchain.NewBlock(zz19P.blocks[i].Encode())
	if err != nil {
		return nil, err
	}
	return nb.Header, nil
}

func zz19PStubCommon(ctx context.Context, conn *p2p.Connection, peerID p2p.PeerID, ids [][]byte) ([]byte, error) {
	zz19P.mu.Lock()
	zz19P.common = append(zz19P.common, zz19P.indexOf(peerID))
	zz19P.mu.Unlock()
	return nil, zz19ErrUnknown
}

//zz:opt loop=400 paths=200000 sched=2 race=1 racereport=1 schedule=1 join=1 lockdiscipline=off
//zz:opt require=chosen
//zz:stub ~/pkg/consensus/sync.requestHighestCommonBlock zz19PStubCommon
//zz:stub ~/pkg/consensus/sync.requestLastBlockHeader zz19PStubLast
//zz:stub (*~/pkg/p2p.Connection).BanPeer zz19StubBan
//zz:stub (*~/pkg/p2p.Peer).ConnectedPeers zz19PStubPeers
//zz:quick P=2
//zz:thorough P=3 sched=3
func zzH_C19_block_sync_peer_selection(t *zzT) {
	const L = 3
	P := t.Param("P", 2)
	e := zz19NewEnv(t, L, 1, 0)
	pe := &zz19PeersEnv{lastReqs: make([]int, P)}
	zz19P = pe
	for i := 0; i < P; i++ {
		if i == 2 && t.Bool("third.repeats.second") {
			pe.blocks = append(pe.blocks, pe.blocks[1])
			continue
		}
		dh := uint32(t.Choice(t.Name("peer.dh", i), 2))
		dm := uint32(t.Choice(t.Name("peer.dm", i), 2))
		pe.blocks = append(pe.blocks, zz19Block(uint32(L)+dh, e.own[L-1].Header.ID, byte(0xB0+i), 1+dm, 64))
	}
	var conn *p2p.Connection
	if t.Symbolic() {
		conn = &p2p.Connection{}
		for i := 0; i < P; i++ {
			pe.ids = append(pe.ids, p2p.PeerID(t.Name("zz19-peer", i)))
		}
	} else {
		mk := func(i int) *p2p.Connection {
			n := p2p.NewConnection(zzsLog{}, &p2p.Config{Addresses: []string{"/ip4/127.0.0.1/tcp/0"}})
			n.RegisterRPCHandler(RPCEndpointGetHighestCommonBlock, func(w p2p.ResponseWriter, r *p2p.Request) {
				pe.mu.Lock()
				pe.common = append(pe.common, i)
				pe.mu.Unlock()
				w.Error(zz19ErrUnknown)
			})
			n.RegisterRPCHandler(RPCEndpointGetBlocksFromID, func(w p2p.ResponseWriter, r *p2p.Request) { w.Error(zz19ErrUnknown) })
			n.RegisterRPCHandler(RPCEndpointGetLastBlock, func(w p2p.ResponseWriter, r *p2p.Request) {
				if i < 0 {
					w.Error(zz19ErrUnknown)
					return
				}
				pe.mu.Lock()
				pe.lastReqs[i]++
				pe.order = append(pe.order, i)
				pe.mu.Unlock()
				w.Write(pe.blocks[i].Encode())
			})
			if err := n.Start([]byte{}); err != nil {
				t.Fail("setup: p2p start")
			}
			return n
		}
		conn = mk(-1)
		pe.nets = append(pe.nets, conn)
		for i := 0; i < P; i++ {
			n := mk(i)
			pe.nets = append(pe.nets, n)
			addrs, err := n.MultiAddress()
			if err != nil || len(addrs) == 0 {
				t.Fail("setup: p2p address")
				return
			}
			info, err := p2p.AddrInfoFromMultiAddr(addrs[0])
			if err != nil {
				t.Fail("setup: p2p addr info")
				return
			}
			if err := conn.Connect(context.Background(), *info); err != nil {
				t.Fail("setup: p2p connect")
			}
			pe.ids = append(pe.ids, n.ID())
		}
		defer func() {
			for _, n := range pe.nets {
				n.Stop()
			}
		}()
	}
	s := &blockSyncer{chain: e.chain, conn: conn, logger: zzsLog{}, processor: e.process, reverter: e.revert}
	ctx := &SyncContext{Ctx: context.Background(), Block: pe.blocks[0], FinalizedBlockHeader: e.own[0].Header, PeerID: pe.ids[0], CurrentValidators: zz19Validators(2)}

	done, serr := s.Sync(ctx)

	t.Assert(serr != nil && !done, "the scripted peers refuse the common-block request: sync fails")
	pe.mu.Lock()
	defer pe.mu.Unlock()
	asked := true
	for i := 0; i < P; i++ {
		asked = asked && pe.lastReqs[i] >= 1
	}
	t.Assert(asked, "every connected peer is asked for its last block header")
	t.Assert(len(pe.order) == P+1 && len(pe.common) == 1, "exactly one peer receives the follow-up requests")
	if len(pe.order) != P+1 || len(pe.common) != 1 {
		return
	}
	c := pe.common[0]
	t.Assert(c >= 0 && c == pe.order[P], "the last block header is re-validated with, and the common block asked from, the same chosen peer")
	if c < 0 {
		return
	}
	// reference: lexicographic maximum of (maxHeightPrevoted, height), then the most common ID among those
	ch := pe.blocks[c].Header
	best := true
	for i := 0; i < P; i++ {
		h := pe.blocks[i].Header
		best = best && !(h.MaxHeightPrevoted > ch.MaxHeightPrevoted || (h.MaxHeightPrevoted == ch.MaxHeightPrevoted && h.Height > ch.Height))
	}
	t.Assert(best, "the chosen peer's tip has the largest maxHeightPrevoted, then the largest height, among ALL peers that answered")
	if best {
		count := func(id []byte) int {
			n := 0
			for i := 0; i < P; i++ {
				h := pe.blocks[i].Header
				if h.MaxHeightPrevoted == ch.MaxHeightPrevoted && h.Height == ch.Height && bytes.Equal(h.ID, id) {
					n++
				}
			}
			return n
		}
		most := true
		for i := 0; i < P; i++ {
			h := pe.blocks[i].Header
			if h.MaxHeightPrevoted == ch.MaxHeightPrevoted && h.Height == ch.Height {
				most = most && count(h.ID) <= count(ch.ID)
			}
		}
		t.Assert(most, "among the best tips the chosen peer's block ID is a most common one")
	}
	t.Assert(e.untouched(), "a sync that ends at the common-block request leaves the own chain untouched")
	t.Reach("chosen")
}
