//go:build verif

package sync

import (
	"bytes"
	"context"
	gosync "sync"

	"github.com/LiskHQ/lisk-engine/pkg/blockchain"
	"github.com/LiskHQ/lisk-engine/pkg/p2p"
)

// C19 "When choosing a peer to sync from, the node picks one whose tip has the largest maxHeightPrevoted,
// then the largest height, then the most common block ID among those" — at the place where the node
// really chooses: blockSyncer.Sync asks EVERY connected peer for its last block header (one goroutine per
// peer), collects the answers and hands them to getBestNodeInfo. The peer that receives the follow-up
// requests is the chosen one. With P peers answering concurrently the collection itself must not lose an
// answer (C20: block_sync.go is an anchor of "shared data is race-free"): for every interleaving of the P
// collector goroutines the chosen peer is a best one among ALL that answered.
//
// Peers: peer i answers with a block of height L+dh_i carrying maxHeightPrevoted 1+dm_i (dh, dm in {0,1},
// decided by the solver's choice); with P = 3 the third peer may repeat the second peer's block (most
// common ID). The own tip has height L-1 and maxHeightPrevoted 1, so every peer is better.
// The common-block request is answered with an error, which ends Sync right after the choice.
//   * engine: ConnectedPeers / requestLastBlockHeader / requestHighestCommonBlock are redirected to the script;
//   * native: P real p2p nodes on 127.0.0.1 serve the script (and `go test -race` watches the collection).

type zz19PeersEnv struct {
	mu       gosync.Mutex
	ids      []p2p.PeerID
	blocks   []*blockchain.Block
	lastReqs []int // per peer
	order    []int // peer index of every last-block request, in arrival order
	common   []int // peer index of every common-block request
	nets     []*p2p.Connection
	// second scenario: the chosen peer shares the own tip and serves an invalid block
	serveInvalid bool
	commonID     []byte
	bad          []*blockchain.Block // per peer: the block it serves after commonID
	blockReqs    []int               // peer index of every getBlocksFromId request
}

var zz19P *zz19PeersEnv

// servedOnce: true from the second getBlocksFromId request to peer i on (the peer has nothing after its one block)
func (e *zz19PeersEnv) servedOnce(i int) bool {
	e.mu.Lock()
	defer e.mu.Unlock()
	n := 0
	for _, x := range e.blockReqs {
		if x == i {
			n++
		}
	}
	return n > 1
}

func (e *zz19PeersEnv) indexOf(id p2p.PeerID) int {
	for i, x := range e.ids {
		if x == id {
			return i
		}
	}
	return -1
}

func zz19PStubPeers(p *p2p.Peer) p2p.PeerIDs { return append(p2p.PeerIDs{}, zz19P.ids...) }

func zz19PStubLast(ctx context.Context, conn *p2p.Connection, peerID p2p.PeerID) (*blockchain.BlockHeader, error) {
	i := zz19P.indexOf(peerID)
	if i < 0 {
		return nil, zz19ErrUnknown
	}
	zz19P.mu.Lock()
	zz19P.lastReqs[i]++
	zz19P.order = append(zz19P.order, i)
	zz19P.mu.Unlock()
	nb, err := blockchain.NewBlock(zz19P.blocks[i].Encode())
	if err != nil {
		return nil, err
	}
	return nb.Header, nil
}

func zz19PStubCommon(ctx context.Context, conn *p2p.Connection, peerID p2p.PeerID, ids [][]byte) ([]byte, error) {
	zz19P.mu.Lock()
	zz19P.common = append(zz19P.common, zz19P.indexOf(peerID))
	zz19P.mu.Unlock()
	if zz19P.serveInvalid {
		return zz19P.commonID, nil
	}
	return nil, zz19ErrUnknown
}

func zz19PStubBlocks(ctx context.Context, conn *p2p.Connection, peerID p2p.PeerID, id []byte) ([]*blockchain.Block, error) {
	i := zz19P.indexOf(peerID)
	zz19P.mu.Lock()
	zz19P.blockReqs = append(zz19P.blockReqs, i)
	zz19P.mu.Unlock()
	if i < 0 || !zz19P.serveInvalid {
		return nil, zz19ErrUnknown
	}
	if zz19P.servedOnce(i) {
		return []*blockchain.Block{}, nil
	}
	nb, err := blockchain.NewBlock(zz19P.bad[i].Encode())
	if err != nil {
		return nil, err
	}
	return []*blockchain.Block{nb}, nil
}

//zz:opt loop=400 paths=200000 sched=2 race=1 racereport=1 schedule=1 join=1 lockdiscipline=off
//zz:opt require=chosen
//zz:stub ~/pkg/consensus/sync.requestHighestCommonBlock zz19PStubCommon
//zz:stub ~/pkg/consensus/sync.requestLastBlockHeader zz19PStubLast
//zz:stub (*~/pkg/p2p.Connection).BanPeer zz19StubBan
//zz:stub (*~/pkg/p2p.Peer).ConnectedPeers zz19PStubPeers
//zz:quick P=2
//zz:thorough P=3 sched=3
func zzH_C19_block_sync_peer_selection(t *zzT) { zz19PeerSelection(t, false) }

// C18 "well-formed traffic within the limits never [leads to penalties]" / C19 for block synchronisation: the
// blocks are downloaded from the CHOSEN peer, which need not be the peer that announced the block that started
// the sync. When a downloaded block is statically invalid, the peer that served it is banned — and nobody else,
// in particular not the announcing peer, whose traffic was well-formed. Same script as above; the chosen peer
// reports the own tip as common block and serves one block whose signature has 10 bytes.
//
//zz:opt loop=400 paths=200000 sched=1 join=1 lockdiscipline=off
//zz:opt require=invalid-block-served
//zz:stub ~/pkg/consensus/sync.requestHighestCommonBlock zz19PStubCommon
//zz:stub ~/pkg/consensus/sync.requestLastBlockHeader zz19PStubLast
//zz:stub ~/pkg/consensus/sync.requestBlocksFromID zz19PStubBlocks
//zz:stub (*~/pkg/p2p.Connection).BanPeer zz19StubBan
//zz:stub (*~/pkg/p2p.Peer).ConnectedPeers zz19PStubPeers
//zz:stub go.uber.org/ratelimit.New zz19StubLimiter
//zz:stub context.WithCancel zz19StubWithCancel
//zz:quick P=2
//zz:thorough P=3
func zzH_C18_block_sync_bans_serving_peer(t *zzT) { zz19PeerSelection(t, true) }

//zz:opt loop=400 paths=200000 sched=1 join=1 lockdiscipline=off
//zz:opt require=invalid-block-served
//zz:stub ~/pkg/consensus/sync.requestHighestCommonBlock zz19PStubCommon
//zz:stub ~/pkg/consensus/sync.requestLastBlockHeader zz19PStubLast
//zz:stub ~/pkg/consensus/sync.requestBlocksFromID zz19PStubBlocks
//zz:stub (*~/pkg/p2p.Connection).BanPeer zz19StubBan
//zz:stub (*~/pkg/p2p.Peer).ConnectedPeers zz19PStubPeers
//zz:stub go.uber.org/ratelimit.New zz19StubLimiter
//zz:stub context.WithCancel zz19StubWithCancel
//zz:quick P=2
//zz:thorough P=3
func zzH_C19_block_sync_bans_serving_peer(t *zzT) { zz19PeerSelection(t, true) }

func zz19PeerSelection(t *zzT, serveInvalid bool) {
	const L = 3
	P := t.Param("P", 2)
	e := zz19NewEnv(t, L, 1, 0)
	pe := &zz19PeersEnv{lastReqs: make([]int, P), serveInvalid: serveInvalid, commonID: e.own[L-1].Header.ID}
	zz19P = pe
	for i := 0; i < P; i++ {
		if i == 2 && t.Bool("third.repeats.second") {
			pe.blocks = append(pe.blocks, pe.blocks[1])
			continue
		}
		dh := uint32(t.Choice(t.Name("peer.dh", i), 2))
		dm := uint32(t.Choice(t.Name("peer.dm", i), 2))
		pe.blocks = append(pe.blocks, zz19Block(uint32(L)+dh, e.own[L-1].Header.ID, byte(0xB0+i), 1+dm, 64))
	}
	if serveInvalid {
		// which of several equally good peers is chosen is random natively (rand.Intn): the scenario needs to
		// know who serves, so only scripts with a unique best tip are used here
		for i := 0; i < P; i++ {
			for j := 0; j < i; j++ {
				hi, hj := pe.blocks[i].Header, pe.blocks[j].Header
				if hi.MaxHeightPrevoted == hj.MaxHeightPrevoted && hi.Height == hj.Height {
					return
				}
			}
		}
	}
	for i := 0; i < P; i++ {
		pe.bad = append(pe.bad, zz19Block(uint32(L), e.own[L-1].Header.ID, byte(0xD0+i), 1, 10))
	}
	var conn *p2p.Connection
	if t.Symbolic() {
		conn = &p2p.Connection{}
		for i := 0; i < P; i++ {
			pe.ids = append(pe.ids, p2p.PeerID(t.Name("zz19-peer", i)))
		}
	} else {
		mk := func(i int) *p2p.Connection {
			n := p2p.NewConnection(zzsLog{}, &p2p.Config{Addresses: []string{"/ip4/127.0.0.1/tcp/0"}})
			n.RegisterRPCHandler(RPCEndpointGetHighestCommonBlock, func(w p2p.ResponseWriter, r *p2p.Request) {
				pe.mu.Lock()
				pe.common = append(pe.common, i)
				pe.mu.Unlock()
				if pe.serveInvalid && i >= 0 {
					w.Write((&GetHighestCommonBlockResponse{ID: pe.commonID}).Encode())
					return
				}
				w.Error(zz19ErrUnknown)
			})
			n.RegisterRPCHandler(RPCEndpointGetBlocksFromID, func(w p2p.ResponseWriter, r *p2p.Request) {
				pe.mu.Lock()
				pe.blockReqs = append(pe.blockReqs, i)
				pe.mu.Unlock()
				if pe.serveInvalid && i >= 0 {
					if pe.servedOnce(i) {
						w.Write((&GetBlocksFromIDResponse{Blocks: []*blockchain.Block{}}).Encode())
						return
					}
					w.Write((&GetBlocksFromIDResponse{Blocks: []*blockchain.Block{pe.bad[i]}}).Encode())
					return
				}
				w.Error(zz19ErrUnknown)
			})
			n.RegisterRPCHandler(RPCEndpointGetLastBlock, func(w p2p.ResponseWriter, r *p2p.Request) {
				if i < 0 {
					w.Error(zz19ErrUnknown)
					return
				}
				pe.mu.Lock()
				pe.lastReqs[i]++
				pe.order = append(pe.order, i)
				pe.mu.Unlock()
				w.Write(pe.blocks[i].Encode())
			})
			if err := n.Start([]byte{}); err != nil {
				t.Fail("setup: p2p start")
			}
			return n
		}
		conn = mk(-1)
		pe.nets = append(pe.nets, conn)
		for i := 0; i < P; i++ {
			n := mk(i)
			pe.nets = append(pe.nets, n)
			addrs, err := n.MultiAddress()
			if err != nil || len(addrs) == 0 {
				t.Fail("setup: p2p address")
				return
			}
			info, err := p2p.AddrInfoFromMultiAddr(addrs[0])
			if err != nil {
				t.Fail("setup: p2p addr info")
				return
			}
			if err := conn.Connect(context.Background(), *info); err != nil {
				t.Fail("setup: p2p connect")
			}
			pe.ids = append(pe.ids, n.ID())
		}
		defer func() {
			for _, n := range pe.nets {
				n.Stop()
			}
		}()
	}
	s := &blockSyncer{chain: e.chain, conn: conn, logger: zzsLog{}, processor: e.process, reverter: e.revert}
	ctx := &SyncContext{Ctx: context.Background(), Block: pe.blocks[0], FinalizedBlockHeader: e.own[0].Header, PeerID: pe.ids[0], CurrentValidators: zz19Validators(2)}

	done, serr := s.Sync(ctx)

	t.Assert(serr != nil && !done, "the scripted peers refuse the common-block request / serve an invalid block: sync fails")
	pe.mu.Lock()
	defer pe.mu.Unlock()
	if serveInvalid {
		if len(pe.common) != 1 || pe.common[0] < 0 || len(pe.blockReqs) < 1 {
			t.Fail("the chosen peer is asked for the common block and for the blocks that follow it")
			return
		}
		c := pe.common[0]
		served := true
		for _, i := range pe.blockReqs {
			served = served && i == c
		}
		t.Assert(served, "blocks are downloaded from the chosen peer only")
		if t.Symbolic() {
			onlyServer := len(e.bans) >= 1
			for _, id := range e.bans {
				onlyServer = onlyServer && id == pe.ids[c]
			}
			t.Assert(onlyServer, "the peer that served the invalid block is banned, and nobody else (not the peer that announced the block)")
		} else {
			// natively bans are per IP and every peer is on 127.0.0.1; what tells the peers apart is which
			// connection BanPeer closed
			still := conn.ConnectedPeers()
			onlyServer := true
			for i := 0; i < P; i++ {
				connected := false
				for _, id := range still {
					connected = connected || id == pe.ids[i]
				}
				onlyServer = onlyServer && connected == (i != c)
			}
			t.Assert(onlyServer, "the peer that served the invalid block is banned, and nobody else (not the peer that announced the block)")
		}
		t.Assert(e.untouched(), "an invalid first downloaded block leaves the own chain untouched")
		// (which peer is chosen among equally good ones is random natively: one label for both cases)
		t.Reach("invalid-block-served")
		return
	}
	asked := true
	for i := 0; i < P; i++ {
		asked = asked && pe.lastReqs[i] >= 1
	}
	t.Assert(asked, "every connected peer is asked for its last block header")
	t.Assert(len(pe.order) == P+1 && len(pe.common) == 1, "exactly one peer receives the follow-up requests")
	if len(pe.order) != P+1 || len(pe.common) != 1 {
		return
	}
	c := pe.common[0]
	t.Assert(c >= 0 && c == pe.order[P], "the last block header is re-validated with, and the common block asked from, the same chosen peer")
	if c < 0 {
		return
	}
	// reference: lexicographic maximum of (maxHeightPrevoted, height), then the most common ID among those
	ch := pe.blocks[c].Header
	best := true
	for i := 0; i < P; i++ {
		h := pe.blocks[i].Header
		best = best && !(h.MaxHeightPrevoted > ch.MaxHeightPrevoted || (h.MaxHeightPrevoted == ch.MaxHeightPrevoted && h.Height > ch.Height))
	}
	t.Assert(best, "the chosen peer's tip has the largest maxHeightPrevoted, then the largest height, among ALL peers that answered")
	if best {
		count := func(id []byte) int {
			n := 0
			for i := 0; i < P; i++ {
				h := pe.blocks[i].Header
				if h.MaxHeightPrevoted == ch.MaxHeightPrevoted && h.Height == ch.Height && bytes.Equal(h.ID, id) {
					n++
				}
			}
			return n
		}
		most := true
		for i := 0; i < P; i++ {
			h := pe.blocks[i].Header
			if h.MaxHeightPrevoted == ch.MaxHeightPrevoted && h.Height == ch.Height {
				most = most && count(h.ID) <= count(ch.ID)
			}
		}
		t.Assert(most, "among the best tips the chosen peer's block ID is a most common one")
	}
	t.Assert(e.untouched(), "a sync that ends at the common-block request leaves the own chain untouched")
	t.Reach("chosen")
}
