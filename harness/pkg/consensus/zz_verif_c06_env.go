//go:build verif

package consensus

import (
	"context"

	"github.com/LiskHQ/lisk-engine/pkg/blockchain"
	"github.com/LiskHQ/lisk-engine/pkg/codec"
	"github.com/LiskHQ/lisk-engine/pkg/collection/bytes"
	"github.com/LiskHQ/lisk-engine/pkg/consensus/certificate"
	"github.com/LiskHQ/lisk-engine/pkg/consensus/liskbft"
	"github.com/LiskHQ/lisk-engine/pkg/crypto"
	"github.com/LiskHQ/lisk-engine/pkg/db"
	"github.com/LiskHQ/lisk-engine/pkg/db/diffdb"
	"github.com/LiskHQ/lisk-engine/pkg/log"
	"github.com/LiskHQ/lisk-engine/pkg/p2p"
	"github.com/LiskHQ/lisk-engine/pkg/statemachine"
)

// Environment of the C06 harnesses of package consensus.
//
// The node state the certificate code reads is:
//   - BFT heights (maxHeightPrevoted / maxHeightPrecommited / maxHeightCertified),
//   - BFT parameter sets: set A stored at height 0 and, if hasNext, set B stored at height nextH
//     (same keys, own weights and certificate threshold; a set may lack one of the n validators: zz06Params.absent),
//   - the node's own chain: a header for every height <= tip,
//   - the certificate pool.
//
// Symbolically the liskBFT API getters and the block-header getter are redirected (//zz:stub) to the
// zz06Stub* functions below, which answer from this state (so heights, weights and thresholds stay
// full-width symbolic values instead of varint-encoded records); natively install() writes the real
// BFTVotes / BFTParams records into a real in-memory database and caches the real headers, and the
// unmodified liskBFT / blockchain code reads them.

type zz06Params struct {
	absent    int // index of a validator that is NOT a member of this set (-1: all n are members)
	threshold uint64
	weights   []uint64
	vals      []*liskbft.BFTValidator
	obj       *liskbft.BFTParams // identity handed out by the GetBFTParameters stub
}

type zz06Env struct {
	t        *zzT
	n        int
	bls      *zz06BLSEnv
	ex       *Executer
	chain    *blockchain.Chain
	database *db.DB
	store    *diffdb.Database
	chainID  []byte

	prevoted, precommitted, certified uint32
	hasNext                           bool
	nextH                             uint32
	setA, setB                        *zz06Params

	ownID         []byte // block ID of every own header (first byte may be symbolic)
	tip           uint32 // own headers exist for heights <= tip
	removalHeight uint32 // AggregateCommit.Height of own headers
	cached        bool
}

var zz06E *zz06Env

type zz06Logger struct{}

func (zz06Logger) Debug(msg string, others ...interface{})    {}
func (zz06Logger) Info(msg string, others ...interface{})     {}
func (zz06Logger) Error(msg string, others ...interface{})    {}
func (zz06Logger) Debugf(msg string, others ...interface{})   {}
func (zz06Logger) Infof(msg string, others ...interface{})    {}
func (zz06Logger) Errorf(msg string, others ...interface{})   {}
func (zz06Logger) Warning(msg string, others ...interface{})  {}
func (zz06Logger) Warningf(msg string, others ...interface{}) {}
func (l zz06Logger) With(kv ...interface{}) log.Logger        { return l }

func zz06NewEnv(t *zzT, n int, order []byte) *zz06Env {
	e := &zz06Env{t: t, n: n, chainID: []byte{0, 0, 0, 6}, tip: 1<<32 - 1}
	zz06E = e
	e.bls = zz06NewBLS(t, n, order)
	e.ownID = make([]byte, 32)
	e.ownID[0] = 0xb1
	e.setA = &zz06Params{absent: -1, obj: &liskbft.BFTParams{}}
	e.setB = &zz06Params{absent: -1, obj: &liskbft.BFTParams{}}
	e.chain = blockchain.NewChain(&blockchain.ChainConfig{ChainID: e.chainID, MaxBlockCache: 8})
	if !t.Symbolic() {
		d, err := db.NewInMemoryDB()
		if err != nil {
			panic(err)
		}
		e.database = d
		e.chain.Init(nil, d)
	}
	m := liskbft.NewModule()
	if err := m.Init(103); err != nil {
		panic(err)
	}
	e.ex = &Executer{
		chain:           e.chain,
		liskBFT:         m,
		certificatePool: certificate.NewPool(),
		conn:            &p2p.Connection{GossipSub: &p2p.GossipSub{}},
		ctx:             context.Background(),
		database:        e.database,
		logger:          zz06Logger{},
	}
	e.store = diffdb.New(e.database, blockchain.DBPrefixToBytes(blockchain.DBPrefixState))
	return e
}

func (e *zz06Env) setParams(p *zz06Params, threshold uint64, weights []uint64) {
	p.threshold, p.weights = threshold, weights
	p.vals = nil
	for i := 0; i < e.n; i++ {
		if i == p.absent {
			continue
		}
		p.vals = append(p.vals, liskbft.NewValidator(zz06Addr(i), weights[i], e.bls.keys[i]))
	}
}

// paramsAt: the parameter set in force at height h (largest stored height <= h).
func (e *zz06Env) paramsAt(h uint32) *zz06Params {
	if e.hasNext && h >= e.nextH {
		return e.setB
	}
	return e.setA
}

// header: the node's own block header at height h. Symbolically every own header has the placeholder
// ID e.ownID; natively the ID is the real one (hash of the encoded header), so that headers read back
// from the database and cached headers agree.
func (e *zz06Env) header(h uint32) *blockchain.BlockHeader {
	// (symbolically the placeholder ID carries the height in bytes 1..4, so that own blocks at different heights
	// have different IDs, as real block IDs do)
	id := append([]byte{}, e.ownID...)
	id[1], id[2], id[3], id[4] = byte(h>>24), byte(h>>16), byte(h>>8), byte(h)
	hd := &blockchain.BlockHeader{
		ID:              id,
		Version:         2,
		Height:          h,
		Timestamp:       70,
		StateRoot:       []byte{0x57},
		ValidatorsHash:  []byte{0x11},
		AggregateCommit: &blockchain.AggregateCommit{Height: e.removalHeight, AggregationBits: []byte{}, CertificateSignature: []byte{}},
	}
	if !e.t.Symbolic() {
		hd.Init()
	}
	return hd
}

// store writes own headers into the native database (any heights, unlike the block cache).
func (e *zz06Env) storeHeaders(hs ...uint32) {
	if e.t.Symbolic() {
		return
	}
	for _, h := range hs {
		if h > e.tip {
			continue
		}
		_ = e.chain.AddBlock(e.database.NewBatch(), &blockchain.Block{Header: e.header(h)}, nil, 0, false)
	}
}

// certMsg: the message a certificate signature over the given header is over.
func zz06CertMsg(h *blockchain.BlockHeader, chainID []byte) []byte {
	c := certificate.NewCertificateFromBlock(h)
	return crypto.Hash(bytes.Join([]byte("LSK_CE_"), chainID, c.SigningBytes()))
}

func zz06ModuleStore(prefix uint16) []byte {
	return bytes.Join(blockchain.DBPrefixToBytes(blockchain.DBPrefixState), bytes.FromUint32(liskbft.ModuleID), bytes.FromUint16(prefix))
}

func zz06EncodeParams(p *zz06Params) []byte {
	w := codec.NewWriter()
	w.WriteUInt(1, 1)
	w.WriteUInt(2, 1)
	w.WriteUInt(3, p.threshold)
	for _, v := range p.vals {
		w.WriteEncodable(4, v)
	}
	w.WriteBytes(5, []byte{0x11})
	return w.Result()
}

// install materialises the state natively (no-op symbolically). cache lists the heights whose own
// header the code under test will look up (consecutive heights only: the block cache is a window).
func (e *zz06Env) install(cache ...uint32) {
	if e.t.Symbolic() {
		return
	}
	w := codec.NewWriter()
	w.WriteUInt32(1, e.prevoted)
	w.WriteUInt32(2, e.precommitted)
	w.WriteUInt32(3, e.certified)
	e.database.Set(zz06ModuleStore(0x8000), w.Result())
	e.database.Set(bytes.Join(zz06ModuleStore(0x0000), bytes.FromUint32(0)), zz06EncodeParams(e.setA))
	if e.hasNext {
		e.database.Set(bytes.Join(zz06ModuleStore(0x0000), bytes.FromUint32(e.nextH)), zz06EncodeParams(e.setB))
	}
	for _, h := range cache {
		if h > e.tip || e.chain.DataAccess().Cached(h) {
			continue
		}
		if err := e.chain.DataAccess().Cache(&blockchain.Block{Header: e.header(h)}); err != nil {
			panic(err)
		}
	}
}

// ---- stubs (symbolic engine only) ----

func zz06StubGetBFTHeights(a *liskbft.API, d *diffdb.Database) (uint32, uint32, uint32, error) {
	e := zz06E
	return e.prevoted, e.precommitted, e.certified, nil
}

// Real semantics: the smallest stored parameter height in [height+1, MaxUint32].
func zz06StubNextHeightBFTParameters(a *liskbft.API, d *diffdb.Database, height uint32) (uint32, error) {
	e := zz06E
	start := height + 1
	if start == 0 {
		return 0, nil // set A is stored at height 0
	}
	if e.hasNext && e.nextH >= start {
		return e.nextH, nil
	}
	return 0, statemachine.ErrNotFound
}

func zz06StubExistBFTParameters(a *liskbft.API, d *diffdb.Database, height uint32) (bool, error) {
	e := zz06E
	if height == 0 {
		return true, nil
	}
	return e.hasNext && e.nextH == height, nil
}

func zz06StubGetBFTParameters(a *liskbft.API, d *diffdb.Database, height uint32) (*liskbft.BFTParams, error) {
	return zz06E.paramsAt(height).obj, nil
}

func zz06StubValidators(p *liskbft.BFTParams) []*liskbft.BFTValidator {
	e := zz06E
	if p == e.setB.obj {
		return e.setB.vals
	}
	return e.setA.vals
}

func zz06StubCertificateThreshold(p *liskbft.BFTParams) uint64 {
	e := zz06E
	if p == e.setB.obj {
		return e.setB.threshold
	}
	return e.setA.threshold
}

func zz06StubGetBlockHeaderByHeight(d *blockchain.DataAccess, height uint32) (*blockchain.BlockHeader, error) {
	e := zz06E
	if height > e.tip {
		return nil, db.ErrDataNotFound
	}
	return e.header(height), nil
}

func zz06StubLastBlock(c *blockchain.Chain) *blockchain.Block {
	e := zz06E
	return &blockchain.Block{Header: e.header(e.tip)}
}

// Publish: no topic is registered in the harness (natively the real GossipSub.Publish answers the same).
func zz06StubPublish(gs *p2p.GossipSub, ctx context.Context, topicName string, data []byte) error {
	return p2p.ErrTopicNotFound
}

// BLSSign: validator i's secret key is {i} symbolically; the signature is the unit token of i, tagged
// "good" iff the message is the one the model's signatures are over.
func zz06StubBLSSign(msg []byte, privateKey []byte) []byte {
	e := zz06E.bls
	b := make([]byte, crypto.BLSSignatureLength)
	b[0] = byte(e.t.IteU64(zz06BytesEqual(msg, e.msg), 1, 0))
	b[1+int(privateKey[0])] = 1
	return b
}

func zz06BytesEqual(a, b []byte) bool { return bytes.Equal(a, b) }
