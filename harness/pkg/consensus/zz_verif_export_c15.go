//go:build verif

package consensus

import (
	"context"

	"github.com/LiskHQ/lisk-engine/pkg/blockchain"
	"github.com/LiskHQ/lisk-engine/pkg/consensus/certificate"
	"github.com/LiskHQ/lisk-engine/pkg/db"
	"github.com/LiskHQ/lisk-engine/pkg/labi"
)

// Bridge for the C15 forge harnesses of package generator (harness/pkg/generator/zz_verif_c15_forge.go).
//
// The generator talks to the consensus component through the generator.Consensus interface, which
// *Executer implements. To check "every block the generator produces is accepted by the same node's
// block validation at that moment" against the REAL validation code, the harness in package generator
// needs a real node (zzxNewNode: real chain, liskBFT module, Executer over the database model, fixed
// ed25519 validators) and a way to run the unexported verifyBlock / process on the produced block.
// This file exports exactly that and nothing else; it contains no oracle.
//
// The harness zzH_C15_forge_bridge_node below also makes this directory part of every C15 run (the
// engine overlays the harness directories that hold a harness of the selected property).

type ZZC15Node struct{ n *zzxNode }

// ZZC15NewNode: chain = genesis + extra valid blocks (two validators, round robin); the wall clock is
// slotsAhead slots ahead of the tip (symbolically through the stubbed time.Now of the caller — see
// Now —, natively by the choice of the genesis timestamp).
func ZZC15NewNode(extra, slotsAhead int) *ZZC15Node {
	t := &zzT{} // zzxNewNode uses t.Symbolic() and t.Fail only
	n := zzxNewNode(t, 2, extra, slotsAhead)
	n.ex.certificatePool = certificate.NewPool()
	n.ex.processCh = make(chan *ProcessContext, 4)
	return &ZZC15Node{n: n}
}

func (z *ZZC15Node) Executer() *Executer        { return z.n.ex }
func (z *ZZC15Node) Chain() *blockchain.Chain   { return z.n.chain }
func (z *ZZC15Node) Database() *db.DB           { return z.n.database }
func (z *ZZC15Node) ChainID() []byte            { return zzxChainID }
func (z *ZZC15Node) BlockTime() uint32          { return zzxBlockTime }
func (z *ZZC15Node) ValidatorsHash() []byte     { return z.n.validatorsHash }
func (z *ZZC15Node) SetABI(a labi.ABI)          { z.n.ex.abi = a }
func (z *ZZC15Node) Heights() (p, c, f uint32)  { return z.n.heights() }
func (z *ZZC15Node) Validators() []*labi.Validator {
	return append([]*labi.Validator{}, z.n.abi.validators...)
}

// Now is the value the stubbed clock must return under the engine (zzxNewNode computed it).
func (z *ZZC15Node) Now() int64 { return zzxNowVal }

// Key material of validator i (0 or 1): address, generator public key, generator private key.
func ZZC15Keys(i int) (addr, pub, priv []byte) { return zzxAddr[i], zzxPub[i], zzxPriv[i] }

// VerifyBlockForGenerator: the static acceptance rules of a received block — Block.Validate and the
// real verifyBlock (version, payload size, height, previous ID, slot window, generator of the slot,
// maxHeightPrevoted, contradiction with the chain, aggregate commit, signature) — without executing it.
func (z *ZZC15Node) VerifyBlockForGenerator(b *blockchain.Block) error {
	if err := b.Validate(); err != nil {
		return err
	}
	return z.n.ex.verifyBlock(z.n.store(), b)
}

// Process runs the real Executer.process on the block, as the processing loop does for a block taken
// from the queue AddInternal fills (peer ID non-empty only to skip the p2p publication, there is no
// network in the harness). Returns the processing error and whether the block is the new tip.
func (z *ZZC15Node) Process(b *blockchain.Block) (error, bool) {
	err := z.n.ex.process(&ProcessContext{ctx: context.Background(), block: b, peerID: "zz-self"})
	tip := z.n.chain.LastBlock().Header
	return err, err == nil && string(tip.ID) == string(b.Header.ID)
}

// NextValid builds a valid successor of the tip the way the C03 harnesses do (reference block).
func (z *ZZC15Node) NextValid(slots int) *blockchain.Block { return z.n.nextValid(slots, nil) }

// zzH_C15_forge_bridge_node: sanity of the bridge — the reference successor passes the static rules
// and is appended by process.
//
//zz:opt loop=80 lockdiscipline=off require=end
//zz:stub time.Now zzxStubNow
func zzH_C15_forge_bridge_node(t *zzT) {
	z := ZZC15NewNode(1, 1)
	b := z.NextValid(1)
	t.Assert(z.VerifyBlockForGenerator(b) == nil, "bridge: reference successor passes the static rules")
	err, tip := z.Process(b)
	t.Assert(err == nil && tip, "bridge: reference successor is appended")
	t.ObserveU64("tip", uint64(z.Chain().LastBlock().Header.Height))
	t.Reach("end")
}
