//go:build verif

package certificate

import (
	"sync"
	"time"
)

// C20.d: the certificate pool under concurrent use. The gossip handler adds single commits while the
// consensus goroutine selects / upgrades (broadcastCertificate), cleans up, and the generator reads a
// height. Two adders, one maintenance goroutine, the main goroutine reading — all interleavings within
// the scheduling budget, with the vector-clock race monitor. Asserted: no data race on the pool's
// lists, nobody blocks, no commit is lost or duplicated (each added commit is in the pool exactly once
// unless the clean-up removed it, and the clean-up removes only what its checker rejects).
//
//zz:opt loop=64 sched=2 join=1 race=1 racereport=1 schedule=1 blockfree=0
//zz:thorough sched=3 budget=1800s
func zzH_C20_certificate_pool_concurrent(t *zzT) {
	p := NewPool()
	mk := func(i int, h uint32) *SingleCommit {
		return &SingleCommit{blockID: []byte{byte(i)}, height: h, validatorAddress: []byte{byte(i)}, internal: i == 0}
	}
	pre := mk(0, 5)
	p.Add(pre)
	c1, c2 := mk(1, uint32(t.U8("height1"))), mk(2, uint32(t.U8("height2")))
	cut := uint32(t.U8("cleanup.keepAbove"))
	maint := t.Choice("maintenance", 3)
	var wg sync.WaitGroup
	wg.Add(3)
	// natively the interleaving cannot be steered: the clean-up's checker is slow (it reads the database on a
	// real node) and the adders arrive while it runs
	nativeDelay := func(d time.Duration) {
		if !t.Symbolic() && maint == 1 {
			time.Sleep(d)
		}
	}
	go func() { defer wg.Done(); nativeDelay(2 * time.Millisecond); p.Add(c1) }()
	go func() { defer wg.Done(); nativeDelay(2 * time.Millisecond); p.Add(c2) }()
	go func() {
		defer wg.Done()
		switch maint {
		case 0:
			sel := p.Select(200, 2)
			p.Upgrade(sel)
		case 1:
			p.Cleanup(func(h uint32) bool { nativeDelay(6 * time.Millisecond); return h > cut })
		default:
			_ = p.Get(5)
		}
	}()
	_ = p.Size()
	_ = p.Has(c1)
	wg.Wait()
	for _, c := range []*SingleCommit{pre, c1, c2} {
		n := zz06Count(p.gossiped, c) + zz06Count(p.nonGossiped, c)
		if maint == 1 {
			t.Assert(n <= 1 && (n == 1 || c.height <= cut), "a commit is missing only if the clean-up's checker rejected its height, and never duplicated")
		} else {
			t.Assert(n == 1, "every added commit is in the pool exactly once")
		}
	}
	t.Reach("end")
}

// C20.d / C06: the SAME single commit arrives twice at the same time (two gossip validators decode the same
// message on two goroutines, or the node's own commit meets its echo): after both Add calls returned the pool
// holds it exactly once — for every interleaving; a duplicate would be counted twice in the aggregate (defect
// a31da3a). The duplicate test and the insertion must be one critical section (seed C20-11 split them).
// Natively the interleaving cannot be steered: the two adders are released together, many rounds.
//
//zz:opt loop=64 sched=2 join=1 race=1 racereport=1 schedule=1 blockfree=0
//zz:thorough sched=3
func zzH_C20_certificate_pool_equal_adds(t *zzT) {
	rounds, adders, prefill := 1, 2, 0
	if !t.Symbolic() {
		// natively the window between the duplicate test and the insertion is hit by chance: a long pool (the
		// test scans it) and four adders make a split critical section show within a few hundred rounds
		rounds, adders, prefill = 20000, 4, 256
	}
	h := uint32(t.U8("height"))
	other := t.Bool("other.commit.present")
	for r := 0; r < rounds; r++ {
		p := NewPool()
		want := 1
		if other {
			p.Add(&SingleCommit{blockID: []byte{9}, height: h, validatorAddress: []byte{9}})
			want++
		}
		for i := 0; i < prefill; i++ {
			p.Add(&SingleCommit{blockID: []byte{8, byte(i)}, height: h + 1 + uint32(i), validatorAddress: []byte{8, byte(i)}})
		}
		mk := func() *SingleCommit {
			return &SingleCommit{blockID: []byte{1}, height: h, validatorAddress: []byte{1}, certificateSignature: []byte{7}}
		}
		cs := make([]*SingleCommit, adders)
		var wg sync.WaitGroup
		wg.Add(adders)
		start := make(chan struct{})
		for i := range cs {
			cs[i] = mk()
			c := cs[i]
			go func() { defer wg.Done(); <-start; p.Add(c) }()
		}
		close(start)
		wg.Wait()
		n := 0
		for _, c := range cs { // whichever copy won
			n += zz06Count(p.gossiped, c) + zz06Count(p.nonGossiped, c)
		}
		if n != 1 || p.Size() != want+prefill || len(p.Get(h)) != want {
			t.Fail("two concurrent Adds of an equal commit leave it in the pool exactly once")
			break
		}
	}
	t.Reach("end")
}

//zz:opt loop=64 sched=2 join=1 race=1 racereport=1 schedule=1 blockfree=0
//zz:thorough sched=3
func zzH_C06_certificate_pool_equal_adds(t *zzT) { zzH_C20_certificate_pool_equal_adds(t) }
