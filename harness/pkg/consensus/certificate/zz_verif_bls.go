//go:build verif

package certificate

import (
	stdbytes "bytes"
	"sort"

	blst "github.com/supranational/blst/bindings/go"

	"github.com/LiskHQ/lisk-engine/pkg/crypto"
)

// Algebraic BLS model (DESIGN §3) for the symbolic engine, real blst natively.
//
// Symbolically blst (cgo) is replaced by the zzStub* functions below through //zz:stub directives:
//   - a public key point carries the compressed bytes it was uncompressed from;
//   - a signature is a 96-byte token {tag, c0, c1, c2, 0...}: tag==1 means "over the message
//     zz06BLS.msg" (any other tag: over some other message), c_i = how many times validator i's
//     signature is contained in the aggregate;
//   - Aggregate adds the tokens; FastAggregateVerify(keys, m, sig) is true iff tag==1, m equals
//     zz06BLS.msg and the multiset of keys equals the multiset described by c.
//
// Natively nothing is stubbed: keys are real BLS keys, a token is turned into the real aggregate
// signature it describes, and real blst decides. The replay of every witness / counterexample thus
// cross-checks the model against blst.

type zz06P1Rec struct {
	p *blst.P1Affine
	b []byte
}
type zz06P2Rec struct {
	p *blst.P2Affine
	b []byte
}
type zz06AgRec struct {
	p *blst.P2Aggregate
	b []byte
}

type zz06BLSEnv struct {
	t    *zzT
	n    int
	keys [][]byte // compressed public key of validator i
	sks  [][]byte // native only
	msg  []byte   // the message the validators' signatures are over
	p1   []zz06P1Rec
	p2   []zz06P2Rec
	ag   []zz06AgRec
}

var zz06BLS *zz06BLSEnv

func zz06Addr(i int) []byte {
	a := make([]byte, 20)
	a[0] = 0xad
	a[19] = byte(i)
	return a
}

// zz06NewBLS creates n validators. order[i] is a (possibly symbolic) byte that fixes the relative
// lexicographic order of the validators' BLS keys: symbolically the key of validator i is {order[i], i}
// (pairwise distinct first bytes, so order[] alone decides the order; the concrete second byte lets the
// model identify a key without symbolic comparisons);
// natively validator i receives the real key whose rank among n real keys equals the rank of order[i].
func zz06NewBLS(t *zzT, n int, order []byte) *zz06BLSEnv {
	e := &zz06BLSEnv{t: t, n: n}
	zz06BLS = e
	for i := 0; i < n; i++ {
		for j := 0; j < i; j++ {
			t.Assume(order[i] != order[j])
		}
	}
	if t.Symbolic() {
		for i := 0; i < n; i++ {
			e.keys = append(e.keys, []byte{order[i], byte(i)})
			e.sks = append(e.sks, []byte{byte(i)})
		}
		return e
	}
	type kp struct{ pk, sk []byte }
	real := make([]kp, n)
	for i := range real {
		pass := make([]byte, 32)
		pass[0], pass[1] = 0x5a, byte(i+1)
		k := crypto.BLSKeyGen(pass)
		real[i] = kp{k.PublicKey, k.PrivateKey}
	}
	sort.Slice(real, func(i, j int) bool { return stdbytes.Compare(real[i].pk, real[j].pk) < 0 })
	for i := 0; i < n; i++ {
		rank := 0
		for j := 0; j < n; j++ {
			if order[j] < order[i] {
				rank++
			}
		}
		e.keys = append(e.keys, real[rank].pk)
		e.sks = append(e.sks, real[rank].sk)
	}
	return e
}

// token returns the signature described by (tag, counts): symbolically the token itself, natively the
// real aggregate signature. e.msg must be set before.
func (e *zz06BLSEnv) token(tag byte, counts []byte) []byte {
	if e.t.Symbolic() {
		b := make([]byte, crypto.BLSSignatureLength)
		b[0] = tag
		copy(b[1:], counts)
		return b
	}
	msg := e.msg
	if tag != 1 {
		msg = append([]byte("zz-some-other-message-"), e.msg...)
	}
	pairs := []*crypto.BLSPublicKeySignaturePair{}
	for i, c := range counts {
		for k := 0; k < int(c); k++ {
			pairs = append(pairs, &crypto.BLSPublicKeySignaturePair{PublicKey: e.keys[i], Signature: crypto.BLSSign(msg, e.sks[i])})
		}
	}
	if len(pairs) == 0 {
		inf := make([]byte, crypto.BLSSignatureLength) // compressed point at infinity
		inf[0] = 0xc0
		return inf
	}
	_, sig := crypto.BLSCreateAggSig(e.keys, pairs)
	return sig
}

// single returns validator i's signature over e.msg.
func (e *zz06BLSEnv) single(i int) []byte {
	counts := make([]byte, e.n)
	counts[i] = 1
	return e.token(1, counts)
}

func (e *zz06BLSEnv) p2bytes(p *blst.P2Affine) []byte {
	for i := len(e.p2) - 1; i >= 0; i-- {
		if e.p2[i].p == p {
			return e.p2[i].b
		}
	}
	return make([]byte, crypto.BLSSignatureLength)
}

func (e *zz06BLSEnv) p1bytes(p *blst.P1Affine) []byte {
	for i := len(e.p1) - 1; i >= 0; i-- {
		if e.p1[i].p == p {
			return e.p1[i].b
		}
	}
	return nil
}

// isKey: kb is validator i's public key.
func (e *zz06BLSEnv) isKey(kb []byte, i int) bool {
	if e.t.Symbolic() {
		return len(kb) == 2 && kb[1] == byte(i)
	}
	return stdbytes.Equal(kb, e.keys[i])
}

func (e *zz06BLSEnv) verify(sig *blst.P2Affine, pks []*blst.P1Affine, msg []byte) bool {
	if len(pks) == 0 {
		return false
	}
	t := e.t
	tok := e.p2bytes(sig)
	ok := t.And(tok[0] == 1, stdbytes.Equal(msg, e.msg))
	total := 0
	for i := 0; i < e.n; i++ {
		cnt := 0
		for _, pk := range pks {
			cnt += t.IteInt(e.isKey(e.p1bytes(pk), i), 1, 0)
		}
		ok = t.And(ok, int(tok[1+i]) == cnt)
		total += cnt
	}
	return t.And(ok, total == len(pks))
}

func zz06StubP1Uncompress(p *blst.P1Affine, in []byte) *blst.P1Affine {
	zz06BLS.p1 = append(zz06BLS.p1, zz06P1Rec{p, in})
	return p
}

func zz06StubP2Uncompress(p *blst.P2Affine, in []byte) *blst.P2Affine {
	zz06BLS.p2 = append(zz06BLS.p2, zz06P2Rec{p, in})
	return p
}

func zz06StubP2Compress(p *blst.P2Affine) []byte {
	b := zz06BLS.p2bytes(p)
	out := make([]byte, len(b))
	copy(out, b)
	return out
}

func zz06StubAggregate(agg *blst.P2Aggregate, elmts []*blst.P2Affine, groupcheck bool) bool {
	e := zz06BLS
	out := make([]byte, crypto.BLSSignatureLength)
	tag := uint64(1)
	for _, el := range elmts {
		b := e.p2bytes(el)
		tag = e.t.IteU64(b[0] == 1, tag, 0)
		for i := 0; i < e.n; i++ {
			out[1+i] += b[1+i]
		}
	}
	out[0] = byte(tag)
	e.ag = append(e.ag, zz06AgRec{agg, out})
	return true
}

func zz06StubToAffine(agg *blst.P2Aggregate) *blst.P2Affine {
	e := zz06BLS
	p := new(blst.P2Affine)
	b := make([]byte, crypto.BLSSignatureLength)
	b[0] = 1
	for i := len(e.ag) - 1; i >= 0; i-- {
		if e.ag[i].p == agg {
			b = e.ag[i].b
			break
		}
	}
	e.p2 = append(e.p2, zz06P2Rec{p, b})
	return p
}

func zz06StubFastAggregateVerify(sig *blst.P2Affine, sigGroupcheck bool, pks []*blst.P1Affine, msg blst.Message, dst []byte, optional ...interface{}) bool {
	return zz06BLS.verify(sig, pks, msg)
}

func zz06StubVerify(sig *blst.P2Affine, sigGroupcheck bool, pk *blst.P1Affine, pkValidate bool, msg blst.Message, dst []byte, optional ...interface{}) bool {
	return zz06BLS.verify(sig, []*blst.P1Affine{pk}, msg)
}
