//go:build verif

package certificate

import (
	stdbytes "bytes"
	"math/bits"

	"github.com/LiskHQ/lisk-engine/pkg/collection/bytes"
	"github.com/LiskHQ/lisk-engine/pkg/crypto"
)

func zz06SymCert(t *zzT, pfx string, hmax uint32) *Certificate {
	c := &Certificate{
		BlockID:        t.Bytes(pfx+".blockID", 2),
		Height:         t.U32(pfx + ".height"),
		Timestamp:      t.U32(pfx + ".timestamp"),
		StateRoot:      t.Bytes(pfx+".stateRoot", 1),
		ValidatorsHash: t.Bytes(pfx+".validatorsHash", 1),
	}
	if hmax != 0 {
		t.Assume(c.Height < hmax && c.Timestamp < hmax)
	}
	return c
}

func zz06CertMsg(c *Certificate, chainID []byte) []byte {
	return crypto.Hash(bytes.Join(certificateTag, chainID, c.SigningBytes()))
}

// zz06Flag: bit i of an aggregation bitmap, transcribed from LIP-0061 (little-endian bit order within
// byte i/8; bits beyond the bitmap are unset).
func zz06Flag(bitmap []byte, i int) bool {
	if i/8 >= len(bitmap) {
		return false
	}
	return (bitmap[i/8]>>(uint(i)%8))&1 == 1
}

// C06.b: Certificate.VerifyAggregateCertificateSignature accepts an (untrusted) aggregate only if
// the flagged keys' weights reach the threshold, the aggregate is signed by exactly the flagged keys,
// and the signed message is this certificate under this chain ID.
//
// Bounds: n <= 3 keys, bitmap length 0..2 (all bytes symbolic), weights/threshold full 64 bit,
// signature = arbitrary token of the algebraic model (each validator contained 0..2 times, over the
// expected or another message); certificate fields of the verified and of the signed certificate
// independent (u32 fields < HMAX in the quick tier because a symbolic varint forks per length).
//
//zz:opt loop=24 require=accepted,rejected
//zz:quick HMAX=128
//zz:thorough HMAX=0 budget=1200s
//zz:stub (*github.com/supranational/blst/bindings/go.P1Affine).Uncompress zz06StubP1Uncompress
//zz:stub (*github.com/supranational/blst/bindings/go.P2Affine).Uncompress zz06StubP2Uncompress
//zz:stub (*github.com/supranational/blst/bindings/go.P2Affine).FastAggregateVerify zz06StubFastAggregateVerify
func zzH_C06_weighted_verify(t *zzT) {
	n := t.Range("n", 1, 3)
	bl := t.Range("bitmap.len", 0, 2)
	bitmap := t.Bytes("bitmap", bl)
	order := []byte{1, 2, 3}
	e := zz06NewBLS(t, n, order[:n])
	weights := make([]uint64, n)
	for i := range weights {
		weights[i] = t.U64(t.Name("weight", i))
	}
	threshold := t.U64("threshold")
	hmax := uint32(t.Param("HMAX", 128))
	v, w := zz06SymCert(t, "verified", hmax), zz06SymCert(t, "signed", hmax)
	chainV, chainW := t.Bytes("verified.chainID", 1), t.Bytes("signed.chainID", 1)
	e.msg = zz06CertMsg(w, chainW)
	tag := t.U8("sig.tag")
	counts := make([]byte, n)
	for i := range counts {
		counts[i] = t.U8(t.Name("sig.count", i))
		t.Assume(counts[i] <= 2)
	}
	v.AggregationBits = bitmap
	v.Signature = e.token(tag, counts)

	ok := v.VerifyAggregateCertificateSignature(e.keys, weights, threshold, chainV)
	if !ok {
		t.Reach("rejected")
		return
	}
	var lo, hi uint64
	exact := tag == 1
	for i := 0; i < n; i++ {
		f := zz06Flag(bitmap, i)
		var c uint64
		lo, c = bits.Add64(lo, t.IteU64(f, weights[i], 0), 0)
		hi += c
		exact = t.And(exact, counts[i] == byte(t.IteU64(f, 1, 0)))
	}
	t.Assert(t.Or(hi > 0, lo >= threshold), "accepted aggregate: weight of the flagged keys reaches the threshold")
	t.Assert(exact, "accepted aggregate: signed by exactly the flagged keys")
	same := t.And(stdbytes.Equal(v.BlockID, w.BlockID), t.And(v.Height == w.Height, v.Timestamp == w.Timestamp))
	same = t.And(same, t.And(stdbytes.Equal(v.StateRoot, w.StateRoot), stdbytes.Equal(v.ValidatorsHash, w.ValidatorsHash)))
	t.Assert(same, "accepted aggregate: the signed certificate is the verified certificate")
	t.Assert(stdbytes.Equal(chainV, chainW), "accepted aggregate: signed under this chain ID")
	t.Reach("accepted")
}

// C06.c (package level): the aggregate commit built by SingleCommits.Aggregate from the single
// commits of an arbitrary signer subset verifies against the validators' keys in lexicographic order
// (the order documented for Aggregate and used by consensus.verifyAggregateCommit) whenever the
// signers' weight reaches the threshold.
//
// Bounds: n = 2..N validators with symbolic relative key order, symbolic non-empty signer subset,
// weights/threshold full 64 bit (sum assumed not to wrap), keypairs handed over in validator order.
//
//zz:opt loop=24 require=done
//zz:quick N=3
//zz:thorough N=4
//zz:stub (*github.com/supranational/blst/bindings/go.P1Affine).Uncompress zz06StubP1Uncompress
//zz:stub (*github.com/supranational/blst/bindings/go.P2Affine).Uncompress zz06StubP2Uncompress
//zz:stub (*github.com/supranational/blst/bindings/go.P2Affine).Compress zz06StubP2Compress
//zz:stub (*github.com/supranational/blst/bindings/go.P2Aggregate).Aggregate zz06StubAggregate
//zz:stub (*github.com/supranational/blst/bindings/go.P2Aggregate).ToAffine zz06StubToAffine
//zz:stub (*github.com/supranational/blst/bindings/go.P2Affine).FastAggregateVerify zz06StubFastAggregateVerify
func zzH_C06_aggregate_self_consistent(t *zzT) {
	n := t.Range("n", 2, t.Param("N", 3))
	order := make([]byte, n)
	for i := range order {
		order[i] = t.U8(t.Name("key", i))
	}
	zz06AggSelf(t, n, order)
}

// The same obligation at validator counts around a whole byte of aggregation bits (7, 8, 9 and 16 validators;
// seed C06-12 sized the bitmap len/8+1 and verification demanded exactly ceil(n/8) bytes — only multiples of 8
// differ). The relative key order is fixed here (a rotation), the signer subset, weights and threshold are symbolic.
//
//zz:opt loop=600 require=done budget=300s
//zz:stub (*github.com/supranational/blst/bindings/go.P1Affine).Uncompress zz06StubP1Uncompress
//zz:stub (*github.com/supranational/blst/bindings/go.P2Affine).Uncompress zz06StubP2Uncompress
//zz:stub (*github.com/supranational/blst/bindings/go.P2Affine).Compress zz06StubP2Compress
//zz:stub (*github.com/supranational/blst/bindings/go.P2Aggregate).Aggregate zz06StubAggregate
//zz:stub (*github.com/supranational/blst/bindings/go.P2Aggregate).ToAffine zz06StubToAffine
//zz:stub (*github.com/supranational/blst/bindings/go.P2Affine).FastAggregateVerify zz06StubFastAggregateVerify
func zzH_C06_aggregate_self_consistent_byte_boundary(t *zzT) {
	sizes := []int{7, 8, 9, 16}
	n := sizes[t.Choice("n", 4)]
	order := make([]byte, n)
	for i := range order {
		order[i] = byte((i*5 + 3) % n) // a fixed permutation-like order with distinct ranks for n coprime to 5
	}
	zz06AggSelfSigners(t, n, order, 2)
}

func zz06AggSelf(t *zzT, n int, order []byte) { zz06AggSelfSigners(t, n, order, n) }

// free = how many validators have a symbolic "signs" flag (the others all sign): bounds the forking for large n
func zz06AggSelfSigners(t *zzT, n int, order []byte, free int) {
	e := zz06NewBLS(t, n, order)
	cert := &Certificate{BlockID: make([]byte, 32), Height: 7, Timestamp: 70, StateRoot: []byte{9}, ValidatorsHash: []byte{8}}
	cert.BlockID[0] = 0xb1
	chainID := []byte{0, 0, 0, 1}
	e.msg = zz06CertMsg(cert, chainID)

	weights := make([]uint64, n)
	signs := make([]bool, n)
	threshold := t.U64("threshold")
	var signedWeight uint64
	commits := SingleCommits{}
	keypairs := AddressKeyPairs{}
	for i := 0; i < n; i++ {
		weights[i] = t.U64(t.Name("weight", i))
		t.Assume(weights[i] < 1<<60)
		signs[i] = i >= free || t.Bool(t.Name("signs", i))
		keypairs = append(keypairs, &AddressKeyPair{Address: zz06Addr(i), BLSKey: e.keys[i]})
	}
	for i := 0; i < n; i++ {
		if signs[i] {
			signedWeight += weights[i]
			commits = append(commits, &SingleCommit{blockID: cert.BlockID, height: cert.Height, validatorAddress: zz06Addr(i), certificateSignature: e.single(i)})
		}
	}
	t.Assume(len(commits) > 0 && signedWeight >= threshold)

	ac, err := commits.Aggregate(keypairs)
	t.Assert(err == nil && ac != nil, "aggregation of commits by known validators succeeds")
	if err != nil || ac == nil {
		return
	}
	t.Assert(ac.Height == cert.Height, "aggregate commit carries the commits' height")

	// verification side: keys in lexicographic order with their weights
	idx := make([]int, n) // idx[r] = validator whose key has rank r
	for i := 0; i < n; i++ {
		rank := 0
		for j := 0; j < n; j++ {
			if order[j] < order[i] {
				rank++
			}
		}
		idx[rank] = i
	}
	keys := make([][]byte, n)
	ws := make([]uint64, n)
	for r := 0; r < n; r++ {
		keys[r], ws[r] = e.keys[idx[r]], weights[idx[r]]
	}
	cert.AggregationBits = ac.AggregationBits
	cert.Signature = ac.CertificateSignature
	ok := cert.VerifyAggregateCertificateSignature(keys, ws, threshold, chainID)
	t.Assert(ok, "own aggregate commit verifies against the validators' keys in lexicographic order")
	t.ObserveBytes("aggregationBits", ac.AggregationBits)
	t.Reach("done")
}
