//go:build verif

package certificate


func zz06Count(s SingleCommits, c *SingleCommit) int {
	k := 0
	for _, x := range s {
		if x == c {
			k++
		}
	}
	return k
}

// C06.f: Pool.Select / Upgrade / Cleanup. From an arbitrary pool state (G gossiped + M non-gossiped
// commits with symbolic heights, internal flags and pairwise distinct (blockID, validator) identities):
// the selection is bounded by the limit and consists of pool members; after Upgrade every commit is
// still in the pool exactly once (no loss, no duplication between the two lists), selected
// non-gossiped commits became gossiped, gossiped ones stay gossiped; Cleanup keeps exactly the
// commits the checker approves, each in the list it was in.
//
//zz:opt loop=16 require=end
//zz:quick G=1 M=2 L=3
//zz:thorough G=2 M=2 L=4 budget=1200s
func zzH_C06_pool_select_upgrade_cleanup(t *zzT) {
	g := t.Range("gossiped", 0, t.Param("G", 1))
	m := t.Range("nonGossiped", 0, t.Param("M", 2))
	limit := t.Range("limit", 0, t.Param("L", 3))
	all := SingleCommits{}
	mk := func(i int) *SingleCommit {
		c := &SingleCommit{
			blockID:          []byte{t.U8(t.Name("blockID", i))},
			height:           t.U32(t.Name("height", i)),
			validatorAddress: []byte{t.U8(t.Name("validator", i))},
			internal:         t.Bool(t.Name("internal", i)),
		}
		for _, o := range all {
			t.Assume(o.blockID[0] != c.blockID[0] || o.validatorAddress[0] != c.validatorAddress[0])
		}
		all = append(all, c)
		return c
	}
	p := NewPool()
	for i := 0; i < g; i++ {
		p.gossiped = append(p.gossiped, mk(i))
	}
	for i := 0; i < m; i++ {
		p.nonGossiped = append(p.nonGossiped, mk(g+i))
	}
	wasGossiped := make([]bool, len(all))
	for i := range all {
		wasGossiped[i] = i < g
	}
	maxHeightPrecommited := t.U32("maxHeightPrecommited")

	sel := p.Select(maxHeightPrecommited, limit)
	t.Assert(len(sel) <= limit, "selection is at most the limit")
	for _, c := range sel {
		t.Assert(zz06Count(all, c) == 1, "every selected commit is a commit of the pool")
	}
	dupFree := true
	for _, c := range all {
		dupFree = dupFree && zz06Count(sel, c) <= 1
	}
	for _, c := range all {
		t.Assert(zz06Count(p.gossiped, c)+zz06Count(p.nonGossiped, c) == 1, "Select keeps every commit in the pool exactly once")
	}
	t.Assert(len(p.gossiped)+len(p.nonGossiped) == len(all), "Select does not change the pool size")
	t.Reach("selected")

	p.Upgrade(sel)
	for i, c := range all {
		ing, inn := zz06Count(p.gossiped, c), zz06Count(p.nonGossiped, c)
		t.Assert(ing+inn == 1, "after Upgrade every commit is in the pool exactly once")
		if wasGossiped[i] {
			t.Assert(ing == 1, "gossiped commits stay gossiped")
		} else if zz06Count(sel, c) > 0 {
			t.Assert(ing == 1, "selected non-gossiped commits become gossiped")
		} else {
			t.Assert(inn == 1, "unselected non-gossiped commits stay non-gossiped")
		}
	}
	t.Assert(len(p.gossiped)+len(p.nonGossiped) == len(all), "Upgrade does not change the pool size")
	t.Assert(p.Size() == len(all), "Size is the number of commits")

	preG := append(SingleCommits{}, p.gossiped...)
	preN := append(SingleCommits{}, p.nonGossiped...)
	cut := t.U32("cleanup.cut")
	p.Cleanup(func(h uint32) bool { return h > cut })
	for _, c := range all {
		keep := 0
		if c.height > cut {
			keep = 1
		}
		t.Assert(zz06Count(p.gossiped, c) == keep*zz06Count(preG, c), "Cleanup keeps exactly the approved gossiped commits")
		t.Assert(zz06Count(p.nonGossiped, c) == keep*zz06Count(preN, c), "Cleanup keeps exactly the approved non-gossiped commits")
		t.Assert(p.Has(c) == (keep == 1), "Has reports exactly the remaining commits")
	}
	// checked last (a failed assertion ends the path) so that the obligations above are also decided on
	// the paths where the selection contains a duplicate
	if t.Param("beyond", 0) == 1 { // not demanded by the C06 statement (a duplicate in one gossip message is tolerated by Upgrade)
		t.Assert(dupFree, "selection lists no commit twice")
	}
	t.Reach("end")
}

// C09 "no … message received from a peer can … hang the node" (single commits on the gossip topic) and the
// pool's own liveness: the same single commit may reach Pool.Add twice (two gossip messages whose validator
// goroutines both passed Has before either reached Add), possibly while it already sits in the gossiped or
// the non-gossiped list. Every pool operation afterwards — Has, Get, Select, Upgrade, Cleanup, Add — returns
// (a mutex left locked by any branch of Add shows as a self-deadlock / blocked operation), and the pool
// still answers Has for the commit.
//
//zz:opt loop=32 require=end
func zzH_C09_single_commit_duplicate_add(t *zzT) {
	mk := func(tag byte) *SingleCommit {
		return &SingleCommit{blockID: []byte{tag}, height: uint32(10 + tag), validatorAddress: []byte{0xa0, tag}, certificateSignature: []byte{tag}}
	}
	p := NewPool()
	c := mk(1)
	switch t.Choice("already", 3) {
	case 1:
		p.nonGossiped = append(p.nonGossiped, mk(1)) // an equal commit is pooled already
	case 2:
		p.gossiped = append(p.gossiped, mk(1))
	}
	p.Add(c)
	p.Add(mk(1)) // the duplicate
	t.Assert(p.Has(c), "the commit is in the pool after the adds")
	_ = p.Get(c.height)
	sel := p.Select(t.U32("maxHeightPrecommited"), 5)
	p.Upgrade(sel)
	p.Cleanup(func(h uint32) bool { return true })
	p.Add(mk(2))
	t.Assert(p.Has(mk(2)), "the pool still accepts and finds another commit")
	t.Reach("end")
}

//zz:opt loop=32 require=end
func zzH_C06_single_commit_duplicate_add(t *zzT) { zzH_C09_single_commit_duplicate_add(t) }
