//go:build verif

package consensus

import (
	"context"

	"github.com/LiskHQ/lisk-engine/pkg/blockchain"
	"github.com/LiskHQ/lisk-engine/pkg/collection/bytes"
	"github.com/LiskHQ/lisk-engine/pkg/event"
	"github.com/LiskHQ/lisk-engine/pkg/p2p"
)

// C09 (block gossip entry): the pubsub validator and the handler of the block topic are two sites that
// must agree — the handler panics on bytes it cannot decode and relies on the validator having refused
// them. For a valid block encoding (one transaction) with ONE byte at any position replaced by an
// arbitrary byte, or cut at any length: the validator returns a verdict without panicking, and whenever
// it accepts, the handler does not panic and hands the consensus loop exactly one block with the ID the
// bytes decode to.
//
//zz:opt loop=4000 require=accepted,rejected budget=600s conc=600
//zz:stub time.Now zzxStubNow
//zz:quick STEP=5
//zz:thorough STEP=1
func zzH_C09_block_gossip_entry(t *zzT) {
	n := zzxNewNode(t, 2, 1, 2)
	b := n.nextValid(1, []*blockchain.Transaction{zzxTx(4, "token")})
	raw := b.Encode()
	ex := &Executer{events: event.New(), processCh: make(chan *ProcessContext, 2), logger: zzxLogger{}}
	data := append([]byte{}, raw...)
	switch t.Choice("mutation", 3) {
	case 0: // unchanged
	case 1: // one byte replaced (positions in steps of STEP in the quick tier)
		step := t.Param("STEP", 1)
		pos := t.Range("pos", 0, (len(raw)-1)/step) * step
		data[pos] = t.U8("byte")
	default: // truncated
		data = data[:t.Range("cut", 0, (len(raw)-1)/t.Param("STEP", 1))*t.Param("STEP", 1)]
	}
	verdict := ex.blockValidator(context.Background(), &p2p.Message{Data: data})
	if verdict != p2p.ValidationAccept {
		t.Assert(verdict == p2p.ValidationReject, "a block the validator does not accept is rejected")
		t.Reach("rejected")
		return
	}
	ex.onBlockReceived(p2p.NewEvent("peer", P2PEventPostBlock, data))
	t.Assert(len(ex.processCh) == 1, "an accepted block is handed to the consensus loop once")
	if len(ex.processCh) == 1 {
		got := <-ex.processCh
		want, err := blockchain.NewBlock(data)
		t.Assert(err == nil && got.block != nil && bytes.Equal(got.block.Header.ID, want.Header.ID) && got.peerID == "peer", "the queued block is the decoded block, attributed to its sender")
	}
	t.Reach("accepted")
}
