//go:build verif

package consensus

import (
	"context"
	"time"

	"github.com/LiskHQ/lisk-engine/pkg/blockchain"
	"github.com/LiskHQ/lisk-engine/pkg/collection/bytes"
	"github.com/LiskHQ/lisk-engine/pkg/db"
	"github.com/LiskHQ/lisk-engine/pkg/p2p"
)

// Restart path of the consensus executer (C04 "... not by restart", C13 "the node restarts on a tip whose
// consensus state matches it").
//
// A real node (zzxNewNode: real chain / data access / liskBFT / processGenesisBlock / processValidated over
// the model database) is brought to a tip at which finality has been raised. Then a SECOND chain and a SECOND
// executer are built by the real constructors (blockchain.NewChain, NewExecuter, p2p.NewConnection) over the
// SAME database and the real (*Executer).Init runs on them, as engine.Start does after a process restart.
// The restarted chain has a smaller block cache than the chain is long, so that the blocks at and below the
// finalized height are served from the database and not from the cache Init filled.

// zzrStubTicker replaces time.NewTicker under the engine (Init creates the certificate ticker; nothing in
// these harnesses reads it).
func zzrStubTicker(d time.Duration) *time.Ticker { return &time.Ticker{} }

// zzrRestart: a new process on n's database. genesis is the genesis block the new process was configured with.
func zzrRestart(t *zzT, n *zzxNode, genesis *blockchain.Block, cache int) (*zzxNode, error) {
	r := &zzxNode{t: t, database: n.database, abi: n.abi, genesis: genesis, t0: n.t0, validatorsHash: n.validatorsHash}
	r.chain = blockchain.NewChain(&blockchain.ChainConfig{ChainID: zzxChainID, MaxTransactionsLength: 300, MaxBlockCache: cache, KeepEventsForHeights: -1})
	r.chain.Init(genesis, n.database)
	conn := p2p.NewConnection(zzxLogger{}, &p2p.Config{ChainID: zzxChainID, Version: "1.0", Addresses: []string{"/ip4/127.0.0.1/tcp/0"}})
	r.ex = NewExecuter(&ExecuterConfig{CTX: context.Background(), ABI: n.abi, Chain: r.chain, Conn: conn, BlockTime: zzxBlockTime, BatchSize: 4})
	r.chNew, r.chFinal, r.chDelete = make(chan interface{}, 8), make(chan interface{}, 8), make(chan interface{}, 8)
	r.ex.events.On(EventBlockNew, r.chNew)
	r.ex.events.On(EventBlockFinalize, r.chFinal)
	r.ex.events.On(EventBlockDelete, r.chDelete)
	err := r.ex.Init(&ExecuterInitParam{CTX: context.Background(), Logger: zzxLogger{}, Database: n.database, GenesisBlock: genesis})
	if !t.Symbolic() && r.ex.certificateTime != nil {
		r.ex.certificateTime.Stop()
	}
	return r, err
}

// zzrIDs: the block ID served for every height 0..top, by height and back by ID (nil = not served).
func zzrIDs(n *zzxNode, top uint32) [][]byte {
	out := make([][]byte, 0, top+1)
	for h := uint32(0); h <= top; h++ {
		bh, err := n.chain.DataAccess().GetBlockHeaderByHeight(h)
		if err != nil || bh == nil {
			out = append(out, nil)
			continue
		}
		byID, err := n.chain.DataAccess().GetBlockHeader(bh.ID)
		if err != nil || byID == nil || byID.Height != h {
			out = append(out, nil)
			continue
		}
		out = append(out, bh.ID)
	}
	return out
}

func zzrSameIDs(a, b [][]byte) bool {
	if len(a) != len(b) {
		return false
	}
	for i := range a {
		if a[i] == nil || b[i] == nil || !bytes.Equal(a[i], b[i]) {
			return false
		}
	}
	return true
}

// zzrRestore puts the database back to the contents `to`.
func zzrRestore(d *db.DB, to []db.KeyValue) {
	for _, kv := range db.ZZDump(d) {
		d.Del(kv.Key())
	}
	for _, kv := range to {
		d.Set(kv.Key(), kv.Value())
	}
}

type zzrOutcome struct {
	ok                   bool
	tipID                []byte
	tipHeight, fin       uint32
	mhp, mhpc, cert      uint32
	finalizeEv, newEv    int
	dump                 []db.KeyValue
}

func zzrApply(n *zzxNode, b *blockchain.Block) zzrOutcome {
	for len(n.chNew) > 0 {
		<-n.chNew
	}
	for len(n.chFinal) > 0 {
		<-n.chFinal
	}
	err := n.ex.processValidated(context.Background(), b, false, false)
	o := zzrOutcome{ok: err == nil}
	o.tipID, o.tipHeight = n.chain.LastBlock().Header.ID, n.chain.LastBlock().Header.Height
	o.fin, _ = n.chain.DataAccess().GetFinalizedHeight()
	o.mhp, o.mhpc, o.cert = n.heights()
	o.finalizeEv, o.newEv = len(n.chFinal), len(n.chNew)
	o.dump = db.ZZDump(n.database)
	return o
}

// C04 (restart) + C13 (restart on a matching tip): after a chain of `extra` blocks that raised finality, a
// second executer/chain initialised by the real Init over the same database
//   - reports the stored finalized height (never a lower one) — also when the stored value is ahead of what the
//     BFT state reports at the tip (a block that raised it was removed again before the restart),
//   - is on the pre-restart tip (ID and height), serves the unchanged block ID for every height at or below
//     the finalized height (and up to the tip), from the database,
//   - serves the same BFT heights (prevoted / precommitted / certified) for the next block, the same
//     Synced / HeaderHasPriority verdicts, and builds the same next block,
//   - leaves the database as it was (a restart on an intact database writes nothing),
//   - and processing one more valid block gives the same result as on the node that was not restarted:
//     verdict, tip, finalized height, BFT heights, events, database contents.
//
//zz:opt loop=80 lockdiscipline=off gor=64 require=restarted,finality-raised,next-block-same
//zz:stub time.Now zzxStubNow
//zz:stub time.NewTicker zzrStubTicker
//zz:quick extra=4 cache=2 budget=300s
//zz:thorough extra=5 cache=2 budget=30m
func zzH_C04_restart_keeps_finality(t *zzT) {
	extra := t.Param("extra", 3)
	n := zzxNewNode(t, 2, extra-1, 3)
	// the tip: with or without a payload (the restarted node reads it back from the database)
	var tipTxs []*blockchain.Transaction
	if t.Bool("tipHasTransaction") {
		tipTxs = append(tipTxs, zzxTx(4, "token"))
	}
	if err := n.ex.processValidated(context.Background(), n.nextValid(1, tipTxs), false, false); err != nil {
		t.Fail("setup: valid block rejected")
	}
	tip := n.chain.LastBlock().Header
	fin0, ferr := n.chain.DataAccess().GetFinalizedHeight()
	if ferr != nil {
		t.Fail("setup: finalized height not stored")
	}
	if fin0 > zzxGenesisH {
		t.Reach("finality-raised")
	}
	// the stored finalized height may be ahead of what the BFT state at the tip reports
	ahead := t.Range("finalizedAhead", 0, 2)
	t.Assume(fin0+uint32(ahead) <= tip.Height)
	fin0 += uint32(ahead)
	n.database.Set([]byte{27}, bytes.FromUint32(fin0))
	ids0 := zzrIDs(n, tip.Height)
	mhp0, mhpc0, cert0 := n.heights()
	next0 := n.nextValid(1, nil)
	qh, qp, qg := t.U32("query.height"), t.U32("query.maxHeightPrevoted"), t.U32("query.maxHeightGenerated")
	synced0, serr0 := n.ex.Synced(qh, qp, qg)
	prio0, perr0 := n.ex.HeaderHasPriority(n.store(), tip.Readonly(), qh, qp, qg)
	t.Assert(serr0 == nil && perr0 == nil, "Synced / HeaderHasPriority answer on a healthy node")
	t.Assert(synced0 == (qp < mhp0 || (qp == mhp0 && qh < tip.Height)), "Synced: the own chain is ahead of (height, maxHeightPrevoted) by the fork-choice order")
	before := db.ZZDump(n.database)
	db.ZZMonitorReset(n.database)

	// ---- restart ----
	r, err := zzrRestart(t, n, n.genesis, t.Param("cache", 2))
	t.Assert(err == nil, "restart: Init succeeds on an intact database with the stored genesis block")
	if err != nil {
		return
	}
	last := r.chain.LastBlock()
	t.Assert(last != nil, "restart: the node has a tip")
	if last == nil {
		return
	}
	t.Assert(bytes.Equal(last.Header.ID, tip.ID) && last.Header.Height == tip.Height, "restart: the tip (ID, height) is the pre-restart tip")
	t.Assert(len(last.Transactions) == len(tipTxs) && bytes.Equal(last.Encode(), n.chain.LastBlock().Encode()), "restart: the tip is the complete pre-restart block (header, payload, assets)")
	fin1, ferr1 := r.chain.DataAccess().GetFinalizedHeight()
	t.Assert(ferr1 == nil && fin1 >= fin0, "restart: the finalized height is not lowered")
	t.Assert(ferr1 == nil && fin1 == fin0, "restart: the finalized height reported is the stored one")
	ids1 := zzrIDs(r, tip.Height)
	t.Assert(zzrSameIDs(ids0[:fin0+1], ids1[:fin0+1]), "restart: the block ID served for every height at or below the finalized height is unchanged")
	t.Assert(zzrSameIDs(ids0, ids1), "restart: the block ID served for every height up to the tip is unchanged")
	mhp1, mhpc1, cert1, herr := r.ex.GetBFTHeights(r.store())
	t.Assert(herr == nil && mhp1 == mhp0 && mhpc1 == mhpc0 && cert1 == cert0, "restart: BFT heights (prevoted, precommitted, certified) served for the next block are unchanged")
	synced1, serr1 := r.ex.Synced(qh, qp, qg)
	prio1, perr1 := r.ex.HeaderHasPriority(r.store(), last.Header.Readonly(), qh, qp, qg)
	t.Assert(serr1 == nil && perr1 == nil && synced1 == synced0 && prio1 == prio0, "restart: Synced / HeaderHasPriority verdicts are unchanged")
	t.Assert(zzxDumpEqual(before, db.ZZDump(n.database)), "restart: Init on an intact database leaves the database unchanged")
	if writes, direct, _ := db.ZZMonitor(n.database); writes >= 0 {
		t.Assert(writes == 0 && direct == 0, "restart: Init on an intact database performs no durable write")
	}
	t.Assert(r.ex.blockSlot != nil && r.ex.syncer != nil && !r.ex.Syncing(), "restart: block slots and syncer are set up, the node is not syncing")
	if r.ex.blockSlot == nil {
		return
	}
	next1 := r.nextValid(1, nil)
	t.Assert(bytes.Equal(next1.Header.ID, next0.Header.ID), "restart: the next block built on the restarted node is the one the node would have built")
	ok, cerr := r.ex.liskBFT.API().IsHeaderContradictingChain(r.store(), next0.Header.Readonly())
	t.Assert(cerr == nil && !ok, "restart: the consensus store is at the tip (the valid successor does not contradict it)")
	t.ObserveU64("finalized", uint64(fin1))
	t.ObserveU64("tip", uint64(last.Header.Height))
	t.Reach("restarted")

	// ---- one more valid block: restarted node first, then (database put back) the node that kept running ----
	o1 := zzrApply(r, next0)
	zzrRestore(n.database, before)
	o0 := zzrApply(n, next0)
	t.Assert(o0.ok, "setup: the valid successor is accepted by the node that was not restarted")
	t.Assert(o1.ok == o0.ok, "after restart: the next valid block gets the same verdict as on the node that was not restarted")
	t.Assert(bytes.Equal(o1.tipID, o0.tipID) && o1.tipHeight == o0.tipHeight, "after restart: same tip after the next block")
	t.Assert(o1.fin == o0.fin, "after restart: same finalized height after the next block")
	t.Assert(o1.fin >= fin0, "after restart: the finalized height does not decrease with the next block")
	t.Assert(o1.mhp == o0.mhp && o1.mhpc == o0.mhpc && o1.cert == o0.cert, "after restart: same BFT heights after the next block")
	t.Assert(o1.finalizeEv == o0.finalizeEv && o1.newEv == o0.newEv, "after restart: same finalization / new-block events for the next block")
	t.Assert(t.Implies(o1.fin > fin0, o1.finalizeEv == 1) && t.Implies(o1.fin == fin0, o1.finalizeEv == 0), "after restart: a finalization event exactly for a raise")
	t.Assert(zzxDumpEqual(o1.dump, o0.dump), "after restart: same database contents after the next block")
	ids2 := zzrIDs(r, tip.Height)
	t.Assert(zzrSameIDs(ids0, ids2), "after restart: the next block replaces no earlier block")
	t.Reach("next-block-same")
}

// C13 "the node restarts on a tip whose consensus state matches it" (same obligation).
//
//zz:opt loop=80 lockdiscipline=off gor=64 require=restarted,finality-raised,next-block-same
//zz:stub time.Now zzxStubNow
//zz:stub time.NewTicker zzrStubTicker
//zz:quick extra=4 cache=2 budget=300s
//zz:thorough extra=5 cache=2 budget=30m
func zzH_C13_restart_tip_matches(t *zzT) { zzH_C04_restart_keeps_finality(t) }

// C04 (restart with another genesis block): GenesisBlockExist documents "returns true if matching genesis
// block exist" and reports a stored block of the same height with another ID as an error; Init hands the
// error on. A process started with a genesis block that differs from the stored one (timestamp or state
// root — same height) is therefore refused, and — the point for C04 — it has replaced or removed nothing:
// the database is byte for byte what it was, the finalized height and the ID served at every height
// included. The application is not asked to execute the foreign genesis block.
//
//zz:opt loop=80 lockdiscipline=off gor=64 require=refused,finality-raised
//zz:stub time.Now zzxStubNow
//zz:stub time.NewTicker zzrStubTicker
//zz:quick extra=4 cache=2 budget=300s
//zz:thorough extra=5 cache=2 budget=30m
func zzH_C04_restart_other_genesis_refused(t *zzT) {
	n := zzxNewNode(t, 2, t.Param("extra", 3), 2)
	tip := n.chain.LastBlock().Header
	fin0, _ := n.chain.DataAccess().GetFinalizedHeight()
	if fin0 > zzxGenesisH {
		t.Reach("finality-raised")
	}
	ids0 := zzrIDs(n, tip.Height)
	// another genesis block of the same height: one field differs (symbolic choice of which, symbolic value)
	gh := *n.genesis.Header
	which := t.Choice("genesis.differs", 2)
	if which == 0 {
		d := t.U32("genesis.timestamp")
		t.Assume(d != gh.Timestamp)
		gh.Timestamp = d
	} else {
		x := t.U8("genesis.stateRoot[0]")
		t.Assume(x != gh.StateRoot[0])
		gh.StateRoot = append([]byte{x}, gh.StateRoot[1:]...)
	}
	gh.Init()
	other := &blockchain.Block{Header: &gh, Transactions: []*blockchain.Transaction{}, Assets: []*blockchain.BlockAsset{}}
	t.Assume(!bytes.Equal(other.Header.ID, n.genesis.Header.ID)) // (hash model: different preimages may collide)
	n.abi.calls = nil
	before := db.ZZDump(n.database)
	db.ZZMonitorReset(n.database)
	r, err := zzrRestart(t, n, other, t.Param("cache", 2))
	t.Assert(err != nil, "restart with a genesis block other than the stored one is refused")
	t.Assert(zzxDumpEqual(before, db.ZZDump(n.database)), "refused restart leaves the database unchanged")
	if writes, direct, _ := db.ZZMonitor(n.database); writes >= 0 {
		t.Assert(writes == 0 && direct == 0, "refused restart performs no durable write")
	}
	fin1, ferr := n.chain.DataAccess().GetFinalizedHeight()
	t.Assert(ferr == nil && fin1 == fin0, "refused restart leaves the finalized height unchanged")
	// what a chain opened on the database serves afterwards
	t.Assert(zzrSameIDs(ids0, zzrIDs(r, tip.Height)), "refused restart: the block ID served for every height is unchanged")
	executed := false
	for _, c := range n.abi.calls {
		if c == "InitGenesisState" || c == "Commit" {
			executed = true
		}
	}
	t.Assert(!executed, "refused restart: the application does not execute the foreign genesis block")
	t.Reach("refused")
}

// C04 / C13 over a whole life that goes through Init only: the first start on an EMPTY database (Init processes
// the genesis block; the application may refuse it once: then the database stays empty and the next start
// begins again), `extra` blocks applied on the node Init built, then a restart:
//   - the first start stores the genesis block with the genesis height as finalized height in one write,
//   - the finalized height never decreases from block to block,
//   - the restart does not execute the genesis block again (that would reset the BFT state and the stored
//     finalized height to the genesis height) and reports the same tip, finalized height, block IDs, BFT heights.
//
//zz:opt loop=80 lockdiscipline=off gor=64 require=first-start,finality-raised,restarted
//zz:stub time.Now zzxStubNow
//zz:stub time.NewTicker zzrStubTicker
//zz:quick extra=4 cache=2 budget=300s
//zz:thorough extra=6 cache=3 budget=30m
func zzH_C04_restart_from_first_start(t *zzT) {
	extra := t.Param("extra", 4)
	zzxSkipGenesis = true
	n := zzxNewNode(t, 2, 0, extra+2)
	zzxSkipGenesis = false
	cache := t.Param("cache", 2)
	// first start; the application may refuse the genesis block once
	fails := []int{0, 1, 7} // none, InitStateMachine, Commit (indexes of zzxABISteps)
	fi := fails[t.Choice("genesis.abiFailure", len(fails))]
	n.abi.failIdx, n.abi.failOnce = fi, true
	db.ZZMonitorReset(n.database)
	r, err := zzrRestart(t, n, n.genesis, cache)
	if fi != 0 {
		t.Assert(err != nil, "first start: a genesis block the application refuses is reported")
		t.Assert(len(db.ZZDump(n.database)) == 0, "first start: a refused genesis block leaves the database empty")
		db.ZZMonitorReset(n.database)
		r, err = zzrRestart(t, n, n.genesis, cache)
	}
	t.Assert(err == nil, "first start: Init succeeds on an empty database")
	if err != nil || r.chain.LastBlock() == nil {
		t.Assert(err != nil, "first start: the node has a tip")
		return
	}
	if writes, direct, _ := db.ZZMonitor(n.database); writes >= 0 {
		t.Assert(writes == 1 && direct == 0, "first start: the genesis block is stored by exactly one atomic write")
	}
	fin, ferr := r.chain.DataAccess().GetFinalizedHeight()
	t.Assert(ferr == nil && fin == zzxGenesisH, "first start: the genesis height is the finalized height")
	t.Assert(bytes.Equal(r.chain.LastBlock().Header.ID, n.genesis.Header.ID), "first start: the genesis block is the tip")
	t.Reach("first-start")
	// the chain grows on the node Init built
	for i := 0; i < extra; i++ {
		if err := r.ex.processValidated(context.Background(), r.nextValid(1, nil), false, false); err != nil {
			t.Fail("setup: valid block rejected by the node built by Init")
		}
		f, ferr := r.chain.DataAccess().GetFinalizedHeight()
		t.Assert(ferr == nil && f >= fin, "finalized height never decreases from block to block")
		fin = f
	}
	if fin > zzxGenesisH {
		t.Reach("finality-raised")
	}
	tip := r.chain.LastBlock().Header
	ids0 := zzrIDs(r, tip.Height)
	mhp0, mhpc0, cert0 := r.heights()
	before := db.ZZDump(n.database)
	n.abi.calls = nil
	// restart
	r2, err := zzrRestart(t, r, n.genesis, cache)
	t.Assert(err == nil, "restart: Init succeeds on an intact database with the stored genesis block")
	if err != nil || r2.chain.LastBlock() == nil {
		t.Assert(err != nil, "restart: the node has a tip")
		return
	}
	executed := false
	for _, c := range n.abi.calls {
		if c == "InitGenesisState" || c == "Commit" || c == "InitStateMachine" {
			executed = true
		}
	}
	t.Assert(!executed, "restart: the genesis block is not executed again")
	fin2, ferr2 := r2.chain.DataAccess().GetFinalizedHeight()
	t.Assert(ferr2 == nil && fin2 == fin, "restart: the finalized height reported is the stored one")
	t.Assert(bytes.Equal(r2.chain.LastBlock().Header.ID, tip.ID), "restart: the tip (ID, height) is the pre-restart tip")
	t.Assert(zzrSameIDs(ids0, zzrIDs(r2, tip.Height)), "restart: the block ID served for every height up to the tip is unchanged")
	mhp1, mhpc1, cert1 := r2.heights()
	t.Assert(mhp1 == mhp0 && mhpc1 == mhpc0 && cert1 == cert0, "restart: BFT heights (prevoted, precommitted, certified) served for the next block are unchanged")
	t.Assert(zzxDumpEqual(before, db.ZZDump(n.database)), "restart: Init on an intact database leaves the database unchanged")
	t.ObserveU64("finalized", uint64(fin2))
	t.Reach("restarted")
}
