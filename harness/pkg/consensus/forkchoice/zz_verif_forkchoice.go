//go:build verif

package forkchoice

import (
	"time"

	"github.com/LiskHQ/lisk-engine/pkg/blockchain"
	"github.com/LiskHQ/lisk-engine/pkg/consensus/validator"
)

var zzfNow int64

func zzfStubNow() time.Time { return time.Unix(zzfNow, 0) }

// C07.d: fork-choice classification equals the LIP-0014 table (DESIGN App. B.2) on
// (maxHeightPrevoted, height, previousBlockID, generator, slots, receive times), and the
// "different chain" relation is the strict lexicographic order on (maxHeightPrevoted, height).
//
//zz:opt loop=16
//zz:stub time.Now zzfStubNow
func zzH_C07_forkchoice_classification(t *zzT) {
	const blockTime = 10
	t0 := uint32(1700000000)
	if !t.Symbolic() {
		t0 = uint32(time.Now().Unix()) - 100
	}
	slot := validator.NewBlockSlot(t0, blockTime)
	id := func(name string) []byte { return []byte{t.U8(name)} }
	// header timestamps need not be slot-aligned: an offset inside the slot (seed C07-11 compared raw
	// timestamps instead of slot numbers — only visible with two timestamps inside one slot)
	offs := []uint32{0, 3, blockTime - 1}
	lastOff := offs[t.Choice("last.offset", 3)]
	curOff := offs[t.Choice("cur.offset", 3)]
	last := &blockchain.BlockHeader{ID: id("last.id"), Height: t.U32("last.h"), MaxHeightPrevoted: t.U32("last.mhp"),
		PreviousBlockID: id("last.prev"), GeneratorAddress: id("last.gen"), Timestamp: t0 + uint32(t.Range("last.slot", 0, 2))*blockTime + lastOff}
	cur := &blockchain.BlockHeader{ID: id("cur.id"), Height: t.U32("cur.h"), MaxHeightPrevoted: t.U32("cur.mhp"),
		PreviousBlockID: id("cur.prev"), GeneratorAddress: id("cur.gen"), Timestamp: t0 + uint32(t.Range("cur.slot", 0, 2))*blockTime + curOff}
	// receive times: slot index of "now" and of the last block's reception (or never: synced)
	nowSlot := t.Range("now.slot", 0, 3)
	lastRecvKind := t.Range("lastRecv", 0, 3) // 3 = nil (from sync)
	var lastRecv *time.Time
	if lastRecvKind < 3 {
		x := time.Unix(int64(t0)+int64(lastRecvKind*blockTime)+1, 0)
		lastRecv = &x
	}
	if t.Symbolic() {
		zzfNow = int64(t0) + int64(nowSlot*blockTime) + 1
	} else {
		// natively time.Now is real: choose the genesis time so that now falls into nowSlot
		nt0 := uint32(time.Now().Unix()) - uint32(nowSlot*blockTime) - 1
		shift := nt0 - t0
		t0 = nt0
		slot = validator.NewBlockSlot(t0, blockTime)
		last.Timestamp += shift
		cur.Timestamp += shift
		if lastRecv != nil {
			x := lastRecv.Add(time.Duration(shift) * time.Second)
			lastRecv = &x
		}
	}
	fc, err := NewForkChoice(last, cur, slot, lastRecv)
	t.Assert(err == nil, "fork choice constructed")
	sl := func(ts uint32) int { return int((ts - t0) / blockTime) }
	identical := last.ID[0] == cur.ID[0]
	valid := last.Height+1 == cur.Height && last.ID[0] == cur.PreviousBlockID[0]
	dup := last.Height == cur.Height && last.MaxHeightPrevoted == cur.MaxHeightPrevoted && last.PreviousBlockID[0] == cur.PreviousBlockID[0]
	double := dup && last.GeneratorAddress[0] == cur.GeneratorAddress[0]
	lastInSlot := lastRecv == nil || lastRecvKind == sl(last.Timestamp)
	curInSlot := nowSlot == sl(cur.Timestamp)
	tie := dup && sl(last.Timestamp) < sl(cur.Timestamp) && !lastInSlot && curInSlot
	diff := last.MaxHeightPrevoted < cur.MaxHeightPrevoted || (last.MaxHeightPrevoted == cur.MaxHeightPrevoted && last.Height < cur.Height)
	t.Assert(fc.IsIdenticalBlock() == identical, "identical block <=> same ID")
	t.Assert(fc.IsValidBlock() == valid, "valid successor <=> height+1 and previous ID = tip ID")
	t.Assert(fc.IsDoubleForging() == double, "double forging <=> duplicate position by the same generator")
	t.Assert(fc.IsTieBreak() == tie, "tie break <=> duplicate position, later slot, tip not received in its slot, new block received in its slot")
	t.Assert(fc.IsDifferentChain() == diff, "different chain <=> larger (maxHeightPrevoted, height) lexicographically")
	// strict order
	t.Assert(!(IsDifferentChain(last.MaxHeightPrevoted, cur.MaxHeightPrevoted, last.Height, cur.Height) &&
		IsDifferentChain(cur.MaxHeightPrevoted, last.MaxHeightPrevoted, cur.Height, last.Height)), "the priority relation is antisymmetric")
	t.Reach("end")
}
