//go:build verif

package consensus

import (
	"context"
	"encoding/hex"
	"errors"
	"time"

	"github.com/LiskHQ/lisk-engine/pkg/blockchain"
	"github.com/LiskHQ/lisk-engine/pkg/collection/bytes"
	"github.com/LiskHQ/lisk-engine/pkg/consensus/liskbft"
	"github.com/LiskHQ/lisk-engine/pkg/consensus/validator"
	"github.com/LiskHQ/lisk-engine/pkg/crypto"
	"github.com/LiskHQ/lisk-engine/pkg/db"
	"github.com/LiskHQ/lisk-engine/pkg/db/diffdb"
	"github.com/LiskHQ/lisk-engine/pkg/event"
	"github.com/LiskHQ/lisk-engine/pkg/labi"
	"github.com/LiskHQ/lisk-engine/pkg/log"
	"github.com/LiskHQ/lisk-engine/pkg/trie/rmt"
)

// Executer harness environment (C03 / C04 / C05.d / C13).
//
// A real node is assembled from the real constructors: chain, data access, liskBFT module, event
// emitter, and a database that is the pebble in-memory DB natively and the sorted-list model of
// harness/pkg/db/zz_verif_model_db.go symbolically. The application (labi.ABI) is a scripted fake.
// The chain is brought to height genesis+1 by the REAL processGenesisBlock / processValidated (all
// inputs concrete: one path), then one step with symbolic deviations is examined.

type zzxLogger struct{}

func (zzxLogger) Debug(msg string, others ...interface{})    {}
func (zzxLogger) Info(msg string, others ...interface{})     {}
func (zzxLogger) Error(msg string, others ...interface{})    {}
func (zzxLogger) Debugf(msg string, others ...interface{})   {}
func (zzxLogger) Infof(msg string, others ...interface{})    {}
func (zzxLogger) Errorf(msg string, others ...interface{})   {}
func (zzxLogger) Warning(msg string, others ...interface{})  {}
func (zzxLogger) Warningf(msg string, others ...interface{}) {}
func (l zzxLogger) With(kv ...interface{}) log.Logger        { return l }

func zzxHex(s string) []byte { b, _ := hex.DecodeString(s); return b }

var (
	zzxPriv = [][]byte{
		zzxHex("8d1c4e0d9a6cc39b1c77a74cdd850d1226ee75144db857ad0ad194ec8b310c49d77ea0b516d425835e478ca11a2b496b6171babcdee5e906451aae4bbf2f7039"),
		zzxHex("c0707b24991eb8e6fafc1c35cdd90c7666c1df4eaac4a4437f0fa0462fafdc8fd06647fa7ff46643667b49934d05c79e6da7fd0be189d833d95d086fa51a1ff9"),
	}
	zzxPub = [][]byte{
		zzxHex("d77ea0b516d425835e478ca11a2b496b6171babcdee5e906451aae4bbf2f7039"),
		zzxHex("d06647fa7ff46643667b49934d05c79e6da7fd0be189d833d95d086fa51a1ff9"),
	}
	zzxAddr = [][]byte{
		zzxHex("5c3eb552a8961b2784d24198121db7dc05fb64fb"),
		zzxHex("c05e0344a337df559e6e57d7dac5d1a86897d953"),
	}
	zzxChainID = []byte{0, 0, 0, 9}
)

const (
	zzxBlockTime   = 10
	zzxSymbolicT0  = 1700000000 // genesis timestamp used under the engine (natively derived from the wall clock)
)

// zzxGenesisH: height of the genesis block of the nodes zzxNewNode builds (0 unless a harness about non-zero
// genesis heights sets it before building its node).
var zzxGenesisH uint32

// zzxSkipGenesis: zzxNewNode returns before it processes the genesis block.
var zzxSkipGenesis bool

// zzxNowVal is what the stubbed time.Now returns under the engine.
var zzxNowVal int64

func zzxStubNow() time.Time { return time.Unix(zzxNowVal, 0) }

// ---- scripted application ----

type zzxABI struct {
	calls        []string
	failAt       string // method that returns an error ("" = none)
	failIdx      int    // same, as an index into zzxABISteps (may be symbolic: compared lazily)
	failOnce     bool   // the scripted failure fires once (the application is deterministic per block: a block that
	                    // executed before executes again — used when a step re-applies an earlier block)
	verifyResult int32
	validators   []*labi.Validator
	pre, cert    uint64
	writesAtCommit, writesAtRevert int
	database     *db.DB
	commits, reverts int
	commitsOK int // Commit calls that succeeded
	commitExpected []byte
	events       []*blockchain.Event // returned by AfterTransactionsExecute
	eventsBefore, eventsTx []*blockchain.Event // returned by BeforeTransactionsExecute / every ExecuteTransaction
}

var zzxErr = errors.New("zzx: scripted application failure")

var zzxABISteps = []string{"", "InitStateMachine", "VerifyAssets", "BeforeTransactionsExecute", "VerifyTransaction", "ExecuteTransaction", "AfterTransactionsExecute", "Commit"}

func (a *zzxABI) step(name string) error {
	a.calls = append(a.calls, name)
	if a.failAt == name {
		return zzxErr
	}
	for i, s := range zzxABISteps {
		if i > 0 && s == name && a.failIdx == i {
			if a.failOnce {
				a.failIdx = 0
			}
			return zzxErr
		}
	}
	return nil
}
func (a *zzxABI) Init(req *labi.InitRequest) (*labi.InitResponse, error) {
	return &labi.InitResponse{}, a.step("Init")
}
func (a *zzxABI) InitStateMachine(req *labi.InitStateMachineRequest) (*labi.InitStateMachineResponse, error) {
	if err := a.step("InitStateMachine"); err != nil {
		return nil, err
	}
	return &labi.InitStateMachineResponse{ContextID: []byte{1}}, nil
}
func (a *zzxABI) InitGenesisState(req *labi.InitGenesisStateRequest) (*labi.InitGenesisStateResponse, error) {
	if err := a.step("InitGenesisState"); err != nil {
		return nil, err
	}
	return &labi.InitGenesisStateResponse{PreCommitThreshold: a.pre, CertificateThreshold: a.cert, NextValidators: a.validators}, nil
}
func (a *zzxABI) InsertAssets(req *labi.InsertAssetsRequest) (*labi.InsertAssetsResponse, error) {
	return &labi.InsertAssetsResponse{}, a.step("InsertAssets")
}
func (a *zzxABI) VerifyAssets(req *labi.VerifyAssetsRequest) (*labi.VerifyAssetsResponse, error) {
	if err := a.step("VerifyAssets"); err != nil {
		return nil, err
	}
	return &labi.VerifyAssetsResponse{}, nil
}
func (a *zzxABI) BeforeTransactionsExecute(req *labi.BeforeTransactionsExecuteRequest) (*labi.BeforeTransactionsExecuteResponse, error) {
	if err := a.step("BeforeTransactionsExecute"); err != nil {
		return nil, err
	}
	return &labi.BeforeTransactionsExecuteResponse{Events: a.eventsBefore}, nil
}
func (a *zzxABI) AfterTransactionsExecute(req *labi.AfterTransactionsExecuteRequest) (*labi.AfterTransactionsExecuteResponse, error) {
	if err := a.step("AfterTransactionsExecute"); err != nil {
		return nil, err
	}
	return &labi.AfterTransactionsExecuteResponse{Events: a.events}, nil
}
func (a *zzxABI) VerifyTransaction(req *labi.VerifyTransactionRequest) (*labi.VerifyTransactionResponse, error) {
	if err := a.step("VerifyTransaction"); err != nil {
		return nil, err
	}
	return &labi.VerifyTransactionResponse{Result: a.verifyResult}, nil
}
func (a *zzxABI) ExecuteTransaction(req *labi.ExecuteTransactionRequest) (*labi.ExecuteTransactionResponse, error) {
	// like the real in-process application (framework.ABIHandler.ExecuteTransaction) the scripted one READS the
	// consensus parameters of the request: an engine that leaves them out crashes here (defect found on the real
	// handler by zzH_C16_abi_exec_engine_request)
	_ = req.Consensus.ImplyMaxPrevote
	if err := a.step("ExecuteTransaction"); err != nil {
		return nil, err
	}
	return &labi.ExecuteTransactionResponse{Result: labi.TxExecuteResultSuccess, Events: a.eventsTx}, nil
}
func (a *zzxABI) Commit(req *labi.CommitRequest) (*labi.CommitResponse, error) {
	a.commits++
	a.commitExpected = req.ExpectedStateRoot
	a.writesAtCommit, _, _ = db.ZZMonitor(a.database)
	if err := a.step("Commit"); err != nil {
		return nil, err
	}
	a.commitsOK++
	return &labi.CommitResponse{StateRoot: req.ExpectedStateRoot}, nil
}
func (a *zzxABI) Revert(req *labi.RevertRequest) (*labi.RevertResponse, error) {
	a.reverts++
	a.writesAtRevert, _, _ = db.ZZMonitor(a.database)
	if err := a.step("Revert"); err != nil {
		return nil, err
	}
	return &labi.RevertResponse{StateRoot: req.ExpectedStateRoot}, nil
}
func (a *zzxABI) Clear(req *labi.ClearRequest) (*labi.ClearResponse, error) {
	return &labi.ClearResponse{}, nil
}
func (a *zzxABI) Finalize(req *labi.FinalizeRequest) (*labi.FinalizeResponse, error) {
	return &labi.FinalizeResponse{}, nil
}
func (a *zzxABI) GetMetadata(req *labi.MetadataRequest) (*labi.MetadataResponse, error) {
	return &labi.MetadataResponse{}, nil
}
func (a *zzxABI) Query(req *labi.QueryRequest) (*labi.QueryResponse, error) {
	return &labi.QueryResponse{}, nil
}
func (a *zzxABI) Prove(req *labi.ProveRequest) (*labi.ProveResponse, error) {
	return &labi.ProveResponse{}, nil
}

// ---- node ----

type zzxNode struct {
	t        *zzT
	ex       *Executer
	database *db.DB
	chain    *blockchain.Chain
	abi      *zzxABI
	genesis  *blockchain.Block
	t0       uint32
	chNew, chFinal, chDelete chan interface{}
	validatorsHash []byte
}

func (n *zzxNode) store() *diffdb.Database {
	return diffdb.New(n.database, blockchain.DBPrefixToBytes(blockchain.DBPrefixState))
}

// zzxNewNode builds a node whose chain is genesis (height zzxGenesisH) + `extra` valid blocks
// generated round-robin by nvals validators. slotsAhead = how many slots the wall clock is ahead of
// the tip when the step under test runs (natively realised by choosing the genesis timestamp).
func zzxNewNode(t *zzT, nvals, extra int, slotsAhead int) *zzxNode {
	n := &zzxNode{t: t}
	totalSlots := extra + slotsAhead
	if t.Symbolic() {
		n.t0 = zzxSymbolicT0
		zzxNowVal = int64(n.t0) + int64(totalSlots*zzxBlockTime) + 3
	} else {
		n.t0 = uint32(time.Now().Unix()) - uint32(totalSlots*zzxBlockTime) - 3
	}
	database, err := db.NewInMemoryDB()
	if err != nil {
		t.Fail("cannot create database")
	}
	n.database = database
	n.abi = &zzxABI{database: database, verifyResult: labi.TxVerifyResultOk}
	for i := 0; i < nvals; i++ {
		n.abi.validators = append(n.abi.validators, &labi.Validator{Address: zzxAddr[i], BFTWeight: 1, GeneratorKey: zzxPub[i], BLSKey: []byte{byte(0x10 + i)}})
	}
	n.abi.pre, n.abi.cert = uint64(nvals), uint64(nvals)
	// validators hash as the BFT module will compute it
	hv := make([]validator.HashValidator, nvals)
	bftVals, _ := liskbft.GetBFTValidatorAndGenerators(n.abi.validators)
	for i, v := range bftVals {
		hv[i] = v
	}
	n.validatorsHash, _ = validator.ComputeValidatorsHash(hv, n.abi.cert)

	gh := &blockchain.BlockHeader{Version: 0, Timestamp: n.t0, Height: zzxGenesisH, PreviousBlockID: bytes.Repeat([]byte{0}, 32),
		GeneratorAddress: bytes.Repeat([]byte{0}, 20), TransactionRoot: crypto.Hash([]byte{}), AssetRoot: rmt.CalculateRoot([][]byte{}),
		EventRoot: crypto.Hash([]byte{}), StateRoot: bytes.Repeat([]byte{7}, 32), ValidatorsHash: n.validatorsHash,
		AggregateCommit: &blockchain.AggregateCommit{Height: 0, AggregationBits: []byte{}, CertificateSignature: []byte{}}, Signature: []byte{}}
	gh.Init()
	n.genesis = &blockchain.Block{Header: gh, Transactions: []*blockchain.Transaction{}, Assets: []*blockchain.BlockAsset{}}
	n.chain = blockchain.NewChain(&blockchain.ChainConfig{ChainID: zzxChainID, MaxTransactionsLength: 300, MaxBlockCache: 5, KeepEventsForHeights: -1})
	n.chain.Init(n.genesis, database)
	n.ex = &Executer{
		blockTime: zzxBlockTime, batchSize: 4, abi: n.abi, chain: n.chain, liskBFT: liskbft.NewModule(),
		ctx: context.Background(), database: database, logger: zzxLogger{}, events: event.New(),
		blockSlot: validator.NewBlockSlot(n.t0, zzxBlockTime),
	}
	if err := n.ex.liskBFT.Init(4); err != nil {
		t.Fail("liskBFT init")
	}
	if zzxSkipGenesis {
		// (the genesis step itself is under test: the caller runs it)
		db.ZZMonitorReset(database)
		n.abi.calls = nil
		n.abi.commits, n.abi.reverts = 0, 0
		return n
	}
	if err := n.ex.processGenesisBlock(&ProcessContext{ctx: context.Background(), block: n.genesis}); err != nil {
		t.Fail("setup: genesis block rejected")
	}
	for i := 0; i < extra; i++ {
		b := n.nextValid(1, nil)
		if err := n.ex.processValidated(context.Background(), b, false, false); err != nil {
			t.Fail("setup: valid block rejected")
		}
	}
	n.chNew, n.chFinal, n.chDelete = make(chan interface{}, 8), make(chan interface{}, 8), make(chan interface{}, 8)
	n.ex.events.On(EventBlockNew, n.chNew)
	n.ex.events.On(EventBlockFinalize, n.chFinal)
	n.ex.events.On(EventBlockDelete, n.chDelete)
	db.ZZMonitorReset(database)
	n.abi.calls = nil
	n.abi.commits, n.abi.reverts = 0, 0
	return n
}

func (n *zzxNode) heights() (uint32, uint32, uint32) {
	p, c, f, err := n.ex.liskBFT.API().GetBFTHeights(n.store())
	if err != nil {
		n.t.Fail("cannot read BFT heights")
	}
	return p, c, f
}

// generator index expected for the slot `slots` after the tip
func (n *zzxNode) slotOf(ts uint32) int { return n.ex.blockSlot.GetSlotNumber(ts) }

// nextValid builds a fully valid successor of the tip, `slots` slots after it, signed by the
// generator of that slot.
func (n *zzxNode) nextValid(slots int, txs []*blockchain.Transaction) *blockchain.Block {
	tip := n.chain.LastBlock().Header
	ts := tip.Timestamp + uint32(slots*zzxBlockTime)
	nv := len(n.abi.validators)
	gi := n.slotOf(ts) % nv
	mhp, _, cert := n.heights()
	ids := make([][]byte, len(txs))
	for i, tx := range txs {
		ids[i] = tx.ID
	}
	h := &blockchain.BlockHeader{Version: 2, Timestamp: ts, Height: tip.Height + 1, PreviousBlockID: tip.ID, GeneratorAddress: zzxAddr[gi],
		TransactionRoot: rmt.CalculateRoot(ids), AssetRoot: rmt.CalculateRoot([][]byte{}), EventRoot: crypto.Hash([]byte{}),
		StateRoot: bytes.Repeat([]byte{byte(tip.Height + 1)}, 32), MaxHeightPrevoted: mhp, MaxHeightGenerated: 0, ValidatorsHash: n.validatorsHash,
		AggregateCommit: &blockchain.AggregateCommit{Height: cert, AggregationBits: []byte{}, CertificateSignature: []byte{}}}
	// maxHeightGenerated: last height generated by this validator on this chain (0 if none)
	for hh := tip.Height; hh > zzxGenesisH; hh-- {
		bh, err := n.chain.DataAccess().GetBlockHeaderByHeight(hh)
		if err == nil && bytes.Equal(bh.GeneratorAddress, zzxAddr[gi]) {
			h.MaxHeightGenerated = hh
			break
		}
	}
	h.Sign(zzxChainID, zzxPriv[gi])
	return &blockchain.Block{Header: h, Transactions: txs, Assets: []*blockchain.BlockAsset{}}
}

func (n *zzxNode) drained(ch chan interface{}) int { return len(ch) }

func zzxDumpEqual(a, b []db.KeyValue) bool {
	if len(a) != len(b) {
		return false
	}
	for i := range a {
		if !bytes.Equal(a[i].Key(), b[i].Key()) || !bytes.Equal(a[i].Value(), b[i].Value()) {
			return false
		}
	}
	return true
}
