//go:build verif

package consensus

import (
	stdbytes "bytes"
	"math/bits"

	"github.com/LiskHQ/lisk-engine/pkg/blockchain"
	"github.com/LiskHQ/lisk-engine/pkg/consensus/certificate"
)

// C06.a: height window of verifyAggregateCommit.
//
// Symbolic (full 32 bit): commit height, maxHeightCertified, maxHeightPrecommited, existence and
// height of a later BFT-parameter record; emptiness of bits / signature; the aggregate signature is
// an arbitrary token of the algebraic BLS model (one validator, weight 1, threshold 1), so the BLS
// verdict is free. Asserted: accept => (empty and height = certified) or (certified < height <=
// precommitted, and height <= nextParamsHeight-1 where nextParamsHeight is the first height above
// certified+1 with stored BFT parameters, LIP-0061).
//
//zz:opt loop=24 require=accepted,accepted-empty,rejected
//zz:stub (*~/pkg/consensus/liskbft.API).GetBFTHeights zz06StubGetBFTHeights
//zz:stub (*~/pkg/consensus/liskbft.API).NextHeightBFTParameters zz06StubNextHeightBFTParameters
//zz:stub (*~/pkg/consensus/liskbft.API).GetBFTParameters zz06StubGetBFTParameters
//zz:stub (*~/pkg/consensus/liskbft.BFTParams).Validators zz06StubValidators
//zz:stub (*~/pkg/consensus/liskbft.BFTParams).CertificateThreshold zz06StubCertificateThreshold
//zz:stub (*~/pkg/blockchain.DataAccess).GetBlockHeaderByHeight zz06StubGetBlockHeaderByHeight
//zz:stub (*github.com/supranational/blst/bindings/go.P1Affine).Uncompress zz06StubP1Uncompress
//zz:stub (*github.com/supranational/blst/bindings/go.P2Affine).Uncompress zz06StubP2Uncompress
//zz:stub (*github.com/supranational/blst/bindings/go.P2Affine).FastAggregateVerify zz06StubFastAggregateVerify
func zzH_C06_commit_height_window(t *zzT) {
	e := zz06NewEnv(t, 1, []byte{1})
	e.certified = t.U32("maxHeightCertified")
	e.precommitted = t.U32("maxHeightPrecommited")
	e.prevoted = e.precommitted
	e.hasNext = t.Bool("nextParams.exists")
	e.nextH = t.U32("nextParams.height")
	t.Assume(e.certified < 1<<32-2 && e.nextH >= 1)
	e.setParams(e.setA, 1, []uint64{1})
	e.setParams(e.setB, 1, []uint64{1})
	h := t.U32("commit.height")
	e.install(h)

	e.bls.msg = zz06CertMsg(e.header(h), e.chainID)
	bitsLen := t.Choice("bits.len", 2)
	sig := []byte{}
	sigEmpty := t.Bool("signature.empty")
	if !sigEmpty {
		c := t.U8("sig.count")
		t.Assume(c <= 2)
		sig = e.bls.token(t.U8("sig.tag"), []byte{c})
	}
	ac := &blockchain.AggregateCommit{Height: h, AggregationBits: t.Bytes("bits", bitsLen), CertificateSignature: sig}

	err := e.ex.verifyAggregateCommit(e.store, ac)
	if err != nil {
		t.Reach("rejected")
		return
	}
	if bitsLen == 0 && sigEmpty {
		t.Assert(h == e.certified, "accepted empty aggregate commit is at maxHeightCertified")
		t.Reach("accepted-empty")
		return
	}
	t.Assert(bitsLen > 0 && !sigEmpty, "accepted non-empty aggregate commit has bits and signature")
	t.Assert(t.And(h > e.certified, h <= e.precommitted), "accepted aggregate commit: maxHeightCertified < height <= maxHeightPrecommited")
	nextApplies := t.And(e.hasNext, e.nextH > e.certified+1)
	t.Assert(t.Or(!nextApplies, h <= e.nextH-1), "accepted aggregate commit: height not beyond the block preceding the next BFT parameter change")
	t.Reach("accepted")
}

// C06.b at the level of verifyAggregateCommit: weights, threshold and bit positions.
//
// n <= 3 validators with symbolic relative BLS-key order, symbolic weights (full 64 bit) and
// thresholds for two parameter sets (set B in force from height 4 or - thorough tier - only from
// height 7; the commit is at height 5; quick tier: n = 3 only), symbolic bitmap of 0..2 bytes, arbitrary signature token, the signed certificate may
// differ from the node's own block (block ID byte) or chain ID. Asserted: accept => the validators
// flagged in ascending-key order (LIP-0061) carry weight >= the threshold of the parameters in force
// at the commit height, the signers are exactly the flagged validators, and what was signed is the
// certificate of the node's own block under the node's chain ID.
//
//zz:opt loop=24 require=accepted,rejected
//zz:quick NMIN=3 N=3 BAT=1
//zz:thorough NMIN=1 N=3 BAT=2 budget=900s
//zz:stub (*~/pkg/consensus/liskbft.API).GetBFTHeights zz06StubGetBFTHeights
//zz:stub (*~/pkg/consensus/liskbft.API).NextHeightBFTParameters zz06StubNextHeightBFTParameters
//zz:stub (*~/pkg/consensus/liskbft.API).GetBFTParameters zz06StubGetBFTParameters
//zz:stub (*~/pkg/consensus/liskbft.BFTParams).Validators zz06StubValidators
//zz:stub (*~/pkg/consensus/liskbft.BFTParams).CertificateThreshold zz06StubCertificateThreshold
//zz:stub (*~/pkg/blockchain.DataAccess).GetBlockHeaderByHeight zz06StubGetBlockHeaderByHeight
//zz:stub (*github.com/supranational/blst/bindings/go.P1Affine).Uncompress zz06StubP1Uncompress
//zz:stub (*github.com/supranational/blst/bindings/go.P2Affine).Uncompress zz06StubP2Uncompress
//zz:stub (*github.com/supranational/blst/bindings/go.P2Affine).FastAggregateVerify zz06StubFastAggregateVerify
func zzH_C06_commit_weights(t *zzT) {
	n := t.Range("n", t.Param("NMIN", 3), t.Param("N", 3))
	order := make([]byte, n)
	for i := range order {
		order[i] = t.U8(t.Name("key", i))
	}
	e := zz06NewEnv(t, n, order)
	e.certified, e.precommitted, e.prevoted = 3, 9, 9
	e.hasNext = true
	e.nextH = uint32(4 + 3*t.Choice("setB.at", t.Param("BAT", 1))) // 4: in force at the commit height; 7: not yet
	const h = 5
	wA, wB := make([]uint64, n), make([]uint64, n)
	for i := 0; i < n; i++ {
		wA[i] = t.U64(t.Name("setA.weight", i))
		wB[i] = t.U64(t.Name("setB.weight", i))
	}
	e.setParams(e.setA, t.U64("setA.threshold"), wA)
	e.setParams(e.setB, t.U64("setB.threshold"), wB)
	e.ownID[0] = t.U8("own.blockID")
	e.install(h)

	signed := e.header(h)
	signed.ID = append([]byte{t.U8("signed.blockID")}, e.ownID[1:]...)
	signedChain := []byte{0, 0, 0, t.U8("signed.chainID")}
	e.bls.msg = zz06CertMsg(signed, signedChain)
	tag := t.U8("sig.tag")
	counts := make([]byte, n)
	for i := range counts {
		counts[i] = t.U8(t.Name("sig.count", i))
		t.Assume(counts[i] <= 2)
	}
	bitmap := t.Bytes("bitmap", t.Range("bitmap.len", 0, 2))
	ac := &blockchain.AggregateCommit{Height: h, AggregationBits: bitmap, CertificateSignature: e.bls.token(tag, counts)}

	err := e.ex.verifyAggregateCommit(e.store, ac)
	if err != nil {
		t.Reach("rejected")
		return
	}
	p := e.paramsAt(h)
	var lo, hi uint64
	exact := tag == 1
	for i := 0; i < n; i++ {
		// rank of validator i's key in ascending order (the sort inside verifyAggregateCommit has
		// already decided the order on this path, so these branches do not multiply paths)
		rank := 0
		for j := 0; j < n; j++ {
			if order[j] < order[i] {
				rank++
			}
		}
		// flagged: bit `rank` of the bitmap (little-endian bit order; missing bytes are unset bits)
		f := false
		if rank/8 < len(bitmap) {
			f = (bitmap[rank/8]>>(uint(rank)%8))&1 == 1
		}
		var c uint64
		lo, c = bits.Add64(lo, t.IteU64(f, p.weights[i], 0), 0)
		hi += c
		exact = t.And(exact, counts[i] == byte(t.IteU64(f, 1, 0)))
	}
	t.Assert(t.Or(hi > 0, lo >= p.threshold), "accepted aggregate commit: flagged validators' weight reaches the certificate threshold of the commit height")
	t.Assert(exact, "accepted aggregate commit: signed by exactly the flagged validators")
	t.Assert(signed.ID[0] == e.ownID[0], "accepted aggregate commit: signed certificate is of the node's own block")
	t.Assert(signedChain[3] == e.chainID[3], "accepted aggregate commit: signed under the node's chain ID")
	t.Reach("accepted")
}

// C06.c (+ C06.d for a single height): the aggregate commit the node assembles from its pool is
// accepted by its own verifyAggregateCommit on the same state.
//
// n = 2..N validators with symbolic relative BLS-key order, weights < 2^60, symbolic threshold,
// arbitrary signer subset whose single commits (created with the real NewSingleCommit) are in the
// pool for height 5; certified = 3, precommitted = 9, no later parameter change.
//
//zz:opt loop=24 require=aggregated,empty
//zz:quick N=3
//zz:thorough N=4
//zz:stub (*~/pkg/consensus/liskbft.API).GetBFTHeights zz06StubGetBFTHeights
//zz:stub (*~/pkg/consensus/liskbft.API).NextHeightBFTParameters zz06StubNextHeightBFTParameters
//zz:stub (*~/pkg/consensus/liskbft.API).GetBFTParameters zz06StubGetBFTParameters
//zz:stub (*~/pkg/consensus/liskbft.BFTParams).Validators zz06StubValidators
//zz:stub (*~/pkg/consensus/liskbft.BFTParams).CertificateThreshold zz06StubCertificateThreshold
//zz:stub (*~/pkg/blockchain.DataAccess).GetBlockHeaderByHeight zz06StubGetBlockHeaderByHeight
//zz:stub ~/pkg/crypto.BLSSign zz06StubBLSSign
//zz:stub (*github.com/supranational/blst/bindings/go.P1Affine).Uncompress zz06StubP1Uncompress
//zz:stub (*github.com/supranational/blst/bindings/go.P2Affine).Uncompress zz06StubP2Uncompress
//zz:stub (*github.com/supranational/blst/bindings/go.P2Affine).Compress zz06StubP2Compress
//zz:stub (*github.com/supranational/blst/bindings/go.P2Aggregate).Aggregate zz06StubAggregate
//zz:stub (*github.com/supranational/blst/bindings/go.P2Aggregate).ToAffine zz06StubToAffine
//zz:stub (*github.com/supranational/blst/bindings/go.P2Affine).FastAggregateVerify zz06StubFastAggregateVerify
func zzH_C06_own_commit_accepted(t *zzT) {
	n := t.Range("n", 2, t.Param("N", 3))
	order := make([]byte, n)
	for i := range order {
		order[i] = t.U8(t.Name("key", i))
	}
	e := zz06NewEnv(t, n, order)
	e.certified, e.precommitted, e.prevoted = 3, 9, 9
	const h = 5
	ws := make([]uint64, n)
	for i := range ws {
		ws[i] = t.U64(t.Name("weight", i))
		t.Assume(ws[i] < 1<<60)
	}
	threshold := t.U64("threshold")
	e.setParams(e.setA, threshold, ws)
	e.setParams(e.setB, threshold, ws)
	e.install(h)
	own := e.header(h)
	e.bls.msg = zz06CertMsg(own, e.chainID)
	var signedWeight uint64
	signers := 0
	for i := 0; i < n; i++ {
		if t.Bool(t.Name("signs", i)) {
			signedWeight += ws[i]
			signers++
			e.ex.certificatePool.Add(certificate.NewSingleCommit(own, zz06Addr(i), e.chainID, e.bls.sks[i]))
		}
	}

	ac, err := e.ex.GetAggregateCommit()
	t.Assert(err == nil && ac != nil, "GetAggregateCommit succeeds")
	if err != nil || ac == nil {
		return
	}
	if signers > 0 && signedWeight >= threshold {
		t.Assert(ac.Height == h && len(ac.AggregationBits) > 0 && len(ac.CertificateSignature) > 0, "commits reaching the threshold are aggregated at their height")
		verr := e.ex.verifyAggregateCommit(e.store, ac)
		t.Assert(verr == nil, "own aggregate commit is accepted by the node's own verifyAggregateCommit")
		t.ObserveBytes("aggregationBits", ac.AggregationBits)
		t.Reach("aggregated")
		return
	}
	t.Assert(ac.Height == e.certified && len(ac.AggregationBits) == 0 && len(ac.CertificateSignature) == 0, "without certifiable height the empty commit at maxHeightCertified is returned")
	verr := e.ex.verifyAggregateCommit(e.store, ac)
	t.Assert(verr == nil, "own empty aggregate commit is accepted by the node's own verifyAggregateCommit")
	t.Reach("empty")
}

var _ = stdbytes.Equal
