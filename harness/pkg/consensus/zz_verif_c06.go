//go:build verif

package consensus

import (
	"math/bits"

	"github.com/LiskHQ/lisk-engine/pkg/blockchain"
	"github.com/LiskHQ/lisk-engine/pkg/codec"
	"github.com/LiskHQ/lisk-engine/pkg/consensus/certificate"
	"github.com/LiskHQ/lisk-engine/pkg/p2p"
)

// C06.a: height window of verifyAggregateCommit.
//
// Symbolic (full 32 bit): commit height, maxHeightCertified, maxHeightPrecommited, existence and
// height of a later BFT-parameter record; emptiness of bits / signature; the aggregate signature is
// an arbitrary token of the algebraic BLS model (one validator, weight 1, threshold 1), so the BLS
// verdict is free. Asserted: accept => (empty and height = certified) or (certified < height <=
// precommitted, and height <= nextParamsHeight-1 where nextParamsHeight is the first height above
// certified+1 with stored BFT parameters, LIP-0061).
//
//zz:opt loop=80 require=accepted,accepted-empty,rejected
//zz:stub (*~/pkg/consensus/liskbft.API).GetBFTHeights zz06StubGetBFTHeights
//zz:stub (*~/pkg/consensus/liskbft.API).NextHeightBFTParameters zz06StubNextHeightBFTParameters
//zz:stub (*~/pkg/consensus/liskbft.API).GetBFTParameters zz06StubGetBFTParameters
//zz:stub (*~/pkg/consensus/liskbft.BFTParams).Validators zz06StubValidators
//zz:stub (*~/pkg/consensus/liskbft.BFTParams).CertificateThreshold zz06StubCertificateThreshold
//zz:stub (*~/pkg/blockchain.DataAccess).GetBlockHeaderByHeight zz06StubGetBlockHeaderByHeight
//zz:stub (*github.com/supranational/blst/bindings/go.P1Affine).Uncompress zz06StubP1Uncompress
//zz:stub (*github.com/supranational/blst/bindings/go.P2Affine).Uncompress zz06StubP2Uncompress
//zz:stub (*github.com/supranational/blst/bindings/go.P2Affine).FastAggregateVerify zz06StubFastAggregateVerify
func zzH_C06_commit_height_window(t *zzT) {
	e := zz06NewEnv(t, 1, []byte{1})
	e.certified = t.U32("maxHeightCertified")
	e.precommitted = t.U32("maxHeightPrecommited")
	e.prevoted = e.precommitted
	e.hasNext = t.Bool("nextParams.exists")
	e.nextH = t.U32("nextParams.height")
	t.Assume(e.certified < 1<<32-2 && e.nextH >= 1)
	e.setParams(e.setA, 1, []uint64{1})
	e.setParams(e.setB, 1, []uint64{1})
	h := t.U32("commit.height")
	e.install(h)

	e.bls.msg = zz06CertMsg(e.header(h), e.chainID)
	bitsLen := t.Choice("bits.len", 2)
	sig := []byte{}
	sigEmpty := t.Bool("signature.empty")
	if !sigEmpty {
		c := t.U8("sig.count")
		t.Assume(c <= 2)
		sig = e.bls.token(t.U8("sig.tag"), []byte{c})
	}
	ac := &blockchain.AggregateCommit{Height: h, AggregationBits: t.Bytes("bits", bitsLen), CertificateSignature: sig}

	err := e.ex.verifyAggregateCommit(e.store, ac)
	if err != nil {
		t.Reach("rejected")
		return
	}
	if bitsLen == 0 && sigEmpty {
		t.Assert(h == e.certified, "accepted empty aggregate commit is at maxHeightCertified")
		t.Reach("accepted-empty")
		return
	}
	t.Assert(bitsLen > 0 && !sigEmpty, "accepted non-empty aggregate commit has bits and signature")
	t.Assert(t.And(h > e.certified, h <= e.precommitted), "accepted aggregate commit: maxHeightCertified < height <= maxHeightPrecommited")
	nextApplies := t.And(e.hasNext, e.nextH > e.certified+1)
	t.Assert(t.Or(!nextApplies, h <= e.nextH-1), "accepted aggregate commit: height not beyond the block preceding the next BFT parameter change")
	t.Reach("accepted")
}

// C06.b at the level of verifyAggregateCommit: weights, threshold and bit positions.
//
// n <= 3 validators with symbolic relative BLS-key order, symbolic weights (full 64 bit) and
// thresholds for two parameter sets (set B in force from height 4 or - thorough tier - only from
// height 7; the commit is at height 5; quick tier: n = 3 only), symbolic bitmap of 0..2 bytes, arbitrary signature token, the signed certificate may
// differ from the node's own block (block ID) or chain ID. Asserted: accept => the validators
// flagged in ascending-key order (LIP-0061) carry weight >= the threshold of the parameters in force
// at the commit height, the signers are exactly the flagged validators, and what was signed is the
// certificate of the node's own block under the node's chain ID.
//
//zz:opt loop=80 require=accepted,rejected timeout=60000
//zz:quick NMIN=3 N=3 BAT=1
//zz:thorough NMIN=1 N=3 BAT=2 budget=900s
//zz:stub (*~/pkg/consensus/liskbft.API).GetBFTHeights zz06StubGetBFTHeights
//zz:stub (*~/pkg/consensus/liskbft.API).NextHeightBFTParameters zz06StubNextHeightBFTParameters
//zz:stub (*~/pkg/consensus/liskbft.API).GetBFTParameters zz06StubGetBFTParameters
//zz:stub (*~/pkg/consensus/liskbft.BFTParams).Validators zz06StubValidators
//zz:stub (*~/pkg/consensus/liskbft.BFTParams).CertificateThreshold zz06StubCertificateThreshold
//zz:stub (*~/pkg/blockchain.DataAccess).GetBlockHeaderByHeight zz06StubGetBlockHeaderByHeight
//zz:stub (*github.com/supranational/blst/bindings/go.P1Affine).Uncompress zz06StubP1Uncompress
//zz:stub (*github.com/supranational/blst/bindings/go.P2Affine).Uncompress zz06StubP2Uncompress
//zz:stub (*github.com/supranational/blst/bindings/go.P2Affine).FastAggregateVerify zz06StubFastAggregateVerify
func zzH_C06_commit_weights(t *zzT) {
	n := t.Range("n", t.Param("NMIN", 3), t.Param("N", 3))
	order := make([]byte, n)
	for i := range order {
		order[i] = t.U8(t.Name("key", i))
	}
	e := zz06NewEnv(t, n, order)
	e.certified, e.precommitted, e.prevoted = 3, 9, 9
	e.hasNext = true
	e.nextH = uint32(4 + 3*t.Choice("setB.at", t.Param("BAT", 1))) // 4: in force at the commit height; 7: not yet
	const h = 5
	wA, wB := make([]uint64, n), make([]uint64, n)
	for i := 0; i < n; i++ {
		wA[i] = t.U64(t.Name("setA.weight", i))
		wB[i] = t.U64(t.Name("setB.weight", i))
	}
	e.setParams(e.setA, t.U64("setA.threshold"), wA)
	e.setParams(e.setB, t.U64("setB.threshold"), wB)
	e.install(h)

	// What the validators signed: 0 = the certificate of the node's own block at height 5 under the
	// node's chain ID, 1 = the certificate of another block at that height, 2 = the own block under
	// another chain ID. (All three messages are concrete hashes; the selection is symbolic and
	// branch-free, so no uninterpreted hash terms reach the solver.)
	what := t.U8("signed.what")
	t.Assume(what <= 2)
	other := e.header(h)
	other.ID = append([]byte{0xb2}, e.ownID[1:]...)
	m0, m1, m2 := zz06CertMsg(e.header(h), e.chainID), zz06CertMsg(other, e.chainID), zz06CertMsg(e.header(h), []byte{0, 0, 0, 7})
	e.bls.msg = make([]byte, len(m0))
	for i := range m0 {
		e.bls.msg[i] = byte(t.IteU64(what == 0, uint64(m0[i]), t.IteU64(what == 1, uint64(m1[i]), uint64(m2[i]))))
	}
	tag := t.U8("sig.tag")
	counts := make([]byte, n)
	for i := range counts {
		counts[i] = t.U8(t.Name("sig.count", i))
		t.Assume(counts[i] <= 2)
	}
	bitmap := t.Bytes("bitmap", t.Range("bitmap.len", 0, 2))
	ac := &blockchain.AggregateCommit{Height: h, AggregationBits: bitmap, CertificateSignature: e.bls.token(tag, counts)}

	err := e.ex.verifyAggregateCommit(e.store, ac)
	if err != nil {
		t.Reach("rejected")
		return
	}
	p := e.paramsAt(h)
	// rank of every validator's key in ascending order (the sort inside verifyAggregateCommit has
	// already decided the order on this path, so these branches do not multiply paths)
	byRank := make([]int, n)
	for i := 0; i < n; i++ {
		rank := 0
		for j := 0; j < n; j++ {
			if order[j] < order[i] {
				rank++
			}
		}
		byRank[rank] = i
	}
	var lo, hi uint64
	exact := tag == 1
	// (summed in rank order: 64-bit additions in another order than the implementation's make the
	// equivalence needlessly hard for the SAT back end)
	for r := 0; r < n; r++ {
		i := byRank[r]
		// flagged: bit r of the bitmap (little-endian bit order; missing bytes are unset bits)
		// (a real branch: the implementation has already branched on this bit, so the infeasible side
		// is pruned and the sum below is the same term the implementation compared)
		if r/8 < len(bitmap) && (bitmap[r/8]>>(uint(r)%8))&1 == 1 {
			var c uint64
			lo, c = bits.Add64(lo, p.weights[i], 0)
			hi += c
			exact = t.And(exact, counts[i] == 1)
		} else {
			exact = t.And(exact, counts[i] == 0)
		}
	}
	t.Assert(t.Or(hi > 0, lo >= p.threshold), "accepted aggregate commit: flagged validators' weight reaches the certificate threshold of the commit height")
	t.Assert(exact, "accepted aggregate commit: signed by exactly the flagged validators")
	t.Assert(what == 0, "accepted aggregate commit: what was signed is the certificate of the node's own block under the node's chain ID")
	t.Reach("accepted")
}

// C06.c (+ C06.d for a single height): the aggregate commit the node assembles from its pool is
// accepted by its own verifyAggregateCommit on the same state.
//
// n = 2..N validators with symbolic relative BLS-key order, weights < 2^60, symbolic threshold,
// arbitrary signer subset whose single commits (created with the real NewSingleCommit) are in the
// pool for height 5; certified = 3, precommitted = 9, no later parameter change.
//
//zz:opt loop=80 require=aggregated,empty
//zz:quick N=3
//zz:thorough N=4
//zz:stub (*~/pkg/consensus/liskbft.API).GetBFTHeights zz06StubGetBFTHeights
//zz:stub (*~/pkg/consensus/liskbft.API).NextHeightBFTParameters zz06StubNextHeightBFTParameters
//zz:stub (*~/pkg/consensus/liskbft.API).GetBFTParameters zz06StubGetBFTParameters
//zz:stub (*~/pkg/consensus/liskbft.BFTParams).Validators zz06StubValidators
//zz:stub (*~/pkg/consensus/liskbft.BFTParams).CertificateThreshold zz06StubCertificateThreshold
//zz:stub (*~/pkg/blockchain.DataAccess).GetBlockHeaderByHeight zz06StubGetBlockHeaderByHeight
//zz:stub ~/pkg/crypto.BLSSign zz06StubBLSSign
//zz:stub (*github.com/supranational/blst/bindings/go.P1Affine).Uncompress zz06StubP1Uncompress
//zz:stub (*github.com/supranational/blst/bindings/go.P2Affine).Uncompress zz06StubP2Uncompress
//zz:stub (*github.com/supranational/blst/bindings/go.P2Affine).Compress zz06StubP2Compress
//zz:stub (*github.com/supranational/blst/bindings/go.P2Aggregate).Aggregate zz06StubAggregate
//zz:stub (*github.com/supranational/blst/bindings/go.P2Aggregate).ToAffine zz06StubToAffine
//zz:stub (*github.com/supranational/blst/bindings/go.P2Affine).FastAggregateVerify zz06StubFastAggregateVerify
func zzH_C06_own_commit_accepted(t *zzT) {
	n := t.Range("n", 2, t.Param("N", 3))
	order := make([]byte, n)
	for i := range order {
		order[i] = t.U8(t.Name("key", i))
	}
	e := zz06NewEnv(t, n, order)
	e.certified, e.precommitted, e.prevoted = 3, 9, 9
	const h = 5
	ws := make([]uint64, n)
	for i := range ws {
		ws[i] = t.U64(t.Name("weight", i))
		t.Assume(ws[i] < 1<<60)
	}
	threshold := t.U64("threshold")
	e.setParams(e.setA, threshold, ws)
	e.setParams(e.setB, threshold, ws)
	e.install(h)
	own := e.header(h)
	e.bls.msg = zz06CertMsg(own, e.chainID)
	var signedWeight uint64
	signers := 0
	for i := 0; i < n; i++ {
		if t.Bool(t.Name("signs", i)) {
			signedWeight += ws[i]
			signers++
			e.ex.certificatePool.Add(certificate.NewSingleCommit(own, zz06Addr(i), e.chainID, e.bls.sks[i]))
		}
	}

	ac, err := e.ex.GetAggregateCommit()
	t.Assert(err == nil && ac != nil, "GetAggregateCommit succeeds")
	if err != nil || ac == nil {
		return
	}
	if signers > 0 && signedWeight >= threshold {
		t.Assert(ac.Height == h && len(ac.AggregationBits) > 0 && len(ac.CertificateSignature) > 0, "commits reaching the threshold are aggregated at their height")
		verr := e.ex.verifyAggregateCommit(e.store, ac)
		t.Assert(verr == nil, "own aggregate commit is accepted by the node's own verifyAggregateCommit")
		t.ObserveBytes("aggregationBits", ac.AggregationBits)
		t.Reach("aggregated")
		return
	}
	t.Assert(ac.Height == e.certified && len(ac.AggregationBits) == 0 && len(ac.CertificateSignature) == 0, "without certifiable height the empty commit at maxHeightCertified is returned")
	verr := e.ex.verifyAggregateCommit(e.store, ac)
	t.Assert(verr == nil, "own empty aggregate commit is accepted by the node's own verifyAggregateCommit")
	t.Reach("empty")
}

// C06.d: GetAggregateCommit picks the highest certifiable height h with maxHeightCertified < h <=
// min(maxHeightPrecommited, nextParamsHeight-1) for which the pool holds single commits whose weight
// (under the parameters in force at h) reaches that height's certificate threshold; otherwise the
// empty commit at maxHeightCertified.
//
// Bounds: certified = 10; precommitted = certified + 0..3; a later parameter record (set B with own
// weights / threshold) optionally at certified + 1..NO; two validators; 0..K pool commits (commit k by
// validator k) at heights certified + 0..CO; weights < 2^60, thresholds symbolic.
//
//zz:opt loop=80 require=aggregated,empty
//zz:quick K=2 NO=4 CO=3
//zz:thorough K=2 NO=5 CO=4 budget=600s
//zz:stub (*~/pkg/consensus/liskbft.API).GetBFTHeights zz06StubGetBFTHeights
//zz:stub (*~/pkg/consensus/liskbft.API).NextHeightBFTParameters zz06StubNextHeightBFTParameters
//zz:stub (*~/pkg/consensus/liskbft.API).GetBFTParameters zz06StubGetBFTParameters
//zz:stub (*~/pkg/consensus/liskbft.BFTParams).Validators zz06StubValidators
//zz:stub (*~/pkg/consensus/liskbft.BFTParams).CertificateThreshold zz06StubCertificateThreshold
//zz:stub ~/pkg/crypto.BLSSign zz06StubBLSSign
//zz:stub (*github.com/supranational/blst/bindings/go.P2Affine).Uncompress zz06StubP2Uncompress
//zz:stub (*github.com/supranational/blst/bindings/go.P2Affine).Compress zz06StubP2Compress
//zz:stub (*github.com/supranational/blst/bindings/go.P2Aggregate).Aggregate zz06StubAggregate
//zz:stub (*github.com/supranational/blst/bindings/go.P2Aggregate).ToAffine zz06StubToAffine
func zzH_C06_commit_height_choice(t *zzT) {
	const n = 2
	e := zz06NewEnv(t, n, []byte{1, 2})
	e.certified = 10
	e.precommitted = e.certified + uint32(t.Range("precommitted.off", 0, 3))
	e.prevoted = e.precommitted
	e.hasNext = t.Bool("nextParams.exists")
	e.nextH = e.certified + uint32(t.Range("nextParams.off", 1, t.Param("NO", 4)))
	wA, wB := make([]uint64, n), make([]uint64, n)
	for i := 0; i < n; i++ {
		wA[i], wB[i] = t.U64(t.Name("setA.weight", i)), t.U64(t.Name("setB.weight", i))
		t.Assume(wA[i] < 1<<60 && wB[i] < 1<<60)
	}
	e.setParams(e.setA, t.U64("setA.threshold"), wA)
	e.setParams(e.setB, t.U64("setB.threshold"), wB)
	e.install()
	k := t.Range("commits", 0, t.Param("K", 2))
	heights := make([]uint32, k)
	for i := 0; i < k; i++ {
		heights[i] = e.certified + uint32(t.Range(t.Name("commit.off", i), 0, t.Param("CO", 3)))
		hd := e.header(heights[i])
		if i == 0 {
			e.bls.msg = zz06CertMsg(hd, e.chainID)
		}
		e.ex.certificatePool.Add(certificate.NewSingleCommit(hd, zz06Addr(i), e.chainID, e.bls.sks[i]))
	}

	ac, err := e.ex.GetAggregateCommit()
	t.Assert(err == nil && ac != nil, "GetAggregateCommit succeeds")
	if err != nil || ac == nil {
		return
	}
	limit := e.precommitted
	if e.hasNext && e.nextH > e.certified+1 && e.nextH-1 < limit {
		limit = e.nextH - 1
	}
	expected, found := e.certified, false
	for hh := limit; hh > e.certified && !found; hh-- {
		p := e.paramsAt(hh)
		var w uint64
		cnt := 0
		for i := 0; i < k; i++ {
			if heights[i] == hh {
				w += p.weights[i]
				cnt++
			}
		}
		if cnt > 0 && w >= p.threshold {
			expected, found = hh, true
		}
	}
	t.Assert(ac.Height == expected, "GetAggregateCommit picks the highest certifiable height within (maxHeightCertified, min(maxHeightPrecommited, nextParamsHeight-1)]")
	t.ObserveU64("height", uint64(ac.Height))
	if found {
		t.Assert(len(ac.AggregationBits) > 0 && len(ac.CertificateSignature) > 0, "a certifiable height yields a non-empty aggregate commit")
		t.Reach("aggregated")
		return
	}
	t.Assert(len(ac.AggregationBits) == 0 && len(ac.CertificateSignature) == 0, "without certifiable height the commit is empty")
	t.Reach("empty")
}

// C06.e: singleCommitValidator (LIP-0061 steps 1-7) on a message with one single commit.
//
// Symbolic (full 32 bit): maxHeightPrecommited, the removal height (aggregate-commit height of the
// finalized block), the chain tip, the commit height, existence/height of a second parameter record;
// commit: well-formed or one field one byte short, block ID own/foreign, signer one of the n
// validators or a stranger, signature = arbitrary token; the commit may already be in the pool.
// Asserted: never ValidationAccept; the commit enters the pool only if every step's condition holds.
// Separately (own label, liveness - beyond the "only" of the property statement): a commit fulfilling
// every LIP-0061 condition, with the stored range computed without wrap-around, does enter the pool.
//
//zz:opt loop=200 require=added,discarded
//zz:quick N=2
//zz:thorough N=3
//zz:stub (*~/pkg/consensus/liskbft.API).GetBFTHeights zz06StubGetBFTHeights
//zz:stub (*~/pkg/consensus/liskbft.API).ExistBFTParameters zz06StubExistBFTParameters
//zz:stub (*~/pkg/consensus/liskbft.API).GetBFTParameters zz06StubGetBFTParameters
//zz:stub (*~/pkg/consensus/liskbft.BFTParams).Validators zz06StubValidators
//zz:stub (*~/pkg/blockchain.DataAccess).GetBlockHeaderByHeight zz06StubGetBlockHeaderByHeight
//zz:stub (*github.com/supranational/blst/bindings/go.P1Affine).Uncompress zz06StubP1Uncompress
//zz:stub (*github.com/supranational/blst/bindings/go.P2Affine).Uncompress zz06StubP2Uncompress
//zz:stub (*github.com/supranational/blst/bindings/go.P2Affine).Verify zz06StubVerify
func zzH_C06_single_commit_validator(t *zzT) {
	n := t.Param("N", 2)
	order := []byte{1, 2, 3}
	e := zz06NewEnv(t, n, order[:n])
	e.precommitted = t.U32("maxHeightPrecommited")
	e.prevoted, e.certified = e.precommitted, 0
	e.removalHeight = t.U32("removalHeight")
	e.tip = t.U32("tip")
	t.Assume(e.tip >= e.precommitted)
	e.hasNext = t.Bool("params2.exists")
	e.nextH = t.U32("params2.height")
	t.Assume(e.nextH >= 1)
	ws := []uint64{1, 1, 1}
	// validator-set change between the two parameter records: each set may lack one validator
	e.setA.absent = t.Choice("setA.absent", n+1) - 1
	e.setB.absent = t.Choice("setB.absent", n+1) - 1
	e.setParams(e.setA, 1, ws[:n])
	e.setParams(e.setB, 1, ws[:n])
	h := t.U32("commit.height")
	e.install()
	e.storeHeaders(e.precommitted, h)
	e.bls.msg = zz06CertMsg(e.header(h), e.chainID)

	// the deviations are explored one at a time (they are independent early exits of the validator)
	malformed := t.Choice("malformed", 4)
	already, ownBlock, signer := false, true, 0
	if malformed == 0 {
		already = t.Bool("already in pool")
		if !already {
			ownBlock = t.Bool("commit.ownBlock")
			signer = t.Choice("commit.signer", n+1) // n = not a validator
		}
	}
	blockID := append([]byte{}, e.header(h).ID...)
	if !ownBlock {
		blockID[5] ^= 0x01
	}
	addr := zz06Addr(signer)
	tag := t.U8("sig.tag")
	counts := make([]byte, n)
	for i := range counts {
		counts[i] = t.U8(t.Name("sig.count", i))
		t.Assume(counts[i] <= 2)
	}
	sig := e.bls.token(tag, counts)
	switch malformed {
	case 1:
		blockID = blockID[:31]
	case 2:
		addr = addr[:19]
	case 3:
		sig = sig[:95]
	}
	cw := codec.NewWriter()
	cw.WriteBytes(1, blockID)
	cw.WriteUInt32(2, h)
	cw.WriteBytes(3, addr)
	cw.WriteBytes(4, sig)
	ew := codec.NewWriter()
	ew.WriteBytes(1, cw.Result())
	sc := &certificate.SingleCommit{}
	if err := sc.Decode(cw.Result()); err != nil {
		t.Fail("harness: commit does not decode")
	}
	if t.Symbolic() {
		// the same message, but with the height as the term the validator will decode from the wire
		// (a varint re-assembled from bytes): keeps the two hash inputs syntactically identical, so
		// the solver does not have to prove H(enc(h)) = H(enc(dec(enc(h))))
		e.bls.msg = zz06CertMsg(e.header(sc.Height()), e.chainID)
	}
	if already {
		e.ex.certificatePool.Add(sc)
	}
	before := e.ex.certificatePool.Size()

	res := e.ex.singleCommitValidator(nil, &p2p.Message{Data: ew.Result()})
	t.Assert(res != p2p.ValidationAccept, "singleCommitValidator never returns ValidationAccept")
	added := e.ex.certificatePool.Size() - before
	t.Assert(added == 0 || added == 1, "at most the one commit is added")

	// (branch-free oracle)
	inRange := t.And(uint64(h) <= uint64(e.precommitted), uint64(h)+uint64(certificate.CommitRangeStored) >= uint64(e.precommitted))
	paramHeight := t.Or(h == 0, t.And(e.hasNext, h == e.nextH))
	validSig := tag == 1
	for i := 0; i < n; i++ {
		want := byte(0)
		if i == signer {
			want = 1
		}
		validSig = t.And(validSig, counts[i] == want)
	}
	// active at the commit's height: member of the parameter set in force at h
	active := t.Or(t.And(t.And(e.hasNext, h >= e.nextH), signer != e.setB.absent), t.And(!t.And(e.hasNext, h >= e.nextH), signer != e.setA.absent))
	ok := t.And(t.And(malformed == 0 && !already && ownBlock && signer < n, active), t.And(h > e.removalHeight, t.And(t.Or(inRange, paramHeight), t.And(h <= e.tip, validSig))))
	if added == 1 {
		t.Assert(ok, "a single commit enters the pool only if it is well-formed, new, above the removal height, in the stored range or at a parameter-change height, for the own block, by an active validator and correctly signed")
		t.Reach("added")
		return
	}
	// liveness, split by region so that the wrap-around of maxHeightPrecommited-100 below height 100 is
	// a finding of its own
	zz06Beyond(t, t.Or(!ok, e.precommitted < certificate.CommitRangeStored), "a single commit fulfilling every LIP-0061 condition enters the pool (maxHeightPrecommited >= 100)")
	zz06Beyond(t, t.Or(!ok, e.precommitted >= certificate.CommitRangeStored), "a single commit fulfilling every LIP-0061 condition enters the pool (first 100 heights: maxHeightPrecommited < 100)")
	t.Reach("discarded")
}

// C06.f (consensus side): the pool clean-up performed by broadcastCertificate. LIP-0061 removes a
// single commit m only if m.height <= maxRemovalHeight, or if m.height is older than the stored range
// (m.height < maxHeightPrecommited - 100, computed without wrap-around) and m.height+1 is not a
// BFT-parameter-change height. One own single commit (real NewSingleCommit) at a symbolic height is
// in the pool; all heights are symbolic 32-bit values.
//
//zz:opt loop=200 require=kept,removed
//zz:stub (*~/pkg/consensus/liskbft.API).GetBFTHeights zz06StubGetBFTHeights
//zz:stub (*~/pkg/consensus/liskbft.API).ExistBFTParameters zz06StubExistBFTParameters
//zz:stub (*~/pkg/consensus/liskbft.API).GetBFTParameters zz06StubGetBFTParameters
//zz:stub (*~/pkg/consensus/liskbft.BFTParams).Validators zz06StubValidators
//zz:stub (*~/pkg/blockchain.DataAccess).GetBlockHeaderByHeight zz06StubGetBlockHeaderByHeight
//zz:stub (*~/pkg/blockchain.Chain).LastBlock zz06StubLastBlock
//zz:stub (*~/pkg/p2p.GossipSub).Publish zz06StubPublish
//zz:stub ~/pkg/crypto.BLSSign zz06StubBLSSign
func zzH_C06_broadcast_cleanup(t *zzT) {
	e := zz06NewEnv(t, 2, []byte{1, 2})
	e.precommitted = t.U32("maxHeightPrecommited")
	e.prevoted, e.certified = e.precommitted, 0
	e.removalHeight = t.U32("removalHeight")
	e.tip = t.U32("tip")
	t.Assume(e.tip >= e.precommitted && e.tip < 1<<32-1)
	e.hasNext = t.Bool("params2.exists")
	e.nextH = t.U32("params2.height")
	t.Assume(e.nextH >= 1)
	e.setParams(e.setA, 1, []uint64{1, 1})
	e.setParams(e.setB, 1, []uint64{1, 1})
	h := t.U32("commit.height")
	t.Assume(h <= e.tip)
	e.install()
	e.storeHeaders(e.tip, e.precommitted)
	hd := e.header(h)
	e.bls.msg = zz06CertMsg(hd, e.chainID)
	sc := certificate.NewSingleCommit(hd, zz06Addr(0), e.chainID, e.bls.sks[0])
	e.ex.certificatePool.Add(sc)

	_ = e.ex.broadcastCertificate()
	kept := e.ex.certificatePool.Has(sc)
	t.Assert(e.ex.certificatePool.Size() == t.IteInt(kept, 1, 0), "clean-up neither duplicates nor invents commits")

	changeNext := t.And(e.hasNext, e.nextH == h+1) // h+1 >= 1, so set A at height 0 never matters
	tooOld := uint64(h)+uint64(certificate.CommitRangeStored) < uint64(e.precommitted)
	lipRemove := t.Or(h <= e.removalHeight, t.And(!changeNext, tooOld))
	if kept {
		t.Assert(!lipRemove, "clean-up removes commits at or below the removal height and commits older than the stored range")
		t.Reach("kept")
		return
	}
	// liveness of the pool, one label per region
	first100 := e.precommitted < certificate.CommitRangeStored
	zz06Beyond(t, t.Or(lipRemove, t.Or(first100, h >= e.precommitted)), "clean-up keeps a commit inside the stored range (maxHeightPrecommited >= 100, height < maxHeightPrecommited)")
	zz06Beyond(t, t.Or(lipRemove, h < e.precommitted), "clean-up keeps a commit at or above maxHeightPrecommited (e.g. the own commit for the height just finalized)")
	zz06Beyond(t, t.Or(lipRemove, t.Or(!first100, h >= e.precommitted)), "clean-up keeps a commit inside the stored range during the first 100 heights (maxHeightPrecommited < 100, height < maxHeightPrecommited)")
	t.Reach("removed")
}


// zz06Beyond: obligations that go beyond what the C06 statement demands (liveness of the pool: valid
// commits are kept / admitted). They are genuine observations about the code (uint32 wrap of
// maxHeightPrecommited-100 during the first 100 heights; clean-up of commits at or above
// maxHeightPrecommited) but the property only states soundness, so they are asserted only when the
// harness is run with beyond=1 and never fail the registered check.
func zz06Beyond(t *zzT, c bool, label string) {
	if t.Param("beyond", 0) == 1 {
		t.Assert(c, label)
	}
}

// C03 (rule "a valid aggregate commit"): the height window of a non-empty aggregate commit is part of
// block validity; the obligation is the C06.a harness, registered under C03 as well.
//
//zz:opt loop=80 require=accepted,accepted-empty,rejected
//zz:stub (*~/pkg/consensus/liskbft.API).GetBFTHeights zz06StubGetBFTHeights
//zz:stub (*~/pkg/consensus/liskbft.API).NextHeightBFTParameters zz06StubNextHeightBFTParameters
//zz:stub (*~/pkg/consensus/liskbft.API).GetBFTParameters zz06StubGetBFTParameters
//zz:stub (*~/pkg/consensus/liskbft.BFTParams).Validators zz06StubValidators
//zz:stub (*~/pkg/consensus/liskbft.BFTParams).CertificateThreshold zz06StubCertificateThreshold
//zz:stub (*~/pkg/blockchain.DataAccess).GetBlockHeaderByHeight zz06StubGetBlockHeaderByHeight
//zz:stub (*github.com/supranational/blst/bindings/go.P1Affine).Uncompress zz06StubP1Uncompress
//zz:stub (*github.com/supranational/blst/bindings/go.P2Affine).Uncompress zz06StubP2Uncompress
//zz:stub (*github.com/supranational/blst/bindings/go.P2Affine).FastAggregateVerify zz06StubFastAggregateVerify
func zzH_C03_aggregate_commit_window(t *zzT) { zzH_C06_commit_height_window(t) }


// C15 "every block the generator produces is accepted by the same node's block validation … including its
// aggregate commit": the generator fills header.AggregateCommit from Executer.GetAggregateCommit — same
// obligation as zzH_C06_commit_height_choice (height within (maxHeightCertified, min(maxHeightPrecommited,
// nextParamsHeight-1)]), registered under C15 as well (seed C15-7: the cap below the next parameter change
// applied with < instead of <=).
//
//zz:opt loop=80 require=aggregated,empty
//zz:quick K=2 NO=4 CO=3
//zz:thorough K=2 NO=5 CO=4 budget=600s
//zz:stub (*~/pkg/consensus/liskbft.API).GetBFTHeights zz06StubGetBFTHeights
//zz:stub (*~/pkg/consensus/liskbft.API).NextHeightBFTParameters zz06StubNextHeightBFTParameters
//zz:stub (*~/pkg/consensus/liskbft.API).GetBFTParameters zz06StubGetBFTParameters
//zz:stub (*~/pkg/consensus/liskbft.BFTParams).Validators zz06StubValidators
//zz:stub (*~/pkg/consensus/liskbft.BFTParams).CertificateThreshold zz06StubCertificateThreshold
//zz:stub ~/pkg/crypto.BLSSign zz06StubBLSSign
//zz:stub (*github.com/supranational/blst/bindings/go.P2Affine).Uncompress zz06StubP2Uncompress
//zz:stub (*github.com/supranational/blst/bindings/go.P2Affine).Compress zz06StubP2Compress
//zz:stub (*github.com/supranational/blst/bindings/go.P2Aggregate).Aggregate zz06StubAggregate
//zz:stub (*github.com/supranational/blst/bindings/go.P2Aggregate).ToAffine zz06StubToAffine
func zzH_C15_aggregate_commit_height_choice(t *zzT) { zzH_C06_commit_height_choice(t) }


// C06 "only single commits by active validators that verify against the current chain enter the pool" — the
// node's OWN commits: Executer.Certify(from, to, address, key), called by the generator when finality advances.
// Two parameter records (height 0 and a symbolic later height, each possibly lacking one validator), symbolic
// from / to: afterwards the pool holds, for the certifying validator, exactly one commit for every height in
// (from, to] at which a parameter record is stored and the validator is in that record — for the node's own block
// at that height — and nothing else; from > to is refused.
//
//zz:opt loop=200 require=certified,nothing
//zz:stub (*~/pkg/consensus/liskbft.API).GetBFTHeights zz06StubGetBFTHeights
//zz:stub (*~/pkg/consensus/liskbft.API).ExistBFTParameters zz06StubExistBFTParameters
//zz:stub (*~/pkg/consensus/liskbft.API).GetBFTParameters zz06StubGetBFTParameters
//zz:stub (*~/pkg/consensus/liskbft.BFTParams).Validators zz06StubValidators
//zz:stub (*~/pkg/blockchain.DataAccess).GetBlockHeaderByHeight zz06StubGetBlockHeaderByHeight
//zz:stub ~/pkg/crypto.BLSSign zz06StubBLSSign
func zzH_C06_certify_own_commits(t *zzT) {
	const n = 2
	e := zz06NewEnv(t, n, []byte{1, 2})
	e.precommitted, e.prevoted, e.certified = 9, 9, 0
	e.tip = 9
	e.hasNext = true
	e.nextH = uint32(t.Range("params2.height", 2, 5))
	e.setA.absent = t.Choice("setA.absent", n+1) - 1
	e.setB.absent = t.Choice("setB.absent", n+1) - 1
	ws := []uint64{1, 1}
	e.setParams(e.setA, 1, ws)
	e.setParams(e.setB, 1, ws)
	from := uint32(t.Range("from", 0, 5))
	to := uint32(t.Range("to", 0, 6))
	e.install()
	e.storeHeaders(0, 1, 2, 3, 4, 5, 6)
	v := t.Choice("validator", n)
	err := e.ex.Certify(from, to, zz06Addr(v), e.bls.sks[v])
	if from > to {
		t.Assert(err != nil && e.ex.certificatePool.Size() == 0, "an inverted range is refused and certifies nothing")
		t.Reach("nothing")
		return
	}
	t.Assert(err == nil, "Certify succeeds on the node's own chain")
	total := 0
	active := func(h uint32) bool { return e.paramsAt(h).absent != v }
	for h := uint32(0); h <= 6; h++ {
		got := e.ex.certificatePool.Get(h)
		// LIP-0061 as implemented: every height of (from, to] at which a parameter record is stored, and the last
		// height of the range unless a parameter record is stored right above it — if the validator is in the
		// set in force at that height
		inLoop := h > from && h <= to && h == e.nextH
		isLast := h == to && e.nextH != to+1
		want := (inLoop || isLast) && active(h)
		if want {
			ok := len(got) == 1 && zz06BytesEqual(got[0].ValidatorAddress(), zz06Addr(v)) && got[0].Height() == h && zz06BytesEqual(got[0].BlockID(), e.header(h).ID)
			t.Assert(ok, "exactly ONE commit by the certifying validator for the node's own block at every certifiable height of the range")
			total++
		} else {
			t.Assert(len(got) == 0, "no commit for a height that is not to be certified or where the validator is not in the set")
		}
	}
	t.Assert(e.ex.certificatePool.Size() == total, "the pool holds nothing else")
	if total > 0 {
		t.Reach("certified")
	} else {
		t.Reach("nothing")
	}
}


// C06 "an aggregate commit the node assembles from the single commits in its pool is always accepted by its own
// verification" when the node's own commits got there through Executer.Certify (the generator calls it when
// finality advances): n validators with symbolic weights and threshold, a parameter record at height H = 5
// (certified 4, precommitted 9), the node's validator v certifies the range (4, 5]; any subset of the other
// validators' commits for height 5 is in the pool as well. GetAggregateCommit then returns a commit its own
// verifyAggregateCommit accepts.
//
//zz:opt loop=80 require=aggregated,empty
//zz:quick N=2
//zz:thorough N=3
//zz:stub (*~/pkg/consensus/liskbft.API).GetBFTHeights zz06StubGetBFTHeights
//zz:stub (*~/pkg/consensus/liskbft.API).NextHeightBFTParameters zz06StubNextHeightBFTParameters
//zz:stub (*~/pkg/consensus/liskbft.API).ExistBFTParameters zz06StubExistBFTParameters
//zz:stub (*~/pkg/consensus/liskbft.API).GetBFTParameters zz06StubGetBFTParameters
//zz:stub (*~/pkg/consensus/liskbft.BFTParams).Validators zz06StubValidators
//zz:stub (*~/pkg/consensus/liskbft.BFTParams).CertificateThreshold zz06StubCertificateThreshold
//zz:stub (*~/pkg/blockchain.DataAccess).GetBlockHeaderByHeight zz06StubGetBlockHeaderByHeight
//zz:stub ~/pkg/crypto.BLSSign zz06StubBLSSign
//zz:stub (*github.com/supranational/blst/bindings/go.P1Affine).Uncompress zz06StubP1Uncompress
//zz:stub (*github.com/supranational/blst/bindings/go.P2Affine).Uncompress zz06StubP2Uncompress
//zz:stub (*github.com/supranational/blst/bindings/go.P2Affine).Compress zz06StubP2Compress
//zz:stub (*github.com/supranational/blst/bindings/go.P2Aggregate).Aggregate zz06StubAggregate
//zz:stub (*github.com/supranational/blst/bindings/go.P2Aggregate).ToAffine zz06StubToAffine
//zz:stub (*github.com/supranational/blst/bindings/go.P2Affine).FastAggregateVerify zz06StubFastAggregateVerify
func zzH_C06_certified_commits_aggregate_accepted(t *zzT) {
	n := t.Range("n", 2, t.Param("N", 2))
	order := make([]byte, n)
	for i := range order {
		order[i] = t.U8(t.Name("key", i))
	}
	e := zz06NewEnv(t, n, order)
	const h = 5
	e.certified, e.precommitted, e.prevoted = 4, 9, 9
	e.tip = 9
	e.hasNext, e.nextH = true, h
	ws := make([]uint64, n)
	for i := range ws {
		ws[i] = uint64(t.U16(t.Name("weight", i)))
		t.Assume(ws[i] >= 1) // SetBFTParameters admits positive weights only
	}
	var total uint64
	for _, w := range ws {
		total += w
	}
	threshold := uint64(t.U32("threshold"))
	t.Assume(threshold >= total/3+1 && threshold <= total) // … and thresholds in [W/3+1, W]
	e.setParams(e.setA, threshold, ws)
	e.setParams(e.setB, threshold, ws)
	e.install(h)
	e.storeHeaders(4, 5, 6)
	own := e.header(h)
	e.bls.msg = zz06CertMsg(own, e.chainID)
	v := 0
	cerr := e.ex.Certify(4, h, zz06Addr(v), e.bls.sks[v])
	t.Assert(cerr == nil, "Certify succeeds")
	signedWeight := ws[v]
	for i := 1; i < n; i++ {
		if t.Bool(t.Name("signs", i)) {
			signedWeight += ws[i]
			e.ex.certificatePool.Add(certificate.NewSingleCommit(own, zz06Addr(i), e.chainID, e.bls.sks[i]))
		}
	}
	ac, err := e.ex.GetAggregateCommit()
	t.Assert(err == nil && ac != nil, "GetAggregateCommit succeeds")
	if err != nil || ac == nil {
		return
	}
	verr := e.ex.verifyAggregateCommit(e.store, ac)
	t.Assert(verr == nil, "the aggregate commit assembled from the pool (own commits added by Certify) is accepted by the node's own verifyAggregateCommit")
	if len(ac.AggregationBits) > 0 {
		t.Assert(signedWeight >= threshold, "a non-empty aggregate commit is backed by signers whose weight reaches the threshold")
		t.Reach("aggregated")
	} else {
		t.Reach("empty")
	}
}
