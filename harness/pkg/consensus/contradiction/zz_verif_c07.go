//go:build verif

package contradiction

// zzHdr builds a header with fully symbolic 32-bit fields and one of two generator addresses.
func zzHdr(t *zzT, p string) *bftBlockHeader {
	addr := []byte{0xaa, 0x01}
	if t.Bool(p + ".gen") {
		addr = []byte{0xaa, 0x02}
	}
	return &bftBlockHeader{
		height:             t.U32(p + ".h"),
		maxHeightGenerated: t.U32(p + ".mhg"),
		maxHeightPrevoted:  t.U32(p + ".mhp"),
		generatorAddress:   addr,
	}
}

// zzRefLIP14 is an independent transcription of LIP-0014's definition (DESIGN App. B.1 (i)).
func zzRefLIP14(a, b *bftBlockHeader) bool {
	if a.generatorAddress[1] != b.generatorAddress[1] {
		return false
	}
	// order the pair lexicographically by (mhg, mhp, height)
	first, second := a, b
	less := func(x, y *bftBlockHeader) bool {
		if x.maxHeightGenerated != y.maxHeightGenerated {
			return x.maxHeightGenerated < y.maxHeightGenerated
		}
		if x.maxHeightPrevoted != y.maxHeightPrevoted {
			return x.maxHeightPrevoted < y.maxHeightPrevoted
		}
		return x.height <= y.height
	}
	if !less(a, b) {
		first, second = b, a
	}
	if first.maxHeightPrevoted == second.maxHeightPrevoted && first.height >= second.height {
		return true
	}
	if first.height > second.maxHeightGenerated {
		return true
	}
	if first.maxHeightPrevoted > second.maxHeightPrevoted {
		return true
	}
	return false
}

// zzSucc: y is a legitimate successor of x (DESIGN App. B.1 (ii)).
func zzSucc(x, y *bftBlockHeader) bool {
	return y.maxHeightGenerated >= x.height && y.maxHeightGenerated >= x.maxHeightGenerated &&
		y.maxHeightPrevoted >= x.maxHeightPrevoted && (y.height > x.height || y.maxHeightPrevoted > x.maxHeightPrevoted)
}

// C07.a: symmetry, different generators never contradict, equals LIP-0014, equals the semantic
// characterisation "neither header is a legitimate successor of the other".
func zzH_C07_contradiction(t *zzT) {
	a := zzHdr(t, "a")
	b := zzHdr(t, "b")
	sameGen := a.generatorAddress[1] == b.generatorAddress[1]
	distinct := !(sameGen && a.height == b.height && a.maxHeightGenerated == b.maxHeightGenerated && a.maxHeightPrevoted == b.maxHeightPrevoted)
	t.Assume(distinct)
	ab := AreDistinctHeadersContradicting(a, b)
	ba := AreDistinctHeadersContradicting(b, a)
	t.ObserveBool("ab", ab)
	t.Assert(ab == ba, "symmetric")
	if !sameGen {
		t.Assert(!ab, "different generators never contradict")
	}
	t.Assert(ab == zzRefLIP14(a, b), "equals LIP-0014 definition")
	if sameGen {
		t.Assert(ab == (!zzSucc(a, b) && !zzSucc(b, a)), "contradicting iff neither is a legitimate successor")
	}
	t.Reach("end")
}
