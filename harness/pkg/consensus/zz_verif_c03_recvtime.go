//go:build verif

package consensus

import (
	"bytes"
	"context"
	"time"

	"github.com/LiskHQ/lisk-engine/pkg/db"
)

// C03 "A block failing any rule leaves chain, consensus state, finalized height and emitted events exactly as
// they were" for the piece of fork-choice state the node keeps in memory: the time at which the TIP was received
// (Executer.lastBlockReceived). LIP-0014 prefers, between two blocks of the same height, the one received within
// its own slot; a block that extends the tip but is then REFUSED (wrong signer, application refusal — such blocks
// pass the static gossip validation and can be sent by any peer) must not be taken for the tip's reception:
// otherwise it makes a tip that arrived in time look late, and a later competing block replaces it.
// Through the real Executer.process: successor of the tip, valid or refused for a symbolic reason; then the
// competing sibling of the tip that a tie break would prefer only if the tip had been received late.
//
//zz:opt loop=400 lockdiscipline=off require=refused,accepted
//zz:stub time.Now zzxStubNow
func zzH_C03_refused_block_keeps_receive_time(t *zzT) {
	n := zzxNewNode(t, 2, 0, 2) // the wall clock is in the second slot after genesis
	tipBlock := n.nextValid(1, nil)
	other := n.nextValid(2, nil) // competing sibling of the tip: same parent, later slot, the other validator
	if err := n.ex.processValidated(context.Background(), tipBlock, false, false); err != nil {
		t.Fail("setup: tip rejected")
		return
	}
	for len(n.chNew) > 0 {
		<-n.chNew
	}
	tip := n.chain.LastBlock().Header
	inTime := time.Unix(int64(tip.Timestamp)+1, 0) // the tip was received within its own slot
	n.ex.lastBlockReceived = &inTime
	b := n.nextValid(1, nil)
	why := t.Choice("refused.because", 4) // 0 accepted, 1 signed by the other validator, 2 application refuses, 3 wrong validatorsHash
	switch why {
	case 1:
		gi := (n.slotOf(b.Header.Timestamp) + 1) % 2
		b.Header.Sign(zzxChainID, zzxPriv[gi])
		b.Header.Init()
	case 2:
		fi := int(t.U8("abi.failAt"))
		t.Assume(fi >= 1 && fi < 8 && fi != 4 && fi != 5)
		n.abi.failIdx, n.abi.failOnce = fi, true
	case 3:
		b.Header.ValidatorsHash = append([]byte{}, b.Header.ValidatorsHash...)
		b.Header.ValidatorsHash[0] ^= 1
		b.Header.Sign(zzxChainID, zzxPriv[n.slotOf(b.Header.Timestamp)%2])
		b.Header.Init()
	}
	before := db.ZZDump(n.database)
	err := n.ex.process(&ProcessContext{ctx: context.Background(), block: b, peerID: "peer"})
	if why == 0 {
		t.Assert(err == nil && bytes.Equal(n.chain.LastBlock().Header.ID, b.Header.ID), "a valid successor is accepted")
		t.Assert(n.ex.lastBlockReceived != nil && zzxNear(n.ex.lastBlockReceived.Unix(), zzxNowUnix(t)), "an accepted block is the new tip and its receive time is recorded")
		t.Reach("accepted")
		return
	}
	t.Assert(err != nil && bytes.Equal(n.chain.LastBlock().Header.ID, tip.ID), "a refused successor leaves the tip")
	t.Assert(zzxDumpEqual(before, db.ZZDump(n.database)), "a refused successor leaves the database unchanged")
	t.Assert(n.ex.lastBlockReceived != nil && n.ex.lastBlockReceived.Equal(inTime), "a refused successor leaves the receive time of the tip unchanged")
	// the consequence: the competing sibling arrives within its slot; the tip was received in time, so it stays
	n.abi.failIdx = 0
	err = n.ex.process(&ProcessContext{ctx: context.Background(), block: other, peerID: "peer"})
	t.Assert(err == nil && bytes.Equal(n.chain.LastBlock().Header.ID, tip.ID), "after a refused block a competing sibling does not replace a tip that was received within its slot")
	t.Assert(zzxDumpEqual(before, db.ZZDump(n.database)), "the discarded sibling leaves the database unchanged")
	t.Reach("refused")
}

// the wall clock second process() saw: the stubbed clock under the engine, the real one natively (within 2 s)
func zzxNowUnix(t *zzT) int64 {
	if t.Symbolic() {
		return zzxNowVal
	}
	return time.Now().Unix()
}

func zzxNear(a, b int64) bool { return a-b <= 2 && b-a <= 2 }
