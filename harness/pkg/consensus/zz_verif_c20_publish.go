//go:build verif

package consensus

import (
	"context"
	"errors"

	"github.com/LiskHQ/lisk-engine/pkg/db"
	"github.com/LiskHQ/lisk-engine/pkg/p2p"
)

// C20 / C03 for the node's OWN blocks. A block handed over by the generator reaches processValidated with
// publish = true: the block is gossiped from a goroutine started in the middle of the step while the
// consensus goroutine goes on executing it. That goroutine must not share anything with the step — in
// particular not its `err` variable: a publish result written into it between the application's verdict
// and the test of that verdict turns a refused block into an accepted one (or a valid one into a refused
// one). For every interleaving of the publish goroutine with the step, and every publish outcome
// (delivered / ErrTopicNotFound):
//   - a block the application refuses (scripted failure at any ABI step after verification) is refused and
//     leaves the chain, the database and the events untouched,
//   - a valid block is accepted,
//   - and the race monitor sees no unsynchronised access (natively: go test -race).

var zzpPublishFails bool

var zzpErrPublish = errors.New("zzp: publish failed")

func zzpStubPublish(gs *p2p.GossipSub, ctx context.Context, topicName string, data []byte) error {
	if zzpPublishFails {
		return zzpErrPublish
	}
	return nil
}

//zz:opt loop=80 lockdiscipline=off sched=2 race=1 racereport=1 schedule=1 join=1
//zz:opt require=refused,accepted
//zz:stub time.Now zzxStubNow
//zz:stub (*~/pkg/p2p.GossipSub).Publish zzpStubPublish
func zzH_C20_own_block_publish(t *zzT) {
	n := zzxNewNode(t, 2, 1, 1)
	// natively: a connection that was never started has no topics — Publish returns ErrTopicNotFound, which
	// is the outcome that matters (a non-nil publish result racing with the step's verdict)
	n.ex.conn = p2p.NewConnection(zzxLogger{}, &p2p.Config{})
	zzpPublishFails = t.Bool("publish.fails")
	b := n.nextValid(1, nil)
	fail := t.Choice("abi.failure", 4) // 0 none, else a step after abi.Verify
	steps := []string{"", "BeforeTransactionsExecute", "AfterTransactionsExecute", "Commit"}
	n.abi.failAt = steps[fail]
	pre := n.chain.LastBlock().Header.ID
	dump := db.ZZDump(n.database)

	reps := 1
	if !t.Symbolic() {
		reps = 1
	}
	var err error
	for r := 0; r < reps; r++ {
		err = n.ex.processValidated(context.Background(), b, true, false)
	}

	if fail != 0 {
		t.Assert(err != nil, "own block refused by the application: processValidated reports the failure whatever the publish goroutine does")
		t.Assert(string(n.chain.LastBlock().Header.ID) == string(pre), "own block refused by the application: the tip is unchanged")
		t.Assert(zzxDumpEqual(dump, db.ZZDump(n.database)), "own block refused by the application: the database is unchanged")
		t.Assert(len(n.chNew) == 0 && len(n.chFinal) == 0, "own block refused by the application: no event is emitted")
		t.Reach("refused")
	} else {
		t.Assert(err == nil, "own valid block: accepted whatever the publish goroutine reports")
		t.Assert(string(n.chain.LastBlock().Header.ID) == string(b.Header.ID), "own valid block: it is the new tip")
		t.Reach("accepted")
	}
}

//zz:opt loop=80 lockdiscipline=off sched=2 race=1 racereport=1 schedule=1 join=1
//zz:opt require=refused,accepted
//zz:stub time.Now zzxStubNow
//zz:stub (*~/pkg/p2p.GossipSub).Publish zzpStubPublish
func zzH_C03_own_block_publish(t *zzT) { zzH_C20_own_block_publish(t) }
