//go:build verif

package consensus

import (
	"context"
	"time"

	"github.com/LiskHQ/lisk-engine/pkg/blockchain"
	"github.com/LiskHQ/lisk-engine/pkg/codec"
	"github.com/LiskHQ/lisk-engine/pkg/collection/bytes"
	"github.com/LiskHQ/lisk-engine/pkg/crypto"
	"github.com/LiskHQ/lisk-engine/pkg/db"
)

// Sanity: a fully valid block on a healthy node is accepted (guards the environment itself).
//
//zz:opt loop=80 lockdiscipline=off
//zz:stub time.Now zzxStubNow
func zzH_C03_valid_block_accepted(t *zzT) {
	n := zzxNewNode(t, 2, 1, 1)
	b := n.nextValid(1, nil)
	pre := n.chain.LastBlock().Header.Height
	err := n.ex.processValidated(context.Background(), b, false, false)
	t.Assert(err == nil, "a fully valid successor block is accepted")
	t.Assert(n.chain.LastBlock().Header.Height == pre+1, "the tip advances by one")
	t.ObserveU64("tip", uint64(n.chain.LastBlock().Header.Height))
	t.Reach("end")
}

// Deviation selection. The property quantifies over blocks obtained from a valid successor by altering
// ONE thing; zzxDevPick (a forking choice made once per run) names the altered thing, every other
// deviation flag is concretely false. With pairs=1 (thorough) a second, independent pick is added.
var zzxDevNames = []string{"none", "dev.txStaticallyInvalid", "dev.payloadTooLarge", "dev.version", "dev.heightDelta", "dev.previousBlockID",
	"dev.slot", "dev.generator", "dev.maxHeightPrevoted", "dev.maxHeightGenerated", "dev.aggregateCommitHeight", "dev.transactionRoot", "dev.assetRoot",
	"dev.eventRoot", "dev.validatorsHash", "dev.signedByOtherValidator", "dev.signatureGarbage", "dev.abiFailure", "dev.abiVerifyResult",
	"dev.fieldChangedAfterSigning"}
var zzxDevPick, zzxDevPick2 int

func zzxDev(t *zzT, name string) bool {
	return zzxDevNames[zzxDevPick] == name || (zzxDevPick2 > 0 && zzxDevNames[zzxDevPick2] == name)
}

// zzxSel returns a if c else b, byte-wise and without forking (a and b have equal length).
func zzxSel(t *zzT, c bool, a, b []byte) []byte {
	out := make([]byte, len(a))
	for i := range a {
		out[i] = byte(t.IteU32(c, uint32(a[i]), uint32(b[i])))
	}
	return out
}

func zzxTx(paramsLen int, module string) *blockchain.Transaction {
	tx := &blockchain.Transaction{Module: module, Command: "transfer", Nonce: 1, Fee: 100, SenderPublicKey: zzxPub[0],
		Params: bytes.Repeat([]byte{1}, paramsLen), Signatures: []codec.Hex{bytes.Repeat([]byte{2}, 64)}}
	tx.Init()
	return tx
}

// zzxRefContradicting: LIP-0014 contradiction of the new header against the most recent header of the
// same generator on the node's chain (independent transcription, as in the C07 harness).
func zzxRefContradicting(n *zzxNode, h *blockchain.BlockHeader) bool {
	tip := n.chain.LastBlock().Header
	for hh := tip.Height; hh > zzxGenesisH; hh-- {
		p, err := n.chain.DataAccess().GetBlockHeaderByHeight(hh)
		if err != nil || !bytes.Equal(p.GeneratorAddress, h.GeneratorAddress) {
			continue
		}
		// order by (mhg, mhp, height)
		a, b := p, h
		less := a.MaxHeightGenerated < b.MaxHeightGenerated ||
			(a.MaxHeightGenerated == b.MaxHeightGenerated && (a.MaxHeightPrevoted < b.MaxHeightPrevoted ||
				(a.MaxHeightPrevoted == b.MaxHeightPrevoted && a.Height <= b.Height)))
		if !less {
			a, b = b, a
		}
		if a.MaxHeightPrevoted == b.MaxHeightPrevoted && a.Height >= b.Height {
			return true
		}
		if a.Height > b.MaxHeightGenerated {
			return true
		}
		return a.MaxHeightPrevoted > b.MaxHeightPrevoted
	}
	return false
}

// C03.a + C03.b + C13.a/b + C04.b on one step: a block obtained from a valid successor by symbolic
// deviations of single fields / payload / signature / signer / slot / aggregate commit / application
// verdicts is appended only if no rule is violated; a rejected block changes nothing; an accepted
// block is committed by exactly one atomic write after the application commit, with the finalized
// height raised to the precommitted height in that same write and a finalization event iff raised.
//
//zz:opt loop=80 lockdiscipline=off require=accepted,rejected
//zz:stub time.Now zzxStubNow
//zz:quick extra=1 pairs=0 budget=300s
//zz:thorough extra=2 pairs=1 budget=60m
func zzH_C03_accept_implies_rules(t *zzT) { zzxAcceptStep(t) }

func zzxAcceptStep(t *zzT) {
	if only := t.Param("onlydev", -1); only >= 0 {
		zzxDevPick = only
	} else {
		zzxDevPick = t.Choice("deviation", len(zzxDevNames))
	}
	zzxDevPick2 = 0
	if t.Param("pairs", 0) == 1 {
		zzxDevPick2 = t.Choice("deviation2", len(zzxDevNames))
	}
	n := zzxNewNode(t, 2, t.Param("extra", 1), 2) // wall clock is 2 slots ahead of the tip
	// the step may run inside a sync (Executer.process sets the flag around Syncer.Sync, which hands the
	// downloaded blocks to processValidated): nothing about the step may depend on it
	n.ex.syncying = t.Param("syncing", 0) == 1
	tip := n.chain.LastBlock().Header
	// payload
	ntx := t.Range("ntx", 0, 1)
	if zzxDev(t, "dev.txStaticallyInvalid") || zzxDev(t, "dev.payloadTooLarge") || zzxDev(t, "dev.abiVerifyResult") {
		t.Assume(ntx == 1)
	}
	devTxStatic := zzxDev(t, "dev.txStaticallyInvalid")
	devPayloadSize := zzxDev(t, "dev.payloadTooLarge")
	var txs []*blockchain.Transaction
	if ntx == 1 {
		module := "token"
		if devTxStatic {
			module = "to-ken" // not alphanumeric: Transaction.Validate() rejects it
		}
		plen := 4
		if devPayloadSize {
			plen = 400 // chain is configured with MaxTransactionsLength = 300 below
		}
		txs = append(txs, zzxTx(plen, module))
	}
	n.chain = n.chain // (config is fixed at construction; see zzxNewNode)
	slotU := t.U8("slot") // 0: same slot as the tip, 1..2: valid, 3: future
	t.Assume(slotU < 4)
	if !zzxDev(t, "dev.slot") {
		t.Assume(slotU == 1 || slotU == 2)
	}
	slot := int(slotU)
	// within the slot the timestamp is free as well (the rules compare SLOTS, not timestamps: a later
	// timestamp inside the tip's own slot is still the same slot)
	off := t.U8("slot.offset")
	t.Assume(off < zzxBlockTime)
	if !zzxDev(t, "dev.slot") {
		t.Assume(off == 0)
	}
	ts := tip.Timestamp + uint32(slotU)*zzxBlockTime + uint32(off)
	b := n.nextValid(1, txs)
	h := b.Header
	mhp, _, cert := n.heights()
	// ---- deviations (branch-free: the code under test decides where to fork) ----
	devVersion := zzxDev(t, "dev.version")
	h.Version = t.IteU32(devVersion, t.U32("version"), 2)
	t.Assume(t.Implies(devVersion, h.Version != 2))
	dh := t.U8("dev.heightDelta")
	t.Assume(dh < 3)
	if !zzxDev(t, "dev.heightDelta") {
		t.Assume(dh == 1)
	}
	h.Height = tip.Height + uint32(dh) // valid iff dh == 1
	devPrev := zzxDev(t, "dev.previousBlockID")
	h.PreviousBlockID = append([]byte{}, tip.ID...)
	h.PreviousBlockID[0] ^= byte(t.IteU32(devPrev, 1, 0))
	h.Timestamp = ts
	// generator of the slot (2 validators, round robin on the slot number)
	tipSlot := n.slotOf(tip.Timestamp)
	slotGenIs0 := (uint32(tipSlot)+uint32(slotU))%2 == 0
	devGen := zzxDev(t, "dev.generator")
	headerGenIs0 := slotGenIs0 != devGen
	h.GeneratorAddress = zzxSel(t, headerGenIs0, zzxAddr[0], zzxAddr[1])
	devMhp := zzxDev(t, "dev.maxHeightPrevoted")
	h.MaxHeightPrevoted = mhp + t.IteU32(devMhp, 1, 0)
	// honest maxHeightGenerated of whoever the header names as generator: the height of its latest block
	// on this chain (nextValid filled in the value of the generator of slot +1)
	var lastBy [2]uint32
	for hh := tip.Height; hh > zzxGenesisH; hh-- {
		bh, err := n.chain.DataAccess().GetBlockHeaderByHeight(hh)
		if err != nil {
			break
		}
		for g := 0; g < 2; g++ {
			if lastBy[g] == 0 && bytes.Equal(bh.GeneratorAddress, zzxAddr[g]) {
				lastBy[g] = hh
			}
		}
	}
	h.MaxHeightGenerated = t.IteU32(headerGenIs0, lastBy[0], lastBy[1])
	if zzxDev(t, "dev.maxHeightGenerated") {
		h.MaxHeightGenerated = uint32(t.U8("maxHeightGenerated"))
		t.Assume(h.MaxHeightGenerated < 8)
	}
	devAgg := zzxDev(t, "dev.aggregateCommitHeight")
	h.AggregateCommit = &blockchain.AggregateCommit{Height: cert + t.IteU32(devAgg, 1, 0), AggregationBits: []byte{}, CertificateSignature: []byte{}}
	devTxRoot := zzxDev(t, "dev.transactionRoot")
	h.TransactionRoot = append([]byte{}, h.TransactionRoot...)
	h.TransactionRoot[0] ^= byte(t.IteU32(devTxRoot, 1, 0))
	devAssetRoot := zzxDev(t, "dev.assetRoot")
	h.AssetRoot = append([]byte{}, h.AssetRoot...)
	h.AssetRoot[0] ^= byte(t.IteU32(devAssetRoot, 1, 0))
	devEventRoot := zzxDev(t, "dev.eventRoot")
	h.EventRoot = append([]byte{}, crypto.Hash([]byte{})...) // execution emits no events: root of the empty list
	h.EventRoot[0] ^= byte(t.IteU32(devEventRoot, 1, 0))
	devValHash := zzxDev(t, "dev.validatorsHash")
	h.ValidatorsHash = append([]byte{}, n.validatorsHash...)
	h.ValidatorsHash[0] ^= byte(t.IteU32(devValHash, 1, 0))
	// signature: by the generator named in the header, by the other validator, or garbage
	devSigner := zzxDev(t, "dev.signedByOtherValidator")
	devSigGarbage := zzxDev(t, "dev.signatureGarbage")
	signerIs0 := headerGenIs0 != devSigner
	h.Sign(zzxChainID, zzxSel(t, signerIs0, zzxPriv[0], zzxPriv[1]))
	if devSigGarbage { // (the deviation is concrete per path: no byte-wise selection, the signature term stays intact)
		h.Signature = bytes.Repeat([]byte{0xff}, 64)
	}
	// a header field changed AFTER signing (the signature stays): the signature covers every header
	// field, so the block must be refused — here the impliesMaxPrevotes flag, which no other rule looks at
	devAfterSign := zzxDev(t, "dev.fieldChangedAfterSigning")
	if devAfterSign {
		h.ImpliesMaxPrevotes = !h.ImpliesMaxPrevotes
	}
	h.Init()
	sigOK := !devSigner && !devSigGarbage && !devAfterSign
	// application verdicts (compared lazily inside the fake)
	failIdx := int(t.U8("abi.failAt"))
	t.Assume(failIdx < 8)
	if !zzxDev(t, "dev.abiFailure") {
		t.Assume(failIdx == 0)
	}
	n.abi.failIdx = failIdx
	vr := t.U8("abi.verifyResult")
	t.Assume(vr < 3)
	if !zzxDev(t, "dev.abiVerifyResult") {
		t.Assume(vr == 2)
	}
	n.abi.verifyResult = int32(vr) - 1 // -1, 0, 1

	contradicting := zzxRefContradicting(n, h)
	// the stored finalized height may be ahead of what the BFT state currently reports (a block that
	// raised it was removed again by a tie-break or a sync): arbitrary value at or above the stored one
	if t.Param("finAhead", 1) == 1 {
		cur, _ := n.chain.DataAccess().GetFinalizedHeight()
		ahead := t.U8("finalizedAhead")
		t.Assume(ahead < 4)
		n.database.Set([]byte{27}, bytes.FromUint32(cur+uint32(ahead)))
		db.ZZMonitorReset(n.database)
	}
	before := db.ZZDump(n.database)
	finBefore, _ := n.chain.DataAccess().GetFinalizedHeight()

	// ---- the step, as Executer.process does for a valid successor ----
	// the step may re-apply a block from the temp store (sync-failure restore: processValidated(…, removeTemp=true));
	// a temp copy at this height is then stored beforehand and must be gone, within the same batch, afterwards
	removeTemp := t.Param("removeTemp", 0) == 1
	tempKey := bytes.Join(blockchain.DBPrefixToBytes(blockchain.DBPrefix(7)), bytes.FromUint32(h.Height))
	if removeTemp {
		n.database.Set(tempKey, b.Encode())
		db.ZZMonitorReset(n.database)
		before = db.ZZDump(n.database)
	}
	err := b.Validate()
	if err == nil {
		err = n.ex.processValidated(context.Background(), b, false, removeTemp)
	}
	writes, direct, batchOps := db.ZZMonitor(n.database)
	if err == nil {
		t.Assert(!devVersion, "rule: version")
		t.Assert(dh == 1, "rule: consecutive height")
		t.Assert(!devPrev, "rule: previous block link")
		t.Assert(slot >= 1, "rule: strictly later slot than the tip")
		t.Assert(slot <= 2, "rule: not a future slot")
		t.Assert(!devGen, "rule: generator assigned to the slot")
		t.Assert(sigOK, "rule: signature by the generator key over the header")
		t.Assert(!devMhp, "rule: maxHeightPrevoted equals the node's own value")
		t.Assert(!contradicting, "rule: no contradiction with the generator's earlier headers")
		t.Assert(!devAgg, "rule: valid aggregate commit")
		t.Assert(!devTxRoot, "rule: transaction root matches the payload")
		t.Assert(!devAssetRoot, "rule: asset root matches the assets")
		t.Assert(!devValHash, "rule: validatorsHash matches the execution result")
		t.Assert(failIdx == 0 || (ntx == 0 && (failIdx == 4 || failIdx == 5)), "rule: application accepted every step")
		t.Assert(ntx == 0 || vr == 2, "rule: transaction verified by the application")
		t.Assert(!devEventRoot, "rule: event root matches the events of the execution")
		t.Assert(ntx == 0 || !devTxStatic, "rule: payload transactions statically valid")
		t.Assert(ntx == 0 || !devPayloadSize, "rule: payload within the size limit")
		// C13.a/b: one atomic write, after the application commit
		if writes >= 0 {
			t.Assert(writes == 1 && direct == 0, "commit: exactly one atomic batch write and no direct writes")
			t.Assert(n.abi.writesAtCommit == 0, "commit: application commit precedes the database write")
		}
		t.Assert(batchOps != 0, "commit: the batch carries the block")
		if removeTemp {
			_, still := n.database.Get(tempKey)
			t.Assert(!still, "a block re-applied from the temp store leaves no temp copy behind")
		}
		t.Assert(n.chain.LastBlock().Header.Height == tip.Height+1 && bytes.Equal(n.chain.LastBlock().Header.ID, h.ID), "accepted block is the new tip")
		// C04.b
		_, precommitted, _ := n.heights()
		finAfter, ferr := n.chain.DataAccess().GetFinalizedHeight()
		want := finBefore
		if precommitted > finBefore {
			want = precommitted
		}
		t.Assert(ferr == nil && finAfter == want, "finalized height = max(previous, precommitted height), written with the block")
		t.Assert(finAfter >= finBefore, "finalized height never decreases")
		if finAfter > finBefore {
			t.Assert(n.drained(n.chFinal) == 1, "a finalization event is emitted for the raise")
			t.Reach("finality-raised")
		} else {
			t.Assert(n.drained(n.chFinal) == 0, "no finalization event without a raise")
		}
		t.Assert(n.drained(n.chNew) == 1, "new-block event emitted once")
		// C05/C13: every block above the finalized height stays removable — its revert diff is kept
		// (only diffs below the new finalized height may be pruned with this step)
		for hh := finAfter + 1; hh <= tip.Height+1; hh++ {
			_, ok := n.database.Get(bytes.Join(blockchain.DBPrefixToBytes(blockchain.DBPrefixStateDiff), bytes.FromUint32(hh)))
			t.Assert(ok, "the revert diff of every block above the finalized height is kept")
		}
		zzxRestartCheck(t, n)
		t.Reach("accepted")
		return
	}
	// C03.b: rejected => nothing changed
	t.Assert(zzxDumpEqual(before, db.ZZDump(n.database)), "rejected block leaves the database unchanged")
	if writes >= 0 {
		t.Assert(writes == 0 && direct == 0, "rejected block performs no durable write")
	}
	t.Assert(bytes.Equal(n.chain.LastBlock().Header.ID, tip.ID), "rejected block leaves the tip unchanged")
	t.Assert(n.drained(n.chNew) == 0 && n.drained(n.chFinal) == 0, "rejected block emits no event")
	zzxRestartCheck(t, n)
	t.Reach("rejected")
}

func zzxFilter(kvs []db.KeyValue, skip func(k []byte) bool) []db.KeyValue {
	out := []db.KeyValue{}
	for _, kv := range kvs {
		if !skip(kv.Key()) {
			out = append(out, kv)
		}
	}
	return out
}

// C04.a + C13 (removal) + C05.d: deleteBlock never removes a block at or below the finalized height
// (finalized height fully symbolic), a refused or failed delete changes nothing, and a successful
// delete is one atomic write after the application revert, restores the previous tip, emits one
// delete event and keeps the block as a temporary block iff requested.
//
//zz:opt loop=80 lockdiscipline=off require=deleted,refused
//zz:stub time.Now zzxStubNow
func zzH_C04_delete_guard(t *zzT) { zzxDeleteStep(t) }

func zzxDeleteStep(t *zzT) {
	n := zzxNewNode(t, 2, 1, 2)
	// the tip to be removed: with or without a payload
	var tipTxs []*blockchain.Transaction
	if t.Bool("tipHasTransaction") {
		tipTxs = append(tipTxs, zzxTx(4, "token"))
	}
	if err := n.ex.processValidated(context.Background(), n.nextValid(1, tipTxs), false, false); err != nil {
		t.Fail("setup: valid block rejected")
	}
	for len(n.chNew) > 0 {
		<-n.chNew
	}
	for len(n.chFinal) > 0 {
		<-n.chFinal
	}
	tipBlock := n.chain.LastBlock()
	prevHeader, _ := n.chain.DataAccess().GetBlockHeaderByHeight(tipBlock.Header.Height - 1)
	// arbitrary stored finalized height
	f := t.U32("finalizedHeight")
	n.database.Set([]byte{27}, bytes.FromUint32(f))
	db.ZZMonitorReset(n.database)
	if t.Bool("abi.revertFails") {
		n.abi.failAt = "Revert"
	}
	saveTemp := t.Bool("saveTemp")
	before := db.ZZDump(n.database)
	err := n.ex.deleteBlock(context.Background(), tipBlock, saveTemp)
	writes, direct, _ := db.ZZMonitor(n.database)
	if err != nil {
		t.Assert(zzxDumpEqual(before, db.ZZDump(n.database)), "refused delete leaves the database unchanged")
		t.Assert(bytes.Equal(n.chain.LastBlock().Header.ID, tipBlock.Header.ID), "refused delete leaves the tip unchanged")
		t.Assert(n.drained(n.chDelete) == 0, "refused delete emits no event")
		if writes >= 0 {
			t.Assert(writes == 0 && direct == 0, "refused delete performs no durable write")
		}
		t.Reach("refused")
		return
	}
	t.Assert(tipBlock.Header.Height > f, "a block at or below the finalized height is never removed")
	if writes >= 0 {
		t.Assert(writes == 1 && direct == 0, "removal: exactly one atomic batch write and no direct writes")
		t.Assert(n.abi.writesAtRevert == 0, "removal: application revert precedes the database write")
	}
	t.Assert(bytes.Equal(n.chain.LastBlock().Header.ID, prevHeader.ID), "the previous block is the tip again")
	t.Assert(n.drained(n.chDelete) == 1, "one delete event")
	for _, tx := range tipBlock.Transactions {
		_, txStill := n.database.Get(bytes.Join([]byte{6}, tx.ID))
		t.Assert(!txStill, "transactions of the removed block are gone")
	}
	_, hdrStill := n.database.Get(bytes.Join([]byte{3}, tipBlock.Header.ID))
	_, idxStill := n.database.Get(bytes.Join([]byte{4}, bytes.FromUint32(tipBlock.Header.Height)))
	_, diffStill := n.database.Get(bytes.Join([]byte{51}, bytes.FromUint32(tipBlock.Header.Height)))
	t.Assert(!hdrStill && !idxStill && !diffStill, "header, height index and state diff of the removed block are gone")
	tmp, tmpExist := n.database.Get(bytes.Join([]byte{7}, bytes.FromUint32(tipBlock.Header.Height)))
	t.Assert(tmpExist == saveTemp, "temporary copy kept iff requested")
	if tmpExist {
		t.Assert(bytes.Equal(tmp, tipBlock.Encode()), "temporary copy is the removed block")
	}
	fin, _ := n.chain.DataAccess().GetFinalizedHeight()
	t.Assert(fin == f, "delete does not lower the finalized height")
	zzxRestartCheck(t, n)
	t.Reach("deleted")
}

// C05: applying a valid block and deleting it again restores the exact persistent state (consensus
// store, indexes, cached tip) apart from the finalized-height marker and the optional temporary copy.
//
//zz:opt loop=80 lockdiscipline=off
//zz:stub time.Now zzxStubNow
//zz:quick extra=1
//zz:thorough extra=2
func zzH_C05_apply_delete_roundtrip(t *zzT) {
	n := zzxNewNode(t, 2, t.Param("extra", 1), 2)
	ntx := t.Range("ntx", 0, 1)
	var txs []*blockchain.Transaction
	if ntx == 1 {
		txs = append(txs, zzxTx(4, "token"))
	}
	slots := t.Range("slots", 1, 2)
	tip := n.chain.LastBlock().Header
	p0, c0, f0 := n.heights()
	skip := func(k []byte) bool { return len(k) > 0 && (k[0] == 27 || k[0] == 7) }
	before := zzxFilter(db.ZZDump(n.database), skip)
	b := n.nextValid(slots, txs)
	if err := n.ex.processValidated(context.Background(), b, false, false); err != nil {
		t.Fail("valid block rejected")
	}
	mid := zzxFilter(db.ZZDump(n.database), skip)
	t.Assert(!zzxDumpEqual(before, mid), "applying a block changes the database")
	saveTemp := t.Bool("saveTemp")
	err := n.ex.deleteBlock(context.Background(), n.chain.LastBlock(), saveTemp)
	fin, _ := n.chain.DataAccess().GetFinalizedHeight()
	if err != nil {
		t.Assert(b.Header.Height <= fin, "the tip can be deleted unless it is already final")
		t.Reach("final-not-deletable")
		return
	}
	after := zzxFilter(db.ZZDump(n.database), skip)
	t.Assert(zzxDumpEqual(before, after), "state after apply+delete equals the state before (all indexes and the consensus store)")
	t.Assert(bytes.Equal(n.chain.LastBlock().Header.ID, tip.ID), "cached tip restored")
	p1, c1, f1 := n.heights()
	t.Assert(p0 == p1 && c0 == c1 && f0 == f1, "BFT heights restored")
	t.ObserveU64("finalized", uint64(fin))
	t.Reach("restored")
}


// zzxRestartCheck (C13.c): a node restarted on the database as it is now finds a tip whose data is
// complete and whose consensus (BFT) store is at exactly that tip.
func zzxRestartCheck(t *zzT, n *zzxNode) {
	chain2 := blockchain.NewChain(&blockchain.ChainConfig{ChainID: zzxChainID, MaxTransactionsLength: 300, MaxBlockCache: 5, KeepEventsForHeights: -1})
	chain2.Init(n.genesis, n.database)
	err := chain2.PrepareCache()
	last := chain2.LastBlock()
	t.Assert(err == nil && last != nil, "restart: the highest height index entry dereferences to a complete block")
	if err != nil || last == nil {
		return
	}
	t.Assert(bytes.Equal(last.Header.ID, n.chain.LastBlock().Header.ID), "restart: the stored tip is the in-memory tip")
	_, diffExist := n.database.Get(bytes.Join([]byte{51}, bytes.FromUint32(last.Header.Height)))
	t.Assert(diffExist || last.Header.Height == zzxGenesisH, "restart: the tip has its revert diff")
	_, aboveExist := n.database.Get(bytes.Join([]byte{51}, bytes.FromUint32(last.Header.Height+1)))
	t.Assert(!aboveExist, "restart: no revert diff without its block")
	ok, cerr := n.ex.liskBFT.API().IsHeaderContradictingChain(n.store(), last.Header.Readonly())
	_ = ok
	t.Assert(cerr == nil, "restart: consensus store readable")
	cur, verr := n.ex.liskBFT.API().GetCurrentValidators(n.store())
	if last.Header.Height > zzxGenesisH {
		t.Assert(verr == nil && len(cur) > 0, "restart: consensus store holds the window of the tip")
	}
}

// C13.a/b/c (commit side): see zzxAcceptStep — exactly one atomic write per accepted block, none per
// rejected block, application commit before it, restart finds a consistent tip in both outcomes.
//
//zz:opt loop=80 lockdiscipline=off require=accepted,rejected,finality-raised
//zz:stub time.Now zzxStubNow
//zz:quick extra=3 pairs=0 budget=300s
//zz:thorough extra=4 pairs=0 budget=30m
func zzH_C13_commit_atomic(t *zzT) { zzxAcceptStep(t) }

// C13.a/b/c (removal side): see zzxDeleteStep.
//
//zz:opt loop=80 lockdiscipline=off require=deleted,refused
//zz:stub time.Now zzxStubNow
func zzH_C13_remove_atomic(t *zzT) { zzxDeleteStep(t) }

// C04.b: finalized height raised to the precommitted height in the same write, event iff raised
// (assertions of zzxAcceptStep).
//
//zz:opt loop=80 lockdiscipline=off require=accepted,rejected,finality-raised
//zz:stub time.Now zzxStubNow
//zz:quick extra=3 pairs=0 budget=300s
//zz:thorough extra=4 pairs=0 budget=30m
func zzH_C04_finalized_height_step(t *zzT) { zzxAcceptStep(t) }

// C03.a, contradiction rule on a chain long enough that the generator of the new block already has TWO
// headers inside the vote window (genesis + 4 blocks, 2 validators): the block is accepted only if its
// maxHeightGenerated does not contradict the generator's MOST RECENT header (reference:
// zzxRefContradicting). Only the maxHeightGenerated deviation (index 9 of zzxDevNames) is explored.
//
//zz:opt loop=80 lockdiscipline=off require=accepted,rejected
//zz:stub time.Now zzxStubNow
//zz:quick extra=4 onlydev=9 finAhead=0 budget=300s
//zz:thorough extra=5 onlydev=9 finAhead=0 budget=30m
func zzH_C03_contradiction_in_window(t *zzT) { zzxAcceptStep(t) }

// C05.a premise on a longer chain: after a step that raises finality (and prunes revert diffs), every
// block above the finalized height can still be removed — the diff of each of them is still stored
// (assertion "the revert diff of every block above the finalized height is kept" of zzxAcceptStep;
// only the valid successor is explored here).
//
//zz:opt loop=80 lockdiscipline=off require=accepted,finality-raised
//zz:stub time.Now zzxStubNow
//zz:quick extra=3 onlydev=0 budget=300s
//zz:thorough extra=5 onlydev=0 budget=30m
func zzH_C05_diffs_kept_above_finalized(t *zzT) { zzxAcceptStep(t) }

// C03 (+C04/C07.d dispatch): the fork-choice dispatch of the real Executer.process on a TIE BREAK: the tip B
// (height h, received outside its slot) against a competing block B' of the other validator at the same
// height, same parent, same maxHeightPrevoted, one slot later, received inside its slot. B' is a valid
// block or deviates in one thing (static validity, signature, application verdicts). Either B' is the new
// tip and then every rule holds for it, or the node is exactly where it was: tip, database (byte for byte),
// finalized height — and a block refused before anything was touched (static rules) emits no event.
// (seed C03-5 moved Block.Validate below deleteBlock in this branch: a statically invalid competing block
// then removes the tip.)
//
//zz:opt loop=80 lockdiscipline=off require=replaced,kept
//zz:stub time.Now zzxStubNow
//zz:quick extra=2
//zz:thorough extra=3
func zzH_C03_tie_break_step(t *zzT) {
	devs := []string{"none", "dev.transactionRoot", "dev.txStaticallyInvalid", "dev.signatureGarbage", "dev.abiFailure", "dev.validatorsHash", "dev.maxHeightPrevoted"}
	dev := devs[t.Choice("deviation", len(devs))]
	extra := t.Param("extra", 2)
	// chain of extra-1 blocks, then the tip B one slot later; the wall clock ends in the slot after B's
	n := zzxNewNode(t, 2, extra-1, 2)
	ntx := 0
	if dev == "dev.txStaticallyInvalid" {
		ntx = 1
	}
	mk := func(slots int) *blockchain.Block {
		var txs []*blockchain.Transaction
		if ntx == 1 {
			module := "token"
			if slots == 2 {
				module = "to-ken"
			}
			txs = append(txs, zzxTx(4, module))
		}
		return n.nextValid(slots, txs)
	}
	tipBlock := mk(1)
	other := mk(2) // built on the same parent: same height, previous ID and maxHeightPrevoted, next slot => other validator
	if err := n.ex.processValidated(context.Background(), tipBlock, false, false); err != nil {
		t.Fail("setup: tip rejected")
	}
	for len(n.chNew) > 0 {
		<-n.chNew
	}
	for len(n.chFinal) > 0 {
		<-n.chFinal
	}
	tip := n.chain.LastBlock().Header
	h := other.Header
	if dev == "dev.transactionRoot" {
		h.TransactionRoot = append([]byte{}, h.TransactionRoot...)
		h.TransactionRoot[0] ^= 1
	}
	if dev == "dev.validatorsHash" {
		h.ValidatorsHash = append([]byte{}, h.ValidatorsHash...)
		h.ValidatorsHash[0] ^= 1
	}
	if dev == "dev.maxHeightPrevoted" {
		// no longer a tie break (different maxHeightPrevoted): the block is a "different chain" or discarded
		h.MaxHeightPrevoted = tip.MaxHeightPrevoted + 1
	}
	gi := n.slotOf(h.Timestamp) % 2
	h.Sign(zzxChainID, zzxPriv[gi])
	if dev == "dev.signatureGarbage" {
		h.Signature = bytes.Repeat([]byte{0xff}, 64)
	}
	h.Init()
	if dev == "dev.abiFailure" {
		fi := int(t.U8("abi.failAt"))
		t.Assume(fi >= 1 && fi < 8 && fi != 4 && fi != 5) // no transaction in the block: steps 4, 5 are not called
		n.abi.failIdx, n.abi.failOnce = fi, true
	}
	// the tip was received in the slot AFTER its own (late), the competing block arrives in its own slot
	late := time.Unix(int64(h.Timestamp)+1, 0)
	n.ex.lastBlockReceived = &late
	n.abi.calls, n.abi.commits, n.abi.reverts, n.abi.commitsOK = nil, 0, 0, 0
	db.ZZMonitorReset(n.database)
	before := db.ZZDump(n.database)
	finBefore, _ := n.chain.DataAccess().GetFinalizedHeight()
	mhpB, preB, certB := n.heights()

	if dev == "dev.maxHeightPrevoted" {
		// the syncer is not part of this harness: the dispatch must not touch the chain before handing over
		n.ex.syncer = nil
		defer func() {
			recover()
			t.Assert(zzxDumpEqual(before, db.ZZDump(n.database)) && bytes.Equal(n.chain.LastBlock().Header.ID, tip.ID), "a block of a different chain changes nothing before the sync starts")
			t.Reach("kept")
		}()
	}
	err := n.ex.process(&ProcessContext{ctx: context.Background(), block: other, peerID: "peer"})
	now := n.chain.LastBlock().Header
	finAfter, _ := n.chain.DataAccess().GetFinalizedHeight()
	if bytes.Equal(now.ID, h.ID) {
		t.Assert(dev == "none", "tie break: the competing block becomes the tip only if it satisfies every rule")
		t.Assert(err == nil, "tie break: replacing the tip reports no error")
		t.Assert(now.Height == tip.Height, "tie break: the new tip has the height of the replaced one")
		t.Assert(n.drained(n.chDelete) == 1 && n.drained(n.chNew) == 1, "tie break: one delete event and one new-block event")
		t.Assert(finAfter >= finBefore, "finalized height never decreases")
		_, okOld := n.chain.DataAccess().GetBlockHeader(tip.ID)
		t.Assert(okOld != nil, "tie break: the replaced block is no longer served by ID")
		zzxRestartCheck(t, n)
		t.Reach("replaced")
		return
	}
	t.Assert(dev != "none", "tie break: a valid competing block received in its slot replaces a tip received late")
	t.Assert(bytes.Equal(now.ID, tip.ID), "refused competing block: the tip is the one before")
	t.Assert(zzxDumpEqual(before, db.ZZDump(n.database)), "refused competing block leaves the database unchanged")
	t.Assert(finAfter == finBefore, "refused competing block leaves the finalized height unchanged")
	mhpA, preA, certA := n.heights()
	t.Assert(mhpA == mhpB && preA == preB && certA == certB, "refused competing block leaves the BFT heights unchanged")
	t.Assert(n.ex.lastBlockReceived != nil && n.ex.lastBlockReceived.Equal(late), "refused competing block leaves the receive time of the tip unchanged (it decides the next tie break)")
	static := dev == "dev.transactionRoot" || dev == "dev.txStaticallyInvalid"
	if static {
		writes, direct, _ := db.ZZMonitor(n.database)
		if writes >= 0 {
			t.Assert(writes == 0 && direct == 0, "statically invalid competing block performs no durable write")
		}
		t.Assert(err != nil, "statically invalid competing block is reported as an error")
		t.Assert(n.drained(n.chDelete) == 0 && n.drained(n.chNew) == 0 && n.drained(n.chFinal) == 0, "statically invalid competing block emits no event")
		t.Assert(n.abi.reverts == 0 && n.abi.commits == 0, "statically invalid competing block does not reach the application")
	} else {
		// LIP-0014: the tip is removed, the competing block fails, the previous tip is applied again
		t.Assert(n.drained(n.chDelete) == n.drained(n.chNew), "refused competing block: every delete event is followed by the event of the restored tip")
		t.Assert(n.abi.reverts == n.abi.commitsOK, "refused competing block: the application is reverted and restored the same number of times")
	}
	zzxRestartCheck(t, n)
	t.Reach("kept")
}

// C04.b while the node is syncing: blocks applied by block sync / fast sync / temp-block restore go through
// the same processValidated with Executer.syncying set; the finalized height is raised and the finalization
// event emitted exactly as for a gossiped block (chain of 3/4 blocks so that the step raises finality).
// (seed C04-6 muted the finalization event while syncing.)
//
//zz:opt loop=80 lockdiscipline=off require=accepted,finality-raised
//zz:stub time.Now zzxStubNow
//zz:quick extra=3 onlydev=0 syncing=1 budget=300s
//zz:thorough extra=4 onlydev=0 syncing=1 budget=30m
func zzH_C04_finalized_height_step_syncing(t *zzT) { zzxAcceptStep(t) }

// C16 "events are indexed consecutively" / C03 "event root matching the execution result" at the block
// level: the application returns events from three places (before the transactions, per transaction, after
// the transactions), each numbered from its own logger — here with arbitrary index values. The engine must
// store the events of the block numbered 0..n-1 in execution order, and accept the block only with the
// event root of exactly that list: a header carrying the root of the list as numbered by the application
// (or of the list in another order) is refused.
//
//zz:opt loop=400 lockdiscipline=off gor=64 hashdepth=12 require=accepted,rejected budget=300s
//zz:stub time.Now zzxStubNow
func zzH_C16_block_events_indexed(t *zzT) {
	db.ZZUnordered = true
	n := zzxNewNode(t, 2, 1, 2)
	tx := zzxTx(4, "token")
	mkEv := func(name string, idx uint32, h uint32) *blockchain.Event {
		return blockchain.NewEventFromValues("token", name, []byte{1}, []codec.Hex{[]byte(name)}, h, idx)
	}
	b := n.nextValid(1, []*blockchain.Transaction{tx})
	h := b.Header.Height
	// what the application hands back: indexes as its per-call loggers produced them (not consecutive)
	n.abi.eventsBefore = []*blockchain.Event{mkEv("before", 0, h)}
	n.abi.eventsTx = []*blockchain.Event{mkEv("tx-a", 0, h), mkEv("tx-b", 1, h)}
	n.abi.events = []*blockchain.Event{mkEv("after", 0, h)}
	names := []string{"before", "tx-a", "tx-b", "after"}
	want := make([]*blockchain.Event, len(names))
	asReported := []*blockchain.Event{mkEv("before", 0, h), mkEv("tx-a", 0, h), mkEv("tx-b", 1, h), mkEv("after", 0, h)}
	for i, nm := range names {
		want[i] = mkEv(nm, uint32(i), h)
	}
	variant := t.Choice("header.eventRoot", 3)
	var root []byte
	var err error
	switch variant {
	case 0:
		root, err = blockchain.CalculateEventRoot(want)
	case 1:
		root, err = blockchain.CalculateEventRoot(asReported)
	default:
		swapped := []*blockchain.Event{mkEv("tx-a", 0, h), mkEv("before", 1, h), mkEv("tx-b", 2, h), mkEv("after", 3, h)}
		root, err = blockchain.CalculateEventRoot(swapped)
	}
	if err != nil {
		t.Fail("setup: event root")
	}
	b.Header.EventRoot = root
	gi := n.slotOf(b.Header.Timestamp) % 2
	b.Header.Sign(zzxChainID, zzxPriv[gi])
	b.Header.Init()
	perr := b.Validate()
	if perr == nil {
		perr = n.ex.processValidated(context.Background(), b, false, false)
	}
	if perr != nil {
		t.Assert(variant != 0, "a block whose event root is the root of the consecutively numbered events is accepted")
		t.Assert(bytes.Equal(n.chain.LastBlock().Header.ID, n.genesisTipID(1)), "refused block leaves the tip")
		t.Reach("rejected")
		return
	}
	t.Assert(variant == 0, "only the root of the events numbered 0..n-1 in execution order is accepted")
	got, gerr := n.chain.DataAccess().GetEvents(h)
	t.Assert(gerr == nil && len(got) == len(want), "the block's events are stored")
	if gerr == nil && len(got) == len(want) {
		ok := true
		for i := range got {
			if got[i].Index != uint32(i) || got[i].Name != names[i] || got[i].Height != h {
				ok = false
			}
		}
		t.Assert(ok, "stored events are numbered consecutively from 0 in execution order")
	}
	t.Reach("accepted")
}

// genesisTipID: ID of the block at the given height of the node's chain.
func (n *zzxNode) genesisTipID(height uint32) []byte {
	bh, err := n.chain.DataAccess().GetBlockHeaderByHeight(height)
	if err != nil {
		return nil
	}
	return bh.ID
}

// C13 for the FIRST step of a node's life: processing the genesis block (Executer.Init on an empty database).
// The application may refuse any of its calls (symbolic failure point, including Commit): either the whole
// step is in the database through exactly one batch write — genesis block, indexes, consensus store, revert
// diff, finalized height — or nothing is, so that a restart finds an empty database and runs the step again
// on a clean store. (seed C13-8 committed the consensus store of the genesis step directly to the database.)
//
//zz:opt loop=80 lockdiscipline=off require=applied,refused
//zz:stub time.Now zzxStubNow
func zzH_C13_genesis_atomic(t *zzT) {
	zzxSkipGenesis = true
	n := zzxNewNode(t, 2, 0, 2)
	zzxSkipGenesis = false
	fi := int(t.U8("abi.failAt"))
	t.Assume(fi < 8)
	// genesis calls: InitStateMachine (1), InitGenesisState (as "InitGenesisState", not in the step table), Commit (7)
	n.abi.failIdx = fi
	if t.Bool("abi.failGenesisState") {
		n.abi.failAt = "InitGenesisState"
	}
	err := n.ex.processGenesisBlock(&ProcessContext{ctx: context.Background(), block: n.genesis})
	writes, direct, _ := db.ZZMonitor(n.database)
	dump := db.ZZDump(n.database)
	if err != nil {
		t.Assert(len(dump) == 0, "a refused genesis step leaves the database empty")
		if writes >= 0 {
			t.Assert(writes == 0 && direct == 0, "a refused genesis step performs no durable write")
		}
		t.Reach("refused")
		return
	}
	if writes >= 0 {
		t.Assert(writes == 1 && direct == 0, "genesis: exactly one atomic batch write and no direct writes")
	}
	exist, gerr := n.chain.GenesisBlockExist(n.genesis)
	t.Assert(gerr == nil && exist, "after the step the genesis block is stored")
	_, _, _, herr := n.ex.liskBFT.API().GetBFTHeights(n.store())
	t.Assert(herr == nil, "after the step the consensus store is initialised")
	t.Reach("applied")
}

// C13 for the sync-failure restore path: a block re-applied from the temp store (processValidated with
// removeTemp) — the block, its indexes, the consensus state AND the removal of its temp copy are one batch write.
// (seed C13-9 deleted the temp copy with a separate direct write after the batch.)
//
//zz:opt loop=80 lockdiscipline=off require=accepted
//zz:stub time.Now zzxStubNow
//zz:quick extra=2 onlydev=0 removeTemp=1 budget=300s
//zz:thorough extra=4 onlydev=0 removeTemp=1 budget=30m
func zzH_C13_restore_from_temp_atomic(t *zzT) { zzxAcceptStep(t) }
