//go:build verif

package liskbft

import (
	"github.com/LiskHQ/lisk-engine/pkg/blockchain"
	"github.com/LiskHQ/lisk-engine/pkg/collection/bytes"
	"github.com/LiskHQ/lisk-engine/pkg/consensus/validator"
	"github.com/LiskHQ/lisk-engine/pkg/db/diffdb"
)

// C02.a: the whole per-block step (insertBlockBFTInfo, updatePrevotesPrecommits,
// updateMaxHeightPrevoted/Precommitted/Certified in the order BeforeTransactionsExecute uses) equals a
// straight transcription of LIP-0058 computed from (pre-state, header) only — so any two nodes
// holding equal states compute equal BFT heights for the same header.
//
//zz:opt loop=16 timeout=60000 merge=~/pkg/collection/ints.Max[uint32],~/pkg/collection/ints.Min[uint32],~/pkg/collection/ints.Min[int]
//zz:quick L=3 n=2 sets=2 trunc=2 budget=400s
//zz:thorough L=4 n=2 sets=2 trunc=3 budget=90m paths=6000000
func zzH_C02_step_reference(t *zzT) {
	L, n := t.Param("L", 3), t.Param("n", 2)
	s := zzBuildBFT(t, L, n, t.Param("sets", 1))
	v := s.votes
	// turn the state into "window of L-1 older entries + a new header"
	newE := v.blockBFTInfos[0]
	older := v.blockBFTInfos[1:]
	v.blockBFTInfos = older
	agg := &blockchain.AggregateCommit{Height: t.U32("agg.height")}
	aggNonEmpty := t.Bool("agg.nonEmpty")
	if aggNonEmpty {
		agg.AggregationBits = []byte{1}
		agg.CertificateSignature = []byte{2}
	}
	hdr := &blockchain.BlockHeader{Version: 2, Height: newE.height, GeneratorAddress: newE.generatorAddress,
		MaxHeightGenerated: newE.maxHeightGenerated, MaxHeightPrevoted: newE.maxHeightPrevoted, AggregateCommit: agg}
	maxLen := L - 1 + t.Choice("maxLenDelta", t.Param("trunc", 3)) // L-1 (window full: oldest dropped), L, L+1
	preCertified := t.U32("maxHeightCertified")
	v.maxHeightCertified = preCertified
	err := v.insertBlockBFTInfo(hdr.Readonly(), maxLen)
	t.Assert(err == nil, "insert does not fail")
	wantLen := L
	if maxLen < L {
		wantLen = maxLen
	}
	t.Assert(len(v.blockBFTInfos) == wantLen, "window holds min(old+1, maxLength) entries")
	if len(v.blockBFTInfos) != wantLen {
		return
	}
	e0 := v.blockBFTInfos[0]
	t.Assert(e0.height == newE.height && e0.maxHeightGenerated == newE.maxHeightGenerated && e0.maxHeightPrevoted == newE.maxHeightPrevoted &&
		e0.prevoteWeight == 0 && e0.precommitWeight == 0 && bytes.Equal(e0.generatorAddress, newE.generatorAddress), "new entry copies the header and starts with zero weights")
	for i := 1; i < wantLen; i++ {
		t.Assert(v.blockBFTInfos[i] == older[i-1], "older entries shift by one, newest first")
	}
	// reference on the resulting window (W entries)
	W := wantLen
	if W < L {
		// oldest entry dropped: the reference state is the same state with one entry less
		s.L = W
		s.pre = s.pre[:W]
		s.setOf = s.setOf[:W]
	}
	if err := v.updatePrevotesPrecommits(s.cache); err != nil {
		t.Fail("updatePrevotesPrecommits failed")
	}
	g := s.genIdx(0)
	votes := newE.maxHeightGenerated < newE.height && s.active[g]
	var notPrevoted uint32
	if votes {
		notPrevoted = s.zzRefNotPrevoted()
	}
	minPrecommit := zzMax3(s.preAct[g].minActiveHeight, notPrevoted+1, s.preAct[g].largestHeightPrecommit+1)
	minPrevote := zzMax3(newE.maxHeightGenerated+1, s.preAct[g].minActiveHeight, 0)
	for i := 0; i < W; i++ {
		pre, post := s.pre[i], v.blockBFTInfos[i]
		w := s.sets[s.setOf[i]].validators[g].bftWeight
		thr := s.sets[s.setOf[i]].prevoteThreshold
		wantPrec, wantPrev := pre.precommitWeight, pre.prevoteWeight
		if votes && pre.height >= minPrecommit && pre.prevoteWeight >= thr {
			wantPrec += w
		}
		if votes && pre.height >= minPrevote {
			wantPrev += w
		}
		t.Assert(post.precommitWeight == wantPrec, "precommit weight equals the LIP-0058 reference")
		t.Assert(post.prevoteWeight == wantPrev, "prevote weight equals the LIP-0058 reference")
	}
	var refPrev, refPrec uint32 = v.maxHeightPrevoted, v.maxHeightPrecommited
	for i := W - 1; i >= 0; i-- {
		p := s.sets[s.setOf[i]]
		if v.blockBFTInfos[i].prevoteWeight >= p.prevoteThreshold {
			refPrev = v.blockBFTInfos[i].height
		}
		if v.blockBFTInfos[i].precommitWeight >= p.precommitThreshold {
			refPrec = v.blockBFTInfos[i].height
		}
	}
	e1 := v.updateMaxHeightPrevoted(s.cache)
	e2 := v.updateMaxHeightPrecommitted(s.cache)
	e3 := v.updateMaxHeightCertified(hdr.Readonly())
	t.Assert(e1 == nil && e2 == nil && e3 == nil, "height updates do not fail")
	if aggNonEmpty {
		t.Assert(v.maxHeightCertified == agg.Height, "certified height follows a non-empty aggregate commit")
	} else {
		t.Assert(v.maxHeightCertified == preCertified, "certified height unchanged by an empty aggregate commit")
	}
	t.Assert(v.maxHeightPrevoted == refPrev && v.maxHeightPrecommited == refPrec, "prevoted / precommitted heights equal the reference")
	t.ObserveU64("prevoted", uint64(v.maxHeightPrevoted))
	t.ObserveU64("precommitted", uint64(v.maxHeightPrecommited))
	t.Reach("end")
}

// C02.e: ImpliesMaximalPrevotes equals its definition: the header's previous block by the same
// generator is at maxHeightGenerated (or outside the window).
//
//zz:opt loop=16
//zz:quick L=3
//zz:thorough L=5
func zzH_C02_implies_max_prevotes(t *zzT) {
	L := t.Param("L", 3)
	base := uint32(100)
	votes := &BFTVotes{blockBFTInfos: []*BFTBlockHeader{}, activeValidatorsVoteInfo: []*ActiveValidator{}}
	gens := make([]byte, L)
	for i := 0; i < L; i++ {
		gens[i] = t.U8(t.Name("gen", i)) % 2
		votes.blockBFTInfos = append(votes.blockBFTInfos, &BFTBlockHeader{height: base - uint32(i), generatorAddress: []byte{0xa0, gens[i]},
			maxHeightGenerated: 1, maxHeightPrevoted: 1})
	}
	store := &zzMemStore{}
	store.put(append(dbPrefix(storePrefixBFTVotes), emptyKey...), votes.Encode())
	d := diffdb.New(store, []byte{})
	hh := t.U32("h")
	mhg := t.U32("mhg")
	hdr := &blockchain.BlockHeader{Version: 2, Height: hh, GeneratorAddress: []byte{0xa0, gens[0]}, MaxHeightGenerated: mhg, AggregateCommit: &blockchain.AggregateCommit{}}
	api := &API{batchSize: 4}
	got, err := api.ImpliesMaximalPrevotes(d, hdr.Readonly())
	if hh != base {
		t.Assert(err != nil, "only the current height can be checked")
		t.Reach("wrong-height")
		return
	}
	t.Assert(err == nil, "no error at the current height")
	want := false
	if mhg < hh {
		off := hh - mhg - 1
		if int(off) >= L {
			want = true
		} else {
			want = gens[off] == gens[0]
		}
	}
	t.Assert(got == want, "ImpliesMaximalPrevotes equals its definition")
	t.ObserveBool("got", got)
	t.Reach("end")
}

// C02.b: parameter lookup and pruning over the store: getBFTParams returns the entry with the largest
// height <= h; NextHeightBFTParameters the smallest height > h; after deleteBFTParams(min) every
// height >= min still resolves to the same parameters.
//
//zz:opt loop=24
func zzH_C02_params_lookup_prune(t *zzT) {
	// three parameter heights, strictly increasing, symbolic within small ranges (keys concrete after forking)
	h1 := uint32(t.Range("h1", 1, 3))
	h2 := h1 + uint32(t.Range("d2", 1, 2))
	h3 := h2 + uint32(t.Range("d3", 1, 2))
	hs := []uint32{h1, h2, h3}
	store := &zzMemStore{}
	pfx := dbPrefix(storePrefixBFTParams)
	for i, h := range hs {
		p := &BFTParams{prevoteThreshold: uint64(10 + i), precommitThreshold: 1, certificateThreshold: 1, validators: []*BFTValidator{}, validatorsHash: []byte{byte(i)}}
		store.put(append(append([]byte{}, pfx...), bytes.FromUint32(h)...), p.Encode())
	}
	d := diffdb.New(store, []byte{})
	ps := d.WithPrefix(pfx)
	q := uint32(t.Range("q", 0, 8))
	ref := func(x uint32) int { // index of the latest entry <= x, -1 if none
		r := -1
		for i, h := range hs {
			if h <= x {
				r = i
			}
		}
		return r
	}
	got, err := getBFTParams(ps, q)
	if ref(q) < 0 {
		t.Assert(err != nil, "no parameters below the first height")
	} else {
		t.Assert(err == nil && got.prevoteThreshold == uint64(10+ref(q)), "getBFTParams returns the latest parameters at or below the height")
	}
	api := &API{batchSize: 4}
	nh, nerr := api.NextHeightBFTParameters(d, q)
	wantNext := uint32(0)
	for i := len(hs) - 1; i >= 0; i-- {
		if hs[i] > q {
			wantNext = hs[i]
		}
	}
	if wantNext == 0 {
		t.Assert(nerr != nil, "no later parameter change")
	} else {
		t.Assert(nerr == nil && nh == wantNext, "NextHeightBFTParameters returns the smallest later height")
	}
	// pruning
	min := uint32(t.Range("min", 0, 8))
	t.Assert(deleteBFTParams(ps, min) == nil, "pruning does not fail")
	for x := min; x <= 8; x++ {
		after, aerr := getBFTParams(ps, x)
		if ref(x) < 0 {
			t.Assert(aerr != nil, "still no parameters below the first height")
		} else {
			t.Assert(aerr == nil && after.prevoteThreshold == uint64(10+ref(x)), "every height >= the pruning bound resolves to the same parameters after pruning")
		}
	}
	t.Reach("end")
}

// C06 premise: the bound "an aggregate commit never reaches beyond the block preceding the NEXT
// validator-set change" rests on NextHeightBFTParameters returning the smallest stored parameter
// height above the argument (the C06 harnesses of package consensus replace it by a stub with exactly
// that contract). Registered under C06 as well: same obligation as C02.c, three stored heights.
//
//zz:opt loop=24
func zzH_C06_next_params_height(t *zzT) { zzH_C02_params_lookup_prune(t) }

// zz02Branch runs the real per-block entry points of the BFT module (BeforeTransactionsExecute, then the
// application's SetBFTParameters after the first block) over nb headers generated round-robin by two
// validators on top of the state staged in d; w / pre are the weights and the precommit (= certificate)
// threshold the first block of the branch sets for the heights above it.
func zz02Branch(t *zzT, m *Module, d *diffdb.Database, nb int, w [2]uint64, pre uint64, idTag byte) bool {
	mhp, _, _, err := m.API().GetBFTHeights(d)
	if err != nil {
		return false
	}
	lastBy := [2]uint32{0, 0}
	for i := 0; i < nb; i++ {
		g := i % 2
		h := uint32(1 + i)
		hdr := &blockchain.BlockHeader{Version: 2, Height: h, GeneratorAddress: []byte{0xa0, byte(g)}, MaxHeightGenerated: lastBy[g],
			MaxHeightPrevoted: mhp, AggregateCommit: &blockchain.AggregateCommit{}, ID: []byte{idTag, byte(h)}}
		if err := m.BeforeTransactionsExecute(hdr.Readonly(), d); err != nil {
			return false
		}
		lastBy[g] = h
		if i == 0 {
			vals := BFTValidators{{address: []byte{0xa0, 0}, bftWeight: w[0], blsKey: []byte{1}}, {address: []byte{0xa0, 1}, bftWeight: w[1], blsKey: []byte{2}}}
			if err := m.API().SetBFTParameters(d, pre, pre, vals); err != nil {
				return false
			}
		}
		mhp, _, _, err = m.API().GetBFTHeights(d)
		if err != nil {
			return false
		}
	}
	return true
}

// C02 "a function of the header sequence alone": a node that processed a branch A (whose first block
// changed the BFT weights / thresholds for the heights above it), removed those blocks again (the state
// store is back at the common ancestor) and then processed the competing branch B reports exactly the BFT
// heights and stores exactly the vote state of a fresh node that processed only B. Weights and thresholds
// of both branches are symbolic. (seed C02-5 kept the decoded parameters of the vote window in the
// Module across blocks; block removal reverts the store but not that cache.)
//
//zz:opt loop=24 timeout=60000 merge=~/pkg/collection/ints.Max[uint32],~/pkg/collection/ints.Min[uint32],~/pkg/collection/ints.Min[int]
//zz:quick NA=2 NB=2 symA=0 budget=300s
//zz:thorough NA=2 NB=3 symA=1 budget=40m
func zzH_C02_branch_switch_deterministic(t *zzT) {
	mk := func() (*Module, *diffdb.Database) {
		m := NewModule()
		m.Init(4)
		d := diffdb.New(&zzMemStore{}, []byte{})
		g := &blockchain.BlockHeader{Version: 0, Height: 0, AggregateCommit: &blockchain.AggregateCommit{}, ID: []byte{0}}
		if err := m.InitGenesisState(g.Readonly(), d); err != nil {
			t.Fail("genesis state")
		}
		vals := BFTValidators{{address: []byte{0xa0, 0}, bftWeight: 1, blsKey: []byte{1}}, {address: []byte{0xa0, 1}, bftWeight: 1, blsKey: []byte{2}}}
		if err := m.API().SetBFTParameters(d, 2, 2, vals); err != nil {
			t.Fail("genesis parameters")
		}
		return m, d
	}
	var wA, wB [2]uint64
	// branch A: concrete parameters in the quick tier (5:1, threshold 4), symbolic in the thorough tier
	wA, preA := [2]uint64{5, 1}, uint64(4)
	for i := 0; i < 2; i++ {
		if t.Param("symA", 0) == 1 {
			wA[i] = uint64(t.U16(t.Name("wA", i)))
		}
		wB[i] = uint64(t.U16(t.Name("wB", i)))
	}
	if t.Param("symA", 0) == 1 {
		preA = uint64(t.U32("preA"))
	}
	preB := uint64(t.U32("preB"))
	m1, d1 := mk()
	snap := d1.Snapshot()
	okA := zz02Branch(t, m1, d1, t.Param("NA", 2), wA, preA, 0xa)
	t.Assume(okA)
	if err := d1.RestoreSnapshot(snap); err != nil {
		t.Fail("restore")
	}
	okB1 := zz02Branch(t, m1, d1, t.Param("NB", 3), wB, preB, 0xb)
	m2, d2 := mk()
	okB2 := zz02Branch(t, m2, d2, t.Param("NB", 3), wB, preB, 0xb)
	t.Assert(okB1 == okB2, "branch B is accepted by the switching node iff a fresh node accepts it")
	if !okB1 || !okB2 {
		t.Reach("refused")
		return
	}
	p1, c1, f1, _ := m1.API().GetBFTHeights(d1)
	p2, c2, f2, _ := m2.API().GetBFTHeights(d2)
	t.ObserveU64("prevoted", uint64(p2))
	t.ObserveU64("precommitted", uint64(c2))
	t.Assert(p1 == p2 && c1 == c2 && f1 == f2, "BFT heights after a branch switch equal those of a node that only saw the final chain")
	key := append(dbPrefix(storePrefixBFTVotes), emptyKey...)
	v1, ok1 := d1.Get(key)
	v2, ok2 := d2.Get(key)
	t.Assert(ok1 && ok2 && bytes.Equal(v1, v2), "stored vote state after a branch switch equals that of a node that only saw the final chain")
	t.Reach("end")
}

// C03 "validatorsHash matching … the execution result" / C02 "validator-set and threshold changes": what
// the application reports at the end of a block (weights, precommit threshold, certificate threshold) is what
// the BFT module serves for the next height. After one processed block, SetBFTParameters with symbolic new
// weights and thresholds (current: weights 1/1, precommit 2, certificate 2 or 1 — so that "new certificate
// threshold = current precommit threshold" is among the cases): if accepted, the parameters of height+1
// carry exactly the reported values and the validatorsHash of those values; the parameters of the current
// height are untouched. (seed C03-6 compared the new certificate threshold with the current PRECOMMIT
// threshold in the "nothing changed" shortcut.)
//
//zz:opt loop=24
func zzH_C03_set_bft_parameters_effect(t *zzT) {
	m := NewModule()
	m.Init(4)
	d := diffdb.New(&zzMemStore{}, []byte{})
	g := &blockchain.BlockHeader{Version: 0, Height: 0, AggregateCommit: &blockchain.AggregateCommit{}, ID: []byte{0}}
	if err := m.InitGenesisState(g.Readonly(), d); err != nil {
		t.Fail("genesis state")
	}
	mkVals := func(w0, w1 uint64) BFTValidators {
		return BFTValidators{{address: []byte{0xa0, 0}, bftWeight: w0, blsKey: []byte{1}}, {address: []byte{0xa0, 1}, bftWeight: w1, blsKey: []byte{2}}}
	}
	cert0 := uint64(t.Range("current.certificateThreshold", 1, 2))
	if err := m.API().SetBFTParameters(d, 2, cert0, mkVals(1, 1)); err != nil {
		t.Fail("genesis parameters")
	}
	hdr := &blockchain.BlockHeader{Version: 2, Height: 1, GeneratorAddress: []byte{0xa0, 0}, AggregateCommit: &blockchain.AggregateCommit{}, ID: []byte{1}}
	if err := m.BeforeTransactionsExecute(hdr.Readonly(), d); err != nil {
		t.Fail("block 1")
	}
	w0, w1 := uint64(t.U8("w0")), uint64(t.U8("w1"))
	pre, cert := uint64(t.U16("pre")), uint64(t.U16("cert"))
	err := m.API().SetBFTParameters(d, pre, cert, mkVals(w0, w1))
	cur, e1 := m.API().GetBFTParameters(d, 1)
	t.Assert(e1 == nil && cur.precommitThreshold == 2 && cur.certificateThreshold == cert0 && cur.validators[0].bftWeight == 1, "parameters of the current height are untouched")
	if err != nil {
		nxt, e2 := m.API().GetBFTParameters(d, 2)
		t.Assert(e2 == nil && nxt.precommitThreshold == 2 && nxt.certificateThreshold == cert0, "refused parameters change nothing")
		t.Reach("refused")
		return
	}
	nxt, e2 := m.API().GetBFTParameters(d, 2)
	t.Assert(e2 == nil, "parameters of the next height exist")
	if e2 != nil {
		return
	}
	t.Assert(nxt.precommitThreshold == pre && nxt.certificateThreshold == cert, "thresholds of the next height are the reported ones")
	// (the module keeps the validators sorted by address, descending)
	var got0, got1 uint64
	for _, v := range nxt.validators {
		if v.address[1] == 0 {
			got0 = v.bftWeight
		} else {
			got1 = v.bftWeight
		}
	}
	t.Assert(len(nxt.validators) == 2 && got0 == w0 && got1 == w1, "weights of the next height are the reported ones")
	if w0 == 1 && w1 == 1 && pre == 2 && cert == cert0 {
		// nothing changed: the parameters of height 1 stay in force (their hash was computed on concrete values)
		t.Assert(bytes.Equal(nxt.validatorsHash, cur.validatorsHash), "unchanged parameters keep their validatorsHash")
		t.Reach("unchanged")
		return
	}
	hv := make(validator.HashValidators, 2)
	for i, v := range mkVals(w0, w1) {
		hv[i] = v
	}
	want, herr := validator.ComputeValidatorsHash(hv, cert)
	t.Assert(herr == nil && bytes.Equal(nxt.validatorsHash, want), "validatorsHash of the next height commits to the reported keys, weights and certificate threshold")
	t.Reach("accepted")
}

//zz:opt loop=24
func zzH_C02_set_bft_parameters_effect(t *zzT) { zzH_C03_set_bft_parameters_effect(t) }

// C01 "no … weight distribution or validator-set change makes two nodes finalize different blocks": the votes
// are counted with the stored parameters, so a reported change of weights must reach the store (same obligation;
// seed C01-7 made BFTValidators.Equal ignore the weights: a weight-only update was dropped as "nothing changed").
//
//zz:opt loop=24
func zzH_C01_set_bft_parameters_effect(t *zzT) { zzH_C03_set_bft_parameters_effect(t) }

// C02 at the start of the chain: after the genesis block (any height — a regenesis / migrated chain starts at a
// non-zero height) the prevoted, precommitted and certified heights are all the genesis height (LIP-0058), whatever
// the genesis header's aggregate commit says; the first block processed on top keeps them until votes arrive.
// (seed C02-10 took the certified height of the genesis state from the genesis header's aggregate commit.)
//
//zz:opt loop=24
func zzH_C02_genesis_heights(t *zzT) {
	m := NewModule()
	m.Init(4)
	d := diffdb.New(&zzMemStore{}, []byte{})
	gh := t.U32("genesis.height")
	t.Assume(gh < 1<<31)
	g := &blockchain.BlockHeader{Version: 0, Height: gh, AggregateCommit: &blockchain.AggregateCommit{Height: t.U32("genesis.aggregateCommit.height")}, ID: []byte{0}}
	t.Assert(m.InitGenesisState(g.Readonly(), d) == nil, "genesis state initialised")
	p, c, f, err := m.API().GetBFTHeights(d)
	t.Assert(err == nil && p == gh && c == gh && f == gh, "after genesis the prevoted, precommitted and certified heights are the genesis height")
	vals := BFTValidators{{address: []byte{0xa0, 0}, bftWeight: 1, blsKey: []byte{1}}, {address: []byte{0xa0, 1}, bftWeight: 1, blsKey: []byte{2}}}
	t.Assert(m.API().SetBFTParameters(d, 2, 2, vals) == nil, "genesis parameters stored")
	hdr := &blockchain.BlockHeader{Version: 2, Height: gh + 1, GeneratorAddress: []byte{0xa0, 0}, MaxHeightPrevoted: gh, AggregateCommit: &blockchain.AggregateCommit{Height: gh}, ID: []byte{1}}
	t.Assert(m.BeforeTransactionsExecute(hdr.Readonly(), d) == nil, "first block processed")
	p, c, f, err = m.API().GetBFTHeights(d)
	t.Assert(err == nil && p == gh && c == gh && f == gh, "one block of one of two validators changes none of the heights")
	t.Reach("end")
}
