//go:build verif

package liskbft

// One BFT step from an arbitrary window state (DESIGN C01.b–d, C02.a, App. B.3).
//
// The pre-state is symbolic: L consecutive heights below a symbolic base height; per entry a
// symbolic generator (one of n validators), maxHeightGenerated, maxHeightPrevoted and vote weights;
// per validator a symbolic active flag, minActiveHeight and largestHeightPrecommit; one or two
// parameter sets (weights + thresholds) with a switch position inside the window.

type zzBFTState struct {
	L, n   int
	votes  *BFTVotes
	cache  *bftParamsCache
	setOf  []int          // parameter set index per entry
	sets   []*BFTParams   // parameter sets
	pre    []BFTBlockHeader // copies of the entries before the step
	preAct []ActiveValidator
	active []bool
}

func zzAddr(i int) []byte { return []byte{0xa0, byte(i)} }

func zzBuildBFT(t *zzT, L, n, nsets int) *zzBFTState {
	s := &zzBFTState{L: L, n: n}
	base := t.U32("base")
	t.Assume(base >= uint32(L) && base < 1<<31)
	// parameter sets
	for k := 0; k < nsets; k++ {
		p := &BFTParams{
			prevoteThreshold:   t.U64(t.Name("prevoteThreshold", k)),
			precommitThreshold: t.U64(t.Name("precommitThreshold", k)),
		}
		t.Assume(p.prevoteThreshold >= 1 && p.prevoteThreshold < 1<<62)
		t.Assume(p.precommitThreshold >= 1 && p.precommitThreshold < 1<<62)
		for i := 0; i < n; i++ {
			w := t.U64(t.Name(t.Name("weight", k), i))
			t.Assume(w >= 1 && w < 1<<60)
			p.validators = append(p.validators, &BFTValidator{address: zzAddr(i), bftWeight: w})
		}
		s.sets = append(s.sets, p)
	}
	// entries at index >= sw use set 0 (older), entries below sw use the last set (newer)
	sw := 0
	if nsets > 1 {
		sw = t.Choice("switch", L+1)
	}
	s.cache = &bftParamsCache{data: map[uint32]*BFTParams{}}
	s.votes = &BFTVotes{
		maxHeightPrevoted:    t.U32("maxHeightPrevoted"),
		maxHeightPrecommited: t.U32("maxHeightPrecommited"),
	}
	for i := 0; i < L; i++ {
		g := t.U8(t.Name("gen", i))
		t.Assume(int(g) < n)
		e := &BFTBlockHeader{
			height:             base - uint32(i),
			generatorAddress:   []byte{0xa0, g},
			maxHeightGenerated: t.U32(t.Name("mhg", i)),
			maxHeightPrevoted:  t.U32(t.Name("mhp", i)),
		}
		if i > 0 {
			e.prevoteWeight = t.U64(t.Name("prevote", i))
			e.precommitWeight = t.U64(t.Name("precommit", i))
			t.Assume(e.prevoteWeight < 1<<62 && e.precommitWeight < 1<<62)
		}
		s.votes.blockBFTInfos = append(s.votes.blockBFTInfos, e)
		k := 0
		if i < sw {
			k = nsets - 1
		}
		s.setOf = append(s.setOf, k)
		s.cache.data[e.height] = s.sets[k]
		s.pre = append(s.pre, *e)
	}
	for i := 0; i < n; i++ {
		act := t.Bool(t.Name("active", i))
		s.active = append(s.active, act)
		av := ActiveValidator{address: zzAddr(i), minActiveHeight: t.U32(t.Name("minActive", i)), largestHeightPrecommit: t.U32(t.Name("largestPrecommit", i))}
		t.Assume(av.minActiveHeight < 1<<31 && av.largestHeightPrecommit < 1<<31)
		s.preAct = append(s.preAct, av)
		if act {
			c := av
			s.votes.activeValidatorsVoteInfo = append(s.votes.activeValidatorsVoteInfo, &c)
		}
	}
	return s
}

func (s *zzBFTState) genIdx(i int) int { return int(s.pre[i].generatorAddress[1]) }

// zzRefNotPrevoted transcribes LIP-0058 getHeightNotPrevoted on the pre-state.
func (s *zzBFTState) zzRefNotPrevoted() uint32 {
	newH := s.pre[0]
	cur := newH.height
	prev := newH.maxHeightGenerated
	for steps := 0; steps <= s.L; steps++ {
		if !(int64(cur)-int64(prev) < int64(s.L)) {
			break
		}
		e := s.pre[int(cur-prev)]
		if e.generatorAddress[1] != newH.generatorAddress[1] || e.maxHeightGenerated >= prev {
			return prev
		}
		prev = e.maxHeightGenerated
	}
	return s.pre[s.L-1].height - 1
}

func zzMax3(a, b, c uint32) uint32 {
	m := a
	if b > m {
		m = b
	}
	if c > m {
		m = c
	}
	return m
}

// zzH_C01_vote_rules: semantic oracles of C01.b/c/d on the real updatePrevotesPrecommits,
// updateMaxHeightPrevoted, updateMaxHeightPrecommitted.
//
//zz:opt loop=16 timeout=60000 merge=~/pkg/collection/ints.Max[uint32],~/pkg/collection/ints.Min[uint32]
//zz:quick L=3 n=2 sets=2 budget=400s
//zz:thorough L=4 n=2 sets=2 budget=40m
func zzH_C01_vote_rules(t *zzT) {
	L, n := t.Param("L", 3), t.Param("n", 2)
	s := zzBuildBFT(t, L, n, t.Param("sets", 1))
	v := s.votes
	err := v.updatePrevotesPrecommits(s.cache)
	t.Assert(err == nil, "no error: every generator is in the parameters of every height")
	newH := s.pre[0]
	g := s.genIdx(0)
	votes := newH.maxHeightGenerated < newH.height && s.active[g]
	var notPrevoted uint32
	if votes {
		notPrevoted = s.zzRefNotPrevoted()
	}
	var largest uint32
	hasLargest := false
	for i := 0; i < L; i++ {
		pre, post := s.pre[i], v.blockBFTInfos[i]
		w := s.sets[s.setOf[i]].validators[g].bftWeight
		thr := s.sets[s.setOf[i]].prevoteThreshold
		dPrev := post.prevoteWeight - pre.prevoteWeight
		dPrec := post.precommitWeight - pre.precommitWeight
		t.Assert(post.prevoteWeight >= pre.prevoteWeight && post.precommitWeight >= pre.precommitWeight, "weights never decrease")
		t.Assert(dPrev == 0 || dPrev == w, "prevote changes by 0 or the generator's weight at that height")
		t.Assert(dPrec == 0 || dPrec == w, "precommit changes by 0 or the generator's weight at that height")
		// C01.b: prevote exactly for heights in [max(mhg+1, minActive), h]
		inPrevoteRange := votes && pre.height >= newH.maxHeightGenerated+1 && pre.height >= s.preAct[g].minActiveHeight
		if inPrevoteRange {
			t.Assert(dPrev == w, "prevotes every height above maxHeightGenerated within the active range")
		} else {
			t.Assert(dPrev == 0, "no prevote at or below maxHeightGenerated / outside the active range / by a non-voting header")
		}
		// C01.c: precommit only for blocks already at the prevote threshold, above heightNotPrevoted
		// and above largestHeightPrecommit
		inPrecommitRange := votes && pre.height >= zzMax3(s.preAct[g].minActiveHeight, notPrevoted+1, s.preAct[g].largestHeightPrecommit+1)
		if inPrecommitRange && pre.prevoteWeight >= thr {
			t.Assert(dPrec == w, "precommits every eligible height already at its prevote threshold")
			if !hasLargest {
				largest, hasLargest = pre.height, true
			}
		} else {
			t.Assert(dPrec == 0, "no precommit below threshold / at or below heightNotPrevoted / at or below largestHeightPrecommit")
		}
	}
	// largestHeightPrecommit bookkeeping
	for i := 0; i < n; i++ {
		if !s.active[i] {
			continue
		}
		av, _ := ActiveValidators(v.activeValidatorsVoteInfo).get(zzAddr(i))
		if i == g && hasLargest {
			t.Assert(av.largestHeightPrecommit == largest, "largestHeightPrecommit records the largest precommitted height")
			t.Assert(av.largestHeightPrecommit > s.preAct[i].largestHeightPrecommit, "largestHeightPrecommit strictly increases when precommitting")
		} else {
			t.Assert(av.largestHeightPrecommit == s.preAct[i].largestHeightPrecommit, "largestHeightPrecommit of other validators unchanged")
		}
		t.Assert(av.minActiveHeight == s.preAct[i].minActiveHeight, "minActiveHeight unchanged")
	}
	t.Reach("after-votes")

	// C01.d: finalized / prevoted heights
	preFinal, prePrevoted := v.maxHeightPrecommited, v.maxHeightPrevoted
	e1 := v.updateMaxHeightPrevoted(s.cache)
	e2 := v.updateMaxHeightPrecommitted(s.cache)
	t.Assert(e1 == nil && e2 == nil, "height updates do not fail")
	var refFinal, refPrevoted uint32 = preFinal, prePrevoted
	for i := L - 1; i >= 0; i-- {
		p := s.sets[s.setOf[i]]
		if v.blockBFTInfos[i].precommitWeight >= p.precommitThreshold {
			refFinal = v.blockBFTInfos[i].height
		}
		if v.blockBFTInfos[i].prevoteWeight >= p.prevoteThreshold {
			refPrevoted = v.blockBFTInfos[i].height
		}
	}
	t.Assert(v.maxHeightPrecommited == refFinal, "maxHeightPrecommited = largest height whose precommit weight reaches that height's threshold (else unchanged)")
	t.Assert(v.maxHeightPrevoted == refPrevoted, "maxHeightPrevoted = largest height whose prevote weight reaches that height's threshold (else unchanged)")
	t.ObserveU64("final", uint64(v.maxHeightPrecommited))
	t.ObserveU64("prevoted", uint64(v.maxHeightPrevoted))
	t.Reach("end")
}

// C09 (hang on a received block): the vote step a received block header triggers
// (updatePrevotesPrecommits incl. getHeightNotPrevoted, updateMaxHeightPrevoted,
// updateMaxHeightPrecommitted) returns for an arbitrary symbolic window of L headers — every field of
// every header full-width symbolic, in particular maxHeightGenerated equal to the header's own height
// or pointing anywhere. The loops of these functions are bounded by the window length; exceeding the
// unwinding bound is reported as a hang (and must hang natively), a panic as a panic.
//
//zz:opt loop=16 merge=~/pkg/collection/ints.Max[uint32],~/pkg/collection/ints.Min[uint32] require=returned
//zz:quick L=3 n=2 sets=1
//zz:thorough L=5 n=2 sets=1 budget=1800s
func zzH_C09_vote_step_returns(t *zzT) {
	L, n := t.Param("L", 3), t.Param("n", 2)
	s := zzBuildBFT(t, L, n, t.Param("sets", 1))
	v := s.votes
	_ = v.updatePrevotesPrecommits(s.cache)
	_ = v.updateMaxHeightPrevoted(s.cache)
	_ = v.updateMaxHeightPrecommitted(s.cache)
	t.Reach("returned")
}
