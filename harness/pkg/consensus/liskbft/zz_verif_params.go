//go:build verif

package liskbft

import (
	"math/bits"
	"sort"

	"github.com/LiskHQ/lisk-engine/pkg/codec"
	"github.com/LiskHQ/lisk-engine/pkg/db"
	"github.com/LiskHQ/lisk-engine/pkg/db/diffdb"
)

// zzMemStore: in-memory backing store for diffdb (implements diffdb.DatabaseReader).
type zzMemKV struct{ k, v []byte }

func (kv *zzMemKV) Key() []byte   { return kv.k }
func (kv *zzMemKV) Value() []byte { return kv.v }

type zzMemStore struct{ kvs []*zzMemKV }

func zzCmp(a, b []byte) int {
	for i := 0; i < len(a) && i < len(b); i++ {
		if a[i] != b[i] {
			if a[i] < b[i] {
				return -1
			}
			return 1
		}
	}
	if len(a) < len(b) {
		return -1
	}
	if len(a) > len(b) {
		return 1
	}
	return 0
}

func (s *zzMemStore) put(k, v []byte) {
	for _, kv := range s.kvs {
		if zzCmp(kv.k, k) == 0 {
			kv.v = v
			return
		}
	}
	s.kvs = append(s.kvs, &zzMemKV{k, v})
	sort.Slice(s.kvs, func(i, j int) bool { return zzCmp(s.kvs[i].k, s.kvs[j].k) < 0 })
}

func (s *zzMemStore) Get(key []byte) ([]byte, bool) {
	for _, kv := range s.kvs {
		if zzCmp(kv.k, key) == 0 {
			return kv.v, true
		}
	}
	return nil, false
}

func (s *zzMemStore) scan(match func(k []byte) bool, limit int, reverse bool) []db.KeyValue {
	out := []db.KeyValue{}
	n := len(s.kvs)
	for i := 0; i < n; i++ {
		kv := s.kvs[i]
		if reverse {
			kv = s.kvs[n-1-i]
		}
		if limit >= 0 && len(out) >= limit {
			break
		}
		if match(kv.k) {
			out = append(out, kv)
		}
	}
	return out
}

func (s *zzMemStore) Iterate(prefix []byte, limit int, reverse bool) []db.KeyValue {
	return s.scan(func(k []byte) bool { return len(k) >= len(prefix) && zzCmp(k[:len(prefix)], prefix) == 0 }, limit, reverse)
}

func (s *zzMemStore) IterateRange(start, end []byte, limit int, reverse bool) []db.KeyValue {
	return s.scan(func(k []byte) bool { return zzCmp(k, start) >= 0 && zzCmp(k, end) <= 0 }, limit, reverse)
}

var zzCapturedParams *BFTParams

// zzCapSet replaces diffdb.SetEncodable symbolically: records BFTParams instead of encoding symbolic
// weights as varints (which would fork 10 ways per weight). Natively the real SetEncodable runs.
func zzCapSet(d interface{}, key []byte, value codec.Encodable) {
	if p, ok := value.(*BFTParams); ok {
		zzCapturedParams = p
	}
}

func zzStubValidatorsHash(vs interface{}, certificateThreshold uint64) ([]byte, error) {
	return []byte{0x11}, nil
}

func zzSetupParamsStore(t *zzT, n int) (*diffdb.Database, BFTValidators, []uint64) {
	store := &zzMemStore{}
	votes := &BFTVotes{maxHeightPrevoted: 5, maxHeightPrecommited: 5, maxHeightCertified: 5, blockBFTInfos: []*BFTBlockHeader{}, activeValidatorsVoteInfo: []*ActiveValidator{}}
	store.put(append(dbPrefix(storePrefixBFTVotes), emptyKey...), votes.Encode())
	d := diffdb.New(store, []byte{})
	vals := BFTValidators{}
	var ws []uint64
	for i := 0; i < n; i++ {
		w := t.U64(t.Name("w", i))
		ws = append(ws, w)
		vals = append(vals, &BFTValidator{address: zzAddr(i), bftWeight: w, blsKey: []byte{byte(i)}})
	}
	return d, vals, ws
}

func zzStoredParams(t *zzT, d *diffdb.Database) *BFTParams {
	if t.Symbolic() {
		return zzCapturedParams
	}
	p, err := getBFTParams(d.WithPrefix(dbPrefix(storePrefixBFTParams)), 6)
	if err != nil {
		return nil
	}
	return p
}

// C01.a: whenever SetBFTParameters accepts, the thresholds it stores have the quorum-intersection
// properties safety rests on (weights within the economic range so that nothing wraps).
//
//zz:opt loop=16
//zz:stub ~/pkg/db/diffdb.SetEncodable zzCapSet
//zz:stub ~/pkg/consensus/validator.ComputeValidatorsHash zzStubValidatorsHash
//zz:quick n=3 wbits=16
//zz:thorough n=3 wbits=59 timeout=300000 budget=60m
func zzH_C01_quorum_arith(t *zzT) {
	n := t.Param("n", 3)
	d, vals, ws := zzSetupParamsStore(t, n)
	var W uint64
	wmax := uint64(1) << uint(t.Param("wbits", 59))
	for _, w := range ws {
		t.Assume(w < wmax)
		W += w
	}
	pre, cert := t.U64("precommitThreshold"), t.U64("certificateThreshold")
	zzCapturedParams = nil
	api := &API{batchSize: 8}
	err := api.SetBFTParameters(d, pre, cert, vals)
	if err != nil {
		t.Reach("rejected")
		return
	}
	p := zzStoredParams(t, d)
	t.Assert(p != nil, "accepted parameters are stored at the next height")
	if p == nil {
		return
	}
	t.Assert(p.precommitThreshold == pre && p.certificateThreshold == cert, "thresholds stored as given")
	t.Assert(3*p.prevoteThreshold > 2*W, "two prevote quorums intersect in more than one third of the weight")
	t.Assert(p.prevoteThreshold <= W, "prevote threshold reachable")
	t.Assert(3*pre > W && pre <= W, "precommit threshold above one third and reachable")
	t.Assert(3*cert > W && cert <= W, "certificate threshold above one third and reachable")
	t.ObserveU64("prevoteThreshold", p.prevoteThreshold)
	t.Reach("accepted")
}

// C01.a (full width): the aggregate weight the thresholds are derived from is the true sum.
//
//zz:opt loop=16
//zz:stub ~/pkg/db/diffdb.SetEncodable zzCapSet
//zz:stub ~/pkg/consensus/validator.ComputeValidatorsHash zzStubValidatorsHash
//zz:quick n=2
//zz:thorough n=4
func zzH_C01_quorum_nowrap(t *zzT) {
	n := t.Param("n", 2)
	d, vals, ws := zzSetupParamsStore(t, n)
	var lo, hi uint64
	for _, w := range ws {
		var c uint64
		lo, c = bits.Add64(lo, w, 0)
		hi += c
	}
	pre, cert := t.U64("precommitThreshold"), t.U64("certificateThreshold")
	zzCapturedParams = nil
	api := &API{batchSize: 8}
	err := api.SetBFTParameters(d, pre, cert, vals)
	if err != nil {
		t.Reach("rejected")
		return
	}
	t.Assert(hi == 0, "accepted parameters: the sum of BFT weights does not wrap around 2^64")
	if hi == 0 {
		p := zzStoredParams(t, d)
		if p != nil {
			// aggregate*2 must not wrap either
			t.Assert(lo < 1<<63 || p.prevoteThreshold > lo/3, "accepted parameters: 2*aggregate does not wrap when deriving the prevote threshold")
		}
	}
	t.Reach("accepted")
}
