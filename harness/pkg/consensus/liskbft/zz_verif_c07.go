//go:build verif

package liskbft

import "github.com/LiskHQ/lisk-engine/pkg/consensus/contradiction"

type zz07Hdr struct {
	h, mhg, mhp uint32
	gen         []byte
}

func (x *zz07Hdr) Height() uint32             { return x.h }
func (x *zz07Hdr) GeneratorAddress() []byte   { return x.gen }
func (x *zz07Hdr) MaxHeightGenerated() uint32 { return x.mhg }
func (x *zz07Hdr) MaxHeightPrevoted() uint32  { return x.mhp }

// C07.b: BFTVotes.contradicting compares the incoming header with the MOST RECENT header of the same
// generator inside the window (first match from the newest entry) using the contradiction rule, and
// reports false when the generator has no header in the window.
//
//zz:opt loop=16
//zz:quick L=3
//zz:thorough L=5
func zzH_C07_window_contradiction(t *zzT) {
	L := t.Param("L", 3)
	v := &BFTVotes{}
	for i := 0; i < L; i++ {
		g := t.U8(t.Name("gen", i))
		t.Assume(g < 3)
		v.blockBFTInfos = append(v.blockBFTInfos, &BFTBlockHeader{height: t.U32(t.Name("h", i)), generatorAddress: []byte{0xa0, g},
			maxHeightGenerated: t.U32(t.Name("mhg", i)), maxHeightPrevoted: t.U32(t.Name("mhp", i))})
	}
	ng := t.U8("new.gen")
	t.Assume(ng < 3)
	nh := &zz07Hdr{h: t.U32("new.h"), mhg: t.U32("new.mhg"), mhp: t.U32("new.mhp"), gen: []byte{0xa0, ng}}
	got := v.contradicting(nh)
	want := false
	for i := 0; i < L; i++ {
		e := v.blockBFTInfos[i]
		if e.generatorAddress[1] == ng {
			want = contradiction.AreDistinctHeadersContradicting(e, nh)
			break
		}
	}
	t.Assert(got == want, "window check = contradiction against the generator's most recent header in the window (false if none)")
	t.ObserveBool("got", got)
	t.Reach("end")
}

// C01 premise: finality safety assumes that honest validators never sign contradicting headers and
// that a contradicting header inside the vote window is refused by every node
// (verifyBlock -> IsHeaderContradictingChain -> BFTVotes.contradicting). Registered under C01 as well:
// the window check is the enforcement point of that premise (same obligation as C07.b).
//
//zz:opt loop=16
//zz:quick L=3
//zz:thorough L=5
func zzH_C01_window_contradiction(t *zzT) { zzH_C07_window_contradiction(t) }
