//go:build verif

package liskbft

import (
	"github.com/LiskHQ/lisk-engine/pkg/blockchain"
	"github.com/LiskHQ/lisk-engine/pkg/consensus/contradiction"
	"github.com/LiskHQ/lisk-engine/pkg/db/diffdb"
)

type zz07Hdr struct {
	h, mhg, mhp uint32
	gen         []byte
}

func (x *zz07Hdr) Height() uint32             { return x.h }
func (x *zz07Hdr) GeneratorAddress() []byte   { return x.gen }
func (x *zz07Hdr) MaxHeightGenerated() uint32 { return x.mhg }
func (x *zz07Hdr) MaxHeightPrevoted() uint32  { return x.mhp }

// C07.b: BFTVotes.contradicting compares the incoming header with the MOST RECENT header of the same
// generator inside the window (first match from the newest entry) using the contradiction rule, and
// reports false when the generator has no header in the window.
//
//zz:opt loop=16
//zz:quick L=3
//zz:thorough L=5
func zzH_C07_window_contradiction(t *zzT) {
	L := t.Param("L", 3)
	v := &BFTVotes{}
	for i := 0; i < L; i++ {
		g := t.U8(t.Name("gen", i))
		t.Assume(g < 3)
		v.blockBFTInfos = append(v.blockBFTInfos, &BFTBlockHeader{height: t.U32(t.Name("h", i)), generatorAddress: []byte{0xa0, g},
			maxHeightGenerated: t.U32(t.Name("mhg", i)), maxHeightPrevoted: t.U32(t.Name("mhp", i))})
	}
	ng := t.U8("new.gen")
	t.Assume(ng < 3)
	nh := &zz07Hdr{h: t.U32("new.h"), mhg: t.U32("new.mhg"), mhp: t.U32("new.mhp"), gen: []byte{0xa0, ng}}
	got := v.contradicting(nh)
	want := false
	for i := 0; i < L; i++ {
		e := v.blockBFTInfos[i]
		if e.generatorAddress[1] == ng {
			want = contradiction.AreDistinctHeadersContradicting(e, nh)
			break
		}
	}
	t.Assert(got == want, "window check = contradiction against the generator's most recent header in the window (false if none)")
	t.ObserveBool("got", got)
	t.Reach("end")
}

// C01 premise: finality safety assumes that honest validators never sign contradicting headers and
// that a contradicting header inside the vote window is refused by every node
// (verifyBlock -> IsHeaderContradictingChain -> BFTVotes.contradicting). Registered under C01 as well:
// the window check is the enforcement point of that premise (same obligation as C07.b).
//
//zz:opt loop=16
//zz:quick L=3
//zz:thorough L=5
func zzH_C01_window_contradiction(t *zzT) { zzH_C07_window_contradiction(t) }

func zz07Block(t *zzT, p string) *blockchain.BlockHeader {
	g := t.U8(p + ".gen")
	t.Assume(g < 2)
	return &blockchain.BlockHeader{
		ID:                 []byte{0x1d, t.U8(p + ".id")},
		Version:            2,
		Height:             t.U32(p + ".h"),
		MaxHeightGenerated: t.U32(p + ".mhg"),
		MaxHeightPrevoted:  t.U32(p + ".mhp"),
		GeneratorAddress:   []byte{0xa0, g},
	}
}

// C07.a at the public entry point: API.AreHeadersContradicting on two real sealed headers (all three
// 32-bit fields symbolic, two generators, identical or distinct IDs) is symmetric, false for one and the
// same header and for different generators, and otherwise true exactly when neither header is a
// legitimate successor of the other (seed C07-5 put a "same height => double forging" shortcut here,
// which the harnesses of the inner function cannot see).
func zzH_C07_api_contradicting(t *zzT) {
	a, b := zz07Block(t, "a"), zz07Block(t, "b")
	api := &API{}
	ab, err1 := api.AreHeadersContradicting(a.Readonly(), b.Readonly())
	ba, err2 := api.AreHeadersContradicting(b.Readonly(), a.Readonly())
	t.Assert(err1 == nil && err2 == nil, "no error")
	t.Assert(ab == ba, "symmetric at the API")
	sameID := a.ID[1] == b.ID[1]
	sameGen := a.GeneratorAddress[1] == b.GeneratorAddress[1]
	succ := func(x, y *blockchain.BlockHeader) bool {
		return y.MaxHeightGenerated >= x.Height && y.MaxHeightGenerated >= x.MaxHeightGenerated &&
			y.MaxHeightPrevoted >= x.MaxHeightPrevoted && (y.Height > x.Height || y.MaxHeightPrevoted > x.MaxHeightPrevoted)
	}
	want := !sameID && sameGen && !succ(a, b) && !succ(b, a)
	t.ObserveBool("ab", ab)
	t.Assert(ab == want, "API: contradicting iff distinct IDs, same generator and neither is a legitimate successor")
	t.Reach("end")
}

// C07.d at the public entry point: API.HeaderHasPriority (used by the generator endpoint to decide whether the
// node's tip is ahead of a remote generator's status) is the strict LIP-0014 order on (maxHeightPrevoted, height).
func zzH_C07_api_header_priority(t *zzT) {
	tip := zz07Block(t, "tip")
	h, mhp, mhg := t.U32("h"), t.U32("mhp"), t.U32("mhg")
	got, err := (&API{}).HeaderHasPriority(nil, tip.Readonly(), h, mhp, mhg)
	t.Assert(err == nil, "no error")
	want := mhp < tip.MaxHeightPrevoted || (mhp == tip.MaxHeightPrevoted && h < tip.Height)
	t.ObserveBool("got", got)
	t.Assert(got == want, "tip has priority iff (maxHeightPrevoted, height) of the tip is strictly larger")
	t.Reach("end")
}

// C07.b on the real module: "a contradicting header inside the 3-round window always is flagged" — the
// window the module keeps must really hold three rounds. Batch size 2 (window of 6 headers): generator X
// produces block 1, the two active validators blocks 2..W (W = 6: X's block is the OLDEST entry of a full
// window; W = 5: one short of full; W = 7: X's block has just left the window). Then a header of X with
// symbolic height / maxHeightGenerated / maxHeightPrevoted is checked through API.IsHeaderContradictingChain:
// flagged exactly when X's block is still within the last three rounds and the two headers contradict.
// (seed C07-6 let the stored window settle at 3*batchSize-1 headers.)
//
//zz:opt loop=40 merge=~/pkg/collection/ints.Max[uint32],~/pkg/collection/ints.Min[uint32],~/pkg/collection/ints.Min[int]
func zzH_C07_window_covers_three_rounds(t *zzT) {
	const bs = 2
	m := NewModule()
	m.Init(bs)
	d := diffdb.New(&zzMemStore{}, []byte{})
	g := &blockchain.BlockHeader{Version: 0, Height: 0, AggregateCommit: &blockchain.AggregateCommit{}, ID: []byte{0}}
	if err := m.InitGenesisState(g.Readonly(), d); err != nil {
		t.Fail("genesis state")
	}
	vals := BFTValidators{{address: []byte{0xa0, 0}, bftWeight: 1, blsKey: []byte{1}}, {address: []byte{0xa0, 1}, bftWeight: 1, blsKey: []byte{2}}}
	if err := m.API().SetBFTParameters(d, 2, 2, vals); err != nil {
		t.Fail("genesis parameters")
	}
	W := t.Range("chain", 3*bs-1, 3*bs+1)
	x := []byte{0xa0, 9}
	var first *blockchain.BlockHeader
	lastBy := [2]uint32{}
	for h := uint32(1); h <= uint32(W); h++ {
		mhp, _, _, _ := m.API().GetBFTHeights(d)
		hdr := &blockchain.BlockHeader{Version: 2, Height: h, MaxHeightPrevoted: mhp, AggregateCommit: &blockchain.AggregateCommit{}, ID: []byte{1, byte(h)}}
		if h == 1 {
			hdr.GeneratorAddress = x
			first = hdr
		} else {
			gi := int(h) % 2
			hdr.GeneratorAddress = []byte{0xa0, byte(gi)}
			hdr.MaxHeightGenerated = lastBy[gi]
			lastBy[gi] = h
		}
		if err := m.BeforeTransactionsExecute(hdr.Readonly(), d); err != nil {
			t.Fail("setup: block refused by the BFT module")
		}
	}
	nh := &blockchain.BlockHeader{Version: 2, Height: t.U32("new.h"), MaxHeightGenerated: t.U32("new.mhg"), MaxHeightPrevoted: t.U32("new.mhp"),
		GeneratorAddress: x, AggregateCommit: &blockchain.AggregateCommit{}, ID: []byte{2}}
	got, err := m.API().IsHeaderContradictingChain(d, nh.Readonly())
	t.Assert(err == nil, "no error")
	inWindow := W <= 3*bs // X's block at height 1 is among the last 3*bs headers of a chain of W blocks
	want := inWindow && contradiction.AreDistinctHeadersContradicting(&zz07Hdr{h: first.Height, mhg: first.MaxHeightGenerated, mhp: first.MaxHeightPrevoted, gen: x},
		&zz07Hdr{h: nh.Height, mhg: nh.MaxHeightGenerated, mhp: nh.MaxHeightPrevoted, gen: x})
	t.ObserveBool("got", got)
	t.Assert(got == want, "a header contradicting the generator's block is flagged exactly while that block is within the last three rounds")
	t.Reach("end")
}
