//go:build verif

package consensus

import (
	"bytes"
)

// C13 "the node restarts on a tip whose consensus state matches it" / C04 "not by restart" for a chain whose
// genesis block is NOT at height 0 (a chain started from a snapshot: LIP-0060 allows any genesis height).
// The node is built by the real genesis step and `extra` real blocks; then the real Executer.Init runs on a
// second Executer / Chain over the same database (a process restart) with a block cache of `cache` blocks
// — the cache may be larger than the chain above genesis, so preparing it must stop at the genesis height.
//
//zz:opt loop=80 lockdiscipline=off gor=64 require=restarted-at-genesis,restarted-above-genesis
//zz:stub time.Now zzxStubNow
//zz:stub time.NewTicker zzrStubTicker
//zz:quick extra=2
//zz:thorough extra=4
func zzH_C13_restart_nonzero_genesis(t *zzT) {
	zzxGenesisH = uint32(t.Range("genesis.height", 0, 2)) * 3 // 0, 3, 6
	defer func() { zzxGenesisH = 0 }()
	extra := t.Range("extra", 0, t.Param("extra", 2))
	cache := t.Range("cache", 1, 3) + extra - 1 // around the number of blocks above genesis
	if cache < 1 {
		cache = 1
	}
	n := zzxNewNode(t, 2, extra, 1)
	tip := n.chain.LastBlock()
	if tip == nil {
		t.Fail("setup: no tip")
		return
	}
	p0, c0, f0 := n.heights()
	r, err := zzrRestart(t, n, n.genesis, cache)
	t.Assert(err == nil, "restart: Init succeeds on an intact database whatever the genesis height")
	if err != nil {
		return
	}
	last := r.chain.LastBlock()
	t.Assert(last != nil && bytes.Equal(last.Header.ID, tip.Header.ID) && last.Header.Height == zzxGenesisH+uint32(extra), "restart: the tip is the pre-restart tip")
	p1, c1, f1 := r.heights()
	t.Assert(p0 == p1 && c0 == c1 && f0 == f1, "restart: the BFT heights are unchanged")
	fin, ferr := r.chain.DataAccess().GetFinalizedHeight()
	t.Assert(ferr == nil && fin >= zzxGenesisH, "restart: the finalized height is at least the genesis height")
	// the restarted node accepts the next valid block
	b := r.nextValid(1, nil)
	t.Assert(r.ex.processValidated(r.ex.ctx, b, false, false) == nil, "restart: the next valid block is accepted")
	if extra == 0 {
		t.Reach("restarted-at-genesis")
	} else {
		t.Reach("restarted-above-genesis")
	}
}

//zz:opt loop=80 lockdiscipline=off gor=64 require=restarted-at-genesis,restarted-above-genesis
//zz:stub time.Now zzxStubNow
//zz:stub time.NewTicker zzrStubTicker
//zz:quick extra=2
//zz:thorough extra=4
func zzH_C04_restart_nonzero_genesis(t *zzT) { zzH_C13_restart_nonzero_genesis(t) }
