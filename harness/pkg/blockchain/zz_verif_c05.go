//go:build verif

package blockchain

import (
	"bytes"

	"github.com/LiskHQ/lisk-engine/pkg/db"
)

// C05.e: blockCache.push / pop on an arbitrary well-formed small cache.
//
// Pre-state (built by struct literal): `size` ≤ maxSize ≤ S blocks at consecutive heights
// cur-size+1 … cur with pairwise distinct symbolic IDs. One push of a block with symbolic height and
// fresh ID, then one pop. Oracle: push fails exactly for a non-consecutive height on a non-empty
// cache and then changes nothing; otherwise it makes the block the tip (evicting the oldest block iff
// the cache was full), and pop returns that block and leaves the pre-state minus the evicted block:
// same tip, same height/ID indexes, consistent size.
//
//zz:opt loop=12 require=rejected,inverse,evicted,tip-evicted
//zz:quick S=3
//zz:thorough S=4
func zzH_C05_block_cache_push_pop(t *zzT) {
	S := t.Param("S", 3)
	size := t.Range("size", 0, S)
	lo := size
	if lo < 1 {
		lo = 1
	}
	maxSize := t.Range("maxSize", lo, S)
	cur := t.U32("cur")
	t.Assume(cur >= uint32(S) && cur < 1<<31)

	c := newBlockCache(maxSize)
	var old []*Block
	for i := 0; i < size; i++ {
		id := t.Bytes(t.Name("id", i), 2)
		for _, o := range old {
			t.Assume(!bytes.Equal(o.Header.ID, id))
		}
		b := &Block{Header: &BlockHeader{Height: cur - uint32(size-1-i), ID: id}}
		old = append(old, b)
		c.cachedBlocks[string(id)] = b
		c.heightIndex[b.Header.Height] = string(id)
	}
	c.size, c.currentHeight = size, cur

	nb := &Block{Header: &BlockHeader{Height: t.U32("new.height"), ID: t.Bytes("new.id", 2)}}
	for _, o := range old {
		t.Assume(!bytes.Equal(o.Header.ID, nb.Header.ID))
	}

	// present(i) : old block i is retrievable by ID and by height
	present := func(i int) bool {
		g, ok := c.get(old[i].Header.ID)
		h, ok2 := c.getByHeight(old[i].Header.Height)
		return ok && ok2 && g == old[i] && h == old[i]
	}
	absent := func(b *Block) bool {
		_, ok := c.get(b.Header.ID)
		return !ok
	}

	err := c.push(nb)
	t.Assert((err != nil) == (size != 0 && nb.Header.Height != cur+1), "push rejects exactly a non-consecutive height on a non-empty cache")
	if err != nil {
		same := c.size == size && c.currentHeight == cur && len(c.cachedBlocks) == size && len(c.heightIndex) == size && absent(nb)
		for i := range old {
			same = same && present(i)
		}
		t.Assert(same, "a rejected push leaves the cache unchanged")
		t.Reach("rejected")
		return
	}
	evicted := size >= maxSize
	first := 0
	wantSize := size + 1
	if evicted {
		first, wantSize = 1, size
	}
	tip, ok := c.getByHeight(c.currentHeight)
	g, ok2 := c.get(nb.Header.ID)
	t.Assert(ok && ok2 && tip == nb && g == nb && c.currentHeight == nb.Header.Height, "after push the block is the cached tip and retrievable by ID")
	afterPush := c.size == wantSize && len(c.cachedBlocks) == wantSize && len(c.heightIndex) == wantSize && c.size <= c.maxSize
	for i := first; i < size; i++ {
		afterPush = afterPush && present(i)
	}
	if evicted {
		afterPush = afterPush && absent(old[0])
	}
	t.Assert(afterPush, "push keeps every older block except the evicted oldest one; sizes consistent and bounded")

	popped := c.pop()
	t.Assert(popped == nb, "pop returns the block pushed last")
	rest := size - first
	inv := c.size == rest && len(c.cachedBlocks) == rest && len(c.heightIndex) == rest && absent(nb)
	for i := first; i < size; i++ {
		inv = inv && present(i)
	}
	if _, ok := c.getByHeight(nb.Header.Height); ok {
		inv = false
	}
	t.Assert(inv, "push then pop leaves exactly the previous cache content (minus the block evicted by a full cache)")
	if rest > 0 {
		tip, ok := c.getByHeight(c.currentHeight)
		t.Assert(c.currentHeight == cur && ok && tip == old[size-1], "push then pop restores the cached tip")
		t.Reach("inverse")
	} else if size > 0 {
		// maxSize == 1: the previous tip was evicted by the push; nothing is cached any more
		t.Reach("tip-evicted")
	}
	if evicted {
		t.Reach("evicted")
	}
	t.ObserveU64("size", uint64(c.size))
	t.Reach("end")
}

// C05 "any number of apply/remove steps" (and C19: a sync walks the tip back to the common block with the
// peer, which may be further back than the block cache reaches): a chain of n blocks on a node whose block
// cache holds c of them; r tip removals, r possibly larger than c. After every removal the node still has a
// tip — the block at the height below, complete — the removed heights are no longer served, and a sibling
// can be appended on the new tip.
//
//zz:opt loop=200 require=beyond-cache,within-cache
//zz:quick N=5
//zz:thorough N=7
func zzH_C05_remove_beyond_cache(t *zzT) {
	N := t.Param("N", 5)
	n := t.Range("blocks", 2, N)
	c := t.Range("cache", 1, 3)
	r := t.Range("removals", 1, n-1)
	database, err := db.NewInMemoryDB()
	if err != nil {
		t.Fail("db")
	}
	blocks := []*Block{}
	prev := bytes.Repeat([]byte{0}, 32)
	for i := 0; i < n; i++ {
		b := zz20Block(uint32(i), prev, i%2)
		blocks = append(blocks, b)
		prev = b.Header.ID
	}
	chain := NewChain(&ChainConfig{ChainID: []byte{0, 0, 0, 1}, MaxTransactionsLength: 1000, MaxBlockCache: c, KeepEventsForHeights: -1})
	chain.Init(blocks[0], database)
	for _, b := range blocks {
		if err := chain.AddBlock(database.NewBatch(), b, nil, 0, false); err != nil {
			t.Fail("setup: AddBlock")
		}
	}
	for k := 1; k <= r; k++ {
		err := chain.RemoveBlock(database.NewBatch(), false)
		t.Assert(err == nil, "removing a tip above the genesis block succeeds")
		tip := chain.LastBlock()
		want := blocks[n-1-k]
		t.Assert(tip != nil, "after a removal the node still has a tip (also when more blocks were removed than the block cache holds)")
		if tip == nil {
			return
		}
		t.Assert(tip.Header.Height == want.Header.Height && bytes.Equal(tip.Header.ID, want.Header.ID) && len(tip.Transactions) == len(want.Transactions), "the tip after a removal is the complete block below the removed one")
		_, gone := chain.DataAccess().GetBlockHeaderByHeight(blocks[n-k].Header.Height)
		t.Assert(gone != nil, "a removed height is no longer served")
		// ... nor is the removed block served by ID (header, block, bulk lookup): the cache must not keep it
		_, e1 := chain.DataAccess().GetBlockHeader(blocks[n-k].Header.ID)
		_, e2 := chain.DataAccess().GetBlock(blocks[n-k].Header.ID)
		hs, e3 := chain.DataAccess().GetBlockHeaders([][]byte{blocks[n-k].Header.ID})
		t.Assert(e1 != nil && e2 != nil && (e3 != nil || len(hs) == 0), "a removed block is no longer served by ID")
	}
	// a sibling on the new tip
	tip := chain.LastBlock()
	sib := zz20Block(tip.Header.Height+1, tip.Header.ID, 1)
	sib.Header.StateRoot = bytes.Repeat([]byte{0x77}, 32)
	sib.Header.Init()
	t.Assert(chain.AddBlock(database.NewBatch(), sib, nil, 0, false) == nil, "a sibling can be appended after the removals")
	last := chain.LastBlock()
	t.Assert(last != nil && bytes.Equal(last.Header.ID, sib.Header.ID), "the appended sibling is the tip")
	if r >= c {
		t.Reach("beyond-cache")
	} else {
		t.Reach("within-cache")
	}
}

// C19 "a node offered a better valid chain … ends on that chain": block sync removes tips down to the
// common block, which may lie further back than the block cache reaches (same obligation as above).
//
//zz:opt loop=200 require=beyond-cache,within-cache
//zz:quick N=5
//zz:thorough N=7
func zzH_C19_remove_beyond_cache(t *zzT) { zzH_C05_remove_beyond_cache(t) }
