//go:build verif

package blockchain

import (
	"bytes"
)

// C05.e: blockCache.push / pop on an arbitrary well-formed small cache.
//
// Pre-state (built by struct literal): `size` ≤ maxSize ≤ S blocks at consecutive heights
// cur-size+1 … cur with pairwise distinct symbolic IDs. One push of a block with symbolic height and
// fresh ID, then one pop. Oracle: push fails exactly for a non-consecutive height on a non-empty
// cache and then changes nothing; otherwise it makes the block the tip (evicting the oldest block iff
// the cache was full), and pop returns that block and leaves the pre-state minus the evicted block:
// same tip, same height/ID indexes, consistent size.
//
//zz:opt loop=12 require=rejected,inverse,evicted,tip-evicted
//zz:quick S=3
//zz:thorough S=4
func zzH_C05_block_cache_push_pop(t *zzT) {
	S := t.Param("S", 3)
	size := t.Range("size", 0, S)
	lo := size
	if lo < 1 {
		lo = 1
	}
	maxSize := t.Range("maxSize", lo, S)
	cur := t.U32("cur")
	t.Assume(cur >= uint32(S) && cur < 1<<31)

	c := newBlockCache(maxSize)
	var old []*Block
	for i := 0; i < size; i++ {
		id := t.Bytes(t.Name("id", i), 2)
		for _, o := range old {
			t.Assume(!bytes.Equal(o.Header.ID, id))
		}
		b := &Block{Header: &BlockHeader{Height: cur - uint32(size-1-i), ID: id}}
		old = append(old, b)
		c.cachedBlocks[string(id)] = b
		c.heightIndex[b.Header.Height] = string(id)
	}
	c.size, c.currentHeight = size, cur

	nb := &Block{Header: &BlockHeader{Height: t.U32("new.height"), ID: t.Bytes("new.id", 2)}}
	for _, o := range old {
		t.Assume(!bytes.Equal(o.Header.ID, nb.Header.ID))
	}

	// present(i) : old block i is retrievable by ID and by height
	present := func(i int) bool {
		g, ok := c.get(old[i].Header.ID)
		h, ok2 := c.getByHeight(old[i].Header.Height)
		return ok && ok2 && g == old[i] && h == old[i]
	}
	absent := func(b *Block) bool {
		_, ok := c.get(b.Header.ID)
		return !ok
	}

	err := c.push(nb)
	t.Assert((err != nil) == (size != 0 && nb.Header.Height != cur+1), "push rejects exactly a non-consecutive height on a non-empty cache")
	if err != nil {
		same := c.size == size && c.currentHeight == cur && len(c.cachedBlocks) == size && len(c.heightIndex) == size && absent(nb)
		for i := range old {
			same = same && present(i)
		}
		t.Assert(same, "a rejected push leaves the cache unchanged")
		t.Reach("rejected")
		return
	}
	evicted := size >= maxSize
	first := 0
	wantSize := size + 1
	if evicted {
		first, wantSize = 1, size
	}
	tip, ok := c.getByHeight(c.currentHeight)
	g, ok2 := c.get(nb.Header.ID)
	t.Assert(ok && ok2 && tip == nb && g == nb && c.currentHeight == nb.Header.Height, "after push the block is the cached tip and retrievable by ID")
	afterPush := c.size == wantSize && len(c.cachedBlocks) == wantSize && len(c.heightIndex) == wantSize && c.size <= c.maxSize
	for i := first; i < size; i++ {
		afterPush = afterPush && present(i)
	}
	if evicted {
		afterPush = afterPush && absent(old[0])
	}
	t.Assert(afterPush, "push keeps every older block except the evicted oldest one; sizes consistent and bounded")

	popped := c.pop()
	t.Assert(popped == nb, "pop returns the block pushed last")
	rest := size - first
	inv := c.size == rest && len(c.cachedBlocks) == rest && len(c.heightIndex) == rest && absent(nb)
	for i := first; i < size; i++ {
		inv = inv && present(i)
	}
	if _, ok := c.getByHeight(nb.Header.Height); ok {
		inv = false
	}
	t.Assert(inv, "push then pop leaves exactly the previous cache content (minus the block evicted by a full cache)")
	if rest > 0 {
		tip, ok := c.getByHeight(c.currentHeight)
		t.Assert(c.currentHeight == cur && ok && tip == old[size-1], "push then pop restores the cached tip")
		t.Reach("inverse")
	} else if size > 0 {
		// maxSize == 1: the previous tip was evicted by the push; nothing is cached any more
		t.Reach("tip-evicted")
	}
	if evicted {
		t.Reach("evicted")
	}
	t.ObserveU64("size", uint64(c.size))
	t.Reach("end")
}
