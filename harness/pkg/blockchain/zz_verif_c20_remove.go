//go:build verif

package blockchain

import (
	"sync"

	"github.com/LiskHQ/lisk-engine/pkg/collection/bytes"
	"github.com/LiskHQ/lisk-engine/pkg/db"
)

// C20.a "concurrent readers always obtain some complete committed tip" while the consensus goroutine removes
// MORE blocks than the block cache holds (a sync that walks back further than the cache reaches; the cache
// of a node holds 515 blocks, here 1 or 2): the cache is emptied and refilled from the database — a reader
// must never find it empty (Chain.LastBlock() == nil is dereferenced by every caller) nor see a block that
// was never the tip. Chain of 4 blocks, the writer removes 2 or 3, the reader takes the tip twice. All
// interleavings within the scheduling budget, race monitor; natively 300 rounds.
//
//zz:opt loop=200 sched=2 join=1 race=1 racereport=1 schedule=1 blockfree=0 lockdiscipline=off gor=64 require=end
//zz:thorough sched=3 budget=1800s
func zzH_C20_tip_reader_vs_deep_removal(t *zzT) {
	cache := t.Range("cache", 1, 2)
	removals := t.Range("removals", 2, 3)
	rounds := 1
	if !t.Symbolic() {
		rounds = 1500
	}
	for r := 0; r < rounds; r++ {
		database, err := db.NewInMemoryDB()
		if err != nil {
			t.Fail("db")
			return
		}
		var blocks []*Block
		prev := bytes.Repeat([]byte{0}, 32)
		for i := 0; i < 4; i++ {
			b := zz20Block(uint32(i), prev, 0)
			blocks = append(blocks, b)
			prev = b.Header.ID
		}
		chain := NewChain(&ChainConfig{ChainID: []byte{0, 0, 0, 1}, MaxTransactionsLength: 1000, MaxBlockCache: cache, KeepEventsForHeights: -1})
		chain.Init(blocks[0], database)
		for _, b := range blocks {
			if err := chain.AddBlock(database.NewBatch(), b, nil, 0, false); err != nil {
				t.Fail("setup: AddBlock")
				return
			}
		}
		var wg sync.WaitGroup
		wg.Add(1)
		done := make(chan struct{})
		go func() {
			defer wg.Done()
			defer close(done)
			for i := 0; i < removals; i++ {
				if chain.RemoveBlock(database.NewBatch(), false) != nil {
					return
				}
			}
		}()
		// engine: the reader takes the tip twice, at any moment; native: it spins until the writer is done
		lastSeen := uint32(3)
		for k := 0; ; k++ {
			if t.Symbolic() {
				if k >= 2 {
					break
				}
			} else {
				stop := false
				select {
				case <-done:
					stop = true
				default:
				}
				if stop {
					break
				}
			}
			tip := chain.LastBlock()
			if tip == nil {
				t.Fail("a concurrent reader never finds the chain without a tip while blocks are removed")
				wg.Wait()
				return
			}
			h := tip.Header.Height
			ok := h <= 3 && int(h) >= 3-removals && bytes.Equal(tip.Header.ID, blocks[h].Header.ID) && h <= lastSeen
			if !ok {
				t.Fail("the tip a reader obtains during removals is one of the successive tips, and successive reads never go back up")
				wg.Wait()
				return
			}
			lastSeen = h
		}
		wg.Wait()
		last := chain.LastBlock()
		t.Assert(last != nil && last.Header.Height == uint32(3-removals) && bytes.Equal(last.Header.ID, blocks[3-removals].Header.ID), "after the removals the tip is the block below the removed ones")
	}
	t.Reach("end")
}
