//go:build verif

package blockchain

import (
	"bytes"

	"github.com/LiskHQ/lisk-engine/pkg/crypto"
)

// C08.d block IDs: for ANY byte string the node accepts as a block (block headers are decoded
// leniently: missing fields count as zero values, so accepted wire bytes need not be canonical), the
// block ID is the hash of the header's canonical encoding, and therefore unchanged by re-encoding
// (what store/load, gossip and temp blocks do) — it is not a function of the bytes as received.
// Input: an arbitrary buffer of up to N bytes (a block envelope with a short, mostly empty header).
//
//zz:opt loop=64 require=accepted,rejected
//zz:quick N=5
//zz:thorough N=7 budget=1800s
func zzH_C08_block_id_stable(t *zzT) {
	n := t.Range("len", 0, t.Param("N", 5))
	raw := t.Bytes("raw", n)
	b, err := NewBlock(raw)
	if err != nil {
		t.Reach("rejected")
		return
	}
	t.Assert(bytes.Equal(b.Header.ID, crypto.Hash(b.Header.Encode())), "the ID of an accepted block is the hash of its canonical header encoding")
	again, err := NewBlock(b.Encode())
	t.Assert(err == nil && bytes.Equal(again.Header.ID, b.Header.ID), "re-encoding an accepted block keeps its ID")
	hdr, err := NewBlockHeader(b.Header.Encode())
	t.Assert(err == nil && bytes.Equal(hdr.ID, b.Header.ID), "decoding the stored header yields the same ID")
	t.Reach("accepted")
}
