//go:build verif

package blockchain

import (
	"bytes"

	"github.com/LiskHQ/lisk-engine/pkg/codec"
	"github.com/LiskHQ/lisk-engine/pkg/crypto"
)

// C08.d block IDs: for ANY byte string the node accepts as a block (block headers are decoded
// leniently: missing fields count as zero values, so accepted wire bytes need not be canonical), the
// block ID is the hash of the header's canonical encoding, and therefore unchanged by re-encoding
// (what store/load, gossip and temp blocks do) — it is not a function of the bytes as received.
// Input: an arbitrary buffer of up to N bytes (a block envelope with a short, mostly empty header).
//
//zz:opt loop=64 require=accepted,rejected
//zz:quick N=5
//zz:thorough N=7 budget=1800s
func zzH_C08_block_id_stable(t *zzT) {
	n := t.Range("len", 0, t.Param("N", 5))
	raw := t.Bytes("raw", n)
	b, err := NewBlock(raw)
	if err != nil {
		t.Reach("rejected")
		return
	}
	t.Assert(bytes.Equal(b.Header.ID, crypto.Hash(b.Header.Encode())), "the ID of an accepted block is the hash of its canonical header encoding")
	again, err := NewBlock(b.Encode())
	t.Assert(err == nil && bytes.Equal(again.Header.ID, b.Header.ID), "re-encoding an accepted block keeps its ID")
	hdr, err := NewBlockHeader(b.Header.Encode())
	t.Assert(err == nil && bytes.Equal(hdr.ID, b.Header.ID), "decoding the stored header yields the same ID")
	t.Reach("accepted")
}

// C08 "a transaction ID is the hash of exactly the accepted bytes; block and transaction IDs are unchanged by
// store/load and by re-encoding": Init() is what (re)establishes the ID of an object that did not come from
// NewTransaction / NewBlock — an object unmarshalled from JSON (the exported ID field is filled by the sender),
// or one changed after a first Init (a signature appended). Whatever ID and size the object carries before,
// after Init the ID is the hash of its encoding and Size is the length of its encoding; the same for block
// headers. (seed C08-7 made Transaction.Init return early when a 32-byte ID is already present.)
//
//zz:opt loop=64
func zzH_C08_init_recomputes_id(t *zzT) {
	tx := &Transaction{Module: "token", Command: "transfer", Nonce: uint64(t.U8("nonce")), Fee: 1000, SenderPublicKey: t.Bytes("sender", 32),
		Params: t.Bytes("params", 1), Signatures: []codec.Hex{t.Bytes("sig", 64)}}
	switch t.Choice("before", 3) {
	case 0: // fresh object
	case 1: // an ID supplied from outside (JSON), not the hash of anything
		tx.ID = t.Bytes("supplied.id", 32)
	default: // initialised once, then changed
		tx.Init()
		tx.Signatures = append(tx.Signatures, t.Bytes("sig2", 64))
	}
	tx.Init()
	enc := tx.Encode()
	t.Assert(bytes.Equal(tx.ID, crypto.Hash(enc)), "after Init the transaction ID is the hash of the transaction's encoding")
	t.Assert(tx.Size() == len(enc), "after Init Size is the length of the encoding")
	re, err := NewTransaction(enc)
	t.Assert(err == nil && bytes.Equal(re.ID, tx.ID), "the ID is unchanged by store/load (decode of the encoding)")

	h := &BlockHeader{Version: 2, Timestamp: 1700000000, Height: uint32(t.U8("h")), PreviousBlockID: t.Bytes("prev", 32), GeneratorAddress: t.Bytes("gen", 20),
		TransactionRoot: bytes.Repeat([]byte{1}, 32), AssetRoot: bytes.Repeat([]byte{2}, 32), EventRoot: bytes.Repeat([]byte{3}, 32), StateRoot: bytes.Repeat([]byte{4}, 32),
		ValidatorsHash: bytes.Repeat([]byte{5}, 32), AggregateCommit: &AggregateCommit{AggregationBits: []byte{}, CertificateSignature: []byte{}}, Signature: t.Bytes("hsig", 64)}
	if t.Bool("header.id.supplied") {
		h.ID = t.Bytes("header.supplied.id", 32)
	}
	h.Init()
	t.Assert(bytes.Equal(h.ID, crypto.Hash(h.Encode())), "after Init the block ID is the hash of the header's encoding")
	t.Reach("end")
}

// C03 "a payload of statically valid transactions": Transaction.Validate against the rule set as stated —
// module and command names consist of ASCII letters and digits only (every byte symbolic, 0..3 bytes, so
// non-ASCII UTF-8 letters / digits and punctuation are among the inputs), params within the size limit,
// a 32-byte sender key, at least one signature and every signature 64 bytes long.
// (seed C03-7 replaced the ^[a-zA-Z0-9]*$ match by unicode.IsLetter / IsDigit.)
//
//zz:opt loop=200
func zzH_C03_transaction_static_rules(t *zzT) {
	mod := t.Bytes("module", t.Range("module.len", 0, 3))
	cmd := t.Bytes("command", t.Range("command.len", 0, 2))
	// concrete corner cases as well (non-ASCII letters and digits, punctuation): evaluated by the real code
	// on concrete strings whatever the engine's model of symbolic strings supports
	corners := []string{"", "tok\u00e9n", "\u0442\u043e\u043a\u0435\u043d", "transfer\u0663", "to-ken", "a_b", "Token9", "\xff"}
	if k := t.Choice("module.corner", len(corners)+1); k > 0 {
		mod = []byte(corners[k-1])
	}
	if k := t.Choice("command.corner", len(corners)+1); k > 0 {
		cmd = []byte(corners[k-1])
	}
	keyLen := t.Range("sender.len", 31, 33)
	nsig := t.Range("signatures", 0, 2)
	sigs := make([]codec.Hex, nsig)
	sigOK := nsig > 0
	for i := range sigs {
		l := t.Range(t.Name("sig.len", i), 63, 65)
		sigs[i] = bytes.Repeat([]byte{7}, l)
		sigOK = sigOK && l == 64
	}
	tx := &Transaction{Module: string(mod), Command: string(cmd), Nonce: 1, Fee: 1, SenderPublicKey: bytes.Repeat([]byte{1}, keyLen), Params: []byte{1}, Signatures: sigs}
	alnum := func(b []byte) bool {
		ok := true
		for _, c := range b {
			ok = t.And(ok, t.Or(t.Or(t.And(c >= '0', c <= '9'), t.And(c >= 'a', c <= 'z')), t.And(c >= 'A', c <= 'Z')))
		}
		return ok
	}
	want := alnum(mod) && alnum(cmd) && keyLen == 32 && sigOK
	got := tx.Validate() == nil
	t.ObserveBool("got", got)
	t.Assert(got == want, "Transaction.Validate accepts exactly: ASCII-alphanumeric module and command, 32-byte sender key, >= 1 signature, all signatures 64 bytes")
	t.Reach("end")
}

// C03 static validity of the block's assets (Block.Validate -> BlockAssets.Valid): 0..4 assets whose module names
// are symbolic single letters: accepted exactly when the modules are strictly ascending (sorted and unique) —
// so that assetRoot commits to one asset per module and GetAsset is unambiguous.
// (seed C03-9 compared every asset only with the FIRST one.)
//
//zz:opt loop=64
func zzH_C03_block_assets_static_rules(t *zzT) {
	n := t.Range("assets", 0, 4)
	as := make(BlockAssets, n)
	mods := make([]byte, n)
	for i := range as {
		m := t.U8(t.Name("module", i))
		t.Assume(m >= 'a' && m <= 'e')
		mods[i] = m
		as[i] = &BlockAsset{Module: string([]byte{m}), Data: []byte{byte(i)}}
	}
	want := true
	for i := 1; i < n; i++ {
		want = t.And(want, mods[i-1] < mods[i])
	}
	got := as.Valid() == nil
	t.ObserveBool("got", got)
	t.Assert(got == want, "block assets are accepted exactly when their modules are strictly ascending (sorted, unique)")
	t.Reach("end")
}

// C04 "the block ID served for every finalized height stays the same forever … not by restart": the ID a block is
// stored and cached under is the hash of its canonical header, so the ID served from the block cache and the one
// re-derived from the stored bytes after a restart (or once the block left the cache) agree for EVERY accepted
// encoding of the block (same obligation as zzH_C08_block_id_stable; seed C04-10 hashed the bytes as received).
//
//zz:opt loop=64 require=accepted,rejected
//zz:quick N=5
//zz:thorough N=7 budget=1800s
func zzH_C04_finalized_block_id_stable(t *zzT) { zzH_C08_block_id_stable(t) }
