//go:build verif

package blockchain

import (
	"github.com/LiskHQ/lisk-engine/pkg/codec"
	"github.com/LiskHQ/lisk-engine/pkg/collection/bytes"
	"github.com/LiskHQ/lisk-engine/pkg/crypto"
	"github.com/LiskHQ/lisk-engine/pkg/db"
	"github.com/LiskHQ/lisk-engine/pkg/trie/rmt"
)

// C08 "block and transaction IDs are unchanged by store/load" and C05 "height/ID/transaction/asset/
// event indexes": a block with 0..TX transactions, 0..A block assets with symbolic data and
// 0..1 events is written by the real saveBlock and read back through EVERY load path of DataAccess
// with an empty cache (GetBlock, GetBlockByHeight, GetBlocksBetweenHeight, getLastBlock, GetBlockHeader,
// GetBlockHeaderByHeight, GetTransaction, GetTransactions, GetEvents, Chain.GetLastNBlocks): the
// loaded object re-encodes to the stored bytes, carries the same IDs, the same assets in the same
// order (their root is the header's asset root), and the transactions in block order.
//
//zz:opt loop=80 require=loaded budget=300s gor=64
//zz:quick A=2 TX=2 LASTN=2
//zz:thorough A=3 TX=3 LASTN=3 budget=1800s
func zzH_C08_block_store_load(t *zzT) {
	database, err := db.NewInMemoryDB()
	if err != nil {
		t.Fail("db")
	}
	w := NewDataAccess(database, 8, -1)
	g := zz20Block(1, bytes.Repeat([]byte{0}, 32), 0)
	batch := database.NewBatch()
	w.saveBlock(batch, g, nil, 0, false)
	database.Write(batch)

	ntx := t.Range("tx.n", 0, t.Param("TX", 2))
	na := t.Range("asset.n", 0, t.Param("A", 2))
	h := &BlockHeader{Version: 2, Timestamp: 120, Height: 2, PreviousBlockID: g.Header.ID, GeneratorAddress: bytes.Repeat([]byte{1}, 20),
		EventRoot: crypto.Hash([]byte{}), StateRoot: bytes.Repeat([]byte{2}, 32),
		ValidatorsHash: bytes.Repeat([]byte{3}, 32), AggregateCommit: &AggregateCommit{AggregationBits: []byte{}, CertificateSignature: []byte{}}, Signature: bytes.Repeat([]byte{4}, 64)}
	b := &Block{Header: h, Transactions: []*Transaction{}, Assets: []*BlockAsset{}}
	for i := 0; i < ntx; i++ {
		tx := &Transaction{Module: "token", Command: "transfer", Nonce: uint64(10 + i), Fee: uint64(1000 - i), SenderPublicKey: bytes.Repeat([]byte{5}, 32),
			Params: []byte{byte(i), 7} /* concrete: transaction IDs are database KEYS (symbolic keys fork every lookup of the model) */, Signatures: []codec.Hex{bytes.Repeat([]byte{6}, 64)}}
		tx.Init()
		b.Transactions = append(b.Transactions, tx)
	}
	for i := 0; i < ntx; i++ {
		for j := 0; j < i; j++ {
			t.Assume(!bytes.Equal(b.Transactions[i].ID, b.Transactions[j].ID))
		}
	}
	names := []string{"aaa", "bbb", "ccc"}
	for i := 0; i < na; i++ {
		b.Assets = append(b.Assets, &BlockAsset{Module: names[i], Data: t.Bytes(t.Name("asset.data", i), 2)})
	}
	txIDs := make([][]byte, ntx)
	for i := range txIDs {
		txIDs[i] = b.Transactions[i].ID
	}
	h.TransactionRoot, h.AssetRoot = rmt.CalculateRoot(txIDs), BlockAssets(b.Assets).GetRoot()
	h.Init()
	var events []*Event
	if t.Bool("event") {
		events = append(events, &Event{Module: "token", Name: "transfer", Data: t.Bytes("event.data", 2), Topics: []codec.Hex{{1}}, Height: 2, Index: 0})
	}
	want := b.Encode()
	wantID := bytes.Copy(h.ID)

	batch = database.NewBatch()
	w.saveBlock(batch, b, events, 0, false)
	database.Write(batch)

	d := NewDataAccess(database, 8, -1) // empty cache: every lookup goes to the database
	check := func(got *Block, err error, via string) {
		if err != nil || got == nil {
			t.Fail("stored block not loaded via " + via)
			return
		}
		t.Assert(bytes.Equal(got.Encode(), want), "block loaded via "+via+" re-encodes to the stored block")
		t.Assert(bytes.Equal(got.Header.ID, wantID), "block ID unchanged by store/load via "+via)
		ok := len(got.Transactions) == ntx && len(got.Assets) == na
		if ok {
			for i := range got.Transactions {
				ok = ok && bytes.Equal(got.Transactions[i].ID, b.Transactions[i].ID) && got.Transactions[i].Nonce == b.Transactions[i].Nonce
			}
			for i := range got.Assets {
				ok = ok && got.Assets[i].Module == b.Assets[i].Module && bytes.Equal(got.Assets[i].Data, b.Assets[i].Data)
			}
		}
		t.Assert(ok, "transactions (with their IDs) and assets come back complete and in block order via "+via)
		// (the roots need no recomputation: the loaded block re-encodes to the stored bytes, header and content alike)
	}
	got, err := d.GetBlock(wantID)
	check(got, err, "GetBlock")
	got, err = d.GetBlockByHeight(2)
	check(got, err, "GetBlockByHeight")
	got, err = d.getLastBlock() // the database path a restart takes (GetLastBlock itself only reads the cache)
	check(got, err, "getLastBlock")
	bs, err := d.GetBlocksBetweenHeight(1, 2)
	if err != nil || len(bs) != 2 {
		t.Fail("range lookup over the stored blocks")
		return
	}
	check(bs[1], nil, "GetBlocksBetweenHeight")
	t.Assert(bytes.Equal(bs[0].Header.ID, g.Header.ID), "range lookup is in ascending height order")

	c := &Chain{dataAccess: d, genesisBlock: g}
	if err := d.Cache(bs[1]); err != nil {
		t.Fail("cache the tip")
		return
	}
	last, err := c.GetLastNBlocks(t.Range("lastN", t.Param("LASTN", 2)-1, t.Param("LASTN", 2)))
	t.Assert(err == nil && len(last) >= 1 && bytes.Equal(last[len(last)-1].Encode(), want), "GetLastNBlocks ends with the stored tip")
	if err == nil {
		for i := range last {
			t.Assert(last[i].Header.Height == uint32(2-(len(last)-1-i)), "GetLastNBlocks returns consecutive heights up to the tip, never below genesis")
		}
	}

	hd, err := d.GetBlockHeader(wantID)
	t.Assert(err == nil && hd != nil && bytes.Equal(hd.Encode(), h.Encode()) && bytes.Equal(hd.ID, wantID), "header loaded by ID equals the stored header")
	hd, err = d.GetBlockHeaderByHeight(2)
	t.Assert(err == nil && hd != nil && bytes.Equal(hd.ID, wantID), "header loaded by height carries the same ID")
	hd, err = d.GetLastBlockHeader()
	t.Assert(err == nil && hd != nil && bytes.Equal(hd.ID, wantID), "last header carries the same ID")
	for i := 0; i < ntx; i++ {
		tx, err := d.GetTransaction(b.Transactions[i].ID)
		t.Assert(err == nil && tx != nil && bytes.Equal(tx.ID, b.Transactions[i].ID) && bytes.Equal(tx.Encode(), b.Transactions[i].Encode()), "transaction loaded by ID is the stored transaction with the same ID")
	}
	if ntx > 0 {
		ids := make([][]byte, ntx)
		for i := range ids {
			ids[i] = b.Transactions[ntx-1-i].ID
		}
		txs, err := d.GetTransactions(ids)
		t.Assert(err == nil && len(txs) == ntx, "bulk transaction lookup returns all stored transactions")
	}
	evs, err := d.GetEvents(2)
	if len(events) == 0 {
		// a block without events stores no event entry: the lookup reports nothing (an error or an empty list)
		t.Assert(err != nil || len(evs) == 0, "a height without events serves no events")
	} else {
		t.Assert(err == nil && len(evs) == len(events), "events of the height come back")
	}
	if err == nil && len(evs) == 1 && len(events) == 1 {
		t.Assert(bytes.Equal(evs[0].Encode(), events[0].Encode()), "stored event decodes to the same event")
	}
	t.Reach("loaded")
}

//zz:opt loop=80 require=loaded budget=300s gor=64
//zz:quick A=2 TX=2 LASTN=2
//zz:thorough A=3 TX=3 LASTN=3 budget=1800s
func zzH_C05_block_store_load(t *zzT) { zzH_C08_block_store_load(t) }
