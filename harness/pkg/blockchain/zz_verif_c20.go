//go:build verif

package blockchain

import (
	"sync"

	"time"

	"github.com/LiskHQ/lisk-engine/pkg/codec"
	"github.com/LiskHQ/lisk-engine/pkg/collection/bytes"
	"github.com/LiskHQ/lisk-engine/pkg/crypto"
	"github.com/LiskHQ/lisk-engine/pkg/db"
)

func zz20Block(height uint32, prev []byte, ntx int) *Block {
	h := &BlockHeader{Version: 2, Timestamp: 100 + height*10, Height: height, PreviousBlockID: prev, GeneratorAddress: bytes.Repeat([]byte{1}, 20),
		TransactionRoot: crypto.Hash([]byte{}), AssetRoot: crypto.Hash([]byte{}), EventRoot: crypto.Hash([]byte{}), StateRoot: bytes.Repeat([]byte{2}, 32),
		ValidatorsHash: bytes.Repeat([]byte{3}, 32), AggregateCommit: &AggregateCommit{AggregationBits: []byte{}, CertificateSignature: []byte{}}, Signature: bytes.Repeat([]byte{4}, 64)}
	h.Init()
	b := &Block{Header: h, Transactions: []*Transaction{}, Assets: []*BlockAsset{}}
	for i := 0; i < ntx; i++ {
		tx := &Transaction{Module: "token", Command: "transfer", Nonce: uint64(height)*10 + uint64(i), Fee: 1, SenderPublicKey: bytes.Repeat([]byte{5}, 32),
			Params: []byte{byte(i)}, Signatures: []codec.Hex{bytes.Repeat([]byte{6}, 64)}}
		tx.Init()
		b.Transactions = append(b.Transactions, tx)
	}
	return b
}

// zz20Store: a database holding `n` consecutive blocks saved by the real saveBlock, read through a
// fresh DataAccess whose cache is empty (so every lookup goes to the database).
func zz20Store(t *zzT, n, ntx int) (*DataAccess, []*Block) {
	database, err := db.NewInMemoryDB()
	if err != nil {
		t.Fail("db")
	}
	w := NewDataAccess(database, 8, -1)
	var blocks []*Block
	prev := bytes.Repeat([]byte{0}, 32)
	for i := 0; i < n; i++ {
		b := zz20Block(uint32(i+1), prev, ntx)
		batch := database.NewBatch()
		w.saveBlock(batch, b, nil, 0, false)
		database.Write(batch)
		blocks = append(blocks, b)
		prev = b.Header.ID
	}
	return NewDataAccess(database, 8, -1), blocks
}

// C20.b: bulk lookups return every existing item exactly once, for every interleaving of the
// goroutines they fan out to (scheduling points at every shared access the race monitor finds).
//
//zz:opt loop=80 sched=2 race=1 racereport=1 schedule=1 lockdiscipline=off
//zz:quick N=2
//zz:thorough N=3
func zzH_C20_bulk_headers_by_ids(t *zzT) {
	n := t.Param("N", 2)
	d, blocks := zz20Store(t, n, 0)
	// the newest block may sit in the block cache while the older ones are only in the database (the usual
	// state of a node): lookups then mix cached and stored entries
	if t.Bool("newest.cached") {
		if err := d.Cache(blocks[n-1]); err != nil {
			t.Fail("setup: cache")
		}
	}
	ids := [][]byte{}
	for _, b := range blocks {
		ids = append(ids, b.Header.ID)
	}
	ids = append(ids, bytes.Repeat([]byte{9}, 32)) // one id that does not exist
	reps := 1
	if !t.Symbolic() {
		reps = 300
	}
	for r := 0; r < reps; r++ {
		hs, err := d.GetBlockHeaders(ids)
		t.Assert(err == nil, "bulk header lookup does not fail")
		t.Assert(len(hs) == n, "bulk lookup by IDs returns every existing header exactly once")
		seen := 0
		for _, b := range blocks {
			for _, h := range hs {
				if h != nil && bytes.Equal(h.ID, b.Header.ID) {
					seen++
				}
			}
		}
		t.Assert(seen == n, "each stored header appears once in the result")
	}
	t.Reach("end")
}

//zz:opt loop=80 sched=2 race=1 racereport=1 schedule=1 lockdiscipline=off
//zz:quick N=2
//zz:thorough N=3
func zzH_C20_bulk_headers_by_heights(t *zzT) {
	n := t.Param("N", 2)
	d, hblocks := zz20Store(t, n, 0)
	if t.Bool("newest.cached") {
		if err := d.Cache(hblocks[n-1]); err != nil {
			t.Fail("setup: cache")
		}
	}
	heights := []uint32{}
	for i := 0; i < n; i++ {
		heights = append(heights, uint32(i+1))
	}
	heights = append(heights, 77)
	reps := 1
	if !t.Symbolic() {
		reps = 300
	}
	for r := 0; r < reps; r++ {
		hs, err := d.GetBlockHeadersByHeights(heights)
		t.Assert(err == nil, "bulk header lookup does not fail")
		t.Assert(len(hs) == n, "bulk lookup by heights returns every existing header exactly once")
	}
	t.Reach("end")
}

//zz:opt loop=80 sched=2 race=1 racereport=1 schedule=1 lockdiscipline=off
func zzH_C20_bulk_transactions(t *zzT) {
	d, blocks := zz20Store(t, 1, 2)
	ids := [][]byte{blocks[0].Transactions[0].ID, blocks[0].Transactions[1].ID, bytes.Repeat([]byte{9}, 32)}
	reps := 1
	if !t.Symbolic() {
		reps = 300
	}
	for r := 0; r < reps; r++ {
		txs, err := d.GetTransactions(ids)
		t.Assert(err == nil, "bulk transaction lookup does not fail")
		t.Assert(len(txs) == 2, "bulk transaction lookup returns every existing transaction exactly once")
	}
	t.Reach("end")
}

// positive control: the range lookup writes to per-index slots and is race free.
//
//zz:opt loop=80 sched=2 race=1 racereport=1 lockdiscipline=off
func zzH_C20_blocks_between_heights(t *zzT) {
	d, blocks := zz20Store(t, 2, 1)
	bs, err := d.GetBlocksBetweenHeight(1, 2)
	t.Assert(err == nil && len(bs) == 2, "range lookup returns every block of the range")
	if err == nil && len(bs) == 2 {
		t.Assert(bytes.Equal(bs[0].Header.ID, blocks[0].Header.ID) && bytes.Equal(bs[1].Header.ID, blocks[1].Header.ID), "in ascending height order")
	}
	t.Reach("end")
}

// C20.a: lock discipline of the block cache — no operation re-acquires the mutex it already holds
// (a recursive RLock deadlocks as soon as a writer queues between the two acquisitions). Natively the
// harness stresses readers against one writer and relies on the replay watchdog.
//
//zz:opt loop=80
func zzH_C20_block_cache_lock_discipline(t *zzT) {
	c := newBlockCache(4)
	b1 := zz20Block(1, bytes.Repeat([]byte{0}, 32), 0)
	b2 := zz20Block(2, b1.Header.ID, 0)
	t.Assert(c.push(b1) == nil && c.push(b2) == nil, "push consecutive blocks")
	if t.Symbolic() {
		op := t.Choice("op", 5)
		switch op {
		case 0:
			last, ok := c.last()
			t.Assert(ok && last.Header.Height == 2, "last returns the tip")
		case 1:
			g, ok := c.get(b1.Header.ID)
			t.Assert(ok && g.Header.Height == 1, "get by id")
		case 2:
			g, ok := c.getByHeight(2)
			t.Assert(ok && g.Header.Height == 2, "get by height")
		case 3:
			p := c.pop()
			t.Assert(p != nil && p.Header.Height == 2, "pop returns the tip")
		case 4:
			b3 := zz20Block(3, b2.Header.ID, 0)
			t.Assert(c.push(b3) == nil, "push")
		}
		t.Reach("end")
		return
	}
	// native: 8 readers calling last() against a writer pushing/popping
	var wg sync.WaitGroup
	stop := make(chan struct{})
	for i := 0; i < 8; i++ {
		wg.Add(1)
		go func() {
			defer wg.Done()
			for k := 0; k < 200000; k++ {
				c.last()
			}
		}()
	}
	wg.Add(1)
	go func() {
		defer wg.Done()
		b3 := zz20Block(3, b2.Header.ID, 0)
		for {
			select {
			case <-stop:
				return
			default:
			}
			_ = c.push(b3)
			c.pop()
		}
	}()
	readersDone := make(chan struct{})
	go func() { wg.Wait(); close(readersDone) }()
	zz20WaitReaders(&wg, stop)
	<-readersDone
	t.Reach("end")
}

func zz20WaitReaders(wg *sync.WaitGroup, stop chan struct{}) {
	// the writer is the last goroutine in wg; readers cannot be awaited separately, so stop the writer
	// after a grace period proportional to the readers' work and let wg.Wait observe everybody
	go func() {
		// 200k last() calls per reader take well under 2 s without a deadlock
		time.Sleep(2 * time.Second)
		close(stop)
	}()
}

// C20.a: concurrent readers always obtain some complete committed tip. A chain of two blocks; the
// consensus goroutine appends a third block and removes it again (real Chain.AddBlock / RemoveBlock
// over the database model and the block cache) while a reader (RPC / generator) asks for the last
// block and for the header at the tip's height. All interleavings within the scheduling budget, with
// the race monitor. Asserted: no data race, nobody blocks; the tip the reader obtains is block 2 or
// block 3 — complete (height, ID and previous ID of that very block) — and a header the reader then
// fetches at that height is either that block's header or (if the block was removed meanwhile) reported
// missing; never a mixture.
//
//zz:opt loop=80 sched=2 join=1 race=1 racereport=1 schedule=1 blockfree=0 lockdiscipline=off
//zz:thorough sched=3 budget=1800s
func zzH_C20_tip_reader_vs_writer(t *zzT) {
	database, err := db.NewInMemoryDB()
	if err != nil {
		t.Fail("db")
	}
	b1 := zz20Block(0, bytes.Repeat([]byte{0}, 32), 0)
	b2 := zz20Block(1, b1.Header.ID, 1)
	b3 := zz20Block(2, b2.Header.ID, 1)
	chain := NewChain(&ChainConfig{ChainID: []byte{0, 0, 0, 1}, MaxTransactionsLength: 1000, MaxBlockCache: 4, KeepEventsForHeights: -1})
	chain.Init(b1, database)
	for _, b := range []*Block{b1, b2} {
		if err := chain.AddBlock(database.NewBatch(), b, nil, 0, false); err != nil {
			t.Fail("setup: AddBlock")
		}
	}
	var wg sync.WaitGroup
	wg.Add(1)
	go func() {
		defer wg.Done()
		if chain.AddBlock(database.NewBatch(), b3, nil, 0, false) != nil {
			return
		}
		_ = chain.RemoveBlock(database.NewBatch(), false)
	}()
	tip := chain.LastBlock()
	is2 := tip != nil && tip.Header.Height == 1 && bytes.Equal(tip.Header.ID, b2.Header.ID) && bytes.Equal(tip.Header.PreviousBlockID, b1.Header.ID)
	is3 := tip != nil && tip.Header.Height == 2 && bytes.Equal(tip.Header.ID, b3.Header.ID) && bytes.Equal(tip.Header.PreviousBlockID, b2.Header.ID)
	t.Assert(is2 || is3, "a concurrent reader obtains a complete committed tip (block 2 or block 3)")
	if tip != nil {
		h, herr := chain.DataAccess().GetBlockHeaderByHeight(tip.Header.Height)
		t.Assert(herr != nil || bytes.Equal(h.ID, tip.Header.ID), "a header fetched at the tip's height is that block's header or missing, never another block")
	}
	wg.Wait()
	last := chain.LastBlock()
	t.Assert(last != nil && bytes.Equal(last.Header.ID, b2.Header.ID), "after append + removal the tip is block 2 again")
	t.Reach("end")
}

// C20.a "some complete COMMITTED tip": while the consensus goroutine appends block 3 (one transaction),
// a reader takes the tip; if it is handed block 3, that block is already in the database — header by
// ID, height index and its transaction — so that everything the reader looks up next for this tip
// exists (the generator reads the state of LastBlock().Height+1, RPC serves the tip's transactions).
// All interleavings within the scheduling budget. (seed C20-5 pushed the block into the cache before
// the batch write.)
//
//zz:opt loop=80 sched=2 join=1 schedule=1 blockfree=0 lockdiscipline=off require=sequential-new-tip,end
//zz:thorough sched=3 budget=1800s
func zzH_C20_tip_is_committed(t *zzT) {
	// mode 1: the reader comes after the writer (deterministic; guards the oracle itself); mode 0: concurrent
	sequential := t.Choice("reader.after.writer", 2) == 1
	rounds := 1
	if !t.Symbolic() && !sequential {
		rounds = 300 // natively the interleaving cannot be steered: repeat the scenario with a spinning reader
	}
	for round := 0; round < rounds; round++ {
		database, err := db.NewInMemoryDB()
		if err != nil {
			t.Fail("db")
		}
		b1 := zz20Block(0, bytes.Repeat([]byte{0}, 32), 0)
		b2 := zz20Block(1, b1.Header.ID, 1)
		b3 := zz20Block(2, b2.Header.ID, 1)
		chain := NewChain(&ChainConfig{ChainID: []byte{0, 0, 0, 1}, MaxTransactionsLength: 1000, MaxBlockCache: 4, KeepEventsForHeights: -1})
		chain.Init(b1, database)
		for _, b := range []*Block{b1, b2} {
			if err := chain.AddBlock(database.NewBatch(), b, nil, 0, false); err != nil {
				t.Fail("setup: AddBlock")
			}
		}
		var wg sync.WaitGroup
		wg.Add(1)
		go func() {
			defer wg.Done()
			_ = chain.AddBlock(database.NewBatch(), b3, nil, 0, false)
		}()
		if sequential {
			wg.Wait()
		}
		tip := chain.LastBlock()
		if !t.Symbolic() && !sequential {
			for tip != nil && tip.Header.Height != 2 {
				tip = chain.LastBlock()
			}
		}
		if tip != nil && tip.Header.Height == 2 {
			_, okHeader := database.Get(bytes.Join(DBPrefixToBytes(dbPrefixBlockIDToBlockHeader), tip.Header.ID))
			id, okIndex := database.Get(bytes.Join(DBPrefixToBytes(dbPrefixBlockHeightToBlockID), bytes.FromUint32(2)))
			_, okTx := database.Get(bytes.Join(DBPrefixToBytes(dbPrefixTxIDToTx), b3.Transactions[0].ID))
			t.Assert(okHeader && okIndex && bytes.Equal(id, tip.Header.ID) && okTx, "a tip handed to a concurrent reader is committed: header, height index and transactions are in the database")
			if sequential {
				t.Reach("sequential-new-tip")
			}
		} else {
			t.Assert(!sequential && tip != nil && bytes.Equal(tip.Header.ID, b2.Header.ID), "otherwise the reader obtains the previous tip")
		}
		wg.Wait()
		database.Close()
	}
	t.Reach("end")
}

// C20 "bulk lookups (… blocks by range) return every existing item exactly once" and "free of … ordering
// deadlocks" at the size the node really serves: the P2P getBlocksFromId handler asks for up to 103 blocks.
// A range of N blocks outside the block cache, each with one transaction (so that the per-height worker fans
// out again for the transactions): the lookup returns, with every block and transaction of the range in
// ascending order. Deterministic schedule; a worker pool or semaphore shared by the nested fan-outs that
// runs out at this size shows as a deadlock. (seed C20-6: a shared 64-slot semaphore taken by the per-height
// workers AND by their per-transaction workers.)
//
//zz:opt loop=400 gor=600 join=1 lockdiscipline=off steps=60000000 budget=600s
//zz:quick N=70
//zz:thorough N=103
func zzH_C20_blocks_range_served_size(t *zzT) {
	n := t.Param("N", 70)
	rounds := 1
	if !t.Symbolic() {
		// natively the schedule cannot be steered: the served size, many rounds, and a second range lookup
		// running concurrently (as two peers asking at the same time)
		n, rounds = 103, 40
	}
	d, blocks := zz20Store(t, n, 1)
	for r := 0; r < rounds; r++ {
		var wg sync.WaitGroup
		if !t.Symbolic() {
			wg.Add(1)
			go func() {
				defer wg.Done()
				_, _ = d.GetBlocksBetweenHeight(1, uint32(n))
			}()
		}
		bs, err := d.GetBlocksBetweenHeight(1, uint32(n))
		t.Assert(err == nil && len(bs) == n, "a range lookup of the served size returns every block of the range")
		if err == nil && len(bs) == n {
			ok := true
			for i := range bs {
				if !bytes.Equal(bs[i].Header.ID, blocks[i].Header.ID) || len(bs[i].Transactions) != 1 || !bytes.Equal(bs[i].Transactions[0].ID, blocks[i].Transactions[0].ID) {
					ok = false
				}
			}
			t.Assert(ok, "every block with its transaction, in ascending height order")
		}
		wg.Wait()
	}
	t.Reach("end")
}
