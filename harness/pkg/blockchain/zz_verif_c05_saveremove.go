//go:build verif

package blockchain

import (
	"bytes"

	"github.com/LiskHQ/lisk-engine/pkg/codec"
	lbytes "github.com/LiskHQ/lisk-engine/pkg/collection/bytes"
	"github.com/LiskHQ/lisk-engine/pkg/db"
)

// ---------------------------------------------------------------------------------------------
// C05.c saveBlock / removeBlock symmetry.
//
// saveBlock/removeBlock write into a concrete *db.Batch and read the concrete *db.DB. Under the
// engine Batch.Set/Del and DB.IterateRange are redirected (//zz:stub) to a sorted-list store with
// real batch semantics (operations are queued and applied on write, reads see the pre-batch
// content). Natively the same harness runs on a real in-memory pebble DB and a real batch.
// ---------------------------------------------------------------------------------------------

type zzEntry struct{ k, v []byte }

type zzBatchOp struct {
	del  bool
	k, v []byte
}

var (
	zzStore   []zzEntry // ascending, duplicate free
	zzPending []zzBatchOp
)

func zzCopy(b []byte) []byte {
	c := make([]byte, len(b))
	copy(c, b)
	return c
}

func zzStubBatchSet(b *db.Batch, key, value []byte) {
	zzPending = append(zzPending, zzBatchOp{false, zzCopy(key), zzCopy(value)})
}

func zzStubBatchDel(b *db.Batch, key []byte) {
	zzPending = append(zzPending, zzBatchOp{true, zzCopy(key), nil})
}

func zzStubIterateRange(d *db.DB, start, end []byte, limit int, reverse bool) []db.KeyValue {
	var out []db.KeyValue
	for j := range zzStore {
		i := j
		if reverse {
			i = len(zzStore) - 1 - j
		}
		if limit != -1 && len(out) >= limit {
			break
		}
		if bytes.Compare(zzStore[i].k, start) >= 0 && bytes.Compare(zzStore[i].k, end) <= 0 {
			out = append(out, db.NewKeyValue(zzCopy(zzStore[i].k), zzCopy(zzStore[i].v)))
		}
	}
	return out
}

func zzStorePut(k, v []byte) {
	pos := len(zzStore)
	for i := range zzStore {
		c := bytes.Compare(zzStore[i].k, k)
		if c == 0 {
			zzStore[i].v = v
			return
		}
		if c > 0 {
			pos = i
			break
		}
	}
	ns := make([]zzEntry, 0, len(zzStore)+1)
	ns = append(ns, zzStore[:pos]...)
	ns = append(ns, zzEntry{k, v})
	ns = append(ns, zzStore[pos:]...)
	zzStore = ns
}

func zzStoreDel(k []byte) {
	for i := range zzStore {
		if bytes.Equal(zzStore[i].k, k) {
			ns := make([]zzEntry, 0, len(zzStore))
			ns = append(ns, zzStore[:i]...)
			ns = append(ns, zzStore[i+1:]...)
			zzStore = ns
			return
		}
	}
}

// zzEnv hides the engine/native difference.
type zzEnv struct {
	t    *zzT
	real *db.DB
	da   *DataAccess
}

func zzNewEnv(t *zzT, keep int) *zzEnv {
	e := &zzEnv{t: t}
	if t.Symbolic() {
		zzStore, zzPending = nil, nil
		e.da = &DataAccess{database: &db.DB{}, cache: newBlockCache(2), keepEventsForHeights: keep}
		return e
	}
	real, err := db.NewInMemoryDB()
	if err != nil {
		panic(err)
	}
	e.real = real
	e.da = &DataAccess{database: real, cache: newBlockCache(2), keepEventsForHeights: keep}
	return e
}

func (e *zzEnv) put(k, v []byte) {
	if e.t.Symbolic() {
		zzStorePut(k, v)
		return
	}
	e.real.Set(k, v)
}

func (e *zzEnv) newBatch() *db.Batch {
	if e.t.Symbolic() {
		return nil // never dereferenced: its methods are stubbed
	}
	return e.real.NewBatch()
}

func (e *zzEnv) write(b *db.Batch) {
	if e.t.Symbolic() {
		for _, op := range zzPending {
			if op.del {
				zzStoreDel(op.k)
			} else {
				zzStorePut(op.k, op.v)
			}
		}
		zzPending = nil
		return
	}
	e.real.Write(b)
}

// dump: the whole database content, ascending.
func (e *zzEnv) dump() []zzEntry {
	if e.t.Symbolic() {
		return zzStore
	}
	var out []zzEntry
	for _, kv := range e.real.Iterate([]byte{}, -1, false) {
		out = append(out, zzEntry{kv.Key(), kv.Value()})
	}
	return out
}

func zzLookup(s []zzEntry, k []byte) ([]byte, bool) {
	for i := range s {
		if bytes.Equal(s[i].k, k) {
			return s[i].v, true
		}
	}
	return nil, false
}

func zzHas(s []zzEntry, k, v []byte) bool {
	g, ok := zzLookup(s, k)
	return ok && bytes.Equal(g, v)
}

func zzKeyOf(p DBPrefix, rest []byte) []byte {
	return append([]byte{uint8(p)}, rest...)
}

// C05.c: for a symbolic block (≤ 2 transactions, ≤ 1 asset, ≤ 1 event; symbolic height and IDs),
// symbolic finalized height and event retention, on a database that already holds the events of an
// older height and one temporary block:
//   - saveBlock writes the header, height index, transactions, transaction-ID list, assets, events
//     and the finalized-height marker, prunes events only at heights ≤ min(finalized, h-keep) and
//     deletes the temporary block of its own height iff asked;
//   - removeBlock then deletes every key saveBlock wrote except the finalized-height marker, and
//     with saveTemp stores the block under temp‖height in a form NewBlock decodes to the same block;
//   - nothing else in the database changes.
//
//zz:opt loop=24 merge=~/pkg/collection/ints.Max[int],~/pkg/collection/ints.Min[int]
//zz:quick TX=1
//zz:thorough TX=2
//zz:stub (*~/pkg/db.Batch).Set zzStubBatchSet
//zz:stub (*~/pkg/db.Batch).Del zzStubBatchDel
//zz:stub (*~/pkg/db.DB).IterateRange zzStubIterateRange
func zzH_C05_save_remove_block(t *zzT) {
	keep := t.Int("keep")
	t.Assume(keep >= -1 && keep <= 1000)
	env := zzNewEnv(t, keep)

	h := t.U32("height")
	finalized := t.U32("finalized")
	hb := lbytes.FromUint32(h)

	// pre-existing content: events of an older height h0 < h, a temporary block at height ht
	h0 := t.U32("old.events.height")
	t.Assume(h0 < h)
	oldEvKey := zzKeyOf(dbPrefixBlockHeightToEvents, lbytes.FromUint32(h0))
	ht := t.U32("old.temp.height")
	oldTempKey := zzKeyOf(dbPrefixTemp, lbytes.FromUint32(ht))
	env.put(oldEvKey, []byte{0xe0})
	env.put(oldTempKey, []byte{0x70})

	// the block
	block := &Block{Header: &BlockHeader{
		ID: t.Bytes("block.id", 2), Version: 2, Height: h, Timestamp: t.U32("timestamp") & 0x7f,
		PreviousBlockID: []byte{1}, GeneratorAddress: make([]byte, 20), TransactionRoot: []byte{2}, AssetRoot: []byte{3},
		EventRoot: []byte{4}, StateRoot: []byte{5}, ValidatorsHash: []byte{6}, AggregateCommit: &AggregateCommit{}, Signature: []byte{7},
	}}
	ntx := t.Range("tx.n", 0, t.Param("TX", 2))
	for i := 0; i < ntx; i++ {
		if i > 0 { // IDs are hashes of the (distinct) transactions
			t.Assume(!bytes.Equal(t.Bytes(t.Name("tx.id", i), 2), t.Bytes(t.Name("tx.id", i-1), 2)))
		}
		block.Transactions = append(block.Transactions, &Transaction{
			ID: t.Bytes(t.Name("tx.id", i), 2), Module: "token", Command: "transfer", Nonce: uint64(i), Fee: 1,
			SenderPublicKey: make([]byte, 32), Params: t.Bytes(t.Name("tx.params", i), 1), Signatures: []codec.Hex{make([]byte, 64)},
		})
	}
	if t.Bool("asset") {
		block.Assets = append(block.Assets, &BlockAsset{Module: "random", Data: t.Bytes("asset.data", 1)})
	}
	var events []*Event
	if t.Bool("event") {
		events = append(events, &Event{Module: "token", Name: "transfer", Data: t.Bytes("event.data", 1), Topics: []codec.Hex{{1}}, Height: h, Index: 0})
	}
	removeTemp := t.Bool("removeTemp")
	saveTemp := t.Bool("saveTemp")

	// ---- saveBlock
	b1 := env.newBatch()
	env.da.saveBlock(b1, block, events, finalized, removeTemp)
	env.write(b1)
	s1 := env.dump()

	headerKey := zzKeyOf(dbPrefixBlockIDToBlockHeader, block.Header.ID)
	heightKey := zzKeyOf(dbPrefixBlockHeightToBlockID, hb)
	txsKey := zzKeyOf(dbPrefixBlockIDToTxs, block.Header.ID)
	assetsKey := zzKeyOf(dbPrefixBlockIDToAssets, block.Header.ID)
	eventsKey := zzKeyOf(dbPrefixBlockHeightToEvents, hb)
	tempKey := zzKeyOf(dbPrefixTemp, hb)
	finKey := DBPrefixToBytes(dbPrefixFinalizedHeight)

	written := zzHas(s1, headerKey, block.Header.Encode()) && zzHas(s1, heightKey, block.Header.ID) && zzHas(s1, finKey, lbytes.FromUint32(finalized))
	var ids []byte
	for _, tx := range block.Transactions {
		written = written && zzHas(s1, zzKeyOf(dbPrefixTxIDToTx, tx.ID), tx.Encode())
		ids = append(ids, tx.ID...)
	}
	_, hasTxs := zzLookup(s1, txsKey)
	_, hasAssets := zzLookup(s1, assetsKey)
	_, hasEvents := zzLookup(s1, eventsKey)
	written = written && hasTxs == (ntx > 0) && (ntx == 0 || zzHas(s1, txsKey, ids)) &&
		hasAssets == (len(block.Assets) > 0) && hasEvents == (len(events) > 0)
	t.Assert(written, "saveBlock stores header, height index, transactions, ID list, assets, events and the finalized height")
	if hasEvents {
		evs, err := bytesToEvents(zzMust(zzLookup(s1, eventsKey)))
		t.Assert(err == nil && len(evs) == 1 && bytes.Equal(evs[0].Data, events[0].Data) && evs[0].Height == h, "stored events decode to the block's events")
	}

	// pruning of older events
	_, oldEvLeft := zzLookup(s1, oldEvKey)
	bound := int(h) - keep
	if int(finalized) < bound {
		bound = int(finalized)
	}
	t.Assert(oldEvLeft || (keep > -1 && int(h0) <= bound), "saveBlock prunes events only at heights ≤ min(finalized, height-keep)")
	t.Assert(!oldEvLeft || !(keep > -1 && int(h0) <= bound && bound > 0), "saveBlock prunes all events at heights ≤ min(finalized, height-keep)")
	// temporary block of the same height
	_, oldTempLeft := zzLookup(s1, oldTempKey)
	t.Assert(oldTempLeft == !(removeTemp && ht == h), "saveBlock deletes exactly the temporary block of its own height, iff removeTemp")

	// ---- removeBlock
	b2 := env.newBatch()
	env.da.removeBlock(b2, block, saveTemp)
	env.write(b2)
	s2 := env.dump()

	gone := true
	for _, k := range [][]byte{headerKey, heightKey, txsKey, assetsKey, eventsKey} {
		_, ok := zzLookup(s2, k)
		gone = gone && !ok
	}
	for _, tx := range block.Transactions {
		_, ok := zzLookup(s2, zzKeyOf(dbPrefixTxIDToTx, tx.ID))
		gone = gone && !ok
	}
	t.Assert(gone, "removeBlock deletes every key saveBlock wrote for the block")
	t.Assert(zzHas(s2, finKey, lbytes.FromUint32(finalized)), "the finalized-height marker survives removeBlock")

	// everything else is as before the block: the older events / temp block as left by saveBlock
	want := 1
	if oldEvLeft {
		want++
		t.Assert(zzHas(s2, oldEvKey, []byte{0xe0}), "removeBlock leaves older events alone")
	}
	tmp, hasTmp := zzLookup(s2, tempKey)
	if saveTemp {
		t.Assert(hasTmp, "removeBlock with saveTemp stores the block as temporary block of its height")
		if hasTmp {
			dec, err := NewBlock(tmp)
			t.Assert(err == nil && dec.Header.Height == h && len(dec.Transactions) == ntx && len(dec.Assets) == len(block.Assets) &&
				bytes.Equal(dec.Encode(), block.Encode()), "the temporary entry decodes to the removed block")
		}
		want++
		if oldTempLeft && ht != h {
			want++
		}
	} else if oldTempLeft {
		want++
		t.Assert(zzHas(s2, oldTempKey, []byte{0x70}), "removeBlock without saveTemp leaves temporary blocks alone")
	}
	t.Assert(len(s2) == want, "after save and remove the database holds nothing but the previous content, the finalized height and the temporary block")
	t.ObserveU64("entries", uint64(len(s2)))
	t.Reach("end")
}

func zzMust(v []byte, ok bool) []byte { return v }
