//go:build verif

package txpool

import (
	"github.com/LiskHQ/lisk-engine/pkg/blockchain"
)

// zzSortedNonces returns the keys of the sender list in ascending order (insertion sort; the
// comparisons fork exactly like the heap operations of the code under test).
func zzSortedNonces(l *addressTransactions) []uint64 {
	var s []uint64
	for n := range l.transactions {
		s = append(s, n)
		for i := len(s) - 1; i > 0 && s[i] < s[i-1]; i-- {
			s[i], s[i-1] = s[i-1], s[i]
		}
	}
	return s
}

// zzListInvariant: processables is the ascending, gap-free prefix of the sorted nonces (App. B.6).
func zzListInvariant(t *zzT, l *addressTransactions) bool {
	s := zzSortedNonces(l)
	if len(l.processables) > len(s) || len(l.nonces) != len(s) {
		return false
	}
	ok := true
	for j, q := range l.processables {
		ok = t.And(ok, q == s[j])
		if j > 0 {
			ok = t.And(ok, t.And(q == l.processables[j-1]+1, q != 0))
		}
	}
	return ok
}

func zzSameTxs(t *zzT, got []*TransactionWithFeePriority, want []*TransactionWithFeePriority) bool {
	if len(got) != len(want) {
		return false
	}
	for i := range got {
		if got[i] != want[i] {
			return false
		}
	}
	return true
}

// zzH_C14_sender_list_reference: C14.e on one sender list. A list state is reached by m <= 3 Adds
// with symbolic pairwise distinct nonces and a promotion of a prefix of GetPromotable(); then
// GetProcessables / GetUnprocessables / GetPromotable are compared with the reference on the sorted
// nonces; then one more list operation (Add of a further transaction, or Remove of a pooled nonce)
// must keep "processables = gap-free prefix of the sorted nonces".
//
//zz:opt loop=64 require=end,promoted-some,step-add,step-remove
//zz:quick m=3
//zz:thorough m=3
func zzH_C14_sender_list_reference(t *zzT) {
	M := t.Param("m", 3)
	m := t.Range("m", 1, M)
	l := newAddressTransactions([]byte{0xaa}, M+1, t.U64("minDiff"))
	ws := make([]*TransactionWithFeePriority, m+1)
	for i := range ws {
		ws[i] = &TransactionWithFeePriority{
			Transaction: &blockchain.Transaction{ID: []byte{byte(i)}, Nonce: t.U64(t.Name("nonce", i)), Fee: t.U64(t.Name("fee", i)), SenderPublicKey: zzSenderKeys[0]},
		}
		for j := 0; j < i; j++ {
			t.Assume(ws[j].Nonce != ws[i].Nonce)
		}
	}
	for i := 0; i < m; i++ {
		ok, removed, _ := l.Add(ws[i], false)
		t.Assert(ok && removed == nil, "sender list: Add below the limit with a fresh nonce succeeds and evicts nothing")
	}
	// promote a prefix of the promotable run
	prom := l.GetPromotable()
	k := t.Range("promote", 0, len(prom))
	if k > 0 {
		t.Assert(l.Promote(prom[:k]), "sender list: Promote of pooled transactions succeeds")
	}
	t.Assert(zzListInvariant(t, l), "sender list: processables is the gap-free prefix of the sorted nonces after Promote")

	// reference on the sorted nonces
	check := func(lbl string) {
		s := zzSortedNonces(l)
		np := len(l.processables)
		var refProc, refUnproc, refProm []*TransactionWithFeePriority
		for j, n := range s {
			tx := l.transactions[n]
			if j < np {
				refProc = append(refProc, tx)
			} else {
				refUnproc = append(refUnproc, tx)
			}
		}
		for j := np; j < len(s); j++ {
			if j == np && np > 0 && !(s[j] == s[j-1]+1 && s[j] != 0) {
				break
			}
			if j > np && !(s[j] == s[j-1]+1 && s[j] != 0) {
				break
			}
			refProm = append(refProm, l.transactions[s[j]])
		}
		t.Assert(zzSameTxs(t, l.GetProcessables(), refProc), lbl+"GetProcessables = the first len(processables) transactions by nonce")
		t.Assert(zzSameTxs(t, l.GetUnprocessables(), refUnproc), lbl+"GetUnprocessables = the remaining transactions by nonce")
		t.Assert(zzSameTxs(t, l.GetPromotable(), refProm), lbl+"GetPromotable = the maximal consecutive run following the processables")
	}
	check("sender list: ")
	if k > 0 {
		t.Reach("promoted-some")
	}

	// one more list operation
	if t.Bool("step.add") {
		ok, _, _ := l.Add(ws[m], false)
		t.Assert(ok, "sender list: Add below the limit with a fresh nonce succeeds and evicts nothing")
		t.Assert(zzListInvariant(t, l), "sender list: Add keeps processables the gap-free prefix of the sorted nonces")
		check("sender list after Add: ")
		t.Reach("step-add")
	} else {
		i := t.Choice("step.remove", m)
		l.Remove(ws[i].Nonce)
		t.Assert(zzListInvariant(t, l), "sender list: Remove keeps processables the gap-free prefix of the sorted nonces")
		check("sender list after Remove: ")
		t.Reach("step-remove")
	}
	t.Reach("end")
}

// zzH_C14_promote_stale_set: C14.e under the interleaving the promotion step allows — reorg computes
// GetPromotable, verifies that set WITHOUT holding the pool lock, then calls Promote: between the two
// another pool operation may have replaced (same nonce, higher fee) or removed one of those
// transactions. Whatever Promote answers, every processable nonce must hold a transaction of the
// verified set (processable => passed verification), and processables stay the gap-free prefix.
//
//zz:opt loop=64 require=end,replaced-in-between,removed-in-between
//zz:quick m=2
//zz:thorough m=3
func zzH_C14_promote_stale_set(t *zzT) {
	M := t.Param("m", 2)
	m := t.Range("m", 1, M)
	l := newAddressTransactions([]byte{0xaa}, M+1, t.U64("minDiff"))
	ws := make([]*TransactionWithFeePriority, m)
	for i := range ws {
		ws[i] = &TransactionWithFeePriority{
			Transaction: &blockchain.Transaction{ID: []byte{byte(i)}, Nonce: t.U64(t.Name("nonce", i)), Fee: t.U64(t.Name("fee", i)), SenderPublicKey: zzSenderKeys[0]},
		}
		for j := 0; j < i; j++ {
			t.Assume(ws[j].Nonce != ws[i].Nonce)
		}
		ok, _, _ := l.Add(ws[i], false)
		t.Assume(ok)
	}
	verified := l.GetPromotable() // the set reorg sends to the application (all found valid)
	if len(verified) == 0 {
		return
	}
	// the operation that slips in between
	victim := verified[t.Choice("victim", len(verified))]
	if t.Bool("between.replace") {
		repl := &TransactionWithFeePriority{
			Transaction: &blockchain.Transaction{ID: []byte{0x77}, Nonce: victim.Nonce, Fee: t.U64("fee.replacement"), SenderPublicKey: zzSenderKeys[0]},
		}
		ok, _, _ := l.Add(repl, false)
		if ok {
			t.Reach("replaced-in-between")
		}
	} else {
		l.Remove(victim.Nonce)
		t.Reach("removed-in-between")
	}
	l.Promote(verified)
	for _, n := range l.processables {
		cur := l.transactions[n]
		isVerified := false
		for _, v := range verified {
			if v == cur {
				isVerified = true
			}
		}
		t.Assert(cur != nil && isVerified, "sender list: a processable nonce holds a transaction of the verified set (a transaction that replaced a verified one is not promoted with it)")
	}
	t.Assert(zzListInvariant(t, l), "sender list: Promote of a stale set keeps processables the gap-free prefix of the sorted nonces")
	t.Reach("end")
}

// zzH_C14_fee_priority_defined: C14.f — a transaction that went through Init (what NewTransaction,
// block decoding and the postTransaction endpoint do before the pool sees it) has size >= 1, so
// calculateFeePriority does not divide by zero (a division by zero would be reported as a panic).
//
//zz:opt loop=64
//zz:quick p=1
//zz:thorough p=3
func zzH_C14_fee_priority_defined(t *zzT) {
	np := t.Range("params.len", 0, t.Param("p", 1))
	tx := &blockchain.Transaction{
		Module:          "",
		Command:         "",
		Nonce:           t.U64("nonce"),
		Fee:             t.U64("fee"),
		SenderPublicKey: t.Bytes("key", t.Range("key.len", 0, 1)),
		Params:          t.Bytes("params", np),
	}
	tx.Init()
	t.Assert(tx.Size() >= 1, "an initialised transaction has size >= 1")
	pr := calculateFeePriority(tx)
	t.Assert(pr == tx.Fee/uint64(tx.Size()) && pr <= tx.Fee, "fee priority = fee / size")
	t.ObserveU64("size", uint64(tx.Size()))
	t.Reach("end")
}
