//go:build verif

package txpool

import (
	"context"
	"errors"
	"reflect"
	"sync"
	"unsafe"

	"github.com/LiskHQ/lisk-engine/pkg/blockchain"
	"github.com/LiskHQ/lisk-engine/pkg/labi"
	"github.com/LiskHQ/lisk-engine/pkg/log"
	"github.com/LiskHQ/lisk-engine/pkg/p2p"
)

// C14 — transaction pool (DESIGN C14.a–f, App. B.6).
//
// Pool states are reached from the empty pool by K operations out of {Add(tx_i), Remove(tx_i),
// reorg()} over n pre-built transactions with concrete distinct IDs ({i}) and two concrete sender
// keys; nonce, fee, size, the ABI verdict of every verification and the configuration
// (MinEntranceFeePriority, MinReplacementFeeDifference) are symbolic, MaxTransactions and
// MaxTransactionsPerAccount range over {1,2}. The pool is a struct literal (no Init, no ticker);
// logger, p2p connection and ABI are the fakes below.
//
// Two engine-side substitutions, both outside the pool logic:
//   - (*blockchain.Transaction).Size is redirected to zzStubTxSize so that the size is a free symbolic
//     value (natively the unexported field is written through reflect/unsafe — same value);
//   - (*blockchain.Transaction).Encode is redirected to a constant (the bytes only go to the fake
//     Publish; the real varint writer would fork on the length of every symbolic integer).

// ---- fakes -------------------------------------------------------------------------------------

type zzNopLogger struct{}

func (zzNopLogger) Debug(string, ...interface{})    {}
func (zzNopLogger) Info(string, ...interface{})     {}
func (zzNopLogger) Error(string, ...interface{})    {}
func (zzNopLogger) Debugf(string, ...interface{})   {}
func (zzNopLogger) Infof(string, ...interface{})    {}
func (zzNopLogger) Errorf(string, ...interface{})   {}
func (zzNopLogger) Warning(string, ...interface{})  {}
func (zzNopLogger) Warningf(string, ...interface{}) {}
func (l zzNopLogger) With(...interface{}) log.Logger { return l }

type zzFakeConn struct{}

func (zzFakeConn) Broadcast(context.Context, string, []byte) error { return nil }
func (zzFakeConn) RegisterRPCHandler(string, p2p.RPCHandler, ...p2p.RPCHandlerOption) error {
	return nil
}
func (zzFakeConn) RegisterEventHandler(string, p2p.EventHandler, p2p.Validator) error { return nil }
func (zzFakeConn) ApplyPenalty(p2p.PeerID, int)                                       {}
func (zzFakeConn) RequestFrom(context.Context, p2p.PeerID, string, []byte) p2p.Response {
	return p2p.Response{}
}
func (zzFakeConn) Publish(context.Context, string, []byte) error { return nil }

var zzErrABI = errors.New("zz: abi failure")

// zzFakeABI answers every VerifyTransaction with a fresh symbolic verdict named verdict[tx][op]:
// -1 invalid, 0 pending, 1 ok, 2 = transport error.
type zzFakeABI struct {
	t   *zzT
	op  int
	two bool    // verdicts restricted to {invalid, ok}
	bad [4]bool // most recent verdict of tx i was invalid / error
}

func (a *zzFakeABI) VerifyTransaction(req *labi.VerifyTransactionRequest) (*labi.VerifyTransactionResponse, error) {
	i := int(req.Transaction.ID[0])
	v := a.t.I32(a.t.Name(a.t.Name("verdict", i), a.op))
	a.t.Assume(a.t.And(v >= -1, v <= 2))
	if a.two {
		a.t.Assume(a.t.Or(v == -1, v == 1))
	}
	if v == 2 {
		a.bad[i] = true
		return nil, zzErrABI
	}
	a.bad[i] = v == labi.TxVerifyResultInvalid
	return &labi.VerifyTransactionResponse{Result: v}, nil
}

// ---- transaction size --------------------------------------------------------------------------

var zzTxSizes [4]int

func zzStubTxSize(tx *blockchain.Transaction) int      { return zzTxSizes[tx.ID[0]&3] }
func zzStubTxEncode(tx *blockchain.Transaction) []byte { return []byte{tx.ID[0]} }

func zzSetTxSize(t *zzT, tx *blockchain.Transaction, n int) {
	if t.Symbolic() {
		zzTxSizes[tx.ID[0]&3] = n
		return
	}
	f, ok := reflect.TypeOf(*tx).FieldByName("size")
	if !ok {
		panic("zz: blockchain.Transaction has no size field")
	}
	*(*int)(unsafe.Add(unsafe.Pointer(tx), f.Offset)) = n
}

// ---- construction ------------------------------------------------------------------------------

var zzSenderKeys = [2][]byte{
	{0xa1, 1, 2, 3, 4, 5, 6, 7, 8, 9, 10, 11, 12, 13, 14, 15, 16, 17, 18, 19, 20, 21, 22, 23, 24, 25, 26, 27, 28, 29, 30, 31},
	{0xb2, 1, 2, 3, 4, 5, 6, 7, 8, 9, 10, 11, 12, 13, 14, 15, 16, 17, 18, 19, 20, 21, 22, 23, 24, 25, 26, 27, 28, 29, 30, 31},
}

// zzNewPool builds an empty pool; maxAll / maxAcct = 0 means "ranges over {1,2}".
func zzNewPool(t *zzT, maxAll, maxAcct int) (*TransactionPool, *zzFakeABI) {
	if maxAll == 0 {
		maxAll = t.Range("MaxTransactions", 1, 2)
	}
	if maxAcct == 0 {
		maxAcct = t.Range("MaxTransactionsPerAccount", 1, 2)
	}
	cfg := &TransactionPoolConfig{
		MaxTransactions:             maxAll,
		MaxTransactionsPerAccount:   maxAcct,
		MinEntranceFeePriority:      t.U64("MinEntranceFeePriority"),
		MinReplacementFeeDifference: t.U64("MinReplacementFeeDifference"),
	}
	abi := &zzFakeABI{t: t}
	p := &TransactionPool{
		mutex:            new(sync.RWMutex),
		allTransactions:  map[string]*TransactionWithFeePriority{},
		perAccount:       map[string]*addressTransactions{},
		feePriorityQueue: FeeMinHeap{},
		config:           cfg,
		logger:           zzNopLogger{},
		conn:             zzFakeConn{},
		abi:              abi,
	}
	return p, abi
}

// zzNewTxs builds n (<=3) transactions: tx0 and tx1 from sender A; tx2 from sender B (senders=0) or
// from a chosen sender (senders=1).
func zzNewTxs(t *zzT, n, senders, symsize int) []*blockchain.Transaction {
	txs := make([]*blockchain.Transaction, n)
	for i := range txs {
		s := 0
		if i == 2 {
			s = 1
			if senders == 1 {
				s = t.Choice("sender[2]", 2)
			}
		}
		tx := &blockchain.Transaction{
			ID:              []byte{byte(i)},
			Module:          "token",
			Command:         "transfer",
			Nonce:           t.U64(t.Name("nonce", i)),
			Fee:             t.U64(t.Name("fee", i)),
			SenderPublicKey: zzSenderKeys[s],
		}
		// size: symbolic (symsize=1) or the concrete powers of two 1, 2, 4 (fee / size is then a
		// shift; with a free 64-bit fee every combination of fee priorities is still covered)
		size := 1 << uint(i)
		if symsize == 1 {
			size = t.Int(t.Name("size", i))
			t.Assume(t.And(size >= 1, size <= 1<<20))
		}
		zzSetTxSize(t, tx, size)
		txs[i] = tx
	}
	return txs
}

// ---- index views -------------------------------------------------------------------------------

func zzInAll(p *TransactionPool, tx *blockchain.Transaction) bool {
	w, ok := p.allTransactions[string(tx.ID)]
	return ok && w.Transaction == tx
}

func zzInList(p *TransactionPool, tx *blockchain.Transaction) bool {
	l, ok := p.perAccount[string(tx.SenderAddress())]
	if !ok {
		return false
	}
	for _, x := range l.transactions {
		if x.Transaction == tx {
			return true
		}
	}
	return false
}

func zzInQueue(p *TransactionPool, tx *blockchain.Transaction) int {
	c := 0
	for _, q := range p.feePriorityQueue {
		if q.Transaction == tx {
			c++
		}
	}
	return c
}

const (
	zzLblAgree     = "index agreement: allTransactions, the sender lists and the fee priority queue hold the same transactions"
	zzLblReplaced  = "replacement evicts the replaced transaction from every index"
	zzLblAcctEvict = "per-account eviction removes the evicted transaction from every index"
)

// zzCheckPool is the pool invariant of App. B.6. lblAgree is the label used for the three-way
// membership agreement (the caller names the cause when it knows it).
func zzCheckPool(t *zzT, p *TransactionPool, txs []*blockchain.Transaction, lblAgree string) {
	// (b) membership agreement per transaction, keyed at its nonce
	for _, tx := range txs {
		inAll := zzInAll(p, tx)
		inQ := zzInQueue(p, tx)
		inList := false
		keyOK := true
		if l, ok := p.perAccount[string(tx.SenderAddress())]; ok {
			for n, x := range l.transactions {
				if x.Transaction == tx {
					inList = true
					keyOK = n == tx.Nonce
				}
			}
		}
		one := 0
		if inAll {
			one = 1
		}
		t.Assert(inAll == inList && inQ == one, lblAgree)
		t.Assert(keyOK, "index agreement: a transaction is filed in its sender list under its own nonce")
		if inAll {
			w := p.allTransactions[string(tx.ID)]
			qSame := false
			for _, q := range p.feePriorityQueue {
				if q == w {
					qSame = true
				}
			}
			t.Assert(qSame, "index agreement: queue and allTransactions share the entry of a transaction")
		}
	}
	// (b) every list entry is the pooled entry of that ID; sizes agree
	total := 0
	for addr, l := range p.perAccount {
		t.Assert(len(l.transactions) > 0 && l.Size() > 0, "no empty sender list is kept")
		total += len(l.transactions)
		for _, x := range l.transactions {
			w, ok := p.allTransactions[string(x.ID)]
			t.Assert(ok && w == x, "index agreement: every sender-list entry is the pooled entry of that ID (no stale entry)")
			t.Assert(string(x.SenderAddress()) == addr && string(l.address) == addr, "index agreement: a sender list only holds that sender's transactions")
		}
		// nonce heap = key set, as a multiset, and is a min-heap
		t.Assert(len(l.nonces) == len(l.transactions), "index agreement: nonce heap and sender list have the same size")
		for n := range l.transactions {
			c := 0
			for _, h := range l.nonces {
				c += t.IteInt(h == n, 1, 0)
			}
			t.Assert(c == 1, "index agreement: every listed nonce is in the nonce heap exactly once")
		}
		for i := 1; i < len(l.nonces); i++ {
			t.Assert(l.nonces[(i-1)/2] <= l.nonces[i], "nonce heap is a min-heap")
		}
		// (c) per-sender bound
		t.Assert(len(l.transactions) <= p.config.MaxTransactionsPerAccount && l.Size() <= p.config.MaxTransactionsPerAccount,
			"bound: transactions per sender <= MaxTransactionsPerAccount")
		// (e) processables: ascending, gap-free, start at the smallest pooled nonce, all pooled
		P := l.processables
		t.Assert(len(P) <= len(l.transactions), "processables: not more than the sender's pooled transactions")
		okRun := true
		for j := range P {
			member := false
			for n := range l.transactions {
				member = t.Or(member, n == P[j])
				if j == 0 {
					okRun = t.And(okRun, P[0] <= n)
				}
			}
			okRun = t.And(okRun, member)
			if j > 0 {
				okRun = t.And(okRun, t.And(P[j] == P[j-1]+1, P[j-1] != ^uint64(0)))
			}
		}
		t.Assert(okRun, "processables: ascending gap-free run of pooled nonces starting at the sender's smallest nonce")
	}
	t.Assert(total == len(p.allTransactions) && len(p.feePriorityQueue) == len(p.allTransactions),
		"index agreement: the three indexes have the same number of entries")
	for i := 1; i < len(p.feePriorityQueue); i++ {
		t.Assert(p.feePriorityQueue[(i-1)/2].FeePriority <= p.feePriorityQueue[i].FeePriority, "fee priority queue is a min-heap")
	}
	for _, w := range p.allTransactions {
		t.Assert(w.FeePriority == w.Fee/uint64(w.Size()), "recorded fee priority = fee / size")
	}
	// (c) pool bound
	t.Assert(len(p.allTransactions) <= p.config.MaxTransactions, "bound: pooled transactions <= MaxTransactions")
}

// ---- operations --------------------------------------------------------------------------------

type zzMembership struct{ all, list bool }

// zzCov collects coverage markers; they are emitted by zzReachAll at the end of the harness only, so
// that the witness of a marker is a complete input that passed every oracle on its path.
var zzCov []string

func zzMark(label string) {
	for _, l := range zzCov {
		if l == label {
			return
		}
	}
	zzCov = append(zzCov, label)
}

func zzReachAll(t *zzT) {
	for _, l := range zzCov {
		t.Reach(l)
	}
	t.Reach("end")
}

func zzSnapshot(p *TransactionPool, txs []*blockchain.Transaction) []zzMembership {
	s := make([]zzMembership, len(txs))
	for i, tx := range txs {
		s[i] = zzMembership{zzInAll(p, tx), zzInList(p, tx)}
	}
	return s
}

// zzDoAdd performs Add(txs[i]) and, when check is set, the C14.b/c/d oracles.
func zzDoAdd(t *zzT, p *TransactionPool, abi *zzFakeABI, txs []*blockchain.Transaction, i int, check bool) {
	tx := txs[i]
	wasIn := zzInAll(p, tx)
	pre := zzSnapshot(p, txs)
	var old *TransactionWithFeePriority
	var preList []*TransactionWithFeePriority
	var preNonces []uint64
	if l, ok := p.perAccount[string(tx.SenderAddress())]; ok && check {
		for n, x := range l.transactions {
			preList = append(preList, x)
			preNonces = append(preNonces, n)
			if x.Transaction != tx && n == tx.Nonce {
				old = x
			}
		}
	}
	// a full pool makes room by evicting one transaction of ANY sender (lowest fee priority among the
	// unprocessable ones, else a processable tail) before the incoming one is inserted
	poolWasFull := len(p.allTransactions) >= p.config.MaxTransactions
	added := p.Add(tx)
	zzMark("add-returned")
	if !check {
		return
	}
	lbl := zzLblAgree
	mark := ""
	post := zzSnapshot(p, txs)
	switch {
	case wasIn:
		t.Assert(!added, "a transaction already pooled is not added twice")
	case !added:
		for j := range txs {
			t.Assert(pre[j] == post[j], "a rejected Add leaves the pool unchanged")
		}
		mark = "rejected"
		if old != nil {
			mark = "replacement-rejected"
		}
	default:
		zzMark("added")
		t.Assert(!abi.bad[i], "admission: a transaction found invalid by the ABI is not pooled")
		t.Assert(tx.Fee/uint64(tx.Size()) >= p.config.MinEntranceFeePriority, "admission: fee priority >= MinEntranceFeePriority")
		l := p.perAccount[string(tx.SenderAddress())]
		if old != nil {
			mark = "replaced"
			lbl = zzLblReplaced
			// C14.d
			t.Assert(t.And(tx.Fee >= old.Fee, tx.Fee-old.Fee >= p.config.MinReplacementFeeDifference),
				"replacement rule: fee_new >= fee_old + MinReplacementFeeDifference without wrap-around")
			if l != nil {
				dem := true
				for _, q := range l.processables {
					dem = t.And(dem, q < tx.Nonce)
				}
				t.Assert(dem, "replacement demotes the processables at and above the replaced nonce")
			}
			t.Assert(!zzInAll(p, old.Transaction) && !zzInList(p, old.Transaction) && zzInQueue(p, old.Transaction) == 0, lbl)
		} else if len(preList)+1 > p.config.MaxTransactionsPerAccount {
			mark = "account-evicted"
			lbl = zzLblAcctEvict
			gone := 0
			for k, x := range preList {
				if zzInList(p, x.Transaction) {
					continue
				}
				gone++
				if !poolWasFull {
					isMax := true
					for _, n := range preNonces {
						isMax = t.And(isMax, n <= preNonces[k])
					}
					t.Assert(t.And(isMax, tx.Nonce <= preNonces[k]), "per-account eviction drops the sender's highest nonce, and only for a lower incoming nonce")
				}
				t.Assert(!zzInAll(p, x.Transaction) && zzInQueue(p, x.Transaction) == 0, lbl)
			}
			if poolWasFull {
				// the capacity eviction may have hit this sender (then the per-account limit may no longer bite)
				t.Assert(gone >= 1 && gone <= 2, "per-account eviction on a full pool drops one or two transactions of the sender")
			} else {
				t.Assert(gone == 1, "per-account eviction drops exactly one transaction")
			}
		} else {
			changed := 0
			for j := range txs {
				if j != i && pre[j] != post[j] {
					changed++
					t.Assert(!post[j].all && !post[j].list && zzInQueue(p, txs[j]) == 0, "capacity eviction removes the evicted transaction from every index")
				}
			}
			if poolWasFull {
				t.Assert(changed <= 1, "an Add on a full pool evicts at most one other transaction")
				if changed == 1 {
					mark = "capacity-evicted"
				}
			} else {
				t.Assert(changed == 0, "an Add below the limits does not touch other transactions")
			}
		}
	}
	zzCheckPool(t, p, txs, lbl)
	if mark != "" {
		zzMark(mark) // only once every oracle of this step passed
	}
}

func zzDoRemove(t *zzT, p *TransactionPool, txs []*blockchain.Transaction, i int, check bool) {
	tx := txs[i]
	wasIn := zzInAll(p, tx)
	pre := zzSnapshot(p, txs)
	removed := p.Remove(tx.ID)
	zzMark("remove-returned")
	if !check {
		return
	}
	post := zzSnapshot(p, txs)
	t.Assert(removed == wasIn, "Remove reports whether the transaction was pooled")
	if removed {
		zzMark("removed")
	}
	t.Assert(!zzInAll(p, tx) && !zzInList(p, tx) && zzInQueue(p, tx) == 0, "Remove deletes the transaction from every index")
	for j := range txs {
		if j != i {
			t.Assert(pre[j] == post[j], "Remove does not touch other transactions")
		}
	}
	zzCheckPool(t, p, txs, zzLblAgree)
}

// zzDoReorg performs one promotion step (the body of the 500 ms ticker) and the C14.e oracle.
func zzDoReorg(t *zzT, p *TransactionPool, abi *zzFakeABI, txs []*blockchain.Transaction, check bool) {
	p.reorg()
	zzMark("reorg-returned")
	if !check {
		return
	}
	for _, l := range p.perAccount {
		for n, x := range l.transactions {
			isProc := false
			for _, q := range l.processables {
				isProc = t.Or(isProc, q == n)
			}
			t.Assert(t.Implies(isProc, !abi.bad[x.ID[0]]), "processables: every processable transaction passed its most recent verification")
		}
		if len(l.processables) > 0 {
			zzMark("promoted")
		}
	}
	zzCheckPool(t, p, txs, zzLblAgree)
}

// zzOps lists the operations offered in the current state as codes: i = Add(tx_i), n+i =
// Remove(tx_i), 2n = reorg. With prune=1 (quick tier) operations that return at their first test
// are left out — Add of a pooled ID, Remove of an ID that is not pooled, reorg of an empty pool —
// and tx0 is added before tx1 (both are fully symbolic transactions of the same sender).
func zzOps(p *TransactionPool, txs []*blockchain.Transaction, prune bool, seen []bool) []int {
	n := len(txs)
	var ops []int
	for i, tx := range txs {
		in := zzInAll(p, tx)
		if !prune || (!in && !(i == 1 && !seen[0])) {
			ops = append(ops, i)
		}
	}
	for i, tx := range txs {
		if !prune || zzInAll(p, tx) {
			ops = append(ops, n+i)
		}
	}
	if !prune || len(p.perAccount) > 0 {
		ops = append(ops, 2*n)
	}
	return ops
}

func zzRunOps(t *zzT, check bool) {
	n, K := t.Param("n", 3), t.Param("K", 3)
	prune := t.Param("prune", 0) == 1
	zzCov = nil
	p, abi := zzNewPool(t, 0, 0)
	txs := zzNewTxs(t, n, t.Param("senders", 0), t.Param("symsize", 0))
	seen := make([]bool, n)
	for k := 0; k < K; k++ {
		abi.op = k
		ops := zzOps(p, txs, prune, seen)
		op := ops[t.Choice(t.Name("op", k), len(ops))]
		switch {
		case op < n:
			seen[op] = true
			zzDoAdd(t, p, abi, txs, op, check)
		case op < 2*n:
			zzDoRemove(t, p, txs, op-n, check)
		default:
			zzDoReorg(t, p, abi, txs, check)
		}
	}
	zzReachAll(t)
}

// zzH_C14_pool_invariants: C14.b index agreement, C14.c bounds, C14.d replacement rule, C14.e
// processables, after every one of K operations from the empty pool.
//
//zz:opt loop=256 sched=2 budget=300s require=end,added,rejected,replacement-rejected,removed,promoted
//zz:stub (*~/pkg/blockchain.Transaction).Size zzStubTxSize
//zz:stub (*~/pkg/blockchain.Transaction).Encode zzStubTxEncode
//zz:quick n=3 K=3 senders=0 prune=1 symsize=0
//zz:thorough n=3 K=4 senders=0 prune=1 symsize=0 budget=3600s paths=4000000
func zzH_C14_pool_invariants(t *zzT) {
	zzRunOps(t, true)
}

// zzH_C14_no_operation_blocks: C14.a — the same operation sequences without oracles, so that no path
// is cut short by an index/bound violation: every Add/Remove/reorg must return. The engine reports a
// mutex re-acquired by its holder ("lock-discipline: …") and any deadlock.
//
//zz:opt loop=256 sched=2 budget=300s require=end,add-returned,remove-returned,reorg-returned
//zz:stub (*~/pkg/blockchain.Transaction).Size zzStubTxSize
//zz:stub (*~/pkg/blockchain.Transaction).Encode zzStubTxEncode
//zz:quick n=3 K=3 senders=0 prune=1 symsize=0
//zz:thorough n=3 K=4 senders=0 prune=1 symsize=0 budget=3600s paths=4000000
func zzH_C14_no_operation_blocks(t *zzT) {
	zzRunOps(t, false)
}

// zzH_C14_concurrent_reorg: C14.a/b in concurrency mode — the promotion step (which starts one
// goroutine per sender list, each of which may call remove) runs concurrently with a second pool
// operation; every goroutine must finish (no deadlock) and the indexes must agree afterwards. The
// configuration (MaxTransactions 3, tx1 above tx0's nonce) stays outside the defects reported by the
// sequential harnesses so that only interleaving-specific failures show up here.
//
//zz:opt loop=256 join=1
//zz:quick sched=1 small=1 budget=200s
//zz:thorough sched=2 small=1 budget=3600s paths=2000000
//zz:stub (*~/pkg/blockchain.Transaction).Size zzStubTxSize
//zz:stub (*~/pkg/blockchain.Transaction).Encode zzStubTxEncode
func zzH_C14_concurrent_reorg(t *zzT) {
	zzCov = nil
	p, abi := zzNewPool(t, 3, 2)
	p.config.MinEntranceFeePriority = 0
	p.config.MinReplacementFeeDifference = 1
	txs := zzNewTxs(t, 3, 0, 0)
	t.Assume(txs[1].Nonce > txs[0].Nonce)
	if t.Param("small", 0) == 1 {
		// quick tier: concrete fees (they only order the fee queue) and two-valued verdicts
		for i, tx := range txs {
			tx.Fee = uint64(100 * (i + 1))
		}
		abi.two = true
	}
	abi.op = 0
	t.Assume(t.And(abi.t.I32("verdict[0][0]") == 1, abi.t.I32("verdict[2][0]") == 1))
	a0 := p.Add(txs[0])
	a2 := p.Add(txs[2])
	t.Assert(a0 && a2, "two valid transactions of different senders enter an empty pool of capacity 3")
	abi.op = 1
	var wg sync.WaitGroup
	wg.Add(1)
	go func() {
		defer wg.Done()
		p.reorg()
	}()
	switch t.Choice("main.op", 4) {
	case 0:
		p.Add(txs[1])
	case 1:
		p.Remove(txs[0].ID)
	case 2:
		p.Remove(txs[2].ID)
	default:
		p.reorg()
	}
	wg.Wait()
	zzCheckPool(t, p, txs, zzLblAgree)
	t.Reach("end")
}

// zzH_C14_remove_after_replacement: the 4-operation consequence of the stale index left by a
// replacement (found by zzH_C14_no_operation_blocks in the thorough tier, K=4; pinned here so that
// the quick tier shows it): tx0 and tx1 of one sender with the same nonce are added (tx1 replaces
// tx0 in the sender list, but tx0 stays in allTransactions), then both are removed in either order.
// Every Remove must return and the pool must be empty afterwards. (Nonces are free: with different
// nonces there is no replacement and the sequence is clean — that is the reachable "end".)
//
//zz:opt loop=256 sched=0
//zz:stub (*~/pkg/blockchain.Transaction).Size zzStubTxSize
//zz:stub (*~/pkg/blockchain.Transaction).Encode zzStubTxEncode
func zzH_C14_remove_after_replacement(t *zzT) {
	zzCov = nil
	p, abi := zzNewPool(t, 2, 2)
	txs := zzNewTxs(t, 2, 0, 0)
	abi.op = 0
	a0 := p.Add(txs[0])
	abi.op = 1
	a1 := p.Add(txs[1])
	t.Assume(t.And(a0, a1)) // both accepted: side by side, or the second replaced the first
	first := t.Choice("remove.first", 2)
	p.Remove(txs[first].ID)
	p.Remove(txs[1-first].ID)
	t.Assert(len(p.allTransactions) == 0 && len(p.perAccount) == 0 && len(p.feePriorityQueue) == 0,
		"after removing every added transaction the pool is empty")
	t.Reach("end")
}
