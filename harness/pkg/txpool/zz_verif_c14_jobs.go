//go:build verif

package txpool

import (
	"bytes"
	"container/heap"
	"sync"
	"time"

	"github.com/LiskHQ/lisk-engine/pkg/blockchain"
	"github.com/LiskHQ/lisk-engine/pkg/codec"
	"github.com/LiskHQ/lisk-engine/pkg/event"
	"github.com/LiskHQ/lisk-engine/pkg/labi"
	"github.com/LiskHQ/lisk-engine/pkg/p2p"
)

// C14 — the periodic job and the read API of the transaction pool: Start (ticker loop -> reorg), End,
// Subscribe, GetProcessable, Get, GetAll, (*addressTransactions).Get, HandleRPCEndpointGetTransaction,
// FeeMaxHeap. Pool construction, operations and the index oracle (zzCheckPool) are those of
// zz_verif_pool.go.
//
// There is no expiry job in the tree under analysis: TransactionPoolConfig.TransactionExpiryTime and
// TransactionWithFeePriority.receivedAt are written but never read, Start only calls reorg. The
// statement of C14 does not mention expiry, so nothing is asserted about it here.

// ---- oracle on what the read API RETURNS ---------------------------------------------------------

func zzjIndexOf(txs []*blockchain.Transaction, x *blockchain.Transaction) int {
	for i, tx := range txs {
		if tx == x {
			return i
		}
	}
	return -1
}

func zzjSameSender(a, b *blockchain.Transaction) bool {
	return bytes.Equal(a.SenderPublicKey, b.SenderPublicKey)
}

// zzjCheckProcessable: R is what GetProcessable returned (or what a peer decoded from the RPC answer,
// mapped back to txs). Every element is pooled, returned once, did not fail its most recent
// verification; per sender the returned transactions ascend by nonce without a gap and start at the
// sender's lowest pooled nonce; and R is as long as the internal processable lists.
func zzjCheckProcessable(t *zzT, p *TransactionPool, bad func(i int) bool, txs, R []*blockchain.Transaction, who string) {
	internal := 0
	for _, l := range p.perAccount {
		internal += len(l.processables)
	}
	t.Assert(len(R) == internal, who+": as many transactions as the sender lists mark processable")
	seen := make([]bool, len(txs))
	for _, r := range R {
		i := zzjIndexOf(txs, r)
		t.Assert(i >= 0, who+": every returned transaction is a pooled transaction")
		if i < 0 {
			return
		}
		t.Assert(zzInAll(p, r) && zzInList(p, r) && !seen[i], who+": every returned transaction is pooled and returned once")
		seen[i] = true
		t.Assert(!bad(i), who+": no returned transaction failed its most recent verification")
	}
	for k, r := range R {
		var prev *blockchain.Transaction
		for _, q := range R[:k] {
			if zzjSameSender(q, r) {
				prev = q
			}
		}
		if prev != nil {
			t.Assert(t.And(r.Nonce == prev.Nonce+1, prev.Nonce != ^uint64(0)), who+": a sender's transactions ascend by nonce without a gap")
			continue
		}
		low := true
		for _, tx := range txs {
			if zzjSameSender(tx, r) && zzInAll(p, tx) {
				low = t.And(low, r.Nonce <= tx.Nonce)
			}
		}
		t.Assert(low, who+": a sender's run starts at the sender's lowest pooled nonce")
	}
}

// zzjCheckReads: Get / GetAll / (*addressTransactions).Get against the three indexes, and the bounds
// and the one-per-(sender, nonce) clause on what GetAll returns.
func zzjCheckReads(t *zzT, p *TransactionPool, txs []*blockchain.Transaction) {
	for _, tx := range txs {
		in := zzInAll(p, tx)
		got, ok := p.Get(tx.ID)
		t.Assert(ok == in && ((ok && got == tx) || (!ok && got == nil)), "Get(id) returns the pooled transaction of that ID, and nothing for an ID that is not pooled")
		if l, has := p.perAccount[string(tx.SenderAddress())]; has {
			w, found := l.Get(tx.Nonce)
			if in {
				t.Assert(found && w != nil && w.Transaction == tx, "sender list Get(nonce) returns the pooled transaction at that nonce")
			} else if found {
				// another transaction of the sender holds this nonce
				t.Assert(w != nil && w.Transaction != tx && w.Nonce == tx.Nonce && zzInAll(p, w.Transaction), "sender list Get(nonce) only returns pooled transactions of that nonce")
			}
		} else {
			t.Assert(!in, "a pooled transaction has a sender list")
		}
	}
	got, ok := p.Get([]byte{0x7f})
	t.Assert(!ok && got == nil, "Get(id) returns the pooled transaction of that ID, and nothing for an ID that is not pooled")

	all := p.GetAll()
	t.Assert(len(all) == len(p.allTransactions) && len(all) <= p.config.MaxTransactions, "GetAll returns every pooled transaction, at most MaxTransactions")
	for i, x := range all {
		k := zzjIndexOf(txs, x)
		t.Assert(k >= 0 && zzInAll(p, x) && zzInList(p, x), "GetAll returns only pooled transactions")
		perSender := 1
		for j := 0; j < i; j++ {
			t.Assert(all[j] != x, "GetAll returns no transaction twice")
			if zzjSameSender(all[j], x) {
				perSender++
				t.Assert(all[j].Nonce != x.Nonce, "GetAll: at most one transaction per sender and nonce")
			}
		}
		t.Assert(perSender <= p.config.MaxTransactionsPerAccount, "GetAll: at most MaxTransactionsPerAccount transactions of one sender")
	}
}

// zzH_C14_read_api_after_ops: after K <= 3 operations out of {Add, Remove, promotion job} from the
// empty pool (symbolic nonces, fees, verdicts, limits in {1,2}), what GetProcessable / Get / GetAll /
// the sender list's Get RETURN satisfies C14: processable = per sender a gap-free ascending run from
// the lowest pooled nonce, all pooled, none failed verification; sizes within the limits; one
// transaction per sender and nonce; and the index oracle holds.
//
//zz:opt loop=256 budget=300s require=end,one-processable,two-processable,two-senders-processable,unprocessable-left
//zz:stub (*~/pkg/blockchain.Transaction).Size zzStubTxSize
//zz:stub (*~/pkg/blockchain.Transaction).Encode zzStubTxEncode
//zz:quick n=3 K=3 senders=0 prune=1 symsize=0 sched=0
//zz:thorough n=3 K=4 senders=1 prune=1 symsize=0 sched=1 budget=3600s paths=4000000
func zzH_C14_read_api_after_ops(t *zzT) {
	n, K := t.Param("n", 3), t.Param("K", 3)
	prune := t.Param("prune", 0) == 1
	zzCov = nil
	p, abi := zzNewPool(t, 0, 0)
	txs := zzNewTxs(t, n, t.Param("senders", 0), t.Param("symsize", 0))
	seen := make([]bool, n)
	for k := 0; k < K; k++ {
		abi.op = k
		ops := zzOps(p, txs, prune, seen)
		op := ops[t.Choice(t.Name("op", k), len(ops))]
		switch {
		case op < n:
			seen[op] = true
			zzDoAdd(t, p, abi, txs, op, false)
		case op < 2*n:
			zzDoRemove(t, p, txs, op-n, false)
		default:
			zzDoReorg(t, p, abi, txs, false)
		}
	}
	R := p.GetProcessable()
	zzjCheckProcessable(t, p, func(i int) bool { return abi.bad[txs[i].ID[0]] }, txs, R, "GetProcessable")
	zzjCheckReads(t, p, txs)
	zzCheckPool(t, p, txs, zzLblAgree)
	switch {
	case len(R) == 1:
		zzMark("one-processable")
	case len(R) == 2 && zzjSameSender(R[0], R[1]):
		zzMark("two-processable")
	case len(R) == 2:
		zzMark("two-senders-processable")
	}
	if len(R) < len(p.allTransactions) {
		zzMark("unprocessable-left")
	}
	zzReachAll(t)
}

// zzH_C14_fee_max_heap: FeeMaxHeap under container/heap hands out its entries by descending fee
// priority, every entry exactly once (Len / Less / Swap / Push / Pop).
//
//zz:opt loop=64 require=end
//zz:quick n=3
//zz:thorough n=4
func zzH_C14_fee_max_heap(t *zzT) {
	n := t.Range("n", 1, t.Param("n", 3))
	h := &FeeMaxHeap{}
	heap.Init(h)
	ws := make([]*TransactionWithFeePriority, n)
	for i := range ws {
		ws[i] = &TransactionWithFeePriority{FeePriority: t.U64(t.Name("priority", i))}
		heap.Push(h, ws[i])
		t.Assert(h.Len() == i+1, "FeeMaxHeap: Len counts the pushed entries")
		top := true
		for j := 0; j <= i; j++ {
			top = t.And(top, (*h)[0].FeePriority >= ws[j].FeePriority)
		}
		t.Assert(top, "FeeMaxHeap: the root has the highest fee priority")
	}
	out := make([]bool, n)
	last := ^uint64(0)
	for i := 0; i < n; i++ {
		w := heap.Pop(h).(*TransactionWithFeePriority)
		t.Assert(w.FeePriority <= last, "FeeMaxHeap: Pop returns the entries by descending fee priority")
		last = w.FeePriority
		k := -1
		for j := range ws {
			if ws[j] == w {
				k = j
			}
		}
		t.Assert(k >= 0 && !out[k], "FeeMaxHeap: Pop returns every pushed entry exactly once")
		if k >= 0 {
			out[k] = true
		}
	}
	t.Assert(h.Len() == 0, "FeeMaxHeap: empty after as many Pops as Pushes")
	t.Reach("end")
}

// ---- concrete transactions with symbolic verdicts (RPC answer, Start / End) ------------------------

// zzjABI: verdict of the c-th verification of transaction i (identified by its ID) is the symbolic
// verdict[i][c]: -1 invalid, 0 pending, 1 ok, 2 transport error. The call counter is per transaction, so
// the names do not depend on the schedule (a transaction is verified by one goroutine at a time).
type zzjABI struct {
	t     *zzT
	ids   map[string]int
	calls [4]int
	bad   [4]bool
	okay  bool // every verdict is "ok"
	two   bool // verdicts restricted to {invalid, ok}
}

func (a *zzjABI) VerifyTransaction(req *labi.VerifyTransactionRequest) (*labi.VerifyTransactionResponse, error) {
	if a.okay {
		return &labi.VerifyTransactionResponse{Result: labi.TxVerifyResultOk}, nil
	}
	i := a.ids[string(req.Transaction.ID)]
	c := a.calls[i]
	a.calls[i]++
	v := a.t.I32(a.t.Name(a.t.Name("verdict", i), c))
	a.t.Assume(a.t.And(v >= -1, v <= 2))
	if a.two {
		a.t.Assume(a.t.Or(v == -1, v == 1))
	}
	if v == 2 {
		a.bad[i] = true
		return nil, zzErrABI
	}
	a.bad[i] = v == labi.TxVerifyResultInvalid
	return &labi.VerifyTransactionResponse{Result: v}, nil
}

func zzjTx(sender int, nonce, fee uint64, tag byte) *blockchain.Transaction {
	sig := make([]byte, 64)
	sig[0] = tag
	tx := &blockchain.Transaction{Module: "token", Command: "transfer", Nonce: nonce, Fee: fee, SenderPublicKey: zzSenderKeys[sender],
		Params: []byte{tag}, Signatures: []codec.Hex{sig}}
	tx.Init()
	return tx
}

func zzjPool(t *zzT, maxAll, maxAcct int, txs []*blockchain.Transaction) (*TransactionPool, *zzjABI) {
	abi := &zzjABI{t: t, ids: map[string]int{}}
	for i, tx := range txs {
		abi.ids[string(tx.ID)] = i
	}
	p := &TransactionPool{
		mutex:            new(sync.RWMutex),
		allTransactions:  map[string]*TransactionWithFeePriority{},
		perAccount:       map[string]*addressTransactions{},
		feePriorityQueue: FeeMinHeap{},
		config:           &TransactionPoolConfig{MaxTransactions: maxAll, MaxTransactionsPerAccount: maxAcct, MinReplacementFeeDifference: 1},
		logger:           zzNopLogger{},
		conn:             zzFakeConn{},
		abi:              abi,
		events:           event.New(),
		closeCh:          make(chan bool),
	}
	return p, abi
}

type zzjWriter struct {
	data   []byte
	err    error
	writes int
}

func (w *zzjWriter) Write(d []byte) { w.data = d; w.writes++ }
func (w *zzjWriter) Error(e error)  { w.err = e; w.writes++ }

// zzjDecodeAnswer decodes what the RPC handler wrote the way the requesting peer does, and maps the
// decoded transactions back to txs by (sender, nonce, fee, params).
func zzjDecodeAnswer(t *zzT, w *zzjWriter, txs []*blockchain.Transaction) ([]*blockchain.Transaction, bool) {
	t.Assert(w.writes == 1 && w.err == nil, "getTransactions without a body is answered with exactly one response and no error")
	resp := &GetTransactionsResponse{}
	if err := resp.Decode(w.data); err != nil {
		t.Fail("the getTransactions answer decodes")
		return nil, false
	}
	R := make([]*blockchain.Transaction, len(resp.Transactions))
	for k, d := range resp.Transactions {
		for _, tx := range txs {
			if zzjSameSender(tx, d) && tx.Nonce == d.Nonce && tx.Fee == d.Fee && bytes.Equal(tx.Params, d.Params) {
				R[k] = tx
			}
		}
		t.Assert(R[k] != nil && bytes.Equal(R[k].Encode(), d.Encode()), "getTransactions answers with pooled transactions, byte for byte")
		if R[k] == nil {
			return nil, false
		}
	}
	return R, true
}

// zzH_C14_rpc_get_transactions: the P2P handler that serves the pool to peers
// (HandleRPCEndpointGetTransaction). mode 0: three concrete transactions (sender A at nonce 5 and 5+gap,
// sender B), symbolic verdicts in Add and in the promotion job; the answer to a request without body
// decodes to exactly the processable transactions (oracle of zzjCheckProcessable on what the PEER sees).
// mode 1: N > maxTransactionResponse processable transactions — the answer holds maxTransactionResponse
// of them, all processable, per sender gap-free from the lowest nonce. A request WITH a body returns
// (the handler has no by-ID branch in this tree: nothing is written).
//
//zz:opt loop=4000 steps=60000000 budget=300s require=end,answered-some,answered-none,truncated,with-body
//zz:quick sched=0 N=103
//zz:thorough sched=1 N=130
func zzH_C14_rpc_get_transactions(t *zzT) {
	if t.Choice("mode", 2) == 1 {
		N := t.Param("N", 103)
		txs := make([]*blockchain.Transaction, N)
		for i := range txs {
			txs[i] = zzjTx(i%2, uint64(7+i/2), uint64(1000000+i), byte(i))
		}
		p, abi := zzjPool(t, 2*N, N, nil)
		abi.okay = true
		for _, tx := range txs {
			t.Assert(p.Add(tx), "setup: a valid transaction enters a pool below its limits")
		}
		p.reorg()
		t.Assert(len(p.GetProcessable()) == N, "setup: the promotion job promotes a gap-free valid run")
		w := &zzjWriter{}
		p.HandleRPCEndpointGetTransaction(w, &p2p.Request{Procedure: RPCEndpointGetTransactions})
		t.Assert(w.writes == 1 && w.err == nil, "getTransactions without a body is answered with exactly one response and no error")
		resp := &GetTransactionsResponse{}
		t.Assert(resp.Decode(w.data) == nil, "the getTransactions answer decodes")
		t.Assert(len(resp.Transactions) == maxTransactionResponse, "getTransactions answers with at most maxTransactionResponse transactions")
		// per sender: gap-free ascending from the sender's lowest nonce (a peer can apply them in order)
		next := [2]uint64{7, 7}
		okRun := true
		for _, d := range resp.Transactions {
			s := 0
			if bytes.Equal(d.SenderPublicKey, zzSenderKeys[1]) {
				s = 1
			}
			okRun = okRun && d.Nonce == next[s]
			next[s]++
		}
		t.Assert(okRun, "getTransactions: a truncated answer still is, per sender, a gap-free ascending run from the lowest pooled nonce")
		t.Reach("truncated")
		t.Reach("end")
		return
	}
	gap := uint64(t.Range("gap", 1, 2))
	txs := []*blockchain.Transaction{zzjTx(0, 5, 3000000, 1), zzjTx(0, 5+gap, 2000000, 2), zzjTx(1, 9, 1000000, 3)}
	p, abi := zzjPool(t, t.Range("MaxTransactions", 2, 3), 2, txs)
	for _, tx := range txs {
		p.Add(tx)
	}
	p.reorg()
	w := &zzjWriter{}
	p.HandleRPCEndpointGetTransaction(w, &p2p.Request{Procedure: RPCEndpointGetTransactions})
	R, ok := zzjDecodeAnswer(t, w, txs)
	if !ok {
		return
	}
	zzjCheckProcessable(t, p, func(i int) bool { return abi.bad[i] }, txs, R, "getTransactions")
	zzCheckPool(t, p, txs, zzLblAgree)
	// a request with a body: the handler returns, the pool is untouched
	w2 := &zzjWriter{}
	before := len(p.allTransactions)
	p.HandleRPCEndpointGetTransaction(w2, &p2p.Request{Procedure: RPCEndpointGetTransactions, Data: t.Bytes("body", 2)})
	t.Assert(w2.err == nil && len(p.allTransactions) == before, "getTransactions with a body returns without an error and leaves the pool alone")
	t.Reach("with-body")
	if len(R) > 0 {
		t.Reach("answered-some")
	} else {
		t.Reach("answered-none")
	}
	t.Reach("end")
}

// ---- Start / End / Subscribe -----------------------------------------------------------------------

// zzjCtx is a context whose Done channel the harness closes.
type zzjCtx struct{ done chan struct{} }

func (c zzjCtx) Deadline() (time.Time, bool)       { return time.Time{}, false }
func (c zzjCtx) Done() <-chan struct{}             { return c.done }
func (c zzjCtx) Err() error                        { return nil }
func (c zzjCtx) Value(key interface{}) interface{} { return nil }

// zzH_C14_start_end_lifecycle: the real job goroutine (*TransactionPool).Start with a fake ticker (the
// harness sends the ticks), a subscriber of EventTransactionNew that keeps reading, and the main
// goroutine doing a pool operation (nothing / a gossip announcement of a third transaction, which is
// published to the subscriber / Remove) while ticks are delivered. Then the pool is stopped: End(), or
// the context is cancelled and End() is called afterwards. Every call returns, Start exits (join), the
// subscription is closed, the subscriber got exactly the announced transactions that were pooled, each
// tick ran one promotion (GetProcessable and the index oracle hold afterwards).
//
//zz:opt loop=256 join=1 blockfree=0 budget=300s require=end,stopped-by-End,stopped-by-context,announced-and-delivered,tick-promoted
//zz:quick sched=1 ticks=1
//zz:thorough sched=2 ticks=2 budget=3600s paths=2000000
func zzH_C14_start_end_lifecycle(t *zzT) {
	gap := uint64(t.Range("gap", 1, 2))
	txs := []*blockchain.Transaction{zzjTx(0, 5, 3000000, 1), zzjTx(0, 5+gap, 2000000, 2), zzjTx(1, 9, 1000000, 3)}
	p, abi := zzjPool(t, 3, 2, txs)
	abi.two = true
	tick := make(chan time.Time)
	ctx := zzjCtx{done: make(chan struct{})}
	p.ticker = &time.Ticker{C: tick}
	p.ctx = ctx
	// setup: tx0 and tx1 of sender A are pooled (their first verdict is ok), nothing is processable yet
	t.Assume(t.And(t.I32("verdict[0][0]") == 1, t.I32("verdict[1][0]") == 1))
	a0 := p.Add(txs[0])
	a1 := p.Add(txs[1])
	t.Assert(a0 && a1, "setup: two valid transactions of one sender enter a pool of capacity 3")

	sub := p.Subscribe(EventTransactionNew)
	var wg sync.WaitGroup
	startExited, subClosed := false, false
	var delivered []*blockchain.Transaction
	wg.Add(2)
	go func() {
		defer wg.Done()
		p.Start()
		startExited = true
	}()
	go func() {
		defer wg.Done()
		for m := range sub {
			if msg, ok := m.(*EventNewTransactionMessage); ok {
				delivered = append(delivered, msg.Transaction)
			}
		}
		subClosed = true
	}()

	ticks := t.Range("ticks", 0, t.Param("ticks", 1))
	mainOp := t.Choice("main.op", 3)
	if ticks > 0 {
		tick <- time.Time{} // the job goroutine starts a promotion
	}
	switch mainOp {
	case 1:
		p.onTransactionAnnoucement(p2p.NewEvent("peer", RPCEventPostTransactionAnnouncement, txs[2].Encode()))
	case 2:
		p.Remove(txs[0].ID)
	}
	for i := 1; i < ticks; i++ {
		tick <- time.Time{}
	}
	byCtx := t.Bool("stop.by.context")
	if byCtx {
		close(ctx.done)
	}
	p.End()
	wg.Wait()

	t.Assert(startExited, "Start returns after End / after the context is cancelled")
	t.Assert(subClosed, "End closes the subscriptions")
	// the pooled copy of an announced transaction is the decoded one
	view := []*blockchain.Transaction{txs[0], txs[1], txs[2]}
	got2, in2 := p.Get(txs[2].ID)
	if in2 {
		view[2] = got2
	}
	if mainOp == 1 {
		t.Assert(len(delivered) <= 1, "a new transaction is published to a subscriber once")
		// pooled by the announcement <=> the handler's own verification and the one inside Add both passed
		accepted := t.And(t.I32("verdict[2][0]") == 1, t.I32("verdict[2][1]") == 1)
		t.Assert((len(delivered) == 1) == accepted, "a subscriber is told about exactly the announced transactions that entered the pool")
		if len(delivered) == 1 {
			t.Assert(bytes.Equal(delivered[0].ID, txs[2].ID), "the published transaction is the announced one")
			if in2 {
				t.Reach("announced-and-delivered")
			}
		}
	} else {
		t.Assert(len(delivered) == 0 && !in2, "nothing is published without an announcement")
	}
	R := p.GetProcessable()
	zzjCheckProcessable(t, p, func(i int) bool { return abi.bad[i] }, view, R, "GetProcessable after the job")
	zzCheckPool(t, p, view, zzLblAgree)
	if ticks > 0 && len(R) > 0 {
		t.Reach("tick-promoted")
	}
	if byCtx {
		t.Reach("stopped-by-context")
	} else {
		t.Reach("stopped-by-End")
	}
	t.Reach("end")
}
