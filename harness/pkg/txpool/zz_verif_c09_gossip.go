//go:build verif

package txpool

import (
	"context"
	"sync"

	"github.com/LiskHQ/lisk-engine/pkg/blockchain"
	"github.com/LiskHQ/lisk-engine/pkg/codec"
	"github.com/LiskHQ/lisk-engine/pkg/collection/bytes"
	"github.com/LiskHQ/lisk-engine/pkg/event"
	"github.com/LiskHQ/lisk-engine/pkg/labi"
	"github.com/LiskHQ/lisk-engine/pkg/p2p"
)

type zzgABI struct {
	verdict int32
	fail    bool
	calls   int
}

func (a *zzgABI) VerifyTransaction(req *labi.VerifyTransactionRequest) (*labi.VerifyTransactionResponse, error) {
	a.calls++
	if a.fail {
		return nil, zzErrABI
	}
	return &labi.VerifyTransactionResponse{Result: a.verdict}, nil
}

// C09 (transaction gossip entry): validator and handler of the transaction topic must agree — the handler
// panics on bytes it cannot decode and relies on the validator having refused them. A valid transaction
// encoding with ONE byte at any position replaced by an arbitrary byte, cut at any length, or extended by
// one arbitrary byte: the validator returns a verdict without panicking; whenever it accepts, the handler
// does not panic, and the transaction ends in the pool only if the application did not call it invalid
// — under its ID = hash of exactly the received bytes (C08).
//
//zz:opt loop=4000 require=accepted,rejected conc=300 budget=600s
//zz:quick STEP=2
//zz:thorough STEP=1
func zzH_C09_tx_gossip_entry(t *zzT) {
	tx := &blockchain.Transaction{Module: "token", Command: "transfer", Nonce: 3, Fee: 1000000, SenderPublicKey: zzSenderKeys[0],
		Params: []byte{1, 2, 3}, Signatures: []codec.Hex{bytes.Repeat([]byte{5}, 64)}}
	raw := tx.Encode()
	data := append([]byte{}, raw...)
	step := t.Param("STEP", 1)
	switch t.Choice("mutation", 4) {
	case 0:
	case 1:
		pos := t.Range("pos", 0, (len(raw)-1)/step) * step
		data[pos] = t.U8("byte")
	case 2:
		data = data[:t.Range("cut", 0, (len(raw)-1)/step)*step]
	default:
		data = append(data, t.U8("extra"))
	}
	abi := &zzgABI{verdict: t.I32("abi.verdict"), fail: t.Bool("abi.fail")}
	t.Assume(abi.verdict >= -1 && abi.verdict <= 1)
	p := &TransactionPool{
		mutex:            new(sync.RWMutex),
		allTransactions:  map[string]*TransactionWithFeePriority{},
		perAccount:       map[string]*addressTransactions{},
		feePriorityQueue: FeeMinHeap{},
		config:           &TransactionPoolConfig{MaxTransactions: 4, MaxTransactionsPerAccount: 4},
		logger:           zzNopLogger{},
		conn:             zzFakeConn{},
		abi:              abi,
		events:           event.New(),
	}
	verdict := p.transactionValidator(context.Background(), &p2p.Message{Data: data})
	if verdict != p2p.ValidationAccept {
		t.Assert(verdict == p2p.ValidationReject, "a transaction the validator does not accept is rejected")
		t.Reach("rejected")
		return
	}
	p.onTransactionAnnoucement(p2p.NewEvent("peer", RPCEventPostTransactionAnnouncement, data))
	pooled := p.GetAll()
	if abi.fail || abi.verdict == labi.TxVerifyResultInvalid {
		t.Assert(len(pooled) == 0, "a transaction the application refuses does not enter the pool")
	} else {
		t.Assert(len(pooled) == 1, "an accepted announcement enters the empty pool")
	}
	if len(pooled) == 1 {
		t.Assert(bytes.Equal(pooled[0].Encode(), data), "the pooled transaction re-encodes to exactly the received bytes (canonical acceptance)")
	}
	t.Reach("accepted")
}
