//go:build verif

package db

import (
	"bytes"

	"github.com/cockroachdb/pebble"
)

// C13 "either the whole effect of that step or none of it": every step of the node builds ITS OWN batch
// (DB.NewBatch), and a step that is abandoned before its write — the application refused Commit / Revert after the
// consensus store had already been committed into the batch — must leave nothing behind: the next step's batch
// starts empty and its write carries exactly that step's operations. The REAL DB.NewBatch / Batch.Set / Batch.Del /
// DB.Write run over a model of pebble batches (an operation list per batch object; Apply plays the list into the
// store). Sequence: batch 1 gets an operation and is abandoned (or written), batch 2 gets an operation and is
// written, a third batch is written empty. Seed C13-11 handed out one shared batch that only Write empties.
// Natively: the real in-memory pebble.

type zz13Op struct {
	del  bool
	k, v []byte
}

var (
	zz13Batches []*pebble.Batch
	zz13Lists   [][]zz13Op
	zz13Store   []zz13Op // association list: last entry for a key wins; del = tombstone
)

func zz13idx(b *pebble.Batch) int {
	for i, x := range zz13Batches {
		if x == b {
			return i
		}
	}
	zz13Batches = append(zz13Batches, b)
	zz13Lists = append(zz13Lists, nil)
	return len(zz13Batches) - 1
}

func zz13mNewBatch(d *pebble.DB) *pebble.Batch {
	b := &pebble.Batch{}
	zz13idx(b)
	return b
}
func zz13mSet(b *pebble.Batch, key, value []byte, o *pebble.WriteOptions) error {
	i := zz13idx(b)
	zz13Lists[i] = append(zz13Lists[i], zz13Op{false, append([]byte{}, key...), append([]byte{}, value...)})
	return nil
}
func zz13mDelete(b *pebble.Batch, key []byte, o *pebble.WriteOptions) error {
	i := zz13idx(b)
	zz13Lists[i] = append(zz13Lists[i], zz13Op{true, append([]byte{}, key...), nil})
	return nil
}
func zz13mLen(b *pebble.Batch) int      { return 12 }
func zz13mCount(b *pebble.Batch) uint32 { return uint32(len(zz13Lists[zz13idx(b)])) }
func zz13mReset(b *pebble.Batch)        { zz13Lists[zz13idx(b)] = nil }
func zz13mApply(d *pebble.DB, b *pebble.Batch, o *pebble.WriteOptions) error {
	zz13Store = append(zz13Store, zz13Lists[zz13idx(b)]...)
	return nil
}
func zz13mCommit(b *pebble.Batch, o *pebble.WriteOptions) error {
	zz13Store = append(zz13Store, zz13Lists[zz13idx(b)]...)
	return nil
}

func zz13mGet(k []byte) ([]byte, bool) {
	for i := len(zz13Store) - 1; i >= 0; i-- {
		if bytes.Equal(zz13Store[i].k, k) {
			return zz13Store[i].v, !zz13Store[i].del
		}
	}
	return nil, false
}

//zz:opt loop=64 require=abandoned,written
//zz:stub (*~/pkg/db.DB).NewBatch -
//zz:stub (*~/pkg/db.DB).Write -
//zz:stub (*~/pkg/db.Batch).Set -
//zz:stub (*~/pkg/db.Batch).Del -
//zz:stub (*github.com/cockroachdb/pebble.DB).NewBatch zz13mNewBatch
//zz:stub (*github.com/cockroachdb/pebble.DB).Apply zz13mApply
//zz:stub (*github.com/cockroachdb/pebble.Batch).Set zz13mSet
//zz:stub (*github.com/cockroachdb/pebble.Batch).Delete zz13mDelete
//zz:stub (*github.com/cockroachdb/pebble.Batch).Len zz13mLen
//zz:stub (*github.com/cockroachdb/pebble.Batch).Commit zz13mCommit
//zz:stub (*github.com/cockroachdb/pebble.Batch).Reset zz13mReset
//zz:stub (*github.com/cockroachdb/pebble.Batch).Count zz13mCount
func zzH_C13_batches_independent(t *zzT) {
	k0, k1, k2 := []byte{0x7e, 0}, []byte{0x7e, 1 + t.U8("key1")&1}, []byte{0x7e, 3 + t.U8("key2")&1}
	v1, v2 := []byte{t.U8("value1")}, []byte{t.U8("value2")}
	del1, del2 := t.Bool("first operation is Del"), t.Bool("second operation is Del")
	abandon := t.Bool("first batch is abandoned")

	var d *DB
	get := func(k []byte) ([]byte, bool) { return d.Get(k) }
	if t.Symbolic() {
		zz13Batches, zz13Lists, zz13Store = nil, nil, nil
		d = &DB{pebbleDB: &pebble.DB{}}
		get = zz13mGet
		for _, k := range [][]byte{k0, {0x7e, 1}, {0x7e, 2}, {0x7e, 3}, {0x7e, 4}} {
			zz13Store = append(zz13Store, zz13Op{false, k, []byte{0x55}})
		}
	} else {
		var err error
		if d, err = NewInMemoryDB(); err != nil {
			t.Fail("db")
			return
		}
		for _, k := range [][]byte{k0, {0x7e, 1}, {0x7e, 2}, {0x7e, 3}, {0x7e, 4}} {
			d.Set(k, []byte{0x55})
		}
	}
	apply := func(b *Batch, del bool, k, v []byte) {
		if del {
			b.Del(k)
		} else {
			b.Set(k, v)
		}
	}
	holds := func(del bool, k, v []byte) bool { // the store shows the operation's effect
		g, ok := get(k)
		if del {
			return !ok
		}
		return ok && bytes.Equal(g, v)
	}
	untouched := func(k []byte) bool {
		g, ok := get(k)
		return ok && len(g) == 1 && g[0] == 0x55
	}

	b1 := d.NewBatch()
	apply(b1, del1, k1, v1)
	t.Assert(untouched(k1), "nothing is durable before DB.Write")
	if !abandon {
		d.Write(b1)
		t.Assert(holds(del1, k1, v1), "a written batch is applied")
	}
	b2 := d.NewBatch()
	apply(b2, del2, k2, v2)
	d.Write(b2)
	t.Assert(holds(del2, k2, v2), "the second step's write carries its operation")
	if abandon {
		t.Assert(untouched(k1), "the operations of an abandoned batch are not written by the next step's write")
	} else {
		t.Assert(holds(del1, k1, v1), "an earlier write is not undone by the next step's write")
	}
	b3 := d.NewBatch()
	d.Write(b3)
	t.Assert(holds(del2, k2, v2) && untouched(k0) && (abandon && untouched(k1) || !abandon && holds(del1, k1, v1)), "writing an empty batch changes nothing")
	if abandon {
		t.Reach("abandoned")
	} else {
		t.Reach("written")
	}
}
