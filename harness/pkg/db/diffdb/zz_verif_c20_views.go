//go:build verif

package diffdb

import (
	"bytes"
	"sync"
)

// C20.d: the staged store shared through prefix views. Two module goroutines write and read through
// two views derived from one Database (they share the overlay and its mutex) while the owner takes a
// snapshot, and — after both are done — restores it. All interleavings within the scheduling budget,
// with the vector-clock race monitor. Asserted: no data race on the overlay, nobody blocks, each
// goroutine reads back what it wrote (the views' key spaces are disjoint), and after the restore every
// view reads the state at the snapshot or — if its write preceded the snapshot — its own write.
//
//zz:opt loop=64 sched=2 join=1 race=1 racereport=1 schedule=1 blockfree=0
//zz:thorough sched=3 budget=1800s
func zzH_C20_diffdb_views_concurrent(t *zzT) {
	store := &zzModelStore{}
	store.e = append(store.e, zzEntry{[]byte{1, 7}, []byte{0x11}}, zzEntry{[]byte{2, 7}, []byte{0x22}})
	root := New(store, []byte{})
	va, vb := root.WithPrefix([]byte{1}), root.WithPrefix([]byte{2})
	wa, wb := t.U8("write.a"), t.U8("write.b")
	delB := t.Bool("b deletes instead")
	var wg sync.WaitGroup
	wg.Add(2)
	var gotA, gotB []byte
	var okA, okB bool
	go func() {
		defer wg.Done()
		va.Set([]byte{7}, []byte{wa})
		gotA, okA = va.Get([]byte{7})
	}()
	go func() {
		defer wg.Done()
		if delB {
			vb.Del([]byte{7})
		} else {
			vb.Set([]byte{7}, []byte{wb})
		}
		gotB, okB = vb.Get([]byte{7})
	}()
	id := root.Snapshot()
	wg.Wait()
	t.Assert(okA && bytes.Equal(gotA, []byte{wa}), "a view reads back its own write while another view is used concurrently")
	t.Assert(okB != delB && (delB || bytes.Equal(gotB, []byte{wb})), "a view reads back its own write / delete while another view is used concurrently")
	t.Assert(root.RestoreSnapshot(id) == nil, "RestoreSnapshot succeeds")
	a, aok := va.Get([]byte{7})
	t.Assert(aok && (bytes.Equal(a, []byte{wa}) || bytes.Equal(a, []byte{0x11})), "after the restore view A reads its write (if it preceded the snapshot) or the stored value")
	b, bok := vb.Get([]byte{7})
	if bok {
		t.Assert(bytes.Equal(b, []byte{wb}) && !delB || bytes.Equal(b, []byte{0x22}), "after the restore view B reads its write (if it preceded the snapshot) or the stored value")
	} else {
		t.Assert(delB, "after the restore view B misses the key only if its delete preceded the snapshot")
	}
	t.Reach("end")
}
