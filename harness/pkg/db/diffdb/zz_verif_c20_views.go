//go:build verif

package diffdb

import (
	"bytes"
	"sync"
	"time"

	"github.com/LiskHQ/lisk-engine/pkg/db"
)

// zz20SlowStore: natively the FIRST store read takes 40 ms (the reader's cache miss), which makes the
// native schedule the critical one: the writers (who start 10 ms later) run while the reader is between
// its cache miss and its cache fill. Under the engine every interleaving is explored instead.
type zz20SlowStore struct {
	s      *zzModelStore
	native bool
	mu     sync.Mutex
	calls  int
}

func (w *zz20SlowStore) Get(key []byte) ([]byte, bool) {
	if w.native {
		w.mu.Lock()
		w.calls++
		first := w.calls == 1
		w.mu.Unlock()
		if first {
			time.Sleep(40 * time.Millisecond)
		}
	}
	return w.s.Get(key)
}
func (w *zz20SlowStore) Iterate(prefix []byte, limit int, reverse bool) []db.KeyValue {
	return w.s.Iterate(prefix, limit, reverse)
}
func (w *zz20SlowStore) IterateRange(start, end []byte, limit int, reverse bool) []db.KeyValue {
	return w.s.IterateRange(start, end, limit, reverse)
}

// C20.d: the staged store shared through prefix views. Two module goroutines write and read through
// two views derived from one Database (they share the overlay and its mutex) while the owner takes a
// snapshot, and — after both are done — restores it. All interleavings within the scheduling budget,
// with the vector-clock race monitor. Asserted: no data race on the overlay, nobody blocks, each
// goroutine reads back what it wrote (the views' key spaces are disjoint), and after the restore every
// view reads the state at the snapshot or — if its write preceded the snapshot — its own write.
//
//zz:opt loop=64 sched=2 join=1 race=1 racereport=1 schedule=1 blockfree=0
//zz:thorough sched=3 budget=1800s
func zzH_C20_diffdb_views_concurrent(t *zzT) {
	store := &zzModelStore{}
	store.e = append(store.e, zzEntry{[]byte{1, 7}, []byte{0x11}}, zzEntry{[]byte{2, 7}, []byte{0x22}})
	root := New(&zz20SlowStore{s: store, native: !t.Symbolic()}, []byte{})
	va, vb := root.WithPrefix([]byte{1}), root.WithPrefix([]byte{2})
	wa, wb := t.U8("write.a"), t.U8("write.b")
	delB := t.Bool("b deletes instead")
	var wg sync.WaitGroup
	wg.Add(2)
	var gotA, gotB []byte
	var okA, okB bool
	go func() {
		defer wg.Done()
		if !t.Symbolic() {
			time.Sleep(10 * time.Millisecond)
		}
		va.Set([]byte{7}, []byte{wa})
		gotA, okA = va.Get([]byte{7})
	}()
	go func() {
		defer wg.Done()
		if !t.Symbolic() {
			time.Sleep(10 * time.Millisecond)
		}
		if delB {
			vb.Del([]byte{7})
		} else {
			vb.Set([]byte{7}, []byte{wb})
		}
		gotB, okB = vb.Get([]byte{7})
	}()
	// a third party reads the SAME keys through the root while the writers are at work: a read that
	// fills the cache from the store must not overwrite a write that completed meanwhile
	wg.Add(1)
	go func() {
		defer wg.Done()
		_, _ = root.Get([]byte{1, 7})
		_, _ = root.Get([]byte{2, 7})
	}()
	id := root.Snapshot()
	wg.Wait()
	fa, faok := va.Get([]byte{7})
	t.Assert(faok && bytes.Equal(fa, []byte{wa}), "a completed write is not undone by a concurrent read of the same key")
	fb, fbok := vb.Get([]byte{7})
	t.Assert(fbok != delB && (delB || bytes.Equal(fb, []byte{wb})), "a completed write / delete is not undone by a concurrent read of the same key")
	t.Assert(okA && bytes.Equal(gotA, []byte{wa}), "a view reads back its own write while another view is used concurrently")
	t.Assert(okB != delB && (delB || bytes.Equal(gotB, []byte{wb})), "a view reads back its own write / delete while another view is used concurrently")
	t.Assert(root.RestoreSnapshot(id) == nil, "RestoreSnapshot succeeds")
	a, aok := va.Get([]byte{7})
	t.Assert(aok && (bytes.Equal(a, []byte{wa}) || bytes.Equal(a, []byte{0x11})), "after the restore view A reads its write (if it preceded the snapshot) or the stored value")
	b, bok := vb.Get([]byte{7})
	if bok {
		t.Assert(bytes.Equal(b, []byte{wb}) && !delB || bytes.Equal(b, []byte{0x22}), "after the restore view B reads its write (if it preceded the snapshot) or the stored value")
	} else {
		t.Assert(delB, "after the restore view B misses the key only if its delete preceded the snapshot")
	}
	t.Reach("end")
}

// C12 "reads through the staged store always return … all staged writes applied" when two prefix views are
// used from two goroutines (the store is documented as shared through views): same obligation as
// zzH_C20_diffdb_views_concurrent, registered under C12 as well (seed C12-6 dropped the shared mutex around
// the storage read of Get: a staged write of the same key completed in that window is overwritten).
//
//zz:opt loop=64 sched=2 join=1 race=1 racereport=1 schedule=1 blockfree=0
//zz:thorough sched=3 budget=1800s
func zzH_C12_views_concurrent(t *zzT) { zzH_C20_diffdb_views_concurrent(t) }
