//go:build verif

package diffdb

import (
	"bytes"

	"github.com/LiskHQ/lisk-engine/pkg/db"
)

// ---------------------------------------------------------------------------------------------
// Model store: a sorted association list behind the DatabaseReader / DatabaseWriter interfaces.
// It implements the *specified* semantics of the database scans (DESIGN App. B.5): exactly the
// entries inside the bounds, ascending (descending if reverse), the first `limit` of them
// (all if limit == -1). The real diffdb code runs on top of it, symbolically and natively.
// ---------------------------------------------------------------------------------------------

type zzEntry struct{ k, v []byte }

type zzModelStore struct{ e []zzEntry }

func zzCopy(b []byte) []byte {
	c := make([]byte, len(b))
	copy(c, b)
	return c
}

func (s *zzModelStore) Get(key []byte) ([]byte, bool) {
	for i := range s.e {
		if bytes.Equal(s.e[i].k, key) {
			return zzCopy(s.e[i].v), true
		}
	}
	return nil, false
}

func (s *zzModelStore) scan(in func(k []byte) bool, limit int, reverse bool) []db.KeyValue {
	out := []db.KeyValue{}
	n := len(s.e)
	for j := 0; j < n; j++ {
		i := j
		if reverse {
			i = n - 1 - j
		}
		if limit != -1 && len(out) >= limit {
			break
		}
		if in(s.e[i].k) {
			out = append(out, db.NewKeyValue(zzCopy(s.e[i].k), zzCopy(s.e[i].v)))
		}
	}
	return out
}

func (s *zzModelStore) Iterate(prefix []byte, limit int, reverse bool) []db.KeyValue {
	return s.scan(func(k []byte) bool { return bytes.HasPrefix(k, prefix) }, limit, reverse)
}

func (s *zzModelStore) IterateRange(start, end []byte, limit int, reverse bool) []db.KeyValue {
	return s.scan(func(k []byte) bool {
		return bytes.Compare(k, start) >= 0 && bytes.Compare(k, end) <= 0
	}, limit, reverse)
}

// DatabaseWriter: keeps the list sorted and duplicate free.
func (s *zzModelStore) Set(key, value []byte) {
	pos := len(s.e)
	for i := range s.e {
		c := bytes.Compare(s.e[i].k, key)
		if c == 0 {
			s.e[i].v = zzCopy(value)
			return
		}
		if c > 0 {
			pos = i
			break
		}
	}
	ne := make([]zzEntry, 0, len(s.e)+1)
	ne = append(ne, s.e[:pos]...)
	ne = append(ne, zzEntry{zzCopy(key), zzCopy(value)})
	ne = append(ne, s.e[pos:]...)
	s.e = ne
}

func (s *zzModelStore) Del(key []byte) {
	for i := range s.e {
		if bytes.Equal(s.e[i].k, key) {
			ne := make([]zzEntry, 0, len(s.e))
			ne = append(ne, s.e[:i]...)
			ne = append(ne, s.e[i+1:]...)
			s.e = ne
			return
		}
	}
}

func (s *zzModelStore) clone() *zzModelStore {
	c := &zzModelStore{}
	for _, e := range s.e {
		c.e = append(c.e, zzEntry{zzCopy(e.k), zzCopy(e.v)})
	}
	return c
}

// ---------------------------------------------------------------------------------------------
// Reference: an unordered association list over *full* (prefixed) keys, written independently of
// the model store. Queries select, then order by repeated minimum extraction.
// ---------------------------------------------------------------------------------------------

type zzRef struct{ e []zzEntry }

func (r *zzRef) find(k []byte) int {
	for i := range r.e {
		if bytes.Equal(r.e[i].k, k) {
			return i
		}
	}
	return -1
}

func (r *zzRef) set(k, v []byte) {
	if i := r.find(k); i >= 0 {
		r.e[i].v = v
		return
	}
	r.e = append(r.e, zzEntry{k, v})
}

func (r *zzRef) del(k []byte) {
	if i := r.find(k); i >= 0 {
		r.e[i] = r.e[len(r.e)-1]
		r.e = r.e[:len(r.e)-1]
	}
}

func (r *zzRef) clone() *zzRef {
	c := &zzRef{}
	c.e = append(c.e, r.e...)
	return c
}

// ordered returns the selected entries in ascending (descending) key order, at most limit of them.
func (r *zzRef) ordered(in func(k []byte) bool, limit int, reverse bool) []zzEntry {
	var sel []zzEntry
	for _, e := range r.e {
		if in(e.k) {
			sel = append(sel, e)
		}
	}
	var out []zzEntry
	for len(sel) > 0 && (limit == -1 || len(out) < limit) {
		b := 0
		for i := 1; i < len(sel); i++ {
			c := bytes.Compare(sel[i].k, sel[b].k)
			if (!reverse && c < 0) || (reverse && c > 0) {
				b = i
			}
		}
		out = append(out, sel[b])
		sel[b] = sel[len(sel)-1]
		sel = sel[:len(sel)-1]
	}
	return out
}

// sameStore: the model store holds exactly the reference entries.
func zzSameStore(s *zzModelStore, r *zzRef) bool {
	if len(s.e) != len(r.e) {
		return false
	}
	for _, e := range s.e {
		i := r.find(e.k)
		if i < 0 || !bytes.Equal(r.e[i].v, e.v) {
			return false
		}
	}
	return true
}

// ---------------------------------------------------------------------------------------------
// Scenario: symbolic store, two prefix views, a short symbolic history of Set/Del.
// ---------------------------------------------------------------------------------------------

func zzCat(a, b []byte) []byte {
	c := make([]byte, 0, len(a)+len(b))
	c = append(c, a...)
	return append(c, b...)
}

// zzVarBytes: lo..hi symbolic bytes (the length forks).
func zzVarBytes(t *zzT, name string, lo, hi int) []byte {
	n := lo
	if hi > lo {
		n = t.Range(name+".len", lo, hi)
	}
	return t.Bytes(name, n)
}

type zzScenario struct {
	store  *zzModelStore
	init   *zzModelStore // copy of the initial store
	ref    *zzRef
	root   *Database
	views  []*Database
	prefix [][]byte
	// bounds (from the tier directives)
	kLo, kHi int // length of store keys
	qLo, qHi int // length of keys used through a view (the view prefix adds one byte)
	vLo, vHi int // length of values
}

// zzBuild: symbolic store + views.
// Store: n ≤ N entries, keys KLO..KHI symbolic bytes, strictly ascending (the association list is a
// sorted map; every store is represented); values VLO..VHI bytes.
// Views: view i = root.WithPrefix(P[i]) with a one-byte symbolic prefix (P[0] may equal P[1]).
func zzBuild(t *zzT, nviews int) *zzScenario {
	sc := &zzScenario{store: &zzModelStore{}, ref: &zzRef{}}
	sc.kLo, sc.kHi = t.Param("KLO", 1), t.Param("KHI", 2)
	sc.qLo, sc.qHi = t.Param("QLO", 0), t.Param("QHI", 1)
	sc.vLo, sc.vHi = t.Param("VLO", 0), t.Param("VHI", 1)
	s := sc.store
	n := t.Range("store.n", t.Param("NLO", 0), t.Param("N", 2))
	for i := 0; i < n; i++ {
		k := zzVarBytes(t, t.Name("store.k", i), sc.kLo, sc.kHi)
		v := zzVarBytes(t, t.Name("store.v", i), sc.vLo, sc.vHi)
		if i > 0 {
			t.Assume(bytes.Compare(s.e[i-1].k, k) < 0)
		}
		s.e = append(s.e, zzEntry{k, v})
	}
	sc.init = s.clone()
	for _, e := range s.e {
		sc.ref.e = append(sc.ref.e, zzEntry{e.k, e.v})
	}
	sc.root = New(s, []byte{})
	for i := 0; i < nviews; i++ {
		p := t.Bytes(t.Name("prefix", i), 1)
		sc.prefix = append(sc.prefix, p)
		sc.views = append(sc.views, sc.root.WithPrefix(p))
	}
	return sc
}

// zzOpInfo: what one symbolic operation did.
type zzOpInfo struct {
	full []byte // full (prefixed) key
	kind int    // 0 Set, 1 Del, 2 Get
}

// zzOp applies one symbolic operation to the staged store and the reference: Set or Del (or, with
// READS=1, Get — which caches the store value without changing the state) through one of the prefix
// views (or, with ROOT=1, through the root database itself with a full key).
func (sc *zzScenario) zzOp(t *zzT, i int) zzOpInfo {
	targets := len(sc.views) + t.Param("ROOT", 0)
	w := 0
	if targets > 1 {
		w = t.Choice(t.Name("op.view", i), targets)
	}
	key := zzVarBytes(t, t.Name("op.k", i), sc.qLo, sc.qHi)
	d := sc.root
	if w < len(sc.views) {
		d = sc.views[w]
	} else {
		key = zzCat(t.Bytes(t.Name("op.rootk", i), 1), key)
	}
	full := zzCat(d.prefix, key)
	kind := t.Choice(t.Name("op.kind", i), 2+t.Param("READS", 0))
	switch kind {
	case 0:
		val := zzVarBytes(t, t.Name("op.v", i), sc.vLo, sc.vHi)
		d.Set(key, val)
		sc.ref.set(full, val)
	case 1:
		d.Del(key)
		sc.ref.del(full)
	case 2:
		got, ok := d.Get(key)
		j := sc.ref.find(full)
		t.Assert(ok == (j >= 0) && (j < 0 || bytes.Equal(got, sc.ref.e[j].v)), "Get in the middle of a history agrees with the reference")
	}
	return zzOpInfo{full, kind}
}

// zzOps applies exactly k operations (a shorter history is a longer one padded with Del of a key that
// is neither stored nor staged, which changes nothing).
func (sc *zzScenario) zzOps(t *zzT, from, k int) []zzOpInfo {
	var infos []zzOpInfo
	for i := from; i < from+k; i++ {
		infos = append(infos, sc.zzOp(t, i))
	}
	return infos
}

func zzSameList(got []db.KeyValue, want []zzEntry, plen int) bool {
	if len(got) != len(want) {
		return false
	}
	for i := range got {
		if !bytes.Equal(got[i].Key(), want[i].k[plen:]) || !bytes.Equal(got[i].Value(), want[i].v) {
			return false
		}
	}
	return true
}

func zzLimit(t *zzT) int {
	limit := t.Int("q.limit")
	t.Assume(limit >= -1 && limit <= 2)
	return limit
}

func zzAll(k []byte) bool { return true }

// C12.a Get/Has: after K Set/Del through 2 prefix views, Get and Has (through view 0 — the views
// are symmetric, their prefixes symbolic and possibly equal) return what the store with the staged
// writes applied holds under prefix‖key; asked twice (the first Get caches the store value).
//
//zz:opt loop=12
//zz:quick N=2 K=2 VLO=1
//zz:thorough N=1 K=3
func zzH_C12_get_has(t *zzT) {
	sc := zzBuild(t, 2)
	sc.zzOps(t, 0, t.Param("K", 2))
	key := zzVarBytes(t, "q.k", sc.qLo, sc.qHi)
	full := zzCat(sc.prefix[0], key)
	i := sc.ref.find(full)
	for rep := 0; rep < 2; rep++ {
		got, ok := sc.views[0].Get(key)
		has := sc.views[0].Has(key)
		if i >= 0 {
			t.Assert(ok && has && bytes.Equal(got, sc.ref.e[i].v), "Get/Has return the staged value of a live key")
		} else {
			t.Assert(!ok && !has && got == nil, "Get/Has report a deleted or absent key as missing")
		}
	}
	t.ObserveBool("found", i >= 0)
	t.Reach("end")
}

// C12.a Range: after K Set/Del through 2 prefix views, Range(start,end,limit,reverse) through view 0
// returns the first `limit` (all if -1) entries of {(k,v) : p‖start ≤ p‖k ≤ p‖end} of the store
// with the staged writes applied, ascending (descending if reverse), prefix stripped (App. B.5).
// Labels: soundness of what is returned; the unlimited result; the limited result.
//
//zz:opt loop=16
//zz:quick N=2 K=1 VLO=1
//zz:thorough N=2 K=2 VLO=1
func zzH_C12_range(t *zzT) {
	sc := zzBuild(t, 2)
	sc.zzOps(t, 0, t.Param("K", 1))
	start := zzVarBytes(t, "q.start", sc.qLo, sc.qHi)
	end := zzVarBytes(t, "q.end", sc.qLo, sc.qHi)
	limit := zzLimit(t)
	reverse := t.Bool("q.reverse")
	p := sc.prefix[0]
	ps, pe := zzCat(p, start), zzCat(p, end)
	in := func(k []byte) bool { return bytes.Compare(k, ps) >= 0 && bytes.Compare(k, pe) <= 0 }
	ref := sc.ref

	got := sc.views[0].Range(start, end, limit, reverse)

	for i := range got {
		j := ref.find(zzCat(p, got[i].Key()))
		t.Assert(j >= 0 && in(ref.e[j].k) && bytes.Equal(ref.e[j].v, got[i].Value()),
			"Range returns only live entries inside the bounds, with their staged values")
	}
	want := ref.ordered(in, limit, reverse)
	if limit == -1 {
		t.Assert(zzSameList(got, want, len(p)), "Range without limit = all entries inside the bounds, in order")
	} else {
		t.Assert(zzSameList(got, want, len(p)), "Range with limit = the first limit entries inside the bounds, in order")
	}
	// reading does not change the staged state
	t.Assert(zzSameList(sc.views[0].Range(start, end, -1, reverse), ref.ordered(in, -1, reverse), len(p)),
		"a second Range (unlimited) still agrees with the reference")
	t.ObserveU64("n", uint64(len(got)))
	t.Reach("end")
}

// C12.a Iterate over a whole view: one prefix view only (every staged key carries its prefix) and
// the empty iteration prefix. In this domain the cache filter of Iterate is exact, so the harness
// isolates the handling of limit and reverse.
//
//zz:opt loop=16
//zz:quick N=2 K=1 VLO=1
//zz:thorough N=3 K=2 VLO=1
func zzH_C12_iterate_whole_view(t *zzT) {
	sc := zzBuild(t, 1)
	sc.zzOps(t, 0, t.Param("K", 1))
	limit := zzLimit(t)
	reverse := t.Bool("q.reverse")
	p := sc.prefix[0]
	in := func(k []byte) bool { return bytes.HasPrefix(k, p) }

	got := sc.views[0].Iterate([]byte{}, limit, reverse)

	want := sc.ref.ordered(in, limit, reverse)
	if limit == -1 {
		t.Assert(zzSameList(got, want, len(p)), "Iterate(whole view) without limit = all entries of the view, in order")
	} else {
		t.Assert(zzSameList(got, want, len(p)), "Iterate(whole view) with limit = the first limit entries of the view, in order")
	}
	t.ObserveU64("n", uint64(len(got)))
	t.Reach("end")
}

// C12.a Iterate, general: two prefix views, iteration prefix q of 0–1 bytes; Iterate(q,limit,reverse)
// through view 0 = the first `limit` entries whose full key has prefix p‖q.
// Labels: (1) returned keys belong to the view and carry q, (2) their values are the staged ones,
// (3) the whole result.
//
//zz:opt loop=16
//zz:quick N=2 K=1 VLO=1
//zz:thorough N=2 K=2 VLO=1
func zzH_C12_iterate(t *zzT) {
	sc := zzBuild(t, 2)
	sc.zzOps(t, 0, t.Param("K", 1))
	q := zzVarBytes(t, "q.prefix", sc.qLo, sc.qHi)
	limit := zzLimit(t)
	reverse := t.Bool("q.reverse")
	p := sc.prefix[0]
	pq := zzCat(p, q)
	in := func(k []byte) bool { return bytes.HasPrefix(k, pq) }
	ref := sc.ref

	got := sc.views[0].Iterate(q, limit, reverse)

	for i := range got {
		j := ref.find(zzCat(p, got[i].Key()))
		t.Assert(j >= 0 && in(ref.e[j].k), "Iterate returns only live keys of its own view that carry the requested prefix")
		if j >= 0 {
			t.Assert(bytes.Equal(ref.e[j].v, got[i].Value()), "Iterate returns the staged value of every key it returns")
		}
	}
	t.Assert(zzSameList(got, ref.ordered(in, limit, reverse), len(p)), "Iterate = the first limit entries with the prefix, each once, in order")
	t.ObserveU64("n", uint64(len(got)))
	t.Reach("end")
}

// C12.a Iterate with a NON-EMPTY requested prefix and store keys long enough to carry view prefix +
// requested prefix + one more byte (2..3 bytes): the case in which the staged deletions that make room
// in a limited scan must be counted under the full (view ‖ requested) prefix. Same oracle as
// zzH_C12_iterate.
//
//zz:opt loop=16
//zz:quick N=2 K=1 VLO=1 KLO=2 KHI=3 QLO=1
//zz:thorough N=3 K=2 VLO=1 KLO=2 KHI=3 QLO=1
func zzH_C12_iterate_long_keys(t *zzT) { zzH_C12_iterate(t) }

// C12.a Iterate through a nested view (prefix length 2) while a sibling of its parent staged a
// shorter full key: must not crash and must not see the foreign key.
//
//zz:opt loop=16
//zz:quick N=1 VLO=1
//zz:thorough N=2
func zzH_C12_iterate_nested_view(t *zzT) {
	sc := zzBuild(t, 1)
	nested := sc.views[0].WithPrefix(t.Bytes("prefix.nested", 1))
	sc.zzOps(t, 0, 1) // through the parent view: full key of 1–2 bytes
	in := func(k []byte) bool { return bytes.HasPrefix(k, nested.prefix) }
	reverse := t.Bool("q.reverse")
	got := nested.Iterate([]byte{}, -1, reverse)
	t.Assert(zzSameList(got, sc.ref.ordered(in, -1, reverse), 2), "Iterate through a nested view = entries below the nested prefix")
	t.Reach("end")
}

// C12.b Snapshot / RestoreSnapshot. K1 operations, Snapshot on the root database, K2 operations
// through prefix views created before the snapshot or through the root itself, RestoreSnapshot.
// Then the staged state read (a) through the restoring database, (b) through a view derived after
// the restore, (c) through a view derived before the snapshot must be the staged state at the
// snapshot — the property speaks of reads through any view.
//
//zz:opt loop=16
//zz:quick N=1 K1=1 K2=1 VLO=1 ROOT=1
//zz:thorough N=2 K1=1 K2=2 VLO=1 ROOT=1
func zzH_C12_snapshot_restore(t *zzT) {
	sc := zzBuild(t, 1)
	k1 := t.Param("K1", 1)
	sc.zzOps(t, 0, k1)
	atSnap := sc.ref.clone()
	id := sc.root.Snapshot()
	sc.zzOps(t, k1, t.Param("K2", 1))
	t.Assert(sc.root.RestoreSnapshot(id) == nil, "RestoreSnapshot of a live snapshot id succeeds")
	t.Assert(sc.root.RestoreSnapshot(id) != nil, "a snapshot id can be restored only once")

	// (a) whole staged state through the restoring database (empty prefix, unlimited)
	got := sc.root.Iterate([]byte{}, -1, false)
	t.Assert(zzSameList(got, atSnap.ordered(zzAll, -1, false), 0), "after restore the restoring database reads the staged state at the snapshot")

	key := zzVarBytes(t, "q.k", sc.qLo, sc.qHi)
	j := atSnap.find(zzCat(sc.prefix[0], key))
	// (b) view derived after the restore
	fresh := sc.root.WithPrefix(sc.prefix[0])
	v, ok := fresh.Get(key)
	t.Assert(ok == (j >= 0) && (j < 0 || bytes.Equal(v, atSnap.e[j].v)), "after restore a view derived afterwards reads the staged state at the snapshot")
	// (c) view derived before the snapshot
	v, ok = sc.views[0].Get(key)
	t.Assert(ok == (j >= 0) && (j < 0 || bytes.Equal(v, atSnap.e[j].v)), "after restore a view derived before the snapshot reads the staged state at the snapshot")
	t.Reach("end")
}

// C12.b+c Snapshot / RestoreSnapshot followed by more writes, Commit and RevertDiff: the restored
// overlay must carry everything Commit needs (in particular whether a key exists in the store, also
// when its stored value is the EMPTY byte string, VLO=0). K1 operations, Snapshot, K2 operations,
// RestoreSnapshot, K3 operations (all through views derived at that moment — views derived before a
// restore are the subject of zzH_C12_snapshot_restore (c)), Commit: the store holds the reference
// state; RevertDiff: the store is the initial one byte for byte.
//
//zz:opt loop=16
//zz:quick N=1 K1=1 K2=1 K3=1 VLO=0 VHI=1 READS=1 KLO=2 KHI=2 QLO=1 QHI=1
//zz:thorough N=1 K1=1 K2=1 K3=2 VLO=0 VHI=1 READS=1 paths=4000000 budget=3600s
func zzH_C12_snapshot_commit_revert(t *zzT) {
	sc := zzBuild(t, 1)
	k1, k2, k3 := t.Param("K1", 1), t.Param("K2", 1), t.Param("K3", 1)
	sc.zzOps(t, 0, k1)
	atSnap := sc.ref.clone()
	id := sc.root.Snapshot()
	sc.zzOps(t, k1, k2)
	t.Assert(sc.root.RestoreSnapshot(id) == nil, "RestoreSnapshot of a live snapshot id succeeds")
	sc.ref = atSnap
	sc.views[0] = sc.root.WithPrefix(sc.prefix[0])
	sc.zzOps(t, k1+k2, k3)
	diff := sc.root.Commit(sc.store)
	t.Assert(zzSameStore(sc.store, sc.ref), "Commit after a restored snapshot writes exactly the staged final state")
	sc.root.RevertDiff(sc.store, diff)
	same := len(sc.store.e) == len(sc.init.e)
	if same {
		for i := range sc.init.e {
			same = same && bytes.Equal(sc.store.e[i].k, sc.init.e[i].k) && bytes.Equal(sc.store.e[i].v, sc.init.e[i].v)
		}
	}
	t.Assert(same, "Commit after a restored snapshot, then RevertDiff, restores the initial store byte for byte")
	t.Reach("end")
}

// zzCommitScenario: K operations (Set/Del/Get) through two views, then Commit into the store.
func zzCommitScenario(t *zzT) (*zzScenario, []zzOpInfo, *Diff) {
	sc := zzBuild(t, 2)
	infos := sc.zzOps(t, 0, t.Param("K", 2))
	diff := sc.root.Commit(sc.store)
	return sc, infos, diff
}

// C12.c Commit: the store after Commit holds exactly the staged final state, and a database
// re-opened on it reads that state.
//
//zz:opt loop=16
//zz:quick N=2 K=2 VLO=1 READS=1
//zz:thorough N=2 K=3 VLO=1 READS=1
func zzH_C12_commit_reopen(t *zzT) {
	sc, _, _ := zzCommitScenario(t)
	t.Assert(zzSameStore(sc.store, sc.ref), "Commit writes exactly the staged final state")
	re := New(sc.store, []byte{})
	got := re.Iterate([]byte{}, -1, false)
	t.Assert(zzSameList(got, sc.ref.ordered(zzAll, -1, false), 0), "a database re-opened after Commit reads the staged final state")
	t.ObserveU64("n", uint64(len(got)))
	t.Reach("end")
}

// C05.a diff algebra: K operations (Set/Del/Get) through two prefix views on an arbitrary store;
// Commit writes exactly the staged state, and RevertDiff of the committed diff — after it went through
// Encode/Decode, as it is persisted per height — restores the initial store byte for byte.
// The required Reach markers make sure the one-block patterns created-then-deleted,
// overwritten-then-deleted and deleted-then-recreated are covered.
//
//zz:opt loop=16 require=created-then-deleted,overwritten-then-deleted,deleted-then-recreated
//zz:quick N=2 K=2 VLO=0 READS=1
//zz:thorough N=1 K=3 VHI=2 READS=1 paths=2000000 budget=3600s
func zzH_C05_commit_revert(t *zzT) {
	sc, infos, diff := zzCommitScenario(t)
	t.Assert(zzSameStore(sc.store, sc.ref), "Commit writes exactly the staged final state")

	enc := diff.Encode()
	dec := &Diff{}
	t.Assert(dec.Decode(enc) == nil, "the committed diff decodes")
	sc.root.RevertDiff(sc.store, dec)

	same := len(sc.store.e) == len(sc.init.e)
	if same {
		for i := range sc.init.e {
			same = same && bytes.Equal(sc.store.e[i].k, sc.init.e[i].k) && bytes.Equal(sc.store.e[i].v, sc.init.e[i].v)
		}
	}
	t.Assert(same, "Commit then RevertDiff restores the initial store byte for byte")

	if len(infos) >= 2 && bytes.Equal(infos[0].full, infos[1].full) {
		_, stored := sc.init.Get(infos[0].full)
		switch {
		case infos[0].kind == 0 && infos[1].kind == 1 && !stored:
			t.Reach("created-then-deleted")
		case infos[0].kind == 0 && infos[1].kind == 1 && stored:
			t.Reach("overwritten-then-deleted")
		case infos[0].kind == 1 && infos[1].kind == 0 && stored:
			t.Reach("deleted-then-recreated")
		}
	}
	t.Reach("end")
}

// C05.b: Diff.Encode / Decode / DecodeStrict round trip on an arbitrary small diff.
//
//zz:opt loop=24
//zz:quick NA=2 N=1 L=2
//zz:thorough NA=2 N=2 L=1
func zzH_C05_diff_roundtrip(t *zzT) {
	N, L := t.Param("N", 1), t.Param("L", 2)
	d := &Diff{Added: [][]byte{}, Updated: []*KV{}, Deleted: []*KV{}}
	for i, n := 0, t.Range("added.n", 0, t.Param("NA", 2)); i < n; i++ {
		d.Added = append(d.Added, zzVarBytes(t, t.Name("added", i), 0, L))
	}
	for i, n := 0, t.Range("updated.n", 0, N); i < n; i++ {
		d.Updated = append(d.Updated, &KV{Key: zzVarBytes(t, t.Name("updated.k", i), 0, L), Value: zzVarBytes(t, t.Name("updated.v", i), 0, L)})
	}
	for i, n := 0, t.Range("deleted.n", 0, N); i < n; i++ {
		d.Deleted = append(d.Deleted, &KV{Key: zzVarBytes(t, t.Name("deleted.k", i), 0, L), Value: zzVarBytes(t, t.Name("deleted.v", i), 0, L)})
	}
	enc := d.Encode()
	same := func(g *Diff) bool {
		if len(g.Added) != len(d.Added) || len(g.Updated) != len(d.Updated) || len(g.Deleted) != len(d.Deleted) {
			return false
		}
		ok := true
		for i := range d.Added {
			ok = ok && bytes.Equal(g.Added[i], d.Added[i])
		}
		for i := range d.Updated {
			ok = ok && bytes.Equal(g.Updated[i].Key, d.Updated[i].Key) && bytes.Equal(g.Updated[i].Value, d.Updated[i].Value)
		}
		for i := range d.Deleted {
			ok = ok && bytes.Equal(g.Deleted[i].Key, d.Deleted[i].Key) && bytes.Equal(g.Deleted[i].Value, d.Deleted[i].Value)
		}
		return ok
	}
	g := &Diff{}
	t.Assert(g.Decode(enc) == nil && same(g), "Decode(Encode(diff)) == diff")
	gs := &Diff{}
	t.Assert(gs.DecodeStrict(enc) == nil && same(gs), "DecodeStrict(Encode(diff)) == diff")
	t.Assert(bytes.Equal(g.Encode(), enc), "re-encoding the decoded diff yields the same bytes")
	t.ObserveBytes("enc", enc)
	t.Reach("end")
}

// C12.a "through any key-prefix view": sibling views derived from ONE parent whose prefix slice has
// spare capacity (a prefix built by a growing append, e.g. store prefix ‖ module prefix) must stay
// independent: deriving a second sibling must not change the key space of the first one. Views are
// derived on two levels (root -> mid -> a, b); the root prefix is handed in with capacity 8.
// (seed C12-5: WithPrefix built the derived prefix with append on the parent's slice.)
//
//zz:opt loop=16
func zzH_C12_sibling_views_independent(t *zzT) {
	store := &zzModelStore{}
	buf := make([]byte, 1, 8)
	buf[0] = t.U8("root.prefix")
	root := New(store, buf)
	mid := root.WithPrefix(t.Bytes("mid.prefix", 1))
	pa, pb := t.Bytes("a.prefix", 1), t.Bytes("b.prefix", 1)
	t.Assume(pa[0] != pb[0])
	a := mid.WithPrefix(pa)
	wantA := zzCat(zzCat(zzCat([]byte{}, buf[:1]), mid.prefix[1:2]), pa)
	b := mid.WithPrefix(pb)
	wantB := zzCat(zzCat(zzCat([]byte{}, buf[:1]), mid.prefix[1:2]), pb)
	t.Assert(bytes.Equal(a.prefix, wantA) && a.prefixLength == 3, "a sibling view keeps its own prefix after another sibling is derived")
	t.Assert(bytes.Equal(b.prefix, wantB) && b.prefixLength == 3, "the second sibling has parent prefix ‖ its own")
	k, v := t.Bytes("k", 1), t.Bytes("v", 1)
	a.Set(k, v)
	_, inB := b.Get(k)
	t.Assert(!inB, "a write through one sibling is invisible through the other")
	got, inRoot := root.Get(zzCat(zzCat(zzCat([]byte{}, mid.prefix[1:2]), pa), k))
	t.Assert(inRoot && bytes.Equal(got, v), "a write through a nested view is read through the root under parent ‖ view ‖ key")
	ga, inA := a.Get(k)
	t.Assert(inA && bytes.Equal(ga, v), "the writing view reads its own write")
	t.Reach("end")
}

// C12.b with several live snapshots: "restoring a snapshot returns exactly the staged state at the time of
// the snapshot" for any order of Snapshot / DeleteSnapshot / RestoreSnapshot, not only the strictly nested
// one the state machine uses. A history of S steps, each one of: a staged write, Snapshot, DeleteSnapshot of
// a live snapshot, RestoreSnapshot of a live snapshot. The reference keeps (id -> staged state) for the live
// snapshots. Ids handed out must be distinct from every live id; a restore yields the reference state of
// that id and a restored / deleted id cannot be restored again.
// (seed C12-7 took the id from len(snapshots): after releasing an older snapshot a new one overwrote a live one.)
//
//zz:opt loop=32 require=restored-non-nested
//zz:quick N=1 S=5 VLO=1 KLO=2 KHI=2 QLO=1 QHI=1
//zz:thorough N=1 S=6 VLO=1 KLO=2 KHI=2 QLO=1 QHI=1 budget=1800s
func zzH_C12_snapshot_history(t *zzT) {
	sc := zzBuild(t, 1)
	type live struct {
		id  int
		ref *zzRef
		seq int
	}
	var lives []live
	S := t.Param("S", 5)
	nonNested := false
	seq := 0
	for step := 0; step < S; step++ {
		kinds := 2
		if len(lives) > 0 {
			kinds = 4
		}
		switch t.Choice(t.Name("step", step), kinds) {
		case 0:
			sc.zzOp(t, step)
		case 1:
			id := sc.root.Snapshot()
			for _, l := range lives {
				t.Assert(l.id != id, "a new snapshot id differs from every live snapshot id")
			}
			seq++
			lives = append(lives, live{id, sc.ref.clone(), seq})
		case 2:
			w := t.Choice(t.Name("delete", step), len(lives))
			sc.root.DeleteSnapshot(lives[w].id)
			if w != len(lives)-1 {
				nonNested = true
			}
			lives = append(lives[:w], lives[w+1:]...)
		default:
			w := t.Choice(t.Name("restore", step), len(lives))
			l := lives[w]
			t.Assert(sc.root.RestoreSnapshot(l.id) == nil, "a live snapshot can be restored")
			sc.ref = l.ref.clone()
			got := sc.root.Iterate([]byte{}, -1, false)
			t.Assert(zzSameList(got, sc.ref.ordered(zzAll, -1, false), 0), "restoring a snapshot returns exactly the staged state at the time of that snapshot")
			t.Assert(sc.root.RestoreSnapshot(l.id) != nil, "a restored snapshot id is gone")
			lives = append(lives[:w], lives[w+1:]...)
			if nonNested {
				t.Reach("restored-non-nested")
			}
		}
	}
	t.Reach("end")
}
