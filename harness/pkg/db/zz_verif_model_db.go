//go:build verif

package db

import (
	"bytes"
	"sync"
)

// Symbolic model of the pebble-backed DB (DESIGN §3 "pebble"). Functions named zzstub_<Type>_<Method>
// replace the method of the same package under the symbolic engine only; natively the real pebble
// code runs. The model is a sorted association list; Batch = op list applied atomically by Write;
// Reader = copy at creation. Every durable operation is counted for the C13 monitor.

type zzmKV struct{ k, v []byte }

type zzmState struct {
	kvs    []zzmKV
	writes int // DB.Write(batch) calls
	direct int // direct DB.Set / DB.Del calls
	batch  *Batch // the batch of the last Write
}

type zzmOp struct {
	del  bool
	k, v []byte
}

type zzmBatch struct{ ops []zzmOp }

var (
	zzmDBs     = map[*DB]*zzmState{}
	zzmBatches = map[*Batch]*zzmBatch{}
	zzmReaders = map[*Reader]*zzmState{}
)

func zzmOf(d *DB) *zzmState {
	s, ok := zzmDBs[d]
	if !ok {
		s = &zzmState{}
		zzmDBs[d] = s
	}
	return s
}

// ZZUnordered switches the model to an insertion-ordered list with equality-only lookups; entries are
// sorted lazily, and only those a scan selects. For harnesses whose keys are symbolic hash values
// (Merkle nodes): keeping such keys sorted would fork on the order of every pair of hashes although
// nobody ever iterates over them. Set by the harness before it creates the database (globals are fresh
// on every path).
var ZZUnordered bool

func (s *zzmState) find(key []byte) (int, bool) {
	if ZZUnordered {
		for i, kv := range s.kvs {
			if bytes.Equal(kv.k, key) {
				return i, true
			}
		}
		return len(s.kvs), false
	}
	for i, kv := range s.kvs {
		c := bytes.Compare(kv.k, key)
		if c == 0 {
			return i, true
		}
		if c > 0 {
			return i, false
		}
	}
	return len(s.kvs), false
}

func (s *zzmState) set(key, value []byte) {
	i, ok := s.find(key)
	k := append([]byte{}, key...)
	v := append([]byte{}, value...)
	if ok {
		s.kvs[i].v = v
		return
	}
	s.kvs = append(s.kvs, zzmKV{})
	copy(s.kvs[i+1:], s.kvs[i:])
	s.kvs[i] = zzmKV{k, v}
}

func (s *zzmState) del(key []byte) {
	i, ok := s.find(key)
	if ok {
		s.kvs = append(s.kvs[:i], s.kvs[i+1:]...)
	}
}

func (s *zzmState) get(key []byte) ([]byte, bool) {
	i, ok := s.find(key)
	if !ok {
		return nil, false
	}
	return append([]byte{}, s.kvs[i].v...), true
}

func (s *zzmState) scan(match func(k []byte) bool, limit int, reverse bool) []KeyValue {
	if ZZUnordered {
		// select, then sort the selection (selection sort; keys are pairwise distinct)
		var sel []zzmKV
		for _, kv := range s.kvs {
			if match(kv.k) {
				sel = append(sel, kv)
			}
		}
		out := []KeyValue{}
		for len(sel) > 0 && (limit < 0 || len(out) < limit) {
			b := 0
			for i := 1; i < len(sel); i++ {
				c := bytes.Compare(sel[i].k, sel[b].k)
				if (!reverse && c < 0) || (reverse && c > 0) {
					b = i
				}
			}
			out = append(out, &keyValue{key: append([]byte{}, sel[b].k...), value: append([]byte{}, sel[b].v...)})
			sel[b] = sel[len(sel)-1]
			sel = sel[:len(sel)-1]
		}
		return out
	}
	out := []KeyValue{}
	n := len(s.kvs)
	for i := 0; i < n; i++ {
		kv := s.kvs[i]
		if reverse {
			kv = s.kvs[n-1-i]
		}
		if limit >= 0 && len(out) >= limit {
			break
		}
		if match(kv.k) {
			out = append(out, &keyValue{key: append([]byte{}, kv.k...), value: append([]byte{}, kv.v...)})
		}
	}
	return out
}

func (s *zzmState) iterate(prefix []byte, limit int, reverse bool) []KeyValue {
	return s.scan(func(k []byte) bool { return bytes.HasPrefix(k, prefix) }, limit, reverse)
}

// pebble semantics used by iterateRange: keys k with start <= k, and k <= end (SeekLT(upper bound of
// end) in reverse includes keys extending end — the model follows the documented bounds [start, end]).
func (s *zzmState) iterateRange(start, end []byte, limit int, reverse bool) []KeyValue {
	return s.scan(func(k []byte) bool { return bytes.Compare(k, start) >= 0 && bytes.Compare(k, end) <= 0 }, limit, reverse)
}

func (s *zzmState) clone() *zzmState {
	c := &zzmState{}
	for _, kv := range s.kvs {
		c.kvs = append(c.kvs, zzmKV{append([]byte{}, kv.k...), append([]byte{}, kv.v...)})
	}
	return c
}

// ---- stubs ----

func zzstub_NewInMemoryDB() (*DB, error) {
	d := &DB{}
	zzmDBs[d] = &zzmState{}
	return d, nil
}

func zzstub_DB_Close(d *DB) error                         { return nil }

// zzmMu: the database is a synchronised shared object (pebble locks internally). Every model operation
// takes this mutex, which makes each database access a scheduling point of the cooperative scheduler
// (a reader can run between a writer's in-memory update and its durable write) and orders the accesses
// for the race monitor.
var zzmMu sync.Mutex

func zzstub_DB_Get(d *DB, key []byte) ([]byte, bool) {
	zzmMu.Lock()
	defer zzmMu.Unlock()
	return zzmOf(d).get(key)
}
func zzstub_DB_Exist(d *DB, key []byte) bool {
	zzmMu.Lock()
	defer zzmMu.Unlock()
	_, ok := zzmOf(d).get(key)
	return ok
}
func zzstub_DB_Set(d *DB, key, value []byte) {
	zzmMu.Lock()
	defer zzmMu.Unlock()
	s := zzmOf(d)
	s.direct++
	s.set(key, value)
}
func zzstub_DB_Del(d *DB, key []byte) {
	zzmMu.Lock()
	defer zzmMu.Unlock()
	s := zzmOf(d)
	s.direct++
	s.del(key)
}
func zzstub_DB_Iterate(d *DB, prefix []byte, limit int, reverse bool) []KeyValue {
	zzmMu.Lock()
	defer zzmMu.Unlock()
	return zzmOf(d).iterate(prefix, limit, reverse)
}
func zzstub_DB_IterateRange(d *DB, start, end []byte, limit int, reverse bool) []KeyValue {
	zzmMu.Lock()
	defer zzmMu.Unlock()
	return zzmOf(d).iterateRange(start, end, limit, reverse)
}
func zzstub_DB_IterateKey(d *DB, prefix []byte, limit int, reverse bool) [][]byte {
	zzmMu.Lock()
	defer zzmMu.Unlock()
	out := [][]byte{}
	for _, kv := range zzmOf(d).iterate(prefix, limit, reverse) {
		out = append(out, kv.Key())
	}
	return out
}
func zzstub_DB_NewBatch(d *DB) *Batch {
	b := &Batch{mutex: new(sync.Mutex)}
	zzmBatches[b] = &zzmBatch{}
	return b
}
func zzstub_DB_NewReader(d *DB) *Reader {
	r := &Reader{}
	zzmReaders[r] = zzmOf(d).clone()
	return r
}
func zzstub_DB_Write(d *DB, b *Batch) {
	zzmMu.Lock()
	defer zzmMu.Unlock()
	s := zzmOf(d)
	s.writes++
	s.batch = b
	for _, op := range zzmBatches[b].ops {
		if op.del {
			s.del(op.k)
		} else {
			s.set(op.k, op.v)
		}
	}
}
func zzstub_DB_DropAll(d *DB) { zzmOf(d).kvs = nil }

func zzstub_Batch_Set(b *Batch, key, value []byte) {
	mb := zzmBatches[b]
	mb.ops = append(mb.ops, zzmOp{k: append([]byte{}, key...), v: append([]byte{}, value...)})
}
func zzstub_Batch_Del(b *Batch, key []byte) {
	mb := zzmBatches[b]
	mb.ops = append(mb.ops, zzmOp{del: true, k: append([]byte{}, key...)})
}

func zzstub_Reader_Get(r *Reader, key []byte) ([]byte, bool) { return zzmReaders[r].get(key) }
func zzstub_Reader_Exist(r *Reader, key []byte) bool         { _, ok := zzmReaders[r].get(key); return ok }
func zzstub_Reader_Iterate(r *Reader, prefix []byte, limit int, reverse bool) []KeyValue {
	return zzmReaders[r].iterate(prefix, limit, reverse)
}
func zzstub_Reader_IterateRange(r *Reader, start, end []byte, limit int, reverse bool) []KeyValue {
	return zzmReaders[r].iterateRange(start, end, limit, reverse)
}
func zzstub_Reader_IterateKey(r *Reader, prefix []byte, limit int, reverse bool) [][]byte {
	out := [][]byte{}
	for _, kv := range zzmReaders[r].iterate(prefix, limit, reverse) {
		out = append(out, kv.Key())
	}
	return out
}
func zzstub_Reader_Close(r *Reader) error { return nil }

// ---- monitor (C13): durable operations performed on d since ZZMonitorReset ----

// ZZMonitor returns (number of Write(batch) calls, number of direct Set/Del calls, ops in the last
// written batch). Natively the counters come from the instrumented overlay copy of db.go when
// present, else -1.
func ZZMonitor(d *DB) (writes, direct, batchOps int) {
	s, ok := zzmDBs[d]
	if !ok {
		return zzNativeWrites(d), zzNativeDirect(d), -1
	}
	n := 0
	if s.batch != nil {
		n = len(zzmBatches[s.batch].ops)
	}
	return s.writes, s.direct, n
}

func ZZMonitorReset(d *DB) {
	if s, ok := zzmDBs[d]; ok {
		s.writes, s.direct, s.batch = 0, 0, nil
		return
	}
	zzNativeReset(d)
}

// ZZBatchOf reports whether b is the batch of the last Write on d (symbolic only; true natively).
func ZZLastWriteWas(d *DB, b *Batch) bool {
	if s, ok := zzmDBs[d]; ok {
		return s.batch == b
	}
	return true
}

// ZZDump returns the full contents (for equality checks of pre/post states).
func ZZDump(d *DB) []KeyValue {
	return d.IterateRange([]byte{}, bytes.Repeat([]byte{0xff}, 48), -1, false)
}
