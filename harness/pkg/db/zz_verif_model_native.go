//go:build verif

package db

// Native counters for the C13 monitor. The replay driver may overlay db.go with an instrumented
// copy that calls zzCount; without it the counters stay at -1 ("unknown").
var zzNativeCounters = map[*DB]*[2]int{}
var zzNativeInstrumented = false

func zzCount(d *DB, which int) {
	c, ok := zzNativeCounters[d]
	if !ok {
		c = &[2]int{}
		zzNativeCounters[d] = c
	}
	c[which]++
}

func zzNativeWrites(d *DB) int {
	if !zzNativeInstrumented {
		return -1
	}
	if c, ok := zzNativeCounters[d]; ok {
		return c[0]
	}
	return 0
}

func zzNativeDirect(d *DB) int {
	if !zzNativeInstrumented {
		return -1
	}
	if c, ok := zzNativeCounters[d]; ok {
		return c[1]
	}
	return 0
}

func zzNativeReset(d *DB) { delete(zzNativeCounters, d) }
