//go:build verif

package db

import (
	"bytes"

	"github.com/cockroachdb/pebble"
)

// ---------------------------------------------------------------------------------------------
// C12.d — the database's own scans (iterateRange / iteratePrefix / iterateKeyPrefix, upperBound).
//
// These functions are written against the concrete *pebble.Iterator. Under the engine the iterator's
// methods are redirected by //zz:stub to the small sorted-list model below (pebble semantics:
// LowerBound inclusive, UpperBound exclusive, nil = unbounded; SeekGE = first key ≥ k, SeekLT = last
// key < k) and the harness calls iterateRange / iteratePrefix / iterateKeyPrefix directly, with the
// iterator options DB.Iterate / DB.IterateKey / DB.IterateRange would pass (the exported DB and Reader
// methods themselves are replaced engine-wide by the convention stubs of zz_verif_model_db.go, so
// they cannot be the entry point here). Natively the stubs do not exist: the very same harness opens
// a real in-memory pebble database and goes through DB.* and Reader.*, so every counterexample and
// every witness is re-executed on real pebble (and the Observe values compare model and pebble).
// ---------------------------------------------------------------------------------------------

type zzKV struct{ k, v []byte }

type zzIterModel struct {
	e            []zzKV // ascending, duplicate free
	lower, upper []byte
	pos          int
	closed       int
}

var zzIM *zzIterModel

func (m *zzIterModel) valid() bool {
	if m.pos < 0 || m.pos >= len(m.e) {
		return false
	}
	k := m.e[m.pos].k
	if m.lower != nil && bytes.Compare(k, m.lower) < 0 {
		return false
	}
	if m.upper != nil && bytes.Compare(k, m.upper) >= 0 {
		return false
	}
	return true
}

// zzModelNewIter: what pebble's NewIter(o) means for the model.
func zzModelNewIter(o *pebble.IterOptions) *pebble.Iterator {
	zzIM.lower, zzIM.upper, zzIM.pos = nil, nil, -1
	if o != nil {
		zzIM.lower, zzIM.upper = o.LowerBound, o.UpperBound
	}
	return nil // the model is package state; the iterator value itself is never dereferenced
}

func zzStubSeekGE(it *pebble.Iterator, key []byte) bool {
	m := zzIM
	if m.lower != nil && bytes.Compare(key, m.lower) < 0 {
		key = m.lower
	}
	m.pos = len(m.e)
	for i := range m.e {
		if bytes.Compare(m.e[i].k, key) >= 0 {
			m.pos = i
			break
		}
	}
	return m.valid()
}

func zzStubSeekLT(it *pebble.Iterator, key []byte) bool {
	m := zzIM
	if m.upper != nil && bytes.Compare(key, m.upper) > 0 {
		key = m.upper
	}
	m.pos = -1
	for i := range m.e {
		if bytes.Compare(m.e[i].k, key) < 0 {
			m.pos = i
		}
	}
	return m.valid()
}

func zzStubFirst(it *pebble.Iterator) bool {
	if zzIM.lower != nil {
		return zzStubSeekGE(it, zzIM.lower)
	}
	zzIM.pos = 0
	return zzIM.valid()
}

func zzStubLast(it *pebble.Iterator) bool {
	if zzIM.upper != nil {
		return zzStubSeekLT(it, zzIM.upper)
	}
	zzIM.pos = len(zzIM.e) - 1
	return zzIM.valid()
}

func zzStubNext(it *pebble.Iterator) bool  { zzIM.pos++; return zzIM.valid() }
func zzStubPrev(it *pebble.Iterator) bool  { zzIM.pos--; return zzIM.valid() }
func zzStubValid(it *pebble.Iterator) bool { return zzIM.valid() }
func zzStubKey(it *pebble.Iterator) []byte { return zzIM.e[zzIM.pos].k }
func zzStubValue(it *pebble.Iterator) []byte {
	return zzIM.e[zzIM.pos].v
}
func zzStubClose(it *pebble.Iterator) error { zzIM.closed++; return nil }

func zzVarBytes(t *zzT, name string, lo, hi int) []byte {
	n := lo
	if hi > lo {
		n = t.Range(name+".len", lo, hi)
	}
	return t.Bytes(name, n)
}

// zzScans: the three scans, on the model (engine) or on real pebble through DB and Reader (native).
type zzScans struct {
	t      *zzT
	real   *DB
	reader *Reader
}

func (z *zzScans) iterateRange(start, end []byte, limit int, reverse bool) []KeyValue {
	if z.t.Symbolic() {
		return iterateRange(zzModelNewIter(nil), start, end, limit, reverse) // = DB.IterateRange / Reader.IterateRange
	}
	got := z.real.IterateRange(start, end, limit, reverse)
	z.t.Assert(zzSameKVs2(got, z.reader.IterateRange(start, end, limit, reverse)), "Reader.IterateRange agrees with DB.IterateRange")
	return got
}

func (z *zzScans) iterate(prefix []byte, limit int, reverse bool) []KeyValue {
	if z.t.Symbolic() { // = DB.Iterate / Reader.Iterate
		return iteratePrefix(zzModelNewIter(&pebble.IterOptions{LowerBound: prefix, UpperBound: upperBound(prefix)}), prefix, limit, reverse)
	}
	got := z.real.Iterate(prefix, limit, reverse)
	z.t.Assert(zzSameKVs2(got, z.reader.Iterate(prefix, limit, reverse)), "Reader.Iterate agrees with DB.Iterate")
	return got
}

func (z *zzScans) iterateKey(prefix []byte, limit int, reverse bool) [][]byte {
	if z.t.Symbolic() { // = DB.IterateKey / Reader.IterateKey
		return iterateKeyPrefix(zzModelNewIter(&pebble.IterOptions{LowerBound: prefix, UpperBound: upperBound(prefix)}), prefix, limit, reverse)
	}
	return z.real.IterateKey(prefix, limit, reverse)
}

func zzSameKVs2(a, b []KeyValue) bool {
	if len(a) != len(b) {
		return false
	}
	for i := range a {
		if !bytes.Equal(a[i].Key(), b[i].Key()) || !bytes.Equal(a[i].Value(), b[i].Value()) {
			return false
		}
	}
	return true
}

// zzOpen: n ≤ N entries with strictly ascending symbolic keys of 1–2 bytes and one-byte values, held
// by the iterator model (engine) or written to a real in-memory pebble database (native).
func zzOpen(t *zzT) ([]zzKV, *zzScans) {
	var kvs []zzKV
	n := t.Range("store.n", 0, t.Param("N", 2))
	for i := 0; i < n; i++ {
		k := zzVarBytes(t, t.Name("store.k", i), 1, 2)
		if i > 0 {
			t.Assume(bytes.Compare(kvs[i-1].k, k) < 0)
		}
		kvs = append(kvs, zzKV{k, t.Bytes(t.Name("store.v", i), 1)})
	}
	if t.Symbolic() {
		zzIM = &zzIterModel{e: kvs}
		return kvs, &zzScans{t: t}
	}
	d, err := NewInMemoryDB()
	if err != nil {
		panic(err)
	}
	for _, kv := range kvs {
		d.Set(kv.k, kv.v)
	}
	return kvs, &zzScans{t: t, real: d, reader: d.NewReader()}
}

// zzExpect: the first `limit` (all if -1) entries satisfying in, ascending / descending.
func zzExpect(kvs []zzKV, in func(k []byte) bool, limit int, reverse bool) []zzKV {
	var out []zzKV
	for j := range kvs {
		i := j
		if reverse {
			i = len(kvs) - 1 - j
		}
		if limit != -1 && len(out) >= limit {
			break
		}
		if in(kvs[i].k) {
			out = append(out, kvs[i])
		}
	}
	return out
}

func zzSameKVs(got []KeyValue, want []zzKV) bool {
	if len(got) != len(want) {
		return false
	}
	for i := range got {
		if !bytes.Equal(got[i].Key(), want[i].k) || !bytes.Equal(got[i].Value(), want[i].v) {
			return false
		}
	}
	return true
}

func zzDigest(got []KeyValue) []byte {
	var d []byte
	for _, kv := range got {
		d = append(d, byte(len(kv.Key())))
		d = append(d, kv.Key()...)
		d = append(d, kv.Value()...)
	}
	return d
}

func zzLimit(t *zzT) int {
	limit := t.Int("q.limit")
	t.Assume(limit >= -1 && limit <= 2)
	return limit
}

// C12.d IterateRange(start,end,limit,reverse) = the first `limit` (all if -1) entries with
// start ≤ key ≤ end, ascending (descending if reverse).
// Labels: per direction soundness (only keys inside the bounds) and the whole result; limit 0 apart.
//
//zz:opt loop=16
//zz:quick N=2 L=2
//zz:thorough N=3 L=2
//zz:stub (*github.com/cockroachdb/pebble.Iterator).SeekGE zzStubSeekGE
//zz:stub (*github.com/cockroachdb/pebble.Iterator).SeekLT zzStubSeekLT
//zz:stub (*github.com/cockroachdb/pebble.Iterator).First zzStubFirst
//zz:stub (*github.com/cockroachdb/pebble.Iterator).Last zzStubLast
//zz:stub (*github.com/cockroachdb/pebble.Iterator).Next zzStubNext
//zz:stub (*github.com/cockroachdb/pebble.Iterator).Prev zzStubPrev
//zz:stub (*github.com/cockroachdb/pebble.Iterator).Valid zzStubValid
//zz:stub (*github.com/cockroachdb/pebble.Iterator).Key zzStubKey
//zz:stub (*github.com/cockroachdb/pebble.Iterator).Value zzStubValue
//zz:stub (*github.com/cockroachdb/pebble.Iterator).Close zzStubClose
func zzH_C12_db_iterate_range(t *zzT) {
	kvs, d := zzOpen(t)
	L := t.Param("L", 2)
	start := zzVarBytes(t, "q.start", 0, L)
	end := zzVarBytes(t, "q.end", 0, L)
	limit := zzLimit(t)
	reverse := t.Bool("q.reverse")
	in := func(k []byte) bool { return bytes.Compare(k, start) >= 0 && bytes.Compare(k, end) <= 0 }

	got := d.iterateRange(start, end, limit, reverse)

	t.ObserveBytes("result", zzDigest(got))
	if limit == 0 {
		t.Assert(len(got) == 0, "IterateRange with limit 0 returns nothing")
		t.Reach("limit0")
		return
	}
	sound := true
	for i := range got {
		sound = sound && in(got[i].Key())
	}
	want := zzExpect(kvs, in, limit, reverse)
	if !reverse {
		t.Assert(sound, "IterateRange forward returns only keys inside [start,end]")
		t.Assert(zzSameKVs(got, want), "IterateRange forward = the first limit entries of [start,end], ascending")
	} else {
		t.Assert(sound, "IterateRange reverse returns only keys inside [start,end]")
		t.Assert(zzSameKVs(got, want), "IterateRange reverse = the last limit entries of [start,end], descending")
	}
	t.Reach("end")
}

// C12.d Iterate(prefix,limit,reverse) / IterateKey = the first `limit` entries (keys) carrying the
// prefix, in order. The bounds handed to pebble come from the real upperBound.
//
//zz:opt loop=16
//zz:quick N=2 L=2
//zz:thorough N=3 L=2
//zz:stub (*github.com/cockroachdb/pebble.Iterator).SeekGE zzStubSeekGE
//zz:stub (*github.com/cockroachdb/pebble.Iterator).SeekLT zzStubSeekLT
//zz:stub (*github.com/cockroachdb/pebble.Iterator).First zzStubFirst
//zz:stub (*github.com/cockroachdb/pebble.Iterator).Last zzStubLast
//zz:stub (*github.com/cockroachdb/pebble.Iterator).Next zzStubNext
//zz:stub (*github.com/cockroachdb/pebble.Iterator).Prev zzStubPrev
//zz:stub (*github.com/cockroachdb/pebble.Iterator).Valid zzStubValid
//zz:stub (*github.com/cockroachdb/pebble.Iterator).Key zzStubKey
//zz:stub (*github.com/cockroachdb/pebble.Iterator).Value zzStubValue
//zz:stub (*github.com/cockroachdb/pebble.Iterator).Close zzStubClose
func zzH_C12_db_iterate_prefix(t *zzT) {
	kvs, d := zzOpen(t)
	prefix := zzVarBytes(t, "q.prefix", 0, t.Param("L", 2))
	limit := zzLimit(t)
	reverse := t.Bool("q.reverse")
	in := func(k []byte) bool { return bytes.HasPrefix(k, prefix) }

	got := d.iterate(prefix, limit, reverse)
	keys := d.iterateKey(prefix, limit, reverse)

	t.ObserveBytes("result", zzDigest(got))
	sameKeys := len(keys) == len(got)
	if sameKeys {
		for i := range keys {
			sameKeys = sameKeys && bytes.Equal(keys[i], got[i].Key())
		}
	}
	t.Assert(sameKeys, "IterateKey returns the keys of Iterate")
	if limit == 0 {
		t.Assert(len(got) == 0, "Iterate with limit 0 returns nothing")
		t.Reach("limit0")
		return
	}
	t.Assert(zzSameKVs(got, zzExpect(kvs, in, limit, reverse)), "Iterate = the first limit entries carrying the prefix, in order")
	t.Reach("end")
}

// C12.d upperBound(p) is the least strict upper bound of all keys with prefix p: for every key k,
// k has prefix p ⇔ p ≤ k < upperBound(p); it is nil (no bound) iff p consists of 0xFF bytes only.
//
//zz:opt loop=16
//zz:quick L=3
//zz:thorough L=4
func zzH_C12_upper_bound(t *zzT) {
	L := t.Param("L", 3)
	p := zzVarBytes(t, "p", 0, L)
	k := zzVarBytes(t, "k", 0, L+1)
	ub := upperBound(p)
	allFF := true
	for _, b := range p {
		allFF = t.And(allFF, b == 0xFF)
	}
	t.Assert((ub == nil) == allFF, "upperBound is nil iff the prefix is all 0xFF")
	geP := bytes.Compare(k, p) >= 0
	if ub == nil {
		t.Assert(bytes.HasPrefix(k, p) == geP, "without upper bound every key ≥ p carries the prefix")
	} else {
		t.Assert(bytes.HasPrefix(k, p) == t.And(geP, bytes.Compare(k, ub) < 0), "k has prefix p ⇔ p ≤ k < upperBound(p)")
	}
	t.ObserveBytes("ub", ub)
	t.Reach("end")
}
