//go:build verif

package batchdb

import (
	"bytes"

	"github.com/LiskHQ/lisk-engine/pkg/db"
)

// C12.e batchdb prefixing. batchdb.Database is written against the concrete *db.DB / *db.Batch:
// under the engine DB.Get and Batch.Set/Del are redirected (//zz:stub) to a small association list
// with batch semantics (queued, applied on write); natively the same harness uses a real in-memory
// pebble DB and batch.

type zzEntry struct {
	k, v []byte
	del  bool
}

var (
	zzStore   []zzEntry
	zzPending []zzEntry
)

func zzCopy(b []byte) []byte {
	c := make([]byte, len(b))
	copy(c, b)
	return c
}

func zzFind(k []byte) int {
	for i := range zzStore {
		if bytes.Equal(zzStore[i].k, k) {
			return i
		}
	}
	return -1
}

func zzStubGet(d *db.DB, key []byte) ([]byte, bool) {
	if i := zzFind(key); i >= 0 {
		return zzCopy(zzStore[i].v), true
	}
	return nil, false
}

func zzStubBatchSet(b *db.Batch, key, value []byte) {
	zzPending = append(zzPending, zzEntry{k: zzCopy(key), v: zzCopy(value)})
}

func zzStubBatchDel(b *db.Batch, key []byte) {
	zzPending = append(zzPending, zzEntry{k: zzCopy(key), del: true})
}

func zzApply() {
	for _, op := range zzPending {
		i := zzFind(op.k)
		switch {
		case op.del && i >= 0:
			zzStore[i] = zzStore[len(zzStore)-1]
			zzStore = zzStore[:len(zzStore)-1]
		case !op.del && i >= 0:
			zzStore[i].v = op.v
		case !op.del:
			zzStore = append(zzStore, zzEntry{k: op.k, v: op.v})
		}
	}
	zzPending = nil
}

func zzVarBytes(t *zzT, name string, lo, hi int) []byte {
	n := lo
	if hi > lo {
		n = t.Range(name+".len", lo, hi)
	}
	return t.Bytes(name, n)
}

func zzCat(a, b []byte) []byte {
	c := make([]byte, 0, len(a)+len(b))
	c = append(c, a...)
	return append(c, b...)
}

// Get(k) reads prefix‖k of the underlying database (not the batch); Set/Del stage prefix‖k in the
// batch, so that after the batch is written the database holds exactly the previous content with
// the writes applied under the prefix — in call order, also for equal keys.
//
//zz:opt loop=12
//zz:quick P=1 K=1
//zz:thorough P=2 K=2
//zz:stub (*~/pkg/db.DB).Get zzStubGet
//zz:stub (*~/pkg/db.Batch).Set zzStubBatchSet
//zz:stub (*~/pkg/db.Batch).Del zzStubBatchDel
func zzH_C12_batchdb_prefix(t *zzT) {
	P, K := t.Param("P", 1), t.Param("K", 1)
	prefix := zzVarBytes(t, "prefix", 0, P)
	// one stored entry with an arbitrary full key, one under the prefix
	k0 := zzVarBytes(t, "store.k0", 1, P+K)
	k1 := zzCat(prefix, zzVarBytes(t, "store.k1", 0, K))
	t.Assume(len(k1) > 0 && !bytes.Equal(k0, k1))
	v0, v1 := t.Bytes("store.v0", 1), t.Bytes("store.v1", 1)

	var real *db.DB
	var batch *db.Batch
	if t.Symbolic() {
		zzStore = []zzEntry{{k: k0, v: v0}, {k: k1, v: v1}}
		zzPending = nil
		real = &db.DB{}
	} else {
		var err error
		if real, err = db.NewInMemoryDB(); err != nil {
			panic(err)
		}
		real.Set(k0, v0)
		real.Set(k1, v1)
		batch = real.NewBatch()
	}
	lookup := func(k []byte) ([]byte, bool) {
		if t.Symbolic() {
			return zzStubGet(nil, k)
		}
		return real.Get(k)
	}
	var bd *Database
	if len(prefix) == 0 && t.Bool("plain") {
		bd = New(real, batch)
	} else {
		bd = NewWithPrefix(real, batch, prefix)
	}

	key := zzVarBytes(t, "q.k", 0, K)
	wantV, wantOK := lookup(zzCat(prefix, key))
	got, ok := bd.Get(key)
	t.Assert(ok == wantOK && bytes.Equal(got, wantV), "Get(k) reads prefix‖k of the database")

	setK, delK := zzVarBytes(t, "set.k", 0, K), zzVarBytes(t, "del.k", 0, K)
	setV := t.Bytes("set.v", 1)
	t.Assume(len(prefix)+len(setK) > 0 && len(prefix)+len(delK) > 0)
	bd.Set(setK, setV)
	got2, ok2 := bd.Get(key)
	t.Assert(ok2 == wantOK && bytes.Equal(got2, wantV), "staged writes are not visible to Get before the batch is written")
	bd.Del(delK)
	if t.Symbolic() {
		zzApply()
	} else {
		real.Write(batch)
	}

	fs, fd := zzCat(prefix, setK), zzCat(prefix, delK)
	gs, oks := lookup(fs)
	if bytes.Equal(fs, fd) {
		t.Assert(!oks, "Set then Del of one key leaves it deleted")
	} else {
		t.Assert(oks && bytes.Equal(gs, setV), "Set(k,v) ends up under prefix‖k")
	}
	_, okd := lookup(fd)
	t.Assert(!okd, "Del(k) removes prefix‖k")
	// the two stored entries are untouched unless addressed
	for _, e := range []zzEntry{{k: k0, v: v0}, {k: k1, v: v1}} {
		if !bytes.Equal(e.k, fs) && !bytes.Equal(e.k, fd) {
			g, ok := lookup(e.k)
			t.Assert(ok && bytes.Equal(g, e.v), "keys not addressed by prefix‖k are untouched")
		}
	}
	t.Reach("end")
}
