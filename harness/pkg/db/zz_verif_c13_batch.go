//go:build verif

package db

import (
	"errors"
	"sync"

	"github.com/cockroachdb/pebble"
)

// C13 premise: a Batch only BUFFERS. The crash atomicity of a block step rests on "everything the step
// writes goes into one Batch, and nothing is durable before DB.Write(batch)". The block-level harnesses
// replace Batch by the database model, so this is the one place where the REAL (*Batch).Set / Del run
// (//zz:stub … - = real body), with pebble's own batch behind them as a nondeterministic environment:
// any length (Len), Commit counted as a durable operation. Asserted: whatever the batch already holds
// (also ≥ 1 MiB), Set and Del perform no durable operation. Natively a real in-memory database is used:
// a 1 MiB value is buffered first when the counterexample says so, and the key must not be readable
// before Write.
//
//zz:opt loop=64 require=end
//zz:stub (*~/pkg/db.Batch).Set -
//zz:stub (*~/pkg/db.Batch).Del -
//zz:stub (*github.com/cockroachdb/pebble.Batch).Set zz13PebbleSet
//zz:stub (*github.com/cockroachdb/pebble.Batch).Delete zz13PebbleDelete
//zz:stub (*github.com/cockroachdb/pebble.Batch).Len zz13PebbleLen
//zz:stub (*github.com/cockroachdb/pebble.Batch).Commit zz13PebbleCommit
//zz:stub (*github.com/cockroachdb/pebble.Batch).Reset zz13PebbleReset
//zz:stub (*github.com/cockroachdb/pebble.Batch).Count zz13PebbleCount
func zzH_C13_batch_buffers_only(t *zzT) {
	zz13T, zz13Durable, zz13Ops = t, 0, 0
	big := t.Bool("the batch already holds at least 1 MiB")
	key := []byte{0x7e, t.U8("key")}
	del := t.Bool("operation is Del")
	if t.Symbolic() {
		zz13Len = t.Int("pebble batch length")
		t.Assume(zz13Len >= 0 && (zz13Len >= 1<<20) == big)
		b := &Batch{inner: &pebble.Batch{}, mutex: new(sync.Mutex)}
		if del {
			b.Del(key)
		} else {
			b.Set(key, []byte{t.U8("value")})
		}
		t.Assert(zz13Durable == 0, "Batch.Set / Batch.Del only buffer: nothing is durable before DB.Write")
		t.Assert(zz13Ops == 1, "the operation is handed to the underlying batch exactly once")
		t.Reach("end")
		return
	}
	d, err := NewInMemoryDB()
	if err != nil {
		t.Fail("db")
	}
	d.Set(key, []byte{0x55}) // so that a premature Del is observable as well
	b := d.NewBatch()
	if big {
		b.Set([]byte{0x7d}, make([]byte, 1<<20))
	}
	if del {
		b.Del(key)
	} else {
		b.Set(key, []byte{t.U8("value")})
	}
	v, ok := d.Get(key)
	_, filler := d.Get([]byte{0x7d})
	t.Assert(ok && len(v) == 1 && v[0] == 0x55 && !filler, "Batch.Set / Batch.Del only buffer: nothing is durable before DB.Write")
	t.Reach("end")
}

var (
	zz13T       *zzT
	zz13Len     int
	zz13Durable int
	zz13Ops     int
)

var zz13Err = errors.New("zz13")

func zz13PebbleSet(b *pebble.Batch, key, value []byte, o *pebble.WriteOptions) error { zz13Ops++; return nil }
func zz13PebbleDelete(b *pebble.Batch, key []byte, o *pebble.WriteOptions) error     { zz13Ops++; return nil }
func zz13PebbleLen(b *pebble.Batch) int                                               { return zz13Len }
func zz13PebbleCount(b *pebble.Batch) uint32                                          { return uint32(zz13Ops) }
func zz13PebbleCommit(b *pebble.Batch, o *pebble.WriteOptions) error                  { zz13Durable++; return nil }
func zz13PebbleReset(b *pebble.Batch)                                                 { zz13Ops = 0 }
