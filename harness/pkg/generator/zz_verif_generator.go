//go:build verif

package generator

import (
	"errors"
	"reflect"
	"unsafe"

	"github.com/LiskHQ/lisk-engine/pkg/blockchain"
	"github.com/LiskHQ/lisk-engine/pkg/codec"
	"github.com/LiskHQ/lisk-engine/pkg/consensus/contradiction"
	"github.com/LiskHQ/lisk-engine/pkg/consensus/liskbft"
	"github.com/LiskHQ/lisk-engine/pkg/db"
	"github.com/LiskHQ/lisk-engine/pkg/db/diffdb"
	"github.com/LiskHQ/lisk-engine/pkg/labi"
)

// C15 — block generation (DESIGN C15.a, C15.b).

// ---- fake application (labi.ABI) ---------------------------------------------------------------

var zzErrABI = errors.New("zz: abi failure")

// zzFakeABI answers VerifyTransaction / ExecuteTransaction of transaction i (ID = {i}) with the
// symbolic verdicts verify[i] / execute[i] (2 = transport error) and records the order of the
// verifications = the order in which selectTransactionsByFee picked candidates that fit.
type zzFakeABI struct {
	t     *zzT
	two   bool // quick tier: execute verdicts restricted to {invalid, success}, verify verdicts to {invalid, pending, ok}
	picks []int
	vOK   [4]bool
	eOK   [4]bool
}

func (a *zzFakeABI) VerifyTransaction(req *labi.VerifyTransactionRequest) (*labi.VerifyTransactionResponse, error) {
	i := int(req.Transaction.ID[0])
	a.picks = append(a.picks, i)
	v := a.t.I32(a.t.Name("verify", i))
	a.t.Assume(a.t.And(v >= -1, v <= 2))
	if a.two {
		a.t.Assume(v != 2)
	}
	a.vOK[i] = v == labi.TxVerifyResultOk
	if v == 2 {
		return nil, zzErrABI
	}
	return &labi.VerifyTransactionResponse{Result: v}, nil
}

func (a *zzFakeABI) ExecuteTransaction(req *labi.ExecuteTransactionRequest) (*labi.ExecuteTransactionResponse, error) {
	// like the real in-process application (framework.ABIHandler.ExecuteTransaction) the scripted one READS the
	// consensus parameters of the request: an engine that leaves them out crashes here (defect found on the real
	// handler by zzH_C16_abi_exec_engine_request)
	_ = req.Consensus.ImplyMaxPrevote
	i := int(req.Transaction.ID[0])
	e := a.t.I32(a.t.Name("execute", i))
	a.t.Assume(a.t.And(e >= -1, e <= 2))
	if a.two {
		a.t.Assume(a.t.Or(e == -1, e == 1))
	}
	a.eOK[i] = a.t.And(e != 2, e != labi.TxExecuteResultInvalid)
	if e == 2 {
		return nil, zzErrABI
	}
	return &labi.ExecuteTransactionResponse{Result: e}, nil
}

func (a *zzFakeABI) Init(*labi.InitRequest) (*labi.InitResponse, error) { return nil, nil }
func (a *zzFakeABI) InitStateMachine(*labi.InitStateMachineRequest) (*labi.InitStateMachineResponse, error) {
	return &labi.InitStateMachineResponse{ContextID: []byte{1}}, nil
}
func (a *zzFakeABI) InitGenesisState(*labi.InitGenesisStateRequest) (*labi.InitGenesisStateResponse, error) {
	return nil, nil
}
func (a *zzFakeABI) InsertAssets(*labi.InsertAssetsRequest) (*labi.InsertAssetsResponse, error) {
	return &labi.InsertAssetsResponse{}, nil
}
func (a *zzFakeABI) VerifyAssets(*labi.VerifyAssetsRequest) (*labi.VerifyAssetsResponse, error) {
	return nil, nil
}
func (a *zzFakeABI) BeforeTransactionsExecute(*labi.BeforeTransactionsExecuteRequest) (*labi.BeforeTransactionsExecuteResponse, error) {
	return &labi.BeforeTransactionsExecuteResponse{}, nil
}
func (a *zzFakeABI) AfterTransactionsExecute(*labi.AfterTransactionsExecuteRequest) (*labi.AfterTransactionsExecuteResponse, error) {
	return &labi.AfterTransactionsExecuteResponse{}, nil
}
func (a *zzFakeABI) Commit(*labi.CommitRequest) (*labi.CommitResponse, error) {
	return &labi.CommitResponse{}, nil
}
func (a *zzFakeABI) Revert(*labi.RevertRequest) (*labi.RevertResponse, error)       { return nil, nil }
func (a *zzFakeABI) Clear(*labi.ClearRequest) (*labi.ClearResponse, error)          { return nil, nil }
func (a *zzFakeABI) Finalize(*labi.FinalizeRequest) (*labi.FinalizeResponse, error) { return nil, nil }
func (a *zzFakeABI) GetMetadata(*labi.MetadataRequest) (*labi.MetadataResponse, error) {
	return nil, nil
}
func (a *zzFakeABI) Query(*labi.QueryRequest) (*labi.QueryResponse, error) { return nil, nil }
func (a *zzFakeABI) Prove(*labi.ProveRequest) (*labi.ProveResponse, error) { return nil, nil }

// ---- transaction size (see harness/pkg/txpool/zz_verif_pool.go) ---------------------------------

var zzTxSizes [4]int

func zzStubTxSize(tx *blockchain.Transaction) int { return zzTxSizes[tx.ID[0]&3] }

func zzSetTxSize(t *zzT, tx *blockchain.Transaction, n int) {
	if t.Symbolic() {
		zzTxSizes[tx.ID[0]&3] = n
		return
	}
	f, ok := reflect.TypeOf(*tx).FieldByName("size")
	if !ok {
		panic("zz: blockchain.Transaction has no size field")
	}
	*(*int)(unsafe.Add(unsafe.Pointer(tx), f.Offset)) = n
}

var zzSenderKeys = [2][]byte{
	{0xa1, 1, 2, 3, 4, 5, 6, 7, 8, 9, 10, 11, 12, 13, 14, 15, 16, 17, 18, 19, 20, 21, 22, 23, 24, 25, 26, 27, 28, 29, 30, 31},
	{0xb2, 1, 2, 3, 4, 5, 6, 7, 8, 9, 10, 11, 12, 13, 14, 15, 16, 17, 18, 19, 20, 21, 22, 23, 24, 25, 26, 27, 28, 29, 30, 31},
}

// zzNewTxs builds n <= 3 transactions with concrete IDs {i}, tx0 from sender A, the others from a
// chosen sender, symbolic fee, size in [1, 2^20] and nonces that are pairwise distinct per sender
// (what the pool guarantees for its processable lists).
func zzNewTxs(t *zzT, n int) ([]*blockchain.Transaction, []int) {
	txs := make([]*blockchain.Transaction, n)
	snd := make([]int, n)
	for i := range txs {
		// senders=0: every assignment of tx1, tx2 to {A, B}; senders=1 (quick): tx1 from A, tx2 chosen
		if i > 0 && (t.Param("senders", 0) == 0 || i == 2) {
			snd[i] = t.Choice(t.Name("sender", i), 2)
		}
		tx := &blockchain.Transaction{
			ID:              []byte{byte(i)},
			Module:          "token",
			Command:         "transfer",
			Nonce:           t.U64(t.Name("nonce", i)),
			Fee:             t.U64(t.Name("fee", i)),
			SenderPublicKey: zzSenderKeys[snd[i]],
		}
		// size: symbolic in [1, 2^20] (sizes=0), or one of `sizes` concrete values 1, 2, … chosen per
		// transaction (quick tier: fee / size then costs the solver nothing, and with a symbolic
		// maxSize every fits / does-not-fit pattern is still covered)
		var size int
		if k := t.Param("sizes", 0); k > 0 {
			size = 1 + t.Choice(t.Name("size", i), k)
		} else {
			size = t.Int(t.Name("size", i))
			t.Assume(t.And(size >= 1, size <= 1<<20))
		}
		zzSetTxSize(t, tx, size)
		for j := 0; j < i; j++ {
			if snd[j] == snd[i] {
				t.Assume(txs[j].Nonce != tx.Nonce)
			}
		}
		txs[i] = tx
	}
	return txs, snd
}

func zzPrio(tx *blockchain.Transaction) uint64 { return tx.Fee / uint64(tx.Size()) }

// zzByNonce returns, per sender, the indexes of its transactions in ascending nonce order.
func zzByNonce(txs []*blockchain.Transaction, snd []int) [2][]int {
	var out [2][]int
	for i := range txs {
		s := snd[i]
		l := append(out[s], i)
		for k := len(l) - 1; k > 0 && txs[l[k]].Nonce < txs[l[k-1]].Nonce; k-- {
			l[k], l[k-1] = l[k-1], l[k]
		}
		out[s] = l
	}
	return out
}

// zzH_C15_select_by_fee: C15.a on selectTransactionsByFee (+ limitTransactionsWithSize on its
// result, as forge does).
//
//zz:opt loop=16 require=end,full,size-stop,sender-dropped
//zz:stub (*~/pkg/blockchain.Transaction).Size zzStubTxSize
//zz:quick n=3 sizes=2 verdicts=3 senders=1 mapperm=1 budget=300s
//zz:thorough n=3 sizes=0 verdicts=4 senders=0 mapperm=1 budget=3600s
func zzH_C15_select_by_fee(t *zzT) {
	n := t.Range("n", 1, t.Param("n", 3))
	txs, snd := zzNewTxs(t, n)
	maxSize := t.Int("maxSize")
	t.Assume(t.And(maxSize >= 0, maxSize <= 1<<22))
	fake := &zzFakeABI{t: t, two: t.Param("verdicts", 4) < 4}
	exec := &stateExecuter{client: fake, contextID: codec.Hex{1}, events: []*blockchain.Event{}, abiConsensus: &labi.Consensus{}} // (BeforeTransactionsExecute sets abiConsensus in the real flow)
	g := &Generator{}
	header := &blockchain.BlockHeader{}

	res, err := g.selectTransactionsByFee(exec, header, nil, txs, maxSize)
	t.Assert(err == nil, "selection does not fail")

	// replay the picks against the reference
	lists := zzByNonce(txs, snd)
	var head [2]int
	var dropped [2]bool
	total := 0
	r := 0
	anyDropped := false
	okFit := true
	for _, i := range fake.picks {
		s := snd[i]
		isHead := !dropped[s] && head[s] < len(lists[s]) && lists[s][head[s]] == i
		t.Assert(isHead, "every candidate is the lowest remaining nonce of a sender that has not failed")
		if !isHead {
			return
		}
		o := 1 - s
		if !dropped[o] && head[o] < len(lists[o]) {
			t.Assert(zzPrio(txs[i]) >= zzPrio(txs[lists[o][head[o]]]), "every candidate has maximal fee priority among the senders' current heads")
		}
		okFit = t.And(okFit, txs[i].Size()+total <= maxSize)
		if fake.vOK[i] && fake.eOK[i] {
			t.Assert(r < len(res) && res[r] == txs[i], "a candidate that verifies and executes is appended to the result, in pick order")
			r++
			total += txs[i].Size()
			head[s]++
		} else {
			dropped[s] = true
			anyDropped = true
		}
	}
	t.Assert(okFit, "a candidate is only verified when it fits into the remaining size")
	t.Assert(r == len(res), "the result holds exactly the candidates that verified and executed")
	t.Assert(total <= maxSize, "total size of the selection <= maxSize")
	// per-sender nonce order, no duplicates
	okOrder := true
	for a := 0; a < len(res); a++ {
		for b := a + 1; b < len(res); b++ {
			t.Assert(res[a] != res[b], "no transaction is selected twice")
			if string(res[a].SenderPublicKey) == string(res[b].SenderPublicKey) {
				okOrder = t.And(okOrder, res[a].Nonce < res[b].Nonce)
			}
		}
	}
	t.Assert(okOrder, "per-sender nonce order is kept")
	// why it stopped: nothing left, or a best remaining head does not fit
	var rest []int
	for s := 0; s < 2; s++ {
		if !dropped[s] && head[s] < len(lists[s]) {
			rest = append(rest, lists[s][head[s]])
		}
	}
	if len(rest) > 0 {
		stop := false
		for _, h := range rest {
			best := true
			for _, h2 := range rest {
				best = t.And(best, zzPrio(txs[h]) >= zzPrio(txs[h2]))
			}
			stop = t.Or(stop, t.And(best, txs[h].Size()+total > maxSize))
		}
		t.Assert(stop, "selection stops early only when a remaining head of maximal fee priority does not fit")
		t.Reach("size-stop")
	} else if !anyDropped {
		t.Reach("full")
	}
	if anyDropped {
		t.Reach("sender-dropped")
	}
	// forge() passes the selection through limitTransactionsWithSize with the same limit
	lim := g.limitTransactionsWithSize(maxSize, res)
	same := len(lim) == len(res)
	for k := 0; same && k < len(lim); k++ {
		same = lim[k] == res[k]
	}
	t.Assert(same, "limitTransactionsWithSize keeps a selection that already respects the limit")
	t.ObserveU64("selected", uint64(len(res)))
	t.Reach("end")
}

// zzH_C15_limit_with_size: limitTransactionsWithSize returns the longest prefix whose total size
// fits.
//
//zz:opt loop=16
//zz:stub (*~/pkg/blockchain.Transaction).Size zzStubTxSize
func zzH_C15_limit_with_size(t *zzT) {
	n := t.Range("n", 0, 3)
	txs := make([]*blockchain.Transaction, n)
	for i := range txs {
		txs[i] = &blockchain.Transaction{ID: []byte{byte(i)}}
		size := t.Int(t.Name("size", i))
		t.Assume(t.And(size >= 0, size <= 1<<40))
		zzSetTxSize(t, txs[i], size)
	}
	max := t.Int("max")
	t.Assume(t.And(max >= 0, max <= 1<<42))
	res := (&Generator{}).limitTransactionsWithSize(max, txs)
	t.Assert(len(res) <= n, "result is not longer than the input")
	total := 0
	for k := range res {
		t.Assert(res[k] == txs[k], "result is a prefix of the input")
		total += txs[k].Size()
	}
	t.Assert(total <= max, "total size <= limit")
	if len(res) < n {
		t.Assert(total+txs[len(res)].Size() > max, "the prefix is maximal: the next transaction does not fit")
	}
	t.ObserveU64("kept", uint64(len(res)))
	t.Reach("end")
}

// zzH_C15_sorted_by_nonce: getSortedTransactionMapByNonce groups by sender, orders by nonce, records
// fee / size.
//
//zz:opt loop=16
//zz:stub (*~/pkg/blockchain.Transaction).Size zzStubTxSize
func zzH_C15_sorted_by_nonce(t *zzT) {
	n := t.Range("n", 1, 3)
	txs, snd := zzNewTxs(t, n)
	m := getSortedTransactionMapByNonce(txs)
	lists := zzByNonce(txs, snd)
	groups := 0
	for s := 0; s < 2; s++ {
		key := string((&blockchain.Transaction{SenderPublicKey: zzSenderKeys[s]}).SenderAddress())
		got, ok := m[key]
		t.Assert(ok == (len(lists[s]) > 0), "a sender has a group iff it has transactions")
		if !ok {
			continue
		}
		groups++
		t.Assert(len(got) == len(lists[s]), "a group holds all transactions of its sender")
		for k := 0; k < len(got) && k < len(lists[s]); k++ {
			want := txs[lists[s][k]]
			t.Assert(got[k].Transaction == want, "a group is in ascending nonce order")
			t.Assert(uint64(got[k].FeePriority) == want.Fee/uint64(want.Size()), "recorded fee priority = fee / size")
		}
	}
	t.Assert(groups == len(m), "no other groups")
	t.Reach("end")
}

// ---- C15.b: generator info across forges ---------------------------------------------------------

// zzStore is the model of the generator database: a byte map behind diffdb's reader/writer
// interfaces (the real *db.DB is pebble and out of the engine's reach).
type zzStore struct{ m map[string][]byte }

func (s *zzStore) Get(key []byte) ([]byte, bool) {
	v, ok := s.m[string(key)]
	return v, ok
}
func (s *zzStore) Iterate(prefix []byte, limit int, reverse bool) []db.KeyValue { return nil }
func (s *zzStore) IterateRange(start, end []byte, limit int, reverse bool) []db.KeyValue {
	return nil
}
func (s *zzStore) Set(key, value []byte) { s.m[string(key)] = value }
func (s *zzStore) Del(key []byte)        { delete(s.m, string(key)) }

// zzFakeConsensus supplies the BFT heights of the current tip.
type zzFakeConsensus struct{ mhp uint32 }

func (c *zzFakeConsensus) Syncing() bool                      { return false }
func (c *zzFakeConsensus) AddInternal(block *blockchain.Block) {}
func (c *zzFakeConsensus) GetAggregateCommit() (*blockchain.AggregateCommit, error) {
	return &blockchain.AggregateCommit{}, nil
}
func (c *zzFakeConsensus) Certify(from, to uint32, address codec.Lisk32, blsPrivateKey []byte) error {
	return nil
}
func (c *zzFakeConsensus) Subscribe(topic string) <-chan interface{} { return nil }
func (c *zzFakeConsensus) GetSlotNumber(unixTime uint32) int         { return 0 }
func (c *zzFakeConsensus) GetSlotTime(slot int) uint32               { return 0 }
func (c *zzFakeConsensus) GetBFTHeights(context *diffdb.Database) (uint32, uint32, uint32, error) {
	return c.mhp, 0, 0, nil
}
func (c *zzFakeConsensus) GetBFTParameters(context *diffdb.Database, height uint32) (*liskbft.BFTParams, error) {
	return nil, nil
}
func (c *zzFakeConsensus) GetGeneratorKeys(context *diffdb.Database, height uint32) (liskbft.Generators, error) {
	return nil, nil
}
func (c *zzFakeConsensus) HeaderHasPriority(context *diffdb.Database, header blockchain.SealedBlockHeader, height, maxHeightPrevoted, maxHeightPreviouslyForged uint32) (bool, error) {
	return false, nil
}
func (c *zzFakeConsensus) ImpliesMaximalPrevotes(context *diffdb.Database, blockHeader blockchain.ReadableBlockHeader) (bool, error) {
	return false, nil
}
func (c *zzFakeConsensus) BFTBeforeTransactionsExecute(blockHeader blockchain.SealedBlockHeader, diffStore *diffdb.Database) error {
	return nil
}
func (c *zzFakeConsensus) BFTAfterTransactionsExecute(*diffdb.Database, uint64, uint64, []*labi.Validator) error {
	return nil
}

// zzChainAt returns a chain whose last block has the given height (the node's tip after fork
// choice); a fresh Chain per forge models a chain switch.
func zzChainAt(height uint32, id byte) *blockchain.Chain {
	c := blockchain.NewChain(&blockchain.ChainConfig{ChainID: []byte{0, 0, 0, 0}, MaxBlockCache: 4})
	c.Init(&blockchain.Block{Header: &blockchain.BlockHeader{}}, nil)
	if err := c.DataAccess().Cache(&blockchain.Block{Header: &blockchain.BlockHeader{Height: height, ID: []byte{id}}}); err != nil {
		panic(err)
	}
	return c
}

// zzForgeStep is forge() reduced to what decides the header's BFT fields and the persisted
// GeneratorInfo: lines 171–173 (fresh diffdb over the generator DB, initBlockHeader) and 238–248
// (previousInfo from the sealed header — sealBlock keeps Height/MaxHeightPrevoted/
// MaxHeightGenerated of the partial header —, Set, Commit to the store) of generator.go.
func zzForgeStep(g *Generator, store *zzStore, addr codec.Lisk32) (*blockchain.BlockHeader, error) {
	generatorDB := diffdb.New(store, GeneratorDBPrefixGeneratedInfo)
	diffStore := diffdb.New(&zzStore{m: map[string][]byte{}}, []byte{9})
	header, err := g.initBlockHeader(generatorDB, addr, diffStore)
	if err != nil {
		return nil, err
	}
	previousInfo := &GeneratorInfo{
		Height:             header.Height,
		MaxHeightPrevoted:  header.MaxHeightPrevoted,
		MaxHeightGenerated: header.MaxHeightGenerated,
	}
	previousInfoStore := generatorDB.WithPrefix(GeneratorDBPrefixGeneratedInfo)
	previousInfoStore.Set(header.GeneratorAddress, previousInfo.Encode())
	generatorDB.Commit(store)
	return header, nil
}

// zzH_C15_no_self_contradiction: C15.b — k <= 3 consecutive forges of one generator; between forges
// the node's tip only changes as fork choice allows: (maxHeightPrevoted, height) of the tip grows
// lexicographically (extension of the chain, or a switch to a better — possibly shorter — chain).
// No two produced headers may contradict (real AreDistinctHeadersContradicting) and each header's
// maxHeightGenerated must be the largest height generated before.
//
//zz:opt loop=32 lockdiscipline=off require=end merge=~/pkg/consensus/contradiction.AreDistinctHeadersContradicting
//zz:quick k=3 hbits=14
//zz:thorough k=3 hbits=31
func zzH_C15_no_self_contradiction(t *zzT) {
	K := t.Param("k", 3)
	k := t.Range("forges", 2, K)
	// heights below 2^hbits: bounds the varint lengths of the encoded GeneratorInfo (the encoder forks
	// on the length of every symbolic integer)
	lim := uint32(1) << uint(t.Param("hbits", 7))
	addr := codec.Lisk32{0xaa, 1, 2, 3, 4, 5, 6, 7, 8, 9, 10, 11, 12, 13, 14, 15, 16, 17, 18, 19}
	store := &zzStore{m: map[string][]byte{}}
	cons := &zzFakeConsensus{}
	g := &Generator{consensus: cons}
	var hs []*blockchain.BlockHeader
	var tipH, tipP []uint32
	var maxGen uint32
	for i := 0; i < k; i++ {
		h := t.U32(t.Name("tip.height", i))
		p := t.U32(t.Name("tip.maxHeightPrevoted", i))
		t.Assume(t.And(h < lim-1, p <= h))
		if i > 0 {
			t.Assume(t.Or(p > tipP[i-1], t.And(p == tipP[i-1], h > tipH[i-1])))
		}
		tipH, tipP = append(tipH, h), append(tipP, p)
		g.chain = zzChainAt(h, byte(i+1))
		cons.mhp = p
		hd, err := zzForgeStep(g, store, addr)
		t.Assert(err == nil && hd != nil, "initBlockHeader succeeds")
		if err != nil || hd == nil {
			return
		}
		t.Assert(t.And(hd.Height == h+1, hd.MaxHeightPrevoted == p), "header height = tip height + 1, maxHeightPrevoted = BFT value of the tip")
		for _, prev := range hs {
			t.Assert(!contradiction.AreDistinctHeadersContradicting(
				contradiction.NewBFTBlockHeader(prev.Readonly()), contradiction.NewBFTBlockHeader(hd.Readonly())),
				"no two headers of the same generator contradict")
		}
		t.Assert(hd.MaxHeightGenerated == maxGen, "maxHeightGenerated = largest height this generator generated before")
		hs = append(hs, hd)
		maxGen = t.IteU32(hd.Height > maxGen, hd.Height, maxGen)
	}
	t.ObserveU64("lastMaxHeightGenerated", uint64(hs[len(hs)-1].MaxHeightGenerated))
	t.Reach("end")
}
