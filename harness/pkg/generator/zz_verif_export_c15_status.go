//go:build verif

package generator

import (
	"github.com/LiskHQ/lisk-engine/pkg/blockchain"
	"github.com/LiskHQ/lisk-engine/pkg/codec"
	"github.com/LiskHQ/lisk-engine/pkg/db"
	"github.com/LiskHQ/lisk-engine/pkg/db/diffdb"
)

// Bridge for the C15 status harness of package endpoint (harness/pkg/engine/endpoint/zz_verif_c15_status_gen.go):
// the RPC endpoints generator_setStatus / updateStatus / getStatus and the generator's forge() meet in the
// generator database only, so "the info the operator set is the info the next header builds on" needs the
// generator's own read (initBlockHeader, unexported) and write (the tail of forge()) of the GeneratorInfo.
// This file exports exactly those two, on the stores forge() opens; it contains no oracle.

type zzsxCons struct {
	Consensus
	mhp uint32
}

func (c *zzsxCons) GetBFTHeights(*diffdb.Database) (uint32, uint32, uint32, error) {
	return c.mhp, 0, 0, nil
}

func (c *zzsxCons) GetAggregateCommit() (*blockchain.AggregateCommit, error) {
	return &blockchain.AggregateCommit{AggregationBits: []byte{}, CertificateSignature: []byte{}}, nil
}

// ZZC15StatusGenerator: a generator over the given chain and databases, as NewGenerator + Init leave it (no
// ticker, no key file); the BFT module reports maxHeightPrevoted.
func ZZC15StatusGenerator(chain *blockchain.Chain, generatorDB, blockchainDB *db.DB, maxHeightPrevoted uint32) *Generator {
	g := NewGenerator(&GeneratorParams{Consensus: &zzsxCons{mhp: maxHeightPrevoted}, Chain: chain})
	g.generatorDB, g.blockchainDB = generatorDB, blockchainDB
	return g
}

// ZZC15StatusNextHeader: the partial header the next forge() of g starts from for addr (generator.go, forge():
// `generatorDB := diffdb.New(g.generatorDB, GeneratorDBPrefixGeneratedInfo)`, then initBlockHeader).
func ZZC15StatusNextHeader(g *Generator, addr codec.Lisk32) (*blockchain.BlockHeader, error) {
	diffStore := diffdb.New(g.blockchainDB, blockchain.DBPrefixToBytes(blockchain.DBPrefixState))
	generatorDB := diffdb.New(g.generatorDB, GeneratorDBPrefixGeneratedInfo)
	return g.initBlockHeader(generatorDB, addr, diffStore)
}

// ZZC15StatusPersistForged: what forge() persists for the sealed header right before AddInternal (generator.go,
// the tail of forge(): previousInfo of the header, previousInfoStore := generatorDB.WithPrefix(...), Set, Commit,
// Write).
func ZZC15StatusPersistForged(g *Generator, hd *blockchain.BlockHeader) {
	generatorDB := diffdb.New(g.generatorDB, GeneratorDBPrefixGeneratedInfo)
	previousInfo := &GeneratorInfo{
		Height:             hd.Height,
		MaxHeightPrevoted:  hd.MaxHeightPrevoted,
		MaxHeightGenerated: hd.MaxHeightGenerated,
	}
	encodedPreviousInfo := previousInfo.Encode()
	previousInfoStore := generatorDB.WithPrefix(GeneratorDBPrefixGeneratedInfo)
	previousInfoStore.Set(hd.GeneratorAddress, encodedPreviousInfo)
	batch := g.generatorDB.NewBatch()
	generatorDB.Commit(batch)
	g.generatorDB.Write(batch)
}
