//go:build verif

package generator

import (
	"context"
	"time"

	"github.com/LiskHQ/lisk-engine/pkg/blockchain"
	"github.com/LiskHQ/lisk-engine/pkg/codec"
	"github.com/LiskHQ/lisk-engine/pkg/collection/bytes"
	"github.com/LiskHQ/lisk-engine/pkg/consensus"
	"github.com/LiskHQ/lisk-engine/pkg/txpool"
)

// the pool's promotion ticker is never started here (no wall clock under the engine)
func zz14Ticker(d time.Duration) *time.Ticker { return &time.Ticker{C: make(chan time.Time)} }

func zz14Tx(sender byte, nonce, fee uint64, tag byte) *blockchain.Transaction {
	tx := &blockchain.Transaction{Module: "token", Command: "transfer", Nonce: nonce, Fee: fee, SenderPublicKey: bytes.Repeat([]byte{sender}, 32),
		Params: []byte{tag}, Signatures: []codec.Hex{bytes.Repeat([]byte{2}, 64)}}
	tx.Init()
	return tx
}

// C14 "after any interleaving of add, remove, block-applied/-reverted notifications …": the notifications as the
// node really delivers them — Generator.onNewBlock / onDeleteBlock on a real TransactionPool (built by
// NewTransactionPool + Init). The pool holds up to two transactions; the applied block contains a pooled
// transaction, an unknown one, or ANOTHER transaction for a pooled (sender, nonce) (the node pooled a
// replacement, the producer included the original). Afterwards every transaction the pool still lists can be
// looked up and removed (indexes agree), nothing is listed twice, and a reverted block's transactions come back
// at most once.
//
//zz:opt loop=64 require=end
//zz:stub time.NewTicker zz14Ticker
func zzH_C14_block_notifications(t *zzT) {
	pool := txpool.NewTransactionPool(&txpool.TransactionPoolConfig{MaxTransactions: 4, MaxTransactionsPerAccount: 4})
	if err := pool.Init(context.Background(), zzfLogger{}, nil, nil, zzfConn{}, zzfPoolABI{}); err != nil {
		t.Fail("pool init")
	}
	g := &Generator{pool: pool, logger: zzfLogger{}}
	a0 := zz14Tx(0xa1, 0, 2_000_000, 1)
	a0bump := zz14Tx(0xa1, 0, 9_000_000, 2) // same sender and nonce, higher fee, other ID
	a1 := zz14Tx(0xa1, 1, 2_000_000, 3)
	b0 := zz14Tx(0xb2, 0, 2_000_000, 4)
	cands := []*blockchain.Transaction{a0, a0bump, a1, b0}
	// pool contents: one or two of the candidates (not both a0 and a0bump)
	p1 := t.Choice("pooled.first", len(cands))
	t.Assert(pool.Add(cands[p1]), "setup: the pool accepts a transaction")
	if t.Bool("pooled.two") {
		p2 := t.Choice("pooled.second", len(cands))
		t.Assume(p2 != p1 && !(p1 <= 1 && p2 <= 1))
		t.Assert(pool.Add(cands[p2]), "setup: the pool accepts a second transaction")
	}
	inBlock := []*blockchain.Transaction{cands[t.Choice("block.tx", len(cands))]}
	block := &blockchain.Block{Header: &blockchain.BlockHeader{Height: 5}, Transactions: inBlock}
	if t.Bool("reverted") {
		g.onDeleteBlock(&consensus.EventBlockDeleteMessage{Block: block})
	} else {
		g.onNewBlock(&consensus.EventBlockNewMessage{Block: block})
		_, still := pool.Get(inBlock[0].ID)
		t.Assert(!still, "a transaction included in an applied block is no longer pooled")
	}
	all := pool.GetAll()
	for i, x := range all {
		for j := 0; j < i; j++ {
			t.Assert(!bytes.Equal(all[j].ID, x.ID), "no transaction is listed twice")
			t.Assert(!(bytes.Equal(all[j].SenderPublicKey, x.SenderPublicKey) && all[j].Nonce == x.Nonce), "at most one transaction per sender and nonce")
		}
		_, ok := pool.Get(x.ID)
		t.Assert(ok, "every listed transaction can be looked up by ID")
	}
	// every listed transaction sits in its sender list: removing it works and empties the pool
	for _, x := range all {
		pool.Remove(x.ID)
	}
	t.Assert(len(pool.GetAll()) == 0, "every listed transaction can be removed (all indexes agree)")
	t.Reach("end")
}
