//go:build verif

package generator

import (
	"bytes"
	"context"
	"encoding/hex"
	"time"

	"github.com/LiskHQ/lisk-engine/pkg/blockchain"
	"github.com/LiskHQ/lisk-engine/pkg/codec"
	"github.com/LiskHQ/lisk-engine/pkg/consensus"
	"github.com/LiskHQ/lisk-engine/pkg/consensus/contradiction"
	"github.com/LiskHQ/lisk-engine/pkg/consensus/liskbft"
	"github.com/LiskHQ/lisk-engine/pkg/consensus/validator"
	"github.com/LiskHQ/lisk-engine/pkg/crypto"
	"github.com/LiskHQ/lisk-engine/pkg/db"
	"github.com/LiskHQ/lisk-engine/pkg/db/diffdb"
	"github.com/LiskHQ/lisk-engine/pkg/engine/config"
	"github.com/LiskHQ/lisk-engine/pkg/labi"
	"github.com/LiskHQ/lisk-engine/pkg/log"
	"github.com/LiskHQ/lisk-engine/pkg/p2p"
	"github.com/LiskHQ/lisk-engine/pkg/trie/rmt"
	"github.com/LiskHQ/lisk-engine/pkg/txpool"
)

// C15 — the forge step end to end (DESIGN C15.c persistence order, C15.d self-acceptance).
//
// Every harness here drives the REAL Generator.forge() (generator.go:145-256: shouldForge, generator of
// the slot, initBlockHeader, the application calls of abi_caller.go, transaction selection, sealBlock,
// the GeneratorInfo write, AddInternal) on a Generator built by the real NewGenerator + Init
// (loadGenerator reads the generator keys back from the generator database). The generator database
// and the blockchain database are db.NewInMemoryDB() (pebble natively, the sorted-list model of
// harness/pkg/db under the engine) with the durable-operation monitor.
//
// What is replaced, and how both modes are kept equal:
//   - time.Now: stubbed to a fixed instant under the engine; natively the real clock runs and the
//     genesis / tip timestamps are chosen relative to it so that the slot arithmetic is the same (the
//     instant lies 3 s inside a 10 s slot, 1 s for the "wait" case: a drift of a second changes nothing).
//     Nothing derived from the clock is observed.
//   - time.NewTicker (Generator.Init): stubbed to an inert ticker under the engine.
//   - TransactionPool.GetProcessable: under the engine it returns the harness' list; natively a real
//     pool is filled through NewTransactionPool/Init/Add and promoted by its own reorg loop (Start), so
//     that the real GetProcessable returns the same transactions. Per sender the nonces are consecutive
//     (that is what the pool's processable lists are).
//   - Transaction.Size in the harnesses with symbolic sizes (as in zz_verif_generator.go).
//   - ed25519: real fixed key pairs; the engine's signature model is Sig(pub,msg) uninterpreted.
//
// Database failures: db.DB.Write / Set / Get do not return errors, they panic (pkg/db/db.go:93-148).
// "If the DB write fails no block is handed on" therefore reduces to the order of the two statements,
// which is asserted (the write is observed by the monitor and by reading the durable content from
// inside AddInternal).

// ---- small fakes ---------------------------------------------------------------------------------

type zzfLogger struct{}

func (zzfLogger) Debug(string, ...interface{})      {}
func (zzfLogger) Info(string, ...interface{})       {}
func (zzfLogger) Error(string, ...interface{})      {}
func (zzfLogger) Debugf(string, ...interface{})     {}
func (zzfLogger) Infof(string, ...interface{})      {}
func (zzfLogger) Errorf(string, ...interface{})     {}
func (zzfLogger) Warning(string, ...interface{})    {}
func (zzfLogger) Warningf(string, ...interface{})   {}
func (l zzfLogger) With(...interface{}) log.Logger { return l }

var zzfNowVal int64

func zzfStubNow() time.Time                         { return time.Unix(zzfNowVal, 0) }
func zzfStubNewTicker(d time.Duration) *time.Ticker { return &time.Ticker{} }

var zzfPoolTxs []*blockchain.Transaction

func zzfStubGetProcessable(p *txpool.TransactionPool) []*blockchain.Transaction {
	return append([]*blockchain.Transaction{}, zzfPoolTxs...)
}

type zzfConn struct{}

func (zzfConn) Broadcast(context.Context, string, []byte) error { return nil }
func (zzfConn) RegisterRPCHandler(string, p2p.RPCHandler, ...p2p.RPCHandlerOption) error {
	return nil
}
func (zzfConn) RegisterEventHandler(string, p2p.EventHandler, p2p.Validator) error { return nil }
func (zzfConn) ApplyPenalty(p2p.PeerID, int)                                      {}
func (zzfConn) RequestFrom(context.Context, p2p.PeerID, string, []byte) p2p.Response {
	return p2p.Response{}
}
func (zzfConn) Publish(context.Context, string, []byte) error { return nil }

type zzfPoolABI struct{}

func (zzfPoolABI) VerifyTransaction(*labi.VerifyTransactionRequest) (*labi.VerifyTransactionResponse, error) {
	return &labi.VerifyTransactionResponse{Result: labi.TxVerifyResultOk}, nil
}

// zzfNewPool: the pool whose processable transactions are txs (see the header comment).
func zzfNewPool(t *zzT, chain *blockchain.Chain, database *db.DB, txs []*blockchain.Transaction) *txpool.TransactionPool {
	if t.Symbolic() {
		zzfPoolTxs = txs
		return nil // GetProcessable is redirected, nothing else of the pool is used by forge
	}
	pool := txpool.NewTransactionPool(&txpool.TransactionPoolConfig{})
	if err := pool.Init(context.Background(), zzfLogger{}, database, chain, zzfConn{}, zzfPoolABI{}); err != nil {
		panic(err)
	}
	for _, tx := range txs {
		if !pool.Add(tx) {
			panic("zz: the pool refused a harness transaction")
		}
	}
	if len(txs) > 0 {
		go pool.Start() // the reorg loop promotes the consecutive nonces
		deadline := time.Now().Add(10 * time.Second)
		for len(pool.GetProcessable()) != len(txs) {
			if time.Now().After(deadline) {
				panic("zz: the pool did not promote the harness transactions")
			}
			time.Sleep(20 * time.Millisecond)
		}
		pool.End()
	}
	return pool
}

func zzfHex(s string) []byte { b, _ := hex.DecodeString(s); return b }

// the two validators of harness/pkg/consensus/zz_verif_exec.go (real ed25519 key pairs)
var (
	zzfPriv = [][]byte{
		zzfHex("8d1c4e0d9a6cc39b1c77a74cdd850d1226ee75144db857ad0ad194ec8b310c49d77ea0b516d425835e478ca11a2b496b6171babcdee5e906451aae4bbf2f7039"),
		zzfHex("c0707b24991eb8e6fafc1c35cdd90c7666c1df4eaac4a4437f0fa0462fafdc8fd06647fa7ff46643667b49934d05c79e6da7fd0be189d833d95d086fa51a1ff9"),
	}
	zzfPub = [][]byte{
		zzfHex("d77ea0b516d425835e478ca11a2b496b6171babcdee5e906451aae4bbf2f7039"),
		zzfHex("d06647fa7ff46643667b49934d05c79e6da7fd0be189d833d95d086fa51a1ff9"),
	}
	zzfAddr = [][]byte{
		zzfHex("5c3eb552a8961b2784d24198121db7dc05fb64fb"),
		zzfHex("c05e0344a337df559e6e57d7dac5d1a86897d953"),
	}
	zzfChainID = []byte{0, 0, 0, 9}
)

const zzfBlockTime = 10

// ---- fallible steps of one forge -------------------------------------------------------------------

const (
	zzfFailNone = iota
	zzfFailSyncing      // consensus.Syncing() == true: not an error, but nothing may be produced
	zzfFailGenKeys1     // GetGeneratorKeys (forge)
	zzfFailHeights1     // GetBFTHeights (initBlockHeader)
	zzfFailInfoCorrupt  // stored GeneratorInfo does not decode (initBlockHeader)
	zzfFailAggregate    // GetAggregateCommit (initBlockHeader)
	zzfFailInitSM       // ABI InitStateMachine
	zzfFailInsertAssets // ABI InsertAssets
	zzfFailBFTBefore    // BFTBeforeTransactionsExecute
	zzfFailParams1      // GetBFTParameters (getABIConsensus)
	zzfFailGenKeys2     // GetGeneratorKeys (getABIConsensus)
	zzfFailImplies      // ImpliesMaximalPrevotes
	zzfFailHeights2     // GetBFTHeights (getABIConsensus)
	zzfFailABIBefore    // ABI BeforeTransactionsExecute
	zzfFailABIAfter     // ABI AfterTransactionsExecute
	zzfFailCommit       // ABI Commit
	zzfFailParams2      // GetBFTParameters (sealBlock)
	zzfNFail
)

// ---- fake consensus --------------------------------------------------------------------------------

type zzfHandoff struct {
	block          *blockchain.Block
	writes, direct int  // durable operations on the generator DB before the hand-off
	found          bool // a restarted node would find a GeneratorInfo for the generator
	decodeErr      error
	info           GeneratorInfo
}

type zzfCons struct {
	t         *zzT
	slot      *validator.BlockSlot
	gens      liskbft.Generators
	genDB     *db.DB
	failAt    int
	tipHeight uint32
	mhp       uint32
	agg       *blockchain.AggregateCommit
	paramsCur, paramsNext *liskbft.BFTParams
	implies   bool
	skew      int64 // seconds the clock advances while GetAggregateCommit runs
	// counters / records
	nGenKeys, nHeights, nParams int
	paramHeights                []uint32
	handed                      []*zzfHandoff
}

func (c *zzfCons) reset() {
	c.failAt, c.nGenKeys, c.nHeights, c.nParams, c.paramHeights, c.handed = zzfFailNone, 0, 0, 0, nil, nil
}

func (c *zzfCons) Syncing() bool { return c.failAt == zzfFailSyncing }

// zzfReadInfo reads the GeneratorInfo of addr the way a freshly started node does: a new diffdb view
// (empty cache) over the durable content of the generator database.
func zzfReadInfo(genDB *db.DB, addr []byte) (bool, error, GeneratorInfo) {
	view := diffdb.New(genDB, GeneratorDBPrefixGeneratedInfo).WithPrefix(GeneratorDBPrefixGeneratedInfo)
	raw, ok := view.Get(addr)
	info := GeneratorInfo{}
	if !ok {
		return false, nil, info
	}
	err := info.Decode(raw)
	return true, err, info
}

func (c *zzfCons) AddInternal(block *blockchain.Block) {
	h := &zzfHandoff{block: block}
	h.writes, h.direct, _ = db.ZZMonitor(c.genDB)
	h.found, h.decodeErr, h.info = zzfReadInfo(c.genDB, block.Header.GeneratorAddress)
	c.handed = append(c.handed, h)
}
func (c *zzfCons) GetAggregateCommit() (*blockchain.AggregateCommit, error) {
	if c.failAt == zzfFailAggregate {
		return nil, zzErrABI
	}
	if c.skew > 0 {
		if c.t.Symbolic() {
			zzfNowVal += c.skew
		} else {
			time.Sleep(time.Duration(c.skew) * time.Second)
		}
	}
	return c.agg, nil
}
func (c *zzfCons) Certify(from, to uint32, address codec.Lisk32, blsPrivateKey []byte) error {
	return nil
}
func (c *zzfCons) Subscribe(topic string) <-chan interface{} { return nil }
func (c *zzfCons) GetSlotNumber(unixTime uint32) int          { return c.slot.GetSlotNumber(unixTime) }
func (c *zzfCons) GetSlotTime(slot int) uint32                { return c.slot.GetSlotTime(slot) }
func (c *zzfCons) GetBFTHeights(*diffdb.Database) (uint32, uint32, uint32, error) {
	c.nHeights++
	if (c.failAt == zzfFailHeights1 && c.nHeights == 1) || (c.failAt == zzfFailHeights2 && c.nHeights == 2) {
		return 0, 0, 0, zzErrABI
	}
	return c.mhp, 0, 0, nil
}
func (c *zzfCons) GetBFTParameters(_ *diffdb.Database, height uint32) (*liskbft.BFTParams, error) {
	c.nParams++
	c.paramHeights = append(c.paramHeights, height)
	if (c.failAt == zzfFailParams1 && c.nParams == 1) || (c.failAt == zzfFailParams2 && c.nParams == 2) {
		return nil, zzErrABI
	}
	if height == c.tipHeight+2 {
		return c.paramsNext, nil
	}
	return c.paramsCur, nil
}
func (c *zzfCons) GetGeneratorKeys(*diffdb.Database, uint32) (liskbft.Generators, error) {
	c.nGenKeys++
	if (c.failAt == zzfFailGenKeys1 && c.nGenKeys == 1) || (c.failAt == zzfFailGenKeys2 && c.nGenKeys == 2) {
		return nil, zzErrABI
	}
	return c.gens, nil
}
func (c *zzfCons) HeaderHasPriority(*diffdb.Database, blockchain.SealedBlockHeader, uint32, uint32, uint32) (bool, error) {
	return false, nil
}
func (c *zzfCons) ImpliesMaximalPrevotes(*diffdb.Database, blockchain.ReadableBlockHeader) (bool, error) {
	if c.failAt == zzfFailImplies {
		return false, zzErrABI
	}
	return c.implies, nil
}
func (c *zzfCons) BFTBeforeTransactionsExecute(blockchain.SealedBlockHeader, *diffdb.Database) error {
	if c.failAt == zzfFailBFTBefore {
		return zzErrABI
	}
	return nil
}

// BFTAfterTransactionsExecute (added to generator.Consensus by fix 5dbe71a): the fake consensus keeps
// no BFT parameters of its own.
func (c *zzfCons) BFTAfterTransactionsExecute(*diffdb.Database, uint64, uint64, []*labi.Validator) error {
	return nil
}

var (
	zzfHashCur  = bytes.Repeat([]byte{0xa1}, 32) // validatorsHash of the BFT parameters at the forged height
	zzfHashNext = bytes.Repeat([]byte{0xa2}, 32) // … at forged height + 1 (what the header must carry)
)

func zzfParams(hash []byte) *liskbft.BFTParams {
	w := codec.NewWriter()
	w.WriteUInt(1, 2)
	w.WriteUInt(2, 2)
	w.WriteUInt(3, 2)
	w.WriteBytes(5, hash)
	p := &liskbft.BFTParams{}
	if err := p.Decode(w.Result()); err != nil {
		panic(err)
	}
	return p
}

// ---- fake application for the forge harnesses -------------------------------------------------------

// zzfABI: verdicts of VerifyTransaction / ExecuteTransaction come from zzFakeABI (symbolic, per
// transaction); assets, events and the state root are fixed functions of what is asked, so that the
// oracle can recompute "what the application returned" from the produced block alone.
type zzfABI struct {
	*zzFakeABI
	cons      *zzfCons
	nAssets   int
	evLevel   int
	commitReq *labi.CommitRequest
	commits   int
	cleared   int
	afterTxs  []*blockchain.Transaction
}

var zzfStateRoot = bytes.Repeat([]byte{0x5a}, 32)

func zzfAssets(n int) []*blockchain.BlockAsset {
	all := []*blockchain.BlockAsset{{Module: "random", Data: []byte{1, 2}}, {Module: "auth", Data: []byte{3}}}
	return all[:n] // for n == 2 NOT sorted by module: sealBlock has to sort
}

// Events. The engine allows 16 goroutines per path and smt.Update (CalculateEventRoot) spawns some per
// key, so the number of events is a parameter: level 1 = one event from AfterTransactionsExecute whose
// data lists the IDs of the payload (the event root then still depends on exactly which transactions
// were included), level 2 = plus one event per executed transaction, level 3 = plus one from
// BeforeTransactionsExecute.
func zzfEvent(name string, data ...byte) *blockchain.Event {
	return &blockchain.Event{Module: "token", Name: name, Data: data, Topics: []codec.Hex{append([]byte{0xee, byte(len(name))}, data...)}}
}

func zzfTxKeys(txs []*blockchain.Transaction) []byte {
	out := []byte{}
	for _, tx := range txs {
		out = append(out, tx.Params[0])
	}
	return out
}

// zzfExpectedEvents: the events the application returns for a block with these transactions.
func zzfExpectedEvents(txs []*blockchain.Transaction, level int) []*blockchain.Event {
	evs := blockchain.Events{}
	if level >= 3 {
		evs = append(evs, zzfEvent("before"))
	}
	for _, tx := range txs {
		if level >= 2 {
			evs = append(evs, zzfEvent("tx", tx.Params[0]))
		}
	}
	evs = append(evs, zzfEvent("after", zzfTxKeys(txs)...))
	evs.UpdateIndex()
	return evs
}

func (a *zzfABI) InitStateMachine(*labi.InitStateMachineRequest) (*labi.InitStateMachineResponse, error) {
	if a.cons.failAt == zzfFailInitSM {
		return nil, zzErrABI
	}
	return &labi.InitStateMachineResponse{ContextID: []byte{1}}, nil
}
func (a *zzfABI) InsertAssets(*labi.InsertAssetsRequest) (*labi.InsertAssetsResponse, error) {
	if a.cons.failAt == zzfFailInsertAssets {
		return nil, zzErrABI
	}
	return &labi.InsertAssetsResponse{Assets: zzfAssets(a.nAssets)}, nil
}
func (a *zzfABI) BeforeTransactionsExecute(*labi.BeforeTransactionsExecuteRequest) (*labi.BeforeTransactionsExecuteResponse, error) {
	if a.cons.failAt == zzfFailABIBefore {
		return nil, zzErrABI
	}
	res := &labi.BeforeTransactionsExecuteResponse{}
	if a.evLevel >= 3 {
		res.Events = []*blockchain.Event{zzfEvent("before")}
	}
	return res, nil
}
func (a *zzfABI) ExecuteTransaction(req *labi.ExecuteTransactionRequest) (*labi.ExecuteTransactionResponse, error) {
	res, err := a.zzFakeABI.ExecuteTransaction(req)
	if err != nil {
		return nil, err
	}
	if a.evLevel >= 2 {
		res.Events = []*blockchain.Event{zzfEvent("tx", req.Transaction.Params[0])}
	}
	return res, nil
}
func (a *zzfABI) AfterTransactionsExecute(req *labi.AfterTransactionsExecuteRequest) (*labi.AfterTransactionsExecuteResponse, error) {
	if a.cons.failAt == zzfFailABIAfter {
		return nil, zzErrABI
	}
	a.afterTxs = req.Transactions
	return &labi.AfterTransactionsExecuteResponse{Events: []*blockchain.Event{zzfEvent("after", zzfTxKeys(req.Transactions)...)}}, nil
}
func (a *zzfABI) Commit(req *labi.CommitRequest) (*labi.CommitResponse, error) {
	a.commits++
	a.commitReq = req
	if a.cons.failAt == zzfFailCommit {
		return nil, zzErrABI
	}
	return &labi.CommitResponse{StateRoot: zzfStateRoot}, nil
}
func (a *zzfABI) Clear(*labi.ClearRequest) (*labi.ClearResponse, error) {
	a.cleared++
	return &labi.ClearResponse{}, nil
}

// ---- environment -----------------------------------------------------------------------------------

type zzfEnv struct {
	t            *zzT
	lim          uint32
	genDB, chDB  *db.DB
	cons         *zzfCons
	abi          *zzfABI
	cfg          *config.Config
	g            *Generator
	tip          *blockchain.BlockHeader
	prevPresent  bool
	prev         GeneratorInfo
	prevMax      uint32 // largest height generated according to the stored info
	txs          []*blockchain.Transaction
	maxSize      uint32
	genesisTs    uint32
	tipSlot      int
}

const (
	zzfDue        = iota // the slot after the tip's, ours, 3 s into the slot
	zzfSameSlot          // still the tip's slot: not due
	zzfMissedWait        // a slot was missed and the slot is younger than the wait threshold: not yet
	zzfMissedGo          // a slot was missed, threshold passed: due
	zzfOtherSlot         // the slot belongs to the other validator
	zzfDueLate           // ours, 9 s into the slot (clock-skew harness)
	zzfNTiming
)

// zzfClock returns the current unix time (fixed under the engine). align: natively wait for the start
// of a second so that the following few milliseconds of set-up do not cross a second boundary.
func zzfClock(t *zzT, align bool) int64 {
	if t.Symbolic() {
		zzfNowVal = 1700000000
		return zzfNowVal
	}
	for align && time.Now().Nanosecond() > 150_000_000 {
		time.Sleep(5 * time.Millisecond)
	}
	return time.Now().Unix()
}

func zzfWrite(d *db.DB, prefix, key, value []byte) {
	view := diffdb.New(d, prefix)
	view.Set(key, value)
	batch := d.NewBatch()
	view.Commit(batch)
	d.Write(batch)
}

func zzfNewDB(t *zzT) *db.DB {
	d, err := db.NewInMemoryDB()
	if err != nil {
		t.Fail("cannot create database")
	}
	return d
}

// zzfStoreKeys puts the plain keys of validator i into the generator database (what
// saveGeneratorsFromFile does); Init -> loadGenerator enables generation from them.
func zzfStoreKeys(genDB *db.DB, i int) {
	plain := &PlainKeys{GeneratorKey: zzfPub[i], GeneratorPrivateKey: zzfPriv[i], BLSKey: bytes.Repeat([]byte{byte(0x10 + i)}, 48), BLSPrivateKey: bytes.Repeat([]byte{byte(0x20 + i)}, 32)}
	keys := &Keys{Address: zzfAddr[i], Type: KeyTypePlain, Data: plain.Encode()}
	zzfWrite(genDB, GeneratorDBPrefixKeys, zzfAddr[i], keys.Encode())
}

func zzfChain(tip *blockchain.BlockHeader, chDB *db.DB, maxSize uint32) *blockchain.Chain {
	c := blockchain.NewChain(&blockchain.ChainConfig{ChainID: zzfChainID, MaxTransactionsLength: maxSize, MaxBlockCache: 4})
	c.Init(&blockchain.Block{Header: &blockchain.BlockHeader{}}, chDB)
	if err := c.DataAccess().Cache(&blockchain.Block{Header: tip}); err != nil {
		panic(err)
	}
	return c
}

func zzfTip(height uint32, slot int, genesisTs uint32, id byte) *blockchain.BlockHeader {
	return &blockchain.BlockHeader{Version: 2, Height: height, ID: bytes.Repeat([]byte{id}, 32), Timestamp: genesisTs + uint32(slot*zzfBlockTime) + 4,
		GeneratorAddress: zzfAddr[1], StateRoot: bytes.Repeat([]byte{0x11}, 32), PreviousBlockID: bytes.Repeat([]byte{id ^ 0xff}, 32)}
}

// zzfStart builds a started generator (NewGenerator + Init) over the given databases.
func zzfStart(t *zzT, e *zzfEnv, chain *blockchain.Chain, pool *txpool.TransactionPool) *Generator {
	g := NewGenerator(&GeneratorParams{Consensus: e.cons, ABI: e.abi, Pool: pool, Chain: chain})
	err := g.Init(&GeneratorInitParams{CTX: context.Background(), Cfg: e.cfg, Logger: zzfLogger{}, BlockchainDB: e.chDB, GeneratorDB: e.genDB})
	if !t.Symbolic() {
		g.checkLoop.Stop()
	}
	t.Assert(err == nil, "Init on the generator database succeeds")
	return g
}

type zzfOpts struct {
	timing   int
	failAt   int
	txs      []*blockchain.Transaction
	maxSize  uint32
	nAssets  int
	two      bool // restrict the application's transaction verdicts (see zzFakeABI.two)
	prevMode int  // stored GeneratorInfo: 0 = present or absent (forks), 1 = absent, 2 = present
	aggMode  int  // aggregate commit returned by consensus: 0 = empty or not (forks), 1 = empty, 2 = non-empty
}

// zzfNewEnv: one generator (validator 0) about to forge on a tip of symbolic height with a symbolic
// (or absent) stored GeneratorInfo.
func zzfNewEnv(t *zzT, o zzfOpts) *zzfEnv {
	e := &zzfEnv{t: t, lim: uint32(1) << uint(t.Param("hbits", 7)), txs: o.txs, maxSize: o.maxSize}
	e.genDB, e.chDB = zzfNewDB(t), zzfNewDB(t)
	zzfStoreKeys(e.genDB, 0)

	// stored info: absent, or arbitrary heights (the forged height may be lower, equal or higher)
	switch o.prevMode {
	case 0:
		e.prevPresent = t.Bool("prev.present")
	case 2:
		e.prevPresent = true
	}
	if e.prevPresent {
		e.prev = GeneratorInfo{Height: t.U32("prev.height"), MaxHeightPrevoted: t.U32("prev.maxHeightPrevoted"), MaxHeightGenerated: t.U32("prev.maxHeightGenerated")}
		t.Assume(t.And(e.prev.Height < e.lim, t.And(e.prev.MaxHeightPrevoted < e.lim, e.prev.MaxHeightGenerated < e.lim)))
		e.prevMax = t.IteU32(e.prev.MaxHeightGenerated > e.prev.Height, e.prev.MaxHeightGenerated, e.prev.Height)
		raw := e.prev.Encode()
		if o.failAt == zzfFailInfoCorrupt {
			raw = []byte{0x08} // key of field 1 without a value
		}
		zzfWrite(e.genDB, GeneratorDBPrefixGeneratedInfo, bytes.Join([][]byte{GeneratorDBPrefixGeneratedInfo, zzfAddr[0]}, nil), raw)
	}
	// tip and BFT heights
	h := t.U32("tip.height")
	mhp := t.U32("bft.maxHeightPrevoted")
	t.Assume(t.And(h < e.lim-1, mhp <= h))
	// clock and slots: validator 0 owns the even slots
	offset, ahead, cur := int64(3), 1, 100
	switch o.timing {
	case zzfSameSlot:
		ahead = 0
	case zzfMissedWait:
		ahead, offset = 2, 1
	case zzfMissedGo:
		ahead = 2
	case zzfOtherSlot:
		cur = 101
	case zzfDueLate:
		offset = 9
	}
	now := zzfClock(t, o.timing == zzfDueLate)
	e.genesisTs = uint32(now - int64(cur*zzfBlockTime) - offset)
	e.tipSlot = cur - ahead
	e.tip = zzfTip(h, e.tipSlot, e.genesisTs, 0x77)
	chain := zzfChain(e.tip, e.chDB, o.maxSize)

	ac := &blockchain.AggregateCommit{Height: t.U32("aggregateCommit.height"), AggregationBits: []byte{}, CertificateSignature: []byte{}}
	t.Assume(ac.Height < e.lim)
	if o.aggMode == 2 || (o.aggMode == 0 && t.Bool("aggregateCommit.nonEmpty")) {
		ac.AggregationBits, ac.CertificateSignature = []byte{0x03}, bytes.Repeat([]byte{0xc5}, 96)
	}
	e.cons = &zzfCons{t: t, slot: validator.NewBlockSlot(e.genesisTs, zzfBlockTime), genDB: e.genDB, failAt: o.failAt, tipHeight: h, mhp: mhp, agg: ac,
		gens:      liskbft.Generators{liskbft.NewGenerator(zzfAddr[0], zzfPub[0]), liskbft.NewGenerator(zzfAddr[1], zzfPub[1])},
		paramsCur: zzfParams(zzfHashCur), paramsNext: zzfParams(zzfHashNext), implies: t.Bool("bft.impliesMaxPrevotes")}
	e.abi = &zzfABI{zzFakeABI: &zzFakeABI{t: t, two: o.two}, cons: e.cons, nAssets: o.nAssets, evLevel: t.Param("events", 1)}
	e.cfg = &config.Config{System: &config.SystemConfig{}, Generator: &config.GeneratorConfig{Keys: &config.KeysConfig{}},
		Genesis: &config.GenesisConfig{ChainID: zzfChainID, BlockTime: zzfBlockTime, MaxTransactionsSize: o.maxSize}}
	pool := zzfNewPool(t, chain, e.chDB, o.txs)
	e.g = zzfStart(t, e, chain, pool)
	t.Assert(e.g.IsGenerationEnabled(zzfAddr[0]) && !e.g.IsGenerationEnabled(zzfAddr[1]), "Init enables generation for exactly the stored keys")
	db.ZZMonitorReset(e.genDB)
	return e
}

// zzfCheckHandoff: the persistence-order obligations for one hand-off.
func zzfCheckHandoff(t *zzT, h *zzfHandoff) {
	hd := h.block.Header
	if h.writes >= 0 {
		t.Assert(h.writes+h.direct >= 1, "order: a durable write to the generator DB precedes the hand-off")
	}
	t.Assert(h.found && h.decodeErr == nil, "order: at hand-off the generator DB durably holds a GeneratorInfo for the generator")
	t.Assert(t.And(h.info.Height == hd.Height, t.And(h.info.MaxHeightGenerated == hd.MaxHeightGenerated, h.info.MaxHeightPrevoted == hd.MaxHeightPrevoted)),
		"order: the GeneratorInfo persisted before the hand-off is the one of the handed block (height, maxHeightPrevoted, maxHeightGenerated)")
}

// zzfRestartMHG: a NEW generator on the same generator database; the maxHeightGenerated its next
// initBlockHeader reports.
func zzfRestartMHG(t *zzT, e *zzfEnv, chain *blockchain.Chain) (uint32, bool) {
	e.cons.reset()
	g2 := zzfStart(t, e, chain, nil)
	t.Assert(g2.IsGenerationEnabled(zzfAddr[0]), "restart: generation is enabled again from the stored keys")
	hd, err := g2.initBlockHeader(diffdb.New(e.genDB, GeneratorDBPrefixGeneratedInfo), zzfAddr[0], diffdb.New(e.chDB, []byte{9}))
	if err != nil || hd == nil {
		return 0, false
	}
	return hd.MaxHeightGenerated, true
}

// zzH_C15_forge_persist_before_handoff (C15.c): one real forge() from an arbitrary stored
// GeneratorInfo (absent / forged height lower, equal, higher than the stored heights), with every
// fallible step failing in turn, every timing class of shouldForge, and 0..1 pooled transaction with
// all application verdicts (incl. transport errors). Obligations:
//   - AddInternal is called at most once per forge, and only when nothing failed and a block is due;
//   - when it is called the generator DB has been written (monitor) and durably holds
//     GeneratorInfo{height, maxHeightPrevoted, maxHeightGenerated} of exactly the handed header
//     (read back inside AddInternal through a fresh view, as a restarted node would);
//   - the handed header reports maxHeightGenerated = max(stored height, stored maxHeightGenerated);
//   - after a restart (NEW Generator, real Init, same generator DB) the next initBlockHeader reports
//     maxHeightGenerated >= every height handed on and >= what was stored before (exactly the maximum).
//
//zz:opt loop=300 lockdiscipline=off require=handed,failed,not-due,lower,equal,higher,no-previous-info,with-transaction
//zz:stub time.Now zzfStubNow
//zz:stub time.NewTicker zzfStubNewTicker
//zz:stub (*~/pkg/txpool.TransactionPool).GetProcessable zzfStubGetProcessable
//zz:stub (*~/pkg/blockchain.Transaction).Size zzStubTxSize
//zz:quick hbits=7 sizes=1 budget=300s
//zz:thorough hbits=14 sizes=1 budget=1800s
func zzH_C15_forge_persist_before_handoff(t *zzT) {
	o := zzfOpts{maxSize: 1 << 20}
	o.failAt = t.Choice("failAt", zzfNFail)
	if o.failAt == zzfFailNone {
		o.timing = t.Choice("timing", zzfDueLate) // zzfDue … zzfOtherSlot
		if o.timing == zzfDue {
			ntx := t.Range("ntx", 0, 1)
			o.txs, _ = zzNewTxs(t, ntx)
			for i, tx := range o.txs {
				tx.Signatures, tx.Params = []codec.Hex{bytes.Repeat([]byte{2}, 64)}, []byte{byte(i)}
			}
		}
	}
	e := zzfNewEnv(t, o)
	if o.failAt == zzfFailInfoCorrupt {
		t.Assume(e.prevPresent)
	}
	chain := e.g.chain

	e.g.forge()

	handed := e.cons.handed
	t.Assert(len(handed) <= 1, "AddInternal is called at most once per forge")
	due := o.timing == zzfDue || o.timing == zzfMissedGo
	if o.failAt != zzfFailNone || !due {
		t.Assert(len(handed) == 0, "no block is handed on when a step of the forge fails or no block is due")
	} else {
		t.Assert(len(handed) == 1, "a due forge without failures hands a block on")
	}
	var top uint32 = e.prevMax
	if len(handed) == 1 {
		hd := handed[0].block.Header
		zzfCheckHandoff(t, handed[0])
		t.Assert(hd.Height == e.tip.Height+1, "the handed block extends the tip")
		t.Assert(hd.MaxHeightGenerated == e.prevMax, "maxHeightGenerated of the handed header = largest height generated according to the stored info")
		top = t.IteU32(hd.Height > top, hd.Height, top)
	}
	if o.failAt != zzfFailInfoCorrupt {
		mhg, ok := zzfRestartMHG(t, e, chain)
		t.Assert(ok, "restart: initBlockHeader succeeds")
		if len(handed) == 1 {
			t.Assert(mhg >= handed[0].block.Header.Height, "restart: maxHeightGenerated >= the height of every block handed on")
		}
		t.Assert(mhg == top, "restart: maxHeightGenerated = largest height ever generated (stored before or handed on now)")
	}
	switch {
	case len(handed) == 1:
		hd := handed[0].block.Header
		if len(handed[0].block.Transactions) > 0 {
			t.Reach("with-transaction")
		}
		if !e.prevPresent {
			t.Reach("no-previous-info")
		} else if hd.Height < e.prev.Height {
			t.Reach("lower")
		} else if hd.Height == e.prev.Height {
			t.Reach("equal")
		} else {
			t.Reach("higher")
		}
		t.Reach("handed")
	case o.failAt != zzfFailNone:
		t.Reach("failed")
	default:
		t.Reach("not-due")
	}
}

// zzH_C15_forge_restart_chain_switch (C15.b/c through the real forge): forge, restart (new Generator
// on the same generator DB), the node's tip moves as fork choice allows — (maxHeightPrevoted, height)
// grows lexicographically, so the second forge may be at a LOWER, equal or higher height —, forge
// again, restart. Both blocks are handed on with their info persisted first, the two signed headers
// do not contradict (real AreDistinctHeadersContradicting), the second header and the final restart
// report the largest height ever generated.
//
//zz:opt loop=300 lockdiscipline=off require=second-lower,second-equal,second-higher merge=~/pkg/consensus/contradiction.AreDistinctHeadersContradicting
//zz:stub time.Now zzfStubNow
//zz:stub time.NewTicker zzfStubNewTicker
//zz:stub (*~/pkg/txpool.TransactionPool).GetProcessable zzfStubGetProcessable
//zz:quick hbits=7 budget=300s
//zz:thorough hbits=14 budget=1800s
func zzH_C15_forge_restart_chain_switch(t *zzT) {
	e := zzfNewEnv(t, zzfOpts{maxSize: 1 << 20})
	// the tip after the chain switch (drawn and constrained before anything runs)
	h := t.U32("tip2.height")
	p := t.U32("tip2.maxHeightPrevoted")
	t.Assume(t.And(h < e.lim-1, p <= h))
	t.Assume(t.Or(p > e.cons.mhp, t.And(p == e.cons.mhp, h > e.tip.Height)))

	e.g.forge()
	t.Assert(len(e.cons.handed) == 1, "first forge hands a block on")
	if len(e.cons.handed) != 1 {
		return
	}
	first := e.cons.handed[0]
	zzfCheckHandoff(t, first)
	h1 := first.block.Header

	// chain switch + restart
	tip2 := zzfTip(h, e.tipSlot, e.genesisTs, 0x78)
	chain2 := zzfChain(tip2, e.chDB, e.maxSize)
	e.cons.reset()
	e.cons.tipHeight, e.cons.mhp = h, p
	db.ZZMonitorReset(e.genDB)
	g2 := zzfStart(t, e, chain2, zzfNewPool(t, chain2, e.chDB, nil))
	g2.forge()
	t.Assert(len(e.cons.handed) == 1, "second forge (after restart, on the better chain) hands a block on")
	if len(e.cons.handed) != 1 {
		return
	}
	second := e.cons.handed[0]
	zzfCheckHandoff(t, second)
	h2 := second.block.Header
	t.Assert(t.And(h2.Height == h+1, h2.MaxHeightPrevoted == p), "second header: height = new tip + 1, maxHeightPrevoted = BFT value of the new tip")
	top1 := t.IteU32(h1.Height > e.prevMax, h1.Height, e.prevMax)
	t.Assert(h2.MaxHeightGenerated == top1, "second header: maxHeightGenerated = largest height generated before (stored info and first forge)")
	t.Assert(!contradiction.AreDistinctHeadersContradicting(contradiction.NewBFTBlockHeader(h1.Readonly()), contradiction.NewBFTBlockHeader(h2.Readonly())),
		"the two headers signed by the generator do not contradict")
	mhg, ok := zzfRestartMHG(t, e, chain2)
	top2 := t.IteU32(h2.Height > top1, h2.Height, top1)
	t.Assert(ok && mhg == top2, "final restart: maxHeightGenerated = largest height ever generated")
	t.Assert(t.And(mhg >= h1.Height, mhg >= h2.Height), "final restart: maxHeightGenerated >= the height of every block handed on")
	if h2.Height < h1.Height {
		t.Reach("second-lower")
	} else if h2.Height == h1.Height {
		t.Reach("second-equal")
	} else {
		t.Reach("second-higher")
	}
}

// zzH_C15_forge_header_static (C15.d, static rules): the block handed on by a real forge() over a
// pool of 0..2 transactions (symbolic nonce / fee / size, symbolic payload limit, symbolic verdicts),
// 0..2 assets and application events satisfies the acceptance rules a node applies to a received
// block that can be evaluated without executing it:
//   real code:  Block.Validate() (header field lengths, Transaction.Validate of the payload,
//               transactionRoot = Merkle root of the payload IDs, assets sorted/unique, assetRoot),
//               BlockHeader.VerifySignature with the generator public key and the chain ID,
//               rmt.CalculateRoot / BlockAssets.GetRoot / CalculateEventRoot recomputation,
//               Generators.AtTimestamp for the generator of the header's slot;
//   transcribed from consensus/verify.go: version == 2, payload size <= MaxTransactionsLength,
//               height = tip + 1, previousBlockID = tip ID, tip slot < header slot <= current slot,
//               maxHeightPrevoted = the node's BFT value, aggregateCommit = consensus.GetAggregateCommit();
//   roots:      stateRoot = what the application's dry-run Commit (on the tip's state root) returned,
//               eventRoot = root of the events the application returned for exactly the included
//               transactions, validatorsHash = BFT parameters of height + 1, ID = hash of the header.
//   NOT checked here (needs the node): contradiction against the chain's BFT store, verification of a
//   non-empty aggregate commit (C06), re-execution by the application — see
//   zzH_C15_forge_self_accept_node for the real verifyBlock / processValidated.
// The payload is exactly the picked transactions that verified and executed, in pick order.
//
//zz:opt loop=300 lockdiscipline=off mapperm=1 require=empty,one,two,sender-dropped,size-stop
//zz:stub time.Now zzfStubNow
//zz:stub time.NewTicker zzfStubNewTicker
//zz:stub (*~/pkg/txpool.TransactionPool).GetProcessable zzfStubGetProcessable
//zz:stub (*~/pkg/blockchain.Transaction).Size zzStubTxSize
//zz:quick hbits=7 n=2 sizes=1 verdicts=3 senders=1 dims=0 assets=2 events=1 mapperm=0 budget=300s
//zz:thorough hbits=7 n=2 sizes=1 verdicts=4 senders=0 dims=1 assets=2 events=1 budget=1800s
func zzH_C15_forge_header_static(t *zzT) {
	n := t.Range("n", 0, t.Param("n", 2))
	txs, snd := zzNewTxs(t, n)
	for i, tx := range txs {
		tx.Signatures, tx.Params = []codec.Hex{bytes.Repeat([]byte{2}, 64)}, []byte{byte(i)}
		t.Assume(tx.Nonce < 1<<62) // "consecutive" below must not wrap around
		for j := 0; j < i; j++ {
			if snd[j] == snd[i] { // processable lists hold consecutive nonces
				t.Assume(t.Or(txs[j].Nonce+1 == tx.Nonce, tx.Nonce+1 == txs[j].Nonce))
			}
		}
	}
	maxSize := t.U32("maxSize")
	t.Assume(maxSize <= 1<<22)
	o := zzfOpts{timing: zzfDue, txs: txs, maxSize: maxSize, two: t.Param("verdicts", 4) < 4}
	if t.Param("dims", 1) == 1 { // every combination of the secondary dimensions
		if t.Bool("missedSlot") {
			o.timing = zzfMissedGo
		}
		o.nAssets = t.Range("assets", 0, t.Param("assets", 1))
	} else { // quick: three representative combinations
		switch t.Choice("variant", 3) {
		case 0: // nothing stored, empty aggregate commit, no assets
			o.prevMode, o.aggMode = 1, 1
		case 1: // stored info, non-empty aggregate commit, assets
			o.prevMode, o.aggMode, o.nAssets = 2, 2, t.Param("assets", 1)
		case 2: // stored info, missed slot, assets
			o.prevMode, o.aggMode, o.nAssets, o.timing = 2, 1, t.Param("assets", 1), zzfMissedGo
		}
	}
	e := zzfNewEnv(t, o)

	e.g.forge()

	t.Assert(len(e.cons.handed) == 1, "a due forge without failures hands a block on")
	if len(e.cons.handed) != 1 {
		return
	}
	zzfCheckHandoff(t, e.cons.handed[0])
	b := e.cons.handed[0].block
	hd := b.Header
	// payload = picks that verified and executed, in pick order
	var want []*blockchain.Transaction
	dropped := false
	for _, i := range e.abi.picks {
		if e.abi.vOK[i] && e.abi.eOK[i] {
			want = append(want, txs[i])
		} else {
			dropped = true
		}
	}
	same := len(want) == len(b.Transactions)
	for k := 0; same && k < len(want); k++ {
		same = want[k] == b.Transactions[k]
	}
	t.Assert(same, "payload = the selected transactions that verified and executed, in selection order")
	if !same {
		return
	}
	ids := make([][]byte, len(b.Transactions))
	size := 0
	for k, tx := range b.Transactions {
		ids[k] = tx.ID
		size += tx.Size()
	}
	// --- static acceptance rules ---
	t.Assert(b.Validate() == nil, "rule: Block.Validate accepts the block (field lengths, payload static validity, transaction root, assets, asset root)")
	t.Assert(hd.Version == 2, "rule: version")
	t.Assert(uint32(size) <= e.g.chain.MaxTransactionsLength(), "rule: payload within the size limit of the chain")
	t.Assert(hd.Height == e.tip.Height+1, "rule: consecutive height")
	t.Assert(bytes.Equal(hd.PreviousBlockID, e.tip.ID), "rule: previous block link")
	hs, cs := e.cons.slot.GetSlotNumber(hd.Timestamp), e.cons.slot.GetSlotNumber(uint32(zzfClock2(t)))
	t.Assert(hs > e.tipSlot, "rule: strictly later slot than the tip")
	t.Assert(hs <= cs, "rule: not a future slot")
	gen, _ := e.cons.gens.AtTimestamp(e.cons.slot, hd.Timestamp)
	t.Assert(bytes.Equal(gen.Address(), hd.GeneratorAddress) && bytes.Equal(hd.GeneratorAddress, zzfAddr[0]), "rule: generator assigned to the slot of the header timestamp")
	t.Assert(hd.MaxHeightPrevoted == e.cons.mhp, "rule: maxHeightPrevoted equals the node's own value")
	t.Assert(hd.MaxHeightGenerated == e.prevMax, "maxHeightGenerated = largest height generated before")
	ac := hd.AggregateCommit
	t.Assert(ac != nil && ac.Height == e.cons.agg.Height && bytes.Equal(ac.AggregationBits, e.cons.agg.AggregationBits) && bytes.Equal(ac.CertificateSignature, e.cons.agg.CertificateSignature),
		"rule: aggregate commit is the one consensus.GetAggregateCommit returned")
	t.Assert(bytes.Equal(hd.TransactionRoot, rmt.CalculateRoot(ids)), "rule: transaction root matches the payload")
	wantAssets := blockchain.BlockAssets(zzfAssets(e.abi.nAssets))
	wantAssets.Sort()
	okAssets := len(b.Assets) == len(wantAssets)
	for k := 0; okAssets && k < len(wantAssets); k++ {
		okAssets = b.Assets[k].Module == wantAssets[k].Module && bytes.Equal(b.Assets[k].Data, wantAssets[k].Data)
	}
	t.Assert(okAssets, "assets = what the application inserted, sorted by module")
	t.Assert(bytes.Equal(hd.AssetRoot, wantAssets.GetRoot()), "rule: asset root matches the assets")
	evRoot, evErr := blockchain.CalculateEventRoot(zzfExpectedEvents(b.Transactions, e.abi.evLevel))
	t.Assert(evErr == nil && bytes.Equal(hd.EventRoot, evRoot), "rule: event root = root of the application's events for exactly the included transactions")
	t.Assert(bytes.Equal(hd.StateRoot, zzfStateRoot), "state root = what the application's Commit returned")
	t.Assert(e.abi.commits == 1 && e.abi.commitReq.DryRun && bytes.Equal(e.abi.commitReq.StateRoot, e.tip.StateRoot), "the application commit is one dry run on top of the tip's state root")
	t.Assert(bytes.Equal(hd.ValidatorsHash, zzfHashNext), "rule: validatorsHash = hash of the BFT parameters of height + 1")
	t.Assert(len(e.abi.afterTxs) == len(b.Transactions), "AfterTransactionsExecute saw exactly the payload")
	t.Assert(hd.VerifySignature(zzfChainID, zzfPub[0]), "rule: signature by the generator key over the chain-ID-tagged header")
	t.Assert(!hd.VerifySignature(zzfChainID, zzfPub[1]), "the signature is not the other validator's")
	t.Assert(bytes.Equal(hd.ID, crypto.Hash(hd.Encode())), "block ID = hash of the signed header")
	t.Assert(e.abi.cleared == 1, "the application context is cleared once")
	t.ObserveU64("included", uint64(len(b.Transactions)))
	switch len(b.Transactions) {
	case 0:
		t.Reach("empty")
	case 1:
		t.Reach("one")
	default:
		t.Reach("two")
	}
	if dropped {
		t.Reach("sender-dropped")
	} else if len(e.abi.picks) < n {
		t.Reach("size-stop")
	}
}

// zzfClock2: the clock when the block is validated (after forge returned).
func zzfClock2(t *zzT) int64 {
	if t.Symbolic() {
		return zzfNowVal
	}
	return time.Now().Unix()
}

// zzH_C15_forge_clock_slot_boundary (C15.d, timing): forge() reads the clock twice — `now` at the top
// decides whether a block is due and WHICH validator owns the slot, initBlockHeader reads it again for
// the header timestamp. The clock advancing between the two reads (modelled as the duration of
// consensus.GetAggregateCommit, 0 or 1 s; natively a real sleep) must not move the timestamp into a
// slot of another validator: the node's own verifyBlock would reject the block ("invalid block
// generator") while its GeneratorInfo is already persisted.
//
//zz:opt loop=300 lockdiscipline=off require=handed
//zz:stub time.Now zzfStubNow
//zz:stub time.NewTicker zzfStubNewTicker
//zz:stub (*~/pkg/txpool.TransactionPool).GetProcessable zzfStubGetProcessable
//zz:quick hbits=7
//zz:thorough hbits=7
func zzH_C15_forge_clock_slot_boundary(t *zzT) {
	e := zzfNewEnv(t, zzfOpts{timing: zzfDueLate, maxSize: 1 << 20})
	e.cons.skew = int64(t.Range("clockAdvanceSeconds", 0, 1))
	e.g.forge()
	if len(e.cons.handed) != 1 {
		t.Reach("not-handed")
		return
	}
	hd := e.cons.handed[0].block.Header
	gen, _ := e.cons.gens.AtTimestamp(e.cons.slot, hd.Timestamp)
	// FINDING (unchanged tree, natively confirmed): generator.go:147 vs :481 — with the second read one
	// second later and in the next slot the header carries a timestamp whose slot belongs to the other
	// validator; consensus/verify.go:50-60 rejects it ("invalid block generator").
	t.Assert(bytes.Equal(gen.Address(), hd.GeneratorAddress), "timing: the header timestamp stays in the slot whose generator forge() selected (clock read twice)")
	t.Reach("handed")
}

// ---- self-acceptance on a real node ------------------------------------------------------------------

// zzfApp: a deterministic application for BOTH roles — the generator's dry run and the node's
// execution of the produced block get the same answers for the same questions (verdict per
// transaction drawn once, state root a function of the height, assets / events fixed functions).
type zzfApp struct {
	t          *zzT
	height     uint32
	vals       []*labi.Validator
	valChange  int // 0: AfterTransactionsExecute announces nothing, 1: re-announces the current parameters, 2: new BFT weights
	verify     [4]int32
	execute    [4]int32
	drawn      [4]bool
	drawnE     [4]bool
	verdicts   int
	rootErr    bool
	assetErr   bool
}

func (a *zzfApp) root() []byte { return bytes.Repeat([]byte{0x40 + byte(a.height)}, 32) }
func (a *zzfApp) assets() []*blockchain.BlockAsset {
	return []*blockchain.BlockAsset{{Module: "random", Data: []byte{7}}}
}
func (a *zzfApp) Init(*labi.InitRequest) (*labi.InitResponse, error) { return &labi.InitResponse{}, nil }
func (a *zzfApp) InitStateMachine(req *labi.InitStateMachineRequest) (*labi.InitStateMachineResponse, error) {
	a.height = req.Header.Height
	return &labi.InitStateMachineResponse{ContextID: []byte{1}}, nil
}
func (a *zzfApp) InitGenesisState(*labi.InitGenesisStateRequest) (*labi.InitGenesisStateResponse, error) {
	return &labi.InitGenesisStateResponse{}, nil
}
func (a *zzfApp) InsertAssets(*labi.InsertAssetsRequest) (*labi.InsertAssetsResponse, error) {
	return &labi.InsertAssetsResponse{Assets: a.assets()}, nil
}
func (a *zzfApp) VerifyAssets(req *labi.VerifyAssetsRequest) (*labi.VerifyAssetsResponse, error) {
	w := a.assets()
	if len(req.Assets) != 1 || req.Assets[0].Module != w[0].Module || !bytes.Equal(req.Assets[0].Data, w[0].Data) {
		a.assetErr = true
		return nil, zzErrABI
	}
	return &labi.VerifyAssetsResponse{}, nil
}
func (a *zzfApp) BeforeTransactionsExecute(*labi.BeforeTransactionsExecuteRequest) (*labi.BeforeTransactionsExecuteResponse, error) {
	return &labi.BeforeTransactionsExecuteResponse{}, nil
}
func (a *zzfApp) VerifyTransaction(req *labi.VerifyTransactionRequest) (*labi.VerifyTransactionResponse, error) {
	i := int(req.Transaction.Params[0])
	if !a.drawn[i] {
		v := a.t.I32(a.t.Name("verify", i))
		a.t.Assume(a.t.And(v >= -1, v <= 2))
		if a.verdicts < 4 {
			a.t.Assume(v != 2)
		}
		a.verify[i], a.drawn[i] = v, true
	}
	if a.verify[i] == 2 {
		return nil, zzErrABI
	}
	return &labi.VerifyTransactionResponse{Result: a.verify[i]}, nil
}
func (a *zzfApp) ExecuteTransaction(req *labi.ExecuteTransactionRequest) (*labi.ExecuteTransactionResponse, error) {
	// like the real in-process application (framework.ABIHandler.ExecuteTransaction) the scripted one READS the
	// consensus parameters of the request: an engine that leaves them out crashes here (defect found on the real
	// handler by zzH_C16_abi_exec_engine_request)
	_ = req.Consensus.ImplyMaxPrevote
	i := int(req.Transaction.Params[0])
	if !a.drawnE[i] {
		v := a.t.I32(a.t.Name("execute", i))
		a.t.Assume(a.t.And(v >= -1, v <= 2))
		if a.verdicts < 4 {
			a.t.Assume(v != 2)
		}
		a.execute[i], a.drawnE[i] = v, true
	}
	if a.execute[i] == 2 {
		return nil, zzErrABI
	}
	// the application hands back the events it logged together with the verdict — also for a transaction it
	// judges Invalid (the framework returns its event logger's content in every case)
	return &labi.ExecuteTransactionResponse{Result: a.execute[i], Events: []*blockchain.Event{zzfEvent("tx", req.Transaction.Params[0])}}, nil
}
func (a *zzfApp) AfterTransactionsExecute(req *labi.AfterTransactionsExecuteRequest) (*labi.AfterTransactionsExecuteResponse, error) {
	res := &labi.AfterTransactionsExecuteResponse{Events: []*blockchain.Event{zzfEvent("after", zzfTxKeys(req.Transactions)...)}}
	switch a.valChange {
	case 1:
		res.PreCommitThreshold, res.CertificateThreshold, res.NextValidators = 2, 2, a.vals
	case 2:
		next := make([]*labi.Validator, len(a.vals))
		for i, v := range a.vals {
			next[i] = &labi.Validator{Address: v.Address, BFTWeight: 2, GeneratorKey: v.GeneratorKey, BLSKey: v.BLSKey}
		}
		res.PreCommitThreshold, res.CertificateThreshold, res.NextValidators = 3, 4, next // (thresholds differ: an exchange of the two is visible in validatorsHash)
	}
	return res, nil
}
func (a *zzfApp) Commit(req *labi.CommitRequest) (*labi.CommitResponse, error) {
	if !req.DryRun && !bytes.Equal(req.ExpectedStateRoot, a.root()) {
		a.rootErr = true
		return nil, zzErrABI
	}
	return &labi.CommitResponse{StateRoot: a.root()}, nil
}
func (a *zzfApp) Revert(*labi.RevertRequest) (*labi.RevertResponse, error) {
	return &labi.RevertResponse{}, nil
}
func (a *zzfApp) Clear(*labi.ClearRequest) (*labi.ClearResponse, error) { return &labi.ClearResponse{}, nil }
func (a *zzfApp) Finalize(*labi.FinalizeRequest) (*labi.FinalizeResponse, error) {
	return &labi.FinalizeResponse{}, nil
}
func (a *zzfApp) GetMetadata(*labi.MetadataRequest) (*labi.MetadataResponse, error) {
	return &labi.MetadataResponse{}, nil
}
func (a *zzfApp) Query(*labi.QueryRequest) (*labi.QueryResponse, error) { return &labi.QueryResponse{}, nil }
func (a *zzfApp) Prove(*labi.ProveRequest) (*labi.ProveResponse, error) { return &labi.ProveResponse{}, nil }

// zzfNodeCons: the real Executer as the generator's Consensus; AddInternal — which in production only
// queues the block for Executer.process — records the durable state of the generator DB and runs the
// real static verification and the real process on the block at that moment.
type zzfNodeCons struct {
	*consensus.Executer
	node      *consensus.ZZC15Node
	genDB     *db.DB
	handed    []*zzfHandoff
	staticErr error
	procErr   error
	isTip     bool
}

func (c *zzfNodeCons) AddInternal(block *blockchain.Block) {
	h := &zzfHandoff{block: block}
	h.writes, h.direct, _ = db.ZZMonitor(c.genDB)
	h.found, h.decodeErr, h.info = zzfReadInfo(c.genDB, block.Header.GeneratorAddress)
	c.handed = append(c.handed, h)
	c.staticErr = c.node.VerifyBlockForGenerator(block)
	c.procErr, c.isTip = c.node.Process(block)
}

func zzfRealTx(i int, sender int, nonce uint64) *blockchain.Transaction {
	tx := &blockchain.Transaction{Module: "token", Command: "transfer", Nonce: nonce, Fee: uint64(1000 * (3 - i)), SenderPublicKey: zzSenderKeys[sender],
		Params: []byte{byte(i), 1, 2, 3}, Signatures: []codec.Hex{bytes.Repeat([]byte{2}, 64)}}
	tx.Init()
	return tx
}

// zzH_C15_forge_self_accept_node (C15.d on the real node): a real node (real chain, liskBFT module,
// consensus.Executer over the database model, two fixed validators — harness/pkg/consensus bridge
// zz_verif_export_c15.go) whose generator component is the real Generator with the real Executer as
// its Consensus. forge() produces a block for the current slot (1 or 2 slots after the tip; either
// validator's slot — both keys are enabled); AddInternal runs the node's REAL validation on it at that
// moment: Block.Validate + verifyBlock (static rules incl. contradiction against the BFT store and the
// aggregate commit from the real GetAggregateCommit), then the real Executer.process (fork choice,
// processValidated: application verification and execution, validatorsHash, event root, state root,
// commit). The application is deterministic and symbolic: per-transaction verify / execute verdicts,
// and whether AfterTransactionsExecute announces nothing, the current, or CHANGED BFT parameters.
// Obligation: whatever the application decides, the block the generator hands on is accepted and
// becomes the tip, and its GeneratorInfo was persisted before.
// Not covered: a non-empty aggregate commit (the certificate pool is empty; own aggregates are C06).
//
//zz:opt loop=300 lockdiscipline=off require=accepted,accepted-with-transactions,sender-dropped
//zz:stub time.Now zzfStubNow
//zz:stub time.NewTicker zzfStubNewTicker
//zz:stub (*~/pkg/txpool.TransactionPool).GetProcessable zzfStubGetProcessable
//zz:quick extra=1 ntx=1 verdicts=3 budget=300s
//zz:thorough extra=2 ntx=2 verdicts=4 budget=3600s
func zzH_C15_forge_self_accept_node(t *zzT) {
	slotsAhead := t.Range("slotsAhead", 1, 2)
	valChange := t.Choice("app.validatorChange", 3)
	ntx := t.Range("ntx", 0, t.Param("ntx", 1))
	var txs []*blockchain.Transaction
	for i := 0; i < ntx; i++ {
		sender := 0
		if i == 1 {
			sender = t.Choice("sender[1]", 2)
		}
		nonce := uint64(5)
		if i == 1 && sender == 0 {
			nonce = 6
		}
		txs = append(txs, zzfRealTx(i, sender, nonce))
	}
	genDB := zzfNewDB(t)
	zzfStoreKeys(genDB, 0)
	zzfStoreKeys(genDB, 1)
	var pool *txpool.TransactionPool
	if !t.Symbolic() { // the pool's promotion loop takes real time: before the node fixes its clock
		pool = zzfNewPool(t, nil, genDB, txs)
	} else {
		zzfPoolTxs = txs
	}
	node := consensus.ZZC15NewNode(t.Param("extra", 1), slotsAhead)
	if t.Symbolic() {
		zzfNowVal = node.Now()
	}
	app := &zzfApp{t: t, vals: node.Validators(), valChange: valChange, verdicts: t.Param("verdicts", 4)}
	node.SetABI(app)
	cons := &zzfNodeCons{Executer: node.Executer(), node: node, genDB: genDB}
	cfg := &config.Config{System: &config.SystemConfig{}, Generator: &config.GeneratorConfig{Keys: &config.KeysConfig{}},
		Genesis: &config.GenesisConfig{ChainID: node.ChainID(), BlockTime: node.BlockTime(), MaxTransactionsSize: node.Chain().MaxTransactionsLength()}}
	g := NewGenerator(&GeneratorParams{Consensus: cons, ABI: app, Pool: pool, Chain: node.Chain()})
	err := g.Init(&GeneratorInitParams{CTX: context.Background(), Cfg: cfg, Logger: zzfLogger{}, BlockchainDB: node.Database(), GeneratorDB: genDB})
	if !t.Symbolic() {
		g.checkLoop.Stop()
	}
	t.Assert(err == nil && g.IsGenerationEnabled(zzfAddr[0]) && g.IsGenerationEnabled(zzfAddr[1]), "Init enables both validators")
	tip := node.Chain().LastBlock().Header
	// the generator database of THIS node: the blocks of the chain were generated here, so it holds the
	// GeneratorInfo of each validator's most recent block
	for v := 0; v < 2; v++ {
		for hh := tip.Height; hh > 0; hh-- {
			bh, herr := node.Chain().DataAccess().GetBlockHeaderByHeight(hh)
			if herr == nil && bytes.Equal(bh.GeneratorAddress, zzfAddr[v]) {
				info := &GeneratorInfo{Height: bh.Height, MaxHeightPrevoted: bh.MaxHeightPrevoted, MaxHeightGenerated: bh.MaxHeightGenerated}
				zzfWrite(genDB, GeneratorDBPrefixGeneratedInfo, bytes.Join([][]byte{GeneratorDBPrefixGeneratedInfo, zzfAddr[v]}, nil), info.Encode())
				break
			}
		}
	}
	db.ZZMonitorReset(genDB)

	g.forge()

	t.Assert(len(cons.handed) == 1, "a due forge on a healthy node hands exactly one block on")
	if len(cons.handed) != 1 {
		return
	}
	zzfCheckHandoff(t, cons.handed[0])
	b := cons.handed[0].block
	t.Assert(b.Header.Height == tip.Height+1 && bytes.Equal(b.Header.PreviousBlockID, tip.ID), "the block extends the tip")
	t.Assert(cons.staticErr == nil, "self-acceptance: the node's Block.Validate + verifyBlock accept the generated block")
	t.Assert(!app.rootErr && !app.assetErr, "self-acceptance: the application sees the state root and assets it produced")
	if valChange == 2 {
		// FINDING (unchanged tree, natively confirmed): generator/abi_caller.go AfterTransactionsExecute drops
		// PreCommitThreshold / CertificateThreshold / NextValidators, so sealBlock's
		// GetBFTParameters(diffStore, height+1) still sees the old parameters; the node's processValidated
		// applies them (consensus/abi_caller.go:102-109) and rejects the block: "invalid validatorsHash".
		t.Assert(cons.procErr == nil && cons.isTip, "self-acceptance when the application changes the BFT parameters in this block: the node's process() accepts the generated block (validatorsHash)")
	} else {
		t.Assert(cons.procErr == nil && cons.isTip, "self-acceptance: the node's process() accepts the generated block and makes it the tip")
	}
	dropped := false
	for i := 0; i < ntx; i++ {
		if app.drawn[i] && !(app.verify[i] == labi.TxVerifyResultOk && app.drawnE[i] && app.execute[i] != labi.TxExecuteResultInvalid && app.execute[i] != 2) {
			dropped = true
		}
	}
	t.ObserveU64("included", uint64(len(b.Transactions)))
	if dropped {
		t.Reach("sender-dropped")
	}
	if len(b.Transactions) > 0 {
		t.Reach("accepted-with-transactions")
	}
	if valChange == 2 {
		t.Reach("validators-changed")
	}
	t.Reach("accepted")
}
