//go:build verif

package codec

import (
	"runtime"
)

// C09 "... in time and memory bounded by the input size" for the packed-array readers, whose length prefix is
// supplied by the peer (the rmt proof's idxs, ValidatorsHash weights, ...): reading a field from an arbitrary buffer
// of up to N bytes never allocates more than a small multiple of the buffer. Under the engine every make() beyond
// 65536 elements fails the obligation (engine option allocfail); natively the bytes allocated by the call are
// measured (and a "makeslice: cap out of range" panic counts as the same failure). Seed C09-12 preallocated the
// result with the claimed length.
//
//zz:opt loop=64 require=end allocfail=1
//zz:quick N=9
//zz:thorough N=12
func zzH_C09_packed_array_allocation(t *zzT) {
	n := t.Param("N", 9)
	buf := t.Bytes("buf", n)
	kind := t.Choice("reader", 6)
	var before runtime.MemStats
	if !t.Symbolic() {
		runtime.GC()
		runtime.ReadMemStats(&before)
	}
	func() {
		defer func() {
			if r := recover(); r != nil {
				if !t.Symbolic() {
					t.Fail("allocation bounded by the input size")
				}
				panic(r)
			}
		}()
		r := NewReader(buf)
		switch kind {
		case 0:
			_, _ = r.ReadUInts(1)
		case 1:
			_, _ = r.ReadUInt32s(1)
		case 2:
			_, _ = r.ReadInts(1)
		case 3:
			_, _ = r.ReadBools(1)
		case 4:
			_, _ = r.ReadBytesArray(1)
		default:
			_, _ = r.ReadStrings(1)
		}
	}()
	if !t.Symbolic() {
		var after runtime.MemStats
		runtime.ReadMemStats(&after)
		if after.TotalAlloc-before.TotalAlloc > 65536 {
			t.Fail("allocation bounded by the input size")
		}
	}
	t.Reach("end")
}
