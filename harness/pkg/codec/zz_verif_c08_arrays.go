//go:build verif

package codec

import (
	"bytes"

	"golang.org/x/text/unicode/norm"
)

// C08 on the array methods of Writer / Reader that no generated schema of /repo uses (the generator
// pkg/codec/gen emits them for []bool, []uint32, []uint64, []int32, []int64, []string, [][]byte fields):
//
//	packed   (one key, one length, the elements back to back): WriteBools/ReadBools, WriteUInt32s/ReadUInt32s,
//	         WriteUInts/ReadUInts, WriteInts/ReadInts, WriteInt32s (the Reader has NO ReadInt32s — the output of
//	         WriteInt32s is read with ReadInts and compared after widening);
//	repeated (one key per element): WriteBytesArray/ReadBytesArray, WriteStrings/ReadStrings, with the
//	         Lisk32 / Hex array conversions in front of them.
//
// The array readers have no `strict` parameter: the generated DecodeFromReader and DecodeStrictFromReader call
// the same method, so "lenient and strict" is one obligation here; strictness of the enclosing message shows
// only in "nothing left over", which is asserted through HasUnreadBytes.

// zzArr holds one array value of one of the packed kinds.
type zzArr struct {
	kind int
	bs   []bool
	u32  []uint32
	u64  []uint64
	i64  []int64
	i32  []int32
}

const (
	zzKBools = iota
	zzKUInt32s
	zzKUInts
	zzKInts
	zzKInt32s
	zzKPacked // number of packed kinds
)

func zzNewArr(t *zzT, kind, n int) *zzArr {
	a := &zzArr{kind: kind}
	for i := 0; i < n; i++ {
		switch kind {
		case zzKBools:
			a.bs = append(a.bs, t.Bool(t.Name("bool", i)))
		case zzKUInt32s:
			a.u32 = append(a.u32, t.U32(t.Name("u32", i)))
		case zzKUInts:
			a.u64 = append(a.u64, t.U64(t.Name("u64", i)))
		case zzKInts:
			a.i64 = append(a.i64, t.I64(t.Name("i64", i)))
		case zzKInt32s:
			a.i32 = append(a.i32, t.I32(t.Name("i32", i)))
		}
	}
	return a
}

// write emits the array under field f; emptyNonNil writes a zero-length non-nil slice instead of the held one.
func (a *zzArr) write(w *Writer, f int, emptyNonNil bool) {
	switch a.kind {
	case zzKBools:
		v := a.bs
		if emptyNonNil {
			v = []bool{}
		}
		w.WriteBools(f, v)
	case zzKUInt32s:
		v := a.u32
		if emptyNonNil {
			v = []uint32{}
		}
		w.WriteUInt32s(f, v)
	case zzKUInts:
		v := a.u64
		if emptyNonNil {
			v = []uint64{}
		}
		w.WriteUInts(f, v)
	case zzKInts:
		v := a.i64
		if emptyNonNil {
			v = []int64{}
		}
		w.WriteInts(f, v)
	case zzKInt32s:
		v := a.i32
		if emptyNonNil {
			v = []int32{}
		}
		w.WriteInt32s(f, v)
	}
}

// read reads field f with the reader method of the kind and returns the decoded array, whether it has exactly
// the n elements of `a` (branch-free comparison) and the error.
func (a *zzArr) read(t *zzT, r *Reader, f, n int) (*zzArr, bool, error) {
	got := &zzArr{kind: a.kind}
	same := true
	var err error
	switch a.kind {
	case zzKBools:
		got.bs, err = r.ReadBools(f)
		if len(got.bs) != n {
			return got, false, err
		}
		for i := range got.bs {
			same = t.And(same, got.bs[i] == a.bs[i])
		}
	case zzKUInt32s:
		got.u32, err = r.ReadUInt32s(f)
		if len(got.u32) != n {
			return got, false, err
		}
		for i := range got.u32 {
			same = t.And(same, got.u32[i] == a.u32[i])
		}
	case zzKUInts:
		got.u64, err = r.ReadUInts(f)
		if len(got.u64) != n {
			return got, false, err
		}
		for i := range got.u64 {
			same = t.And(same, got.u64[i] == a.u64[i])
		}
	case zzKInts:
		got.i64, err = r.ReadInts(f)
		if len(got.i64) != n {
			return got, false, err
		}
		for i := range got.i64 {
			same = t.And(same, got.i64[i] == a.i64[i])
		}
	case zzKInt32s:
		// no ReadInt32s in the Reader: the wire form of []int32 is that of the widened []int64
		got.kind = zzKInts
		got.i64, err = r.ReadInts(f)
		if len(got.i64) != n {
			return got, false, err
		}
		for i := range got.i64 {
			same = t.And(same, got.i64[i] == int64(a.i32[i]))
		}
	}
	return got, same, err
}

// C08 packed arrays, forward direction. n = 0..N fully symbolic elements (every uint32 / uint64 / int32 /
// int64 / bool value, so MaxUint32, MinInt64, -1 … are all covered) under a symbolic field number 1..30 (one-
// and two-byte keys):
//   - the array alone: read back gives the same elements, no error, nothing left over;
//   - the array followed by another field (f+1): the array reader stops exactly at the next key — also when the
//     array is EMPTY and therefore absent from the bytes — and the following field is read strictly;
//   - nil and zero-length slices have the same (empty) encoding: absent and empty are identified;
//   - writing the same value twice gives the same bytes, and re-encoding the decoded value gives them again.
//
//zz:opt loop=64 paths=400000 require=empty,nonempty
//zz:quick N=2 WIDE=0
//zz:thorough N=3 WIDE=1 budget=1800s
func zzH_C08_arrays_packed_roundtrip(t *zzT) {
	kind := t.Choice("kind", zzKPacked)
	n := t.Range("n", 0, t.Param("N", 2))
	// field number: symbolic over one- and two-byte keys; the quick tier keeps arrays of two and more elements
	// to one-byte keys and reads them only in front of another field (halves the paths and the queries)
	wide := n <= 1 || t.Param("WIDE", 0) == 1
	f := int(t.U8("field"))
	t.Assume(f >= 1 && f <= 30)
	if !wide {
		t.Assume(f <= 14) // f+1, the field that follows, has a one-byte key as well
	}
	tail := uint64(t.U8("tail") & 0x7f) // one-byte value: the following field adds no forks
	a := zzNewArr(t, kind, n)

	// the array in front of another field
	wf := NewWriter()
	a.write(wf, f, false)
	wf.WriteUInt(f+1, tail)
	full := wf.Result()
	rf := NewReader(full)
	got, same, err := a.read(t, rf, f, n)
	t.Assert(err == nil && same, "packed array before another field: same elements, no error")
	tl, terr := rf.ReadUInt(f+1, true)
	t.Assert(terr == nil && tl == tail && !rf.HasUnreadBytes(), "packed array before another field: the reader stops at the next key, nothing left over")
	w3 := NewWriter()
	got.write(w3, f, false)
	w3.WriteUInt(f+1, tl)
	t.Assert(bytes.Equal(full, w3.Result()), "packed array: re-encoding the decoded value gives the same bytes")

	if wide {
		// the array alone (the reader runs into the end of the data instead of the next key)
		w := NewWriter()
		a.write(w, f, false)
		alone := w.Result()
		w2 := NewWriter()
		a.write(w2, f, false)
		t.Assert(bytes.Equal(alone, w2.Result()), "packed array: two writes of the same value give the same bytes")
		t.Assert(bytes.HasPrefix(full, alone) && len(full) > len(alone), "packed array: the encoding does not depend on what follows")
		r := NewReader(alone)
		_, same, err := a.read(t, r, f, n)
		t.Assert(err == nil && same, "packed array: read(write(v)) has the elements of v, no error")
		t.Assert(!r.HasUnreadBytes(), "packed array: whole encoding consumed")
		if n == 0 {
			we := NewWriter()
			a.write(we, f, true)
			t.Assert(len(alone) == 0 && len(we.Result()) == 0, "packed array: nil and zero-length arrays are both absent from the encoding")
		} else {
			t.Assert(len(alone) >= 2+n, "packed array: key, length and one byte per element at least")
		}
	}
	if n == 0 {
		t.Reach("empty")
	} else {
		t.Reach("nonempty")
	}
}

// zzElems: n byte strings, each of a length chosen in [0, maxLen], contents symbolic (ASCII only when ascii).
func zzElems(t *zzT, n, maxLen int, ascii bool) [][]byte {
	out := make([][]byte, n)
	for i := range out {
		l := t.Range(t.Name("elem.len", i), 0, maxLen)
		out[i] = t.Bytes(t.Name("elem", i), l)
		if ascii {
			for _, c := range out[i] {
				t.Assume(c < 0x80)
			}
		}
	}
	return out
}

func zzSameBytesArray(t *zzT, x, y [][]byte) bool {
	if len(x) != len(y) {
		return false
	}
	same := true
	for i := range x {
		same = t.And(same, bytes.Equal(x[i], y[i]))
	}
	return same
}

// C08 repeated arrays, forward direction. n = 0..N elements of 0..L symbolic bytes each (an EMPTY element is a
// legal element and must survive), symbolic field number 1..30, alone and in front of another field:
//
//	kind 0  [][]byte            WriteBytesArray / ReadBytesArray
//	kind 1  []Lisk32  -> Lisk32ArrayToBytesArray -> wire -> BytesArrayToLisk32Array  (conversion loses nothing)
//	kind 2  []Hex     -> HexArrayToBytesArray    -> wire -> BytesArrayToHexArray
//	kind 3  []string  symbolic ASCII contents     WriteStrings / ReadStrings
//	kind 4  []string  concrete non-ASCII corners, some NOT in NFC: the strings read back are the NFC forms
//	        ("strings compared in NFC form"), and what was written is accepted by the NFC-checking reader.
//
//zz:opt loop=64 paths=400000 require=empty,nonempty,nfc
//zz:quick N=2 L=2
//zz:thorough N=3 L=3 budget=1800s
func zzH_C08_arrays_repeated_roundtrip(t *zzT) {
	kind := t.Choice("kind", 5)
	N := t.Param("N", 2)
	n := t.Range("n", 0, N)
	f := int(t.U8("field"))
	t.Assume(f >= 1 && f <= 30)
	tail := uint64(t.U16("tail"))

	var elems [][]byte // what is handed to the writer (before NFC)
	var want [][]byte  // what must come back
	if kind == 4 {
		// decomposed e-acute, empty, composed e-acute, A + ring, long s with dot above + dot below, Hangul jamo,
		// q with two marks in non-canonical order
		corners := []string{"e\u0301", "", "\u00e9", "A\u030a", "\u1e9b\u0323", "\u1112\u1161\u11ab", "q\u0307\u0323"}
		first := t.Range("corner", 0, len(corners)-1)
		for i := 0; i < n; i++ {
			s := corners[(first+i)%len(corners)]
			elems = append(elems, []byte(s))
			want = append(want, []byte(norm.NFC.String(s)))
		}
	} else {
		elems = zzElems(t, n, t.Param("L", 2), kind == 3)
		want = elems
	}

	write := func(w *Writer, es [][]byte, emptyNonNil bool) {
		switch kind {
		case 0:
			if emptyNonNil {
				es = [][]byte{}
			}
			w.WriteBytesArray(f, es)
		case 1:
			l := make([]Lisk32, len(es))
			for i := range es {
				l[i] = es[i]
			}
			if emptyNonNil {
				l = []Lisk32{}
			}
			w.WriteBytesArray(f, Lisk32ArrayToBytesArray(l))
		case 2:
			h := make([]Hex, len(es))
			for i := range es {
				h[i] = es[i]
			}
			if emptyNonNil {
				h = []Hex{}
			}
			w.WriteBytesArray(f, HexArrayToBytesArray(h))
		default:
			s := make([]string, len(es))
			for i := range es {
				s[i] = string(es[i])
			}
			if emptyNonNil {
				s = []string{}
			}
			w.WriteStrings(f, s)
		}
	}
	read := func(r *Reader) ([][]byte, error) {
		switch kind {
		case 0:
			return r.ReadBytesArray(f)
		case 1:
			v, err := r.ReadBytesArray(f)
			l := BytesArrayToLisk32Array(v)
			out := make([][]byte, len(l))
			for i := range l {
				out[i] = l[i]
			}
			return out, err
		case 2:
			v, err := r.ReadBytesArray(f)
			h := BytesArrayToHexArray(v)
			out := make([][]byte, len(h))
			for i := range h {
				out[i] = h[i]
			}
			return out, err
		default:
			v, err := r.ReadStrings(f)
			out := make([][]byte, len(v))
			for i := range v {
				out[i] = []byte(v[i])
			}
			return out, err
		}
	}

	w := NewWriter()
	write(w, elems, false)
	alone := w.Result()
	w2 := NewWriter()
	write(w2, elems, false)
	t.Assert(bytes.Equal(alone, w2.Result()), "repeated array: two writes of the same value give the same bytes")
	r := NewReader(alone)
	got, err := read(r)
	t.Assert(err == nil, "repeated array: reader accepts what the writer produced")
	t.Assert(zzSameBytesArray(t, got, want), "repeated array: read(write(v)) has the elements of v (strings in NFC)")
	t.Assert(!r.HasUnreadBytes(), "repeated array: whole encoding consumed")
	w3 := NewWriter()
	write(w3, got, false)
	t.Assert(bytes.Equal(alone, w3.Result()), "repeated array: re-encoding the decoded value gives the same bytes")

	wf := NewWriter()
	write(wf, elems, false)
	wf.WriteUInt(f+1, tail)
	rf := NewReader(wf.Result())
	got, err = read(rf)
	t.Assert(err == nil && zzSameBytesArray(t, got, want), "repeated array before another field: same elements, no error")
	tl, terr := rf.ReadUInt(f+1, true)
	t.Assert(terr == nil && tl == tail, "repeated array before another field: the reader stops at the next key")
	t.Assert(!rf.HasUnreadBytes(), "repeated array before another field: nothing left over")

	if n == 0 {
		we := NewWriter()
		write(we, nil, true)
		t.Assert(len(alone) == 0 && len(we.Result()) == 0 && len(got) == 0, "repeated array: nil and zero-length arrays are both absent from the encoding and read back empty")
		t.Reach("empty")
	} else {
		t.Assert(len(alone) >= 2*n, "repeated array: key and length per element at least")
		t.Reach("nonempty")
		if kind == 4 {
			t.Reach("nfc")
		}
	}
}

// NOT REGISTERED (function name zzX_, the engine runs zzH_ only): Writer.Size() is wrong on the pinned tree
// (writeUInt / writeInt assign `w.size = size` instead of adding: NewWriter(); WriteUInt(1, 0) gives Size() == 1,
// len(Result()) == 2), but no statement of C08 speaks about Size() and no non-test code calls it — the check would
// demand more than the property states, so it is an observation (DESIGN.md section 0.10), not a finding.
// C08 Writer.Size: the size the writer reports is the number of bytes it has written, after any sequence of
// 1..K public write calls with symbolic arguments (scalars, packed arrays, repeated arrays).
//
//zz:opt loop=64 require=end
//zz:quick K=2
//zz:thorough K=3
func zzX_C08_arrays_writer_size(t *zzT) {
	w := NewWriter()
	t.Assert(w.Size() == 0 && len(w.Result()) == 0, "a new writer is empty")
	k := t.Range("calls", 1, t.Param("K", 2))
	for i := 0; i < k; i++ {
		f := i + 1
		switch t.Choice(t.Name("method", i), 9) {
		case 0:
			w.WriteBool(f, t.Bool(t.Name("bool", i)))
		case 1:
			w.WriteUInt(f, uint64(t.U16(t.Name("uint", i))))
		case 2:
			w.WriteInt(f, int64(int16(t.U16(t.Name("int", i)))))
		case 3:
			w.WriteBytes(f, t.Bytes(t.Name("bytes", i), t.Range(t.Name("bytes.len", i), 0, 2)))
		case 4:
			w.WriteBools(f, []bool{t.Bool(t.Name("bools0", i)), t.Bool(t.Name("bools1", i))})
		case 5:
			w.WriteUInt32s(f, []uint32{uint32(t.U16(t.Name("u32s0", i))), 7})
		case 6:
			w.WriteInts(f, []int64{int64(int16(t.U16(t.Name("ints0", i)))), -1})
		case 7:
			w.WriteBytesArray(f, [][]byte{t.Bytes(t.Name("arr0", i), 1), {}})
		case 8:
			w.WriteStrings(f, []string{"a", "bc"})
		}
		t.Assert(w.Size() == len(w.Result()), "Writer.Size is the number of bytes written")
	}
	t.Reach("end")
}

// C08 array readers, reverse direction: an ARBITRARY buffer of 0..N symbolic bytes read as field 1.
//
//   - every kind: if the reader accepts, it stays inside the buffer, and the value it returns is a fixpoint of
//     the codec: writing it and reading it back gives the same value, no error, nothing left over, and writing
//     that again gives the same bytes (decode∘encode is the identity on everything the reader can return);
//   - repeated kinds ([][]byte, []string — the form Transaction.Signatures uses, the only array inside the
//     strictly decoded transaction): the accepted prefix of the buffer IS the encoding of the returned value
//     (shortest keys and lengths, NFC strings), i.e. the strict reader is canonical there.
//
// The packed readers are deliberately NOT required to be canonical: no strictly decoded schema of /repo has a
// packed field, and the reader does accept non-canonical forms (an explicit zero-length array `0a 00`, an
// element that crosses the declared length, a uint64 element truncated by ReadUInt32s).
//
//zz:opt loop=64 paths=400000 require=accepted,rejected,canonical
//zz:quick N=6
//zz:thorough N=8 budget=1800s
func zzH_C08_arrays_accept_reencode(t *zzT) {
	kind := t.Choice("kind", 6)
	b := zzBuf(t, "b", t.Param("N", 6))
	const f = 1
	r := NewReader(b)
	switch kind {
	case 0, 1, 2, 3:
		pk := []int{zzKBools, zzKUInt32s, zzKUInts, zzKInts}[kind]
		a := &zzArr{kind: pk}
		var err error
		n := 0
		switch pk {
		case zzKBools:
			a.bs, err = r.ReadBools(f)
			n = len(a.bs)
		case zzKUInt32s:
			a.u32, err = r.ReadUInt32s(f)
			n = len(a.u32)
		case zzKUInts:
			a.u64, err = r.ReadUInts(f)
			n = len(a.u64)
		case zzKInts:
			a.i64, err = r.ReadInts(f)
			n = len(a.i64)
		}
		if err != nil {
			t.Assert(n == 0, "a rejected packed array is returned empty")
			t.Reach("rejected")
			return
		}
		t.Assert(r.index >= 0 && r.index <= len(b), "packed array reader stays inside the buffer")
		w := NewWriter()
		a.write(w, f, false)
		enc := w.Result()
		r2 := NewReader(enc)
		got, same, err2 := a.read(t, r2, f, n)
		t.Assert(err2 == nil && same && !r2.HasUnreadBytes(), "packed array: an accepted value survives write and read")
		w2 := NewWriter()
		got.write(w2, f, false)
		t.Assert(bytes.Equal(enc, w2.Result()), "packed array: re-encoding an accepted value is stable")
		t.Reach("accepted")
	default:
		var got [][]byte
		var err error
		if kind == 4 {
			got, err = r.ReadBytesArray(f)
		} else {
			var s []string
			s, err = r.ReadStrings(f)
			for _, x := range s {
				got = append(got, []byte(x))
			}
		}
		if err != nil {
			t.Reach("rejected")
			return
		}
		t.Assert(r.index >= 0 && r.index <= len(b), "repeated array reader stays inside the buffer")
		if r.index < 0 || r.index > len(b) {
			return
		}
		w := NewWriter()
		if kind == 4 {
			w.WriteBytesArray(f, got)
		} else {
			s := make([]string, len(got))
			for i := range got {
				s[i] = string(got[i])
			}
			w.WriteStrings(f, s)
		}
		t.Assert(bytes.Equal(w.Result(), b[:r.index]), "repeated array: the accepted bytes are exactly the encoding of the returned value")
		t.Reach("accepted")
		if len(got) > 0 {
			t.Reach("canonical")
		}
	}
}
