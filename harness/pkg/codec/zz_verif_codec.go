//go:build verif

package codec

import "bytes"

// zzBuf returns a fully symbolic buffer whose length is chosen in [0, maxN].
func zzBuf(t *zzT, name string, maxN int) []byte {
	n := t.Range(name+".len", 0, maxN)
	return t.Bytes(name, n)
}

// C08.a: writeUInt ∘ readUInt is the identity on all 64-bit values and consumes everything written.
//zz:opt loop=12
func zzH_C08_uvarint_roundtrip(t *zzT) {
	v := t.U64("v")
	w := NewWriter()
	w.writeUInt(v)
	enc := w.Result()
	r := NewReader(enc)
	got, err := r.readUInt()
	t.ObserveU64("got", got)
	t.ObserveBytes("enc", enc)
	t.Assert(err == nil, "readUInt accepts what writeUInt produced")
	t.Assert(got == v, "readUInt(writeUInt(v)) == v")
	t.Assert(!r.HasUnreadBytes(), "whole encoding consumed")
	t.Assert(varintShortestSize(v) == len(enc), "encoding has the shortest size")
	t.Reach("end")
}

// C08.a: signed varints round-trip for all int64 (zig-zag).
//zz:opt loop=12
func zzH_C08_varint_roundtrip(t *zzT) {
	v := t.I64("v")
	w := NewWriter()
	w.writeInt(v)
	r := NewReader(w.Result())
	got, err := r.readInt()
	t.ObserveU64("got", uint64(got))
	t.Assert(err == nil, "readInt accepts what writeInt produced")
	t.Assert(got == v, "readInt(writeInt(v)) == v")
	t.Reach("end")
}

// C08.a: readUint accepts a byte string only if it is the canonical (shortest) encoding of the
// value it returns; size is the number of bytes of that encoding.
//zz:opt loop=12
//zz:quick N=11
//zz:thorough N=12
func zzH_C08_readuint_canonical(t *zzT) {
	b := zzBuf(t, "b", t.Param("N", 11))
	val, size, err := readUint(b, 0)
	if err == nil {
		w := NewWriter()
		w.writeUInt(val)
		t.Assert(size >= 1 && size <= len(b), "size within buffer")
		if size >= 1 && size <= len(b) {
			t.Assert(bytes.Equal(w.Result(), b[:size]), "accepted bytes are exactly the canonical encoding of the value")
		}
		t.Reach("accepted")
	} else {
		t.Reach("rejected")
	}
}

// C09.a (reader level): no Reader entry point panics or loops on an arbitrary buffer.
//zz:opt loop=24
//zz:quick N=4
//zz:thorough N=7
func zzH_C09_reader_methods(t *zzT) {
	b := zzBuf(t, "b", t.Param("N", 4))
	strict := t.Bool("strict")
	fieldNumber := int(t.U8("field")%4) + 1
	which := t.Choice("method", 12)
	r := NewReader(b)
	switch which {
	case 0:
		r.ReadUInt(fieldNumber, strict)
	case 1:
		r.ReadInt(fieldNumber, strict)
	case 2:
		r.ReadBool(fieldNumber, strict)
	case 3:
		r.ReadBytes(fieldNumber, strict)
	case 4:
		r.ReadString(fieldNumber, strict)
	case 5:
		r.ReadUInts(fieldNumber)
	case 6:
		r.ReadInts(fieldNumber)
	case 7:
		r.ReadBools(fieldNumber)
	case 8:
		r.ReadBytesArray(fieldNumber)
	case 9:
		r.ReadStrings(fieldNumber)
	case 10:
		r.ReadUInt32s(fieldNumber)
	case 11:
		r.ReadInt32(fieldNumber, strict)
	}
	t.Reach("returned")
}

// C09.a (length prefixes): a length-delimited field whose length prefix is ANY 64-bit varint (all 10
// bytes symbolic, so also values >= 2^63 that wrap when converted to int) is rejected or read without
// panic, without oversized allocation and without reading out of bounds.
//
//zz:opt loop=24
func zzH_C09_reader_length_prefix(t *zzT) {
	// key (field 1, wire type 2) + 10-byte length varint + 1 payload byte
	b := append([]byte{0x0a}, t.Bytes("len", 10)...)
	b = append(b, t.U8("payload"))
	which := t.Choice("method", 5)
	r := NewReader(b)
	switch which {
	case 0:
		r.ReadBytes(1, t.Bool("strict"))
	case 1:
		r.ReadString(1, t.Bool("strict"))
	case 2:
		r.ReadBytesArray(1)
	case 3:
		r.ReadStrings(1)
	case 4:
		r.ReadDecodable(1, func() DecodableReader { return &zzNested{} }, t.Bool("strict"))
	}
	t.Reach("returned")
}

type zzNested struct{ v []byte }

func (n *zzNested) DecodeFromReader(r *Reader) error {
	v, err := r.ReadBytes(1, false)
	n.v = v
	return err
}

// C08.c field keys at full width: a field is consumed only under its own key — the shortest-form varint
// of (fieldNumber<<3 | wireType) — and under no other 64-bit key value, in particular none that agrees
// with it only in its low 32 bits. Input: a 10-byte symbolic varint as the key, then the one-byte value
// 0x05; strict ReadUInt of a symbolic small field number. Whenever the read succeeds with the value,
// the key bytes are exactly the canonical key bytes.
//
//zz:opt loop=64 require=consumed,refused
func zzH_C08_reader_key_full_width(t *zzT) {
	kb := t.Bytes("key", 10)
	klen := t.Range("key.len", 1, 10)
	b := append(append([]byte{}, kb[:klen]...), 0x05)
	field := int(t.U8("field"))
	t.Assume(field >= 1 && field <= 31)
	r := NewReader(b)
	v, err := r.ReadUInt(field, true)
	if err == nil && v == 5 {
		// the reader consumed r.index bytes: the key and the one value byte (bytes after it are not its concern)
		used := r.index - 1
		if field <= 15 {
			t.Assert(used == 1 && kb[0] == byte(field<<3), "a field is consumed only under its canonical key (one byte)")
		} else {
			t.Assert(used == 2 && kb[0] == byte(field<<3)|0x80 && kb[1] == byte(field>>4), "a field is consumed only under its canonical key (two bytes)")
		}
		t.Reach("consumed")
		return
	}
	t.Reach("refused")
}

// C08 "encoding is deterministic … IDs are unchanged by re-encoding" when several goroutines encode at the same
// time (p2p handlers, RPC, the consensus loop all encode): two goroutines encode different values concurrently;
// each result equals the sequential encoding of its own value, for all interleavings within the scheduling
// budget, with the race monitor on (encoders must not share scratch state).
// (seed C08-8 hoisted the varint scratch buffer into a package-level array shared by all Writers.)
//
//zz:opt loop=64 sched=2 join=1 race=1 racereport=1 schedule=1 blockfree=0
func zzH_C08_concurrent_encode(t *zzT) {
	x, y := uint64(t.U16("x")), uint64(t.U16("y"))
	sx, sy := int64(int8(t.U8("sx"))), int64(int8(t.U8("sy")))
	enc := func(u uint64, s int64) []byte {
		w := NewWriter()
		w.WriteUInt(1, u)
		w.WriteInt(2, s)
		return w.Result()
	}
	wantX, wantY := enc(x, sx), enc(y, sy)
	reps := 1
	if !t.Symbolic() {
		reps = 2000
	}
	for r := 0; r < reps; r++ {
		var gotX []byte
		done := make(chan struct{})
		go func() {
			gotX = enc(x, sx)
			close(done)
		}()
		gotY := enc(y, sy)
		<-done
		t.Assert(bytes.Equal(gotX, wantX) && bytes.Equal(gotY, wantY), "concurrent encoders produce the sequential encodings of their own values")
	}
	t.Reach("end")
}
