//go:build verif

package codec


// C08.e Lisk32 addresses (LIP-0018). Fully symbolic harnesses (20 symbolic address bytes -> text -> bytes;
// 41 symbolic characters accepted => canonical) and a checksum-algebra harness were built and dropped:
// the XOR algebra of polymod over ite-merged branches is not decided by z3 / cvc5 within minutes per
// query (timeouts), see DESIGN §0.8. What is registered: the bit regrouping for ALL addresses (solver),
// and the acceptance of one-character deviations from two concrete canonical texts (byte enumerated).

// zzQuintets: n symbolic 5-bit values.
func zzQuintets(t *zzT, name string, n int) []int {
	out := make([]int, n)
	for i := range out {
		v := t.U8(t.Name(name, i))
		t.Assume(v < 32)
		out[i] = int(v)
	}
	return out
}

// C08.e bit regrouping: 20 bytes -> 32 quintets -> 20 bytes and 32 quintets -> 20 bytes -> 32 quintets
// are identities (160 bits either way: no padding is lost or invented).
//
//zz:opt loop=400 require=end mirrors=cvc5
func zzH_C08_lisk32_regroup(t *zzT) {
	raw := t.Bytes("address", 20)
	in := make([]int, 20)
	for i, b := range raw {
		in[i] = int(b)
	}
	q := convertUIntArray(in, 8, 5)
	t.Assert(len(q) == 32, "20 bytes regroup into 32 quintets")
	back := convertUIntArray(q, 5, 8)
	ok := len(back) == 20
	for i := 0; ok && i < 20; i++ {
		ok = back[i] == in[i]
	}
	t.Assert(ok, "bytes -> quintets -> bytes is the identity")
	qs := zzQuintets(t, "quintet", 32)
	bs := convertUIntArray(qs, 5, 8)
	again := convertUIntArray(bs, 8, 5)
	ok = len(bs) == 20 && len(again) == 32
	for i := 0; ok && i < 32; i++ {
		ok = again[i] == qs[i]
	}
	t.Assert(ok, "quintets -> bytes -> quintets is the identity")
	t.Reach("end")
}

// C08.e characters: the canonical text of an address with ONE character replaced by an arbitrary ASCII
// byte — at any of the 38 positions after the prefix — is accepted by ValidateLisk32 / Lisk32ToBytes iff
// the byte is the original character (no other character of the alphabet, no character outside it, no
// other case). Base addresses: all zero (every data character is the first alphabet character) and a
// mixed one; the replaced byte is symbolic, the position chosen per path.
//
//zz:opt loop=400 require=end,unchanged,changed paths=2000000
//zz:quick ALLPOS=0 budget=300s
//zz:thorough ALLPOS=1 budget=1800s
func zzH_C08_lisk32_one_character(t *zzT) {
	addr := make([]byte, 20)
	if t.Bool("mixed address") {
		for i := range addr {
			addr[i] = byte(37*i + 11)
		}
	}
	text, err := BytesToLisk32(addr)
	t.Assert(err == nil && len(text) == 41 && ValidateLisk32(text) == nil, "the text of an address is accepted")
	back, err := Lisk32ToBytes(text)
	t.Assert(err == nil && string(back) == string(addr), "text of an address decodes to the address")
	// quick: eight representative positions (first / middle / last data character, every boundary of the
	// checksum); thorough: all 38. The replacing byte is concretised (128 paths per position): with a
	// symbolic byte the XOR algebra of polymod over the ite-merged branches times out in the solvers.
	positions := []int{0, 1, 15, 30, 31, 32, 33, 37}
	if t.Param("ALLPOS", 0) == 1 {
		positions = nil
		for i := 0; i < 38; i++ {
			positions = append(positions, i)
		}
	}
	pos := 3 + positions[t.Choice("position", len(positions))]
	c := byte(64*t.Choice("replacement.hi", 2) + t.Range("replacement.lo", 0, 63))
	mutated := []byte(text)
	orig := mutated[pos]
	mutated[pos] = c
	m := string(mutated)
	verr := ValidateLisk32(m)
	_, derr := Lisk32ToBytes(m)
	if c == orig {
		t.Assert(verr == nil && derr == nil, "the unchanged text is accepted")
		t.Reach("unchanged")
	} else {
		t.Assert(verr != nil && derr != nil, "a text that differs from the canonical one in one character is rejected")
		t.Reach("changed")
	}
	t.Reach("end")
}
